/-
  FilterSchemas (`allowed_objects`) against `Reach`.

  * `allow_sound`  : whatever the allow list contains is reachable (no hypothesis beyond `Closed`
                     and dot-free package names — the allow list is keyed by "pkg.name" strings);
  * `allow_complete`: everything reachable is in the allow list — when every use is a reference at
                     a position the Visitor walks (`visOK`, decidable).  Without that hypothesis the
                     statement is false (map index types, constant references, mapping targets,
                     hint payloads: see the counterexamples in Cog/Props/C05.lean).
  Both are invariants of the unbounded `for` loop, proved by induction over the rounds and over the
  fold inside a round; they speak about a run that ends (`buildAllowList = some …`).
-/
import Cog.Closed.FilterSchemas
import Cog.Closed.Lemmas
import Cog.Closed.Rename
set_option linter.unusedSectionVars false
namespace Cog.Closed.FilterSchemas
open Cog.IR Cog.Closed
open Cog.OMap (rget rset)

def keyOf (a : Addr) : String := refKey a.1 a.2

def noDot (s : String) : Prop := '.' ∉ s.toList

instance (s : String) : Decidable (noDot s) := inferInstanceAs (Decidable ('.' ∉ s.toList))

theorem split_dot : ∀ (l1 l2 r1 r2 : List Char), '.' ∉ l1 → '.' ∉ l2 →
    l1 ++ '.' :: r1 = l2 ++ '.' :: r2 → l1 = l2 ∧ r1 = r2
  | [], [], _, _, _, _, h => by simpa using h
  | [], b :: l2, _, _, _, h2, h => by
    simp only [List.nil_append, List.cons_append, List.cons.injEq] at h
    exact absurd (h.1 ▸ List.mem_cons_self) h2
  | a :: l1, [], _, _, h1, _, h => by
    simp only [List.nil_append, List.cons_append, List.cons.injEq] at h
    exact absurd (h.1 ▸ List.mem_cons_self) h1
  | a :: l1, b :: l2, r1, r2, h1, h2, h => by
    simp only [List.cons_append, List.cons.injEq] at h
    have := split_dot l1 l2 r1 r2 (fun hm => h1 (List.mem_cons_of_mem _ hm))
      (fun hm => h2 (List.mem_cons_of_mem _ hm)) h.2
    exact ⟨by rw [h.1, this.1], this.2⟩

theorem refKey_inj {p p' n n' : String} (hp : noDot p) (hp' : noDot p') (h : refKey p n = refKey p' n') :
    p = p' ∧ n = n' := by
  have h' := congrArg String.toList h
  simp only [refKey, String.toList_append] at h'
  have e : ∀ x y : String, x.toList ++ ".".toList ++ y.toList = x.toList ++ '.' :: y.toList := by
    intro x y; simp
  rw [e, e] at h'
  have := split_dot _ _ _ _ hp hp' h'
  exact ⟨String.toList_inj.mp this.1, String.toList_inj.mp this.2⟩

/-! ### the allow list as a set -/

theorem mem_setKey (k x : String) (l : List String) : x ∈ setKey k l ↔ x = k ∨ x ∈ l := by
  simp only [setKey]
  split
  · rename_i h
    have : k ∈ l := by simpa using h
    constructor
    · exact Or.inr
    · rintro (rfl | h)
      · exact this
      · exact h
  · simp [or_comm]

/-! ### what the `OnRef` walk collects -/

def hasKey (r : Roots) (k : String) : Prop := ∃ e ∈ r, e.1 = k

theorem hasKey_rset (k : String) (o : Obj) (r : Roots) (k' : String) :
    hasKey (rset k o r) k' ↔ k = k' ∨ hasKey r k' := keys_rset k o r k'

mutual
theorem visit_mem (S : Schemas) (home : String) : ∀ (t : Ty) (r : Roots), ∀ e ∈ visitRefs S t r,
    e ∈ r ∨ ∃ p n, (⟨.ref, p, n⟩ : Use) ∈ Ty.uses home t ∧ Schemas.locateObject S p n = some e.2 ∧ e.1 = refKey p n
  | .scalar .., r, e, he => Or.inl (by simpa [visitRefs] using he)
  | .ref p n _, r, e, he => by
    simp only [visitRefs] at he
    cases ho : Schemas.locateObject S p n with
    | none => rw [ho] at he; exact Or.inl he
    | some o =>
      rw [ho] at he
      rcases mem_rset _ _ _ _ he with rfl | he
      · exact Or.inr ⟨p, n, by simp [Ty.uses], ho, rfl⟩
      · exact Or.inl he
  | .cref .., r, e, he => Or.inl (by simpa [visitRefs] using he)
  | .array el _, r, e, he => by
    simp only [visitRefs] at he
    rcases visit_mem S home el r e he with h | ⟨p, n, h1, h2⟩
    · exact Or.inl h
    · exact Or.inr ⟨p, n, by simpa [Ty.uses] using h1, h2⟩
  | .map i v _, r, e, he => by
    simp only [visitRefs] at he
    rcases visit_mem S home v r e he with h | ⟨p, n, h1, h2⟩
    · exact Or.inl h
    · exact Or.inr ⟨p, n, by simp [Ty.uses, h1], h2⟩
  | .struct fs g gi _, r, e, he => by
    simp only [visitRefs] at he
    rcases visitFields_mem S home fs r e he with h | ⟨p, n, h1, h2⟩
    · exact Or.inl h
    · exact Or.inr ⟨p, n, by simp [Ty.uses, h1], h2⟩
  | .enum .., r, e, he => Or.inl (by simpa [visitRefs] using he)
  | .disj bs _ _, r, e, he => by
    simp only [visitRefs] at he
    rcases visitList_mem S home bs r e he with h | ⟨p, n, h1, h2⟩
    · exact Or.inl h
    · exact Or.inr ⟨p, n, by simp [Ty.uses, h1], h2⟩
  | .inter bs _, r, e, he => by
    simp only [visitRefs] at he
    rcases visitList_mem S home bs r e he with h | ⟨p, n, h1, h2⟩
    · exact Or.inl h
    · exact Or.inr ⟨p, n, by simpa [Ty.uses] using h1, h2⟩
  | .slot .., r, e, he => Or.inl (by simpa [visitRefs] using he)
  | .bad .., r, e, he => Or.inl (by simpa [visitRefs] using he)
theorem visitList_mem (S : Schemas) (home : String) : ∀ (ts : List Ty) (r : Roots), ∀ e ∈ visitRefsList S ts r,
    e ∈ r ∨ ∃ p n, (⟨.ref, p, n⟩ : Use) ∈ Ty.usesList home ts ∧ Schemas.locateObject S p n = some e.2 ∧ e.1 = refKey p n
  | [], r, e, he => Or.inl (by simpa [visitRefsList] using he)
  | t :: ts, r, e, he => by
    simp only [visitRefsList] at he
    rcases visitList_mem S home ts _ e he with h | ⟨p, n, h1, h2⟩
    · rcases visit_mem S home t r e h with h | ⟨p, n, h1, h2⟩
      · exact Or.inl h
      · exact Or.inr ⟨p, n, by simp [Ty.usesList, h1], h2⟩
    · exact Or.inr ⟨p, n, by simp [Ty.usesList, h1], h2⟩
theorem visitFields_mem (S : Schemas) (home : String) : ∀ (fs : List Field) (r : Roots), ∀ e ∈ visitRefsFields S fs r,
    e ∈ r ∨ ∃ p n, (⟨.ref, p, n⟩ : Use) ∈ Ty.usesFields home fs ∧ Schemas.locateObject S p n = some e.2 ∧ e.1 = refKey p n
  | [], r, e, he => Or.inl (by simpa [visitRefsFields] using he)
  | f :: fs, r, e, he => by
    simp only [visitRefsFields] at he
    rcases visitFields_mem S home fs _ e he with h | ⟨p, n, h1, h2⟩
    · rcases visit_mem S home f.ty r e h with h | ⟨p, n, h1, h2⟩
      · exact Or.inl h
      · exact Or.inr ⟨p, n, by simp [Ty.usesFields, h1], h2⟩
    · exact Or.inr ⟨p, n, by simp [Ty.usesFields, h1], h2⟩
end

mutual
theorem visit_mono (S : Schemas) : ∀ (t : Ty) (r : Roots) (k : String), hasKey r k → hasKey (visitRefs S t r) k
  | .scalar .., r, k, h => by simpa [visitRefs] using h
  | .ref p n _, r, k, h => by
    simp only [visitRefs]
    cases Schemas.locateObject S p n with
    | none => exact h
    | some o => exact (hasKey_rset _ _ _ _).mpr (Or.inr h)
  | .cref .., r, k, h => by simpa [visitRefs] using h
  | .array el _, r, k, h => by simp only [visitRefs]; exact visit_mono S el r k h
  | .map _ v _, r, k, h => by simp only [visitRefs]; exact visit_mono S v r k h
  | .struct fs _ _ _, r, k, h => by simp only [visitRefs]; exact visitFields_mono S fs r k h
  | .enum .., r, k, h => by simpa [visitRefs] using h
  | .disj bs _ _, r, k, h => by simp only [visitRefs]; exact visitList_mono S bs r k h
  | .inter bs _, r, k, h => by simp only [visitRefs]; exact visitList_mono S bs r k h
  | .slot .., r, k, h => by simpa [visitRefs] using h
  | .bad .., r, k, h => by simpa [visitRefs] using h
theorem visitList_mono (S : Schemas) : ∀ (ts : List Ty) (r : Roots) (k : String), hasKey r k → hasKey (visitRefsList S ts r) k
  | [], r, k, h => by simpa [visitRefsList] using h
  | t :: ts, r, k, h => by
    simp only [visitRefsList]; exact visitList_mono S ts _ k (visit_mono S t r k h)
theorem visitFields_mono (S : Schemas) : ∀ (fs : List Field) (r : Roots) (k : String), hasKey r k → hasKey (visitRefsFields S fs r) k
  | [], r, k, h => by simpa [visitRefsFields] using h
  | f :: fs, r, k, h => by
    simp only [visitRefsFields]; exact visitFields_mono S fs _ k (visit_mono S f.ty r k h)
end

/- every use is a reference at a position the Visitor walks -/
mutual
def visible (home : String) : Ty → Bool
  | .cref .. => false
  | .array e _ => visible home e
  | .map i v _ => (Ty.uses home i).isEmpty && visible home v
  | .struct fs g gi _ => visibleFields home fs && (Ty.usesList home g).isEmpty && (giUses home gi).isEmpty
  | .disj bs di _ => visibleList home bs && di.mapping.isEmpty
  | .inter bs _ => visibleList home bs
  | _ => true
def visibleList (home : String) : List Ty → Bool
  | [] => true
  | t :: ts => visible home t && visibleList home ts
def visibleFields (home : String) : List Field → Bool
  | [] => true
  | f :: fs => visible home f.ty && visibleFields home fs
end

def visOK (S : Schemas) : Bool := S.all fun s => s.objects.all fun kv => visible s.pkg kv.2.ty

mutual
theorem visit_complete (S : Schemas) (home : String) : ∀ (t : Ty) (r : Roots), visible home t = true →
    ∀ u ∈ Ty.uses home t, ∀ o, Schemas.locateObject S u.pkg u.name = some o → hasKey (visitRefs S t r) (refKey u.pkg u.name)
  | .scalar .., r, _, u, hu, _, _ => by simp [Ty.uses] at hu
  | .ref p n _, r, _, u, hu, o, ho => by
    simp only [Ty.uses, List.mem_singleton] at hu
    subst hu
    simp only at ho
    simp only [visitRefs, ho]
    exact (hasKey_rset _ _ _ _).mpr (Or.inl rfl)
  | .cref .., r, hv, _, _, _, _ => by simp [visible] at hv
  | .array el _, r, hv, u, hu, o, ho => by
    simp only [visible] at hv
    simp only [Ty.uses] at hu
    simp only [visitRefs]
    exact visit_complete S home el r hv u hu o ho
  | .map i v _, r, hv, u, hu, o, ho => by
    simp only [visible, Bool.and_eq_true, List.isEmpty_iff] at hv
    simp only [Ty.uses, hv.1, List.nil_append] at hu
    simp only [visitRefs]
    exact visit_complete S home v r hv.2 u hu o ho
  | .struct fs g gi _, r, hv, u, hu, o, ho => by
    simp only [visible, Bool.and_eq_true, List.isEmpty_iff] at hv
    simp only [Ty.uses, hv.1.2, hv.2, List.append_nil] at hu
    simp only [visitRefs]
    exact visitFields_complete S home fs r hv.1.1 u hu o ho
  | .enum .., r, _, u, hu, _, _ => by simp [Ty.uses] at hu
  | .disj bs di _, r, hv, u, hu, o, ho => by
    simp only [visible, Bool.and_eq_true, List.isEmpty_iff] at hv
    simp only [Ty.uses, mappingUses, hv.2, List.map_nil, List.append_nil] at hu
    simp only [visitRefs]
    exact visitList_complete S home bs r hv.1 u hu o ho
  | .inter bs _, r, hv, u, hu, o, ho => by
    simp only [visible] at hv
    simp only [Ty.uses] at hu
    simp only [visitRefs]
    exact visitList_complete S home bs r hv u hu o ho
  | .slot .., r, _, u, hu, _, _ => by simp [Ty.uses] at hu
  | .bad .., r, _, u, hu, _, _ => by simp [Ty.uses] at hu
theorem visitList_complete (S : Schemas) (home : String) : ∀ (ts : List Ty) (r : Roots), visibleList home ts = true →
    ∀ u ∈ Ty.usesList home ts, ∀ o, Schemas.locateObject S u.pkg u.name = some o → hasKey (visitRefsList S ts r) (refKey u.pkg u.name)
  | [], r, _, u, hu, _, _ => by simp [Ty.usesList] at hu
  | t :: ts, r, hv, u, hu, o, ho => by
    simp only [visibleList, Bool.and_eq_true] at hv
    simp only [Ty.usesList, List.mem_append] at hu
    simp only [visitRefsList]
    rcases hu with hu | hu
    · exact visitList_mono S ts _ _ (visit_complete S home t r hv.1 u hu o ho)
    · exact visitList_complete S home ts _ hv.2 u hu o ho
theorem visitFields_complete (S : Schemas) (home : String) : ∀ (fs : List Field) (r : Roots), visibleFields home fs = true →
    ∀ u ∈ Ty.usesFields home fs, ∀ o, Schemas.locateObject S u.pkg u.name = some o → hasKey (visitRefsFields S fs r) (refKey u.pkg u.name)
  | [], r, _, u, hu, _, _ => by simp [Ty.usesFields] at hu
  | f :: fs, r, hv, u, hu, o, ho => by
    simp only [visibleFields, Bool.and_eq_true] at hv
    simp only [Ty.usesFields, List.mem_append] at hu
    simp only [visitRefsFields]
    rcases hu with hu | hu
    · exact visitFields_mono S fs _ _ (visit_complete S home f.ty r hv.1 u hu o ho)
    · exact visitFields_complete S home fs _ hv.2 u hu o ho
end

/-! ### objects of a Closed schema set -/

def objAt (S : Schemas) (a : Addr) (o : Obj) : Prop := Schemas.locateObject S a.1 a.2 = some o

theorem objAt_facts {S : Schemas} (hc : Closed S) {a : Addr} {o : Obj} (h : objAt S a o) :
    ∃ s ∈ S, s.pkg = a.1 ∧ Schemas.locate S a.1 = some s ∧ (a.2, o) ∈ s.objects ∧
      o.selfPkg = a.1 ∧ o.selfName = a.2 := by
  simp only [objAt, Schemas.locateObject] at h
  cases hl : Schemas.locate S a.1 with
  | none => simp [hl] at h
  | some s =>
    simp only [hl, Schema.locateObject] at h
    obtain ⟨hs, hsp⟩ := locate_mem hl
    have hm := rget_some_mem _ _ _ h
    have hself := ((closed_iff S).mp hc).1 s hs _ hm
    rw [selfOK_iff] at hself
    exact ⟨s, hs, hsp, rfl, hm, by rw [hself.2.1, hsp], by rw [hself.2.2, ← hself.1]⟩

theorem existsObj_iff (S : Schemas) (a : Addr) : existsObj S a = true ↔ ∃ o, objAt S a o := by
  simp [existsObj, objAt, Option.isSome_iff_exists]

theorem succs_exists {S : Schemas} {a b : Addr} (hb : b ∈ succs S a) : existsObj S b = true := by
  simp only [succs] at hb
  split at hb
  · simp at hb
  · exact (List.mem_filter.mp hb).2

theorem reach_exists {S : Schemas} {A : List Addr} {a : Addr} (h : Reach S A a) : existsObj S a = true := by
  cases h with
  | root _ he => exact he
  | step _ hb => exact succs_exists hb

theorem succs_of_objAt {S : Schemas} {a : Addr} {o : Obj} (h : objAt S a o) (b : Addr) :
    b ∈ succs S a ↔ (∃ u ∈ Ty.uses a.1 o.ty, (u.pkg, u.name) = b) ∧ existsObj S b = true := by
  simp only [succs, objAt] at h ⊢
  simp [h, List.mem_filter]

/-! ### the invariants of the loop -/

section inv
variable (S : Schemas) (A : List Addr)

/-- soundness part -/
structure InvS (allow : List String) (P : Roots) : Prop where
  allowR : ∀ k ∈ allow, ∃ a, k = keyOf a ∧ Reach S A a
  pendR : ∀ e ∈ P, ∃ a, e.1 = keyOf a ∧ Reach S A a ∧ objAt S a e.2

/-- completeness part -/
structure InvC (allow : List String) (P : Roots) : Prop where
  rootsIn : ∀ a ∈ A, existsObj S a = true → keyOf a ∈ allow ∨ hasKey P (keyOf a)
  closedUnder : ∀ a, existsObj S a = true → keyOf a ∈ allow →
    ∀ b ∈ succs S a, keyOf b ∈ allow ∨ hasKey P (keyOf b)

variable {S A}
variable (hc : Closed S) (hdot : ∀ s ∈ S, noDot s.pkg)
include hc

theorem key_self {a : Addr} {o : Obj} (h : objAt S a o) : refKey o.selfPkg o.selfName = keyOf a := by
  obtain ⟨_, _, _, _, _, h1, h2⟩ := objAt_facts hc h
  simp [keyOf, h1, h2]

include hdot
theorem keyOf_inj {a b : Addr} (ha : existsObj S a = true) (hb : existsObj S b = true)
    (h : keyOf a = keyOf b) : a = b := by
  obtain ⟨oa, hoa⟩ := (existsObj_iff S a).mp ha
  obtain ⟨ob, hob⟩ := (existsObj_iff S b).mp hb
  obtain ⟨sa, hsa, hpa, _⟩ := objAt_facts hc hoa
  obtain ⟨sb, hsb, hpb, _⟩ := objAt_facts hc hob
  have := refKey_inj (hpa ▸ hdot sa hsa) (hpb ▸ hdot sb hsb) h
  exact Prod.ext this.1 this.2
omit hdot

/-- one root processed: soundness -/
theorem step_sound (st : St) (kv : String × Obj) (rem : Roots)
    (h : InvS S A st.allow (st.next ++ kv :: rem)) :
    InvS S A (stepRoot S st kv).allow ((stepRoot S st kv).next ++ rem) := by
  obtain ⟨a0, hk0, hr0, ho0⟩ := h.pendR kv (by simp)
  have hrest : ∀ e ∈ st.next ++ rem, ∃ a, e.1 = keyOf a ∧ Reach S A a ∧ objAt S a e.2 := by
    intro e he
    apply h.pendR
    rcases List.mem_append.mp he with he | he
    · exact List.mem_append.mpr (Or.inl he)
    · exact List.mem_append.mpr (Or.inr (List.mem_cons_of_mem _ he))
  simp only [stepRoot]
  split
  · exact ⟨h.allowR, hrest⟩
  · have hallow : ∀ k ∈ setKey kv.1 st.allow, ∃ a, k = keyOf a ∧ Reach S A a := by
      intro k hk
      rcases (mem_setKey _ _ _).mp hk with rfl | hk
      · exact ⟨a0, hk0, hr0⟩
      · exact h.allowR k hk
    split
    · exact ⟨hallow, hrest⟩
    · refine ⟨hallow, ?_⟩
      intro e he
      rcases List.mem_append.mp he with he | he
      · rcases visit_mem S a0.1 kv.2.ty st.next e he with he | ⟨p, n, hu, hl, hkey⟩
        · exact hrest e (List.mem_append.mpr (Or.inl he))
        · refine ⟨(p, n), hkey, ?_, hl⟩
          apply Reach.step hr0
          rw [succs_of_objAt ho0]
          exact ⟨⟨_, hu, rfl⟩, by simp [existsObj, hl]⟩
      · exact hrest e (List.mem_append.mpr (Or.inr he))

/-- one root processed: completeness (needs the soundness invariant to know what the root is) -/
theorem step_complete (hdot : ∀ s ∈ S, noDot s.pkg) (hvis : visOK S = true)
    (st : St) (kv : String × Obj) (rem : Roots)
    (hs : InvS S A st.allow (st.next ++ kv :: rem)) (h : InvC S A st.allow (st.next ++ kv :: rem)) :
    InvC S A (stepRoot S st kv).allow ((stepRoot S st kv).next ++ rem) := by
  obtain ⟨a0, hk0, hr0, ho0⟩ := hs.pendR kv (by simp)
  obtain ⟨s0, hs0, hp0, hl0, hm0, hsp0, hsn0⟩ := objAt_facts hc ho0
  have hself : refKey kv.2.selfPkg kv.2.selfName = kv.1 := by rw [key_self hc ho0, hk0]
  -- a key pending before is allowed or pending afterwards, whatever the branch
  have move : ∀ (allow' : List String) (next' : Roots), (∀ k, k ∈ st.allow → k ∈ allow') →
      kv.1 ∈ allow' → (∀ k, hasKey st.next k → hasKey next' k) →
      ∀ k, (k ∈ st.allow ∨ hasKey (st.next ++ kv :: rem) k) → k ∈ allow' ∨ hasKey (next' ++ rem) k := by
    intro allow' next' h1 h2 h3 k hk
    rcases hk with hk | ⟨e, he, rfl⟩
    · exact Or.inl (h1 k hk)
    · rcases List.mem_append.mp he with he | he
      · obtain ⟨e', he', hk'⟩ := h3 e.1 ⟨e, he, rfl⟩
        exact Or.inr ⟨e', List.mem_append.mpr (Or.inl he'), hk'⟩
      · rcases List.mem_cons.mp he with rfl | he
        · exact Or.inl h2
        · exact Or.inr ⟨e, List.mem_append.mpr (Or.inr he), rfl⟩
  simp only [stepRoot]
  split
  · rename_i hin
    have hin' : kv.1 ∈ st.allow := by rw [hself] at hin; simpa using hin
    have mv := move st.allow st.next (fun _ h => h) hin' (fun _ h => h)
    exact ⟨fun a ha he => mv _ (h.rootsIn a ha he), fun a he hk b hb => mv _ (h.closedUnder a he hk b hb)⟩
  · have hsub : ∀ k, k ∈ st.allow → k ∈ setKey kv.1 st.allow := fun k hk => (mem_setKey _ _ _).mpr (Or.inr hk)
    have hnew : kv.1 ∈ setKey kv.1 st.allow := (mem_setKey _ _ _).mpr (Or.inl rfl)
    have hloc : Schemas.locate S kv.2.selfPkg = some s0 := by rw [hsp0]; exact hl0
    simp only [hloc]
    have mv := move (setKey kv.1 st.allow) (visitRefs S kv.2.ty st.next) hsub hnew
      (fun k hk => visit_mono S kv.2.ty st.next k hk)
    refine ⟨fun a ha he => mv _ (h.rootsIn a ha he), ?_⟩
    intro a he hk b hb
    rcases (mem_setKey _ _ _).mp hk with hk | hk
    · -- the object just allowed: all its successors were collected by the walk
      have : a = a0 := keyOf_inj hc hdot he (reach_exists hr0) (by rw [hk, hk0])
      subst this
      rw [succs_of_objAt ho0] at hb
      obtain ⟨⟨u, hu, rfl⟩, hbe⟩ := hb
      obtain ⟨ob, hob⟩ := (existsObj_iff S _).mp hbe
      have hv : visible s0.pkg kv.2.ty = true :=
        List.all_eq_true.mp (List.all_eq_true.mp hvis s0 hs0) (a.2, kv.2) hm0
      rw [hp0] at hv
      obtain ⟨e', he', hk'⟩ := visit_complete S a.1 kv.2.ty st.next hv u hu ob hob
      exact Or.inr ⟨e', List.mem_append.mpr (Or.inl he'), hk'⟩
    · exact mv _ (h.closedUnder a he hk b hb)

/-- a whole round (the fold over the current roots) -/
theorem fold_inv (hdot : ∀ s ∈ S, noDot s.pkg) (hvis : visOK S = true ∨ True) :
    ∀ (roots : Roots) (st : St), InvS S A st.allow (st.next ++ roots) →
      InvS S A (roots.foldl (stepRoot S) st).allow (roots.foldl (stepRoot S) st).next ∧
      (visOK S = true → InvC S A st.allow (st.next ++ roots) →
        InvC S A (roots.foldl (stepRoot S) st).allow (roots.foldl (stepRoot S) st).next)
  | [], st, hs => by
    simp only [List.append_nil, List.foldl_nil] at hs ⊢
    exact ⟨hs, fun _ h => h⟩
  | kv :: rest, st, hs => by
    simp only [List.foldl_cons]
    have h1 := step_sound hc st kv rest hs
    have ih := fold_inv hdot hvis rest (stepRoot S st kv) h1
    exact ⟨ih.1, fun hv hC => ih.2 hv (step_complete hc hdot hv st kv rest hs hC)⟩

theorem loop_inv (hdot : ∀ s ∈ S, noDot s.pkg) : ∀ (fuel : Nat) (allow : List String) (vis : List Obj) (roots : Roots)
    (res : List String × List Obj), InvS S A allow roots → loop S fuel allow vis roots = some res →
      InvS S A res.1 [] ∧ (visOK S = true → InvC S A allow roots → InvC S A res.1 [])
  | fuel, allow, vis, [], res, hs, h => by
    cases fuel <;> (simp only [loop, Option.some.injEq] at h; subst h; exact ⟨hs, fun _ h => h⟩)
  | 0, _, _, _ :: _, _, _, h => by simp [loop] at h
  | fuel + 1, allow, vis, r :: rs, res, hs, h => by
    simp only [loop, round] at h
    have hf := fold_inv hc hdot (Or.inr trivial) (r :: rs) { allow := allow, next := [], visited := vis }
      (by simpa using hs)
    have ih := loop_inv hdot fuel _ _ _ res hf.1 h
    exact ⟨ih.1, fun hv hC => ih.2 hv (hf.2 hv (by simpa using hC))⟩

/-! ### the initial roots -/

omit hc in
theorem init_mem : ∀ (as : List Addr) (r : Roots), ∀ e ∈ initRoots S as r,
    e ∈ r ∨ ∃ a ∈ as, objAt S a e.2 ∧ e.1 = refKey e.2.selfPkg e.2.selfName
  | [], r, e, he => Or.inl (by simpa [initRoots] using he)
  | a :: as, r, e, he => by
    simp only [initRoots] at he
    cases ho : Schemas.locateObject S a.1 a.2 with
    | none =>
      rw [ho] at he
      rcases init_mem as r e he with h | ⟨a', ha', h⟩
      · exact Or.inl h
      · exact Or.inr ⟨a', List.mem_cons_of_mem _ ha', h⟩
    | some o =>
      rw [ho] at he
      rcases init_mem as _ e he with h | ⟨a', ha', h⟩
      · rcases mem_rset _ _ _ _ h with rfl | h
        · exact Or.inr ⟨a, by simp, ho, rfl⟩
        · exact Or.inl h
      · exact Or.inr ⟨a', List.mem_cons_of_mem _ ha', h⟩

omit hc in
theorem init_mono : ∀ (as : List Addr) (r : Roots) (k : String), hasKey r k → hasKey (initRoots S as r) k
  | [], r, k, h => by simpa [initRoots] using h
  | a :: as, r, k, h => by
    simp only [initRoots]
    cases Schemas.locateObject S a.1 a.2 with
    | none => exact init_mono as r k h
    | some o => exact init_mono as _ k ((hasKey_rset _ _ _ _).mpr (Or.inr h))

omit hc in
theorem init_has : ∀ (as : List Addr) (r : Roots), ∀ a ∈ as, ∀ o, objAt S a o →
    hasKey (initRoots S as r) (refKey o.selfPkg o.selfName)
  | [], _, a, ha, _, _ => by simp at ha
  | x :: as, r, a, ha, o, ho => by
    simp only [initRoots]
    rcases List.mem_cons.mp ha with rfl | ha
    · simp only [objAt] at ho
      rw [ho]
      exact init_mono as _ _ ((hasKey_rset _ _ _ _).mpr (Or.inl rfl))
    · cases Schemas.locateObject S x.1 x.2 with
      | none => exact init_has as r a ha o ho
      | some _ => exact init_has as _ a ha o ho

end inv

/-! ### the theorems -/

/-- whatever FilterSchemas allows is reachable from the listed objects -/
theorem allow_sound (S : Schemas) (A : List Addr) (hc : Closed S) (hdot : ∀ s ∈ S, noDot s.pkg)
    (res : List String × List Obj) (h : buildAllowList S A = some res) (a : Addr)
    (ha : existsObj S a = true) (hk : keyOf a ∈ res.1) : Reach S A a := by
  have h0 : InvS S A [] (initRoots S A []) := by
    refine ⟨by simp, ?_⟩
    intro e he
    rcases init_mem (S := S) A [] e he with h | ⟨a', ha', ho, hkey⟩
    · simp at h
    · have hex : existsObj S a' = true := (existsObj_iff S a').mpr ⟨_, ho⟩
      exact ⟨a', by rw [hkey, key_self hc ho], Reach.root ha' hex, ho⟩
  obtain ⟨a', hk', hr'⟩ := (loop_inv hc hdot _ _ _ _ res h0 h).1.allowR _ hk
  have := keyOf_inj hc hdot ha (reach_exists hr') hk'
  rw [this]; exact hr'

/-- everything reachable is allowed, when every use is a reference the Visitor walks -/
theorem allow_complete (S : Schemas) (A : List Addr) (hc : Closed S) (hdot : ∀ s ∈ S, noDot s.pkg)
    (hvis : visOK S = true) (res : List String × List Obj) (h : buildAllowList S A = some res) (a : Addr)
    (hr : Reach S A a) : keyOf a ∈ res.1 := by
  have h0 : InvS S A [] (initRoots S A []) := by
    refine ⟨by simp, ?_⟩
    intro e he
    rcases init_mem (S := S) A [] e he with h | ⟨a', ha', ho, hkey⟩
    · simp at h
    · have hex : existsObj S a' = true := (existsObj_iff S a').mpr ⟨_, ho⟩
      exact ⟨a', by rw [hkey, key_self hc ho], Reach.root ha' hex, ho⟩
  have hC0 : InvC S A [] (initRoots S A []) := by
    refine ⟨?_, by simp⟩
    intro a' ha' hex
    obtain ⟨o, ho⟩ := (existsObj_iff S a').mp hex
    have := init_has (S := S) A [] a' ha' o ho
    rw [key_self hc ho] at this
    exact Or.inr this
  have hC := (loop_inv hc hdot _ _ _ _ res h0 h).2 hvis hC0
  have : existsObj S a = true ∧ keyOf a ∈ res.1 := by
    refine Reach.subset_of_closed (fun a => existsObj S a = true ∧ keyOf a ∈ res.1) ?_ ?_ a hr
    · intro r hrA he
      rcases hC.rootsIn r hrA he with h | ⟨e, he', _⟩
      · exact ⟨he, h⟩
      · simp at he'
    · intro x y hx hy
      have hey : existsObj S y = true := succs_exists hy
      rcases hC.closedUnder x hx.1 hx.2 y hy with h | ⟨e, he', _⟩
      · exact ⟨hey, h⟩
      · simp at he'
  exact this.2

end Cog.Closed.FilterSchemas

namespace Cog.Closed.FilterSchemas
open Cog.IR Cog.Closed
open Cog.OMap (rget rset)

/-- is an object with that address among the schemas? (by package and `Name`) -/
def keptIn (S' : Schemas) (a : Addr) : Bool :=
  S'.any fun s => s.pkg == a.1 && s.objects.any fun kv => kv.2.name == a.2

def dotFree (S : Schemas) : Bool := S.all fun s => decide (noDot s.pkg)

theorem dotFree_iff (S : Schemas) : dotFree S = true ↔ ∀ s ∈ S, noDot s.pkg := by
  simp [dotFree]

theorem run_ok {A : List Addr} {S S' : Schemas} (h : run A S = .ok S') :
    ∃ res, buildAllowList S A = some res ∧ S' = S.map (keep res.1) := by
  simp only [run] at h
  cases hb : buildAllowList S A with
  | none => simp [hb] at h
  | some res =>
    obtain ⟨allow, vis⟩ := res
    simp only [hb] at h
    split at h
    · simp only [Outcome.ok.injEq] at h
      exact ⟨(allow, vis), rfl, h.symm⟩
    · cases h

theorem keptIn_iff {S : Schemas} (hc : Closed S) (allow : List String) (a : Addr) (ha : existsObj S a = true) :
    keptIn (S.map (keep allow)) a = true ↔ keyOf a ∈ allow := by
  simp only [keptIn, keep, List.any_map, List.any_eq_true, Function.comp, Bool.and_eq_true, beq_iff_eq,
    List.mem_filter, List.contains_iff_mem]
  constructor
  · rintro ⟨s, hs, hp, kv, ⟨hkv, hin⟩, hn⟩
    have hself := ((closed_iff S).mp hc).1 s hs kv hkv
    rw [selfOK_iff] at hself
    rw [hself.2.1, hself.2.2, hp, hn] at hin
    exact hin
  · intro hk
    obtain ⟨o, ho⟩ := (existsObj_iff S a).mp ha
    obtain ⟨s, hs, hp, _, hm, h1, h2⟩ := objAt_facts hc ho
    have hself := ((closed_iff S).mp hc).1 s hs _ hm
    rw [selfOK_iff] at hself
    refine ⟨s, hs, hp, (a.2, o), ⟨hm, ?_⟩, hself.1.symm⟩
    simpa [h1, h2, keyOf] using hk

/-- kept ⊆ reach -/
theorem kept_sound {A : List Addr} {S S' : Schemas} (hc : Closed S) (hdot : dotFree S = true)
    (h : run A S = .ok S') (a : Addr) (ha : existsObj S a = true) (hk : keptIn S' a = true) : Reach S A a := by
  obtain ⟨res, hb, rfl⟩ := run_ok h
  exact allow_sound S A hc ((dotFree_iff S).mp hdot) res hb a ha ((keptIn_iff hc res.1 a ha).mp hk)

/-- kept = reach, when every use is a reference the Visitor walks -/
theorem kept_exact {A : List Addr} {S S' : Schemas} (hc : Closed S) (hdot : dotFree S = true)
    (hvis : visOK S = true) (h : run A S = .ok S') (a : Addr) (ha : existsObj S a = true) :
    keptIn S' a = true ↔ Reach S A a := by
  refine ⟨kept_sound hc hdot h a ha, fun hr => ?_⟩
  obtain ⟨res, hb, rfl⟩ := run_ok h
  exact (keptIn_iff hc res.1 a ha).mpr (allow_complete S A hc ((dotFree_iff S).mp hdot) hvis res hb a hr)

/-! ### FilterSchemas and `Closed` -/

def uniquePkgs (S : Schemas) : Bool := decide (S.map (·.pkg)).Nodup
def uniqueKeys (S : Schemas) : Bool := S.all fun s => decide (s.objects.map (·.1)).Nodup
def noEntry (S : Schemas) : Bool :=
  S.all fun s => s.entryPoint == "" && (Ty.uses s.pkg s.entryPointType).isEmpty

theorem locate_unique : ∀ (S : Schemas), (S.map (·.pkg)).Nodup → ∀ s ∈ S, Schemas.locate S s.pkg = some s
  | [], _, s, hs => by simp at hs
  | x :: rest, hn, s, hs => by
    simp only [List.map_cons, List.nodup_cons] at hn
    simp only [Schemas.locate]
    rcases List.mem_cons.mp hs with rfl | hs
    · simp
    · have : x.pkg ≠ s.pkg := fun h => hn.1 (h ▸ List.mem_map.mpr ⟨s, hs, rfl⟩)
      simp only [this, if_false]
      exact locate_unique rest hn.2 s hs

theorem rget_unique {V : Type} : ∀ (l : List (String × V)), (l.map (·.1)).Nodup → ∀ kv ∈ l, rget kv.1 l = some kv.2
  | [], _, kv, h => by simp at h
  | x :: rest, hn, kv, h => by
    simp only [List.map_cons, List.nodup_cons] at hn
    obtain ⟨a, b⟩ := x
    simp only [rget]
    rcases List.mem_cons.mp h with rfl | h
    · simp
    · have : a ≠ kv.1 := fun e => hn.1 (e ▸ List.mem_map.mpr ⟨kv, h, rfl⟩)
      simp only [this, if_false]
      exact rget_unique rest hn.2 kv h

theorem keep_pkg (allow : List String) (s : Schema) : (keep allow s).pkg = s.pkg := rfl

/-- FilterSchemas keeps `Closed` — when every use is a reference the Visitor walks, package names
    and object keys are unique, and there is no entry point (the pass never looks at it) -/
theorem filter_closed {A : List Addr} {S S' : Schemas} (hc : Closed S) (hdot : dotFree S = true)
    (hvis : visOK S = true) (hup : uniquePkgs S = true) (huk : uniqueKeys S = true) (hne : noEntry S = true)
    (h : run A S = .ok S') : Closed S' := by
  obtain ⟨res, hb, rfl⟩ := run_ok h
  have hcl := (closed_iff S).mp hc
  have hup' : (S.map (·.pkg)).Nodup := by simpa [uniquePkgs] using hup
  rw [closed_iff]
  refine ⟨?_, ?_⟩
  · intro s' hs' e he
    obtain ⟨s, hs, rfl⟩ := List.mem_map.mp hs'
    have := hcl.1 s hs e (List.mem_filter.mp he).1
    simpa [selfOK, keep] using this
  · intro s' hs'
    obtain ⟨s, hs, rfl⟩ := List.mem_map.mp hs'
    have hn := List.all_eq_true.mp hne s hs
    simp only [Bool.and_eq_true, beq_iff_eq, List.isEmpty_iff] at hn
    refine ⟨?_, ?_⟩
    · intro r hr
      simp [entryUses, keep, hn.1, hn.2] at hr
    · intro kv hkv u hu
      obtain ⟨hkv, hkept⟩ := List.mem_filter.mp hkv
      simp only [keep_pkg] at hu
      have hru := (hcl.2 s hs).2 kv hkv u hu
      rw [resolves_iff] at hru ⊢
      simp only [locate_map (keep res.1) (keep_pkg res.1)]
      rcases hru with hru | ⟨s1, hs1, e, he, hen⟩
      · exact Or.inl (by simp [hru])
      · refine Or.inr ⟨keep res.1 s1, by simp [hs1], e, ?_, hen⟩
        obtain ⟨hs1m, hs1p⟩ := locate_mem hs1
        -- the kept object is reachable, so is what it names
        have hselfkv := hcl.1 s hs kv hkv
        rw [selfOK_iff] at hselfkv
        have huk' : (s.objects.map (·.1)).Nodup := by
          have := List.all_eq_true.mp huk s hs; simpa using this
        have hobj : objAt S (s.pkg, kv.1) kv.2 := by
          simp only [objAt, Schemas.locateObject, locate_unique S hup' s hs, Schema.locateObject]
          exact rget_unique s.objects huk' kv hkv
        have hex : existsObj S (s.pkg, kv.1) = true := (existsObj_iff S _).mpr ⟨_, hobj⟩
        have hkey : keyOf (s.pkg, kv.1) ∈ res.1 := by
          have : refKey kv.2.selfPkg kv.2.selfName = keyOf (s.pkg, kv.1) := by
            simp [keyOf, hselfkv.2.1, hselfkv.2.2, ← hselfkv.1]
          rw [← this]; simpa using hkept
        have hra := allow_sound S A hc ((dotFree_iff S).mp hdot) res hb _ hex hkey
        have hbex : existsObj S (u.pkg, u.name) = true := by
          simp only [existsObj, Schemas.locateObject, hs1, Schema.locateObject]
          exact (rget_isSome_iff u.name s1.objects).mpr ⟨e, he, hen⟩
        have hrb : Reach S A (u.pkg, u.name) := by
          apply Reach.step hra
          rw [succs_of_objAt hobj]
          exact ⟨⟨u, hu, rfl⟩, hbex⟩
        have hkb := allow_complete S A hc ((dotFree_iff S).mp hdot) hvis res hb _ hrb
        have hselfe := hcl.1 s1 hs1m e he
        rw [selfOK_iff] at hselfe
        simp only [keep]
        refine List.mem_filter.mpr ⟨he, ?_⟩
        have : refKey e.2.selfPkg e.2.selfName = keyOf (u.pkg, u.name) := by
          simp [keyOf, hselfe.2.1, hselfe.2.2, ← hselfe.1, hen, hs1p]
        rw [this]; simpa using hkb

end Cog.Closed.FilterSchemas
