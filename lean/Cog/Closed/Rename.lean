/-
  rename_object keeps `Closed` — under decidable hypotheses, because the full statement is false
  (see Cog/Props/C05.lean for the counterexamples):

    exact   every object accepted by `from` (package exact, name EqualFold) is named EXACTLY
            `from.obj` (references are rewritten only on an exact match);
    stale   nothing that rename_object does not rewrite names an accepted object: constant
            references, discriminator-mapping targets, the `EntryPoint` string, references in map
            index types and in generated-union payloads.

  Name collisions (renaming onto an existing name) need no hypothesis: `Closed` survives them.
-/
import Cog.Closed.Lemmas
import Cog.Xform.RenameObject
namespace Cog.Closed
open Cog.IR Cog.Xform
open Cog.OMap (rget rset)

/-- a schema-wise, package-preserving rewriting whose objects are rebuilt by the Visitor -/
def visitMap (onTy : Ty → Ty) (onObj : Obj → Obj) (S : Schemas) : Schemas :=
  S.map (visitSchema onTy (fun _ => onObj))

theorem selfOK_iff (s : Schema) (kv : String × Obj) :
    selfOK s kv = true ↔ kv.1 = kv.2.name ∧ kv.2.selfPkg = s.pkg ∧ kv.2.selfName = kv.2.name := by
  simp [selfOK, and_assoc]

/-- uses not rewritten by an operation, per type: every use that is not an on-path reference,
    and every use below a position the Visitor skips -/
def staleFree (hit : Use → Bool) (home : String) (t : Ty) : Bool :=
  (Ty.uses home t).all (fun u => u.kind == .ref || !hit u) && (Ty.offUses home t).all (fun u => !hit u)

namespace Rename
open RenameObject

def hits (p : Params) (u : Use) : Bool := p.from_.matchesRef u.pkg u.name

/-- the decidable hypotheses of `rename_preserves_closed` -/
def ok (p : Params) (S : Schemas) : Bool :=
  S.all fun s =>
    (s.entryPoint == "" || !hits p ⟨.entry, s.pkg, s.entryPoint⟩) &&
    staleFree (hits p) s.pkg s.entryPointType &&
    s.objects.all fun kv =>
      (!(p.from_.matchesObj kv.2) || kv.2.name == p.from_.obj) && staleFree (hits p) s.pkg kv.2.ty

/-- the name the code gives to a reference -/
def newName (p : Params) (pk n : String) : String := if pk == p.from_.pkg && n == p.from_.obj then p.to else n

theorem hooks_ref (p : Params) (pk n : String) (m : Meta) :
    (hooks p).ref pk n m = .ref pk (newName p pk n) m := by
  simp only [hooks, newName]; split <;> rfl

theorem onObj_ty (p : Params) (o : Obj) : (onObj p o).ty = xfTy (hooks p) o.ty := by
  simp only [onObj]; split <;> rfl

theorem onObj_name (p : Params) (o : Obj) :
    (onObj p o).name = if p.from_.matchesObj o then p.to else o.name := by
  simp only [onObj]; split <;> rfl

theorem onObj_self (p : Params) (o : Obj) :
    (onObj p o).selfPkg = o.selfPkg ∧
    (onObj p o).selfName = if p.from_.matchesObj o then p.to else o.selfName := by
  simp only [onObj]; split <;> exact ⟨rfl, rfl⟩

def g (p : Params) : Schema → Schema := visitSchema (xfTy (hooks p)) (fun _ => onObj p)

theorem g_pkg (p : Params) (s : Schema) : (g p s).pkg = s.pkg := rfl

section
variable (p : Params) (S : Schemas) (hc : Closed S) (hok : ok p S = true)
include hc hok

/-- an object that exists in `S` under the name a use gives: what it is called afterwards -/
theorem resolves_after (u : Use) (n' : String) (hr : resolves S u = true)
    (hname : ∀ s ∈ S, s.pkg = u.pkg → ∀ kv ∈ s.objects, kv.1 = u.name → (onObj p kv.2).name = n') :
    resolves (S.map (g p)) ⟨u.kind, u.pkg, n'⟩ = true := by
  rw [resolves_iff] at hr ⊢
  simp only [locate_map (g p) (g_pkg p)]
  rcases hr with hr | ⟨s, hs, e, he, hen⟩
  · exact Or.inl (by simp [hr])
  · refine Or.inr ⟨g p s, by simp [hs], ?_⟩
    obtain ⟨hsm, hsp⟩ := locate_mem hs
    have := hname s hsm hsp e he hen
    simp only [g, visitSchema]
    exact (keys_rebuild (onObj p) s.objects [] n').mpr (Or.inr ⟨e, he, this⟩)

/-- a use that does not name an accepted object still resolves, unchanged -/
theorem resolves_unhit (u : Use) (hr : resolves S u = true) (hh : hits p u = false) :
    resolves (S.map (g p)) u = true := by
  have := resolves_after p S hc hok u u.name hr (by
    intro s hs hsp kv hkv hkn
    have hself := ((closed_iff S).mp hc).1 s hs kv hkv
    rw [selfOK_iff] at hself
    rw [onObj_name]
    have : p.from_.matchesObj kv.2 = false := by
      simp only [ObjRef.matchesObj, hself.2.1, hself.2.2, ← hself.1, hkn, hsp]
      simpa [hits] using hh
    simp [this, ← hself.1, hkn])
  simpa using this

/-- an on-path reference resolves under the name the hook gives it -/
theorem resolves_ref (pk n : String) (hr : resolves S ⟨.ref, pk, n⟩ = true) :
    resolves (S.map (g p)) ⟨.ref, pk, newName p pk n⟩ = true := by
  apply resolves_after p S hc hok ⟨.ref, pk, n⟩ (newName p pk n) hr
  intro s hs hsp kv hkv hkn
  simp only at hsp hkn
  have hself := ((closed_iff S).mp hc).1 s hs kv hkv
  rw [selfOK_iff] at hself
  have hex : p.from_.matchesObj kv.2 = true → kv.2.name = p.from_.obj := by
    intro hm
    have h1 := List.all_eq_true.mp hok s hs
    simp only [Bool.and_eq_true] at h1
    have h2 := List.all_eq_true.mp h1.2 kv hkv
    simp only [Bool.and_eq_true, Bool.or_eq_true, Bool.not_eq_true', beq_iff_eq] at h2
    rcases h2.1 with h | h
    · rw [hm] at h; cases h
    · exact h
  rw [onObj_name]
  simp only [newName]
  have hmatch : p.from_.matchesObj kv.2 = (pk == p.from_.pkg && eqFold n p.from_.obj) := by
    simp only [ObjRef.matchesObj, ObjRef.matchesRef, hself.2.1, hself.2.2, ← hself.1, hkn, hsp]
  by_cases hE : (pk == p.from_.pkg && n == p.from_.obj) = true
  · simp only [Bool.and_eq_true, beq_iff_eq] at hE
    have : p.from_.matchesObj kv.2 = true := by
      rw [hmatch]; simp [hE.1, hE.2, eqFold_refl]
    simp [this, hE.1, hE.2]
  · have hne : p.from_.matchesObj kv.2 = false := by
      cases hm : p.from_.matchesObj kv.2 with
      | false => rfl
      | true =>
        exfalso; apply hE
        have h1 := hex hm
        rw [hmatch] at hm
        simp only [Bool.and_eq_true, beq_iff_eq] at hm
        simp only [Bool.and_eq_true, beq_iff_eq]
        exact ⟨hm.1, by rw [← hkn, hself.1, h1]⟩
    simp only [Bool.not_eq_true] at hE
    simp [hne, hE, ← hself.1, hkn]

/-- every use of a rewritten type resolves afterwards -/
theorem ty_after (home : String) (t : Ty) (hq : ∀ u ∈ Ty.uses home t, resolves S u = true)
    (hs : staleFree (hits p) home t = true) :
    ∀ u ∈ Ty.uses home (xfTy (hooks p) t), resolves (S.map (g p)) u = true := by
  simp only [staleFree, Bool.and_eq_true, List.all_eq_true, Bool.or_eq_true, beq_iff_eq,
    Bool.not_eq_true'] at hs
  obtain ⟨hs1, hs2⟩ := hs
  -- Q: resolves before, and is an on-path reference or names no accepted object
  apply uses_xf home (hooks p)
    (fun u => resolves S u = true ∧ (u.kind = .ref ∨ hits p u = false))
    (fun u => resolves (S.map (g p)) u = true)
  · intro pk n m hQ u hu
    rw [hooks_ref] at hu
    simp only [Ty.uses, List.mem_singleton] at hu
    subst hu
    exact resolves_ref p S hc hok pk n hQ.1
  · intro pk n v m hQ u hu
    simp only [hooks, Ty.uses, List.mem_singleton] at hu
    subst hu
    rcases hQ.2 with h | h
    · cases h
    · exact resolves_unhit p S hc hok _ hQ.1 h
  · intro vs m u hu
    simp [hooks, Ty.uses] at hu
  · intro di hQ u hu
    simp only [hooks, id] at hu
    have := hQ u hu
    rcases this.2 with h | h
    · simp only [mappingUses, List.mem_map] at hu
      obtain ⟨kv, _, rfl⟩ := hu
      cases h
    · exact resolves_unhit p S hc hok _ this.1 h
  · intro gi hQ u hu
    simp only [hooks, id] at hu
    have := hQ u hu
    rcases this.2 with h | h
    · exfalso
      cases gi with
      | none => simp [giUses] at hu
      | some x =>
        simp only [giUses, mappingUses, List.mem_map] at hu
        obtain ⟨kv, _, rfl⟩ := hu
        revert h; split <;> simp
    · exact resolves_unhit p S hc hok _ this.1 h
  · intro u hu
    exact ⟨hq u hu, hs1 u hu⟩
  · intro u hu
    exact resolves_unhit p S hc hok u (hq u (offUses_sub home t u hu)) (hs2 u hu)

end

theorem preserves_closed (p : Params) (S S' : Schemas) (hc : Closed S) (hok : ok p S = true)
    (h : RenameObject.run p S = .ok S') : Closed S' := by
  rw [(mkRun_ok.mp h).2]
  show Closed (S.map (g p))
  have hcl := (closed_iff S).mp hc
  rw [closed_iff]
  refine ⟨?_, ?_⟩
  · intro s' hs' e he
    obtain ⟨s, hs, rfl⟩ := List.mem_map.mp hs'
    simp only [g, visitSchema] at he
    rcases mem_rebuild (onObj p) s.objects [] e he with h0 | ⟨kv, hkv, rfl⟩
    · simp at h0
    · have hself := hcl.1 s hs kv hkv
      rw [selfOK_iff] at hself ⊢
      refine ⟨rfl, ?_, ?_⟩
      · rw [(onObj_self p kv.2).1]; exact hself.2.1
      · rw [(onObj_self p kv.2).2, onObj_name]
        split
        · rfl
        · exact hself.2.2
  · intro s' hs'
    obtain ⟨s, hs, rfl⟩ := List.mem_map.mp hs'
    have hS := hcl.2 s hs
    have hoks := List.all_eq_true.mp hok s hs
    simp only [Bool.and_eq_true] at hoks
    rw [entryUses_iff] at hS ⊢
    refine ⟨⟨?_, ?_⟩, ?_⟩
    · intro hne
      have hne' : s.entryPoint ≠ "" := hne
      have h1 := hS.1.1 hne'
      have h2 : hits p ⟨.entry, s.pkg, s.entryPoint⟩ = false := by
        have := hoks.1.1
        simp only [Bool.or_eq_true, beq_iff_eq, Bool.not_eq_true'] at this
        rcases this with h | h
        · exact absurd h hne'
        · exact h
      exact resolves_unhit p S hc hok _ h1 h2
    · exact ty_after p S hc hok s.pkg s.entryPointType hS.1.2 hoks.1.2
    · intro e he u hu
      simp only [g, visitSchema] at he
      rcases mem_rebuild (onObj p) s.objects [] e he with h0 | ⟨kv, hkv, rfl⟩
      · simp at h0
      · have hk := List.all_eq_true.mp hoks.2 kv hkv
        simp only [Bool.and_eq_true] at hk
        simp only [onObj_ty] at hu
        exact ty_after p S hc hok s.pkg kv.2.ty (hS.2 kv hkv) hk.2 u hu

end Rename
end Cog.Closed
