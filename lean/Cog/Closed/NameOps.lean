/-
  The name-changing schema transformations of property C05 as one type, over the pass models
  written for C15 (lean/Cog/Xform/*.lean, literal transcriptions of
  internal/ast/compiler/{rename_object,prefix_objects_names,duplicate_object,unspec,
  replace_reference}.go), and sequences of them (`compiler.Passes.Process`).
-/
import Cog.Xform.All
namespace Cog.Closed
open Cog.IR Cog.Xform

inductive NameOp where
  | rename (p : RenameObject.Params)
  | pfx (p : PrefixObjectNames.Params)
  | duplicate (p : DuplicateObject.Params)
  | unspec
  | replace (p : ReplaceReference.Params)
  deriving Inhabited

def NameOp.toXf : NameOp → Xf
  | .rename p => .renameObject p
  | .pfx p => .prefixObjectNames p
  | .duplicate p => .duplicateObject p
  | .unspec => .unspec
  | .replace p => .replaceReference p

def NameOp.run (t : NameOp) (S : Schemas) : Outcome Schemas := t.toXf.run S

/-- the loop of `Passes.Process` -/
def applyAll : List NameOp → Schemas → Outcome Schemas
  | [], S => .ok S
  | t :: ts, S =>
    match t.run S with
    | .ok S' => applyAll ts S'
    | .err e => .err e
    | .panic s => .panic s

theorem applyAll_eq (ts : List NameOp) (S : Schemas) :
    applyAll ts S = Cog.Xform.applyAll (ts.map NameOp.toXf) S := by
  induction ts generalizing S with
  | nil => rfl
  | cons t ts ih =>
    simp only [applyAll, Cog.Xform.applyAll, List.map_cons, NameOp.run]
    cases t.toXf.run S <;> simp [ih]

end Cog.Closed
