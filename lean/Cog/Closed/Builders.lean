/-
  Builder targets.  Over the model of `BuilderGenerator.FromAST` written for C16
  (lean/Cog/Builder/FromAST.lean) and its specification lemmas (`schemasBuilders_spec`): every
  builder is derived from an object of the schemas, and every type it exposes (option arguments,
  assignment paths, assigned arguments, constructor constants) is the type of a field of the struct
  that object stands for.  Hence on a `Closed` schema set the builder's target exists and every
  reference / constant reference inside those types resolves.

  Discriminator-mapping targets are NOT covered: they are bare names of the package that declares
  the struct, while the builder lives in the package of the (possibly aliasing) object — the full
  statement with mapping targets is false (counterexample in Cog/Props/C05.lean).
-/
import Cog.Closed.UnspecDup
import Cog.Closed.FilterProofs
import Cog.Closed.Frame
import Cog.Builder.FromASTLemmas
namespace Cog.Closed
open Cog.IR Cog.Builder
open Cog.OMap (rget rset)

def assignTypes (a : Assignment) : List Ty :=
  a.path.map (·.ty) ++ (match a.value with | .arg c => [c.arg.ty] | _ => [])

def optTypes (o : Opt) : List Ty := o.args.map (·.ty) ++ o.assignments.flatMap assignTypes

/-- every type a builder exposes -/
def builderTypes (b : Builder) : List Ty :=
  b.constructor.args.map (·.ty) ++ b.constructor.assignments.flatMap assignTypes ++
  b.options.flatMap optTypes ++ b.properties.map (·.ty)

theorem resolveToType_obj (ss : Schemas) : ∀ (n : Nat) (t r : Ty), Schemas.resolveToType ss n t = some r →
    r = t ∨ ∃ p nm o, Schemas.locateObject ss p nm = some o ∧ r = o.ty
  | 0, _, _, h => by simp [Schemas.resolveToType] at h
  | n + 1, t, r, h => by
    cases t with
    | ref p nm m =>
      simp only [Schemas.resolveToType] at h
      cases ho : Schemas.locateObject ss p nm with
      | none => simp [ho] at h; exact Or.inl h.symm
      | some o =>
        simp only [ho] at h
        rcases resolveToType_obj ss n o.ty r h with h1 | h1
        · exact Or.inr ⟨p, nm, o, ho, h1⟩
        · exact Or.inr h1
    | _ => simp only [Schemas.resolveToType, Option.some.injEq] at h; exact Or.inl h.symm

theorem located_uses {S : Schemas} (hc : Closed S) {p nm : String} {o : Obj}
    (h : Schemas.locateObject S p nm = some o) : ∀ u ∈ Ty.uses p o.ty, resolves S u = true := by
  simp only [Schemas.locateObject] at h
  cases hl : Schemas.locate S p with
  | none => simp [hl] at h
  | some s =>
    simp only [hl, Schema.locateObject] at h
    obtain ⟨hs, hsp⟩ := locate_mem hl
    have := ((closed_iff S).mp hc).2 s hs |>.2 (nm, o) (rget_some_mem _ _ _ h)
    rw [hsp] at this
    exact this

theorem usesFields_mem (home : String) : ∀ (fs : List Field) (f : Field), f ∈ fs → ∀ u ∈ Ty.uses home f.ty, u ∈ Ty.usesFields home fs
  | [], _, h, _, _ => by simp at h
  | x :: fs, f, h, u, hu => by
    simp only [Ty.usesFields, List.mem_append]
    rcases List.mem_cons.mp h with rfl | h
    · exact Or.inl hu
    · exact Or.inr (usesFields_mem home fs f h u hu)

/-- references inside the type of a field of the struct an object stands for resolve -/
theorem field_refs_resolve {S : Schemas} (hc : Closed S) {s : Schema} (hs : s ∈ S) {kv : String × Obj} (hkv : kv ∈ s.objects)
    {fs : List Field} (hfs : structFieldsOf S kv.2.ty = some fs) {f : Field} (hf : f ∈ fs) (home : String) :
    ∀ u ∈ Ty.uses home f.ty, (u.kind = .ref ∨ u.kind = .cref) → resolves S u = true := by
  intro u hu hk
  simp only [structFieldsOf] at hfs
  cases hr : Schemas.resolveToType S (fuelFor S) kv.2.ty with
  | none => simp [hr] at hfs
  | some r =>
    simp only [hr] at hfs
    cases r with
    | struct fs' g gi m =>
      simp only [Option.some.injEq] at hfs
      subst hfs
      -- where the struct is declared
      have decl : ∃ home0, ∀ u ∈ Ty.uses home0 (.struct fs' g gi m), resolves S u = true := by
        rcases resolveToType_obj S _ _ _ hr with h1 | ⟨p, nm, o, ho, h1⟩
        · exact ⟨s.pkg, fun u hu => by rw [h1] at hu; exact (uses_of_closed hc hs).2.2 kv hkv u hu⟩
        · exact ⟨p, fun u hu => by rw [h1] at hu; exact located_uses hc ho u hu⟩
      obtain ⟨home0, h0⟩ := decl
      rcases uses_rehome home0 home f.ty u hu with h1 | h1
      · apply h0
        simp only [Ty.uses, List.mem_append]
        exact Or.inl (usesFields_mem home0 fs' f hf u h1.1)
      · rcases hk with hk | hk <;> rcases h1.2.1 with h2 | h2 <;> rw [hk] at h2 <;> cases h2
    | _ => simp at hfs

theorem mem_optionFields {cls : Field → FieldClass} {fs : List Field} {f : Field} (h : f ∈ optionFields cls fs) : f ∈ fs :=
  (List.mem_filter.mp h).1

theorem mem_constFields_fst {cls : Field → FieldClass} : ∀ {fs : List Field} {fv : Field × Val}, fv ∈ constFields cls fs → fv.1 ∈ fs
  | [], _, h => by simp [constFields] at h
  | f :: fs, fv, h => by
    simp only [constFields] at h
    split at h
    · rcases List.mem_cons.mp h with rfl | h
      · simp
      · exact List.mem_cons_of_mem _ (mem_constFields_fst h)
    · exact List.mem_cons_of_mem _ (mem_constFields_fst h)

theorem mem_allObjects : ∀ (l : List Schema) (so : Schema × Obj), so ∈ allObjects l → so.1 ∈ l ∧ ∃ kv ∈ so.1.objects, kv.2 = so.2
  | [], so, h => by simp [allObjects] at h
  | s :: rest, so, h => by
    simp only [allObjects, List.mem_append, List.mem_map] at h
    rcases h with ⟨ko, hko, rfl⟩ | h
    · exact ⟨by simp, ko, hko, rfl⟩
    · obtain ⟨h1, h2⟩ := mem_allObjects rest so h
      exact ⟨List.mem_cons_of_mem _ h1, h2⟩

/-- the builders derived from a `Closed` schema set: target exists, references in exposed types resolve -/
theorem builders_closed (S : Schemas) (bs : Builders) (hc : Closed S) (hup : (S.map (·.pkg)).Nodup)
    (h : fromAST S = .ok bs) :
    ∀ b ∈ bs, existsObj S (b.for_.selfPkg, b.for_.selfName) = true ∧
      ∀ t ∈ builderTypes b, ∀ u ∈ Ty.uses b.pkg t, (u.kind = .ref ∨ u.kind = .cref) → resolves S u = true := by
  intro b hb
  have hall := schemasBuilders_spec S S bs h
  obtain ⟨so, hso, hfor, hpkg, _, fs, hfs, hopts, hconsts, hca, hprops, _⟩ := Cog.Builder.All2.exists_right hall b hb
  obtain ⟨hs, kv, hkv, hkvo⟩ := mem_allObjects S so (List.mem_filter.mp hso).1
  have hself := ((closed_iff S).mp hc).1 so.1 hs kv hkv
  rw [selfOK_iff] at hself
  refine ⟨?_, ?_⟩
  · -- the target
    rw [hfor, ← hkvo, hself.2.1, hself.2.2]
    simp only [existsObj, Schemas.locateObject, FilterSchemas.locate_unique S hup so.1 hs, Schema.locateObject]
    exact (rget_isSome_iff _ _).mpr ⟨kv, hkv, hself.1⟩
  · intro t ht u hu hk
    rw [← hkvo] at hfs
    simp only [builderTypes, List.mem_append, List.mem_map, List.mem_flatMap] at ht
    have fieldOK : ∀ f ∈ fs, ∀ u ∈ Ty.uses b.pkg f.ty, (u.kind = .ref ∨ u.kind = .cref) → resolves S u = true :=
      fun f hf => field_refs_resolve hc hs hkv hfs hf b.pkg
    rcases ht with ((⟨a, ha, rfl⟩ | ⟨a, ha, hta⟩) | ⟨o, ho, hto⟩) | ⟨f, hf, rfl⟩
    · rw [hca] at ha; simp at ha
    · obtain ⟨fv, hfv, hic⟩ := Cog.Builder.All2.exists_left hconsts a ha
      obtain ⟨⟨i, hpath, _, hity, _⟩, hval, _⟩ := hic
      simp only [assignTypes, hpath, hval, List.map_cons, List.map_nil, List.append_nil, List.mem_singleton] at hta
      subst hta
      rw [hity] at hu
      exact fieldOK fv.1 (mem_constFields_fst hfv) u hu hk
    · obtain ⟨f, hf, hio⟩ := Cog.Builder.All2.exists_left hopts o ho
      obtain ⟨_, _, ⟨a, hargs, _, haty⟩, _, as, hass, ⟨i, hpath, _, hity, _⟩, ⟨c, hval, _, hcty⟩, _⟩ := hio
      have hfm := mem_optionFields hf
      simp only [optTypes, hargs, hass, List.map_cons, List.map_nil, List.flatMap_cons, List.flatMap_nil,
        List.append_nil, assignTypes, hpath, hval, List.mem_append, List.mem_singleton, List.mem_cons,
        List.not_mem_nil, or_false] at hto
      rcases hto with rfl | rfl | rfl
      · rw [haty] at hu; exact fieldOK f hfm u hu hk
      · rw [hity] at hu; exact fieldOK f hfm u hu hk
      · rw [hcty] at hu; exact fieldOK f hfm u hu hk
    · rw [hprops] at hf; simp at hf

end Cog.Closed
