/-
  AnonymousStructsToNamed keeps `Closed` ("created ⊆ registered"): every reference the pass creates
  names an object it appends to the same schema.  Over the pass model
  lean/Cog/Passes/AnonymousStructsToNamed.lean (C06).
-/
import Cog.Closed.ChainPasses
namespace Cog.Closed.Anon
open Cog Cog.IR Cog.Passes Cog.Closed
open Cog.Passes.AnonymousStructsToNamed
open Cog.OMap (rget rset)

section
variable (pkg : String) (R : Use → Prop)

/-- a use is fine when it was fine before or names an object created so far -/
def Good (acc : List Obj) (u : Use) : Prop := R u ∨ ∃ o ∈ acc, u = ⟨.ref, pkg, o.name⟩

def AccOK (acc : List Obj) : Prop :=
  ∀ o ∈ acc, o.selfPkg = pkg ∧ o.selfName = o.name ∧ ∀ u ∈ Ty.uses pkg o.ty, Good pkg R acc u

variable {pkg R}

theorem Good.mono {acc acc' : List Obj} (h : ∀ o ∈ acc, o ∈ acc') {u : Use} (hg : Good pkg R acc u) : Good pkg R acc' u := by
  rcases hg with h1 | ⟨o, ho, rfl⟩
  · exact Or.inl h1
  · exact Or.inr ⟨o, h o ho, rfl⟩

theorem AccOK.mono_uses {acc acc' : List Obj} (hsub : ∀ o ∈ acc, o ∈ acc') (h : AccOK pkg R acc) :
    ∀ o ∈ acc, o.selfPkg = pkg ∧ o.selfName = o.name ∧ ∀ u ∈ Ty.uses pkg o.ty, Good pkg R acc' u :=
  fun o ho => ⟨(h o ho).1, (h o ho).2.1, fun u hu => ((h o ho).2.2 u hu).mono hsub⟩

/-- what one call establishes -/
structure Post (acc acc' : List Obj) (usesOut : List Use) : Prop where
  sub : ∀ o ∈ acc, o ∈ acc'
  ok : AccOK pkg R acc'
  out : ∀ u ∈ usesOut, Good pkg R acc' u

mutual
theorem pt (parent : String) : ∀ (t : Ty) (acc : List Obj), (∀ u ∈ Ty.uses pkg t, R u) → AccOK pkg R acc →
    Post (pkg := pkg) (R := R) acc (processType pkg parent t acc).2 (Ty.uses pkg (processType pkg parent t acc).1)
  | .scalar .., acc, hq, ha => by
    simp only [processType]; exact ⟨fun _ h => h, ha, fun u hu => Or.inl (hq u hu)⟩
  | .ref .., acc, hq, ha => by
    simp only [processType]; exact ⟨fun _ h => h, ha, fun u hu => Or.inl (hq u hu)⟩
  | .cref .., acc, hq, ha => by
    simp only [processType]; exact ⟨fun _ h => h, ha, fun u hu => Or.inl (hq u hu)⟩
  | .array e m, acc, hq, ha => by
    simp only [processType, Ty.uses]
    exact pt parent e acc (fun u hu => hq u (by simpa [Ty.uses] using hu)) ha
  | .map i v m, acc, hq, ha => by
    simp only [processType, Ty.uses]
    have h1 := pt parent i acc (fun u hu => hq u (by simp [Ty.uses, hu])) ha
    have h2 := pt parent v (processType pkg parent i acc).2 (fun u hu => hq u (by simp [Ty.uses, hu])) h1.ok
    refine ⟨fun o ho => h2.sub o (h1.sub o ho), h2.ok, ?_⟩
    intro u hu
    rcases List.mem_append.mp hu with hu | hu
    · exact (h1.out u hu).mono h2.sub
    · exact h2.out u hu
  | .struct fs g gi m, acc, hq, ha => by
    simp only [processType]
    have h1 := pfs parent fs acc (fun u hu => hq u (by simp [Ty.uses, hu])) ha
    have hsub : ∀ o ∈ (processFields pkg parent fs acc).2, o ∈ (processFields pkg parent fs acc).2 ++
        [newObject pkg parent (.struct (processFields pkg parent fs acc).1 g gi { m with nullable := false })] :=
      fun o ho => List.mem_append.mpr (Or.inl ho)
    refine ⟨fun o ho => hsub o (h1.sub o ho), ?_, ?_⟩
    · intro o ho
      rcases List.mem_append.mp ho with ho | ho
      · exact h1.ok.mono_uses hsub o ho
      · simp only [List.mem_singleton] at ho
        subst ho
        refine ⟨rfl, rfl, ?_⟩
        intro u hu
        simp only [newObject, Ty.uses, List.mem_append] at hu
        rcases hu with hu | hu
        · exact (h1.out u hu).mono hsub
        · exact Or.inl (hq u (by simp only [Ty.uses, List.mem_append]; exact Or.inr hu))
    · intro u hu
      simp only [Ty.uses, List.mem_singleton] at hu
      subst hu
      exact Or.inr ⟨newObject pkg parent _, List.mem_append.mpr (Or.inr (List.mem_singleton.mpr rfl)), rfl⟩
  | .enum .., acc, hq, ha => by
    simp only [processType]; exact ⟨fun _ h => h, ha, fun u hu => Or.inl (hq u hu)⟩
  | .disj bs info m, acc, hq, ha => by
    simp only [processType, Ty.uses]
    have h1 := pl parent bs acc (fun u hu => hq u (by simp [Ty.uses, hu])) ha
    refine ⟨h1.sub, h1.ok, ?_⟩
    intro u hu
    rcases List.mem_append.mp hu with hu | hu
    · exact h1.out u hu
    · exact Or.inl (hq u (by simp [Ty.uses, hu]))
  | .inter .., acc, hq, ha => by
    simp only [processType]; exact ⟨fun _ h => h, ha, fun u hu => Or.inl (hq u hu)⟩
  | .slot .., acc, hq, ha => by
    simp only [processType]; exact ⟨fun _ h => h, ha, fun u hu => Or.inl (hq u hu)⟩
  | .bad .., acc, hq, ha => by
    simp only [processType]; exact ⟨fun _ h => h, ha, fun u hu => Or.inl (hq u hu)⟩
theorem pl (parent : String) : ∀ (ts : List Ty) (acc : List Obj), (∀ u ∈ Ty.usesList pkg ts, R u) → AccOK pkg R acc →
    Post (pkg := pkg) (R := R) acc (processList pkg parent ts acc).2 (Ty.usesList pkg (processList pkg parent ts acc).1)
  | [], acc, _, ha => by
    simp only [processList, Ty.usesList]; exact ⟨fun _ h => h, ha, fun u hu => by simp at hu⟩
  | t :: ts, acc, hq, ha => by
    simp only [processList, Ty.usesList]
    have h1 := pt parent t acc (fun u hu => hq u (by simp [Ty.usesList, hu])) ha
    have h2 := pl parent ts (processType pkg parent t acc).2 (fun u hu => hq u (by simp [Ty.usesList, hu])) h1.ok
    refine ⟨fun o ho => h2.sub o (h1.sub o ho), h2.ok, ?_⟩
    intro u hu
    rcases List.mem_append.mp hu with hu | hu
    · exact (h1.out u hu).mono h2.sub
    · exact h2.out u hu
theorem pfs (parent : String) : ∀ (fs : List Field) (acc : List Obj), (∀ u ∈ Ty.usesFields pkg fs, R u) → AccOK pkg R acc →
    Post (pkg := pkg) (R := R) acc (processFields pkg parent fs acc).2 (Ty.usesFields pkg (processFields pkg parent fs acc).1)
  | [], acc, _, ha => by
    simp only [processFields, Ty.usesFields]; exact ⟨fun _ h => h, ha, fun u hu => by simp at hu⟩
  | f :: fs, acc, hq, ha => by
    simp only [processFields, Ty.usesFields]
    have h1 := pt (parent ++ ucc f.name) f.ty acc (fun u hu => hq u (by simp [Ty.usesFields, hu])) ha
    have h2 := pfs parent fs (processType pkg (parent ++ ucc f.name) f.ty acc).2
      (fun u hu => hq u (by simp [Ty.usesFields, hu])) h1.ok
    refine ⟨fun o ho => h2.sub o (h1.sub o ho), h2.ok, ?_⟩
    intro u hu
    rcases List.mem_append.mp hu with hu | hu
    · exact (h1.out u hu).mono h2.sub
    · exact h2.out u hu
end

/-- one object: same name and address, uses fine -/
theorem pobj (o : Obj) (acc : List Obj) (hp : o.selfPkg = pkg) (hq : ∀ u ∈ Ty.uses pkg o.ty, R u) (ha : AccOK pkg R acc) :
    (processObject o acc).1.name = o.name ∧ (processObject o acc).1.selfPkg = o.selfPkg ∧
    (processObject o acc).1.selfName = o.selfName ∧
    Post (pkg := pkg) (R := R) acc (processObject o acc).2 (Ty.uses pkg (processObject o acc).1.ty) := by
  subst hp
  simp only [processObject]
  split
  · rename_i e m hty
    refine ⟨rfl, rfl, rfl, ?_⟩
    have := pt (pkg := o.selfPkg) (R := R) (ucc o.selfPkg ++ ucc o.name) o.ty acc hq ha
    simpa [hty] using this
  · rename_i i v m hty
    refine ⟨rfl, rfl, rfl, ?_⟩
    have := pt (pkg := o.selfPkg) (R := R) (ucc o.selfPkg ++ ucc o.name) o.ty acc hq ha
    simpa [hty] using this
  · rename_i bs info m hty
    refine ⟨rfl, rfl, rfl, ?_⟩
    have := pt (pkg := o.selfPkg) (R := R) (ucc o.selfPkg ++ ucc o.name) o.ty acc hq ha
    simpa [hty] using this
  · rename_i fs g gi m hty
    refine ⟨rfl, rfl, rfl, ?_⟩
    rw [hty] at hq
    have h1 := pfs (pkg := o.selfPkg) (R := R) (ucc o.selfPkg ++ ucc o.name) fs acc (fun u hu => hq u (by simp [Ty.uses, hu])) ha
    refine ⟨h1.sub, h1.ok, ?_⟩
    intro u hu
    simp only [Ty.uses, List.mem_append] at hu
    rcases hu with hu | hu
    · exact h1.out u hu
    · exact Or.inl (hq u (by simp only [Ty.uses, List.mem_append]; exact Or.inr hu))
  · exact ⟨rfl, rfl, rfl, fun _ h => h, ha, fun u hu => Or.inl (hq u hu)⟩

/-- all objects of a schema -/
theorem pobjs : ∀ (l : Objects) (acc : List Obj), (∀ kv ∈ l, kv.2.selfPkg = pkg ∧ ∀ u ∈ Ty.uses pkg kv.2.ty, R u) →
    AccOK pkg R acc →
    (∀ o ∈ acc, o ∈ (processObjects l acc).2) ∧ AccOK pkg R (processObjects l acc).2 ∧
    All2 (fun e e' => e'.1 = e.1 ∧ e'.2.name = e.2.name ∧ e'.2.selfPkg = e.2.selfPkg ∧ e'.2.selfName = e.2.selfName ∧
      ∀ u ∈ Ty.uses pkg e'.2.ty, Good pkg R (processObjects l acc).2 u) l (processObjects l acc).1
  | [], acc, _, ha => by simp only [processObjects]; exact ⟨fun _ h => h, ha, .nil⟩
  | (k, o) :: rest, acc, hl, ha => by
    simp only [processObjects]
    have ho := hl (k, o) (by simp)
    obtain ⟨hn, hsp, hsn, hpost⟩ := pobj (pkg := pkg) (R := R) o acc ho.1 ho.2 ha
    obtain ⟨hsub, hok, hall⟩ := pobjs rest (processObject o acc).2 (fun kv hkv => hl kv (List.mem_cons_of_mem _ hkv)) hpost.ok
    refine ⟨fun x hx => hsub x (hpost.sub x hx), hok, .cons ⟨rfl, hn, hsp, hsn, ?_⟩ hall⟩
    intro u hu
    exact (hpost.out u hu).mono hsub

end

theorem mem_addObjects : ∀ (objs : List Obj) (m : Objects), ∀ e ∈ addObjects objs m, e ∈ m ∨ ∃ o ∈ objs, e = (o.name, o)
  | [], m, e, he => Or.inl (by simpa [addObjects] using he)
  | o :: objs, m, e, he => by
    simp only [addObjects, List.foldl_cons] at he
    have := mem_addObjects objs (rset o.name o m) e (by simpa [addObjects] using he)
    rcases this with h | ⟨o', ho', h⟩
    · rcases mem_rset _ _ _ _ h with h | h
      · exact Or.inr ⟨o, by simp, h⟩
      · exact Or.inl h
    · exact Or.inr ⟨o', List.mem_cons_of_mem _ ho', h⟩

theorem keys_addObjects : ∀ (objs : List Obj) (m : Objects) (k : String),
    (keyIn m k ∨ ∃ o ∈ objs, o.name = k) → keyIn (addObjects objs m) k
  | [], m, k, h => by
    rcases h with h | ⟨o, ho, _⟩
    · simpa [addObjects] using h
    · simp at ho
  | o :: objs, m, k, h => by
    simp only [addObjects, List.foldl_cons]
    have := keys_addObjects objs (rset o.name o m) k
    simp only [addObjects] at this
    apply this
    rcases h with h | ⟨o', ho', hn⟩
    · exact Or.inl ((keys_rset _ _ _ _).mpr (Or.inr h))
    · rcases List.mem_cons.mp ho' with rfl | ho'
      · exact Or.inl ((keys_rset _ _ _ _).mpr (Or.inl hn))
      · exact Or.inr ⟨o', ho', hn⟩

end Cog.Closed.Anon

namespace Cog.Closed
open Cog Cog.IR Cog.Passes
open Cog.OMap (rget rset)

/-- what a pass of the shape "rewrite every object, collect new objects, `AddObjects` them" has to
    establish per schema -/
def Anon.Spec (S : Schemas) (s : Schema) (r : Objects × List Obj) : Prop :=
  Anon.AccOK s.pkg (fun u => resolves S u = true) r.2 ∧
  All2 (fun e e' => e'.1 = e.1 ∧ e'.2.name = e.2.name ∧ e'.2.selfPkg = e.2.selfPkg ∧ e'.2.selfName = e.2.selfName ∧
    ∀ u ∈ Ty.uses s.pkg e'.2.ty, Anon.Good s.pkg (fun u => resolves S u = true) r.2 u) s.objects r.1

theorem closed_of_spec (f : Schema → Objects × List Obj) (S : Schemas) (hc : Closed S) (hup : (S.map (·.pkg)).Nodup)
    (per : ∀ s ∈ S, Anon.Spec S s (f s)) :
    Closed (S.map fun s => { s with objects := addObjects (f s).2 (f s).1 }) ∧
    KeysMono S (S.map fun s => { s with objects := addObjects (f s).2 (f s).1 }) := by
  have hcl := (closed_iff S).mp hc
  let g : Schema → Schema := fun s => { s with objects := addObjects (f s).2 (f s).1 }
  have hall := all2_map g S
  have hm : KeysMono S (S.map g) := by
    apply forall2_imp hall
    rintro s s' hs rfl
    refine ⟨rfl, ?_⟩
    rintro k ⟨e, he, rfl⟩
    apply Anon.keys_addObjects
    left
    obtain ⟨e', he', hk, _⟩ := (per s hs).2.mem_left he
    exact ⟨e', he', hk⟩
  have hup' : ((S.map g).map (·.pkg)).Nodup := by
    rw [pkgs_of_mono hm]; exact hup
  refine ⟨?_, hm⟩
  apply closed_of_mono hc hm
  · intro s' hs' e he
    obtain ⟨s, hs, rfl⟩ := List.mem_map.mp hs'
    rcases Anon.mem_addObjects _ _ e he with he | ⟨o, ho, rfl⟩
    · obtain ⟨e0, he0, hk, hn, h1, h2, _⟩ := (per s hs).2.mem_right he
      have hself := hcl.1 s hs e0 he0
      rw [selfOK_iff] at hself ⊢
      exact ⟨by rw [hk, hn]; exact hself.1, by rw [h1]; exact hself.2.1, by rw [h2, hn]; exact hself.2.2⟩
    · have := (per s hs).1 o ho
      rw [selfOK_iff]
      exact ⟨rfl, this.1, this.2.1⟩
  · apply refPositions_forall2 hall (fun u => resolves S u = true ∨ resolves (S.map g) u = true)
    rintro s s' hs rfl r hr
    have good : ∀ u, Anon.Good s.pkg (fun u => resolves S u = true) (f s).2 u →
        resolves S u = true ∨ resolves (S.map g) u = true := by
      rintro u (hu | ⟨o, ho, rfl⟩)
      · exact Or.inl hu
      · right
        rw [resolves_iff]
        refine Or.inr ⟨g s, ?_, ?_⟩
        · exact FilterSchemas.locate_unique _ hup' _ (List.mem_map.mpr ⟨s, hs, rfl⟩)
        · exact Anon.keys_addObjects _ _ _ (Or.inr ⟨o, ho, rfl⟩)
    simp only [schemaUses, List.mem_append, List.mem_flatMap, objUses, List.mem_map] at hr
    rcases hr with hr | ⟨e, he, u, hu, rfl⟩
    · left
      have : entryUses (g s) = entryUses s := rfl
      rw [this] at hr
      exact ((closed_iff S).mp hc).2 s hs |>.1 r hr
    · rcases Anon.mem_addObjects _ _ e he with he | ⟨o, ho, rfl⟩
      · obtain ⟨e0, _, _, _, _, _, huse⟩ := (per s hs).2.mem_right he
        exact good u (huse u hu)
      · exact good u (((per s hs).1 o ho).2.2 u hu)

theorem C_anonymousStructsToNamed (S S' : Schemas) (hc : Closed S) (hup : (S.map (·.pkg)).Nodup)
    (h : AnonymousStructsToNamed.run S = .ok S') : Closed S' ∧ KeysMono S S' := by
  simp only [AnonymousStructsToNamed.run, Outcome.ok.injEq] at h
  subst h
  have hcl := (closed_iff S).mp hc
  apply closed_of_spec (fun s => AnonymousStructsToNamed.processObjects s.objects []) S hc hup
  intro s hs
  have := Anon.pobjs (pkg := s.pkg) (R := fun u => resolves S u = true) s.objects []
      (fun kv hkv => by
        have hself := hcl.1 s hs kv hkv
        rw [selfOK_iff] at hself
        exact ⟨hself.2.1, (uses_of_closed hc hs).2.2 kv hkv⟩)
      (fun o ho => by simp at ho)
  exact ⟨this.2.1, this.2.2⟩

end Cog.Closed
