/-
  PrefixObjectNames and replace_reference keep `Closed`.

  prefix: every object, every reference / constant reference / mapping value the Visitor reaches
  gets the prefix.  Not rewritten: the `EntryPoint` string, references in map index types and in
  generated-union payloads, the mapping of a payload kept under another hint than
  `disjunction_of_refs` — the decidable hypothesis `Prefix.ok` asks for none of those (into a
  loaded package).  An empty prefix is the identity.

  replace_reference: objects keep their names, so every use keeps resolving; the replaced
  references point to `to`, which the property grants to exist (`Replace.side`).
-/
import Cog.Closed.Visit
import Cog.Xform.PrefixObjectNames
import Cog.Xform.ReplaceReference
namespace Cog.Closed
open Cog.IR Cog.Xform
open Cog.OMap (rget rset)

namespace Prefix
open PrefixObjectNames

def tyOK (S : Schemas) (home : String) (t : Ty) : Bool :=
  (Ty.uses home t).all (fun u => u.kind != .gmapping) && (Ty.offUses home t).all (fun u => !loaded S u.pkg)

/-- decidable hypotheses: no entry point string, nothing named at a position the pass skips -/
def ok (S : Schemas) : Bool :=
  S.all fun s => s.entryPoint == "" && tyOK S s.pkg s.entryPointType && s.objects.all fun kv => tyOK S s.pkg kv.2.ty

theorem onObj_ty (p : Params) (o : Obj) : (onObj p o).ty = xfTy (hooks p) o.ty := rfl

section
variable (p : Params) (S : Schemas) (hc : Closed S)
include hc

theorem resolves_pfx (u : Use) (hr : resolves S u = true) :
    resolves (S.map (vg (xfTy (hooks p)) (onObj p))) ⟨u.kind, u.pkg, p.pfx ++ u.name⟩ = true := by
  apply resolves_visit _ _ S u _ hr
  intro s hs _ kv hkv hkn
  have hself := ((closed_iff S).mp hc).1 s hs kv hkv
  rw [selfOK_iff] at hself
  simp [onObj, ← hself.1, hkn]

theorem ty_after (home : String) (t : Ty) (hq : ∀ u ∈ Ty.uses home t, resolves S u = true)
    (hs : tyOK S home t = true) :
    ∀ u ∈ Ty.uses home (xfTy (hooks p) t), resolves (S.map (vg (xfTy (hooks p)) (onObj p))) u = true := by
  simp only [tyOK, Bool.and_eq_true, List.all_eq_true, bne_iff_ne, ne_eq, Bool.not_eq_true'] at hs
  obtain ⟨hs1, hs2⟩ := hs
  apply uses_xf home (hooks p)
    (fun u => resolves S u = true ∧ u.kind ≠ .gmapping)
    (fun u => resolves (S.map (vg (xfTy (hooks p)) (onObj p))) u = true)
  · intro pk n m hQ u hu
    simp only [hooks, Ty.uses, List.mem_singleton] at hu
    subst hu
    exact resolves_pfx p S hc ⟨.ref, pk, n⟩ hQ.1
  · intro pk n v m hQ u hu
    simp only [hooks, Ty.uses, List.mem_singleton] at hu
    subst hu
    exact resolves_pfx p S hc ⟨.cref, pk, n⟩ hQ.1
  · intro vs m u hu
    simp [hooks, Ty.uses] at hu
  · intro di hQ u hu
    simp only [hooks, prefixMapping, mappingUses, List.map_map, List.mem_map, Function.comp] at hu
    obtain ⟨kv, hkv, rfl⟩ := hu
    exact resolves_pfx p S hc ⟨.mapping, home, kv.2⟩ (hQ _ (by simp only [mappingUses, List.mem_map]; exact ⟨kv, hkv, rfl⟩)).1
  · intro gi hQ u hu
    cases gi with
    | none => simp [hooks, giUses] at hu
    | some x =>
      obtain ⟨hn, di⟩ := x
      by_cases hh : (hn == hintRefs) = true
      · have hh' : (hn == PrefixObjectNames.hintRefs) = true := hh
        simp only [hooks, hh', if_true, giUses, hh, prefixMapping, mappingUses, List.map_map,
          List.mem_map, Function.comp] at hu
        obtain ⟨kv, hkv, rfl⟩ := hu
        exact resolves_pfx p S hc ⟨.mapping, home, kv.2⟩
          (hQ _ (by simp only [giUses, hh, if_true, mappingUses, List.mem_map]; exact ⟨kv, hkv, rfl⟩)).1
      · have hh' : (hn == PrefixObjectNames.hintRefs) = false := by
          have e : PrefixObjectNames.hintRefs = Cog.Closed.hintRefs := rfl
          rw [e]; simpa using hh
        simp only [hooks, hh', Bool.false_eq_true, if_false] at hu
        have := hQ u hu
        exfalso
        apply this.2
        simp only [giUses, hh, Bool.false_eq_true, if_false, mappingUses, List.mem_map] at hu
        obtain ⟨kv, _, rfl⟩ := hu
        rfl
  · intro u hu
    exact ⟨hq u hu, hs1 u hu⟩
  · intro u hu
    have : loaded (S.map (vg (xfTy (hooks p)) (onObj p))) u.pkg = false := by
      rw [loaded_map _ (vg_pkg _ _)]; exact hs2 u hu
    simp [resolves, this]

end

theorem preserves_closed (p : Params) (S S' : Schemas) (hc : Closed S)
    (hok : p.pfx = "" ∨ ok S = true) (h : PrefixObjectNames.run p S = .ok S') : Closed S' := by
  rw [(mkRun_ok.mp h).2]
  by_cases he : (p.pfx == "") = true
  · simpa [apply, he] using hc
  · have hok' : ok S = true := by
      rcases hok with h | h
      · simp [h] at he
      · exact h
    simp only [apply, he, if_false, Bool.false_eq_true]
    show Closed (S.map (vg (xfTy (hooks p)) (onObj p)))
    have hk := fun s hs => by
      have := List.all_eq_true.mp hok' s hs
      simpa only [Bool.and_eq_true] using this
    apply closed_visit _ _ S hc
    · intro s _ kv _ hself
      rw [selfOK_iff] at hself ⊢
      exact ⟨rfl, hself.2.1, rfl⟩
    · exact onObj_ty p
    · intro s hs hne _
      have := (hk s hs).1.1
      simp only [beq_iff_eq] at this
      exact absurd this hne
    · intro s hs hq
      exact ty_after p S hc s.pkg _ hq (hk s hs).1.2
    · intro s hs kv hkv hq
      exact ty_after p S hc s.pkg _ hq (List.all_eq_true.mp (hk s hs).2 kv hkv)

end Prefix

namespace Replace
open ReplaceReference

/-- what the property grants: the new target exists (or lies in a package that is not loaded) -/
def side (p : Params) (S : Schemas) : Bool := resolves S ⟨.ref, p.to.pkg, p.to.obj⟩

theorem onObj_ty (p : Params) (o : Obj) : (onObj p o).ty = xfTy (hooks p) o.ty := rfl

section
variable (p : Params) (S : Schemas) (hc : Closed S) (hside : side p S = true)
include hc

theorem resolves_same (u : Use) (hr : resolves S u = true) :
    resolves (S.map (vg (xfTy (hooks p)) (onObj p))) u = true := by
  have := resolves_visit (xfTy (hooks p)) (onObj p) S u u.name hr (by
    intro s hs _ kv hkv hkn
    have hself := ((closed_iff S).mp hc).1 s hs kv hkv
    rw [selfOK_iff] at hself
    simp [onObj, ← hself.1, hkn])
  simpa using this

include hside
theorem ty_after (home : String) (t : Ty) (hq : ∀ u ∈ Ty.uses home t, resolves S u = true) :
    ∀ u ∈ Ty.uses home (xfTy (hooks p) t), resolves (S.map (vg (xfTy (hooks p)) (onObj p))) u = true := by
  apply uses_xf home (hooks p) (fun u => resolves S u = true)
    (fun u => resolves (S.map (vg (xfTy (hooks p)) (onObj p))) u = true)
  · intro pk n m hQ u hu
    simp only [hooks] at hu
    split at hu
    · simp only [Ty.uses, List.mem_singleton] at hu
      subst hu
      exact resolves_same p S hc _ hside
    · simp only [Ty.uses, List.mem_singleton] at hu
      subst hu
      exact resolves_same p S hc _ hQ
  · intro pk n v m hQ u hu
    simp only [hooks, Ty.uses, List.mem_singleton] at hu
    subst hu
    exact resolves_same p S hc _ hQ
  · intro vs m u hu
    simp [hooks, Ty.uses] at hu
  · intro di hQ u hu
    exact resolves_same p S hc u (hQ u hu)
  · intro gi hQ u hu
    exact resolves_same p S hc u (hQ u hu)
  · exact hq
  · intro u hu
    exact resolves_same p S hc u (hq u (offUses_sub home t u hu))

end

theorem preserves_closed (p : Params) (S S' : Schemas) (hc : Closed S) (hside : side p S = true)
    (h : ReplaceReference.run p S = .ok S') : Closed S' := by
  rw [(mkRun_ok.mp h).2]
  show Closed (S.map (vg (xfTy (hooks p)) (onObj p)))
  apply closed_visit _ _ S hc
  · intro s _ kv _ hself
    rw [selfOK_iff] at hself ⊢
    exact ⟨rfl, hself.2.1, hself.2.2⟩
  · exact onObj_ty p
  · intro s _ _ hr
    exact resolves_same p S hc _ hr
  · intro s _ hq
    exact ty_after p S hc hside s.pkg _ hq
  · intro s _ kv _ hq
    exact ty_after p S hc hside s.pkg _ hq

end Replace
end Cog.Closed
