/-
  Literal model of internal/ast/compiler/filter_schemas.go (`allowed_objects`).

  buildAllowList:
    rootObjects := {}                                  -- ordered map  SelfRef.String() ↦ Object
    for each allowed object (in order): schemas.LocateObject(pkg, name) (exact name); found ⇒
        rootObjects.Set(obj.SelfRef.String(), obj)
    visitor := Visitor{OnRef: found ⇒ rootObjects.Set(def.Ref.String(), referredObj)}
    for { if rootObjects.Len() == 0 break
          objects := rootObjects; rootObjects = {}
          objects.Iterate(key, object):
             if allowList.Has(object.SelfRef.String()) return      -- tested by SELF reference
             allowList.Set(key, {})                                -- stored by KEY
             schema, found := schemas.Locate(object.SelfRef.ReferredPkg); !found ⇒ return
             visitor.VisitType(schema, object.Type) }
  The Visitor reaches: array element, map VALUE, struct fields, union and intersection branches.
  It does not reach: map index types, constant references, discriminator mappings, the
  disjunction kept in a generated struct's hints.  The entry point is not looked at.

  processSchema: `Objects.Filter(allowList.Has(object.SelfRef.String()))`.

  The `for` loop has no bound in Go.  It ends when a round adds nothing; with objects whose
  `SelfRef` is not the key they are reached by it may never end — the model has fuel and an
  explicit `diverge` outcome (`Outcome.err "diverge"`).  A nil kind pointer met by the Visitor
  (`Ty.bad`) is a Go panic.
-/
import Cog.Closed.Reach
import Cog.Xform.Common
namespace Cog.Closed.FilterSchemas
open Cog.IR Cog.Closed
open Cog.OMap (rget rset)

/-- `RefType.String()` / `ObjectReference.String()` -/
def refKey (pkg name : String) : String := pkg ++ "." ++ name

abbrev Roots := List (String × Obj)

/-- `allowList.Set(key, struct{}{})` on an ordered map used as a set -/
def setKey (k : String) (l : List String) : List String := if l.contains k then l else l ++ [k]

/- the `OnRef` visitor over one type: every reference at a Visitor position whose target exists
   is put into `rootObjects` under `def.Ref.String()` -/
mutual
def visitRefs (S : Schemas) : Ty → Roots → Roots
  | .ref p n _, r =>
    match Schemas.locateObject S p n with
    | some o => rset (refKey p n) o r
    | none => r
  | .array e _, r => visitRefs S e r
  | .map _ v _, r => visitRefs S v r
  | .struct fs _ _ _, r => visitRefsFields S fs r
  | .disj bs _ _, r => visitRefsList S bs r
  | .inter bs _, r => visitRefsList S bs r
  | _, r => r
def visitRefsList (S : Schemas) : List Ty → Roots → Roots
  | [], r => r
  | t :: ts, r => visitRefsList S ts (visitRefs S t r)
def visitRefsFields (S : Schemas) : List Field → Roots → Roots
  | [], r => r
  | f :: fs, r => visitRefsFields S fs (visitRefs S f.ty r)
end

structure St where
  allow : List String := []
  next : Roots := []
  visited : List Obj := []     -- objects whose type was handed to the Visitor (for the panic check)

/-- body of `objects.Iterate` -/
def stepRoot (S : Schemas) (st : St) (kv : String × Obj) : St :=
  if st.allow.contains (refKey kv.2.selfPkg kv.2.selfName) then st
  else
    let allow := setKey kv.1 st.allow
    match Schemas.locate S kv.2.selfPkg with
    | none => { st with allow := allow }
    | some _ => { allow := allow, next := visitRefs S kv.2.ty st.next, visited := st.visited ++ [kv.2] }

def round (S : Schemas) (allow : List String) (visited : List Obj) (roots : Roots) : St :=
  roots.foldl (stepRoot S) { allow := allow, next := [], visited := visited }

/-- the `for` loop; `none` = fuel exhausted -/
def loop (S : Schemas) : Nat → List String → List Obj → Roots → Option (List String × List Obj)
  | _, allow, vis, [] => some (allow, vis)
  | 0, _, _, _ :: _ => none
  | fuel + 1, allow, vis, r :: rs =>
    let st := round S allow vis (r :: rs)
    loop S fuel st.allow st.visited st.next

def initRoots (S : Schemas) : List Addr → Roots → Roots
  | [], r => r
  | a :: as, r =>
    match Schemas.locateObject S a.1 a.2 with
    | some o => initRoots S as (rset (refKey o.selfPkg o.selfName) o r)
    | none => initRoots S as r

def fuelFor (S : Schemas) : Nat := Schemas.objectCount S + 2

def buildAllowList (S : Schemas) (A : List Addr) : Option (List String × List Obj) :=
  loop S (fuelFor S) [] [] (initRoots S A [])

def keep (allow : List String) (s : Schema) : Schema :=
  { s with objects := s.objects.filter fun kv => allow.contains (refKey kv.2.selfPkg kv.2.selfName) }

def run (A : List Addr) (S : Schemas) : Outcome Schemas :=
  match buildAllowList S A with
  | none => .err "diverge"
  | some (allow, visited) =>
    if visited.all (fun o => Cog.Xform.walkOk ["ref"] (fun _ => true) o.ty) then .ok (S.map (keep allow))
    else .panic "nil kind pointer"

/-- `InputBase.filterSchema` (internal/codegen/input.go): no allowed objects ⇒ no filter; the
    names are looked up in the package of the schema being loaded -/
def filterSchema (allowed : List String) (s : Schema) : Outcome Schemas :=
  if allowed.isEmpty then .ok [s] else run (allowed.map fun n => (s.pkg, n)) [s]

end Cog.Closed.FilterSchemas
