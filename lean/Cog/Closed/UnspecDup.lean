/-
  unspec and duplicate_object keep `Closed` — under decidable hypotheses.

  unspec drops the objects named (EqualFold) `metadata` and renames the struct objects named
  (EqualFold) `spec`, without rewriting anything: `Unspec.ok` asks that nothing in a loaded package
  is named `spec` / `metadata` (any letter case) by any use.

  duplicate_object copies an object under a new name, possibly into another package.  References
  carry their package, so they keep resolving; discriminator-mapping targets are BARE names looked
  up in the package of the schema that holds them, so a copy into another package may leave them
  dangling: `Duplicate.okFrom` asks, at every step of `VisitSchemas`, that the copy stays in its
  package or that the source names no mapping target.
-/
import Cog.Closed.Visit
import Cog.Xform.Unspec
import Cog.Xform.DuplicateObject
namespace Cog.Closed
open Cog.IR Cog.Xform
open Cog.OMap (rget rset)

/-! ### unspec -/

namespace Unspec
open Cog.Xform.Unspec

def special (n : String) : Bool := eqFold n "metadata" || eqFold n "spec"

def ok (S : Schemas) : Bool := (refPositions S).all fun r => !loaded S r.use.pkg || !special r.use.name

theorem processSchema_pkg (s : Schema) : (processSchema s).pkg = s.pkg := rfl

theorem onObj_other (s : Schema) (o : Obj) (h : special o.name = false) : onObj s o = o := by
  simp only [special, Bool.or_eq_false_iff] at h
  simp [onObj, h.2]

theorem resolves_after (S : Schemas) (hc : Closed S) (u : Use) (hr : resolves S u = true)
    (hn : loaded S u.pkg = false ∨ special u.name = false) : resolves (S.map processSchema) u = true := by
  rw [resolves_iff] at hr ⊢
  simp only [locate_map processSchema processSchema_pkg]
  rcases hr with hr | ⟨s, hs, e, he, hen⟩
  · exact Or.inl (by simp [hr])
  · refine Or.inr ⟨processSchema s, by simp [hs], ?_⟩
    obtain ⟨hsm, _⟩ := locate_mem hs
    have hsp : special u.name = false := by
      rcases hn with h | h
      · simp [loaded, hs] at h
      · exact h
    have hself := ((closed_iff S).mp hc).1 s hsm e he
    rw [selfOK_iff] at hself
    have hname : e.2.name = u.name := by rw [← hself.1, hen]
    have hspe : special e.2.name = false := by rw [hname]; exact hsp
    simp only [processSchema]
    refine (keys_rebuild (onObj s) _ [] u.name).mpr (Or.inr ⟨e, ?_, ?_⟩)
    · refine List.mem_filter.mpr ⟨he, ?_⟩
      simp only [special, Bool.or_eq_false_iff] at hspe
      simp [hspe.1]
    · rw [onObj_other s e.2 hspe, hname]

theorem preserves_closed (S S' : Schemas) (hc : Closed S) (hok : ok S = true)
    (h : Cog.Xform.Unspec.run () S = .ok S') : Closed S' := by
  rw [(mkRun_ok.mp h).2]
  show Closed (S.map processSchema)
  have hcl := (closed_iff S).mp hc
  have hcl' := hcl
  have hall : ∀ r ∈ refPositions S, resolves (S.map processSchema) r.use = true := by
    intro r hr
    have h1 : resolves S r.use = true := by
      have := hc
      simp only [Closed, closed, Bool.and_eq_true, List.all_eq_true] at this
      exact this.2 r hr
    have h2 := List.all_eq_true.mp hok r hr
    simp only [Bool.or_eq_true, Bool.not_eq_true'] at h2
    exact resolves_after S hc r.use h1 h2
  rw [closed_iff]
  refine ⟨?_, ?_⟩
  · intro s' hs' e he
    obtain ⟨s, hs, rfl⟩ := List.mem_map.mp hs'
    simp only [processSchema] at he
    rcases mem_rebuild (onObj s) _ [] e he with h0 | ⟨kv, hkv, rfl⟩
    · simp at h0
    · have hself := hcl.1 s hs kv (List.mem_filter.mp hkv).1
      rw [selfOK_iff] at hself ⊢
      simp only [onObj]
      split
      · exact ⟨trivial, hself.2.1, rfl⟩
      · exact ⟨trivial, hself.2.1, hself.2.2⟩
  · intro s' hs'
    obtain ⟨s, hs, rfl⟩ := List.mem_map.mp hs'
    refine ⟨?_, ?_⟩
    · intro r hr
      apply hall
      simp only [refPositions, schemaUses, List.mem_flatMap, List.mem_append]
      exact ⟨s, hs, Or.inl (by simpa [entryUses, processSchema] using hr)⟩
    · intro e he u hu
      simp only [processSchema] at he
      rcases mem_rebuild (onObj s) _ [] e he with h0 | ⟨kv, hkv, rfl⟩
      · simp at h0
      · have hty : (onObj s kv.2).ty = kv.2.ty := by simp only [onObj]; split <;> rfl
        rw [hty] at hu
        apply hall ⟨objSite s kv.1, u⟩
        simp only [refPositions, schemaUses, List.mem_flatMap, List.mem_append, objUses, List.mem_map]
        exact ⟨s, hs, Or.inr ⟨kv, (List.mem_filter.mp hkv).1, u, hu, rfl⟩⟩

end Unspec

/-! ### duplicate_object -/

/- uses of a type when it is moved to another home package: references keep their package,
   mapping targets follow the home -/
mutual
theorem uses_rehome (home home' : String) : ∀ t : Ty, ∀ u ∈ Ty.uses home' t,
    (u ∈ Ty.uses home t ∧ (u.kind = .ref ∨ u.kind = .cref)) ∨
    (⟨u.kind, home, u.name⟩ ∈ Ty.uses home t ∧ (u.kind = .mapping ∨ u.kind = .gmapping) ∧ u.pkg = home')
  | .scalar .. => fun u hu => by simp [Ty.uses] at hu
  | .ref .. => fun u hu => by
    simp only [Ty.uses, List.mem_singleton] at hu; subst hu; simp [Ty.uses]
  | .cref .. => fun u hu => by
    simp only [Ty.uses, List.mem_singleton] at hu; subst hu; simp [Ty.uses]
  | .array e _ => fun u hu => by
    simp only [Ty.uses] at hu ⊢; exact uses_rehome home home' e u hu
  | .map i v _ => fun u hu => by
    simp only [Ty.uses, List.mem_append] at hu ⊢
    rcases hu with hu | hu
    · rcases uses_rehome home home' i u hu with h | h
      · exact Or.inl ⟨Or.inl h.1, h.2⟩
      · exact Or.inr ⟨Or.inl h.1, h.2⟩
    · rcases uses_rehome home home' v u hu with h | h
      · exact Or.inl ⟨Or.inr h.1, h.2⟩
      · exact Or.inr ⟨Or.inr h.1, h.2⟩
  | .struct fs g gi _ => fun u hu => by
    simp only [Ty.uses, List.mem_append] at hu ⊢
    rcases hu with hu | hu | hu
    · rcases usesFields_rehome home home' fs u hu with h | h
      · exact Or.inl ⟨Or.inl h.1, h.2⟩
      · exact Or.inr ⟨Or.inl h.1, h.2⟩
    · rcases usesList_rehome home home' g u hu with h | h
      · exact Or.inl ⟨Or.inr (Or.inl h.1), h.2⟩
      · exact Or.inr ⟨Or.inr (Or.inl h.1), h.2⟩
    · cases gi with
      | none => simp [giUses] at hu
      | some x =>
        simp only [giUses, mappingUses, List.mem_map] at hu ⊢
        obtain ⟨kv, hkv, rfl⟩ := hu
        refine Or.inr ⟨Or.inr (Or.inr ⟨kv, hkv, rfl⟩), ?_, rfl⟩
        split <;> simp
  | .enum .. => fun u hu => by simp [Ty.uses] at hu
  | .disj bs di _ => fun u hu => by
    simp only [Ty.uses, List.mem_append] at hu ⊢
    rcases hu with hu | hu
    · rcases usesList_rehome home home' bs u hu with h | h
      · exact Or.inl ⟨Or.inl h.1, h.2⟩
      · exact Or.inr ⟨Or.inl h.1, h.2⟩
    · simp only [mappingUses, List.mem_map] at hu ⊢
      obtain ⟨kv, hkv, rfl⟩ := hu
      exact Or.inr ⟨Or.inr ⟨kv, hkv, rfl⟩, Or.inl rfl, rfl⟩
  | .inter bs _ => fun u hu => by
    simp only [Ty.uses] at hu ⊢; exact usesList_rehome home home' bs u hu
  | .slot .. => fun u hu => by simp [Ty.uses] at hu
  | .bad .. => fun u hu => by simp [Ty.uses] at hu
theorem usesList_rehome (home home' : String) : ∀ ts : List Ty, ∀ u ∈ Ty.usesList home' ts,
    (u ∈ Ty.usesList home ts ∧ (u.kind = .ref ∨ u.kind = .cref)) ∨
    (⟨u.kind, home, u.name⟩ ∈ Ty.usesList home ts ∧ (u.kind = .mapping ∨ u.kind = .gmapping) ∧ u.pkg = home')
  | [] => fun u hu => by simp [Ty.usesList] at hu
  | t :: ts => fun u hu => by
    simp only [Ty.usesList, List.mem_append] at hu ⊢
    rcases hu with hu | hu
    · rcases uses_rehome home home' t u hu with h | h
      · exact Or.inl ⟨Or.inl h.1, h.2⟩
      · exact Or.inr ⟨Or.inl h.1, h.2⟩
    · rcases usesList_rehome home home' ts u hu with h | h
      · exact Or.inl ⟨Or.inr h.1, h.2⟩
      · exact Or.inr ⟨Or.inr h.1, h.2⟩
theorem usesFields_rehome (home home' : String) : ∀ fs : List Field, ∀ u ∈ Ty.usesFields home' fs,
    (u ∈ Ty.usesFields home fs ∧ (u.kind = .ref ∨ u.kind = .cref)) ∨
    (⟨u.kind, home, u.name⟩ ∈ Ty.usesFields home fs ∧ (u.kind = .mapping ∨ u.kind = .gmapping) ∧ u.pkg = home')
  | [] => fun u hu => by simp [Ty.usesFields] at hu
  | f :: fs => fun u hu => by
    simp only [Ty.usesFields, List.mem_append] at hu ⊢
    rcases hu with hu | hu
    · rcases uses_rehome home home' f.ty u hu with h | h
      · exact Or.inl ⟨Or.inl h.1, h.2⟩
      · exact Or.inr ⟨Or.inl h.1, h.2⟩
    · rcases usesFields_rehome home home' fs u hu with h | h
      · exact Or.inl ⟨Or.inr h.1, h.2⟩
      · exact Or.inr ⟨Or.inr h.1, h.2⟩
end

theorem usesFields_filter (home : String) (q : Field → Bool) : ∀ fs : List Field,
    ∀ u ∈ Ty.usesFields home (fs.filter q), u ∈ Ty.usesFields home fs
  | [] => fun u hu => by simp [Ty.usesFields] at hu
  | f :: fs => fun u hu => by
    simp only [List.filter_cons] at hu
    simp only [Ty.usesFields, List.mem_append]
    split at hu
    · simp only [Ty.usesFields, List.mem_append] at hu
      rcases hu with hu | hu
      · exact Or.inl hu
      · exact Or.inr (usesFields_filter home q fs u hu)
    · exact Or.inr (usesFields_filter home q fs u hu)

namespace Duplicate
open DuplicateObject

def noMapping (home : String) (t : Ty) : Bool :=
  (Ty.uses home t).all fun u => u.kind != .mapping && u.kind != .gmapping

def stepOK (p : Params) (cur : Schemas) (s : Schema) : Bool :=
  s.pkg != p.as_.pkg ||
  match Schemas.locateObject cur p.object.pkg p.object.obj with
  | none => true
  | some src => p.as_.pkg == p.object.pkg || noMapping p.object.pkg src.ty

/-- decidable hypotheses, checked along `VisitSchemas` -/
def okFrom (p : Params) : Schemas → Schemas → Bool
  | _, [] => true
  | done, s :: rest =>
    stepOK p (done ++ s :: rest) s && okFrom p (done ++ [processSchema p (done ++ s :: rest) s]) rest

def ok (p : Params) (S : Schemas) : Bool := okFrom p [] S

/-- every use of the duplicate is a use of the source -/
theorem uses_duplicate (p : Params) (src : Obj) (home : String) :
    ∀ u ∈ Ty.uses home (duplicate p src).ty, u ∈ Ty.uses home src.ty := by
  intro u hu
  simp only [duplicate, deepCopyObj] at hu
  have hd := uses_deepCopy home src.ty
  cases hty : deepCopyTy src.ty with
  | struct fs g gi m =>
    rw [hty] at hu hd
    simp only at hu
    split at hu
    · rw [← hd]; exact hu
    · rw [← hd]
      simp only [Ty.uses, List.mem_append] at hu ⊢
      rcases hu with hu | hu
      · exact Or.inl (usesFields_filter home _ fs u hu)
      · exact Or.inr hu
  | _ => rw [hty] at hu hd; simp only at hu; rw [← hd]; exact hu

theorem duplicate_self (p : Params) (src : Obj) :
    (duplicate p src).name = p.as_.obj ∧ (duplicate p src).selfPkg = p.as_.pkg ∧
    (duplicate p src).selfName = p.as_.obj := by
  simp only [duplicate, deepCopyObj]
  split
  · split <;> exact ⟨rfl, rfl, rfl⟩
  · exact ⟨rfl, rfl, rfl⟩

/-- replacing one schema by another of the same package -/
theorem locate_replace (done rest : Schemas) (s s' : Schema) (hp : s'.pkg = s.pkg) (q : String) :
    Schemas.locate (done ++ s' :: rest) q = Schemas.locate (done ++ s :: rest) q ∨
    (Schemas.locate (done ++ s :: rest) q = some s ∧ Schemas.locate (done ++ s' :: rest) q = some s') := by
  induction done with
  | nil =>
    simp only [List.nil_append, Schemas.locate, hp]
    split
    · exact Or.inr ⟨rfl, rfl⟩
    · exact Or.inl rfl
  | cons x xs ih =>
    simp only [List.cons_append, Schemas.locate]
    split
    · exact Or.inl rfl
    · exact ih

theorem resolves_replace (done rest : Schemas) (s s' : Schema) (hp : s'.pkg = s.pkg)
    (hk : ∀ k, (∃ e ∈ s.objects, e.1 = k) → ∃ e ∈ s'.objects, e.1 = k) (u : Use)
    (hr : resolves (done ++ s :: rest) u = true) : resolves (done ++ s' :: rest) u = true := by
  rw [resolves_iff] at hr ⊢
  rcases locate_replace done rest s s' hp u.pkg with h | ⟨h1, h2⟩
  · rw [h]; exact hr
  · rw [h2]
    rw [h1] at hr
    rcases hr with hr | ⟨x, hx, hex⟩
    · cases hr
    · cases hx
      exact Or.inr ⟨s', rfl, hk _ hex⟩

theorem step_closed (p : Params) (done rest : Schemas) (s : Schema)
    (hc : Closed (done ++ s :: rest)) (hok : stepOK p (done ++ s :: rest) s = true) :
    Closed (done ++ processSchema p (done ++ s :: rest) s :: rest) := by
  simp only [processSchema]
  by_cases hpk : (s.pkg != p.as_.pkg) = true
  · simpa [hpk] using hc
  · simp only [hpk, Bool.false_eq_true, if_false]
    cases hsrc : Schemas.locateObject (done ++ s :: rest) p.object.pkg p.object.obj with
    | none => simpa using hc
    | some src =>
      simp only
      have hspk : s.pkg = p.as_.pkg := by simpa using hpk
      let s' : Schema := { s with objects := rset p.as_.obj (duplicate p src) s.objects }
      have hp : s'.pkg = s.pkg := rfl
      have hk : ∀ k, (∃ e ∈ s.objects, e.1 = k) → ∃ e ∈ s'.objects, e.1 = k := by
        intro k hk
        exact (keys_rset p.as_.obj (duplicate p src) s.objects k).mpr (Or.inr hk)
      have hres := resolves_replace done rest s s' hp hk
      have hcl := (closed_iff _).mp hc
      -- where the source lives
      have hsrcUses : ∀ u ∈ Ty.uses p.object.pkg src.ty, resolves (done ++ s :: rest) u = true := by
        simp only [Schemas.locateObject] at hsrc
        cases hl : Schemas.locate (done ++ s :: rest) p.object.pkg with
        | none => simp [hl] at hsrc
        | some s0 =>
          simp only [hl, Schema.locateObject] at hsrc
          obtain ⟨hs0, hs0p⟩ := locate_mem hl
          have := (hcl.2 s0 hs0).2 (p.object.obj, src) (rget_some_mem _ _ _ hsrc)
          rw [hs0p] at this
          exact this
      have hdupUses : ∀ u ∈ Ty.uses s.pkg (duplicate p src).ty, resolves (done ++ s :: rest) u = true := by
        intro u hu
        have hu' := uses_duplicate p src s.pkg u hu
        rcases uses_rehome p.object.pkg s.pkg src.ty u hu' with h | h
        · exact hsrcUses u h.1
        · -- a mapping target: same package, or the source has none
          simp only [stepOK, hpk, hsrc, Bool.false_or, Bool.or_eq_true, beq_iff_eq] at hok
          rcases hok with hok | hok
          · have : (⟨u.kind, p.object.pkg, u.name⟩ : Use) = u := by
              cases u; simp only [Use.mk.injEq, true_and]; simp only at h
              rw [h.2.2, hspk, hok]
              exact ⟨rfl, trivial⟩
            rw [← this]; exact hsrcUses _ h.1
          · exfalso
            have := List.all_eq_true.mp hok _ h.1
            simp only [Bool.and_eq_true, bne_iff_ne, ne_eq] at this
            rcases h.2.1 with hk | hk
            · exact this.1 hk
            · exact this.2 hk
      show Closed (done ++ s' :: rest)
      rw [closed_iff]
      have hsmem : s ∈ done ++ s :: rest := by simp
      refine ⟨?_, ?_⟩
      · intro x hx e he
        rcases List.mem_append.mp hx with hx | hx
        · exact hcl.1 x (List.mem_append.mpr (Or.inl hx)) e he
        · rcases List.mem_cons.mp hx with rfl | hx
          · rcases mem_rset _ _ _ _ he with rfl | he
            · have := duplicate_self p src
              rw [selfOK_iff]
              exact ⟨this.1.symm, by rw [this.2.1]; exact hspk.symm, by rw [this.2.2, this.1]⟩
            · exact hcl.1 s hsmem e he
          · exact hcl.1 x (List.mem_append.mpr (Or.inr (List.mem_cons_of_mem _ hx))) e he
      · intro x hx
        have old : ∀ y ∈ done ++ s :: rest,
            (∀ r ∈ entryUses y, resolves (done ++ s' :: rest) r.use = true) ∧
            ∀ kv ∈ y.objects, ∀ u ∈ Ty.uses y.pkg kv.2.ty, resolves (done ++ s' :: rest) u = true := by
          intro y hy
          exact ⟨fun r hr => hres _ ((hcl.2 y hy).1 r hr), fun kv hkv u hu => hres _ ((hcl.2 y hy).2 kv hkv u hu)⟩
        rcases List.mem_append.mp hx with hx | hx
        · exact old x (List.mem_append.mpr (Or.inl hx))
        · rcases List.mem_cons.mp hx with rfl | hx
          · refine ⟨(old s hsmem).1, ?_⟩
            intro e he u hu
            rcases mem_rset _ _ _ _ he with rfl | he
            · exact hres _ (hdupUses u hu)
            · exact (old s hsmem).2 e he u hu
          · exact old x (List.mem_append.mpr (Or.inr (List.mem_cons_of_mem _ hx)))

theorem go_closed (p : Params) : ∀ (rest done : Schemas), Closed (done ++ rest) → okFrom p done rest = true →
    Closed (go p done rest)
  | [], done, hc, _ => by simpa [go] using hc
  | s :: rest, done, hc, hok => by
    simp only [okFrom, Bool.and_eq_true] at hok
    simp only [go]
    apply go_closed p rest _ _ hok.2
    simpa [List.append_assoc] using step_closed p done rest s hc hok.1

theorem preserves_closed (p : Params) (S S' : Schemas) (hc : Closed S) (hok : ok p S = true)
    (h : DuplicateObject.run p S = .ok S') : Closed S' := by
  rw [(mkRun_ok.mp h).2]
  exact go_closed p S [] (by simpa using hc) hok

end Duplicate
end Cog.Closed
