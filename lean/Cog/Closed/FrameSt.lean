/-
  `Closed` through a Visitor pass that registers new objects (`Visitor.RegisterNewObject`; model:
  `visitSchemaSt`, the registry `NewObjs` keyed by `SelfRef.String()` and flushed into the schema
  with `AddObject` at the end): "created ⊆ registered".

  Contract of the stateful type rewriting `v` (per schema, `pkg` = its package, `R` = "resolved
  before the pass"): every use it produces either satisfied `R` or is a reference to an object of
  the registry; every object it registers carries its own address in `pkg` and only such uses; the
  names present in the registry only grow (an entry may be REPLACED by another one of the same name).
-/
import Cog.Closed.AnonStructs
namespace Cog.Closed
open Cog Cog.IR Cog.Passes
open Cog.OMap (rget rset)

theorem refKey_cancel {p a b : String} (h : Passes.refKey p a = Passes.refKey p b) : a = b := by
  have h' := congrArg String.toList h
  simp only [Passes.refKey, String.toList_append, List.append_assoc] at h'
  have := List.append_cancel_left h'
  have := List.append_cancel_left this
  exact String.toList_inj.mp this

theorem mem_rset_of_ne {V : Type} (k : String) (v : V) : ∀ (l : List (String × V)) (e : String × V),
    e ∈ l → e.1 ≠ k → e ∈ rset k v l
  | [], e, h, _ => by simp at h
  | x :: rest, e, h, hne => by
    obtain ⟨a, b⟩ := x
    simp only [rset]
    rcases List.mem_cons.mp h with rfl | h
    · have : ¬ (a = k) := hne
      simp [this]
    · split
      · exact List.mem_cons_of_mem _ h
      · exact List.mem_cons_of_mem _ (mem_rset_of_ne k v rest e h hne)

theorem mem_rset_self {V : Type} (k : String) (v : V) : ∀ (l : List (String × V)), (k, v) ∈ rset k v l
  | [] => by simp [rset]
  | (a, b) :: rest => by
    simp only [rset]
    split
    · simp
    · exact List.mem_cons_of_mem _ (mem_rset_self k v rest)

section
variable (pkg : String) (R : Use → Prop)

def GoodN (n : NewObjs) (u : Use) : Prop := R u ∨ ∃ e ∈ n, u = ⟨.ref, pkg, e.2.name⟩

def Reg (n : NewObjs) : Prop :=
  ∀ e ∈ n, e.1 = Passes.refKey pkg e.2.name ∧ e.2.selfPkg = pkg ∧ e.2.selfName = e.2.name ∧
    ∀ u ∈ Ty.uses pkg e.2.ty, GoodN pkg R n u

def NamesMono (n n' : NewObjs) : Prop := ∀ e ∈ n, ∃ e' ∈ n', e'.2.name = e.2.name

structure PostN (n n' : NewObjs) (out : List Use) : Prop where
  mono : NamesMono n n'
  reg : Reg pkg R n'
  out : ∀ u ∈ out, GoodN pkg R n' u

def ContractSt (v : Ty → NewObjs → Outcome (Ty × NewObjs)) : Prop :=
  ∀ t n t' n', (∀ u ∈ Ty.uses pkg t, R u) → Reg pkg R n → v t n = .ok (t', n') →
    PostN pkg R n n' (Ty.uses pkg t')

variable {pkg R}

theorem NamesMono.refl (n : NewObjs) : NamesMono n n := fun e he => ⟨e, he, rfl⟩

theorem NamesMono.trans {a b c : NewObjs} (h1 : NamesMono a b) (h2 : NamesMono b c) : NamesMono a c := by
  intro e he
  obtain ⟨e1, he1, hn1⟩ := h1 e he
  obtain ⟨e2, he2, hn2⟩ := h2 e1 he1
  exact ⟨e2, he2, hn2.trans hn1⟩

theorem GoodN.mono {n n' : NewObjs} (h : NamesMono n n') {u : Use} (hg : GoodN pkg R n u) : GoodN pkg R n' u := by
  rcases hg with h1 | ⟨e, he, rfl⟩
  · exact Or.inl h1
  · obtain ⟨e', he', hn⟩ := h e he
    exact Or.inr ⟨e', he', by rw [hn]⟩

/-- `RegisterNewObject` of an object that carries its own address and only good uses -/
theorem register_ok (n : NewObjs) (o : Obj) (hr : Reg pkg R n) (hp : o.selfPkg = pkg) (hn : o.selfName = o.name)
    (hu : ∀ u ∈ Ty.uses pkg o.ty, GoodN pkg R n u ∨ u = ⟨.ref, pkg, o.name⟩) :
    NamesMono n (registerNew o n) ∧ Reg pkg R (registerNew o n) ∧ ∃ e ∈ registerNew o n, e.2.name = o.name := by
  have hkey : Passes.refKey o.selfPkg o.selfName = Passes.refKey pkg o.name := by rw [hp, hn]
  have hmono : NamesMono n (registerNew o n) := by
    intro e he
    simp only [registerNew, hkey]
    by_cases hk : e.1 = Passes.refKey pkg o.name
    · refine ⟨(Passes.refKey pkg o.name, o), mem_rset_self _ _ _, ?_⟩
      have := (hr e he).1
      rw [hk] at this
      exact (refKey_cancel this)
    · exact ⟨e, mem_rset_of_ne _ _ _ e he hk, rfl⟩
  have hself : ∃ e ∈ registerNew o n, e.2.name = o.name :=
    ⟨(Passes.refKey pkg o.name, o), by simp only [registerNew, hkey]; exact mem_rset_self _ _ _, rfl⟩
  refine ⟨hmono, ?_, hself⟩
  intro e he
  simp only [registerNew, hkey] at he
  rcases mem_rset _ _ _ _ he with rfl | he
  · refine ⟨rfl, hp, hn, ?_⟩
    intro u hu'
    rcases hu u hu' with h | rfl
    · exact h.mono hmono
    · obtain ⟨e', he', hn'⟩ := hself
      exact Or.inr ⟨e', he', by rw [hn']⟩
  · obtain ⟨h1, h2, h3, h4⟩ := hr e he
    exact ⟨h1, h2, h3, fun u hu' => (h4 u hu').mono hmono⟩

end

/-- objects after `visitObjectsSt` -/
theorem visitObjectsSt_spec (pkg : String) (R : Use → Prop) (v : Ty → NewObjs → Outcome (Ty × NewObjs))
    (hv : ContractSt pkg R v) : ∀ (l acc : Objects) (n : NewObjs) (res : Objects × NewObjs),
    (∀ kv ∈ l, ∀ u ∈ Ty.uses pkg kv.2.ty, R u) → Reg pkg R n → visitObjectsSt v l acc n = .ok res →
    NamesMono n res.2 ∧ Reg pkg R res.2 ∧
    (∀ e ∈ res.1, e ∈ acc ∨ ∃ kv ∈ l, ∃ t', e = (kv.2.name, { kv.2 with ty := t' }) ∧ ∀ u ∈ Ty.uses pkg t', GoodN pkg R res.2 u) ∧
    (∀ k, (keyIn acc k ∨ ∃ kv ∈ l, kv.2.name = k) → keyIn res.1 k)
  | [], acc, n, res, _, hr, h => by
    simp only [visitObjectsSt, Outcome.ok.injEq] at h
    subst h
    exact ⟨NamesMono.refl n, hr, fun e he => Or.inl he, fun k hk => by
      rcases hk with hk | ⟨kv, hkv, _⟩
      · exact hk
      · simp at hkv⟩
  | (k0, o) :: rest, acc, n, res, hl, hr, h => by
    simp only [visitObjectsSt] at h
    cases hvo : v o.ty n with
    | ok r =>
      obtain ⟨t, n1⟩ := r
      simp only [hvo] at h
      have post := hv o.ty n t n1 (hl (k0, o) (by simp)) hr hvo
      obtain ⟨h1, h2, h3, h4⟩ := visitObjectsSt_spec pkg R v hv rest _ n1 res
        (fun kv hkv => hl kv (List.mem_cons_of_mem _ hkv)) post.reg h
      refine ⟨post.mono.trans h1, h2, ?_, ?_⟩
      · intro e he
        rcases h3 e he with he | ⟨kv, hkv, t', he', hu⟩
        · rcases mem_rset _ _ _ _ he with rfl | he
          · exact Or.inr ⟨(k0, o), by simp, t, rfl, fun u hu => (post.out u hu).mono h1⟩
          · exact Or.inl he
        · exact Or.inr ⟨kv, List.mem_cons_of_mem _ hkv, t', he', hu⟩
      · intro k hk
        apply h4
        rcases hk with hk | ⟨kv, hkv, hn⟩
        · exact Or.inl ((keys_rset _ _ _ _).mpr (Or.inr hk))
        · rcases List.mem_cons.mp hkv with rfl | hkv
          · exact Or.inl ((keys_rset _ _ _ _).mpr (Or.inl hn))
          · exact Or.inr ⟨kv, hkv, hn⟩
    | err e => simp [hvo] at h
    | panic e => simp [hvo] at h

/-- a registering Visitor pass keeps `Closed` when its type rewriting honours the contract -/
theorem closed_visitSt (v : Schemas → Schema → Ty → NewObjs → Outcome (Ty × NewObjs)) (S S' : Schemas)
    (hc : Closed S) (hup : (S.map (·.pkg)).Nodup)
    (hv : ∀ cur, ∀ s ∈ S, ContractSt s.pkg (fun u => resolves S u = true) (v cur s))
    (h : visitSchemas (fun cur s => visitSchemaSt (v cur s) s) S = .ok S') : Closed S' ∧ KeysMono S S' := by
  have hall := visitSchemas_forall2 _ S S' h
  have hcl := (closed_iff S).mp hc
  -- per schema
  have per : ∀ s s', s ∈ S → (∃ cur, visitSchemaSt (v cur s) s = .ok s') →
      s'.pkg = s.pkg ∧ s'.entryPoint = s.entryPoint ∧
      (∀ k, keyIn s.objects k → keyIn s'.objects k) ∧
      (∀ e ∈ s'.objects, selfOK s' e = true) ∧
      (∀ u ∈ Ty.uses s.pkg s'.entryPointType, resolves S u = true ∨ ∃ nm, u = ⟨.ref, s.pkg, nm⟩ ∧ keyIn s'.objects nm) ∧
      (∀ e ∈ s'.objects, ∀ u ∈ Ty.uses s.pkg e.2.ty, resolves S u = true ∨ ∃ nm, u = ⟨.ref, s.pkg, nm⟩ ∧ keyIn s'.objects nm) := by
    rintro s s' hs ⟨cur, hf⟩
    obtain ⟨_, hc2, hc3⟩ := uses_of_closed hc hs
    simp only [visitSchemaSt] at hf
    cases h0 : v cur s s.entryPointType [] with
    | ok r0 =>
      obtain ⟨ept, n0⟩ := r0
      simp only [h0] at hf
      have post0 := hv cur s hs s.entryPointType [] ept n0 hc2 (fun e he => by simp at he) h0
      cases h1 : visitObjectsSt (v cur s) s.objects [] n0 with
      | ok r1 =>
        obtain ⟨objs, n1⟩ := r1
        simp only [h1, Outcome.ok.injEq] at hf
        subst hf
        obtain ⟨m1, r1', o1, k1⟩ := visitObjectsSt_spec s.pkg _ (v cur s) (hv cur s hs) s.objects [] n0 (objs, n1)
          hc3 post0.reg h1
        have good : ∀ u, GoodN s.pkg (fun u => resolves S u = true) n1 u →
            resolves S u = true ∨ ∃ nm, u = ⟨.ref, s.pkg, nm⟩ ∧ keyIn (flushNew n1 objs) nm := by
          rintro u (hu | ⟨e, he, rfl⟩)
          · exact Or.inl hu
          · exact Or.inr ⟨e.2.name, rfl, Anon.keys_addObjects _ _ _ (Or.inr ⟨e.2, List.mem_map.mpr ⟨e, he, rfl⟩, rfl⟩)⟩
        refine ⟨rfl, rfl, ?_, ?_, ?_, ?_⟩
        · rintro k ⟨e, he, rfl⟩
          have hself := hcl.1 s hs e he
          rw [selfOK_iff] at hself
          apply Anon.keys_addObjects
          left
          exact k1 _ (Or.inr ⟨e, he, hself.1.symm⟩)
        · intro e he
          simp only [flushNew] at he
          rcases Anon.mem_addObjects _ _ e he with he | ⟨o, ho, rfl⟩
          · rcases o1 e he with h0' | ⟨kv, hkv, t', rfl, _⟩
            · simp at h0'
            · have hself := hcl.1 s hs kv hkv
              rw [selfOK_iff] at hself ⊢
              exact ⟨rfl, hself.2.1, hself.2.2⟩
          · obtain ⟨e0, he0, rfl⟩ := List.mem_map.mp ho
            obtain ⟨_, hp, hn, _⟩ := r1' e0 he0
            rw [selfOK_iff]
            exact ⟨rfl, hp, hn⟩
        · intro u hu
          exact good u ((post0.out u hu).mono m1)
        · intro e he u hu
          simp only [flushNew] at he
          rcases Anon.mem_addObjects _ _ e he with he | ⟨o, ho, rfl⟩
          · rcases o1 e he with h0' | ⟨kv, hkv, t', rfl, huse⟩
            · simp at h0'
            · exact good u (huse u hu)
          · obtain ⟨e0, he0, rfl⟩ := List.mem_map.mp ho
            exact good u ((r1' e0 he0).2.2.2 u hu)
      | err e => simp [h1] at hf
      | panic e => simp [h1] at hf
    | err e => simp [h0] at hf
    | panic e => simp [h0] at hf
  have hm : KeysMono S S' := by
    apply forall2_imp hall
    intro s s' hs hf
    exact ⟨(per s s' hs hf).1, (per s s' hs hf).2.2.1⟩
  have hup' : (S'.map (·.pkg)).Nodup := by rw [pkgs_of_mono hm]; exact hup
  refine ⟨?_, hm⟩
  apply closed_of_mono hc hm
  · intro s' hs' e he
    obtain ⟨s, hs, hf⟩ := forall2_mem_right hall s' hs'
    exact (per s s' hs hf).2.2.2.1 e he
  · -- uses
    have key : ∀ s s', s ∈ S → s' ∈ S' → (∃ cur, visitSchemaSt (v cur s) s = .ok s') → ∀ r ∈ schemaUses s',
        resolves S r.use = true ∨ resolves S' r.use = true := by
      intro s s' hs hs' hf r hr
      obtain ⟨hp, hep, _, _, hept, hobj⟩ := per s s' hs hf
      have fin : ∀ u, (resolves S u = true ∨ ∃ nm, u = ⟨.ref, s.pkg, nm⟩ ∧ keyIn s'.objects nm) →
          resolves S u = true ∨ resolves S' u = true := by
        rintro u (hu | ⟨nm, rfl, e, he, hk⟩)
        · exact Or.inl hu
        · right
          rw [resolves_iff]
          refine Or.inr ⟨s', ?_, e, he, hk⟩
          have := FilterSchemas.locate_unique S' hup' s' hs'
          rw [hp] at this
          exact this
      simp only [schemaUses, entryUses, List.mem_append, List.mem_flatMap, objUses, List.mem_map, hp, hep] at hr
      rcases hr with (hr | ⟨u, hu, rfl⟩) | ⟨e, he, u, hu, rfl⟩
      · left
        by_cases hne : s.entryPoint = ""
        · simp [hne] at hr
        · simp only [hne, if_false, List.mem_singleton, beq_iff_eq] at hr
          subst hr
          exact (uses_of_closed hc hs).1 hne
      · exact fin u (hept u hu)
      · exact fin u (hobj e he u hu)
    intro r hr
    simp only [refPositions, List.mem_flatMap] at hr
    obtain ⟨s', hs', hr⟩ := hr
    obtain ⟨s, hs, hf⟩ := forall2_mem_right hall s' hs'
    exact key s s' hs hs' hf r hr

end Cog.Closed
