/-
  Generic lemmas for the C05 preservation theorems:
  * ordered-map facts (`rget`/`rset`, the Visitor's `rebuild`) that need no uniqueness assumption,
    so that name collisions (an object overwriting another) are covered;
  * `locate` through a package-preserving map over the schemas;
  * the transfer lemma `uses_xf`: what the uses of `xfTy h t` are, for the Visitor `xfTy` of the
    C15 models — the positions it rewrites (through the hooks) and the positions it never reaches
    (`Ty.offUses`: map index types and generated-union payloads).
-/
import Cog.Closed.Basic
import Cog.Xform.Common
import Cog.OMap.Lemmas
set_option linter.unusedSectionVars false
namespace Cog.Closed
open Cog.IR Cog.Xform
open Cog.OMap (rget rset)

/-! ### association lists -/

theorem rget_isSome_iff {V : Type} (k : String) (l : List (String × V)) :
    (rget k l).isSome = true ↔ ∃ e ∈ l, e.1 = k := by
  induction l with
  | nil => simp [rget]
  | cons e t ih =>
    obtain ⟨a, b⟩ := e
    by_cases h : a = k
    · simp [rget, h]
    · simp only [rget, h, if_false, ih, List.mem_cons, exists_eq_or_imp]
      simp [h]

theorem rget_some_mem {V : Type} (k : String) (l : List (String × V)) (v : V) (h : rget k l = some v) :
    (k, v) ∈ l := by
  induction l with
  | nil => simp [rget] at h
  | cons e t ih =>
    obtain ⟨a, b⟩ := e
    by_cases hk : a = k
    · simp only [rget, hk, if_true, Option.some.injEq] at h
      subst h; subst hk; simp
    · simp only [rget, hk, if_false] at h
      exact List.mem_cons_of_mem _ (ih h)

theorem mem_rset {V : Type} (k : String) (v : V) (l : List (String × V)) (e : String × V)
    (h : e ∈ rset k v l) : e = (k, v) ∨ e ∈ l := by
  induction l with
  | nil => simp [rset] at h; exact Or.inl h
  | cons x t ih =>
    obtain ⟨a, b⟩ := x
    by_cases hk : a = k
    · simp only [rset, hk, if_true, List.mem_cons] at h
      rcases h with h | h
      · exact Or.inl h
      · exact Or.inr (List.mem_cons_of_mem _ h)
    · simp only [rset, hk, if_false, List.mem_cons] at h
      rcases h with h | h
      · exact Or.inr (by simp [h])
      · rcases ih h with h | h
        · exact Or.inl h
        · exact Or.inr (List.mem_cons_of_mem _ h)

theorem keys_rset {V : Type} (k : String) (v : V) (l : List (String × V)) (k' : String) :
    (∃ e ∈ rset k v l, e.1 = k') ↔ k = k' ∨ ∃ e ∈ l, e.1 = k' := by
  rw [← rget_isSome_iff, ← rget_isSome_iff, Cog.OMap.rget_rset]
  by_cases h : k = k' <;> simp [h]

/-- every entry of a rebuilt object map is a rewritten input object stored under its new name -/
theorem mem_rebuild (f : Obj → Obj) : ∀ (l acc : List (String × Obj)) (e : String × Obj),
    e ∈ rebuild f acc l → e ∈ acc ∨ ∃ kv ∈ l, e = ((f kv.2).name, f kv.2)
  | [], acc, e, h => Or.inl (by simpa [rebuild] using h)
  | (k, o) :: rest, acc, e, h => by
    simp only [rebuild] at h
    rcases mem_rebuild f rest _ e h with h | ⟨kv, hkv, he⟩
    · rcases mem_rset _ _ _ _ h with h | h
      · exact Or.inr ⟨(k, o), by simp, h⟩
      · exact Or.inl h
    · exact Or.inr ⟨kv, List.mem_cons_of_mem _ hkv, he⟩

/-- the keys of a rebuilt object map are the old keys and the new names -/
theorem keys_rebuild (f : Obj → Obj) : ∀ (l acc : List (String × Obj)) (k : String),
    (∃ e ∈ rebuild f acc l, e.1 = k) ↔ (∃ e ∈ acc, e.1 = k) ∨ ∃ kv ∈ l, (f kv.2).name = k
  | [], acc, k => by simp [rebuild]
  | (k0, o) :: rest, acc, k => by
    simp only [rebuild]
    rw [keys_rebuild f rest _ k, keys_rset]
    simp only [List.mem_cons, exists_eq_or_imp]
    constructor
    · rintro ((h | h) | h)
      · exact Or.inr (Or.inl h)
      · exact Or.inl h
      · exact Or.inr (Or.inr h)
    · rintro (h | h | h)
      · exact Or.inl (Or.inr h)
      · exact Or.inl (Or.inl h)
      · exact Or.inr h

/-! ### locating through a package-preserving map -/

theorem locate_map (g : Schema → Schema) (hg : ∀ s, (g s).pkg = s.pkg) (S : Schemas) (p : String) :
    Schemas.locate (S.map g) p = (Schemas.locate S p).map g := by
  induction S with
  | nil => rfl
  | cons s rest ih =>
    simp only [List.map_cons, Schemas.locate, hg]
    split <;> simp [ih]

theorem loaded_map (g : Schema → Schema) (hg : ∀ s, (g s).pkg = s.pkg) (S : Schemas) (p : String) :
    loaded (S.map g) p = loaded S p := by
  simp [loaded, locate_map g hg]

theorem locate_mem {S : Schemas} {p : String} {s : Schema} (h : Schemas.locate S p = some s) :
    s ∈ S ∧ s.pkg = p := by
  induction S with
  | nil => simp [Schemas.locate] at h
  | cons x rest ih =>
    simp only [Schemas.locate] at h
    split at h
    · rename_i hx
      simp only [Option.some.injEq] at h
      subst h
      exact ⟨by simp, hx⟩
    · exact ⟨List.mem_cons_of_mem _ (ih h).1, (ih h).2⟩

theorem locate_of_mem {S : Schemas} {s : Schema} (h : s ∈ S) : ∃ s', Schemas.locate S s.pkg = some s' := by
  induction S with
  | nil => simp at h
  | cons x rest ih =>
    simp only [Schemas.locate]
    split
    · exact ⟨x, rfl⟩
    · rename_i hx
      rcases List.mem_cons.mp h with h | h
      · exact absurd (h ▸ rfl) hx
      · exact ih h

theorem loaded_of_mem {S : Schemas} {s : Schema} (h : s ∈ S) : loaded S s.pkg = true := by
  obtain ⟨s', hs'⟩ := locate_of_mem h
  simp [loaded, hs']

/-- resolution unfolded -/
theorem resolves_iff (S : Schemas) (u : Use) :
    resolves S u = true ↔
      (Schemas.locate S u.pkg = none ∨ ∃ s, Schemas.locate S u.pkg = some s ∧ ∃ e ∈ s.objects, e.1 = u.name) := by
  simp only [resolves, loaded, Schemas.locateObject, Schema.locateObject, Bool.or_eq_true,
    Bool.not_eq_true', Option.isSome_eq_false_iff, Option.isNone_iff_eq_none]
  cases h : Schemas.locate S u.pkg with
  | none => simp
  | some s => simp [rget_isSome_iff]

theorem resolves_kind (S : Schemas) (k k' : UseKind) (p n : String) :
    resolves S ⟨k, p, n⟩ = resolves S ⟨k', p, n⟩ := rfl

/-! ### positions the Visitor never reaches -/

mutual
def Ty.offUses (home : String) : Ty → List Use
  | .array e _ => Ty.offUses home e
  | .map i v _ => Ty.uses home i ++ Ty.offUses home v
  | .struct fs g _ _ => Ty.offUsesFields home fs ++ Ty.usesList home g
  | .disj bs _ _ => Ty.offUsesList home bs
  | .inter bs _ => Ty.offUsesList home bs
  | _ => []
def Ty.offUsesList (home : String) : List Ty → List Use
  | [] => []
  | t :: ts => Ty.offUses home t ++ Ty.offUsesList home ts
def Ty.offUsesFields (home : String) : List Field → List Use
  | [] => []
  | f :: fs => Ty.offUses home f.ty ++ Ty.offUsesFields home fs
end

/- the transfer lemma: `Q` holds of every use of `t`; the hooks turn a `Q`-use into `P`-uses; the
   uses at positions the Visitor does not reach satisfy `P` as they are ⇒ every use of the
   rewritten type satisfies `P` -/
section transfer
variable (home : String) (h : Hooks) (Q P : Use → Prop)
  (href : ∀ p n m, Q ⟨.ref, p, n⟩ → ∀ u ∈ Ty.uses home (h.ref p n m), P u)
  (hcref : ∀ p n v m, Q ⟨.cref, p, n⟩ → ∀ u ∈ Ty.uses home (h.cref p n v m), P u)
  (henum : ∀ vs m, ∀ u ∈ Ty.uses home (h.enum vs m), P u)
  (hdisj : ∀ di, (∀ u ∈ mappingUses .mapping home di, Q u) → ∀ u ∈ mappingUses .mapping home (h.disj di), P u)
  (hgi : ∀ gi, (∀ u ∈ giUses home gi, Q u) → ∀ u ∈ giUses home (h.structGi gi), P u)
include href hcref henum hdisj hgi

mutual
theorem uses_xf : ∀ t : Ty, (∀ u ∈ Ty.uses home t, Q u) → (∀ u ∈ Ty.offUses home t, P u) →
    ∀ u ∈ Ty.uses home (xfTy h t), P u
  | .scalar .. => fun _ _ u hu => by simp [xfTy, Ty.uses] at hu
  | .ref p n m => fun hq _ u hu => by
    simp only [xfTy] at hu
    exact href p n m (hq _ (by simp [Ty.uses])) u hu
  | .cref p n v m => fun hq _ u hu => by
    simp only [xfTy] at hu
    exact hcref p n v m (hq _ (by simp [Ty.uses])) u hu
  | .array e _ => fun hq ho u hu => by
    simp only [xfTy, Ty.uses] at hu
    exact uses_xf e (fun u hu => hq u (by simpa [Ty.uses] using hu))
      (fun u hu => ho u (by simpa [Ty.offUses] using hu)) u hu
  | .map i v _ => fun hq ho u hu => by
    simp only [xfTy, Ty.uses, List.mem_append] at hu
    rcases hu with hu | hu
    · exact ho u (by simp [Ty.offUses, hu])
    · exact uses_xf v (fun u hu => hq u (by simp [Ty.uses, hu]))
        (fun u hu => ho u (by simp [Ty.offUses, hu])) u hu
  | .struct fs g gi _ => fun hq ho u hu => by
    simp only [xfTy, Ty.uses, List.mem_append] at hu
    rcases hu with hu | hu | hu
    · exact usesFields_xf fs (fun u hu => hq u (by simp [Ty.uses, hu]))
        (fun u hu => ho u (by simp [Ty.offUses, hu])) u hu
    · exact ho u (by simp [Ty.offUses, hu])
    · exact hgi gi (fun u hu => hq u (by simp [Ty.uses, hu])) u hu
  | .enum vs m => fun _ _ u hu => by
    simp only [xfTy] at hu
    exact henum vs m u hu
  | .disj bs di _ => fun hq ho u hu => by
    simp only [xfTy, Ty.uses, List.mem_append] at hu
    rcases hu with hu | hu
    · exact usesList_xf bs (fun u hu => hq u (by simp [Ty.uses, hu]))
        (fun u hu => ho u (by simpa [Ty.offUses] using hu)) u hu
    · exact hdisj di (fun u hu => hq u (by simp [Ty.uses, hu])) u hu
  | .inter bs _ => fun hq ho u hu => by
    simp only [xfTy, Ty.uses] at hu
    exact usesList_xf bs (fun u hu => hq u (by simpa [Ty.uses] using hu))
      (fun u hu => ho u (by simpa [Ty.offUses] using hu)) u hu
  | .slot .. => fun _ _ u hu => by simp [xfTy, Ty.uses] at hu
  | .bad .. => fun _ _ u hu => by simp [xfTy, Ty.uses] at hu
theorem usesList_xf : ∀ ts : List Ty, (∀ u ∈ Ty.usesList home ts, Q u) →
    (∀ u ∈ Ty.offUsesList home ts, P u) → ∀ u ∈ Ty.usesList home (xfList h ts), P u
  | [] => fun _ _ u hu => by simp [xfList, Ty.usesList] at hu
  | t :: ts => fun hq ho u hu => by
    simp only [xfList, Ty.usesList, List.mem_append] at hu
    rcases hu with hu | hu
    · exact uses_xf t (fun u hu => hq u (by simp [Ty.usesList, hu]))
        (fun u hu => ho u (by simp [Ty.offUsesList, hu])) u hu
    · exact usesList_xf ts (fun u hu => hq u (by simp [Ty.usesList, hu]))
        (fun u hu => ho u (by simp [Ty.offUsesList, hu])) u hu
theorem usesFields_xf : ∀ fs : List Field, (∀ u ∈ Ty.usesFields home fs, Q u) →
    (∀ u ∈ Ty.offUsesFields home fs, P u) → ∀ u ∈ Ty.usesFields home (xfFields h fs), P u
  | [] => fun _ _ u hu => by simp [xfFields, Ty.usesFields] at hu
  | f :: fs => fun hq ho u hu => by
    simp only [xfFields, Ty.usesFields, List.mem_append] at hu
    rcases hu with hu | hu
    · exact uses_xf f.ty (fun u hu => hq u (by simp [Ty.usesFields, hu]))
        (fun u hu => ho u (by simp [Ty.offUsesFields, hu])) u hu
    · exact usesFields_xf fs (fun u hu => hq u (by simp [Ty.usesFields, hu]))
        (fun u hu => ho u (by simp [Ty.offUsesFields, hu])) u hu
end
end transfer

/- positions the Visitor does not reach are uses -/
mutual
theorem offUses_sub (home : String) : ∀ t : Ty, ∀ u ∈ Ty.offUses home t, u ∈ Ty.uses home t
  | .scalar .. => fun u hu => by simp [Ty.offUses] at hu
  | .ref .. => fun u hu => by simp [Ty.offUses] at hu
  | .cref .. => fun u hu => by simp [Ty.offUses] at hu
  | .array e _ => fun u hu => by
    simp only [Ty.offUses] at hu; simp only [Ty.uses]; exact offUses_sub home e u hu
  | .map i v _ => fun u hu => by
    simp only [Ty.offUses, List.mem_append] at hu
    simp only [Ty.uses, List.mem_append]
    rcases hu with hu | hu
    · exact Or.inl hu
    · exact Or.inr (offUses_sub home v u hu)
  | .struct fs g _ _ => fun u hu => by
    simp only [Ty.offUses, List.mem_append] at hu
    simp only [Ty.uses, List.mem_append]
    rcases hu with hu | hu
    · exact Or.inl (offUsesFields_sub home fs u hu)
    · exact Or.inr (Or.inl hu)
  | .enum .. => fun u hu => by simp [Ty.offUses] at hu
  | .disj bs _ _ => fun u hu => by
    simp only [Ty.offUses] at hu
    simp only [Ty.uses, List.mem_append]
    exact Or.inl (offUsesList_sub home bs u hu)
  | .inter bs _ => fun u hu => by
    simp only [Ty.offUses] at hu; simp only [Ty.uses]; exact offUsesList_sub home bs u hu
  | .slot .. => fun u hu => by simp [Ty.offUses] at hu
  | .bad .. => fun u hu => by simp [Ty.offUses] at hu
theorem offUsesList_sub (home : String) : ∀ ts : List Ty, ∀ u ∈ Ty.offUsesList home ts, u ∈ Ty.usesList home ts
  | [] => fun u hu => by simp [Ty.offUsesList] at hu
  | t :: ts => fun u hu => by
    simp only [Ty.offUsesList, List.mem_append] at hu
    simp only [Ty.usesList, List.mem_append]
    rcases hu with hu | hu
    · exact Or.inl (offUses_sub home t u hu)
    · exact Or.inr (offUsesList_sub home ts u hu)
theorem offUsesFields_sub (home : String) : ∀ fs : List Field, ∀ u ∈ Ty.offUsesFields home fs, u ∈ Ty.usesFields home fs
  | [] => fun u hu => by simp [Ty.offUsesFields] at hu
  | f :: fs => fun u hu => by
    simp only [Ty.offUsesFields, List.mem_append] at hu
    simp only [Ty.usesFields, List.mem_append]
    rcases hu with hu | hu
    · exact Or.inl (offUses_sub home f.ty u hu)
    · exact Or.inr (offUsesFields_sub home fs u hu)
end

/- `Type.DeepCopy` names what the original names -/
mutual
theorem uses_deepCopy (home : String) : ∀ t : Ty, Ty.uses home (deepCopyTy t) = Ty.uses home t
  | .scalar .. => by simp [deepCopyTy, Ty.uses]
  | .ref .. => by simp [deepCopyTy, Ty.uses]
  | .cref .. => by simp [deepCopyTy, Ty.uses]
  | .array e _ => by simp [deepCopyTy, Ty.uses, uses_deepCopy home e]
  | .map i v _ => by simp [deepCopyTy, Ty.uses, uses_deepCopy home i, uses_deepCopy home v]
  | .struct fs g gi _ => by simp [deepCopyTy, Ty.uses, usesFields_deepCopy home fs]
  | .enum .. => by simp [deepCopyTy, Ty.uses]
  | .disj bs _ _ => by simp [deepCopyTy, Ty.uses, usesList_deepCopy home bs]
  | .inter bs _ => by simp [deepCopyTy, Ty.uses, usesList_deepCopy home bs]
  | .slot .. => by simp [deepCopyTy, Ty.uses]
  | .bad .. => by simp [deepCopyTy, Ty.uses]
theorem usesList_deepCopy (home : String) : ∀ ts : List Ty, Ty.usesList home (deepCopyList ts) = Ty.usesList home ts
  | [] => by simp [deepCopyList, Ty.usesList]
  | t :: ts => by simp [deepCopyList, Ty.usesList, uses_deepCopy home t, usesList_deepCopy home ts]
theorem usesFields_deepCopy (home : String) : ∀ fs : List Field, Ty.usesFields home (deepCopyFields fs) = Ty.usesFields home fs
  | [] => by simp [deepCopyFields, Ty.usesFields]
  | f :: fs => by simp [deepCopyFields, Ty.usesFields, uses_deepCopy home f.ty, usesFields_deepCopy home fs]
end

end Cog.Closed
