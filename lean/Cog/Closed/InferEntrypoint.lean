/-
  Model of internal/ast/compiler/infer_entrypoint.go (chains of the jsonschema and openapi output
  languages; not among the passes modelled for C06).  For every schema WITHOUT an entry point: the
  LAST object whose `Name` equals the package name (EqualFold) becomes the entry point;
  `EntryPointType = Objects.Get(EntryPoint).SelfRef.AsType()` — `Get` on a key that is not there
  (an object stored under another key than its name) yields the zero `Object`, i.e. `ref "" ""`.
  Tied to the code by the `c05pass` verb / `c05-inferentry` stream.
-/
import Cog.Xform.Common
namespace Cog.Closed.InferEntrypoint
open Cog.IR Cog.Xform
open Cog.OMap (rget)

def infer (s : Schema) : String :=
  s.objects.foldl (fun acc kv => if eqFold s.pkg kv.2.name then kv.2.name else acc) ""

def processSchema (s : Schema) : Schema :=
  if s.entryPoint != "" then s
  else
    let ep := infer s
    if ep == "" then s
    else match rget ep s.objects with
      | some o => { s with entryPoint := ep, entryPointType := .ref o.selfPkg o.selfName {} }
      | none => { s with entryPoint := ep, entryPointType := .ref "" "" {} }

def run (S : Schemas) : Outcome Schemas := .ok (S.map processSchema)

end Cog.Closed.InferEntrypoint
