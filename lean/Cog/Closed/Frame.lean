/-
  `Closed` through a compiler pass of the language chains (pass models of lean/Cog/Passes):
  what has to be shown per pass.

  `KeysMono S S'`: same packages in the same order, every object key of `S` is still a key in `S'`
  (passes of the chains never rename; some add objects).  Then every use that resolved keeps
  resolving (`resolves_mono`), and `Closed S'` follows from: the objects of `S'` are stored
  consistently, and every use of `S'` either resolved in `S` or resolves in `S'` (a reference to an
  object the pass has just created).
-/
import Cog.Closed.Lemmas
import Cog.Closed.Rename
import Cog.Passes.Common
import Cog.Basic.All2
namespace Cog.Closed
open Cog Cog.IR Cog.Passes
open Cog.OMap (rget rset)

def keyIn (l : List (String × Obj)) (k : String) : Prop := ∃ e ∈ l, e.1 = k

def SMono (s s' : Schema) : Prop := s'.pkg = s.pkg ∧ ∀ k, keyIn s.objects k → keyIn s'.objects k

def KeysMono (S S' : Schemas) : Prop := All2 SMono S S'

theorem locate_mono {S S' : Schemas} (h : KeysMono S S') (p : String) :
    (Schemas.locate S p = none ∧ Schemas.locate S' p = none) ∨
    ∃ s s', Schemas.locate S p = some s ∧ Schemas.locate S' p = some s' ∧ SMono s s' := by
  induction h with
  | nil => exact Or.inl ⟨rfl, rfl⟩
  | @cons s s' _ _ hs _ ih =>
    simp only [Schemas.locate, hs.1]
    split
    · exact Or.inr ⟨s, s', rfl, rfl, hs⟩
    · exact ih

theorem resolves_mono {S S' : Schemas} (h : KeysMono S S') (u : Use) (hr : resolves S u = true) :
    resolves S' u = true := by
  rw [resolves_iff] at hr ⊢
  rcases locate_mono h u.pkg with ⟨h1, h2⟩ | ⟨s, s', h1, h2, hm⟩
  · exact Or.inl h2
  · rw [h1] at hr
    rcases hr with hr | ⟨x, hx, hk⟩
    · cases hr
    · cases hx
      exact Or.inr ⟨s', h2, hm.2 _ hk⟩

theorem pkgs_of_mono {S S' : Schemas} (h : KeysMono S S') : S'.map (·.pkg) = S.map (·.pkg) := by
  induction h with
  | nil => rfl
  | cons hs _ ih => simp [hs.1, ih]

theorem KeysMono.refl (S : Schemas) : KeysMono S S := by
  induction S with
  | nil => exact .nil
  | cons s rest ih => exact .cons ⟨rfl, fun _ h => h⟩ ih

theorem KeysMono.trans {S1 S2 S3 : Schemas} (h1 : KeysMono S1 S2) (h2 : KeysMono S2 S3) : KeysMono S1 S3 := by
  induction h1 generalizing S3 with
  | nil => cases h2; exact .nil
  | cons ha _ ih =>
    cases h2 with
    | cons hb hrest => exact .cons ⟨hb.1.trans ha.1, fun k hk => hb.2 k (ha.2 k hk)⟩ (ih hrest)

theorem closed_of_mono {S S' : Schemas} (hc : Closed S) (hm : KeysMono S S')
    (hself : ∀ s' ∈ S', ∀ e ∈ s'.objects, selfOK s' e = true)
    (huses : ∀ r ∈ refPositions S', resolves S r.use = true ∨ resolves S' r.use = true) : Closed S' := by
  simp only [Closed, closed, Bool.and_eq_true, List.all_eq_true, schemaSelfOK]
  refine ⟨hself, fun r hr => ?_⟩
  rcases huses r hr with h | h
  · exact resolves_mono hm r.use h
  · exact h

theorem uses_of_closed {S : Schemas} (hc : Closed S) {s : Schema} (hs : s ∈ S) :
    (s.entryPoint ≠ "" → resolves S ⟨.entry, s.pkg, s.entryPoint⟩ = true) ∧
    (∀ u ∈ Ty.uses s.pkg s.entryPointType, resolves S u = true) ∧
    ∀ kv ∈ s.objects, ∀ u ∈ Ty.uses s.pkg kv.2.ty, resolves S u = true := by
  have h := ((closed_iff S).mp hc).2 s hs
  rw [entryUses_iff] at h
  exact ⟨h.1.1, h.1.2, h.2⟩

/-- the uses of a schema set, schema by schema (`Forall₂` form of the frame) -/
theorem refPositions_forall2 {S S' : Schemas} {R : Schema → Schema → Prop} (h : All2 R S S')
    (P : Use → Prop)
    (hstep : ∀ s s', s ∈ S → R s s' → ∀ r ∈ schemaUses s', P r.use) :
    ∀ r ∈ refPositions S', P r.use := by
  induction h with
  | nil => intro r hr; simp [refPositions] at hr
  | @cons s s' l l' hs _ ih =>
    intro r hr
    simp only [refPositions, List.flatMap_cons, List.mem_append] at hr
    rcases hr with hr | hr
    · exact hstep s s' (by simp) hs r hr
    · exact ih (fun a b ha hab => hstep a b (List.mem_cons_of_mem _ ha) hab) r hr

theorem forall2_mem_right {α β : Type} {R : α → β → Prop} {l : List α} {l' : List β}
    (h : All2 R l l') : ∀ b ∈ l', ∃ a ∈ l, R a b := by
  induction h with
  | nil => intro b hb; simp at hb
  | @cons a b' _ _ hab _ ih =>
    intro b hb
    rcases List.mem_cons.mp hb with rfl | hb
    · exact ⟨a, by simp, hab⟩
    · obtain ⟨a', ha', hr⟩ := ih b hb
      exact ⟨a', List.mem_cons_of_mem _ ha', hr⟩

theorem forall2_imp {α β : Type} {R Q : α → β → Prop} {l : List α} {l' : List β}
    (h : All2 R l l') (hi : ∀ a b, a ∈ l → R a b → Q a b) : All2 Q l l' := by
  induction h with
  | nil => exact .nil
  | @cons a b _ _ hab _ ih =>
    exact .cons (hi a b (by simp) hab) (ih (fun x y hx => hi x y (List.mem_cons_of_mem _ hx)))

/-! ### the Visitor frame of the pass models (`visitSchemas`, `visitSchemaPure`) -/

theorem visitSchemasFrom_forall2 (f : Schemas → Schema → Outcome Schema) :
    ∀ (rest done R : Schemas), visitSchemasFrom f done rest = .ok R →
      ∃ R', R = done ++ R' ∧ All2 (fun s s' => ∃ cur, f cur s = .ok s') rest R'
  | [], done, R, h => by
    simp only [visitSchemasFrom, Outcome.ok.injEq] at h
    exact ⟨[], by simp [h], .nil⟩
  | s :: rest, done, R, h => by
    simp only [visitSchemasFrom] at h
    cases hf : f (done ++ s :: rest) s with
    | ok s' =>
      simp only [hf] at h
      obtain ⟨R', hR, hall⟩ := visitSchemasFrom_forall2 f rest _ R h
      exact ⟨s' :: R', by simp [hR], .cons ⟨_, hf⟩ hall⟩
    | err e => simp [hf] at h
    | panic e => simp [hf] at h

theorem visitSchemas_forall2 (f : Schemas → Schema → Outcome Schema) (S S' : Schemas)
    (h : visitSchemas f S = .ok S') : All2 (fun s s' => ∃ cur, f cur s = .ok s') S S' := by
  obtain ⟨R', hR, hall⟩ := visitSchemasFrom_forall2 f S [] S' h
  simpa [hR] using hall

/-- objects after `visitObjectsPure`: every entry is an input object with a rewritten type, stored
    under its (unchanged) name; every name is a key -/
theorem visitObjectsPure_spec (v : Ty → Outcome Ty) : ∀ (l acc r : Objects), visitObjectsPure v l acc = .ok r →
    (∀ e ∈ r, e ∈ acc ∨ ∃ kv ∈ l, ∃ t', v kv.2.ty = .ok t' ∧ e = (kv.2.name, { kv.2 with ty := t' })) ∧
    (∀ k, (keyIn acc k ∨ ∃ kv ∈ l, kv.2.name = k) → keyIn r k)
  | [], acc, r, h => by
    simp only [visitObjectsPure, Outcome.ok.injEq] at h
    subst h
    exact ⟨fun e he => Or.inl he, fun k hk => by
      rcases hk with hk | ⟨kv, hkv, _⟩
      · exact hk
      · simp at hkv⟩
  | (k0, o) :: rest, acc, r, h => by
    simp only [visitObjectsPure] at h
    cases hv : v o.ty with
    | ok t =>
      simp only [hv] at h
      obtain ⟨h1, h2⟩ := visitObjectsPure_spec v rest _ r h
      refine ⟨?_, ?_⟩
      · intro e he
        rcases h1 e he with he | ⟨kv, hkv, t', ht', rfl⟩
        · rcases mem_rset _ _ _ _ he with rfl | he
          · exact Or.inr ⟨(k0, o), by simp, t, hv, rfl⟩
          · exact Or.inl he
        · exact Or.inr ⟨kv, List.mem_cons_of_mem _ hkv, t', ht', rfl⟩
      · intro k hk
        apply h2
        rcases hk with hk | ⟨kv, hkv, hn⟩
        · exact Or.inl ((keys_rset _ _ _ _).mpr (Or.inr hk))
        · rcases List.mem_cons.mp hkv with rfl | hkv
          · exact Or.inl ((keys_rset _ _ _ _).mpr (Or.inl hn))
          · exact Or.inr ⟨kv, hkv, hn⟩
    | err e => simp [hv] at h
    | panic e => simp [hv] at h

theorem visitSchemaPure_spec (v : Ty → Outcome Ty) (s s' : Schema) (h : visitSchemaPure v s = .ok s') :
    s'.pkg = s.pkg ∧ s'.entryPoint = s.entryPoint ∧ v s.entryPointType = .ok s'.entryPointType ∧
    (∀ e ∈ s'.objects, ∃ kv ∈ s.objects, ∃ t', v kv.2.ty = .ok t' ∧ e = (kv.2.name, { kv.2 with ty := t' })) ∧
    (∀ kv ∈ s.objects, keyIn s'.objects kv.2.name) := by
  simp only [visitSchemaPure] at h
  cases hv : v s.entryPointType with
  | ok ept =>
    simp only [hv] at h
    cases ho : visitObjectsPure v s.objects [] with
    | ok objs =>
      simp only [ho, Outcome.ok.injEq] at h
      subst h
      obtain ⟨h1, h2⟩ := visitObjectsPure_spec v s.objects [] objs ho
      refine ⟨rfl, rfl, rfl, ?_, ?_⟩
      · intro e he
        rcases h1 e he with h0 | h0
        · simp at h0
        · exact h0
      · intro kv hkv
        exact h2 _ (Or.inr ⟨kv, hkv, rfl⟩)
    | err e => simp [ho] at h
    | panic e => simp [ho] at h
  | err e => simp [hv] at h
  | panic e => simp [hv] at h

/-- a pass made of a type rewriting `v` (which may look at the schema being visited and at the
    partially updated slice) keeps `Closed`, when `v` only produces uses that resolved before -/
theorem closed_visitPure (v : Schemas → Schema → Ty → Outcome Ty) (S S' : Schemas) (hc : Closed S)
    (hv : ∀ cur, ∀ s ∈ S, ∀ t t', (∀ u ∈ Ty.uses s.pkg t, resolves S u = true) → v cur s t = .ok t' →
      ∀ u ∈ Ty.uses s.pkg t', resolves S u = true)
    (h : visitSchemas (fun cur s => visitSchemaPure (v cur s) s) S = .ok S') : Closed S' ∧ KeysMono S S' := by
  have hall := visitSchemas_forall2 _ S S' h
  have hcl := (closed_iff S).mp hc
  have hm : KeysMono S S' := by
    apply forall2_imp hall
    rintro s s' hs ⟨cur, hf⟩
    obtain ⟨hp, _, _, _, hk⟩ := visitSchemaPure_spec _ s s' hf
    refine ⟨hp, ?_⟩
    rintro k ⟨e, he, rfl⟩
    have hself := hcl.1 s hs e he
    rw [selfOK_iff] at hself
    rw [hself.1]
    exact hk e he
  refine ⟨?_, hm⟩
  apply closed_of_mono hc hm
  · intro s' hs' e he
    obtain ⟨s, hs, cur, hf⟩ := forall2_mem_right hall s' hs'
    obtain ⟨hp, _, _, ho, _⟩ := visitSchemaPure_spec _ s s' hf
    obtain ⟨kv, hkv, t', _, rfl⟩ := ho e he
    have hself := hcl.1 s hs kv hkv
    rw [selfOK_iff] at hself ⊢
    exact ⟨rfl, by rw [hp]; exact hself.2.1, hself.2.2⟩
  · apply refPositions_forall2 hall (fun u => resolves S u = true ∨ resolves S' u = true)
    rintro s s' hs ⟨cur, hf⟩ r hr
    obtain ⟨hp, hep, hept, ho, _⟩ := visitSchemaPure_spec _ s s' hf
    obtain ⟨hc1, hc2, hc3⟩ := uses_of_closed hc hs
    left
    simp only [schemaUses, entryUses, List.mem_append, List.mem_flatMap, objUses, List.mem_map, hp, hep] at hr
    rcases hr with (hr | ⟨u, hu, rfl⟩) | ⟨e, he, u, hu, rfl⟩
    · by_cases hne : s.entryPoint = ""
      · simp [hne] at hr
      · simp only [hne, if_false, List.mem_singleton, beq_iff_eq] at hr
        subst hr
        exact hc1 hne
    · exact hv cur s hs _ _ hc2 hept u hu
    · obtain ⟨kv, hkv, t', ht', rfl⟩ := ho e he
      exact hv cur s hs _ _ (hc3 kv hkv) ht' u hu

end Cog.Closed
