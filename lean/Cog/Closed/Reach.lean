/-
  C05 — what an object references, directly (`succs`) or indirectly (`Reach`).

  `Reach S A` is the least set of object addresses `(package, name)` that contains the listed
  objects that exist and is closed under reference edges — an inductive predicate, so "least" is
  its induction principle.  Edges follow EVERY use of `Ty.uses` (references at every depth, map
  index types, constant references, discriminator-mapping targets, generated-union payloads).

  `reachList` is the executable version used by the driver (`reach` verb): iterate `expand` a
  number of times, then CHECK that a fixed point was reached (`isFix`); `reachList_spec` says
  that a checked result is exactly `Reach`.
-/
import Cog.Closed.Basic
namespace Cog.Closed
open Cog.IR

abbrev Addr := String × String

def existsObj (S : Schemas) (a : Addr) : Bool := (Schemas.locateObject S a.1 a.2).isSome

/-- addresses named by the object stored at `a` (only those that exist) -/
def succs (S : Schemas) (a : Addr) : List Addr :=
  match Schemas.locateObject S a.1 a.2 with
  | none => []
  | some o => ((Ty.uses a.1 o.ty).map fun u => (u.pkg, u.name)).filter (existsObj S)

inductive Reach (S : Schemas) (A : List Addr) : Addr → Prop where
  | root {a : Addr} : a ∈ A → existsObj S a = true → Reach S A a
  | step {a b : Addr} : Reach S A a → b ∈ succs S a → Reach S A b

def addNew (X : List Addr) : List Addr → List Addr
  | [] => X
  | a :: as => if X.contains a then addNew X as else addNew (X ++ [a]) as

def expand (S : Schemas) (X : List Addr) : List Addr := addNew X (X.flatMap (succs S))

def iter (S : Schemas) : Nat → List Addr → List Addr
  | 0, X => X
  | n + 1, X => iter S n (expand S X)

def roots (S : Schemas) (A : List Addr) : List Addr := addNew [] (A.filter (existsObj S))

def reachList (S : Schemas) (A : List Addr) : List Addr := iter S (Schemas.objectCount S + 1) (roots S A)

def isFix (S : Schemas) (X : List Addr) : Bool := (X.flatMap (succs S)).all fun b => X.contains b

/-! ### `reachList` against `Reach` -/

theorem mem_addNew (X Y : List Addr) (a : Addr) : a ∈ addNew X Y ↔ a ∈ X ∨ a ∈ Y := by
  induction Y generalizing X with
  | nil => simp [addNew]
  | cons y ys ih =>
    simp only [addNew]
    split
    · rename_i h
      rw [ih]
      have hy : y ∈ X := by simpa using h
      constructor
      · rintro (h | h)
        · exact Or.inl h
        · exact Or.inr (List.mem_cons_of_mem _ h)
      · rintro (h | h)
        · exact Or.inl h
        · rcases List.mem_cons.mp h with rfl | h
          · exact Or.inl hy
          · exact Or.inr h
    · rw [ih]
      simp only [List.mem_append, List.mem_cons, List.not_mem_nil, or_false]
      constructor
      · rintro ((h | h) | h)
        · exact Or.inl h
        · exact Or.inr (Or.inl h)
        · exact Or.inr (Or.inr h)
      · rintro (h | h | h)
        · exact Or.inl (Or.inl h)
        · exact Or.inl (Or.inr h)
        · exact Or.inr h

theorem iter_sound (S : Schemas) (A : List Addr) : ∀ (n : Nat) (X : List Addr),
    (∀ a ∈ X, Reach S A a) → ∀ a ∈ iter S n X, Reach S A a
  | 0, _, h => h
  | n + 1, X, h => by
    apply iter_sound S A n (expand S X)
    intro a ha
    rcases (mem_addNew _ _ _).mp ha with ha | ha
    · exact h a ha
    · obtain ⟨x, hx, hax⟩ := List.mem_flatMap.mp ha
      exact Reach.step (h x hx) hax

theorem iter_mono (S : Schemas) : ∀ (n : Nat) (X : List Addr), ∀ a ∈ X, a ∈ iter S n X
  | 0, _, _, h => h
  | n + 1, X, a, h => iter_mono S n (expand S X) a ((mem_addNew _ _ _).mpr (Or.inl h))

theorem roots_sound (S : Schemas) (A : List Addr) : ∀ a ∈ roots S A, Reach S A a := by
  intro a ha
  rcases (mem_addNew _ _ _).mp ha with ha | ha
  · simp at ha
  · obtain ⟨h1, h2⟩ := List.mem_filter.mp ha
    exact Reach.root h1 h2

theorem reachList_sound (S : Schemas) (A : List Addr) : ∀ a ∈ reachList S A, Reach S A a :=
  iter_sound S A _ _ (roots_sound S A)

/-- a set that contains the roots and is closed under edges contains everything reachable -/
theorem Reach.subset_of_closed {S : Schemas} {A : List Addr} (P : Addr → Prop)
    (hroot : ∀ a ∈ A, existsObj S a = true → P a)
    (hstep : ∀ a b, P a → b ∈ succs S a → P b) : ∀ a, Reach S A a → P a := by
  intro a h
  induction h with
  | root h1 h2 => exact hroot _ h1 h2
  | step _ hb ih => exact hstep _ _ ih hb

/-- a checked result of the driver is exactly the reachable set -/
theorem reachList_spec (S : Schemas) (A : List Addr) (hfix : isFix S (reachList S A) = true) (a : Addr) :
    a ∈ reachList S A ↔ Reach S A a := by
  refine ⟨reachList_sound S A a, ?_⟩
  apply Reach.subset_of_closed (fun a => a ∈ reachList S A)
  · intro r hr he
    apply iter_mono
    exact (mem_addNew _ _ _).mpr (Or.inr (List.mem_filter.mpr ⟨hr, he⟩))
  · intro x y hx hy
    have := List.all_eq_true.mp hfix y (List.mem_flatMap.mpr ⟨x, hx, hy⟩)
    simpa using this

end Cog.Closed
