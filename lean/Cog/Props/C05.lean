/-
  C05 — every reference in the IR resolves.

  Property theorems only; the models and lemmas live in lean/Cog/Closed/*.lean (this property),
  lean/Cog/Xform/*.lean (pass models of the name-changing transformations, written for C15) and
  lean/Cog/Passes/*.lean (pass models of the language chains, written for C06).

  `Closed S` (Cog/Closed/Basic.lean): every object is stored under its name with its own address,
  and every use — reference or constant reference at ANY depth (map index types and
  generated-union payloads included), discriminator-mapping target, entry point — that points into
  a loaded package names an object that exists there.

  The full statements are FALSE on the pinned tree.  Each is kept as `def …_full : Prop`, refuted
  by concrete witnesses evaluated by the kernel (`…_counterexample…`; the same witnesses are replayed
  on the real code by the check, `c05witness`), and proved under explicit decidable hypotheses
  (`…_preserves_closed`, `C05_names`, …).
-/
import Cog.Closed.PrefixReplace
import Cog.Closed.UnspecDup
import Cog.Closed.Seq
import Cog.Closed.FilterProofs
import Cog.Closed.Chains
import Cog.Closed.Builders
namespace Cog.Closed
open Cog.IR Cog.Xform

/-! ## name-changing transformations, one at a time -/

/-- rename_object keeps every reference resolving — when `from` spells the object's name exactly
    and nothing outside the rewritten positions names it (`Rename.ok`, decidable) -/
theorem C05_rename_object_preserves_closed (p : RenameObject.Params) (S S' : Schemas)
    (hc : Closed S) (hok : Rename.ok p S = true) (h : RenameObject.run p S = .ok S') : Closed S' :=
  Rename.preserves_closed p S S' hc hok h

/-- prefixing keeps every reference resolving — with an empty prefix, or without entry point
    string and without names at the positions the pass skips (`Prefix.ok`, decidable) -/
theorem C05_prefix_preserves_closed (p : PrefixObjectNames.Params) (S S' : Schemas)
    (hc : Closed S) (hok : p.pfx = "" ∨ Prefix.ok S = true) (h : PrefixObjectNames.run p S = .ok S') :
    Closed S' :=
  Prefix.preserves_closed p S S' hc hok h

/-- duplicate_object keeps every reference resolving — when the copy stays in the package of its
    source or the source names no discriminator-mapping target (`Duplicate.ok`, decidable) -/
theorem C05_duplicate_object_preserves_closed (p : DuplicateObject.Params) (S S' : Schemas)
    (hc : Closed S) (hok : Duplicate.ok p S = true) (h : DuplicateObject.run p S = .ok S') : Closed S' :=
  Duplicate.preserves_closed p S S' hc hok h

/-- unspec keeps every reference resolving — when nothing is named `spec` / `metadata` by any
    use (`Unspec.ok`, decidable) -/
theorem C05_unspec_preserves_closed (S S' : Schemas)
    (hc : Closed S) (hok : Unspec.ok S = true) (h : Cog.Xform.Unspec.run () S = .ok S') : Closed S' :=
  Unspec.preserves_closed S S' hc hok h

/-- replace_reference towards an existing object keeps every reference resolving: FULL statement
    (the only hypothesis is the side condition the property grants) -/
theorem C05_replace_reference_preserves_closed (p : ReplaceReference.Params) (S S' : Schemas)
    (hc : Closed S) (hside : Replace.side p S = true) (h : ReplaceReference.run p S = .ok S') : Closed S' :=
  Replace.preserves_closed p S S' hc hside h

/-! ## sequences -/

/-- FULL statement: every sequence of name-changing transformations (replace_reference only towards
    existing objects) keeps every reference resolving.  False: see the counterexamples below. -/
def C05_names_full : Prop :=
  ∀ (ts : List NameOp) (S S' : Schemas), Closed S → seqOK side ts S = true →
    applyAll ts S = .ok S' → Closed S'

theorem op_preserves (t : NameOp) (S S' : Schemas) (hc : Closed S) (hs : side t S = true)
    (hok : opOK t S = true) (h : t.run S = .ok S') : Closed S' := by
  cases t with
  | rename p => exact Rename.preserves_closed p S S' hc hok h
  | pfx p =>
    refine Prefix.preserves_closed p S S' hc ?_ h
    simp only [opOK, Bool.or_eq_true, beq_iff_eq] at hok
    exact hok
  | duplicate p => exact Duplicate.preserves_closed p S S' hc hok h
  | unspec => exact Unspec.preserves_closed S S' hc hok h
  | replace p => exact Replace.preserves_closed p S S' hc hs h

/-- every sequence of name-changing transformations, of any length, keeps every reference
    resolving — when the decidable hypotheses of the five operations hold before each step
    (induction over the sequence) -/
theorem C05_names (ts : List NameOp) (S S' : Schemas) (hc : Closed S)
    (hside : seqOK side ts S = true) (hok : seqOK opOK ts S = true)
    (h : applyAll ts S = .ok S') : Closed S' := by
  induction ts generalizing S with
  | nil =>
    simp only [applyAll, Outcome.ok.injEq] at h
    subst h; exact hc
  | cons t ts ih =>
    simp only [seqOK, Bool.and_eq_true] at hside hok
    simp only [applyAll] at h
    cases hr : t.run S with
    | ok S1 =>
      simp only [hr] at h hside hok
      exact ih S1 (op_preserves t S S1 hc hside.1 hok.1 hr) hside.2 hok.2 h
    | err e => simp [hr] at h
    | panic e => simp [hr] at h

/-- sequences of replace_reference (towards existing objects) and empty prefixes need no further
    hypothesis: the full statement holds on that fragment -/
theorem C05_names_replace_only (ts : List NameOp) (S S' : Schemas) (hc : Closed S)
    (hfrag : ∀ t ∈ ts, (∃ p, t = .replace p) ∨ t = .pfx { pfx := "" })
    (hside : seqOK side ts S = true) (h : applyAll ts S = .ok S') : Closed S' := by
  apply C05_names ts S S' hc hside ?_ h
  clear h hside hc
  induction ts generalizing S with
  | nil => rfl
  | cons t ts ih =>
    have ht := hfrag t (by simp)
    have hrest := fun S1 => ih S1 (fun t' ht' => hfrag t' (by simp [ht']))
    simp only [seqOK, Bool.and_eq_true]
    refine ⟨?_, ?_⟩
    · rcases ht with ⟨p, rfl⟩ | rfl <;> simp [opOK]
    · cases t.run S <;> simp [hrest]

/-! ## counterexamples (each witness is also replayed on the real code: `c05witness`) -/

/-- a witness: Closed input, side conditions granted, the sequence succeeds, the result is not Closed -/
def refutes (w : W.OpsCase) : Bool :=
  closed w.2 && seqOK side w.1 w.2 && match applyAll w.1 w.2 with
    | .ok S' => !closed S'
    | _ => false

theorem not_full_of_refutes (w : W.OpsCase) (h : refutes w = true) : ¬ C05_names_full := by
  intro hfull
  simp only [refutes, Bool.and_eq_true] at h
  obtain ⟨⟨h1, h2⟩, h3⟩ := h
  cases hr : applyAll w.1 w.2 with
  | ok S' =>
    have := hfull w.1 w.2 S' h1 h2 hr
    simp only [hr, Bool.not_eq_true'] at h3
    simp [Closed, h3] at this
  | err e => simp [hr] at h3
  | panic e => simp [hr] at h3

/-- rename_object: `from` differs from the object's name in letter case — the object is renamed,
    the reference to it is not -/
theorem C05_names_counterexample_rename_case : ¬ C05_names_full :=
  not_full_of_refutes W.renameCase (by decide)

/-- rename_object does not rewrite constant references -/
theorem C05_names_counterexample_rename_cref : ¬ C05_names_full :=
  not_full_of_refutes W.renameCref (by decide)

/-- rename_object does not rewrite references inside map index types -/
theorem C05_names_counterexample_rename_mapindex : ¬ C05_names_full :=
  not_full_of_refutes W.renameMapIndex (by decide)

/-- rename_object does not rewrite discriminator-mapping targets -/
theorem C05_names_counterexample_rename_mapping : ¬ C05_names_full :=
  not_full_of_refutes W.renameMapping (by decide)

/-- rename_object does not rewrite the union kept in a generated struct's hints -/
theorem C05_names_counterexample_rename_gen : ¬ C05_names_full :=
  not_full_of_refutes W.renameGen (by decide)

/-- rename_object does not rewrite the `EntryPoint` string -/
theorem C05_names_counterexample_rename_entrypoint : ¬ C05_names_full :=
  not_full_of_refutes W.renameEntry (by decide)

/-- unspec renames `spec` and leaves the references to it behind -/
theorem C05_names_counterexample_unspec_spec : ¬ C05_names_full :=
  not_full_of_refutes W.unspecSpec (by decide)

/-- unspec drops `metadata` objects that are referenced -/
theorem C05_names_counterexample_unspec_metadata : ¬ C05_names_full :=
  not_full_of_refutes W.unspecMetadata (by decide)

/-- prefixing rewrites `EntryPointType` but not the `EntryPoint` string -/
theorem C05_names_counterexample_prefix_entrypoint : ¬ C05_names_full :=
  not_full_of_refutes W.prefixEntry (by decide)

/-- prefixing does not rewrite references inside map index types -/
theorem C05_names_counterexample_prefix_mapindex : ¬ C05_names_full :=
  not_full_of_refutes W.prefixMapIndex (by decide)

/-- prefixing rewrites the mapping but not the branches of the union kept in a generated struct's hints -/
theorem C05_names_counterexample_prefix_gen : ¬ C05_names_full :=
  not_full_of_refutes W.prefixGen (by decide)

/-- duplicate_object into another package carries bare mapping targets along -/
theorem C05_names_counterexample_duplicate_crosspkg : ¬ C05_names_full :=
  not_full_of_refutes W.duplicateCross (by decide)

/-! ### non-vacuity of the partial theorems: hypotheses that hold, on sequences that change names -/

def nvS : Schemas := W.two (W.ref "Foo")
def nvOps : List NameOp :=
  [W.renameFoo "Foo", .pfx { pfx := "X" }, .duplicate { object := ⟨"p", "XBar"⟩, as_ := ⟨"p", "Copy"⟩, omitFields := [] },
   .replace { from_ := ⟨"p", "xzed"⟩, to := ⟨"p", "Copy"⟩ }, .unspec]

example : closed nvS = true ∧ seqOK side nvOps nvS = true ∧ seqOK opOK nvOps nvS = true ∧
    (match applyAll nvOps nvS with | .ok S' => closed S' && S'.all (fun s => s.objects.length == 3) | _ => false) = true := by
  decide

/-! ## `allowed_objects` (FilterSchemas) -/

open FilterSchemas in
/-- FULL statement: the objects kept by FilterSchemas are exactly the listed objects plus everything
    they reference, directly or indirectly (`Reach`: least set closed under the edges of EVERY use).
    False: see the counterexamples. -/
def C05_filter_exact_full : Prop :=
  ∀ (A : List Addr) (S S' : Schemas), Closed S → dotFree S = true → FilterSchemas.run A S = .ok S' →
    ∀ a, existsObj S a = true → (keptIn S' a = true ↔ Reach S A a)

open FilterSchemas in
/-- half of it holds without further hypothesis: whatever is kept is reachable -/
theorem C05_filter_kept_subset_reach (A : List Addr) (S S' : Schemas) (hc : Closed S)
    (hdot : dotFree S = true) (h : FilterSchemas.run A S = .ok S') (a : Addr) (ha : existsObj S a = true)
    (hk : keptIn S' a = true) : Reach S A a :=
  kept_sound hc hdot h a ha hk

open FilterSchemas in
/-- kept = reach — when every use is a reference at a position the Visitor walks (`visOK`,
    decidable).  Invariant of the unbounded loop of `buildAllowList`. -/
theorem C05_filter_exact (A : List Addr) (S S' : Schemas) (hc : Closed S) (hdot : dotFree S = true)
    (hvis : visOK S = true) (h : FilterSchemas.run A S = .ok S') (a : Addr) (ha : existsObj S a = true) :
    keptIn S' a = true ↔ Reach S A a :=
  kept_exact hc hdot hvis h a ha

/-- FULL statement: filtering keeps every reference resolving.  False (entry point, blind spots). -/
def C05_filter_closed_full : Prop :=
  ∀ (A : List Addr) (S S' : Schemas), Closed S → FilterSchemas.run A S = .ok S' → Closed S'

open FilterSchemas in
/-- filtering keeps every reference resolving — under `visOK`, unique package names and object
    keys, and no entry point -/
theorem C05_filter_preserves_closed (A : List Addr) (S S' : Schemas) (hc : Closed S)
    (hdot : dotFree S = true) (hvis : visOK S = true) (hup : uniquePkgs S = true) (huk : uniqueKeys S = true)
    (hne : noEntry S = true) (h : FilterSchemas.run A S = .ok S') : Closed S' :=
  filter_closed hc hdot hvis hup huk hne h

open FilterSchemas in
/-- a witness: a reachable object that is not kept -/
def filterRefutes (w : W.FilterCase) (a : Addr) : Bool :=
  closed w.2 && dotFree w.2 && existsObj w.2 a && (reachList w.2 w.1).contains a &&
  match FilterSchemas.run w.1 w.2 with
  | .ok S' => !keptIn S' a
  | _ => false

open FilterSchemas in
theorem not_filter_full (w : W.FilterCase) (a : Addr) (h : filterRefutes w a = true) : ¬ C05_filter_exact_full := by
  intro hfull
  simp only [filterRefutes, Bool.and_eq_true] at h
  obtain ⟨⟨⟨⟨h1, h2⟩, h3⟩, h4⟩, h5⟩ := h
  have hr : Reach w.2 w.1 a := reachList_sound w.2 w.1 a (by simpa using h4)
  cases hrun : FilterSchemas.run w.1 w.2 with
  | ok S' =>
    have := (hfull w.1 w.2 S' h1 h2 hrun a h3).mpr hr
    simp [hrun, this] at h5
  | err e => simp [hrun] at h5
  | panic e => simp [hrun] at h5

/-- an object referenced only from a map index type is dropped -/
theorem C05_filter_counterexample_mapindex : ¬ C05_filter_exact_full :=
  not_filter_full W.filterMapIndex ("p", "Foo") (by decide)

/-- an object referenced only by a constant reference is dropped -/
theorem C05_filter_counterexample_cref : ¬ C05_filter_exact_full :=
  not_filter_full W.filterCref ("p", "Foo") (by decide)

/-- an object named only by a discriminator mapping is dropped -/
theorem C05_filter_counterexample_mapping : ¬ C05_filter_exact_full :=
  not_filter_full W.filterMapping ("p", "Foo") (by decide)

/-- an object referenced only from the union kept in a generated struct's hints is dropped -/
theorem C05_filter_counterexample_gen : ¬ C05_filter_exact_full :=
  not_filter_full W.filterGen ("p", "Foo") (by decide)

/-- the entry point is never looked at: it is dropped and keeps being named -/
theorem C05_filter_closed_counterexample_entrypoint : ¬ C05_filter_closed_full := by
  intro hfull
  have := hfull W.filterEntry.1 W.filterEntry.2 _ (by decide) rfl
  revert this; decide

/-- a constant reference to a dropped object dangles afterwards -/
theorem C05_filter_closed_counterexample_cref : ¬ C05_filter_closed_full := by
  intro hfull
  have := hfull W.filterCref.1 W.filterCref.2 _ (by decide) rfl
  revert this; decide

open FilterSchemas in
/-- non-vacuity: a schema set on which all hypotheses of the filter theorems hold and the filter drops something -/
example : closed (W.two (W.ref "Foo")) = true ∧ dotFree (W.two (W.ref "Foo")) = true ∧
    visOK (W.two (W.ref "Foo")) = true ∧ uniquePkgs (W.two (W.ref "Foo")) = true ∧
    uniqueKeys (W.two (W.ref "Foo")) = true ∧ noEntry (W.two (W.ref "Foo")) = true ∧
    (match FilterSchemas.run [("p", "Foo")] (W.two (W.ref "Foo")) with
      | .ok S' => keptIn S' ("p", "Foo") && !keptIn S' ("p", "Bar")
      | _ => false) = true := by decide

/-! ## the built-in transformation chains of the output languages

The pass lists are the REGENERATED `Cog.Gen.Chains` (extracted from internal/jennies/*/jennies.go on
every run); the per-pass lemmas are in Cog/Closed/{ChainPasses,AnonStructs}.lean over the pass
models of Cog/Passes.  Carried invariant: `Closed` and pairwise distinct package names. -/

open Cog.Passes in
/-- FULL statement for one chain: it never turns a resolving reference into a dangling one -/
def C05_chain_full (chain : List PassId) : Prop :=
  ∀ (S S' : Schemas), Closed S → (S.map (·.pkg)).Nodup → runChain chain S = .ok S' → Closed S'

open Cog.Passes in
/-- any chain made of passes with a proved preservation lemma (`provenPass`, decidable) keeps
    every reference resolving — induction over the chain -/
theorem C05_chain_preserves_of_proven (chain : List PassId) (h : ∀ p ∈ chain, provenPass p = true) :
    C05_chain_full chain :=
  fun S S' hc hup hr => (chain_keeps chain (fun p hp => proven_keeps p (h p hp)) S S' ⟨hc, hup⟩ hr).1

open Cog.Passes in
/-- composition as far as the lemmas go: a chain keeps every reference resolving if its passes
    WITHOUT a proved lemma do -/
theorem C05_chain_preserves_modulo (chain : List PassId)
    (h : ∀ p ∈ chain, provenPass p = false → passKeeps p.run) : C05_chain_full chain :=
  fun S S' hc hup hr => (chain_keeps chain (fun p hp => by
    cases hpp : provenPass p with
    | true => exact proven_keeps p hpp
    | false => exact h p hp hpp) S S' ⟨hc, hup⟩ hr).1

/-- Go: full statement (all eleven passes, the four object-creating ones included: created ⊆ registered) -/
theorem C05_chain_preserves_go : C05_chain_full Cog.Gen.Chains.goChain :=
  C05_chain_preserves_of_proven _ (by decide)

theorem mem_takeWhile_true {α : Type} (q : α → Bool) : ∀ (l : List α), ∀ a ∈ l.takeWhile q, q a = true
  | [], a, h => by simp at h
  | x :: xs, a, h => by
    simp only [List.takeWhile_cons] at h
    split at h
    · rename_i hx
      rcases List.mem_cons.mp h with rfl | h
      · exact hx
      · exact mem_takeWhile_true q xs a h
    · simp at h

/-- the longest prefix of any chain whose passes have a proved lemma -/
theorem C05_chain_preserves_prefix (chain : List Cog.Passes.PassId) :
    C05_chain_full (chain.takeWhile provenPass) :=
  C05_chain_preserves_of_proven _ (mem_takeWhile_true provenPass chain)

/-- for Java and PHP that prefix is everything but the last pass (RemoveIntersections,
    InlineObjectsWithTypes), for which the statement is false (counterexamples below) -/
example : Cog.Gen.Chains.javaChain.takeWhile provenPass = Cog.Gen.Chains.javaChain.dropLast ∧
    Cog.Gen.Chains.phpChain.takeWhile provenPass = Cog.Gen.Chains.phpChain.dropLast := by decide

/-- TypeScript: full statement -/
theorem C05_chain_preserves_typescript : C05_chain_full Cog.Gen.Chains.typescriptChain :=
  C05_chain_preserves_of_proven _ (by decide)

/-- Python: full statement -/
theorem C05_chain_preserves_python : C05_chain_full Cog.Gen.Chains.pythonChain :=
  C05_chain_preserves_of_proven _ (by decide)

/-- the jsonschema and openapi output languages (DisjunctionWithNullToOptional, InferEntrypoint): full statement -/
theorem C05_chain_preserves_schema_languages (S S' : Schemas) (hc : Closed S) (hup : (S.map (·.pkg)).Nodup)
    (h : schemaLangChain S = .ok S') : Closed S' :=
  (schemaLangChain_keeps S S' ⟨hc, hup⟩ h).1

/-- PHP: the full statement is false — InlineObjectsWithTypes leaves a reference to an inlined
    (dropped) object inside a copy it does not visit, depending on declaration order -/
theorem C05_chain_counterexample_php : ¬ C05_chain_full Cog.Gen.Chains.phpChain := by
  intro hfull
  have := hfull (W.phpOrder true) _ (by decide) (by decide) rfl
  revert this; decide

/-- the same objects declared in the other order come out Closed -/
example : (match Cog.Passes.runChain Cog.Gen.Chains.phpChain (W.phpOrder false) with
    | .ok S' => closed S' | _ => false) = true := by decide

/-- Java: the full statement is false — RemoveIntersections removes a struct that a bare alias
    points to and redirects only the references held directly by struct fields -/
theorem C05_chain_counterexample_java : ¬ C05_chain_full Cog.Gen.Chains.javaChain := by
  intro hfull
  have := hfull W.javaAlias _ (by decide) (by decide) rfl
  revert this; decide

/-! ## builder targets (`BuilderGenerator.FromAST`, model of C16) -/

open Cog.Builder in
/-- on a Closed schema set every builder's target object exists, and every reference / constant
    reference inside the types a builder exposes (option arguments, assignment paths and values,
    constructor constants) resolves -/
theorem C05_builders_closed (S : Schemas) (bs : Builders) (hc : Closed S) (hup : (S.map (·.pkg)).Nodup)
    (h : fromAST S = .ok bs) :
    ∀ b ∈ bs, existsObj S (b.for_.selfPkg, b.for_.selfName) = true ∧
      ∀ t ∈ builderTypes b, ∀ u ∈ Ty.uses b.pkg t, (u.kind = .ref ∨ u.kind = .cref) → resolves S u = true :=
  builders_closed S bs hc hup h

open Cog.Builder in
/-- FULL statement: EVERY use inside the exposed types resolves, discriminator-mapping targets
    (bare names, looked up in the builder's package) included.  False. -/
def C05_builders_full : Prop :=
  ∀ (S : Schemas) (bs : Builders), Closed S → (S.map (·.pkg)).Nodup → fromAST S = .ok bs →
    ∀ b ∈ bs, ∀ t ∈ builderTypes b, ∀ u ∈ Ty.uses b.pkg t, resolves S u = true

open Cog.Builder in
def buildersOK (S : Schemas) (bs : Builders) : Bool :=
  bs.all fun b => (builderTypes b).all fun t => (Ty.uses b.pkg t).all fun u => resolves S u

open Cog.Builder in
def buildersRefute (S : Schemas) : Bool :=
  closed S && decide (S.map (·.pkg)).Nodup && match fromAST S with
    | .ok bs => !buildersOK S bs
    | _ => false

open Cog.Builder in
theorem not_builders_full (S : Schemas) (h : buildersRefute S = true) : ¬ C05_builders_full := by
  intro hfull
  simp only [buildersRefute, Bool.and_eq_true, decide_eq_true_eq] at h
  obtain ⟨⟨h1, h2⟩, h3⟩ := h
  cases hr : fromAST S with
  | ok bs =>
    have hall := hfull S bs h1 h2 hr
    have : buildersOK S bs = true := by
      simp only [buildersOK, List.all_eq_true]
      exact fun b hb t ht u hu => hall b hb t ht u hu
    simp [hr, this] at h3
  | err e => simp [hr] at h3
  | panic e => simp [hr] at h3

/-- a builder for an object that aliases a struct of ANOTHER package exposes that struct's field
    types, bare mapping targets included -/
theorem C05_builders_counterexample : ¬ C05_builders_full :=
  not_builders_full W.builderAlias (by decide)

end Cog.Closed
