/-
  C08 — generated validation and strict decoding reject exactly what the schema forbids.

  Property theorems only; models, specifications and helper lemmas live in
    Cog/Sem/GoValidate.lean      `tvc`/`goValidate`   : interpreter of the generated `Validate()`
    Cog/Sem/GoValidateSpec.lean  `violations`          : which constraints of the IR a value violates
    Cog/Sem/GoStrict.lean        `sd`/`goDecodeStrict` : interpreter of the generated `UnmarshalJSONStrict`
    Cog/Sem/GoStrictSpec.lean    `strictFaults`        : the four kinds of fault a document can have
    Cog/Sem/GoValidateLemmas.lean, Cog/Sem/GoStrictLemmas.lean.

  All four functions return `DRes`: `.ok`, `.err` (strict decoder only: the Go method returns an
  error), `.unsup` (construct outside the modelled fragment), `.fuel`.  Every theorem is for all
  schemas, all fuels, all values / documents; "in the fragment" means the functions involved
  answer `.ok`/`.err`.
-/
import Cog.Sem.GoStrictLemmas
import Cog.Front.KeepsConstraints
import Cog.Front.OpenApiKeeps
import Cog.Gen.Chains
namespace Cog.Sem
open Cog.IR Cog.Sem.C08

/-! ## Validate() -/

/-- FULL statement: the generated `Validate()` reports exactly the violated constraints, at
    their paths.  False on the current tree (constraints behind a named non-struct type are
    never checked): see `C08_validate_counterexample`. -/
def C08_validate_full : Prop :=
  ∀ (ss : Schemas) (fuel : Nat) (pkg name : String) (v : GoVal) (lc ls : List Viol),
    goValidate fuel ss pkg name v = .ok lc →
    violations fuel ss (.ref pkg name {}) v = .ok ls →
    (lc ≠ [] ↔ ls ≠ []) ∧ (∀ x, x ∈ lc → x ∈ ls) ∧ (∀ x, x ∈ ls → x ∈ lc)

theorem violations_congr (ss : Schemas) {t t' : Ty} (h : resolveRefs ss t = resolveRefs ss t') :
    ∀ (fuel : Nat) (v : GoVal), violations fuel ss t v = violations fuel ss t' v
  | 0, _ => rfl
  | fuel + 1, v => by
    simp only [violations, h]
    split
    · rfl
    · cases v.unptr with
      | none => rfl
      | some v' => exact violations_congr ss h fuel v'

/-- PARTIAL (hypothesis `noConstrainedAlias`, decidable, exported to the driver as `c08hyp`):
    the list of errors of the generated `Validate()` IS the list of violated constraints — same
    violations, same paths, same order (up to Go's map iteration order, which the model fixes to
    the order of the value's entries). -/
theorem C08_validate_eq_partial (ss : Schemas) (hs : noConstrainedAlias ss = true)
    (fuel : Nat) (pkg name : String) (v : GoVal) (lc ls : List Viol)
    (hc : goValidate fuel ss pkg name v = .ok lc)
    (hsp : violations fuel ss (.ref pkg name {}) v = .ok ls) : lc = ls := by
  simp only [goValidate] at hc
  cases hl : Schemas.locateObject ss pkg name with
  | none => simp [hl] at hc
  | some o =>
    simp only [hl] at hc
    cases hty : o.ty with
    | struct fs g gi m =>
      have hres : resolveRefs ss (.ref pkg name {}) = resolveRefs ss o.ty := by
        rw [resolveRefs_ref_located ss _ hl, hty, resolveToType_struct ss _ (by simp [Ty.isStruct]),
          resolveRefs_nonref ss (by simp [Ty.isRef])]
      rw [violations_congr ss hres] at hsp
      rw [hty] at hc hsp
      simp only at hc
      split at hc
      · rename_i hr
        exact tvc_eq_violations ss hs fuel _ _ v lc ls hr hc hsp
      · rename_i hr
        simp at hc
        have := rtc_false_no_violations ss hs fuel _ v ls (by simpa using hr) hsp
        rw [hc, this]
    | _ => rw [hty] at hc; simp at hc

/-- the `iff` of the property, with the path clause -/
theorem C08_validate_iff_partial (ss : Schemas) (hs : noConstrainedAlias ss = true)
    (fuel : Nat) (pkg name : String) (v : GoVal) (lc ls : List Viol)
    (hc : goValidate fuel ss pkg name v = .ok lc)
    (hsp : violations fuel ss (.ref pkg name {}) v = .ok ls) :
    (lc ≠ [] ↔ ls ≠ []) ∧ (∀ x, x ∈ lc → x ∈ ls) ∧ (∀ x, x ∈ ls → x ∈ lc) := by
  have := C08_validate_eq_partial ss hs fuel pkg name v lc ls hc hsp
  subst this
  exact ⟨Iff.rfl, fun _ h => h, fun _ h => h⟩

/-- single-fault corollary: a value that violates exactly one constraint makes `Validate()` return
    exactly that error, with the path of the offending field -/
theorem C08_validate_single_fault (ss : Schemas) (hs : noConstrainedAlias ss = true)
    (fuel : Nat) (pkg name : String) (v : GoVal) (lc : List Viol) (x : Viol)
    (hc : goValidate fuel ss pkg name v = .ok lc)
    (hsp : violations fuel ss (.ref pkg name {}) v = .ok [x]) : lc = [x] :=
  C08_validate_eq_partial ss hs fuel pkg name v lc [x] hc hsp

/-- valid values are never rejected -/
theorem C08_validate_accepts_valid (ss : Schemas) (hs : noConstrainedAlias ss = true)
    (fuel : Nat) (pkg name : String) (v : GoVal) (lc : List Viol)
    (hc : goValidate fuel ss pkg name v = .ok lc)
    (hsp : violations fuel ss (.ref pkg name {}) v = .ok []) : lc = [] :=
  C08_validate_eq_partial ss hs fuel pkg name v lc [] hc hsp

/-! ### witnesses -/

private def obj (name : String) (t : Ty) : String × Obj :=
  (name, { name := name, ty := t, selfPkg := "p", selfName := name })

private def fld (name : String) (t : Ty) (req : Bool := true) : Field := { name := name, ty := t, required := req }

private def bounded (lo hi : Int) : Ty :=
  .scalar "int64" .nil [⟨">=", [.int "i64" lo]⟩, ⟨"<=", [.int "i64" hi]⟩] {}

/-- `Port: integer 1..10` referenced from a field (the pinned case of the finding
    C08/validate/constraints-behind-alias) -/
def wAlias : Schemas := [{ pkg := "p", objects := [
  obj "Port" (bounded 1 10),
  obj "Root" (.struct [fld "port" (.ref "p" "Port" {})] [] none {})] }]

def wAliasVal : GoVal := .struct [("port", false, .int 99)]

theorem wAlias_code : goValidate 4 wAlias "p" "Root" wAliasVal = .ok [] := by rfl
theorem wAlias_spec : violations 4 wAlias (.ref "p" "Root" {}) wAliasVal =
    .ok [{ path := [.fld "port"], op := "<=", cons := "<=", bound := 40 }] := by rfl

theorem C08_validate_counterexample : ¬ C08_validate_full := by
  intro h
  have := (h wAlias 4 "p" "Root" wAliasVal _ _ wAlias_code wAlias_spec).1
  simp at this

/-- the hypothesis is what fails on the witness … -/
example : noConstrainedAlias wAlias = false := by rfl

/-- … and it holds, with a non-empty conclusion, on the same schema with the bound inlined
    (non-vacuity of the partial theorems: both sides answer `.ok` with one violation, reported
    under an array inside an optional nested struct) -/
def wInline : Schemas := [{ pkg := "p", objects := [
  obj "Inner" (.struct [fld "ports" (.array (bounded 1 10) {})] [] none {}),
  obj "Root" (.struct [fld "inner" (.ref "p" "Inner" { nullable := true }) false] [] none {})] }]

def wInlineVal : GoVal :=
  .struct [("inner", true, .ptr (.struct [("ports", false, .slice [.int 3, .int 99])]))]

example : noConstrainedAlias wInline = true := by rfl
example : goValidate 6 wInline "p" "Root" wInlineVal =
    .ok [{ path := [.fld "inner", .fld "ports", .idx 1], op := "<=", cons := "<=", bound := 40 }] := by rfl
example : violations 6 wInline (.ref "p" "Root" {}) wInlineVal =
    .ok [{ path := [.fld "inner", .fld "ports", .idx 1], op := "<=", cons := "<=", bound := 40 }] := by rfl

/-! ## UnmarshalJSONStrict -/

/-- the decoder answered (error or value), i.e. the case is inside the modelled fragment -/
def Definite {α : Type} (c : DRes α) : Prop := c = .err ∨ ∃ v, c = .ok v

/-- FULL statement: the strict decoder rejects a document iff it has one of the faults.  False
    on the current tree: `null` array elements / map values are accepted, alternatives of a union
    of scalars are decoded non-strictly, a `null` document is accepted. -/
def C08_strict_full : Prop :=
  ∀ (ss : Schemas) (fuel : Nat) (pkg name : String) (j : Json) (fs : List Fault),
    strictFaultsObj fuel ss pkg name j = .ok fs →
    Definite (goDecodeStrict fuel ss pkg name j) →
    (goDecodeStrict fuel ss pkg name j = .err ↔ fs ≠ [])

theorem goDecodeStrict_agree (ss : Schemas) (hU : scalarUnionsAreLeaf ss = true)
    (fuel : Nat) (pkg name : String) (j : Json) (fs : List Fault) (hj : j.isNull = false)
    (hsp : strictFaultsObj fuel ss pkg name j = .ok fs) :
    Agree (goDecodeStrict fuel ss pkg name j) fs := by
  simp only [goDecodeStrict]
  cases Schemas.locateObject ss pkg name with
  | none => exact agree_unsup _ _
  | some o =>
    simp only []
    cases o.ty with
    | struct fs' g gi m => exact sd_agree ss hU fuel _ j fs hj hsp
    | _ => exact agree_unsup _ _

/-- PARTIAL, soundness: the strict decoder only rejects documents that have a fault -/
theorem C08_strict_rejects_only_faulty_partial (ss : Schemas) (hU : scalarUnionsAreLeaf ss = true)
    (fuel : Nat) (pkg name : String) (j : Json) (fs : List Fault) (hj : j.isNull = false)
    (hsp : strictFaultsObj fuel ss pkg name j = .ok fs)
    (he : goDecodeStrict fuel ss pkg name j = .err) : fs ≠ [] :=
  (goDecodeStrict_agree ss hU fuel pkg name j fs hj hsp).1 he

/-- PARTIAL, completeness: a document the strict decoder accepts has no fault — provided none of
    its faults is a `null` element (`nullElemFree`, decidable) -/
theorem C08_strict_accepts_only_faultless_partial (ss : Schemas) (hU : scalarUnionsAreLeaf ss = true)
    (fuel : Nat) (pkg name : String) (j : Json) (fs : List Fault) (hj : j.isNull = false)
    (hsp : strictFaultsObj fuel ss pkg name j = .ok fs) (hn : nullElemFree fs = true)
    (v : GoVal) (hok : goDecodeStrict fuel ss pkg name j = .ok v) : fs = [] :=
  (goDecodeStrict_agree ss hU fuel pkg name j fs hj hsp).2 v hok hn

/-- the `iff` of the property -/
theorem C08_strict_iff_partial (ss : Schemas) (hU : scalarUnionsAreLeaf ss = true)
    (fuel : Nat) (pkg name : String) (j : Json) (fs : List Fault) (hj : j.isNull = false)
    (hsp : strictFaultsObj fuel ss pkg name j = .ok fs) (hn : nullElemFree fs = true)
    (hd : Definite (goDecodeStrict fuel ss pkg name j)) :
    goDecodeStrict fuel ss pkg name j = .err ↔ fs ≠ [] := by
  have ha := goDecodeStrict_agree ss hU fuel pkg name j fs hj hsp
  constructor
  · exact ha.1
  · intro hne
    cases hd with
    | inl h => exact h
    | inr h => obtain ⟨v, hv⟩ := h; exact absurd (ha.2 v hv hn) hne

/-- single-fault corollary: a document with exactly one fault (undeclared field, missing required
    field without default, null for a required non-nullable field, wrong JSON type) is rejected -/
theorem C08_strict_single_fault (ss : Schemas) (hU : scalarUnionsAreLeaf ss = true)
    (fuel : Nat) (pkg name : String) (j : Json) (f : Fault) (hj : j.isNull = false)
    (hsp : strictFaultsObj fuel ss pkg name j = .ok [f]) (hk : f.kind ≠ .nullElem)
    (hd : Definite (goDecodeStrict fuel ss pkg name j)) :
    goDecodeStrict fuel ss pkg name j = .err := by
  refine (C08_strict_iff_partial ss hU fuel pkg name j [f] hj hsp ?_ hd).2 (by simp)
  simp [nullElemFree, Fault.isNullElem, hk]

/-- a required field that has a default may be absent (this is the property's own wording:
    "lacks a required field that has no default") -/
example :
    strictFaultsObj 4 [{ pkg := "p", objects := [
      obj "Root" (.struct [fld "n" (.scalar "int64" .nil [] { dflt := .int "i64" 7 })] [] none {})] }]
      "p" "Root" (.obj []) = .ok [] := by rfl

/-! ### witnesses -/

private def int64 : Ty := .scalar "int64" .nil [] {}
private def str : Ty := .scalar "string" .nil [] {}

/-- `nums: []int64`, document `{"nums":[null]}`: accepted (plain `json.Unmarshal` stores 0) -/
def wNullElem : Schemas := [{ pkg := "p", objects := [
  obj "Root" (.struct [fld "nums" (.array int64 {})] [] none {})] }]
def wNullElemDoc : Json := .obj [("nums", .arr [.null])]

theorem wNullElem_code : goDecodeStrict 4 wNullElem "p" "Root" wNullElemDoc =
    .ok (.struct [("nums", false, .slice [.int 0])]) := by rfl
theorem wNullElem_spec : strictFaultsObj 4 wNullElem "p" "Root" wNullElemDoc =
    .ok [{ path := [.fld "nums", .idx 0], kind := .nullElem }] := by rfl

theorem C08_strict_counterexample_null_element : ¬ C08_strict_full := by
  intro h
  have := (h wNullElem 4 "p" "Root" wNullElemDoc _ wNullElem_spec (Or.inr ⟨_, wNullElem_code⟩)).2 (by simp)
  rw [wNullElem_code] at this
  simp at this

/-- `StringOrArrayOfInner = string | []Inner` with `Inner{n: int64 (required)}`: the document
    `{"u":[{}]}` lacks the required field inside the array alternative and is accepted (the
    alternatives of a union of scalars are decoded with plain `json.Unmarshal`) -/
def wUnion : Schemas := [{ pkg := "p", objects := [
  obj "Inner" (.struct [fld "n" int64] [] none {}),
  obj "StringOrArrayOfInner" (.struct
    [fld "String" (.scalar "string" .nil [] { nullable := true }) false,
     fld "ArrayOfInner" (.array (.ref "p" "Inner" {}) { nullable := true }) false]
    [] (some ("disjunction_of_scalars", {})) {}),
  obj "Root" (.struct [fld "u" (.ref "p" "StringOrArrayOfInner" {})] [] none {})] }]
def wUnionDoc : Json := .obj [("u", .arr [.obj []])]

theorem wUnion_code : ∃ v, goDecodeStrict 6 wUnion "p" "Root" wUnionDoc = .ok v := ⟨_, rfl⟩
theorem wUnion_spec : ∃ f fs, strictFaultsObj 6 wUnion "p" "Root" wUnionDoc = .ok (f :: fs) := ⟨_, _, rfl⟩
example : scalarUnionsAreLeaf wUnion = false := by rfl

theorem C08_strict_counterexample_union_branch : ¬ C08_strict_full := by
  intro h
  obtain ⟨v, hv⟩ := wUnion_code
  obtain ⟨f, fs, hf⟩ := wUnion_spec
  have := (h wUnion 6 "p" "Root" wUnionDoc _ hf (Or.inr ⟨v, hv⟩)).2 (by simp)
  rw [hv] at this
  simp at this

/-- the document `null` offered to a struct without required fields is accepted -/
def wNullDoc : Schemas := [{ pkg := "p", objects := [
  obj "Root" (.struct [fld "s" (.scalar "string" .nil [] { nullable := true }) false] [] none {})] }]

theorem C08_strict_counterexample_null_document : ¬ C08_strict_full := by
  intro h
  have hc : goDecodeStrict 4 wNullDoc "p" "Root" .null = .ok (.struct [("s", true, .nil)]) := by rfl
  have hs : strictFaultsObj 4 wNullDoc "p" "Root" .null = .ok [{ path := [], kind := .wrongType }] := by rfl
  have := (h wNullDoc 4 "p" "Root" .null _ hs (Or.inr ⟨_, hc⟩)).2 (by simp)
  rw [hc] at this
  simp at this

/-- non-vacuity of the partial theorems: nested required struct in an array, one undeclared key
    at depth → rejected, with that single fault -/
def wStrict : Schemas := [{ pkg := "p", objects := [
  obj "Inner" (.struct [fld "n" int64, fld "s" str false] [] none {}),
  obj "Root" (.struct [fld "items" (.array (.ref "p" "Inner" {}) {})] [] none {})] }]
def wStrictDoc : Json := .obj [("items", .arr [.obj [("n", .num 4)], .obj [("n", .num 8), ("zz", .num 4)]])]

example : scalarUnionsAreLeaf wStrict = true := by rfl
example : goDecodeStrict 6 wStrict "p" "Root" wStrictDoc = .err := by rfl
example : strictFaultsObj 6 wStrict "p" "Root" wStrictDoc =
    .ok [{ path := [.fld "items", .idx 1], kind := .undeclared "zz" }] := by rfl

/-! ## constraints survive the FRONT-END and the Go chain (JSON Schema inputs)
    ---- BEGIN block of the c01-front builder (front-end model: Cog/Front/JsonSchema*.lean; tie: stream `c01-front`) ----

  For a FLAT object definition `s` (`isObjectNode`, key-sorted properties, every property a typed scalar: `rawFields`)
  the front-end's struct carries, per property, exactly the constraint list generator.go builds from `minimum` /
  `exclusiveMinimum` / `maximum` / `exclusiveMaximum` (`>=`, `>`, `<=`, `<`, float64 bounds) resp. `minLength` /
  `maxLength` (`keeps_property`, `scalarOf_eq`, `srcConstraints`); the Go chain keeps them (`chain_struct`); hence the errors of
  the generated `Validate()` are exactly the violations of the struct type WRITTEN FROM THE SOURCE KEYWORDS (`srcStructTy`),
  as C08's specification `violations` finds them — which needs no schema set at all for scalar members. -/

namespace FE
open Cog.Front.JsonSchema Cog.Front.Keeps Cog.Sem.Src Cog.Passes Cog.Gen.Chains

/-- the Go struct type of a flat object definition, from the source keywords alone: per property `scalarOf` (kind, constant,
    constraint list in generator order, default), made nullable when the property is not required -/
def srcStructTy (gs : List Field) : Ty := .struct (gs.map imgField) [] none {}

/-- `Validate()` of the Go type generated from a flat JSON Schema object reports exactly the violations of the SOURCE
    keywords: same violations, same paths, same order -/
theorem C08_jsonschema_validate_end_to_end_partial
    (pkg : String) (defs : Defs) (fuel : Nat) (root name : String) (S Sg : Schemas) (s : JS) (gs : List Field)
    (hS : frontEnd pkg defs fuel (refTo root) = .ok S) (hdecl : (Schemas.locateObject S pkg name).isSome = true)
    (hroot : lookupDef defs name = some s) (hobj : isObjectNode s = true) (hsorted : sortedKeys (propsOf s) = true)
    (hflat : rawFields s.attrs.required (propsOf s) = some gs)
    (hP : Plain S = true) (hrun : runChain goChain S = .ok Sg) (hs : noConstrainedAlias Sg = true)
    (n : Nat) (v : GoVal) (lc ls : List Viol)
    (hc : goValidate n Sg pkg name v = .ok lc)
    (hsp : violations n [] (srcStructTy gs) v = .ok ls) : lc = ls := by
  obtain ⟨o, fs, ho, hty, _, _, hbuilt⟩ := keeps_object pkg defs fuel root name S hS hdecl hroot hobj
  rw [sortFields_id hsorted hbuilt] at hty
  obtain ⟨hloc, hty'⟩ := chain_struct goChain (by decide) S Sg hP hrun pkg name o ho fs [] none Cog.Front.JsonSchema.m0 hty
  have hsame := vFields_same (fieldsBuilt_same hbuilt hflat)
  have := violations_flat Sg pkg name _ _ _ [] none Cog.Front.JsonSchema.m0 hloc hty' hsame n v
  rw [srcStructTy] at hsp
  rw [← this] at hsp
  exact C08_validate_eq_partial Sg hs n pkg name v lc ls hc hsp

/-- a value violating none of the source keywords is accepted … -/
theorem C08_jsonschema_validate_accepts_valid_partial
    (pkg : String) (defs : Defs) (fuel : Nat) (root name : String) (S Sg : Schemas) (s : JS) (gs : List Field)
    (hS : frontEnd pkg defs fuel (refTo root) = .ok S) (hdecl : (Schemas.locateObject S pkg name).isSome = true)
    (hroot : lookupDef defs name = some s) (hobj : isObjectNode s = true) (hsorted : sortedKeys (propsOf s) = true)
    (hflat : rawFields s.attrs.required (propsOf s) = some gs)
    (hP : Plain S = true) (hrun : runChain goChain S = .ok Sg) (hs : noConstrainedAlias Sg = true)
    (n : Nat) (v : GoVal) (lc : List Viol)
    (hc : goValidate n Sg pkg name v = .ok lc)
    (hsp : violations n [] (srcStructTy gs) v = .ok []) : lc = [] :=
  C08_jsonschema_validate_end_to_end_partial pkg defs fuel root name S Sg s gs hS hdecl hroot hobj hsorted hflat hP hrun hs n v lc [] hc hsp

/-- … and a value violating exactly one of them gets exactly that error, at the member's path -/
theorem C08_jsonschema_validate_single_fault_partial
    (pkg : String) (defs : Defs) (fuel : Nat) (root name : String) (S Sg : Schemas) (s : JS) (gs : List Field)
    (hS : frontEnd pkg defs fuel (refTo root) = .ok S) (hdecl : (Schemas.locateObject S pkg name).isSome = true)
    (hroot : lookupDef defs name = some s) (hobj : isObjectNode s = true) (hsorted : sortedKeys (propsOf s) = true)
    (hflat : rawFields s.attrs.required (propsOf s) = some gs)
    (hP : Plain S = true) (hrun : runChain goChain S = .ok Sg) (hs : noConstrainedAlias Sg = true)
    (n : Nat) (v : GoVal) (lc : List Viol) (x : Viol)
    (hc : goValidate n Sg pkg name v = .ok lc)
    (hsp : violations n [] (srcStructTy gs) v = .ok [x]) : lc = [x] :=
  C08_jsonschema_validate_end_to_end_partial pkg defs fuel root name S Sg s gs hS hdecl hroot hobj hsorted hflat hP hrun hs n v lc [x] hc hsp

/-! ### non-vacuity (length keywords: their bounds are Go `int`s; float64 bounds are read through `parseGFloat`, which the
    kernel does not evaluate — the lab instances of stream c01-front cover them) -/

def scS (a : JAttrs) : JS := .mk a [] [] [] [] .none .none .none

/-- the error list of an `.ok` answer (decidable equality for the kernel-evaluated examples) -/
def okList : DRes (List Viol) → Option (List Viol)
  | .ok l => some l
  | _ => none

theorem okList_eq {x : DRes (List Viol)} {l : List Viol} (h : okList x = some l) : x = .ok l := by
  cases x <;> simp [okList] at h ⊢; exact h

theorem getD_some' {α} {o : Option α} {d : α} (h : o.isSome = true) : o = some (o.getD d) := by
  cases o <;> simp_all

/-- `R = {code: string minLength 2 maxLength 4 (required), note?: string maxLength 3}` -/
def exPropsC : List (String × JS) := [
  ("code", scS { types := ["string"], minLength := 2, maxLength := 4 }),
  ("note", scS { types := ["string"], maxLength := 3 })]
def exRootC : JS := .mk { types := ["object"], hasProps := true, required := ["code"] } [] [] [] exPropsC (.bool false) .none .none
def exDefsC : Defs := [("R", exRootC)]

def exGs : List Field := (rawFields exRootC.attrs.required (propsOf exRootC)).getD []

/-- `{"code": "toolong", "note": "abcd"}` decoded: both members violate `maxLength` -/
def exValC : GoVal := .struct [("code", false, .str "toolong"), ("note", true, .ptr (.str "abcd"))]

example :
    isObjectNode exRootC = true ∧ sortedKeys (propsOf exRootC) = true ∧
    (rawFields exRootC.attrs.required (propsOf exRootC)).isSome = true ∧
    (match frontEnd "p" exDefsC 8 (refTo "R") with
     | .ok S =>
       Plain S &&
       (match runChain goChain S with
        | .ok Sg =>
          noConstrainedAlias Sg &&
          (okList (goValidate 6 Sg "p" "R" exValC) ==
             some [{ path := [.fld "code"], op := "<=", cons := "maxLength", bound := 16 },
                   { path := [.fld "note"], op := "<=", cons := "maxLength", bound := 12 }]) &&
          (okList (violations 6 [] (srcStructTy exGs) exValC) == okList (goValidate 6 Sg "p" "R" exValC)) &&
          (okList (goValidate 6 Sg "p" "R" (.struct [("code", false, .str "ok"), ("note", true, .nil)])) == some [])
        | _ => false)
     | _ => false) = true := by
  refine ⟨by decide +kernel, by decide +kernel, by decide +kernel, by decide +kernel⟩

/-! ### the full statement and its refutation -/

/-- like `rawFields`, but a property may also be a `$ref` to a typed scalar DEFINITION: the source constrains the member
    through the definition's keywords -/
def rawFieldsRef (defs : Defs) (req : List String) : List (String × JS) → Option (List Field)
  | [] => some []
  | p :: ps =>
    let node : Option (JAttrs × String) :=
      match scalarNode p.2 with
      | some t => some (p.2.attrs, t)
      | none =>
        (match p.2.attrs.ref with
         | some name => (match lookupDef defs name with
           | some d => (scalarNode d).map fun t => (d.attrs, t)
           | none => none)
         | none => none)
    match node, rawFieldsRef defs req ps with
    | some (a, t), some fs => some ({ name := p.1, ty := scalarOf a t, required := req.contains p.1 } :: fs)
    | _, _ => none

/-- FULL statement: `Validate()` reports the violations of every constraint keyword the source puts on a member, also
    through a `$ref` to a scalar definition.  False on the current tree. -/
def C08_jsonschema_validate_full : Prop :=
  ∀ (pkg : String) (defs : Defs) (fuel : Nat) (root : String) (S Sg : Schemas) (s : JS) (gs : List Field)
    (n : Nat) (v : GoVal) (lc ls : List Viol),
    frontEnd pkg defs fuel (refTo root) = .ok S → lookupDef defs root = some s → isObjectNode s = true →
    rawFieldsRef defs s.attrs.required (propsOf s) = some gs → runChain goChain S = .ok Sg →
    goValidate n Sg pkg root v = .ok lc → violations n [] (srcStructTy gs) v = .ok ls → lc = ls

def cxRootC : JS := .mk { types := ["object"], hasProps := true, required := ["name"] } [] [] []
  [("name", refTo "Name")] (.bool false) .none .none
def cxDefsC : Defs := [("R", cxRootC), ("Name", scS { types := ["string"], maxLength := 3 })]
def cxValC : GoVal := .struct [("name", false, .str "abcdef")]
def cxGs : List Field := (rawFieldsRef cxDefsC cxRootC.attrs.required (propsOf cxRootC)).getD []

/-- `R = {name: $ref Name}`, `Name = string maxLength 3`, value `{"name": "abcdef"}`: the generated `Validate()` never looks
    behind a reference to a named scalar (known finding C08/validate/constraints-behind-alias; the front-end and the chain DO
    keep the constraint on the `Name` object) -/
theorem C08_jsonschema_validate_counterexample : ¬ C08_jsonschema_validate_full := by
  intro h
  have hw : (match frontEnd "p" cxDefsC 8 (refTo "R") with
      | .ok S =>
        (match runChain goChain S with
         | .ok Sg => okList (goValidate 6 Sg "p" "R" cxValC) == some []
         | _ => false)
      | _ => false) = true := by decide +kernel
  have hspec : violations 6 [] (srcStructTy cxGs) cxValC =
      .ok [{ path := [.fld "name"], op := "<=", cons := "maxLength", bound := 12 }] := okList_eq (by decide +kernel)
  cases hS : frontEnd "p" cxDefsC 8 (refTo "R") with
  | ok S =>
    rw [hS] at hw
    cases hr : runChain goChain S with
    | ok Sg =>
      simp only [hr] at hw
      cases hg : goValidate 6 Sg "p" "R" cxValC with
      | ok lc =>
        have := h "p" cxDefsC 8 "R" S Sg cxRootC cxGs 6 cxValC lc _ hS rfl (by decide +kernel) (getD_some' (by decide +kernel)) hr hg hspec
        subst this
        rw [hg] at hw
        simp [okList] at hw
      | err => rw [hg] at hw; simp [okList] at hw
      | unsup w => rw [hg] at hw; simp [okList] at hw
      | fuel => rw [hg] at hw; simp [okList] at hw
    | err _ => simp [hr] at hw
    | panic _ => simp [hr] at hw
  | err _ => simp [hS] at hw
  | panic _ => simp [hS] at hw

end FE
/-! ### the same for OpenAPI inputs (front-end model: Cog/Front/OpenApi*.lean; tie: stream `c01-front-oa`):
    the constraint list is `getConstraints` of utils.go — `minLength` (only when > 0), `maxLength`, `multipleOf`, `>=` / `>`
    (`exclusiveMinimum`), `<=` / `<`, with int64 bounds for `type: integer` and float64 bounds otherwise. -/

namespace OA
open Cog.Front.OpenApi Cog.Front.Keeps Cog.Sem.Src Cog.Passes Cog.Gen.Chains

theorem C08_openapi_validate_end_to_end_partial
    (pkg : String) (fuel : Nat) (cs : Components) (S Sg : Schemas) (name : String) (r : OSR) (gs : List Field)
    (hk : keysNodupC cs = true) (hS : frontEnd pkg fuel cs = .ok S)
    (hl : lookupComp cs name = some r) (hobj : isObjectNode r = true) (hsorted : sortedKeys (propsOf r) = true)
    (hflat : rawFields (attrsOf r).required (propsOf r) = some gs)
    (hP : Plain S = true) (hrun : runChain goChain S = .ok Sg) (hs : noConstrainedAlias Sg = true)
    (n : Nat) (v : GoVal) (lc ls : List Viol)
    (hc : goValidate n Sg pkg name v = .ok lc)
    (hsp : violations n [] (FE.srcStructTy gs) v = .ok ls) : lc = ls := by
  obtain ⟨o, fs, ho, hty, _, _, hbuilt⟩ := keeps_object pkg fuel cs S hk hS hl hobj
  rw [Cog.Front.OpenApi.sortFields_id hsorted hbuilt] at hty
  obtain ⟨hloc, hty'⟩ := Cog.Front.JsonSchema.chain_struct goChain (by decide) S Sg hP hrun pkg name o ho fs [] none Cog.Front.JsonSchema.m0 hty
  have hsame := vFields_same (Cog.Front.OpenApi.fieldsBuilt_same hbuilt hflat)
  have := violations_flat Sg pkg name _ _ _ [] none Cog.Front.JsonSchema.m0 hloc hty' hsame n v
  rw [FE.srcStructTy] at hsp
  rw [← this] at hsp
  exact C08_validate_eq_partial Sg hs n pkg name v lc ls hc hsp

theorem C08_openapi_validate_accepts_valid_partial
    (pkg : String) (fuel : Nat) (cs : Components) (S Sg : Schemas) (name : String) (r : OSR) (gs : List Field)
    (hk : keysNodupC cs = true) (hS : frontEnd pkg fuel cs = .ok S)
    (hl : lookupComp cs name = some r) (hobj : isObjectNode r = true) (hsorted : sortedKeys (propsOf r) = true)
    (hflat : rawFields (attrsOf r).required (propsOf r) = some gs)
    (hP : Plain S = true) (hrun : runChain goChain S = .ok Sg) (hs : noConstrainedAlias Sg = true)
    (n : Nat) (v : GoVal) (lc : List Viol)
    (hc : goValidate n Sg pkg name v = .ok lc)
    (hsp : violations n [] (FE.srcStructTy gs) v = .ok []) : lc = [] :=
  C08_openapi_validate_end_to_end_partial pkg fuel cs S Sg name r gs hk hS hl hobj hsorted hflat hP hrun hs n v lc [] hc hsp

def scO (a : OAttrs) : OSR := .mk "" true "" (.mk a [] [] [] [] .none .none)

/-- `R = {code: string minLength 2 maxLength 4 (required), n?: integer(int64) minimum 1 maximum 10}` (integer bounds are int64
    in the IR: evaluated by the kernel) -/
def exPropsO : List (String × OSR) := [
  ("code", scO { types := some ["string"], minLength := 2, maxLength := some 4 }),
  ("n", scO { types := some ["integer"], format := "int64", min := some { repr := "1", asInt64 := 1, num := 1, den := 1 },
              max := some { repr := "10", asInt64 := 10, num := 10, den := 1 } })]
def exRootO : OSR := .mk "" true "" (.mk { types := some ["object"], required := ["code"], addlHas := some false } [] [] [] exPropsO .none .none)
def exCompsO : Components := [("R", exRootO)]
def exGsO : List Field := (rawFields (attrsOf exRootO).required (propsOf exRootO)).getD []
def exValO : GoVal := .struct [("code", false, .str "toolong"), ("n", true, .ptr (.int 99))]

example :
    keysNodupC exCompsO = true ∧ isObjectNode exRootO = true ∧ sortedKeys (propsOf exRootO) = true ∧
    (rawFields (attrsOf exRootO).required (propsOf exRootO)).isSome = true ∧
    (match frontEnd "p" 8 exCompsO with
     | .ok S =>
       Plain S &&
       (match runChain goChain S with
        | .ok Sg =>
          noConstrainedAlias Sg &&
          (FE.okList (goValidate 6 Sg "p" "R" exValO) ==
             some [{ path := [.fld "code"], op := "<=", cons := "maxLength", bound := 16 },
                   { path := [.fld "n"], op := "<=", cons := "<=", bound := 40 }]) &&
          (FE.okList (violations 6 [] (FE.srcStructTy exGsO) exValO) == FE.okList (goValidate 6 Sg "p" "R" exValO)) &&
          (FE.okList (goValidate 6 Sg "p" "R" (.struct [("code", false, .str "ok"), ("n", true, .nil)])) == some [])
        | _ => false)
     | _ => false) = true := by
  refine ⟨by decide +kernel, by decide +kernel, by decide +kernel, by decide +kernel, by decide +kernel⟩

end OA

-- ---- END block of the c01-front builder ----

end Cog.Sem
