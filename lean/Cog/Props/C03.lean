/-
  C03 — generation is deterministic.

  Property: the same pipeline on the same inputs produces the same file set (paths and bytes)
  and the same IR, for every iteration order the Go runtime may choose at every `range` over a
  map (the only scheduling freedom of a single-threaded cog run).

  Shape of the argument
  * Model (Cog/Det/Prog.lean): a run is a `Prog` — pure computation, sequencing, and `range`
    nodes over entry lists; `Results p r` quantifies over *all* choices of a permutation at
    every dynamic execution of every `range`.
  * Meta-theorems (Cog/Det/Fold.lean, Shapes.lean): a fold whose body commutes is invariant
    under every permutation; one lemma per admissible loop shape; one order-dependence witness
    per non-admissible shape.
  * Composition (`C03_run_deterministic`): all `range` nodes admissible ⇒ exactly one result.
  * Tie to /repo (Cog/Gen/MapRangeSites.lean, regenerated on every run by extract/xmaprange):
    every map range of the module with its classified effects; `C03_sites` decides the whole
    table.  `C03_purity` does the same for clocks, randomness, goroutines, environment.
  * On the pinned tree the full statement was false: eight sites were order-dependent, each
    replayed on the real code by the harness.  They have since been repaired in /repo (`fix:`
    commits), `Cog.Det.knownNondeterministic` is empty again and `C03_full` is proved.  The
    list and `C03_full_counterexample` stay as the mechanism for future findings.
-/
import Cog.Det.Prog
import Cog.Det.Review
namespace Cog.Det

open List

/-! ## the meta-theorem and the composition theorem -/

/-- a fold whose body commutes is invariant under every permutation of the entry list -/
theorem C03_fold_perm_invariant {S α : Type} {body : S → α → S}
    (comm : ∀ a b s, body (body s a) b = body (body s b) a)
    {l₁ l₂ : List α} (p : l₁ ~ l₂) (init : S) : l₁.foldl body init = l₂.foldl body init :=
  fold_perm_invariant comm p init

/-- for a map (distinct keys) the body only has to commute on entries with different keys -/
theorem C03_fold_perm_invariant_keys {S K V : Type} {body : S → K × V → S}
    (comm : ∀ a b s, a.1 ≠ b.1 → body (body s a) b = body (body s b) a)
    {l₁ l₂ : List (K × V)} (hnd : NodupKeys l₁) (p : l₁ ~ l₂) (init : S) :
    l₁.foldl body init = l₂.foldl body init :=
  fold_perm_invariant_keys comm hnd p init

/-- a program that is pure apart from map ranges, all of which are order-insensitive, has the
    same result for every choice of iteration orders (re-drawn at every execution of a range) -/
theorem C03_run_deterministic {α : Type} (p : Prog α) (h : Adm p) :
    ∀ r₁ r₂, Results p r₁ → Results p r₂ → r₁ = r₂ :=
  run_deterministic h

/-- a loop with a pure body of an order-insensitive shape is an admissible node -/
theorem C03_range_admissible {S X : Type} (entries : List X) (init : S) (den : S → X → S)
    (h : PermInv den init entries) : Adm (Prog.rangePure entries init den) :=
  Adm.rangePure h

/-- several admissible effects on different variables: still order-insensitive -/
theorem C03_effects_compose {S₁ S₂ α : Type} {b₁ : S₁ → α → S₁} {b₂ : S₂ → α → S₂} {s₁ : S₁}
    {s₂ : S₂} {es : List α} (h₁ : PermInv b₁ s₁ es) (h₂ : PermInv b₂ s₂ es) :
    PermInv (fun (s : S₁ × S₂) a => (b₁ s.1 a, b₂ s.2 a)) (s₁, s₂) es :=
  h₁.pair h₂

/-! ## the classification is backed by theorems, both ways -/

/-- every effect the table may call admissible has its invariance theorem -/
theorem C03_effect_sound : ∀ e : Effect, e.admissible = true → e.Sound := Effect.sound

/-- every non-admissible effect with a definite shape is really order-dependent -/
theorem C03_effect_witness : ∀ e : Effect, e.Witness := Effect.witness

/-- … and a non-admissible range inside a program yields two different results -/
theorem C03_nonadmissible_program_not_deterministic :
    ¬ Deterministic (Prog.rangePure ["kind", "type"] (none : Option String)
        (fun s x => match s with | none => some x | some y => some y)) :=
  not_deterministic_example

/-! ## the obligation over the regenerated table -/

/-- Full statement: every map range that a cog run can reach is order-insensitive. -/
def C03_full : Prop := ∀ s ∈ Gen.mapRangeSites, s.outsideRun = true ∨ (s.proved = true ∨ s.reviewed = true)

/-- Proved form: every site is outside a run, or proved admissible (all effects admissible,
    all callees reviewed), or reviewed with its pinned facts, or one of the explicitly listed
    order-dependent sites.  Closed by evaluation over the *complete* regenerated table; a new
    or changed non-admissible site matches no entry and breaks this theorem. -/
theorem C03_sites :
    ∀ s ∈ Gen.mapRangeSites,
      s.outsideRun = true ∨ s.proved = true ∨ s.known = true ∨ s.reviewed = true := by
  have h : ∀ s ∈ Gen.mapRangeSites, s.ok = true := by decide
  intro s hs
  have := h s hs
  simp only [Site.ok, Bool.or_eq_true] at this
  rcases this with ((h1 | h2) | h3) | h4
  · exact Or.inl h1
  · exact Or.inr (Or.inl h2)
  · exact Or.inr (Or.inr (Or.inl h3))
  · exact Or.inr (Or.inr (Or.inr h4))

/-- **The full statement holds on the current tree**: every map range that a run can reach is
    proved order-insensitive or reviewed; no site needs the known list. -/
theorem C03_full_holds : C03_full := by
  have h : ∀ s ∈ Gen.mapRangeSites, (s.outsideRun || s.proved || s.reviewed) = true := by decide
  intro s hs
  have := h s hs
  simp only [Bool.or_eq_true] at this
  rcases this with (h1 | h2) | h3
  · exact Or.inl h1
  · exact Or.inr (Or.inl h2)
  · exact Or.inr (Or.inr h3)

/-- the listed sites are not admissible by construction: each has a non-admissible effect -/
theorem C03_known_are_nonadmissible :
    ∀ k ∈ knownNondeterministic, k.effects.all Effect.admissible = false := by decide

/-- `C03_full` fails as soon as one listed site is present in the table and is neither
    reviewed nor outside a run (the form in which a future finding is recorded). -/
theorem C03_full_counterexample (s : Site) (hs : s ∈ Gen.mapRangeSites) (hk : s.known = true)
    (ho : s.outsideRun = false) (hr : s.reviewed = false) : ¬ C03_full := by
  intro hfull
  rcases hfull s hs with h | h | h
  · rw [ho] at h; cases h
  · have hadm : s.effects.all Effect.admissible = true := by
      simp only [Site.proved, Site.admissible, Bool.and_eq_true] at h
      exact h.1.1.1.1
    have hmem : s.key ∈ knownNondeterministic := by
      simpa [Site.known, List.contains_iff_mem] using hk
    have := C03_known_are_nonadmissible s.key hmem
    simp only [Site.key] at this
    rw [hadm] at this; cases this
  · rw [hr] at h; cases h

/-- purity: no clock, randomness, goroutine, select, `%p` or environment read is reachable from
    a run, except `os.Getwd` in the two pipeline constructors (the working directory is an
    input of the run) -/
theorem C03_purity : ∀ f ∈ Gen.impureUses, f.outsideRun = true ∨ f.ok = true := by
  have h : ∀ f ∈ Gen.impureUses, f.ok = true := by decide
  intro f hf; exact Or.inr (h f hf)

/-! ## non-vacuity -/

/-- an admissible program with a real range node: copy a two-entry map, then count -/
example : Deterministic
    (Prog.bind
      (Prog.rangePure [("a", 1), ("b", 2)] (fun _ => none) (fun s e => upd s e.1 e.2))
      (fun _ => Prog.rangePure [("a", 1), ("b", 2)] 0 (fun n e => n + e.2))) :=
  run_deterministic (Adm.bind
    (Adm.rangePure (fun _ _ p₁ p₂ =>
      S_copy_map ((by unfold NodupKeys; decide : NodupKeys [("a", 1), ("b", 2)]).perm p₁.symm) (p₁.trans p₂.symm) _))
    (fun _ => Adm.rangePure (fun _ _ p₁ p₂ => S_acc_add (fun e => e.2) (p₁.trans p₂.symm) 0)))

/-- the hypotheses of `S_collect_then_mergeSort` are satisfiable: numbers under `≤` -/
example : (collect Prod.fst [(2, "b"), (1, "a")] []).mergeSort (fun a b => decide (a ≤ b))
    = (collect Prod.fst [(1, "a"), (2, "b")] []).mergeSort (fun a b => decide (a ≤ b)) :=
  S_collect_then_mergeSort Prod.fst (fun a b => decide (a ≤ b))
    (by intro a b c h1 h2; simp at *; omega) (by intro a b; simp; omega)
    (Perm.swap _ _ _) [] (by intro a b _ _ h1 h2; simp at h1 h2; omega)

/-- the known list is not empty talk: its first entry is order-dependent in the model -/
example : firstMatch (fun _ => true) ["kind", "type"] = some "kind" ∧
    firstMatch (fun _ => true) ["type", "kind"] = some "type" := ⟨rfl, rfl⟩

end Cog.Det
