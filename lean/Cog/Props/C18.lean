/-
  C18 — copies of the IR are faithful and independent.

  Property theorems only.  Model: Cog/Heap/Model.lean (address-labelled trees, copy specs);
  meta-theorems: Cog/Heap/Copy.lean (`copy_faithful_independent`, by structural induction over
  values of any shape and depth) and Cog/Heap/Typed.lean (from the finite table to all well-typed
  values).  Facts regenerated from the checked cog tree on every run: Cog/Gen/CopyFacts.lean (how
  each DeepCopy method copies each field, the cases of the dynamic-value helper `deepCopyValue`,
  the shape of compiler.Passes.Process), Cog/Gen/IRFields.lean (field lists and types of every IR
  struct).  Cog/Heap/PreFix.lean is pinned history: the same tables for the tree before the fix
  commits b4532a0, ea8a40d, 1572d8b, 71b1811.
-/
import Cog.Heap.Typed
import Cog.Heap.PreFix
import Cog.Gen.CopyFacts
import Cog.Gen.IRFields
set_option linter.unusedVariables false
namespace Cog.Heap
open Cog.Gen

/-- depth bound for the "struct of scalars" test (more than the number of struct types) -/
def irFuel : Nat := irFields.length + 1

/-- **The dynamic types held by the IR's `any` fields** (defaults, constant values, constraint
    arguments, reference values, hints).  This is an explicit assumption about what cog's
    front-ends and passes store there: decoded JSON / YAML / CUE values are scalars, `[]any` and
    `map[string]any`; hints hold strings, bools and a `DisjunctionType` (or `Type`).  The harness
    generates exactly these.  A dynamic type outside this list that can hold mutable structure
    (say `[]string`) would be handed over as-is by `deepCopyValue`: see `C18_universe_needed`. -/
def irDynTypes : List Ty :=
  [.imm, .slice .iface, .map .iface, .named "DisjunctionType", .named "Type"]

/-! ### the full statement -/

/-- **C18, full strength.**  For every DeepCopy method, every well-typed receiver value (any
    shape, any nesting depth) whose `any`s hold dynamic types of the universe `U`, and every
    fresh-address counter above the value's addresses: the copy equals the original in every
    declared field (modulo nil/empty collections), shares no backing store with it, and no write
    through an address of the copy changes the original (nor the other way round). -/
def C18_full (env : Env) (spec : Spec) (roots : Roots) (U : List Ty) : Prop :=
  ∀ r ∈ roots, ∀ (n : GoNode) (k : Addr), hasTy env r.2.2 n = true → dynIn U n = true →
    (∀ a ∈ addrs n, a < k) → Correct spec r.2.1 n k

/-- The meta-theorem at the property's level (unbounded in the value): a consistent table
    without `shared`/`omitted` entries whose dynamic-value helper covers the universe gives the
    full statement. -/
theorem C18_full_of_good_table (env : Env) (spec : Spec) (roots : Roots) (U : List Ty) (fuel : Nat)
    (hok : tableOK env spec fuel = true) (hr : rootsOK env spec fuel roots = true)
    (hgood : badEntries spec = []) (hroots : roots.all (fun r => !r.2.1.bad) = true)
    (hcov : dynCovers env spec fuel U = true) :
    C18_full env spec roots U := by
  intro r hrm n k ht hd hb
  simp only [rootsOK, List.all_eq_true] at hr hroots
  have hf := hr r hrm
  have hnb : r.2.1.bad = false := by simpa using hroots r hrm
  exact correct_of_clean env spec fuel hok r.2.1 r.2.2 hf n k ht
    (good_clean env spec fuel U hok hgood hcov n r.2.1 r.2.2 hnb hf ht hd) hb

/-- **C18 on any consistent table** (also one with bad entries): every well-typed value that
    holds no mutable structure at the `shared` positions, nothing at the `omitted` positions and
    no unrebuilt dynamic type holding a store (`clean`, a decidable predicate of the value) is
    copied faithfully and independently. -/
theorem C18_partial (env : Env) (spec : Spec) (roots : Roots) (fuel : Nat)
    (hok : tableOK env spec fuel = true) (hr : rootsOK env spec fuel roots = true) :
    ∀ r ∈ roots, ∀ (n : GoNode) (k : Addr), hasTy env r.2.2 n = true → clean spec r.2.1 n = true →
      (∀ a ∈ addrs n, a < k) → Correct spec r.2.1 n k := by
  intro r hrm n k ht hc hb
  simp only [rootsOK, List.all_eq_true] at hr
  exact correct_of_clean env spec fuel hok r.2.1 r.2.2 (hr r hrm) n k ht hc hb

/-! ### the current tree -/

/-- The explicit exception list: the only (struct, field, mode) entries of the regenerated copy
    table that are allowed not to be good.  **Empty since the fix commits**: every entry of the
    current table must be good; a relapse of any former exception breaks `C18_current_tree`. -/
def exceptions : List (String × String × Mode) := []

/-- **Decision over the regenerated table**: the copy table agrees with the IR's field lists
    (same structs, same fields in the same order — a field added in Go and not known to the copy
    routine appears as `omitted`), every mode fits its field's Go type (`byValue` only on types
    that cannot hold a slice, map, pointer or interface; `dyn` only on `any`), every case of
    `deepCopyValue` fits its dynamic type, every DeepCopy entry point fits its receiver, every
    entry that is not good is on the (empty) exception list, and `deepCopyValue` rebuilds every
    dynamic type of the universe that can hold mutable structure. -/
theorem C18_current_tree :
    tableOK irFields copyFacts irFuel = true ∧
    rootsOK irFields copyFacts irFuel copyRoots = true ∧
    copyRoots.all (fun r => !r.2.1.bad) = true ∧
    (badEntries copyFacts).all (fun e => exceptions.contains e) = true ∧
    dynCovers irFields copyFacts irFuel irDynTypes = true := by
  decide

theorem C18_no_bad_entry : badEntries copyFacts = [] := by
  have h := C18_current_tree.2.2.2.1
  cases hb : badEntries copyFacts with
  | nil => rfl
  | cons e r => rw [hb] at h; simp [exceptions] at h

/-- **C18 holds on the current tree, at full strength** (over the stated universe of dynamic
    types): every DeepCopy method, every well-typed value of any shape and depth. -/
theorem C18_full_current_tree : C18_full irFields copyFacts copyRoots irDynTypes :=
  C18_full_of_good_table irFields copyFacts copyRoots irDynTypes irFuel C18_current_tree.1
    C18_current_tree.2.1 C18_no_bad_entry C18_current_tree.2.2.1 C18_current_tree.2.2.2.2

/-- The value-level form instantiated on the current tree (no universe assumption: `clean` says
    what is needed of the value). -/
theorem C18_partial_current_tree :
    ∀ r ∈ copyRoots, ∀ (n : GoNode) (k : Addr), hasTy irFields r.2.2 n = true →
      clean copyFacts r.2.1 n = true → (∀ a ∈ addrs n, a < k) → Correct copyFacts r.2.1 n k :=
  C18_partial irFields copyFacts copyRoots irFuel C18_current_tree.1 C18_current_tree.2.1

/-- `[]any{"a"}` as held by an `any` -/
def anyList (a : Addr) : GoNode := .iface (.slice .iface) (.slice a [.iface .imm (.imm "a")])

/-- non-vacuity: a well-typed `Object` over the universe whose type holds a struct with a field,
    comments, a *list default*, a *map default* one level down and a hint holding a
    `DisjunctionType` with a branch slice and a mapping — 11 distinct addresses to separate -/
def sampleObject : GoNode :=
  mkStruct irFields "Object" [
    ("Name", .imm "o"), ("Comments", .slice 1 [.imm "c"]),
    ("Type", mkStruct irFields "Type" [
      ("Kind", .imm "struct"), ("Default", anyList 7),
      ("Hints", .gomap 2 [("h", .iface (.named "DisjunctionType") (mkStruct irFields "DisjunctionType" [
          ("Branches", .slice 8 [mkStruct irFields "Type" [("Kind", .imm "ref")]]),
          ("DiscriminatorMapping", .gomap 9 [("k", .imm "v")])]))]),
      ("Struct", .ptr 3 (mkStruct irFields "StructType" [
        ("Fields", .slice 4 [mkStruct irFields "StructField" [
          ("Name", .imm "f"), ("Comments", .slice 5 [.imm "fc"]),
          ("Type", mkStruct irFields "Type" [("Kind", .imm "scalar"),
            ("Default", .iface (.map .iface) (.gomap 10 [("k", anyList 11)])),
            ("Scalar", .ptr 6 (mkStruct irFields "ScalarType" [("ScalarKind", .imm "string")]))])]])]))])]

example : ("Object", Mode.recur "Object", Ty.named "Object") ∈ copyRoots ∧
    hasTy irFields (.named "Object") sampleObject = true ∧
    dynIn irDynTypes sampleObject = true ∧
    clean copyFacts (.recur "Object") sampleObject = true ∧
    (addrs sampleObject).length = 11 ∧ (∀ a ∈ addrs sampleObject, a < 100) ∧
    (addrs (copyNode copyFacts (.recur "Object") sampleObject 100).1).length = 11 := by decide

/-! ### the universe assumption is needed -/

/-- the witness value of an entry: the struct with only that field populated -/
def witnessOf (env : Env) (T field : String) (payload : GoNode) : GoNode :=
  mkStruct env T [(field, payload)]

/-- the witness is a well-typed receiver of a DeepCopy method over the universe `U`, below the
    counter, and its copy either differs from it or shares an address through which a write
    changes the original -/
def witnessBreaks (env : Env) (spec : Spec) (roots : Roots) (U : List Ty) (T : String) (n : GoNode) : Bool :=
  let c := (copyNode spec (.recur T) n 100).1
  roots.contains (T, .recur T, .named T) && hasTy env (.named T) n && dynIn U n && (addrs n).all (· < 100) &&
  (!(GoNode.beq (erase c) (erase n)) ||
    (addrs c).any (fun a => (addrs n).contains a && !(GoNode.beq (write a (fun _ => .imm "mutated") n) n)))

theorem not_full_of_witness (env : Env) (spec : Spec) (roots : Roots) (U : List Ty) (T : String) (n : GoNode)
    (h : witnessBreaks env spec roots U T n = true) : ¬ C18_full env spec roots U := by
  intro hfull
  simp only [witnessBreaks, Bool.and_eq_true, Bool.or_eq_true, List.all_eq_true, decide_eq_true_eq,
    List.any_eq_true, Bool.not_eq_true'] at h
  obtain ⟨⟨⟨⟨hroot, hty⟩, hdyn⟩, hbound⟩, hbreak⟩ := h
  have hmem : (T, Mode.recur T, Ty.named T) ∈ roots := by simpa using hroot
  obtain ⟨hfaith, hdis, _, _⟩ := hfull _ hmem n 100 hty hdyn hbound
  rcases hbreak with hne | ⟨a, hac, han, _⟩
  · exact ne_of_beq_false hne hfaith
  · exact hdis a hac (by simpa using han)

/-- **Caveat, proved.**  With a `[]string` admitted among the dynamic types (no case of
    `deepCopyValue` rebuilds it) the full statement fails: `Type.Default = []string{"a"}` is
    handed over as-is.  cog stores no such value (see `irDynTypes`); stated only while the helper
    has no such case. -/
theorem C18_universe_needed :
    (lookupTy copyFacts.dyn (.slice .imm)).isSome = true ∨
    ¬ C18_full irFields copyFacts copyRoots (irDynTypes ++ [.slice .imm]) := by
  by_cases h : (lookupTy copyFacts.dyn (.slice .imm)).isSome = true
  · exact Or.inl h
  · refine Or.inr (not_full_of_witness _ _ _ _ "Type"
      (witnessOf irFields "Type" "Default" (.iface (.slice .imm) (.slice 1 [.imm "a"]))) ?_)
    have : (!(lookupTy copyFacts.dyn (.slice .imm)).isSome ==
        witnessBreaks irFields copyFacts copyRoots (irDynTypes ++ [.slice .imm]) "Type"
          (witnessOf irFields "Type" "Default" (.iface (.slice .imm) (.slice 1 [.imm "a"])))) = true := by decide
    simp only [Bool.not_eq_true] at h
    simpa [h] using this

/-! ### history: the tree before the fix commits (pinned tables of Cog/Heap/PreFix.lean) -/

open PreFix in
/-- the entries of the pre-fix table that were not good — the former exception list of this
    file; each was a known finding until the fix commits -/
def preExceptions : List (String × String × Mode) := [
  ("AssignmentConstraint", "Parameter", .shared),
  ("AssignmentValue", "Constant", .shared),
  ("Builder", "For", .shared),
  ("Builder", "Factories", .omitted),
  ("ConstantReferenceType", "ReferenceValue", .shared),
  ("EnumValue", "Value", .shared),
  ("Option", "Default", .omitted),
  ("PathIndex", "Constant", .shared),
  ("ScalarType", "Value", .shared),
  ("Schema", "EntryPointType", .shared),
  ("Type", "Default", .shared),
  ("Type", "Hints", .freshMap .shared),
  ("TypeConstraint", "Args", .freshSlice .shared),
  ("TypedConstant", "Value", .shared)]

open PreFix in
/-- for each former exception, a (type-correct, in-universe) payload for the offending field:
    the same values the harness replays on the real code as must-pass inputs -/
def prePayload (T field : String) : GoNode :=
  match T, field with
  | "Type", "Hints" => .gomap 1 [("h", anyList 2)]
  | "TypeConstraint", "Args" => .slice 1 [anyList 2]
  | "Schema", "EntryPointType" => mkStruct preEnv "Type" [("PassesTrail", .slice 1 [.imm "t"])]
  | "Builder", "For" => mkStruct preEnv "Object" [("Comments", .slice 1 [.imm "c"])]
  | "Builder", "Factories" => .slice 1 [mkStruct preEnv "BuilderFactory" [("Name", .imm "f")]]
  | "Option", "Default" => .ptr 1 (mkStruct preEnv "OptionDefault" [("ArgsValues", .slice 2 [.iface .imm (.imm "1")])])
  | _, _ => anyList 1          -- an `any` holding a []any

open PreFix in
/-- **Before the fixes**: the pre-fix table is consistent, its bad entries are exactly the 14
    former exceptions, and each of them has a well-typed in-universe witness whose copy is
    unfaithful or shares an address through which a write changes the original. -/
theorem C18_prefix_exceptions_witnessed :
    tableOK preEnv preSpec (preEnv.length + 1) = true ∧
    badEntries preSpec = preExceptions ∧
    preExceptions.all (fun e => witnessBreaks preEnv preSpec preRoots irDynTypes e.1
      (witnessOf preEnv e.1 e.2.1 (prePayload e.1 e.2.1))) = true := by
  decide

open PreFix in
/-- **The full statement was false before the fixes.** -/
theorem C18_prefix_counterexample : ¬ C18_full preEnv preSpec preRoots irDynTypes := by
  have h := C18_prefix_exceptions_witnessed.2.2
  simp only [preExceptions, List.all_cons, Bool.and_eq_true] at h
  exact not_full_of_witness _ _ _ _ _ _ h.1

/-- on the same witnesses the current table copies correctly (they are in the scope of
    `C18_full_current_tree`; evaluated here as a cross-check of the model against the fixes) -/
theorem C18_former_witnesses_pass :
    preExceptions.all (fun e =>
      let n := witnessOf irFields e.1 e.2.1 (prePayload e.1 e.2.1)
      hasTy irFields (.named e.1) n && dynIn irDynTypes n &&
      !(witnessBreaks irFields copyFacts copyRoots irDynTypes e.1 n)) = true := by
  decide

/-! ### the chain entry point duplicates its input first -/

/-- **compiler.Passes.Process** (regenerated syntactic fact): its `schemas` parameter is used
    exactly once, as the receiver of `schemas.DeepCopy()`, in a statement at the top level of the
    body that no return precedes, and every return hands back the variable holding the copy (or
    nil): the chain — empty or not — and its caller only ever see the duplicate. -/
theorem C18_process_copies_first :
    processInputUses = 1 ∧ processOnlyUseIsDeepCopy = true ∧ processCopyAtTopLevel = true ∧
    processNoReturnBeforeCopy = true ∧ processReturnsCopyOrNil = true := by
  decide

/-- `Process` in the model: duplicate, then run the chain on the duplicate only.  Whatever the
    chain (`run` is arbitrary, the empty chain is `fun c => c`), it is a function of the
    duplicate, and the duplicate shares nothing with a well-typed input over the universe. -/
theorem C18_process_frame (run : GoNode → GoNode) (S : GoNode) (k : Addr)
    (hty : hasTy irFields (.slice (.ptr (.named "Schema"))) S = true) (hd : dynIn irDynTypes S = true)
    (hb : ∀ a ∈ addrs S, a < k) (hroot : ("Schemas", Mode.freshSlice (.viaPtrRec "Schema"), Ty.slice (.ptr (.named "Schema"))) ∈ copyRoots) :
    let c := (copyNode copyFacts (.freshSlice (.viaPtrRec "Schema")) S k).1
    (∀ a ∈ addrs c, ∀ f, write a f S = S) ∧ erase c = erase S :=
  let h := C18_full_current_tree _ hroot S k hty hd hb
  ⟨h.2.2.1, h.1⟩

example : ("Schemas", Mode.freshSlice (.viaPtrRec "Schema"), Ty.slice (.ptr (.named "Schema"))) ∈ copyRoots := by decide

/-! ### the meta-theorem and its converses, restated for the audit -/

/-- the unbounded meta-theorem (any spec, any mode, any value of any depth) -/
theorem C18_copy_faithful_independent (spec : Spec) (m : Mode) (n : GoNode) (k : Addr)
    (hs : safe spec m n = true) (hb : ∀ a ∈ addrs n, a < k) : Correct spec m n k :=
  copy_faithful_independent spec m n k hs hb

/-- non-vacuity: `safe` holds of values with addresses -/
example : safe copyFacts (.recur "Object") sampleObject = true := by decide

/-- converse 1: a `shared` position holding an address breaks independence, with a witness write -/
theorem C18_shared_breaks (spec : Spec) (n : GoNode) (k a : Addr) (h : a ∈ addrs n) :
    a ∈ addrs (copyNode spec .shared n k).1 ∧ a ∈ addrs n ∧ ∃ f, write a f n ≠ n :=
  shared_breaks_independence spec n k a h

/-- converse 2: an `omitted` position holding a non-empty value breaks faithfulness -/
theorem C18_omitted_breaks (spec : Spec) (n : GoNode) (k : Addr) (h : (erase n).isNil = false) :
    erase (copyNode spec .omitted n k).1 ≠ erase n :=
  omitted_breaks_faithfulness spec n k h

end Cog.Heap
