/-
  C18 — copies of the IR are faithful and independent.

  Property theorems only.  Model: Cog/Heap/Model.lean (address-labelled trees, copy specs);
  meta-theorems: Cog/Heap/Copy.lean (`copy_faithful_independent`, by structural induction over
  values of any shape and depth) and Cog/Heap/Typed.lean (from the finite table to all well-typed
  values).  Facts regenerated from /repo on every run: Cog/Gen/CopyFacts.lean (how each DeepCopy
  method copies each field), Cog/Gen/IRFields.lean (field lists and types of every IR struct).
-/
import Cog.Heap.Typed
import Cog.Gen.CopyFacts
import Cog.Gen.IRFields
set_option linter.unusedVariables false
namespace Cog.Heap
open Cog.Gen

/-- depth bound for the "struct of scalars" test (more than the number of struct types) -/
def irFuel : Nat := irFields.length + 1

/-! ### the full statement -/

/-- **C18, full strength.**  For every DeepCopy method, every well-typed receiver value (any
    shape, any nesting depth) and every fresh-address counter above the value's addresses:
    the copy equals the original in every declared field (modulo nil/empty collections), shares
    no backing store with it, and no write through an address of the copy changes the original
    (nor the other way round). -/
def C18_full (env : Env) (spec : Spec) (roots : Roots) : Prop :=
  ∀ r ∈ roots, ∀ (n : GoNode) (k : Addr), hasTy env r.2.2 n = true → (∀ a ∈ addrs n, a < k) →
    Correct spec r.2.1 n k

/-- The meta-theorem at the property's level (unbounded in the value): a consistent table
    without `shared`/`omitted` entries gives the full statement. -/
theorem C18_full_of_good_table (env : Env) (spec : Spec) (roots : Roots) (fuel : Nat)
    (hok : tableOK env spec fuel = true) (hr : rootsOK env spec fuel roots = true)
    (hgood : badEntries spec = []) (hroots : roots.all (fun r => !r.2.1.bad) = true) :
    C18_full env spec roots := by
  intro r hrm n k ht hb
  simp only [rootsOK, List.all_eq_true] at hr hroots
  have hf := hr r hrm
  have hnb : r.2.1.bad = false := by simpa using hroots r hrm
  exact correct_of_clean env spec fuel hok r.2.1 r.2.2 hf n k ht
    (good_clean env spec fuel hok hgood n r.2.1 r.2.2 hnb hf ht) hb

/-- **C18, proved part** (any consistent table): every well-typed value that holds no mutable
    structure at the `shared` positions and nothing at the `omitted` positions (`clean`, a
    decidable predicate of the value) is copied faithfully and independently. -/
theorem C18_partial (env : Env) (spec : Spec) (roots : Roots) (fuel : Nat)
    (hok : tableOK env spec fuel = true) (hr : rootsOK env spec fuel roots = true) :
    ∀ r ∈ roots, ∀ (n : GoNode) (k : Addr), hasTy env r.2.2 n = true → clean spec r.2.1 n = true →
      (∀ a ∈ addrs n, a < k) → Correct spec r.2.1 n k := by
  intro r hrm n k ht hc hb
  simp only [rootsOK, List.all_eq_true] at hr
  exact correct_of_clean env spec fuel hok r.2.1 r.2.2 (hr r hrm) n k ht hc hb

/-! ### the current tree -/

/-- The explicit exception list: the only (struct, field, mode) entries of the regenerated copy
    table that are allowed not to be good.  Named by struct and field.  Every other entry that
    is not good breaks `C18_current_tree`. -/
def exceptions : List (String × String × Mode) := [
  ("Type", "Default", .shared),
  ("Type", "Hints", .freshMap .shared),
  ("TypeConstraint", "Args", .freshSlice .shared),
  ("ScalarType", "Value", .shared),
  ("EnumValue", "Value", .shared),
  ("ConstantReferenceType", "ReferenceValue", .shared),
  ("Schema", "EntryPointType", .shared),
  ("Builder", "For", .shared),
  ("Builder", "Factories", .omitted),
  ("Option", "Default", .omitted),
  ("PathIndex", "Constant", .shared),
  ("AssignmentValue", "Constant", .shared),
  ("AssignmentConstraint", "Parameter", .shared),
  ("TypedConstant", "Value", .shared)]

/-- **Decision over the regenerated table**: the copy table agrees with the IR's field lists
    (same structs, same fields in the same order — a field added in Go and not known to the copy
    routine appears as `omitted`), every mode fits its field's Go type (`byValue` only on types
    that cannot hold a slice, map, pointer or interface), every DeepCopy entry point fits its
    receiver, and every entry that is not good is on the explicit exception list. -/
theorem C18_current_tree :
    tableOK irFields copyFacts irFuel = true ∧
    rootsOK irFields copyFacts irFuel copyRoots = true ∧
    copyRoots.all (fun r => !r.2.1.bad) = true ∧
    (badEntries copyFacts).all (fun e => exceptions.contains e) = true := by
  decide

/-- The proved part instantiated on the current tree: every value of every IR type that is
    `clean` — by `C18_current_tree` that constrains only the listed exception fields — is copied
    faithfully and independently by the real `DeepCopy` table. -/
theorem C18_partial_current_tree :
    ∀ r ∈ copyRoots, ∀ (n : GoNode) (k : Addr), hasTy irFields r.2.2 n = true →
      clean copyFacts r.2.1 n = true → (∀ a ∈ addrs n, a < k) → Correct copyFacts r.2.1 n k :=
  C18_partial irFields copyFacts copyRoots irFuel C18_current_tree.1 C18_current_tree.2.1

/-- non-vacuity of the partial theorem: a well-typed, clean `Object` whose type holds a struct
    with a field, comments and a scalar default — with 6 distinct addresses to separate -/
def sampleObject : GoNode :=
  mkStruct irFields "Object" [
    ("Name", .imm "o"), ("Comments", .slice 1 [.imm "c"]),
    ("Type", mkStruct irFields "Type" [
      ("Kind", .imm "struct"), ("Default", .iface (.imm "42")),
      ("Hints", .gomap 2 [("h", .iface (.imm "x"))]),
      ("Struct", .ptr 3 (mkStruct irFields "StructType" [
        ("Fields", .slice 4 [mkStruct irFields "StructField" [
          ("Name", .imm "f"), ("Comments", .slice 5 [.imm "fc"]),
          ("Type", mkStruct irFields "Type" [("Kind", .imm "scalar"),
            ("Scalar", .ptr 6 (mkStruct irFields "ScalarType" [("ScalarKind", .imm "string")]))])]])]))])]

example : ("Object", Mode.recur "Object", Ty.named "Object") ∈ copyRoots ∧
    hasTy irFields (.named "Object") sampleObject = true ∧
    clean copyFacts (.recur "Object") sampleObject = true ∧
    (addrs sampleObject).length = 6 ∧ (∀ a ∈ addrs sampleObject, a < 100) ∧
    (addrs (copyNode copyFacts (.recur "Object") sampleObject 100).1).length = 6 := by decide

/-! ### the exceptions are genuine: a witness for each, in the model -/

/-- for each exception, a (type-correct) payload for the offending field -/
def payload (T field : String) : GoNode :=
  match T, field with
  | "Type", "Hints" => .gomap 1 [("h", .iface (.slice 2 [.imm "a"]))]
  | "TypeConstraint", "Args" => .slice 1 [.iface (.slice 2 [.imm "a"])]
  | "Schema", "EntryPointType" => mkStruct irFields "Type" [("PassesTrail", .slice 1 [.imm "t"])]
  | "Builder", "For" => mkStruct irFields "Object" [("Comments", .slice 1 [.imm "c"])]
  | "Builder", "Factories" => .slice 1 [mkStruct irFields "BuilderFactory" [("Name", .imm "f")]]
  | "Option", "Default" => .ptr 1 (mkStruct irFields "OptionDefault" [("ArgsValues", .slice 2 [.iface (.imm "1")])])
  | _, _ => .iface (.slice 1 [.imm "a"])          -- an `any` holding a []any

/-- the witness value of an exception: the struct with only the offending field populated -/
def witness (e : String × String × Mode) : GoNode :=
  mkStruct irFields e.1 [(e.2.1, payload e.1 e.2.1)]

/-- the witness is a well-typed receiver of a DeepCopy method, below the counter, and its copy
    either differs from it or shares an address through which a write changes the original -/
def witnessBreaks (env : Env) (spec : Spec) (roots : Roots) (e : String × String × Mode) (n : GoNode) : Bool :=
  let c := (copyNode spec (.recur e.1) n 100).1
  roots.contains (e.1, .recur e.1, .named e.1) && hasTy env (.named e.1) n && (addrs n).all (· < 100) &&
  (!(GoNode.beq (erase c) (erase n)) ||
    (addrs c).any (fun a => (addrs n).contains a && !(GoNode.beq (write a (fun _ => .imm "mutated") n) n)))

theorem not_full_of_witness (env : Env) (spec : Spec) (roots : Roots) (e : String × String × Mode) (n : GoNode)
    (h : witnessBreaks env spec roots e n = true) : ¬ C18_full env spec roots := by
  intro hfull
  simp only [witnessBreaks, Bool.and_eq_true, Bool.or_eq_true, List.all_eq_true, decide_eq_true_eq,
    List.any_eq_true, Bool.not_eq_true'] at h
  obtain ⟨⟨⟨hroot, hty⟩, hbound⟩, hbreak⟩ := h
  have hmem : (e.1, Mode.recur e.1, Ty.named e.1) ∈ roots := by simpa using hroot
  obtain ⟨hfaith, hdis, _, _⟩ := hfull _ hmem n 100 hty hbound
  rcases hbreak with hne | ⟨a, hac, han, _⟩
  · exact ne_of_beq_false hne hfaith
  · exact hdis a hac (by simpa using han)

/-- **Every exception that is present in the regenerated table has a counterexample in the
    model** (evaluated on the regenerated table): a well-typed value whose copy is unfaithful,
    or shares an address with the original such that a write through it changes the original. -/
theorem C18_exceptions_witnessed :
    exceptions.all (fun e => !(badEntries copyFacts).contains e ||
      witnessBreaks irFields copyFacts copyRoots e (witness e)) = true := by
  decide

/-- **The full statement is false on the current tree** as long as the regenerated table has
    an entry that is not good (today: the 14 exceptions). -/
theorem C18_counterexample (h : badEntries copyFacts ≠ []) : ¬ C18_full irFields copyFacts copyRoots := by
  cases hb : badEntries copyFacts with
  | nil => exact absurd hb h
  | cons e rest =>
      have hall := C18_current_tree.2.2.2
      rw [hb] at hall
      simp only [List.all_cons, Bool.and_eq_true] at hall
      have hex : e ∈ exceptions := by simpa using hall.1
      have hw := C18_exceptions_witnessed
      simp only [List.all_eq_true] at hw
      have := hw e hex
      have hin : (badEntries copyFacts).contains e = true := by rw [hb]; simp
      simp only [hin, Bool.not_true, Bool.false_or] at this
      exact not_full_of_witness _ _ _ e _ this

/-- the status of the full statement on the current tree, whichever way the table turns out:
    no bad entry ⇒ `C18_full` holds; some bad entry ⇒ it does not -/
theorem C18_status :
    (badEntries copyFacts = [] → C18_full irFields copyFacts copyRoots) ∧
    (badEntries copyFacts ≠ [] → ¬ C18_full irFields copyFacts copyRoots) :=
  ⟨fun h => C18_full_of_good_table irFields copyFacts copyRoots irFuel C18_current_tree.1
      C18_current_tree.2.1 h C18_current_tree.2.2.1, C18_counterexample⟩

/-! ### the meta-theorem and its converses, restated for the audit -/

/-- the unbounded meta-theorem (any spec, any mode, any value of any depth) -/
theorem C18_copy_faithful_independent (spec : Spec) (m : Mode) (n : GoNode) (k : Addr)
    (hs : safe spec m n = true) (hb : ∀ a ∈ addrs n, a < k) : Correct spec m n k :=
  copy_faithful_independent spec m n k hs hb

/-- non-vacuity: `safe` holds of values with addresses -/
example : safe copyFacts (.recur "Object") sampleObject = true := by decide

/-- converse 1: a `shared` position holding an address breaks independence, with a witness write -/
theorem C18_shared_breaks (spec : Spec) (n : GoNode) (k a : Addr) (h : a ∈ addrs n) :
    a ∈ addrs (copyNode spec .shared n k).1 ∧ a ∈ addrs n ∧ ∃ f, write a f n ≠ n :=
  shared_breaks_independence spec n k a h

/-- converse 2: an `omitted` position holding a non-empty value breaks faithfulness -/
theorem C18_omitted_breaks (spec : Spec) (n : GoNode) (k : Addr) (h : (erase n).isNil = false) :
    erase (copyNode spec .omitted n k).1 ≠ erase n :=
  omitted_breaks_faithfulness spec n k h

end Cog.Heap
