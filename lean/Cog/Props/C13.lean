/-
  C13 — the generated `Equals` is an equivalence that matches equality of the encoded values.

  Model   : Cog/Sem/GoEquals.lean  (`goEquals` = struct_equality_method.tmpl on the Go type of a
            post-chain IR type; `goDecode`/`goEncode` from Cog/Sem/GoCodec.lean, GoVal.lean)
  Lemmas  : Cog/Sem/GoEquals{Lemmas,Laws,Enc,Leaf,Decode}.lean
  Values  : `a`, `b`, `c` are results of `goDecode` (json.Unmarshal into the generated type) that
            lie in the modelled fragment (`wt`, the decidable shape predicate; `C13_decode_wt`:
            every value decoded with fuel `fd` for a schema in the fragment `schemasOk` satisfies
            it at fuel `fd + 1`; the `C13_*_schema` corollaries discharge it that way).
            `goEquals` compares values coming from independent decodes; `fd` is the fuel of
            the decode, `fe` the fuel of `Equals`.

  Each property is stated at full strength (`C13_*_full`).  Four of the six are false on the
  current tree; for those the `_partial` theorem carries explicit decidable hypotheses and the
  `_counterexample` theorem refutes the full statement with a concrete (schema, documents)
  witness that the check replays on the real generated code:
    * map comparison ranges over the receiver's keys only and reads the other map with `other[k]`
      (zero value when absent)            → symmetry, transitivity, equal ⇒ same encoding fail;
    * `time.Time !=` compares the `*Location` pointer, fresh per decode for offsets that are not
      whole hours                          → reflexivity across decodes, same encoding ⇒ equal fail.
-/
import Cog.Sem.GoEqualsEnc
import Cog.Sem.GoEqualsLeaf
import Cog.Sem.GoEqualsDecode
namespace Cog.Sem
open Cog.IR Cog.Sem.GoVal Cog.Sem.GoEq

/-! ## full statements -/

/-- decoding a document twice gives equal values -/
def C13_refl_full : Prop :=
  ∀ (fd fe : Nat) (ss : Schemas) (t : Ty) (j : Json) (a : GoVal),
    goDecode fd ss t j = .ok a → wt fe ss t a = true → goEquals fe ss t a a = true

def C13_symm_full : Prop :=
  ∀ (fd fe : Nat) (ss : Schemas) (t : Ty) (ja jb : Json) (a b : GoVal),
    goDecode fd ss t ja = .ok a → goDecode fd ss t jb = .ok b →
    wt fe ss t a = true → wt fe ss t b = true →
    goEquals fe ss t a b = goEquals fe ss t b a

def C13_trans_full : Prop :=
  ∀ (fd fe : Nat) (ss : Schemas) (t : Ty) (ja jb jc : Json) (a b c : GoVal),
    goDecode fd ss t ja = .ok a → goDecode fd ss t jb = .ok b → goDecode fd ss t jc = .ok c →
    wt fe ss t a = true → wt fe ss t b = true → wt fe ss t c = true →
    goEquals fe ss t a b = true → goEquals fe ss t b c = true → goEquals fe ss t a c = true

/-- two values that encode to the same JSON are equal -/
def C13_enc_eq_implies_equals_full : Prop :=
  ∀ (fd fe : Nat) (ss : Schemas) (t : Ty) (ja jb : Json) (a b : GoVal),
    goDecode fd ss t ja = .ok a → goDecode fd ss t jb = .ok b →
    wt fe ss t a = true → wt fe ss t b = true →
    goEncode a = goEncode b → goEquals fe ss t a b = true

/-- two equal values encode to the same JSON once nil and empty collections are identified -/
def C13_equals_implies_enc_eqv_full : Prop :=
  ∀ (fd fe : Nat) (ss : Schemas) (t : Ty) (ja jb : Json) (a b : GoVal),
    goDecode fd ss t ja = .ok a → goDecode fd ss t jb = .ok b →
    wt fe ss t a = true → wt fe ss t b = true →
    goEquals fe ss t a b = true → goEncode (canonNil a) = goEncode (canonNil b)

/-- a difference in exactly one leaf, at any depth, makes two values unequal -/
def C13_single_leaf_full : Prop :=
  ∀ (fuel : Nat) (ss : Schemas) (t : Ty) (a b : GoVal),
    wt fuel ss t a = true → wt fuel ss t b = true → LeafDiff a b →
    goEquals fuel ss t a b = false ∧ goEquals fuel ss t b a = false

/-! ## what holds -/

/-- Reflexivity across decodes, for values whose timestamps all carry a `*Location` shared
    between decodes (UTC, the local offset, or a whole-hour offset).  All schemas of the fragment,
    all documents. -/
theorem C13_refl_partial (fd fe : Nat) (ss : Schemas) (t : Ty) (j : Json) (a : GoVal)
    (_hd : goDecode fd ss t j = .ok a) (hw : wt fe ss t a = true)
    (ht : timesShared a = true) : goEquals fe ss t a a = true :=
  goEquals_refl fe ss t a hw ht

/-- Symmetry, when no map entry of the receiver is `Equals` to the zero value of its type. -/
theorem C13_symm_partial (fd fe : Nat) (ss : Schemas) (t : Ty) (ja jb : Json) (a b : GoVal)
    (_ha : goDecode fd ss t ja = .ok a) (_hb : goDecode fd ss t jb = .ok b)
    (wa : wt fe ss t a = true) (wb : wt fe ss t b = true)
    (na : mapsNonZero fe ss t a = true) (nb : mapsNonZero fe ss t b = true) :
    goEquals fe ss t a b = goEquals fe ss t b a := by
  cases h1 : goEquals fe ss t a b <;> cases h2 : goEquals fe ss t b a <;> try rfl
  · rw [goEquals_symm fe ss t b a wb wa nb h2] at h1; cases h1
  · rw [goEquals_symm fe ss t a b wa wb na h1] at h2; cases h2

/-- one direction needs the hypothesis on the receiver only -/
theorem C13_symm_partial' (fuel : Nat) (ss : Schemas) (t : Ty) (a b : GoVal)
    (wa : wt fuel ss t a = true) (wb : wt fuel ss t b = true)
    (na : mapsNonZero fuel ss t a = true) (h : goEquals fuel ss t a b = true) :
    goEquals fuel ss t b a = true :=
  goEquals_symm fuel ss t a b wa wb na h

/-- Transitivity, when no map entry of `a` or `b` is `Equals` to the zero value of its type. -/
theorem C13_trans_partial (fd fe : Nat) (ss : Schemas) (t : Ty) (ja jb jc : Json) (a b c : GoVal)
    (_ha : goDecode fd ss t ja = .ok a) (_hb : goDecode fd ss t jb = .ok b)
    (_hc : goDecode fd ss t jc = .ok c)
    (wa : wt fe ss t a = true) (wb : wt fe ss t b = true) (wc : wt fe ss t c = true)
    (na : mapsNonZero fe ss t a = true) (nb : mapsNonZero fe ss t b = true)
    (hab : goEquals fe ss t a b = true) (hbc : goEquals fe ss t b c = true) :
    goEquals fe ss t a c = true :=
  goEquals_trans fe ss t a b c wa wb wc na nb hab hbc

/-- Same encoding ⇒ equal, for shared time locations and the same active union branches
    (branch choice is made by the custom unmarshallers from the document; two documents with the
    same re-encoding choose the same branch whenever the branches' encodings are disjoint). -/
theorem C13_enc_eq_implies_equals_partial (fd fe : Nat) (ss : Schemas) (t : Ty) (ja jb : Json)
    (a b : GoVal) (_ha : goDecode fd ss t ja = .ok a) (_hb : goDecode fd ss t jb = .ok b)
    (wa : wt fe ss t a = true) (wb : wt fe ss t b = true)
    (ht : timesShared a = true) (hu : unionsAligned fe ss t a b = true)
    (he : goEncode a = goEncode b) : goEquals fe ss t a b = true :=
  goEquals_of_enc fe ss t a b wa wb ht hu he

/-- in particular: the same document decoded twice (no union hypothesis needed) -/
theorem C13_same_document_partial (fd fe : Nat) (ss : Schemas) (t : Ty) (j : Json) (a b : GoVal)
    (ha : goDecode fd ss t j = .ok a) (hb : goDecode fd ss t j = .ok b)
    (wa : wt fe ss t a = true) (ht : timesShared a = true) : goEquals fe ss t a b = true := by
  have : a = b := by rw [ha] at hb; cases hb; rfl
  subst this
  exact goEquals_refl fe ss t a wa ht

/-- Equal ⇒ same encoding up to nil/empty collections (exact JSON equality after `canonNil`),
    when no map entry of the receiver is `Equals` to the zero value of its type. -/
theorem C13_equals_implies_enc_eqv_partial (fd fe : Nat) (ss : Schemas) (t : Ty) (ja jb : Json)
    (a b : GoVal) (_ha : goDecode fd ss t ja = .ok a) (_hb : goDecode fd ss t jb = .ok b)
    (wa : wt fe ss t a = true) (wb : wt fe ss t b = true)
    (na : mapsNonZero fe ss t a = true) (h : goEquals fe ss t a b = true) :
    goEncode (canonNil a) = goEncode (canonNil b) :=
  goEquals_enc fe ss t a b wa wb na h

theorem GoEq.LeafDiff.symm {a b : GoVal} (h : LeafDiff a b) : LeafDiff b a := by
  induction h with
  | bool h => exact .bool (Ne.symm h)
  | int h => exact .int (Ne.symm h)
  | float h => exact .float (Ne.symm h)
  | str h => exact .str (Ne.symm h)
  | time h => exact .time (Ne.symm h)
  | iface h => exact .iface (Ne.symm h)
  | nilPtr v => exact .ptrNil v
  | ptrNil v => exact .nilPtr v
  | nilIface j => exact .ifaceNil j
  | ifaceNil j => exact .nilIface j
  | ptr _ ih => exact .ptr ih
  | slice pre post _ ih => exact .slice pre post ih
  | gomap pre post k _ ih => exact .gomap pre post k ih
  | struct pre post k om _ ih => exact .struct pre post k om ih
  | union pre post k _ ih => exact .union pre post k ih

/-- The single-leaf property holds in full: all schemas of the fragment, all values, any depth
    (map entries with the same key included: the quirk above needs different key sets). -/
theorem C13_single_leaf : C13_single_leaf_full := fun fuel ss t a b wa wb hd =>
  ⟨goEquals_false_of_leafDiff fuel ss t a b wa wb hd,
   goEquals_false_of_leafDiff fuel ss t b a wb wa hd.symm⟩

/-! ## the fragment: every decoded value is well typed -/

/-- `wt` is not an extra assumption on schemas of the fragment: for every schema set passing the
    decidable check `schemasOk` and every position type passing `posOk` (in particular every
    object `.ref pkg name {}` whose type is a struct), every document that decodes, decodes to a
    well-typed value. -/
theorem C13_decode_wt (ss : Schemas) (hs : schemasOk ss = true) (fd : Nat) (t : Ty) (j : Json)
    (a : GoVal) (hp : fposOk ss t = true) (hd : goDecode fd ss t j = .ok a) :
    wt (fd + 1) ss t a = true :=
  goDecode_wt ss hs fd t j a hp hd

/-- the laws on a schema of the fragment, with `wt` discharged -/
theorem C13_equivalence_schema (ss : Schemas) (hs : schemasOk ss = true) (fd : Nat) (t : Ty)
    (hp : fposOk ss t = true) (ja jb jc : Json) (a b c : GoVal)
    (ha : goDecode fd ss t ja = .ok a) (hb : goDecode fd ss t jb = .ok b)
    (hc : goDecode fd ss t jc = .ok c)
    (ta : timesShared a = true)
    (na : mapsNonZero (fd + 1) ss t a = true) (nb : mapsNonZero (fd + 1) ss t b = true) :
    goEquals (fd + 1) ss t a a = true ∧
    goEquals (fd + 1) ss t a b = goEquals (fd + 1) ss t b a ∧
    (goEquals (fd + 1) ss t a b = true → goEquals (fd + 1) ss t b c = true →
      goEquals (fd + 1) ss t a c = true) :=
  have wa := goDecode_wt ss hs fd t ja a hp ha
  have wb := goDecode_wt ss hs fd t jb b hp hb
  have wc := goDecode_wt ss hs fd t jc c hp hc
  ⟨C13_refl_partial fd _ ss t ja a ha wa ta,
   C13_symm_partial fd _ ss t ja jb a b ha hb wa wb na nb,
   C13_trans_partial fd _ ss t ja jb jc a b c ha hb hc wa wb wc na nb⟩

theorem C13_encoding_schema (ss : Schemas) (hs : schemasOk ss = true) (fd : Nat) (t : Ty)
    (hp : fposOk ss t = true) (ja jb : Json) (a b : GoVal)
    (ha : goDecode fd ss t ja = .ok a) (hb : goDecode fd ss t jb = .ok b) :
    (timesShared a = true → unionsAligned (fd + 1) ss t a b = true → goEncode a = goEncode b →
      goEquals (fd + 1) ss t a b = true) ∧
    (mapsNonZero (fd + 1) ss t a = true → goEquals (fd + 1) ss t a b = true →
      goEncode (canonNil a) = goEncode (canonNil b)) ∧
    (LeafDiff a b → goEquals (fd + 1) ss t a b = false ∧ goEquals (fd + 1) ss t b a = false) :=
  have wa := goDecode_wt ss hs fd t ja a hp ha
  have wb := goDecode_wt ss hs fd t jb b hp hb
  ⟨fun ta ua he => C13_enc_eq_implies_equals_partial fd _ ss t ja jb a b ha hb wa wb ta ua he,
   fun na h => C13_equals_implies_enc_eqv_partial fd _ ss t ja jb a b ha hb wa wb na h,
   fun hd => C13_single_leaf _ ss t a b wa wb hd⟩

/-! ## witnesses -/

namespace C13W

def strTy : Ty := .scalar "string" .nil [] {}
def timeTy : Ty := .scalar "string" .nil [] { hints := [(dtHint, .bool true)] }

/-- `M { m: map[string]string }`, `T { at: time.Time }`, `L { xs: []string }` -/
def ss : Schemas := [{ pkg := "p", objects := [
  ("M", { name := "M", selfPkg := "p", selfName := "M",
          ty := .struct [{ name := "m", ty := .map strTy strTy {}, required := true }] [] none {} }),
  ("T", { name := "T", selfPkg := "p", selfName := "T",
          ty := .struct [{ name := "at", ty := timeTy, required := true }] [] none {} }),
  ("L", { name := "L", selfPkg := "p", selfName := "L",
          ty := .struct [{ name := "xs", ty := .array strTy {}, required := true }] [] none {} })] }]

def tM : Ty := .ref "p" "M" {}
def tT : Ty := .ref "p" "T" {}
def tL : Ty := .ref "p" "L" {}

def mdoc (kvs : List (String × String)) : Json := .obj [("m", .obj (kvs.map fun kv => (kv.1, .str kv.2)))]
def mval (kvs : List (String × String)) : GoVal := .struct [("m", false, .gomap (kvs.map fun kv => (kv.1, .str kv.2)))]

theorem dec_m (kvs : List (String × String)) (h : goDecode 8 ss tM (mdoc kvs) = .ok (mval kvs)) :
    goDecode 8 ss tM (mdoc kvs) = .ok (mval kvs) := h

def a1 := [("k1", ""), ("k2", "x")]
def b1 := [("k2", "x"), ("k3", "y")]
def c1 := [("k2", "x"), ("k1", "y")]

def tdoc (s : String) : Json := .obj [("at", .str s)]
def tval (s : String) : GoVal := .struct [("at", false, .time s)]
def halfHour : String := "2024-01-01T10:00:00+05:30"

end C13W
open C13W

/-- `{"m":{"k1":"","k2":"x"}}.Equals({"m":{"k2":"x","k3":"y"}})` is true, the converse false -/
theorem C13_symm_counterexample : ¬ C13_symm_full := by
  intro h
  have := h 8 8 ss tM (mdoc a1) (mdoc b1) (mval a1) (mval b1) (by rfl) (by rfl) (by decide) (by decide)
  revert this; decide

/-- a = {k1:"",k2:"x"}, b = {k2:"x",k3:""}, c = {k2:"x",k1:"y"}: a~b, b~c, not a~c -/
theorem C13_trans_counterexample : ¬ C13_trans_full := by
  intro h
  have := h 8 8 ss tM (mdoc a1) (mdoc [("k2", "x"), ("k3", "")]) (mdoc c1)
    (mval a1) (mval [("k2", "x"), ("k3", "")]) (mval c1)
    (by rfl) (by rfl) (by rfl) (by decide) (by decide) (by decide) (by decide) (by decide)
  revert this; decide

/-- `{"m":{"k1":""}}` equals `{"m":{"k2":""}}` although the encodings differ by more than
    nil/empty collections -/
theorem C13_equals_implies_enc_eqv_counterexample : ¬ C13_equals_implies_enc_eqv_full := by
  intro h
  have := h 8 8 ss tM (mdoc [("k1", "")]) (mdoc [("k2", "")]) (mval [("k1", "")]) (mval [("k2", "")])
    (by rfl) (by rfl) (by decide) (by decide) (by decide)
  have hb := (jbeq_iff _ _).2 this
  revert hb; decide

/-- two decodes of `{"at":"2024-01-01T10:00:00+05:30"}` are not equal -/
theorem C13_refl_counterexample : ¬ C13_refl_full := by
  intro h
  have := h 8 8 ss tT (tdoc halfHour) (tval halfHour) (by rfl) (by decide)
  revert this; decide

theorem C13_enc_eq_implies_equals_counterexample : ¬ C13_enc_eq_implies_equals_full := by
  intro h
  have := h 8 8 ss tT (tdoc halfHour) (tdoc halfHour) (tval halfHour) (tval halfHour)
    (by rfl) (by rfl) (by decide) (by decide) rfl
  revert this; decide

/-! ### the union hypothesis of `C13_enc_eq_implies_equals_partial` is needed too -/

namespace C13W

def nref (n : String) : Ty := .ref "p" n { nullable := true }
def kindTy (v : String) : Ty := .scalar "string" (.str v) [] {}

/-- `R { u: *U }`, `U` = struct generated from the disjunction `A | B` discriminated by `kind` -/
def ssU : Schemas := [{ pkg := "p", objects := [
  ("A", { name := "A", selfPkg := "p", selfName := "A",
          ty := .struct [{ name := "kind", ty := kindTy "a", required := true }] [] none {} }),
  ("B", { name := "B", selfPkg := "p", selfName := "B",
          ty := .struct [{ name := "kind", ty := kindTy "b", required := true }] [] none {} }),
  ("U", { name := "U", selfPkg := "p", selfName := "U",
          ty := .struct [{ name := "A", ty := nref "A", required := false },
                         { name := "B", ty := nref "B", required := false }] []
                  (some ("disjunction_of_refs",
                    { discriminator := "kind", mapping := [("a", "A"), ("b", "B")] })) {} }),
  ("R", { name := "R", selfPkg := "p", selfName := "R",
          ty := .struct [{ name := "u", ty := nref "U", required := true }] [] none {} })] }]

def tR : Ty := .ref "p" "R" {}
def uNil : GoVal := .struct [("u", false, .nil)]
def uEmpty : GoVal := .struct [("u", false, .ptr (.union [("A", .nil), ("B", .nil)]))]

end C13W

/-- `{"u":null}` and `{"u":{"kind":"zzz"}}` (a discriminator no branch claims): a nil `*U` and a
    non-nil `U` with no branch set both marshal to `{"u":null}`, and are not Equal -/
theorem C13_enc_eq_implies_equals_counterexample_union : ¬ C13_enc_eq_implies_equals_full := by
  intro h
  have := h 8 8 ssU tR (.obj [("u", .null)]) (.obj [("u", .obj [("kind", .str "zzz")])]) uNil uEmpty
    (by rfl) (by rfl) (by decide) (by decide) (by rfl)
  revert this; decide

example : schemasOk ssU = true := by decide
example : unionsAligned 8 ssU tR uNil uEmpty = false := by decide

/-! ### nullable reference to a named array (`cc?: Recipients`, Go `*Recipients`) -/

namespace C13W

/-- `Recipients = []string`, `Mail { to: Recipients, cc?: *Recipients }` -/
def ssA : Schemas := [{ pkg := "p", objects := [
  ("Recipients", { name := "Recipients", selfPkg := "p", selfName := "Recipients", ty := .array strTy {} }),
  ("Mail", { name := "Mail", selfPkg := "p", selfName := "Mail",
             ty := .struct [{ name := "to", ty := .ref "p" "Recipients" {}, required := true },
                            { name := "cc", ty := nref "Recipients", required := false }] [] none {} })] }]

def tMail : Ty := .ref "p" "Mail" {}
def mail (cc : GoVal) : GoVal := .struct [("to", false, .slice [.str "a"]), ("cc", true, cc)]

end C13W

example : schemasOk ssA = true := by decide
example : goDecode 8 ssA tMail (.obj [("to", .arr [.str "a"]), ("cc", .arr [.str "x", .str "y"])])
    = .ok (mail (.slice [.str "x", .str "y"])) := by rfl
/-- the elements behind the pointer are compared pairwise; a nil pointer differs from an empty list -/
example : goEquals 9 ssA tMail (mail (.slice [.str "x", .str "y"])) (mail (.slice [.str "x", .str "z"])) = false := by decide
example : goEquals 9 ssA tMail (mail .nil) (mail (.slice [])) = false := by decide
example : goEquals 9 ssA tMail (mail (.slice [.str "x"])) (mail (.slice [.str "x"])) = true := by decide

/-! ## non-vacuity: the hypotheses of the partial theorems are satisfiable by interesting values -/

/-- the witness schema set is in the fragment, so `C13_decode_wt` applies to it -/
example : schemasOk ss = true := by decide
example : posOk ss tM = true ∧ posOk ss tT = true ∧ posOk ss tL = true := by decide
example : wt 9 ss tM (mval a1) = true := C13_decode_wt ss (by decide) 8 tM (mdoc a1) _ (by decide) (by rfl)


/-- reflexivity: a whole-hour offset is fine -/
example : goEquals 8 ss tT (tval "2024-01-01T10:00:00+05:00") (tval "2024-01-01T10:00:00+05:00") = true :=
  C13_refl_partial 8 8 ss tT (tdoc "2024-01-01T10:00:00+05:00") _ (by rfl) (by decide) (by decide)

/-- symmetry / transitivity / soundness hypotheses hold for maps without zero values, and such
    maps with the same entries in another order are equal -/
example : mapsNonZero 8 ss tM (mval [("k1", "v"), ("k2", "x")]) = true := by decide
example : goEquals 8 ss tM (mval [("k1", "v"), ("k2", "x")]) (mval [("k2", "x"), ("k1", "v")]) = true := by decide
example : goEncode (canonNil (mval [("k1", "v"), ("k2", "x")])) = goEncode (canonNil (mval [("k2", "x"), ("k1", "v")])) :=
  C13_equals_implies_enc_eqv_partial 8 8 ss tM (mdoc [("k1", "v"), ("k2", "x")]) (mdoc [("k2", "x"), ("k1", "v")])
    _ _ (by rfl) (by rfl) (by decide) (by decide) (by decide) (by decide)

/-- the nil/empty distinction is real: a nil and an empty slice are equal, encode differently,
    and encode alike after `canonNil` -/
example : goDecode 8 ss tL (.obj [("xs", .null)]) = .ok (.struct [("xs", false, .nil)]) := by rfl
example : goDecode 8 ss tL (.obj [("xs", .arr [])]) = .ok (.struct [("xs", false, .slice [])]) := by rfl
example : goEquals 8 ss tL (.struct [("xs", false, .nil)]) (.struct [("xs", false, .slice [])]) = true := by decide
example : goEncode (GoVal.struct [("xs", false, .nil)]) ≠ goEncode (GoVal.struct [("xs", false, .slice [])]) := by
  intro e; have hb := (jbeq_iff _ _).2 e; revert hb; decide
example : encSameModNil (.struct [("xs", false, .nil)]) (.struct [("xs", false, .slice [])]) = true := by decide

/-- single leaf: one element of a list, one value of a map -/
example : goEquals 8 ss tL (.struct [("xs", false, .slice [.str "a", .str "b"])])
    (.struct [("xs", false, .slice [.str "a", .str "c"])]) = false :=
  (C13_single_leaf 8 ss tL _ _ (by decide) (by decide)
    (.struct [] [] "xs" false (.slice [.str "a"] [] (.str (by decide))))).1

example : goEquals 8 ss tM (mval [("k", "")]) (mval [("k", "x")]) = false :=
  (C13_single_leaf 8 ss tM _ _ (by decide) (by decide)
    (.struct [] [] "m" false (.gomap [] [] "k" (.str (by decide))))).1

end Cog.Sem
