/-
  C07 — outputs independent of sibling languages and input order; inputs never mutated.

  Proved here (part 3 of DESIGN.md's C07): the model of `Schemas.Consolidate` / `Schema.Merge`
  merges inputs of one package into the UNION of their definitions or reports a conflict — no
  definition is silently dropped or overwritten —, its result does not depend on the iteration
  order of the `byPackage` Go map (only the order of the returned slice does), nor on the order of
  inputs that define different packages, nor — for the other packages — on an additional input.
  Part 1 (a transformation chain never modifies the schemas it was handed) is the aliasing
  theorem of C18 (`Cog/Props/C18.lean`) applied to `Passes.Process`, and part 2 (language
  independence of the jennies) is decided by the correspondence runs of the check; see evidence.
-/
import Cog.Merge.Lemmas
import Cog.Merge.SrcEquiv
import Cog.Passes.RemoveIntersections
namespace Cog.Merge
open Cog Cog.IR Cog.OMap

/-- what "contains the definition" means for a schema -/
def HasDef (s : Schema) (k : String) (o : Obj) : Prop := rget k s.objects = some o

theorem mergeEntry_pkg (s o : Schema) : (mergeEntry s o).pkg = s.pkg := by
  unfold mergeEntry; split <;> rfl
theorem mergeEntry_smeta (s o : Schema) : (mergeEntry s o).smeta = s.smeta := by
  unfold mergeEntry; split <;> rfl

/-- One `Merge`: on success every definition of both sides is in the result, unchanged. -/
theorem C07_merge_union (E : ObjEq) (s other s' : Schema)
    (hk : ∀ kv ∈ other.objects, kv.2.name = kv.1) (h : merge E.beq s other = .ok s') :
    (∀ k o, HasDef s k o → HasDef s' k o) ∧ (∀ kv ∈ other.objects, HasDef s' kv.1 kv.2) ∧
    s'.pkg = s.pkg ∧ s'.smeta = s.smeta := by
  unfold merge at h
  by_cases hm : s.smeta ≠ other.smeta
  · simp [hm] at h
  · simp only [hm, if_false] at h
    cases hb : (mergeObjects E.beq s.objects other.objects false).2 with
    | true => simp [hb] at h
    | false =>
      simp only [hb, Bool.false_eq_true, if_false, MRes.ok.injEq] at h
      subst h
      obtain ⟨i1, _, i3⟩ := mergeObjects_spec E other.objects s.objects false hk
      refine ⟨fun k o hd => i1 k o hd, ?_, mergeEntry_pkg s other, mergeEntry_smeta s other⟩
      intro kv hkv
      obtain ⟨cur, h1, h2⟩ := i3 kv hkv
      unfold HasDef
      simp only
      rw [h1, h2 hb]

/-- `Merge` fails exactly on conflicting metadata or a conflicting definition of a common name. -/
theorem C07_merge_conflict_iff (E : ObjEq) (s other : Schema)
    (hk : ∀ kv ∈ other.objects, kv.2.name = kv.1) (hnd : (other.objects.map (·.1)).Nodup) :
    merge E.beq s other = .conflict ↔
      s.smeta ≠ other.smeta ∨ ∃ kv ∈ other.objects, ∃ cur, HasDef s kv.1 cur ∧ cur ≠ kv.2 := by
  unfold merge
  by_cases hm : s.smeta ≠ other.smeta
  · simp [hm]
  · simp only [hm, if_false, false_or]
    obtain ⟨i1, i2, i3⟩ := mergeObjects_spec E other.objects s.objects false hk
    cases hb : (mergeObjects E.beq s.objects other.objects false).2 with
    | true =>
      simp only [if_true, true_iff]
      obtain h | ⟨kv, hkv, cur, h1, h2⟩ := i2.1 hb
      · cases h
      · -- the conflicting current value is the receiver's own (a fresh key would hold kv.2 itself)
        cases hs : rget kv.1 s.objects with
        | some c0 =>
          have hh := i1 kv.1 c0 hs
          rw [hh] at h1
          have hc : c0 = cur := by injection h1
          subst hc
          refine ⟨kv, hkv, c0, hs, ?_⟩
          intro c; rw [c, E.refl] at h2; cases h2
        | none =>
          exfalso
          -- then the result holds kv.2 for that key
          have key : ∀ (others mine : List (String × Obj)) (bad : Bool),
              (∀ kv ∈ others, kv.2.name = kv.1) → (others.map (·.1)).Nodup →
              ∀ kv ∈ others, rget kv.1 mine = none →
                rget kv.1 (mergeObjects E.beq mine others bad).1 = some kv.2 := by
            intro others
            induction others with
            | nil => intro _ _ _ _ kv h; simp at h
            | cons e rest ih =>
              intro mine bad hk nd kv hkv hnone
              obtain ⟨k, o⟩ := e
              have hname : o.name = k := hk (k, o) (by simp)
              simp only [List.map_cons, List.nodup_cons] at nd
              have hk' : ∀ kv ∈ rest, kv.2.name = kv.1 := fun kv h => hk kv (by simp [h])
              cases List.mem_cons.1 hkv with
              | inl c =>
                subst c
                simp only at hnone
                simp only [mergeObjects, hnone, hname]
                exact (mergeObjects_spec E rest _ bad hk').1 k o (by simp [rget_rset])
              | inr c =>
                have hne : ¬ k = kv.1 := by
                  intro e; subst e
                  exact nd.1 (List.mem_map.2 ⟨kv, c, rfl⟩)
                cases hg : rget k mine with
                | none =>
                  simp only [mergeObjects, hg, hname]
                  apply ih _ _ hk' nd.2 kv c
                  rw [rget_rset]; simp [hne, hnone]
                | some c0 =>
                  simp only [mergeObjects, hg]
                  exact ih _ _ hk' nd.2 kv c hnone
          have := key other.objects s.objects false hk hnd kv hkv hs
          rw [this] at h1; cases h1
          rw [E.refl] at h2; cases h2
    | false =>
      simp only [Bool.false_eq_true, if_false]
      constructor
      · intro h; cases h
      rintro ⟨kv, hkv, cur, hd, hne⟩
      exfalso
      obtain ⟨cur', h1, h2⟩ := i3 kv hkv
      have hh := i1 kv.1 cur hd
      rw [hh] at h1
      have hc : cur = cur' := by injection h1
      subst hc
      exact hne (h2 hb)


/-- Merging a whole group: every definition of the accumulator and of every input is in the result. -/
theorem C07_group_union (E : ObjEq) (group : List Schema) (acc R : Schema)
    (hk : ∀ s ∈ group, ∀ kv ∈ s.objects, kv.2.name = kv.1) (h : mergeGroup E.beq acc group = .ok R) :
    (∀ k o, HasDef acc k o → HasDef R k o) ∧ (∀ s ∈ group, ∀ kv ∈ s.objects, HasDef R kv.1 kv.2) ∧
    R.pkg = acc.pkg := by
  induction group generalizing acc with
  | nil => simp only [mergeGroup, MRes.ok.injEq] at h; subst h; exact ⟨fun _ _ h => h, by simp, rfl⟩
  | cons s rest ih =>
    simp only [mergeGroup] at h
    cases hm : merge E.beq acc s with
    | conflict => simp [hm] at h
    | ok acc' =>
      simp only [hm] at h
      obtain ⟨m1, m2, m3, _⟩ := C07_merge_union E acc s acc' (hk s (by simp)) hm
      obtain ⟨g1, g2, g3⟩ := ih acc' (fun s' hs' => hk s' (by simp [hs'])) h
      refine ⟨fun k o hd => g1 k o (m1 k o hd), ?_, by rw [g3, m3]⟩
      intro s' hs' kv hkv
      cases List.mem_cons.1 hs' with
      | inl c => subst c; exact g1 _ _ (m2 kv hkv)
      | inr c => exact g2 s' c kv hkv

theorem consolidate_ok_iff (E : ObjEq) (ss : Schemas) (order : List String) (R : Schemas) :
    consolidate E.beq ss order = .ok R ↔ All2 (fun p r => consolidatePkg E.beq ss p = .ok r) order R := by
  induction order generalizing R with
  | nil => cases R <;> simp [consolidate]
  | cons p rest ih =>
    simp only [consolidate]
    cases hp : consolidatePkg E.beq ss p with
    | conflict =>
      simp only
      constructor
      · intro h; cases h
      · intro h; cases R with
        | nil => cases h
        | cons r R' => have := (All2.cons_cons.1 h).1; rw [hp] at this; cases this
    | ok s =>
      cases hr : consolidate E.beq ss rest with
      | conflict =>
        simp only
        constructor
        · intro h; cases h
        · intro h; cases R with
          | nil => cases h
          | cons r R' =>
            have := (ih R').2 (All2.cons_cons.1 h).2
            rw [hr] at this; cases this
      | ok r =>
        simp only
        cases R with
        | nil => simp
        | cons r0 R' =>
          simp only [MRes.ok.injEq, List.cons.injEq, All2.cons_cons]
          constructor
          · rintro ⟨rfl, rfl⟩; exact ⟨hp, (ih _).1 hr⟩
          · rintro ⟨h1, h2⟩
            rw [hp] at h1
            have e1 : s = r0 := by injection h1
            have := (ih R').2 h2
            rw [hr] at this
            have e2 : r = R' := by injection this
            exact ⟨e1, e2⟩

/-- Consolidate: the union of all inputs' definitions, per package, or a conflict. -/
theorem C07_consolidate_union (E : ObjEq) (ss : Schemas) (order : List String) (R : Schemas)
    (hk : ∀ s ∈ ss, ∀ kv ∈ s.objects, kv.2.name = kv.1)
    (h : consolidate E.beq ss order = .ok R) :
    ∀ s ∈ ss, s.pkg ∈ order → ∀ kv ∈ s.objects, ∃ r ∈ R, r.pkg = s.pkg ∧ HasDef r kv.1 kv.2 := by
  intro s hs hp kv hkv
  have ha := (consolidate_ok_iff E ss order R).1 h
  obtain ⟨r, hr, hcp⟩ := ha.mem_left hp
  refine ⟨r, hr, ?_⟩
  unfold consolidatePkg at hcp
  have hsg : s ∈ groupOf ss s.pkg := by simp [groupOf, hs]
  cases hg : groupOf ss s.pkg with
  | nil => rw [hg] at hsg; simp at hsg
  | cons first rest =>
    rw [hg] at hcp hsg
    simp only at hcp
    have hkg : ∀ s' ∈ first :: rest, ∀ kv ∈ s'.objects, kv.2.name = kv.1 := by
      intro s' hs'
      have : s' ∈ groupOf ss s.pkg := by rw [hg]; exact hs'
      exact hk s' (List.mem_filter.1 this).1
    obtain ⟨_, g2, g3⟩ := C07_group_union E (first :: rest) _ r hkg hcp
    exact ⟨g3, g2 s hsg kv hkv⟩

theorem all2_perm {α β : Type} {P : α → β → Prop} {as as' : List α} {bs : List β}
    (hp : as.Perm as') (h : All2 P as bs) : ∃ bs', All2 P as' bs' ∧ bs.Perm bs' := by
  induction hp generalizing bs with
  | nil => exact ⟨bs, h, List.Perm.refl _⟩
  | cons x _ ih =>
    cases bs with
    | nil => cases h
    | cons b bs =>
      obtain ⟨h1, h2⟩ := All2.cons_cons.1 h
      obtain ⟨bs', h3, h4⟩ := ih h2
      exact ⟨b :: bs', .cons h1 h3, List.Perm.cons b h4⟩
  | swap x y l =>
    match bs, h with
    | b1 :: b2 :: bs, h =>
      obtain ⟨h1, h'⟩ := All2.cons_cons.1 h
      obtain ⟨h2, h3⟩ := All2.cons_cons.1 h'
      exact ⟨b2 :: b1 :: bs, .cons h2 (.cons h1 h3), List.Perm.swap b2 b1 bs⟩
  | trans _ _ ih1 ih2 =>
    obtain ⟨bs1, h1, p1⟩ := ih1 h
    obtain ⟨bs2, h2, p2⟩ := ih2 h1
    exact ⟨bs2, h2, p1.trans p2⟩

/-- The iteration order of the `byPackage` map only permutes the resulting slice: the same
    schemas come out, whichever order the Go runtime picks. -/
theorem C07_consolidate_order_irrelevant (E : ObjEq) (ss : Schemas) (o1 o2 : List String) (R1 : Schemas)
    (hp : o1.Perm o2) (h : consolidate E.beq ss o1 = .ok R1) :
    ∃ R2, consolidate E.beq ss o2 = .ok R2 ∧ R1.Perm R2 := by
  obtain ⟨R2, h2, p⟩ := all2_perm hp ((consolidate_ok_iff E ss o1 R1).1 h)
  exact ⟨R2, (consolidate_ok_iff E ss o2 R2).2 h2, p⟩

theorem conflict_order_irrelevant (E : ObjEq) (ss : Schemas) (o1 o2 : List String)
    (hp : o1.Perm o2) (h : consolidate E.beq ss o1 = .conflict) : consolidate E.beq ss o2 = .conflict := by
  cases h2 : consolidate E.beq ss o2 with
  | conflict => rfl
  | ok R2 =>
    obtain ⟨R1, h1, _⟩ := C07_consolidate_order_irrelevant E ss o2 o1 R2 hp.symm h2
    rw [h] at h1; cases h1

/-- Reordering inputs that define different packages changes nothing, package by package. -/
theorem C07_input_order_irrelevant (E : ObjEq) (ss ss' : Schemas) (hp : ss.Perm ss')
    (hd : (ss.map (·.pkg)).Nodup) (pkg : String) :
    consolidatePkg E.beq ss pkg = consolidatePkg E.beq ss' pkg := by
  have hperm : (groupOf ss pkg).Perm (groupOf ss' pkg) := hp.filter _
  have hlen : (groupOf ss pkg).length ≤ 1 := by
    clear hp hperm
    induction ss with
    | nil => simp [groupOf]
    | cons s t ih =>
      simp only [List.map_cons, List.nodup_cons] at hd
      simp only [groupOf, List.filter_cons]
      by_cases c : (s.pkg == pkg) = true
      · simp only [c, if_true, List.length_cons]
        have : t.filter (fun s => s.pkg == pkg) = [] := by
          rw [List.filter_eq_nil_iff]
          intro x hx cx
          have e1 : s.pkg = pkg := by simpa using c
          have e2 : x.pkg = pkg := by simpa using cx
          exact hd.1 (List.mem_map.2 ⟨x, hx, by rw [e2, e1]⟩)
        simp [this]
      · simp only [c]
        exact ih hd.2
  have heq : groupOf ss pkg = groupOf ss' pkg := by
    match hg : groupOf ss pkg, hg' : groupOf ss' pkg with
    | [], l' =>
      rw [hg, hg'] at hperm
      exact (List.Perm.nil_eq hperm)
    | [a], l' =>
      rw [hg, hg'] at hperm
      exact (List.perm_singleton.1 hperm.symm).symm
    | a :: b :: l, _ => rw [hg] at hlen; simp at hlen
  unfold consolidatePkg
  rw [heq]

/-- Adding an input of another package does not change what the other packages consolidate to. -/
theorem C07_unrelated_input (E : ObjEq) (ss : Schemas) (q : Schema) (pkg : String) (h : q.pkg ≠ pkg) :
    consolidatePkg E.beq (ss ++ [q]) pkg = consolidatePkg E.beq ss pkg := by
  have : groupOf (ss ++ [q]) pkg = groupOf ss pkg := by
    simp [groupOf, List.filter_append, h]
  unfold consolidatePkg
  rw [this]


/-! ### A pass that keeps per-run bookkeeping: RemoveIntersections (Java chain)

`objectsToRemove` / `arraysToFix` are Go maps keyed by bare object names.  Before the /repo fix
"RemoveIntersections bookkeeping leaked from one schema into the next" they were filled once per
`Process` call, so what one package contributed acted on every package processed afterwards
(`runLeaky`, witness below: found by the thorough tier of this check as a Java file that differed
when two inputs were swapped).  On the current tree the pass is schema-local, which gives the
three C07 clauses for it: order of inputs, unrelated inputs, nothing but the own package read. -/

namespace RI
open Cog.Passes.RemoveIntersections

/-- what the pass does to one schema, looking at nothing else -/
def localRun (s : Schema) : Outcome Schema :=
  match processSchema s {} with
  | .ok (s', _) => .ok s'
  | .err e => .err e
  | .panic p => .panic p

theorem runFrom_ok_iff : ∀ (ss : Schemas) (st : St) (R : Schemas),
    runFrom ss st = .ok R ↔ All2 (fun s s' => localRun s = .ok s') ss R
  | [], st, R => by
    simp only [runFrom, All2.nil_left]
    constructor
    · intro h; cases h; rfl
    · rintro rfl; rfl
  | s :: rest, st, R => by
    simp only [runFrom]
    cases hp : processSchema s {} with
    | ok r =>
      obtain ⟨s1, st1⟩ := r
      simp only
      cases hr : runFrom rest {} with
      | ok rest' =>
        simp only
        constructor
        · intro h
          cases h
          exact .cons (by simp [localRun, hp]) ((runFrom_ok_iff rest {} rest').1 hr)
        · intro h
          cases R with
          | nil => cases h
          | cons r0 R0 =>
            obtain ⟨h1, h2⟩ := All2.cons_cons.1 h
            have e1 : s1 = r0 := by simpa [localRun, hp] using h1
            have e2 := (runFrom_ok_iff rest {} R0).2 h2
            rw [hr] at e2
            cases e2
            rw [e1]
      | err e =>
        simp only
        constructor
        · intro h; cases h
        · intro h
          cases R with
          | nil => cases h
          | cons r0 R0 =>
            obtain ⟨_, h2⟩ := All2.cons_cons.1 h
            have e2 := (runFrom_ok_iff rest {} R0).2 h2
            rw [hr] at e2; cases e2
      | panic e =>
        simp only
        constructor
        · intro h; cases h
        · intro h
          cases R with
          | nil => cases h
          | cons r0 R0 =>
            obtain ⟨_, h2⟩ := All2.cons_cons.1 h
            have e2 := (runFrom_ok_iff rest {} R0).2 h2
            rw [hr] at e2; cases e2
    | err e =>
      simp only
      constructor
      · intro h; cases h
      · intro h
        cases R with
        | nil => cases h
        | cons r0 R0 =>
          obtain ⟨h1, _⟩ := All2.cons_cons.1 h
          simp [localRun, hp] at h1
    | panic e =>
      simp only
      constructor
      · intro h; cases h
      · intro h
        cases R with
        | nil => cases h
        | cons r0 R0 =>
          obtain ⟨h1, _⟩ := All2.cons_cons.1 h
          simp [localRun, hp] at h1

end RI

/-- The pass is schema-local on the current tree: every output schema is the image of the input
    schema at the same position under a function that looks at that schema alone. -/
theorem C07_removeIntersections_local (ss R : Schemas) :
    Cog.Passes.RemoveIntersections.run ss = .ok R ↔ All2 (fun s s' => RI.localRun s = .ok s') ss R :=
  RI.runFrom_ok_iff ss {} R

/-- Reordering the inputs only reorders the outputs. -/
theorem C07_removeIntersections_input_order (ss ss' R : Schemas) (hp : ss.Perm ss')
    (h : Cog.Passes.RemoveIntersections.run ss = .ok R) :
    ∃ R', Cog.Passes.RemoveIntersections.run ss' = .ok R' ∧ R.Perm R' := by
  obtain ⟨R', h2, p⟩ := all2_perm hp ((C07_removeIntersections_local ss R).1 h)
  exact ⟨R', (C07_removeIntersections_local ss' R').2 h2, p⟩

/-- An additional input changes nothing for the others: the images of the old inputs are the same
    schemas, whatever the new one contains. -/
theorem C07_removeIntersections_unrelated_input (ss R : Schemas) (q q' : Schema)
    (h : Cog.Passes.RemoveIntersections.run ss = .ok R) (hq : RI.localRun q = .ok q') :
    Cog.Passes.RemoveIntersections.run (q :: ss) = .ok (q' :: R) :=
  (C07_removeIntersections_local (q :: ss) (q' :: R)).2
    (.cons hq ((C07_removeIntersections_local ss R).1 h))

namespace RI
/-- package `a`: `AnyOf` is an alias of the struct `Int64OrString` -/
def wA : Schema := { pkg := "a", objects := [
  ("AnyOf", { name := "AnyOf", ty := .ref "a" "Int64OrString" {}, selfPkg := "a", selfName := "AnyOf" }),
  ("Int64OrString", { name := "Int64OrString", ty := .struct [] [] none {}, selfPkg := "a", selfName := "Int64OrString" })] }
/-- package `b`: a field refers to b's own `Int64OrString` -/
def wB : Schema := { pkg := "b", objects := [
  ("Holder", { name := "Holder", ty := .struct [{ name := "foo", ty := .ref "b" "Int64OrString" {}, required := false }] [] none {},
               selfPkg := "b", selfName := "Holder" }),
  ("Int64OrString", { name := "Int64OrString", ty := .struct [] [] none {}, selfPkg := "b", selfName := "Int64OrString" })] }

/-- names of the objects package `b` ends up with -/
def namesOfB : Outcome Schemas → List String
  | .ok R => (R.filter (fun s => s.pkg == "b")).flatMap (fun s => s.objects.map (·.1))
  | _ => ["<failed>"]
end RI

/-- Before the fix the result for package `b` depended on whether `a` came first: after `a`, b's
    own `Int64OrString` is removed (and its field re-pointed at `a.AnyOf`). -/
theorem C07_removeIntersections_leaky_order_dependent :
    RI.namesOfB (Cog.Passes.RemoveIntersections.runLeaky [RI.wB, RI.wA]) = ["Holder", "Int64OrString"] ∧
    RI.namesOfB (Cog.Passes.RemoveIntersections.runLeaky [RI.wA, RI.wB]) = ["Holder"] := by
  decide +kernel

/-- … and on the current tree it does not (instance of the theorems above; non-vacuity). -/
example :
    RI.namesOfB (Cog.Passes.RemoveIntersections.run [RI.wB, RI.wA]) = ["Holder", "Int64OrString"] ∧
    RI.namesOfB (Cog.Passes.RemoveIntersections.run [RI.wA, RI.wB]) = ["Holder", "Int64OrString"] := by
  decide +kernel

/-! ### The model IS the source: translated bodies of internal/ast/schema.go

`Cog.Gen.MergeSrc` holds the bodies of `Schemas.Consolidate`, `Schema.Merge`, `Schema.AddObject`,
`NewSchema`, `SchemaMeta.Equal` as translated from the current /repo on this run (extract/xmerge);
`Cog/Merge/Src.lean` is the interpreter of the mini-language.  For ALL inputs and every object
equality `beq` the translated bodies compute the hand-written model (`Cog/Merge/SrcEquiv.lean`).
Compared projection: success/receiver resp. success/result list, and "some non-nil error" against
the model's single `conflict` (the error text and the half-merged receiver after a failed `Merge`
are not part of the model; `Consolidate` discards them). -/

open Cog.Merge.Src Cog.Gen.MergeSrc in
/-- `schema.Merge(other)`: the translated body returns `nil` and leaves the model's merged schema in
    the receiver, or returns an error exactly when the model (package guard + `merge`) conflicts. -/
theorem C07_src_merge (beq : Obj → Obj → Bool) (s other : Schema) :
    mergeResult (call beq mergeBody mergeParams (.schema s) [.schema other]) =
      some (mergeChecked beq s other) :=
  src_merge beq s other

open Cog.Merge.Src Cog.Gen.MergeSrc in
/-- `schemas.Consolidate()`: the translated body leaves the input slice as it was and returns the
    model's `consolidate` for the package order of first appearance (`packages ss`). -/
theorem C07_src_consolidate (beq : Obj → Obj → Bool) (ss : Schemas) :
    (call beq consolidateBody consolidateParams (.schemas ss) []).map (·.1) = some (.schemas ss) ∧
    consolidateResult (call beq consolidateBody consolidateParams (.schemas ss) []) =
      some (consolidate beq ss (packages ss)) :=
  src_consolidate beq ss

open Cog.Merge.Src Cog.Gen.MergeSrc in
/-- The helpers the two bodies call are what the interpreter assumes them to be. -/
theorem C07_src_helpers (beq : Obj → Obj → Bool) :
    (∀ s o, call beq addObjectBody addObjectParams (.schema s) [.obj o] = some (.schema (addObject s o), [])) ∧
    (∀ p m, call beq newSchemaBody newSchemaParams .unit [.str p, .smeta m] =
      some (.unit, [.schema { pkg := p, smeta := m }])) ∧
    (∀ a b : SchemaMeta, call beq metaEqualBody metaEqualParams (.smeta a) [.smeta b] =
      some (.smeta a, [.b (decide (a = b))])) :=
  ⟨src_addObject beq, src_newSchema beq, src_metaEqual beq⟩

open Cog.Merge.Src Cog.Gen.MergeSrc in
/-- Summary: the theorems of this file about `merge` / `consolidate` are theorems about the current
    source text of schema.go — a successful translated `Consolidate` returns, per package, the union
    of the inputs' definitions (here instantiated with `C07_consolidate_union`). -/
theorem C07_source_refines_model (E : ObjEq) (ss R : Schemas)
    (hk : ∀ s ∈ ss, ∀ kv ∈ s.objects, kv.2.name = kv.1)
    (h : call E.beq consolidateBody consolidateParams (.schemas ss) [] = some (.schemas ss, [.schemas R, .nil])) :
    consolidate E.beq ss (packages ss) = .ok R ∧
    ∀ s ∈ ss, ∀ kv ∈ s.objects, ∃ r ∈ R, r.pkg = s.pkg ∧ HasDef r kv.1 kv.2 := by
  have h2 := (C07_src_consolidate E.beq ss).2
  rw [h] at h2
  have hc : consolidate E.beq ss (packages ss) = .ok R := by
    simp only [consolidateResult, Option.some.injEq] at h2; exact h2.symm
  refine ⟨hc, fun s hs kv hkv => ?_⟩
  exact C07_consolidate_union E ss (packages ss) R hk hc s hs
    ((Cog.Merge.Src.mem_packages ss s.pkg).2 ⟨s, hs, rfl⟩) kv hkv

namespace SrcWitness
open Cog.Merge.Src Cog.Gen.MergeSrc
def oA : Obj := { name := "A", ty := .struct [] [] none {}, selfPkg := "p", selfName := "A" }
def oB : Obj := { name := "B", ty := .struct [] [] none {}, selfPkg := "p", selfName := "B" }
def oA' : Obj := { name := "A", comments := ["x"], ty := .struct [] [] none {}, selfPkg := "p", selfName := "A" }
def s1 : Schema := { pkg := "p", objects := [("A", oA)] }
def s2 : Schema := { pkg := "p", entryPoint := "B", objects := [("B", oB)] }
def s3 : Schema := { pkg := "p", objects := [("A", oA')] }
def q1 : Schema := { pkg := "q", objects := [("A", oA)] }
/-- a concrete (unlawful but total) equality: by comment count; enough to run the bodies -/
def beqC (a b : Obj) : Bool := a.name == b.name && a.comments.length == b.comments.length
def names : Option (Src.Val × List Src.Val) → List (String × List String)
  | some (_, [.schemas R, .nil]) => R.map (fun s => (s.pkg, s.objects.map (·.1)))
  | some (_, [.nil, .err m]) => [("error", [m])]
  | _ => [("stuck", [])]
def mnames : Option (Src.Val × List Src.Val) → List String
  | some (.schema r, [.nil]) => r.entryPoint :: r.objects.map (·.1)
  | some (_, [.err _]) => ["error"]
  | _ => ["stuck"]
end SrcWitness

open Cog.Merge.Src Cog.Gen.MergeSrc SrcWitness in
/-- non-vacuity: the translated bodies RUN (kernel evaluation of the interpreter on the generated
    terms): a successful merge with the entry point taken over, a conflicting definition, the
    package guard; `Consolidate` groups by package in order of first appearance and fails on a conflict. -/
example :
    mnames (call beqC mergeBody mergeParams (.schema s1) [.schema s2]) = ["B", "A", "B"] ∧
    mnames (call beqC mergeBody mergeParams (.schema s1) [.schema s3]) = ["error"] ∧
    mnames (call beqC mergeBody mergeParams (.schema s1) [.schema q1]) = ["error"] ∧
    names (call beqC consolidateBody consolidateParams (.schemas [s1, q1, s2]) []) = [("p", ["A", "B"]), ("q", ["A"])] ∧
    names (call beqC consolidateBody consolidateParams (.schemas [q1, s1, s3]) []) = [("error", ["Merge"])] := by
  decide +kernel

end Cog.Merge
