/-
  Property C06 — each language's generators receive the normal form they assume.

  For every language L the FULL statement is
      C06_L_full : ∀ S S', wfIR S → chain L S = .ok S' → NF_L S'
  where `chain L` is `compiler.Passes.Process` over the pass list REGENERATED from
  internal/jennies/<L>/jennies.go into `Cog.Gen.Chains` (reordering / dropping / adding a pass there
  changes every statement below that mentions the chain, and the `decide` side goals that split it).

  The full statements are FALSE on the current tree: `C06_L_counterexample` theorems refute each of
  them on a 1–3 object witness evaluated by the kernel (the same witnesses are replayed on the real
  chains by checks/c06.py).  What is proved instead are `_partial` theorems under explicit decidable
  hypotheses on the input, assembled from per-pass lemmas `post_P` / `keeps_P` (lean/Cog/NF/*.lean).
-/
import Cog.NF.EnumNames
import Cog.NF.RemoveInter
import Cog.NF.Witness
import Cog.Gen.Chains
namespace Cog.C06
open Cog.IR Cog.Passes Cog.NF Cog.Gen.Chains

/-- `chain L` -/
def chain (ps : List PassId) (S : Schemas) : Outcome Schemas := runChain ps S

/-! ## the full statements -/

def C06_go_full : Prop := ∀ S S', wfIR S = true → chain goChain S = .ok S' → NF_go S' = true
def C06_java_full : Prop := ∀ S S', wfIR S = true → chain javaChain S = .ok S' → NF_java S' = true
def C06_php_full : Prop := ∀ S S', wfIR S = true → chain phpChain S = .ok S' → NF_php S' = true
def C06_python_full : Prop := ∀ S S', wfIR S = true → chain pythonChain S = .ok S' → NF_python S' = true
def C06_typescript_full : Prop := ∀ S S', wfIR S = true → chain typescriptChain S = .ok S' → NF_typescript S' = true

/-! ## counterexamples (kernel evaluation of the model on concrete witnesses) -/

/-- how a witness refutes a full statement: it is well-formed, the chain succeeds, and the stated
    conjunct of the normal form fails on the result -/
def refutes (ps : List PassId) (conj : Schemas → Bool) (W : Schemas) : Bool :=
  wfIR W && (match runChain ps W with | .ok S' => !conj S' | _ => false)

theorem refutes_sound {ps : List PassId} {nf conj : Schemas → Bool} {W : Schemas}
    (himp : ∀ S, nf S = true → conj S = true) (h : refutes ps conj W = true) :
    ¬ (∀ S S', wfIR S = true → chain ps S = .ok S' → nf S' = true) := by
  intro hall
  simp only [refutes, Bool.and_eq_true] at h
  obtain ⟨hw, hr⟩ := h
  cases hc : runChain ps W with
  | ok S' =>
    rw [hc] at hr
    have := himp S' (hall W S' hw hc)
    simp [this] at hr
  | err e => rw [hc] at hr; cases hr
  | panic e => rw [hc] at hr; cases hr

/-- Go: `A = string | [](int64 | bool)` leaves a union inside the generated struct -/
theorem C06_go_counterexample : ¬ C06_go_full :=
  refutes_sound (conj := NoUnion) (W := Witness.unionUnderUnionBranch)
    (by intro S h; simp [NF_go] at h; exact h.1.1.1.1.1) (by decide)

/-- Go: `A = map[string | int64]string` keeps the union in the map index -/
theorem C06_go_counterexample_mapIndex : refutes goChain NoUnion Witness.unionInMapIndex = true := by decide
/-- Go: `A = { f?: string | string }`: the field comes out not nullable -/
theorem C06_go_counterexample_nullable : refutes goChain NonRequiredNullable Witness.scalarUnionNullable = true := by decide
/-- Go: `A = allOf[ []{} | string ]`: an anonymous struct ends up outside the allOf -/
theorem C06_go_counterexample_struct : refutes goChain StructsNamedOutsideAllOf Witness.structOutOfAllOf = true := by decide

theorem C06_java_counterexample : ¬ C06_java_full :=
  refutes_sound (conj := NoUnion) (W := Witness.unionUnderUnionBranch)
    (by intro S h; simp [NF_java] at h; exact h.1.1.1.1) (by decide)
/-- Java: `S = {a}; Al = S; U = {s: S}`: RemoveIntersections rebuilds `U.s` non-required and non-nullable -/
theorem C06_java_counterexample_alias : refutes javaChain NonRequiredNullable Witness.javaAlias = true := by decide

/-- PHP: `T = string; U = {t?: T}`: inlining `T` drops the nullability of the reference -/
theorem C06_php_counterexample : ¬ C06_php_full :=
  refutes_sound (conj := NonRequiredNullable) (W := Witness.phpInline)
    (by intro S h; simp [NF_php] at h; exact h.1.1.2) (by decide)
/-- PHP: `U = { f: [](string | null) | bool }` keeps the `T | null` pair -/
theorem C06_php_counterexample_nullPair : refutes phpChain NoNullPairUnion Witness.nullPairUnderBranchField = true := by decide

/-- Python: `A = [](string | null) | bool` keeps the `T | null` pair below the branch -/
theorem C06_python_counterexample : ¬ C06_python_full :=
  refutes_sound (conj := NoNullPairUnion) (W := Witness.nullPairUnderBranch)
    (by intro S h; simp [NF_python] at h; exact h.1.2) (by decide)
/-- Python: FlattenDisjunctions turns `map | map | null` into a two-branch `map | null` -/
theorem C06_python_counterexample_flatten : refutes pythonChain NoNullPairUnion Witness.flattenNullPair = true := by decide
/-- Python: the member `"1"` of an anonymous enum is not renamed -/
theorem C06_python_counterexample_enum : refutes pythonChain EnumNames_num Witness.anonEnumNumeric = true := by decide

/-- TypeScript: the member `"1"` of an anonymous enum is not renamed -/
theorem C06_typescript_counterexample : ¬ C06_typescript_full :=
  refutes_sound (conj := EnumNames_num) (W := Witness.anonEnumNumeric)
    (by intro S h; simpa [NF_typescript] using h) (by decide)
/-- TypeScript: an all-digit name outside the int64 range is not renamed (`strconv.Atoi` fails) -/
theorem C06_typescript_counterexample_range : refutes typescriptChain EnumNames_num Witness.enumOutOfRange = true := by decide

/-! ## TypeScript -/

/-- TypeScript, partial: if every enum of the input is a named object and every all-digit member
    name fits an `int`, the chain output has no purely numeric member name. -/
theorem C06_typescript_partial (S S' : Schemas) (hn : EnumsNamed S = true) (hr : NumericNamesInRange S = true)
    (h : chain typescriptChain S = .ok S') : NF_typescript S' = true := by
  have hsplit : typescriptChain = [] ++ PassId.renameNumericEnumValues :: [] := by decide
  rw [chain, hsplit] at h
  exact runChain_establishes (H := fun S => EnumsNamed S = true ∧ NumericNamesInRange S = true)
    (Q := fun S => NF_typescript S = true) [] .renameNumericEnumValues []
    (by simp) (fun S S' hH h => post_RenameNumericEnumValues S S' hH.1 hH.2 h) (by simp) S S' ⟨hn, hr⟩ h

/-- non-vacuity: a schema with a numeric member satisfies the hypotheses and the chain succeeds -/
example : let S := Witness.schemas [Witness.obj "E" (.enum [{ name := "1", value := .int "i64" 1, kind := "int64" }] {})]
    EnumsNamed S = true ∧ NumericNamesInRange S = true ∧ (∃ S', chain typescriptChain S = .ok S') := by
  refine ⟨by decide, by decide, ?_⟩
  exact ⟨_, rfl⟩

/-! ## what single passes establish (pass-level post-conditions)

`FlatUnions S` (decidable): no union occurs below a branch of a union, nor in a map index type —
i.e. every union of `S` sits at a position the `OnDisjunction` hooks reach and has union-free branches.
This is the hypothesis that excludes the refuting witnesses above. -/

/-- DisjunctionToType turns EVERY union into a named struct (or a scalar) when the unions of its
    input are flat: none is left in the visited objects nor in the objects the pass registers. -/
theorem C06_post_DisjunctionToType (S S' : Schemas) (hf : FlatUnions S = true)
    (h : DisjunctionToType.run S = .ok S') : NoUnion S' = true :=
  post_DisjunctionToType S S' hf h

/-- DisjunctionWithNullToOptional removes every two-branch `T | null` union of a flat input that
    has no `null | null` union (`FlatUnionsN`; since /repo fix 30da046 that union is returned
    unchanged instead of panicking, see `C06_nullNull_kept`). -/
theorem C06_post_DisjunctionWithNullToOptional (S S' : Schemas) (hf : FlatUnionsN S = true)
    (h : DisjunctionWithNullToOptional.run S = .ok S') : NoNullPairUnion S' = true :=
  post_DisjunctionWithNullToOptional S S' hf h

/-- `A = null | null`: kept by the current pass (a two-branch union with a null branch remains),
    a panic before fix 30da046 -/
theorem C06_nullNull_kept :
    (match DisjunctionWithNullToOptional.run (Witness.schemas [Witness.obj "A" (Witness.union [Witness.null, Witness.null])]) with
      | .ok S' => !NoNullPairUnion S' | _ => false) = true ∧
    (match DisjunctionWithNullToOptional.runPreFix (Witness.schemas [Witness.obj "A" (Witness.union [Witness.null, Witness.null])]) with
      | .panic _ => true | _ => false) = true := by
  constructor <;> decide

/-- SanitizeEnumMemberNames: when every enum is a named object (what AnonymousEnumToExplicitType,
    which precedes it in the PHP chain, establishes) and no member name is empty, every member name
    is non-empty and does not start with a sign afterwards.  (Since /repo fix aceba4d an empty name
    is returned unchanged instead of panicking on `member.Name[0]`, hence `NonEmptyEnumNames`.) -/
theorem C06_post_SanitizeEnumMemberNames (S S' : Schemas) (hn : EnumsNamed S = true) (hne : NonEmptyEnumNames S = true)
    (h : SanitizeEnumMemberNames.run S = .ok S') : EnumNames_php S' = true :=
  post_SanitizeEnumMemberNames S S' hn hne h

/-- … and for EVERY input whose enums are named objects, no member name starts with a sign. -/
theorem C06_post_SanitizeEnumMemberNames_signFree (S S' : Schemas) (hn : EnumsNamed S = true)
    (h : SanitizeEnumMemberNames.run S = .ok S') : EnumNames_signFree S' = true :=
  post_SanitizeEnumMemberNames_signFree S S' hn h

/-- non-vacuity of `FlatUnions`: a schema with unions at a field, in an array and in a map value -/
example : let S := Witness.schemas [Witness.obj "A" (.struct [Witness.fld "f" (Witness.union [Witness.str, Witness.null]) false,
      Witness.fld "g" (.array (Witness.union [Witness.i64, Witness.bool]) {}) true,
      Witness.fld "h" (.map Witness.str (Witness.union [Witness.str, .ref "p" "A" {}]) {}) true] [] none {})]
    FlatUnions S = true ∧ NoUnion S = false ∧ (∃ S', DisjunctionToType.run S = .ok S') ∧
    (∃ S', DisjunctionWithNullToOptional.run S = .ok S') := by
  refine ⟨by decide, by decide, ⟨_, rfl⟩, ⟨_, rfl⟩⟩

/-! ## Go -/

/-- Go: every enum is a named object — for EVERY well-formed input.
    `AnonymousEnumToExplicitType` establishes it (it walks every position, map index included, and
    the objects it creates are enums at top level); the passes before it keep the entry point types
    leaves, the passes after it create no enum and move none below the top level. -/
theorem C06_go_EnumsNamed (S S' : Schemas) (hw : wfIR S = true)
    (h : chain goChain S = .ok S') : EnumsNamed S' = true := by
  rw [EnumsNamed_iff]
  exact chain_via (H := EptOkAll) (Q := AllTop qNoEnum) .anonymousEnumToExplicitType
    keepsEpt keepsShape goChain keepsEpt_sound
    (fun S S' hH hr => post_AnonymousEnumToExplicitType S S' hH hr)
    (keepsShape_sound qNoEnum qNoEnum_shape) (by decide) S S' (wfIR_EptOkAll hw) h

/-- Go: the member names of every enum object carry the object's name as prefix — for EVERY input.
    `PrefixEnumValues` establishes it; no later pass of the regenerated chain changes or creates an
    enum object. -/
theorem C06_go_EnumNames (S S' : Schemas) (h : chain goChain S = .ok S') : EnumNames_go S' = true := by
  rw [EnumNames_go_iff]
  exact chain_via (H := fun _ => True) (Q := GoEnumOk) .prefixEnumValues
    (fun _ => true) keepsGoEnum goChain (fun _ _ _ _ _ _ => trivial)
    (fun S S' _ hr => post_PrefixEnumValues S S' hr) keepsGoEnum_sound (by decide) S S' trivial h

/-- non-vacuity (Go, Java, PHP): a well-formed input with an anonymous enum whose members need
    prefixing / sanitising; every chain succeeds on it -/
example : let S := Witness.schemas [Witness.obj "A" (.struct [Witness.fld "e"
      (.enum [{ name := "-1", value := .int "i64" 1, kind := "int64" }, { name := "+x", value := .int "i64" 2, kind := "int64" }] {}) true] [] none {})]
    wfIR S = true ∧ EnumsNamed S = false ∧ EnumNames_php S = false ∧
    (match chain goChain S with | .ok _ => true | _ => false) = true ∧
    (match chain javaChain S with | .ok _ => true | _ => false) = true ∧
    (match chain phpChain.dropLast S with | .ok _ => true | _ => false) = true := by
  refine ⟨by decide, by decide, by decide, by decide +kernel, by decide +kernel, by decide +kernel⟩

/-! ## Java -/

/-- Java: every enum is a named object — for EVERY well-formed input (same argument as for Go; the
    last pass, RemoveIntersections, only moves field lists between objects). -/
theorem C06_java_EnumsNamed (S S' : Schemas) (hw : wfIR S = true)
    (h : chain javaChain S = .ok S') : EnumsNamed S' = true := by
  rw [EnumsNamed_iff]
  exact chain_via (H := EptOkAll) (Q := AllTop qNoEnum) .anonymousEnumToExplicitType
    keepsEpt keepsShapeJ javaChain keepsEpt_sound
    (fun S S' hH hr => post_AnonymousEnumToExplicitType S S' hH hr)
    (keepsShapeJ_sound qNoEnum qNoEnum_shape) (by decide) S S' (wfIR_EptOkAll hw) h

/-! ## PHP

The last pass of the PHP chain, InlineObjectsWithTypes, is modelled (with the store that reproduces
its declaration-order dependence) and tied by correspondence, but has no preservation lemma; the
full statement is refuted above (`C06_php_counterexample`: that very pass drops Nullable).  What is
proved is the normal form of the IR HANDED TO that pass. -/

/-- tests on member names are kept by the passes between SanitizeEnumMemberNames and the end -/
def keepsNames : PassId → Bool
  | .flattenDisjunctions => true
  | .disjunctionInferMapping => true
  | .undiscriminatedDisjunctionToAny => true
  | _ => false

theorem keepsNames_sound (p : String → Bool) (x : PassId) (h : keepsNames x = true) :
    Keeps (AllTop (qNames p)) x := by
  intro S S' hS hr
  cases x <;> simp [keepsNames] at h
  · exact keeps_FlattenDisjunctions (qNames p) (fun _ _ => rfl) S S' hS hr
  · exact keeps_DisjunctionInferMapping (qNames p) S S' hS hr
  · exact keeps_UndiscriminatedDisjunctionToAny (qNames p) (fun _ _ _ => rfl) S S' hS hr

theorem EnumNames_signFree_iff (S : Schemas) : EnumNames_signFree S = true ↔ AllTop (qNames signFree) S := by
  simp [EnumNames_signFree, schemasAll_eq_AllObj, AllTop, satTop_qNames, sat_qNames]

/-- PHP: in the IR handed to InlineObjectsWithTypes every enum is a named object and no enum member
    name starts with a sign — for EVERY well-formed input.  (Non-emptiness of the names is no longer
    guaranteed: since fix aceba4d an empty name, e.g. what AnonymousEnumToExplicitType makes of the
    member `-`, passes SanitizeEnumMemberNames unchanged instead of panicking.) -/
theorem C06_php_beforeInline (S S' : Schemas) (hw : wfIR S = true)
    (h : chain phpChain.dropLast S = .ok S') : EnumsNamed S' = true ∧ EnumNames_signFree S' = true := by
  have hsplit : phpChain.dropLast =
      (phpChain.dropLast.takeWhile (· != .sanitizeEnumMemberNames)) ++
      (phpChain.dropLast.dropWhile (· != .sanitizeEnumMemberNames)) := (List.takeWhile_append_dropWhile ..).symm
  rw [chain, hsplit] at h
  obtain ⟨S1, h1, h2⟩ := (runChain_append _ _ S S').1 h
  -- up to AnonymousEnumToExplicitType: EnumsNamed
  have hS1 : AllTop qNoEnum S1 :=
    chain_via (H := EptOkAll) (Q := AllTop qNoEnum) .anonymousEnumToExplicitType
      keepsEpt keepsShape _ keepsEpt_sound
      (fun S S' hH hr => post_AnonymousEnumToExplicitType S S' hH hr)
      (keepsShape_sound qNoEnum qNoEnum_shape) (by decide) S S1 (wfIR_EptOkAll hw) h1
  constructor
  · rw [EnumsNamed_iff]
    exact runChain_keeps _ (fun p hp => keepsShape_sound qNoEnum qNoEnum_shape p
      (by revert p; decide)) S1 S' hS1 h2
  · rw [EnumNames_signFree_iff]
    exact chain_via (H := AllTop qNoEnum) (Q := AllTop (qNames signFree)) .sanitizeEnumMemberNames
      (fun _ => false) keepsNames _ (by simp)
      (fun S S' hH hr => (EnumNames_signFree_iff S').1 (post_SanitizeEnumMemberNames_signFree S S' ((EnumsNamed_iff S).2 hH) hr))
      (keepsNames_sound signFree) (by decide) S1 S' hS1 h2

/-! ## Python -/

/-- Python: every struct outside an allOf composition is a named object — for EVERY well-formed
    input.  `AnonymousStructsToNamed` establishes it (structural induction over the type tree,
    including the objects it creates) and each later pass of the regenerated chain keeps it. -/
theorem C06_python_StructsNamedOutsideAllOf (S S' : Schemas) (hw : wfIR S = true)
    (h : chain pythonChain S = .ok S') : StructsNamedOutsideAllOf S' = true := by
  rw [StructsNamed_iff]
  exact chain_via (H := fun S => wfIR S = true) (Q := AllTop qNoStruct) .anonymousStructsToNamed
    (fun _ => false) keepsPlain pythonChain (by simp)
    (fun S S' hH hr => post_AnonymousStructsToNamed S S' hH hr)
    (keepsPlain_sound qNoStruct qNoStruct_plain) (by decide) S S' hw h

/-- Python: every non-required field is nullable, provided the map index types of the input are
    scalars or references (the visitor does not walk map index types).
    `NotRequiredFieldAsNullableType` establishes it, every later pass keeps it. -/
theorem C06_python_NonRequiredNullable_partial (S S' : Schemas) (hi : SimpleIndex S = true)
    (h : chain pythonChain S = .ok S') : NonRequiredNullable S' = true := by
  rw [NonRequiredNullable_iff]
  exact chain_via (H := AllTop qIdx) (Q := AllTop qNrn) .notRequiredFieldAsNullableType
    (fun p => p == .anonymousStructsToNamed) keepsPlain pythonChain
    (fun p hp S S' hS hr => by
      have : p = .anonymousStructsToNamed := by simpa using hp
      subst this; exact keeps_AnonymousStructsToNamed_idx S S' hS hr)
    (fun S S' hH hr => post_NotRequiredFieldAsNullableType S S' hH hr)
    (keepsPlain_sound qNrn qNrn_plain) (by decide) S S' ((SimpleIndex_iff S).1 hi) h

/-- non-vacuity: an input with a non-required, non-nullable field and an anonymous struct -/
example : let S := Witness.schemas [Witness.obj "A" (.struct [Witness.fld "f" (.array (.struct [Witness.fld "g" Witness.str false] [] none {}) {}) false] [] none {})]
    wfIR S = true ∧ SimpleIndex S = true ∧ NonRequiredNullable S = false ∧ StructsNamedOutsideAllOf S = false ∧
    (∃ S', chain pythonChain S = .ok S') := by
  refine ⟨by decide, by decide, by decide, by decide, ?_⟩
  exact ⟨_, rfl⟩

end Cog.C06
