/-
  C14 — Go converters invert builders.

  Property theorems only.  Models: lean/Cog/Sem/Converter.lean (`mkConverter` = the
  ConverterGenerator, `runConverter` = the printed Go function executed, result = abstract call
  list), lean/Cog/Sem/GoBuilder.lean (`replay` = C09's builder semantics).  Only the spelling of
  values as Go text is outside the model (the lab parses it back and compiles it).

  Reading guide:  `convert c b v` is the call list the generated `<B>Converter(v)` prints;
  `runConvMap` is one conversion mapping (guards, optional `for … range`, option calls);
  `applyOption` (C09) is what compiling and running one printed call does to the builder.
-/
import Cog.Sem.ConverterLemmas
import Cog.Props.C09
namespace Cog.Sem.Conv
open Cog.IR Cog.Builder Cog.Sem.GB

/-! ## once: every option and constructor argument at most / exactly once -/

/-- **C14, once.**  For every builder whose assignments are all direct (no append / index option:
    those repeat by design, once per element), every context and every value: the option calls the
    converter prints are named by a SUBSEQUENCE of the builder's options — each option at most once,
    in declaration order — and the constructor receives exactly one argument per constructor
    assignment that takes one. -/
theorem C14_once (c : Ctx) (b : Builder) (v : GoVal) (ctor : List Arg) (calls : List Call)
    (hdirect : AllDirect b.options) (h : convert c b v = .ok (ctor, calls)) :
    (calls.map Call.opt).Sublist (b.options.map (·.name)) ∧
    ctor.length = (b.constructor.assignments.filter fun a => (argOfValue a.value).isSome).length := by
  unfold convert at h
  rw [runConverter_succ] at h
  obtain ⟨ctor', hc, h2⟩ := BRes.bind_eq_ok.mp h
  obtain ⟨calls', hm, h3⟩ := BRes.map_eq_ok.mp h2
  simp at h3
  obtain ⟨rfl, rfl⟩ := h3
  constructor
  · -- the mappings
    have hrel := convertOptions_direct (c := c) (b := b) (os := b.options) (st := {}) hdirect
    have hmap : (mkConverter c b).mappings =
        (convertOptions c b b.options {}).1.filter fun m => !m.options.isEmpty := by
      unfold mkConverter
      simp only
      have : (convertOptions c b b.options {}).2.disjLists = [] := hrel.2
      simp [this, sortDisj, convertDisjLists]
    rw [hmap] at hm
    exact runConvMaps_sublist hrel.1 hm
  · -- the constructor arguments
    have hlen : ∀ (f : Nat) (l : List (Builder.Path × Ty)) (as : List Arg),
        runCtorArgs c f [("input", v)] l = .ok as → as.length = l.length := by
      intro f
      induction f with
      | zero => intro l as h; simp [runCtorArgs] at h
      | succ f ih =>
        intro l as h
        cases l with
        | nil => rw [runCtorArgs_nil] at h; simp at h; subst h; rfl
        | cons pt rest =>
          obtain ⟨p, t⟩ := pt
          rw [runCtorArgs_cons] at h
          obtain ⟨a, _, h3⟩ := BRes.bind_eq_ok.mp h
          obtain ⟨as', h4, rfl⟩ := BRes.map_eq_ok.mp h3
          simp [ih rest as' h4]
    rw [hlen 63 _ _ hc]
    unfold mkConverter
    simp only
    induction b.constructor.assignments with
    | nil => rfl
    | cons a rest ih =>
      simp only [List.filterMap_cons, List.filter_cons]
      cases argOfValue a.value <;> simp [ih]

/-- one non-repeating mapping prints at most one call, with one argument per argument mapping -/
theorem C14_once_mapping (c : Ctx) (f : Nat) (env : VEnv) (m : ConvMap) (om : OptMap) (calls : List Call)
    (hrep : m.repeatFor = none) (hopt : m.options = [om]) (h : runConvMap c (f + 3) env m = .ok calls) :
    calls = [] ∨ ∃ as, calls = [Call.mk om.opt.name as] ∧ as.length = om.args.length := by
  rw [runConvMap_norepeat c (f + 2) env m hrep, hopt] at h
  obtain ⟨ok, _, h4⟩ := BRes.bind_eq_ok.mp h
  split at h4
  · simp at h4; exact .inl h4
  · rw [runOptMaps_cons] at h4
    obtain ⟨c1, h5, h6⟩ := BRes.bind_eq_ok.mp h4
    obtain ⟨c2, h7, rfl⟩ := BRes.map_eq_ok.mp h6
    rw [runOptMaps_nil] at h7
    simp at h7; subst h7
    rcases runOptMap_names h5 with rfl | ⟨as, rfl, hl⟩
    · exact .inl rfl
    · exact .inr ⟨as, by simp, hl⟩

/-! ## inverse: replaying the printed call restores the value -/

/-- pointer round trip: the converter dereferences (`*input.X`), the builder takes the address
    again (`&x`) -/
theorem maybePtr_deref {t : Ty} {vm x : GoVal} (h : deref t vm = .ok x) : maybePtr t x = vm := by
  unfold deref at h
  unfold maybePtr
  split at h
  · rename_i hp
    cases vm <;> simp at h
    subst h
    simp [hp]
  · rename_i hp
    simp at h
    subst h
    simp [hp]

/-- **C14, inverse (one mapping).**  The mapping the generator derives for an option that assigns
    its argument directly to the member `mem` (the shape of every option `FromAST` derives; the
    member is neither `any` nor a struct printed by `cog.Dump` nor a nested builder) reads the
    member of the input value, and:
      * when the mapping's guards hold, exactly one call `Option(x)` is printed, and replaying it on
        ANY builder state stores the input's member at `mem` — the rebuilt object EQUALS the value
        there — and leaves every other member alone;
      * when a guard fails, nothing is printed: the member keeps what the builder had (its default).
    So `replay (convert v)` can differ from `v` only at members whose guard rejected the value. -/
theorem C14_inverse_partial (c : Ctx) (b : Builder) (o : Opt) (a : Assignment) (it : PathItem) (mem : String)
    (cell : ArgCell) (p : Argument) (guards : List Guard) (f : Nat)
    (hd : IsDirectOption o a it mem) (hval : a.value = .arg cell) (hargs : o.args = [p]) (hname : cell.arg.name = p.name)
    (hany : isAnyTy' it.ty = false) (hns : isStructRef c it.ty = false)
    (v vm : GoVal) (hvo : IsObject v) (hv : topGet mem v = some vm) (calls : List Call)
    (hrun : runConvMap c (f + 5) [("input", v)]
      { options := [{ opt := o, guards := guards, args := [.direct (inputRoot b ++ [it]) it.ty] }] } = .ok calls) :
    (evalGuards [("input", v)] guards = .ok false ∧ calls = []) ∨
    (evalGuards [("input", v)] guards = .ok true ∧ ∃ x, deref it.ty vm = .ok x ∧ calls = [Call.mk o.name [.val x]] ∧
      ∀ (st st' : BState) (vals : Fields), st.internal = .struct vals → applyOption c o [.val x] st = .ok st' →
        topGet mem st'.internal = some vm ∧ ∀ n, n ≠ mem → topGet n st'.internal = topGet n st.internal) := by
  obtain ⟨hasg, hpath, hmeth, hnc, hid, hne, hix, hroot⟩ := hd
  rw [runConvMap_norepeat c (f + 4) _ _ rfl] at hrun
  simp only at hrun
  obtain ⟨ok, hg, h4⟩ := BRes.bind_eq_ok.mp hrun
  cases ok with
  | false => simp at h4; exact .inl ⟨hg, h4⟩
  | true =>
    refine .inr ⟨hg, ?_⟩
    simp only [Bool.not_true, Bool.false_eq_true, if_false] at h4
    rw [runOptMaps_cons] at h4
    obtain ⟨c1, h5, h6⟩ := BRes.bind_eq_ok.mp h4
    obtain ⟨c2, h7, rfl⟩ := BRes.map_eq_ok.mp h6
    rw [runOptMaps_nil] at h7
    simp at h7; subst h7
    rw [runOptMap_succ] at h5
    simp only [evalGuards, BRes.bind, Bool.not_true, Bool.false_eq_true, if_false] at h5
    obtain ⟨as, has, rfl⟩ := BRes.map_eq_ok.mp h5
    -- the single argument
    have e1 : runArgs c (f + 2) [("input", v)] [ArgMap.direct (inputRoot b ++ [it]) it.ty] =
        (runArg c (f + 1) [("input", v)] (.direct (inputRoot b ++ [it]) it.ty)).bind fun a =>
          (runArgs c (f + 1) [("input", v)] []).map (a :: ·) := rfl
    rw [e1] at has
    obtain ⟨a1, ha1, h8⟩ := BRes.bind_eq_ok.mp has
    obtain ⟨r2, h9, rfl⟩ := BRes.map_eq_ok.mp h8
    have hr2 : r2 = [] := by
      have : runArgs c (f + 1) [("input", v)] [] = .ok [] := rfl
      rw [this] at h9; simp at h9; exact h9
    subst hr2
    -- reading the member of the input
    have hpathv : evalPath [("input", v)] (inputRoot b ++ [it]) = .ok vm := by
      have hstep : getStep (.fld mem) v = .ok vm := by
        rcases hvo with ⟨fs, rfl⟩ | ⟨bs, rfl⟩
        · simp only [topGet] at hv; simp [getStep, hv]
        · simp only [topGet] at hv; simp [getStep, hv]
      simp [evalPath, inputRoot, rootItem, VEnv.find, evalFields, hid, hne, hix, hstep, BRes.bind]
    have e2 : runArg c (f + 1) [("input", v)] (.direct (inputRoot b ++ [it]) it.ty) =
        (evalPath [("input", v)] (inputRoot b ++ [it])).bind fun v0 =>
          if isAnyTy' it.ty then .ok (.val v0)
          else if isStructRef c it.ty then .unsup "struct value printed by cog.Dump"
          else (deref it.ty v0).map .val := rfl
    rw [e2, hpathv] at ha1
    simp only [BRes.bind, hany, hns, Bool.false_eq_true, if_false] at ha1
    obtain ⟨x, hx, rfl⟩ := BRes.map_eq_ok.mp ha1
    exact ⟨x, hx, by simp, by
      intro st st' vals hint hap
      have hb : ArgsBuilt [RArg.val x] := by intro r hr; simp at hr; exact ⟨x, hr⟩
      obtain ⟨y, vals', hy, hint', hupd, _⟩ :=
        directOption_step c o a it mem ⟨hasg, hpath, hmeth, hnc, hid, hne, hix, hroot⟩ [.val x] hb st st' vals hint hap
      have hy' : y = maybePtr it.ty x := by
        rw [hval] at hy
        have := C09_direct_argument_value c (bindArgs o.args [RArg.val x]) cell x it.ty
          (by simp [bindArgs, hargs, Env.find, hname])
        rw [this] at hy
        simp at hy
        exact hy.symm
      obtain ⟨old, z, _, hz, hget⟩ := getFld_updFld_same hupd
      simp at hz; subst hz
      refine ⟨?_, fun n hn => ?_⟩
      · rw [hint']; simp only [topGet]; rw [hget, hy', maybePtr_deref hx]
      · rw [hint', hint]; simp only [topGet]; exact getFld_updFld_ne hn hupd⟩

/-! ## the full statement, and why it is false on the current tree -/

/-- the property at full strength on the abstract level: converting never panics, and replaying
    the printed calls rebuilds the value -/
def C14_full : Prop :=
  ∀ (c : Ctx) (b : Builder) (v : GoVal), IsObject v →
    (∀ w, convert c b v ≠ .panic w) ∧
    ∀ r st, convert c b v = .ok r → replay c b r = .ok st → st.internal = v

private def obj (name : String) (t : Ty) : String × Obj :=
  (name, { name := name, ty := t, selfPkg := "p", selfName := name })

private def fld (name : String) (t : Ty) (req : Bool := true) : Field := { name := name, ty := t, required := req }

private def fieldOption (name : String) (t : Ty) : Opt :=
  { name := name, args := [{ name := name, ty := t }],
    assignments := [{ path := [{ identifier := name, ty := t }], value := .arg ⟨0, { name := name, ty := t }⟩ }] }

/-- `Root { title: string (default "x") }` -/
def wTitleTy : Ty := .scalar "string" .nil [] { dflt := .str "x" }
def wTitleSS : Schemas := [{ pkg := "p", objects := [obj "Root" (.struct [fld "title" wTitleTy] [] none {})] }]
def wTitleB : Builder :=
  { for_ := { name := "Root", ty := .struct [fld "title" wTitleTy] [] none {}, selfPkg := "p", selfName := "Root" },
    pkg := "p", name := "Root", options := [fieldOption "title" wTitleTy] }
def wTitleCtx : Ctx := { ss := wTitleSS, bs := [wTitleB], dflt := [(("p", "Root"), .struct [("title", false, .str "x")])] }
def wTitleV : GoVal := .struct [("title", false, .str "")]

/-- the empty-string guard rejects "" … -/
theorem wTitle_convert : convert wTitleCtx wTitleB wTitleV = .ok ([], []) := by rfl
/-- … and the rebuilt object holds the default "x" -/
theorem wTitle_replay : replay wTitleCtx wTitleB ([], []) = .ok { internal := .struct [("title", false, .str "x")] } := by rfl

/-- **counterexample 1**: the `!= ""` guard (like the `len(x) >= 1`, `!= nil` and `!= default`
    guards) drops a value that differs from a non-empty default: `title = ""` with default "x" is
    rebuilt as "x" -/
theorem C14_counterexample_guard_drops_value : ¬ C14_full := by
  intro h
  have h1 := (h wTitleCtx wTitleB wTitleV (.inl ⟨_, rfl⟩)).2 _ _ wTitle_convert wTitle_replay
  simp [wTitleV] at h1

/-- `Root { link?: int64 }` with `link` promoted to a constructor argument -/
def wCtorTy : Ty := .scalar "int64" .nil [] { nullable := true }
def wCtorSS : Schemas := [{ pkg := "p", objects := [obj "Root" (.struct [fld "link" wCtorTy false] [] none {})] }]
def wCtorB : Builder :=
  { for_ := { name := "Root", ty := .struct [fld "link" wCtorTy false] [] none {}, selfPkg := "p", selfName := "Root" },
    pkg := "p", name := "Root",
    constructor := { args := [{ name := "link", ty := wCtorTy }],
                     assignments := [{ path := [{ identifier := "link", ty := wCtorTy }], value := .arg ⟨0, { name := "link", ty := wCtorTy }⟩ }] } }
def wCtorCtx : Ctx := { ss := wCtorSS, bs := [wCtorB], dflt := [(("p", "Root"), .struct [("link", true, .nil)])] }

/-- **counterexample 2**: constructor arguments are printed without any guard
    (`fmt.Sprintf("%#v", *input.Link)`): a nil optional member panics the converter -/
theorem C14_counterexample_constructor_argument_panics : ¬ C14_full := by
  intro h
  exact (h wCtorCtx wCtorB (.struct [("link", true, .nil)]) (.inl ⟨_, rfl⟩)).1 "nil pointer dereference" (by rfl)

/-! ## non-vacuity -/

/-- a value the guards accept is rebuilt exactly -/
example : convert wTitleCtx wTitleB (.struct [("title", false, .str "ab")]) =
    .ok ([], [Call.mk "title" [.val (.str "ab")]]) := by rfl
example : applyOption wTitleCtx (fieldOption "title" wTitleTy) [.val (.str "ab")] { internal := .struct [("title", false, .str "x")] } =
    .ok { internal := .struct [("title", false, .str "ab")] } := by rfl
example : AllDirect wTitleB.options := by
  intro o ho a ha
  simp [wTitleB, fieldOption] at ho
  subst ho
  simp at ha
  subst ha
  rfl

end Cog.Sem.Conv
