/-
  C19 — the insertion-ordered map behaves like a map with first-insertion order.

  Property theorems only; helper lemmas live in Cog/OMap/{Lemmas,Refine}.lean.
  Model: Cog/OMap/Model.lean (literal transcription of internal/orderedmap/map.go).
  Spec : Cog/OMap/Spec.lean  (association list, oldest key first).
-/
import Cog.OMap.Refine
set_option linter.unusedSectionVars false
namespace Cog.OMap

variable {K V : Type} [DecidableEq K] [Inhabited V]

/-- One-step refinement: from a state satisfying the invariant, every operation of the
    model produces the reference map's next state and the reference map's observation,
    and re-establishes the invariant. -/
theorem C19_step_refines (m : OMap K V) (h : Inv m) (op : Op K V) :
    Inv (m.step op).1 ∧
    abs (m.step op).1 = (Ref.step (abs m) op).1 ∧
    (m.step op).2 = (Ref.step (abs m) op).2 := by
  cases op with
  | set k v => exact ⟨inv_set m h k v, abs_set m h k v, rfl⟩
  | get k => exact ⟨h, rfl, by simp [OMap.step, Ref.step, get_refines m h]⟩
  | has k => exact ⟨h, rfl, by simp [OMap.step, Ref.step, has_refines m h]⟩
  | remove k => exact ⟨inv_remove m h k, abs_remove m k, rfl⟩
  | len => exact ⟨h, rfl, by simp [OMap.step, Ref.step, len_refines m]⟩
  | iterate => exact ⟨h, rfl, rfl⟩
  | values => exact ⟨h, rfl, by simp [OMap.step, Ref.step, values_refines m]⟩
  | «at» i =>
    refine ⟨h, rfl, ?_⟩
    simp only [OMap.step, Ref.step, at_refines m i]
    cases (abs m)[i]? <;> rfl
  | mapVals f => exact ⟨inv_mapVals m f, abs_mapVals m h f, rfl⟩
  | filter p => exact ⟨inv_filter m p, abs_filter m h p, rfl⟩
  | sort less => exact ⟨inv_sort m h less, abs_sort m less, rfl⟩
  | marshal => exact ⟨h, rfl, rfl⟩
  | unmarshal doc => exact ⟨inv_unmarshal m h doc, abs_unmarshal m h doc, rfl⟩

/-- Every finite operation sequence, from any state satisfying the invariant: same
    observations as the reference map, final states related, invariant kept. -/
theorem C19_run_refines (ops : List (Op K V)) (m : OMap K V) (h : Inv m) :
    Inv (m.run ops).1 ∧
    abs (m.run ops).1 = (Ref.run (abs m) ops).1 ∧
    (m.run ops).2 = (Ref.run (abs m) ops).2 := by
  induction ops generalizing m with
  | nil => exact ⟨h, rfl, rfl⟩
  | cons op ops ih =>
    obtain ⟨h1, h2, h3⟩ := C19_step_refines m h op
    obtain ⟨i1, i2, i3⟩ := ih (m.step op).1 h1
    simp only [OMap.run, Ref.run]
    rw [← h2, ← h3]
    exact ⟨i1, i2, by rw [i3]⟩

/-- The statement for every reachable state: start from `New()`. -/
theorem C19_reachable (ops : List (Op K V)) :
    Inv ((OMap.empty : OMap K V).run ops).1 ∧
    ((OMap.empty : OMap K V).run ops).2 = (Ref.run ([] : Ref K V) ops).2 := by
  have := C19_run_refines ops (OMap.empty : OMap K V) inv_empty
  exact ⟨this.1, by simpa using this.2.2⟩

/-! ### the bullet points of the property, stated on the reference map
    (they transfer to the implementation model through `C19_run_refines`) -/

/-- iteration follows first insertion: a new key goes last, an existing key keeps its
    position (the key sequence is unchanged by an overwrite). -/
theorem C19_set_keys (r : Ref K V) (k : K) (v : V) :
    Ref.keys (Ref.set r k v) = if k ∈ Ref.keys r then Ref.keys r else Ref.keys r ++ [k] := by
  induction r with
  | nil => simp [Ref.set, rset, Ref.keys]
  | cons e t ih =>
    obtain ⟨a, b⟩ := e
    by_cases h : a = k
    · subst h; simp [Ref.set, rset, Ref.keys]
    · have h' : ¬ k = a := fun c => h c.symm
      simp only [Ref.set, Ref.keys] at ih
      simp only [Ref.set, rset, h, if_false, Ref.keys, List.map_cons, List.mem_cons, h', false_or, ih]
      split <;> simp_all

/-- after `set k v`, `get k` is `v` and every other key is unaffected -/
theorem C19_get_set (r : Ref K V) (k k' : K) (v : V) :
    Ref.get (Ref.set r k v) k' = if k = k' then v else Ref.get r k' := by
  simp only [Ref.get, Ref.set, rget_rset]; split <;> simp

/-- removal preserves the relative order of the remaining keys -/
theorem C19_remove_keys (r : Ref K V) (k : K) :
    Ref.keys (Ref.remove r k) = (Ref.keys r).filter (fun e => !decide (e = k)) := by
  simp [Ref.keys, Ref.remove, List.filter_map, Function.comp_def]

theorem C19_remove_sublist (r : Ref K V) (k : K) : List.Sublist (Ref.remove r k) r :=
  List.filter_sublist

/-- length equals the number of live keys: under the invariant the order slice has no
    duplicates and contains exactly the keys for which `Has` is true. -/
theorem C19_len_live (m : OMap K V) (h : Inv m) (live : List K) (nd : live.Nodup)
    (hl : ∀ k, k ∈ live ↔ m.has k = true) : m.len = live.length := by
  have : List.Perm m.order live := by
    rw [List.perm_ext_iff_of_nodup h.1 nd]
    intro k; rw [hl k]; exact h.2 k
  exact this.length_eq

/-- Filter keeps a sublist, in order, with unchanged values -/
theorem C19_filter_sublist (r : Ref K V) (p : K → V → Bool) : List.Sublist (Ref.filter r p) r :=
  List.filter_sublist

/-- Map keeps the same keys in the same order -/
theorem C19_map_keys (r : Ref K V) (f : K → V → V) : Ref.keys (Ref.mapVals r f) = Ref.keys r := by
  simp [Ref.keys, Ref.mapVals, List.map_map, Function.comp_def]

/-- Sort is a permutation, for every `less` whatsoever -/
theorem C19_sort_perm (r : Ref K V) (less : K → K → Bool) : List.Perm (Ref.sort r less) r :=
  List.mergeSort_perm _ _

/-- Sort sorts, for `less` a strict weak order (stated on its negation `le`) -/
theorem C19_sort_sorted (r : Ref K V) (less : K → K → Bool)
    (trans : ∀ a b c : K, !less b a → !less c b → !less c a)
    (total : ∀ a b : K, !less b a || !less a b) :
    (Ref.sort r less).Pairwise (fun a b => !less b.1 a.1) :=
  List.pairwise_mergeSort (fun a b c => trans a.1 b.1 c.1) (fun a b => total a.1 b.1) r

/-- Sort is stable: a sublist that was already in order stays a sublist -/
theorem C19_sort_stable (r c : Ref K V) (less : K → K → Bool)
    (trans : ∀ a b c : K, !less b a → !less c b → !less c a)
    (total : ∀ a b : K, !less b a || !less a b)
    (hc : c.Pairwise (fun a b => !less b.1 a.1)) (hs : List.Sublist c r) :
    List.Sublist c (Ref.sort r less) :=
  List.sublist_mergeSort (fun a b c => trans a.1 b.1 c.1) (fun a b => total a.1 b.1) hc hs

/-- decode(encode m) into a fresh map gives back the same contents in the same order -/
theorem C19_unmarshal_marshal (m : OMap K V) (h : Inv m) :
    abs ((OMap.empty : OMap K V).unmarshal m.marshal) = abs m := by
  rw [abs_unmarshal _ inv_empty, abs_empty]
  show Ref.unmarshal [] (abs m) = abs m
  unfold Ref.unmarshal
  have key : ∀ (l : List K) (nd : l.Nodup) (g : K → V) (r : Ref K V)
      (hd : ∀ x ∈ l, x ∉ Ref.keys r),
      (l.map (fun k => (k, g k))).foldl (fun acc kv => Ref.set acc kv.1 kv.2) r
        = r ++ l.map (fun k => (k, g k)) := by
    intro l nd g r hd
    have := fold_ref_setOpt_fresh (fun k => some (k, g k)) (by intro x kv e; cases e; rfl) l nd r hd
    simp only [Ref.setOpt] at this
    rw [List.foldl_map]
    simpa using this
  have := key m.order h.1 m.get [] (by simp [Ref.keys])
  simpa [abs] using this

/-- decoding into an existing map: keys already present keep their position -/
theorem C19_unmarshal_existing_keys (r : Ref K V) (k : K) (v : V) (hk : k ∈ Ref.keys r) :
    Ref.keys (Ref.unmarshal r [(k, v)]) = Ref.keys r := by
  simp [Ref.unmarshal, C19_set_keys, hk]

/-- no operation of the property's list panics (full statement). `At` is not among the
    listed operations; it panics exactly when the index is out of range. -/
theorem C19_no_panic (m : OMap K V) (op : Op K V) (hop : ∀ i, op ≠ Op.at i) :
    ∀ (_ : Inv m), (m.step op).2 ≠ Obs.panic := by
  intro _
  cases op <;> simp [OMap.step]
  · rename_i i; exact absurd rfl (hop i)

theorem C19_at_panics_iff (m : OMap K V) (i : Nat) :
    (m.step (Op.at i)).2 = Obs.panic ↔ m.len ≤ i := by
  simp only [OMap.step, OMap.at?, OMap.len]
  cases h : m.order[i]? with
  | none => simp; exact List.getElem?_eq_none_iff.1 h
  | some k =>
    simp
    have := List.getElem?_eq_some_iff.1 h
    obtain ⟨hi, _⟩ := this
    exact hi

/-- The defect repaired by the `fix:` commit, kept as a checked witness: with the former
    capacity expression, `Remove` on an empty map panicked. -/
theorem C19_prefix_remove_panicked (k : K) :
    (OMap.empty : OMap K V).removePreFix k = none := rfl

/-! non-vacuity: a concrete reachable state satisfies the invariant and is non-trivial -/
example : Inv ((OMap.empty : OMap String Nat).run
    [.set "b" 1, .set "a" 2, .set "b" 3, .remove "c", .sort (fun x y => x < y)]).1 :=
  (C19_reachable (K := String) (V := Nat) _).1

example : abs ((OMap.empty : OMap String Nat).run
    [.set "b" 1, .set "a" 2, .set "b" 3, .remove "c"]).1 = [("b", 3), ("a", 2)] := by decide

end Cog.OMap
