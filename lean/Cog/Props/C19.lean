/-
  C19 — the insertion-ordered map behaves like a map with first-insertion order.

  Property theorems only; helper lemmas live in Cog/OMap/{Lemmas,Refine}.lean.
  Model: Cog/OMap/Model.lean (literal transcription of internal/orderedmap/map.go); the method bodies of
         map.go, TRANSLATED on every run into Cog.Gen.OMapSrc, are proved equal to it (`C19_src_*`).
  Spec : Cog/OMap/Spec.lean  (association list, oldest key first).
-/
import Cog.OMap.Refine
import Cog.OMap.SrcEquiv
set_option linter.unusedSectionVars false
namespace Cog.OMap

variable {K V : Type} [DecidableEq K] [Inhabited V]

/-- One-step refinement: from a state satisfying the invariant, every operation of the
    model produces the reference map's next state and the reference map's observation,
    and re-establishes the invariant. -/
theorem C19_step_refines (m : OMap K V) (h : Inv m) (op : Op K V) :
    Inv (m.step op).1 ∧
    abs (m.step op).1 = (Ref.step (abs m) op).1 ∧
    (m.step op).2 = (Ref.step (abs m) op).2 := by
  cases op with
  | set k v => exact ⟨inv_set m h k v, abs_set m h k v, rfl⟩
  | get k => exact ⟨h, rfl, by simp [OMap.step, Ref.step, get_refines m h]⟩
  | has k => exact ⟨h, rfl, by simp [OMap.step, Ref.step, has_refines m h]⟩
  | remove k => exact ⟨inv_remove m h k, abs_remove m k, rfl⟩
  | len => exact ⟨h, rfl, by simp [OMap.step, Ref.step, len_refines m]⟩
  | iterate => exact ⟨h, rfl, rfl⟩
  | values => exact ⟨h, rfl, by simp [OMap.step, Ref.step, values_refines m]⟩
  | «at» i =>
    refine ⟨h, rfl, ?_⟩
    simp only [OMap.step, Ref.step, at_refines m i]
    cases (abs m)[i]? <;> rfl
  | mapVals f => exact ⟨inv_mapVals m f, abs_mapVals m h f, rfl⟩
  | filter p => exact ⟨inv_filter m p, abs_filter m h p, rfl⟩
  | sort less => exact ⟨inv_sort m h less, abs_sort m less, rfl⟩
  | marshal => exact ⟨h, rfl, rfl⟩
  | unmarshal doc => exact ⟨inv_unmarshal m h doc, abs_unmarshal m h doc, rfl⟩

/-- Every finite operation sequence, from any state satisfying the invariant: same
    observations as the reference map, final states related, invariant kept. -/
theorem C19_run_refines (ops : List (Op K V)) (m : OMap K V) (h : Inv m) :
    Inv (m.run ops).1 ∧
    abs (m.run ops).1 = (Ref.run (abs m) ops).1 ∧
    (m.run ops).2 = (Ref.run (abs m) ops).2 := by
  induction ops generalizing m with
  | nil => exact ⟨h, rfl, rfl⟩
  | cons op ops ih =>
    obtain ⟨h1, h2, h3⟩ := C19_step_refines m h op
    obtain ⟨i1, i2, i3⟩ := ih (m.step op).1 h1
    simp only [OMap.run, Ref.run]
    rw [← h2, ← h3]
    exact ⟨i1, i2, by rw [i3]⟩

/-- The statement for every reachable state: start from `New()`. -/
theorem C19_reachable (ops : List (Op K V)) :
    Inv ((OMap.empty : OMap K V).run ops).1 ∧
    ((OMap.empty : OMap K V).run ops).2 = (Ref.run ([] : Ref K V) ops).2 := by
  have := C19_run_refines ops (OMap.empty : OMap K V) inv_empty
  exact ⟨this.1, by simpa using this.2.2⟩

/-! ### the bullet points of the property, stated on the reference map
    (they transfer to the implementation model through `C19_run_refines`) -/

/-- iteration follows first insertion: a new key goes last, an existing key keeps its
    position (the key sequence is unchanged by an overwrite). -/
theorem C19_set_keys (r : Ref K V) (k : K) (v : V) :
    Ref.keys (Ref.set r k v) = if k ∈ Ref.keys r then Ref.keys r else Ref.keys r ++ [k] := by
  induction r with
  | nil => simp [Ref.set, rset, Ref.keys]
  | cons e t ih =>
    obtain ⟨a, b⟩ := e
    by_cases h : a = k
    · subst h; simp [Ref.set, rset, Ref.keys]
    · have h' : ¬ k = a := fun c => h c.symm
      simp only [Ref.set, Ref.keys] at ih
      simp only [Ref.set, rset, h, if_false, Ref.keys, List.map_cons, List.mem_cons, h', false_or, ih]
      split <;> simp_all

/-- after `set k v`, `get k` is `v` and every other key is unaffected -/
theorem C19_get_set (r : Ref K V) (k k' : K) (v : V) :
    Ref.get (Ref.set r k v) k' = if k = k' then v else Ref.get r k' := by
  simp only [Ref.get, Ref.set, rget_rset]; split <;> simp

/-- removal preserves the relative order of the remaining keys -/
theorem C19_remove_keys (r : Ref K V) (k : K) :
    Ref.keys (Ref.remove r k) = (Ref.keys r).filter (fun e => !decide (e = k)) := by
  simp [Ref.keys, Ref.remove, List.filter_map, Function.comp_def]

theorem C19_remove_sublist (r : Ref K V) (k : K) : List.Sublist (Ref.remove r k) r :=
  List.filter_sublist

/-- length equals the number of live keys: under the invariant the order slice has no
    duplicates and contains exactly the keys for which `Has` is true. -/
theorem C19_len_live (m : OMap K V) (h : Inv m) (live : List K) (nd : live.Nodup)
    (hl : ∀ k, k ∈ live ↔ m.has k = true) : m.len = live.length := by
  have : List.Perm m.order live := by
    rw [List.perm_ext_iff_of_nodup h.1 nd]
    intro k; rw [hl k]; exact h.2 k
  exact this.length_eq

/-- Filter keeps a sublist, in order, with unchanged values -/
theorem C19_filter_sublist (r : Ref K V) (p : K → V → Bool) : List.Sublist (Ref.filter r p) r :=
  List.filter_sublist

/-- Map keeps the same keys in the same order -/
theorem C19_map_keys (r : Ref K V) (f : K → V → V) : Ref.keys (Ref.mapVals r f) = Ref.keys r := by
  simp [Ref.keys, Ref.mapVals, List.map_map, Function.comp_def]

/-- Sort is a permutation, for every `less` whatsoever -/
theorem C19_sort_perm (r : Ref K V) (less : K → K → Bool) : List.Perm (Ref.sort r less) r :=
  List.mergeSort_perm _ _

/-- Sort sorts, for `less` a strict weak order (stated on its negation `le`) -/
theorem C19_sort_sorted (r : Ref K V) (less : K → K → Bool)
    (trans : ∀ a b c : K, !less b a → !less c b → !less c a)
    (total : ∀ a b : K, !less b a || !less a b) :
    (Ref.sort r less).Pairwise (fun a b => !less b.1 a.1) :=
  List.pairwise_mergeSort (fun a b c => trans a.1 b.1 c.1) (fun a b => total a.1 b.1) r

/-- Sort is stable: a sublist that was already in order stays a sublist -/
theorem C19_sort_stable (r c : Ref K V) (less : K → K → Bool)
    (trans : ∀ a b c : K, !less b a → !less c b → !less c a)
    (total : ∀ a b : K, !less b a || !less a b)
    (hc : c.Pairwise (fun a b => !less b.1 a.1)) (hs : List.Sublist c r) :
    List.Sublist c (Ref.sort r less) :=
  List.sublist_mergeSort (fun a b c => trans a.1 b.1 c.1) (fun a b => total a.1 b.1) hc hs

/-- decode(encode m) into a fresh map gives back the same contents in the same order -/
theorem C19_unmarshal_marshal (m : OMap K V) (h : Inv m) :
    abs ((OMap.empty : OMap K V).unmarshal m.marshal) = abs m := by
  rw [abs_unmarshal _ inv_empty, abs_empty]
  show Ref.unmarshal [] (abs m) = abs m
  unfold Ref.unmarshal
  have key : ∀ (l : List K) (nd : l.Nodup) (g : K → V) (r : Ref K V)
      (hd : ∀ x ∈ l, x ∉ Ref.keys r),
      (l.map (fun k => (k, g k))).foldl (fun acc kv => Ref.set acc kv.1 kv.2) r
        = r ++ l.map (fun k => (k, g k)) := by
    intro l nd g r hd
    have := fold_ref_setOpt_fresh (fun k => some (k, g k)) (by intro x kv e; cases e; rfl) l nd r hd
    simp only [Ref.setOpt] at this
    rw [List.foldl_map]
    simpa using this
  have := key m.order h.1 m.get [] (by simp [Ref.keys])
  simpa [abs] using this

/-- decoding into an existing map: keys already present keep their position -/
theorem C19_unmarshal_existing_keys (r : Ref K V) (k : K) (v : V) (hk : k ∈ Ref.keys r) :
    Ref.keys (Ref.unmarshal r [(k, v)]) = Ref.keys r := by
  simp [Ref.unmarshal, C19_set_keys, hk]

/-- no operation of the property's list panics (full statement). `At` is not among the
    listed operations; it panics exactly when the index is out of range. -/
theorem C19_no_panic (m : OMap K V) (op : Op K V) (hop : ∀ i, op ≠ Op.at i) :
    ∀ (_ : Inv m), (m.step op).2 ≠ Obs.panic := by
  intro _
  cases op <;> simp [OMap.step]
  · rename_i i; exact absurd rfl (hop i)

theorem C19_at_panics_iff (m : OMap K V) (i : Nat) :
    (m.step (Op.at i)).2 = Obs.panic ↔ m.len ≤ i := by
  simp only [OMap.step, OMap.at?, OMap.len]
  cases h : m.order[i]? with
  | none => simp; exact List.getElem?_eq_none_iff.1 h
  | some k =>
    simp
    have := List.getElem?_eq_some_iff.1 h
    obtain ⟨hi, _⟩ := this
    exact hi

/-- The defect repaired by the `fix:` commit, kept as a checked witness: with the former
    capacity expression, `Remove` on an empty map panicked. -/
theorem C19_prefix_remove_panicked (k : K) :
    (OMap.empty : OMap K V).removePreFix k = none := rfl

/-! ### the translated source equals the model

`Cog.Gen.OMapSrc.<m>Body` is the body of method `<m>` of /repo/internal/orderedmap/map.go as
translated by /verif/extract/xomap on THIS run (mini-language and its Go semantics:
Cog/OMap/Src.lean).  `Src.call funs body params m args` runs it on receiver `m`; the result is the
receiver afterwards, the returned value and the trace of callback invocations (`none` = panic).
Each theorem is for all receivers (no invariant needed), all arguments, all callbacks. -/
section source
open Src Cog.Gen.OMapSrc

theorem C19_src_set (funs : Funs K V) (m : OMap K V) (k : K) (v : V) :
    call funs setBody setParams m [.k k, .v v] = some (m.set k v, .unit, []) := src_set funs m k v

theorem C19_src_get (funs : Funs K V) (m : OMap K V) (k : K) :
    call funs getBody getParams m [.k k] = some (m, .v (m.get k), []) := src_get funs m k

/-- `At`, including the panic: a negative or out-of-range index has no outcome -/
theorem C19_src_at (funs : Funs K V) (m : OMap K V) (i : Int) :
    call funs atBody atParams m [.n i] =
      if i < 0 then none else (m.at? i.toNat).map (fun v => (m, .v v, [])) := src_at funs m i

theorem C19_src_has (funs : Funs K V) (m : OMap K V) (k : K) :
    call funs hasBody hasParams m [.k k] = some (m, .b (m.has k), []) := src_has funs m k

theorem C19_src_remove (funs : Funs K V) (m : OMap K V) (k : K) :
    call funs removeBody removeParams m [.k k] = some (m.remove k, .unit, []) := src_remove funs m k

theorem C19_src_len (funs : Funs K V) (m : OMap K V) :
    call funs lenBody lenParams m [] = some (m, .n m.len, []) := src_len funs m

/-- `Iterate`: the callback is invoked on exactly the model's `iterate` sequence, in order -/
theorem C19_src_iterate (funs : Funs K V) (m : OMap K V) :
    call funs iterateBody iterateParams m [.unit] =
      some (m, .unit, m.iterate.map (fun kv => ("p0", .k kv.1, .v kv.2))) := src_iterate funs m

theorem C19_src_map (funs : Funs K V) (m : OMap K V) (f : K → V → V)
    (hf : ∀ a b, funs "p0" (.k a) (.v b) = some (.v (f a b))) :
    call funs mapBody mapParams m [.unit] = some (m, .om (m.mapVals f), []) := src_map funs m f hf

theorem C19_src_filter (funs : Funs K V) (m : OMap K V) (p : K → V → Bool)
    (hf : ∀ a b, funs "p0" (.k a) (.v b) = some (.b (p a b))) :
    call funs filterBody filterParams m [.unit] = some (m, .om (m.filter p), []) :=
  src_filter funs m p hf

theorem C19_src_values (funs : Funs K V) (m : OMap K V) :
    call funs valuesBody valuesParams m [] = some (m, .vs m.values, []) := src_values funs m

theorem C19_src_sort (funs : Funs K V) (m : OMap K V) (less : K → K → Bool)
    (hf : ∀ a b, funs "p0" (.k a) (.k b) = some (.b (less a b))) :
    call funs sortBody sortParams m [.unit] = some (m.sort less, .unit, []) := src_sort funs m less hf

/-- the function-valued argument seen as `funs`: any callback of each of the three shapes -/
def cbMap (f : K → V → V) : Funs K V
  | _, .k a, .v b => some (.v (f a b))
  | _, _, _ => none
def cbPred (p : K → V → Bool) : Funs K V
  | _, .k a, .v b => some (.b (p a b))
  | _, _, _ => none
def cbLess (less : K → K → Bool) : Funs K V
  | _, .k a, .k b => some (.b (less a b))
  | _, _, _ => none

/-- Summary: every translated method body of map.go computes the model's function. -/
theorem C19_source_refines_model (m : OMap K V) (funs : Funs K V) :
    (∀ k v, call funs setBody setParams m [.k k, .v v] = some (m.set k v, .unit, [])) ∧
    (∀ k, call funs getBody getParams m [.k k] = some (m, .v (m.get k), [])) ∧
    (∀ i : Int, call funs atBody atParams m [.n i] =
      if i < 0 then none else (m.at? i.toNat).map (fun v => (m, .v v, []))) ∧
    (∀ k, call funs hasBody hasParams m [.k k] = some (m, .b (m.has k), [])) ∧
    (∀ k, call funs removeBody removeParams m [.k k] = some (m.remove k, .unit, [])) ∧
    call funs lenBody lenParams m [] = some (m, .n m.len, []) ∧
    call funs iterateBody iterateParams m [.unit] =
      some (m, .unit, m.iterate.map (fun kv => ("p0", .k kv.1, .v kv.2))) ∧
    (∀ f, call (cbMap f) mapBody mapParams m [.unit] = some (m, .om (m.mapVals f), [])) ∧
    (∀ p, call (cbPred p) filterBody filterParams m [.unit] = some (m, .om (m.filter p), [])) ∧
    call funs valuesBody valuesParams m [] = some (m, .vs m.values, []) ∧
    (∀ less, call (cbLess less) sortBody sortParams m [.unit] = some (m.sort less, .unit, [])) :=
  ⟨C19_src_set funs m, C19_src_get funs m, C19_src_at funs m, C19_src_has funs m,
   C19_src_remove funs m, C19_src_len funs m, C19_src_iterate funs m,
   fun f => C19_src_map _ m f (fun _ _ => rfl), fun p => C19_src_filter _ m p (fun _ _ => rfl),
   C19_src_values funs m, fun less => C19_src_sort _ m less (fun _ _ => rfl)⟩

/-! non-vacuity: the hypotheses on `funs` are satisfiable by every callback, and the translated
    bodies really run (a concrete map, evaluated by the kernel through the theorems) -/
example (f : K → V → V) : ∀ a b, cbMap f "p0" (.k a) (.v b) = some (.v (f a b)) := fun _ _ => rfl
example (p : K → V → Bool) : ∀ a b, cbPred (K := K) (V := V) p "p0" (.k a) (.v b) = some (.b (p a b)) :=
  fun _ _ => rfl
example (l : K → K → Bool) : ∀ a b, cbLess (V := V) l "p0" (.k a) (.k b) = some (.b (l a b)) :=
  fun _ _ => rfl
example : (call (cbMap (fun _ v => v)) removeBody removeParams
    (⟨[("a", 1), ("b", 2)], ["a", "b"]⟩ : OMap String Nat) [.k "a"]).map (fun r => (r.1.records, r.1.order))
    = some ([("b", 2)], ["b"]) := by
  rw [C19_src_remove]; decide

end source

/-! non-vacuity: a concrete reachable state satisfies the invariant and is non-trivial -/
example : Inv ((OMap.empty : OMap String Nat).run
    [.set "b" 1, .set "a" 2, .set "b" 3, .remove "c", .sort (fun x y => x < y)]).1 :=
  (C19_reachable (K := String) (V := Nat) _).1

example : abs ((OMap.empty : OMap String Nat).run
    [.set "b" 1, .set "a" 2, .set "b" 3, .remove "c"]).1 = [("b", 3), ("a", 2)] := by decide

end Cog.OMap
