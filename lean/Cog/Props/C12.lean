/-
  C12 — the JSON Schema and OpenAPI documents cog emits.

  Model: lean/Cog/Sem/JsonSchemaOut.lean (`emitTy`/`emitDefs`/`emitJS`/`emitOA` transcribe
  internal/jennies/jsonschema/schema.go and the OpenAPI wrapper literally; `jsValid` is the validation
  semantics of the emitted subset).  The model is tied to the code on every run: the files the real
  pipeline emits must equal `emitJS`/`emitOA` of the IR the jennies saw, and the verdict of an
  independent validator on every re-encoded document must equal `jsValid`.

  Proved here, for ALL schema sets (by induction over the type tree, the closure loop's fuel, and the
  decoding depth):
    * `C12_refs_resolve(_openapi)`   every `$ref` of the emitted document names one of its definitions,
        under the decidable hypothesis `emitClosed` (the references the emitter writes resolve in
        the loaded schemas, objects are stored under their names, SelfRefs do not collide);
    * `C12_objects_and_fields_present`   every object of the schema is a definition under its own name,
        every struct field a property under its own name (no hypothesis besides termination);
    * `C12_objects_own_definition_partial`   … holding its OWN emission, when names do not clash;
    * `C12_carried_over`   required list, constraints, enum values, constants, defaults are written
        unchanged;
    * `C12_values_validate_partial`   every document of the C01 fragment `den` that respects the IR
        (`sat`) decodes into a value of the generated Go type whose encoding validates against the
        emitted definition, when the emitted node `describes` the Go-chain type (decidable; evaluated
        by the driver on every lab case — the Go chain and the JSON-Schema chain of passes are not
        modelled here);
    * `C12_values_validate_same_ir_partial`   the same with `describes` PROVED for the document
        `emitDefs` writes, on the fragment `jsFrag` of one IR read by both jennies.
    * `C12_emission_terminates`   the emitter terminates for every schema set (fix 56f489a; the model's
        fuel `emitFuel S` is provably sufficient); `C12_prefix_loop_never_terminated` keeps the
        former defect as a statement about the pre-fix loop.
  The unrestricted statements are FALSE on the current tree; the witnesses below are replayed on the
  real emitter and an independent validator by the check (streams c12-pinned / c12-labpinned; c12-hang guards the repaired loop).
-/
import Cog.Sem.JsonSchemaOutSelf
import Cog.Sem.JsonSchemaOutTerm
-- imports of the block of the c01-front builder (end of file)
import Cog.Sem.WidenStruct
import Cog.Sem.RoundTrip
import Cog.Gen.Chains
import Cog.Front.JsonSchemaSoundMain
import Cog.Front.OpenApiSoundMain
namespace Cog.Sem.JSOut
open Cog.IR Cog.Sem GoVal
open Cog.OMap (rget rset)

/-! ### every `$ref` resolves -/

/-- JSON Schema document: every `$ref` (including the top-level one to the entry point) names a
    definition of the same document. -/
theorem C12_refs_resolve (S : Schemas) (s : Schema) (fuel : Nat) (doc : JS)
    (hc : emitClosed S s = true) (he : emitJS fuel S s = some doc) :
    ∃ D, emitDefs fuel S s = some D ∧ doc = jsDoc s D ∧ ∀ x ∈ JS.refs doc, x ∈ keys D := by
  unfold emitJS at he
  cases hd : emitDefs fuel S s with
  | none => simp [hd] at he
  | some D =>
    simp only [hd, Option.map_some, Option.some.injEq] at he
    obtain ⟨h1, h2⟩ := emitDefs_closed hc hd
    obtain ⟨_, _, _, hentry⟩ := emitClosed_parts hc
    refine ⟨D, rfl, he.symm, ?_⟩
    subst he
    intro x hx
    unfold jsDoc at hx
    split at hx
    · simp only [JS.refs, JS.refsKvs, List.nil_append, List.append_nil] at hx
      exact h1 x hx
    · rename_i hne
      simp only [JS.refs, JS.refsKvs, List.nil_append, List.append_nil, List.singleton_append,
        List.mem_cons] at hx
      rcases hx with hx | hx
      · subst hx
        rcases hentry with h | h
        · exact absurd h hne
        · exact h2 _ h
      · exact h1 x hx

/-- the OpenAPI document carries the same definitions under `components.schemas` -/
theorem C12_refs_resolve_openapi (S : Schemas) (s : Schema) (fuel : Nat) (doc : JS)
    (hc : emitClosed S s = true) (he : emitOA fuel S s = some doc) :
    ∃ D, emitDefs fuel S s = some D ∧ doc = oaDoc s D ∧ ∀ x ∈ JS.refs doc, x ∈ keys D := by
  unfold emitOA at he
  cases hd : emitDefs fuel S s with
  | none => simp [hd] at he
  | some D =>
    simp only [hd, Option.map_some, Option.some.injEq] at he
    obtain ⟨h1, _⟩ := emitDefs_closed hc hd
    refine ⟨D, rfl, he.symm, ?_⟩
    subst he
    intro x hx
    have : x ∈ JS.refsKvs D := by
      unfold oaDoc oaInfo at hx
      split at hx <;> simpa [JS.refs, JS.refsKvs] using hx
    exact h1 x this

/-! non-vacuity: an example schema (strings, nullable integer, array, recursive reference) -/

def exRootTy : Ty :=
  .struct [
    { name := "name", ty := .scalar "string" .nil [{ op := "minLength", args := [.int "i" 1] }] {}, required := true },
    { name := "count", ty := .scalar "int64" .nil [{ op := "<=", args := [.int "i64" 9] }] { nullable := true }, required := false },
    { name := "tags", ty := .array (.scalar "string" .nil [] {}) { nullable := true }, required := false },
    { name := "child", ty := .ref "p" "Root" { nullable := true }, required := false }] [] none {}

def exSchema : Schema :=
  { pkg := "p", entryPoint := "Root",
    objects := [("Root", { name := "Root", selfPkg := "p", selfName := "Root", ty := exRootTy })] }

def exSchemas : Schemas := [exSchema]

example : emitClosed exSchemas exSchema = true ∧ noClash exSchemas exSchema = true := by
  constructor <;> decide +kernel

/-! ### objects and fields are present under their own names -/

theorem C12_objects_and_fields_present (S : Schemas) (s : Schema) (fuel : Nat) (D : Def)
    (he : emitDefs fuel S s = some D) :
    (∀ o ∈ schemaObjs s, o.name ∈ keys D) ∧
    (∀ (fs : List Field) (g : List Ty) (gi : Option (String × DisjInfo)) (m : Meta),
      rget "properties" (emitTy (.struct fs g gi m)) = some (.obj (emitFields fs [])) ∧
      ∀ f ∈ fs, f.name ∈ keys (emitFields fs [])) :=
  ⟨emitDefs_has_objects he, fun fs g gi m => ⟨rget_properties fs g gi m, (emitFields_keys fs []).2⟩⟩

/-- … and each holds its own emission when names do not clash (`noClash`: no object of another
    package is named like an object of `s`, the objects of `s` and the fields of a struct have
    pairwise different names). -/
theorem C12_objects_own_definition_partial (S : Schemas) (s : Schema) (fuel : Nat) (D : Def)
    (hc : noClash S s = true) (he : emitDefs fuel S s = some D) :
    (∀ o ∈ schemaObjs s, rget o.name D = some (.obj (emitObj o))) ∧
    (∀ (fs : List Field), (fnames fs).Nodup → ∀ f ∈ fs, rget f.name (emitFields fs []) = some (.obj (fieldDef f))) :=
  ⟨emitDefs_own hc he, fun fs nd => emitFields_own fs [] nd⟩

/-! ### required-ness, constraints, enum values, constants and defaults are carried over -/

theorem C12_carried_over :
    -- the `required` list is the list of required fields, in order
    (∀ (fs : List Field) (g : List Ty) (gi : Option (String × DisjInfo)) (m : Meta),
      rget "required" (emitTy (.struct fs g gi m)) =
        if ((fs.filter (·.required)).map (·.name)).isEmpty then none
        else some (.arr (((fs.filter (·.required)).map (·.name)).map .str))) ∧
    -- enum values, unchanged and in order
    (∀ (vs : List EnumVal) (m : Meta),
      rget "enum" (emitTy (.enum vs m)) = some (.arr (vs.map fun v => JS.raw v.value))) ∧
    -- a constant scalar carries its value
    (∀ kind v cs dt, isNilVal v = false → rget "const" (emitScalar kind v cs dt) = some (.raw v)) ∧
    -- the default of a field's type is written raw; keywords of the type survive next to it
    (∀ f : Field, isNilVal f.ty.getMeta.dflt = false → rget "default" (fieldDef f) = some (.raw f.ty.getMeta.dflt)) ∧
    (∀ (f : Field) (k : String), k ≠ "description" → k ≠ "default" → rget k (fieldDef f) = rget k (emitTy f.ty)) ∧
    -- numeric constraints: `<` ↦ exclusiveMaximum, `<=` ↦ maximum, `>` ↦ exclusiveMinimum, `>=` ↦ minimum,
    -- multipleOf ↦ multipleOf, argument unchanged (the last constraint with that operator wins)
    (∀ kind v cs dt kw arg, (kind = "float32" ∨ kind = "float64" ∨ isIntKind kind = true) → kw ≠ "const" →
      lastArg numberOps kw cs = some arg → rget kw (emitScalar kind v cs dt) = some (.raw arg)) ∧
    -- string constraints: minLength / maxLength
    (∀ v cs dt kw arg, kw ≠ "const" → kw ≠ "format" →
      lastArg stringOps kw cs = some arg → rget kw (emitScalar "string" v cs dt) = some (.raw arg)) := by
  refine ⟨?_, ?_, const_carried, default_carried, fieldDef_keeps, ?_, ?_⟩
  · intro fs g gi m; rw [rget_required, requiredNames_eq]
  · intro vs m; rw [enum_carried, enumValues_eq]
  · intro kind v cs dt kw arg hk hkw hl; exact number_constraint_carried kind v cs dt kw hk hkw arg hl
  · intro v cs dt kw arg hkw hf hl; exact string_constraint_carried v cs dt kw hkw hf arg hl

/-- the operator-to-keyword table is the one JSON Schema's semantics asks for: a document number
    satisfies the IR constraint iff it satisfies the emitted keyword -/
theorem C12_constraint_semantics_carried (R : String → Json → Bool) (props : List String) (c : Constraint)
    (kw : String) (j : Json) (hkw : rget c.op numberOps = some kw) (hs : satNumC c j = true) :
    entryCheck R props kw (.raw (c.args.headD .nil)) j = true := check_num R props c kw j hkw hs

/-! ### encoded values validate -/

/-- General form: `node` (in the context of the emitted definitions `D`) describes the Go-chain type
    `t` to depth `n`; every document of `den n` that respects the IR decodes, and the encoding of the
    decoded value validates against `node` with any `$ref` fuel ≥ `n`. -/
theorem C12_values_validate_node_partial (Sgo : Schemas) (D : Def) (n F : Nat) (hF : n ≤ F) (t : Ty) (node : Def)
    (j : Json) (hd : describes D n Sgo t node = true) (hden : den n Sgo t j = true)
    (hsat : sat n Sgo t j = true) :
    ∃ v, goDecode n Sgo t j = .ok v ∧ jsValid D (F + 1) (.obj node) (goEncode v) = true := by
  obtain ⟨v, hv, hval⟩ := describes_sound D Sgo n F hF t node j hd hden hsat
  exact ⟨v, hv, by rw [jsValid_succ]; exact hval⟩

/-- For an object of the emitted document: `Sjs` is the IR the jsonschema jenny saw, `Sgo` the IR the
    Go jenny saw (both from the same input); what the lab driver's `dec` returns validates against
    `#/definitions/<name>` of the emitted document. -/
theorem C12_values_validate_partial (Sgo Sjs : Schemas) (s : Schema) (fuel : Nat) (D : Def)
    (_he : emitDefs fuel Sjs s = some D) (n F : Nat) (hF : n ≤ F) (pkg name : String) (j : Json)
    (hd : describes D n Sgo (.ref pkg name {}) [("$ref", .ref name)] = true)
    (hden : den n Sgo (.ref pkg name {}) j = true) (hsat : sat n Sgo (.ref pkg name {}) j = true) :
    ∃ j', goRoundTrip n Sgo pkg name j = .ok j' ∧ jsValidObj D (F + 1) name j' = true := by
  obtain ⟨v, hv, hval⟩ := C12_values_validate_node_partial Sgo D n F hF _ _ j hd hden hsat
  exact ⟨goEncode v, by simp [goRoundTrip, hv, DRes.map, DRes.bind], hval⟩

/-- The same for ONE IR read both by the Go jenny and by the schema jenny, with `describes` PROVED
    rather than evaluated: on the fragment `jsFrag` (references stay inside the package, object and
    field names are distinct, no union structs, objects stored under their names) the definitions
    `emitDefs` writes describe the IR they were written from, so every document of `den` that respects
    the IR re-encodes to a document valid against `#/definitions/<name>` of the emitted document. -/
theorem C12_values_validate_same_ir_partial (S : Schemas) (s : Schema)
    (hself : Schemas.locate S s.pkg = some s) (hf : jsFrag S s = true) (fuel : Nat) (D : Def)
    (he : emitDefs fuel S s = some D) (n F : Nat) (hF : n ≤ F) (name : String) (hn : localHas s name = true)
    (j : Json) (hden : den n S (.ref s.pkg name {}) j = true) (hsat : sat n S (.ref s.pkg name {}) j = true) :
    ∃ j', goRoundTrip n S s.pkg name j = .ok j' ∧ jsValidObj D (F + 1) name j' = true := by
  have hd : describes D n S (.ref s.pkg name {}) (emitTy (.ref s.pkg name {})) = true :=
    emit_describes (own_of_emit hself hf he) n _ (by simp [okTy, hn])
  exact C12_values_validate_partial S S s fuel D he n F hF s.pkg name j (by simpa [emitTy] using hd) hden hsat

example : Schemas.locate exSchemas exSchema.pkg = some exSchema ∧ jsFrag exSchemas exSchema = true := by
  constructor
  · rfl
  · decide +kernel

/-! non-vacuity: the example schema, emitted and described by its own emission; a document with a
    satisfied constraint, an omitted optional member and a recursive member -/

def exDefs : Def := (emitDefs 4 exSchemas exSchema).getD []

def exDoc : Json :=
  .obj [("tags", .arr [.str "a"]), ("name", .str "x"), ("count", .num 36), ("child", .obj [("name", .str "y")])]

example : (emitDefs 4 exSchemas exSchema).isSome = true := by decide +kernel
example : describes exDefs 8 exSchemas (.ref "p" "Root" {}) [("$ref", .ref "Root")] = true := by decide +kernel
example : den 8 exSchemas (.ref "p" "Root" {}) exDoc = true ∧ sat 8 exSchemas (.ref "p" "Root" {}) exDoc = true := by
  constructor <;> decide +kernel

/-! ### the unrestricted statements fail on the current tree -/

/-- the statement without `describes` and `sat`: every document the generated type accepts -/
def C12_values_validate_full : Prop :=
  ∀ (S : Schemas) (s : Schema) (fuel : Nat) (D : Def) (n : Nat) (name : String) (j : Json),
    s ∈ S → emitDefs fuel S s = some D → den n S (.ref s.pkg name {}) j = true →
    ∃ j', goRoundTrip n S s.pkg name j = .ok j' ∧ jsValidObj D (n + 1) name j' = true

/-- does the re-encoded document validate? (what `full` demands of one document) -/
def valueOK (S : Schemas) (s : Schema) (n : Nat) (name : String) (j : Json) : Bool :=
  match emitDefs 8 S s, goRoundTrip n S s.pkg name j with
  | some D, .ok j' => jsValidObj D (n + 1) name j'
  | _, _ => false

theorem not_full_of_witness (S : Schemas) (s : Schema) (n : Nat) (name : String) (j : Json) (hs : s ∈ S)
    (hD : (emitDefs 8 S s).isSome = true) (hden : den n S (.ref s.pkg name {}) j = true)
    (hbad : valueOK S s n name j = false) : ¬ C12_values_validate_full := by
  intro hfull
  cases hd : emitDefs 8 S s with
  | none => simp [hd] at hD
  | some D =>
    obtain ⟨j', h1, h2⟩ := hfull S s 8 D n name j hs hd hden
    simp [valueOK, hd, h1, h2] at hbad

def mkSchema (pkg : String) (objs : List (String × Ty)) : Schema :=
  { pkg := pkg, objects := objs.map fun (k, t) => (k, { name := k, selfPkg := pkg, selfName := k, ty := t }) }

def anySchema : Schema :=
  mkSchema "a" [("Root", .struct [{ name := "v", ty := .scalar "any" .nil [] {}, required := true }] [] none {})]

/-- `any` is emitted as `{type: object}`: the string the Go type holds in an `any` member is rejected -/
theorem C12_values_validate_counterexample_any : ¬ C12_values_validate_full :=
  not_full_of_witness [anySchema] anySchema 4 "Root" (.obj [("v", .str "text")]) (by simp)
    (by decide +kernel) (by decide +kernel) (by decide +kernel)

def nullableSchema : Schema :=
  mkSchema "a" [("Root", .struct [{ name := "n", ty := .scalar "int64" .nil [] { nullable := true }, required := true }] [] none {})]

/-- nullability is not represented: a required nullable member (a Go pointer without omitempty)
    encodes `null`, which `{type: integer}` rejects -/
theorem C12_values_validate_counterexample_required_nullable : ¬ C12_values_validate_full :=
  not_full_of_witness [nullableSchema] nullableSchema 4 "Root" (.obj [("n", .null)]) (by simp)
    (by decide +kernel) (by decide +kernel) (by decide +kernel)

def reqStr (n : String) : Ty := .struct [{ name := n, ty := .scalar "string" .nil [] {}, required := true }] [] none {}

def sameRoot : Schema :=
  mkSchema "a" [("Root", .struct [{ name := "x", ty := .ref "b" "T" {}, required := true },
                                  { name := "y", ty := .ref "c" "T" {}, required := true }] [] none {})]

def sameNameSchemas : Schemas := [sameRoot, mkSchema "b" [("T", reqStr "p")], mkSchema "c" [("T", reqStr "q")]]

/-- two foreign objects with the same name overwrite each other in `definitions`: the value of the
    overwritten one is rejected -/
theorem C12_values_validate_counterexample_same_name : ¬ C12_values_validate_full :=
  not_full_of_witness sameNameSchemas sameRoot 4 "Root"
    (.obj [("x", .obj [("p", .str "s")]), ("y", .obj [("q", .str "t")])]) (by simp [sameNameSchemas])
    (by decide +kernel) (by decide +kernel) (by decide +kernel)

/-- … and the document no longer holds the definition of `b.T` at all (compare
    `C12_objects_own_definition_partial`, whose hypothesis `noClash` holds for package `a` here:
    the clash is between two FOREIGN objects) -/
theorem C12_foreign_definition_overwritten :
    (match emitDefs 8 sameNameSchemas sameRoot with
     | some D => (match rget "T" D with
                  | some nd => jsBeq nd (.obj (emitTy (reqStr "p")))
                  | none => false)
     | none => false) = false := by decide +kernel

/-- constants behind a constant reference are not carried over: the emitter writes `{}` -/
def C12_carried_over_full : Prop :=
  ∀ (p n : String) (v : Val) (m : Meta), isNilVal v = false →
    rget "const" (emitTy (.cref p n v m)) = some (.raw v)

theorem C12_carried_over_counterexample_constant_reference : ¬ C12_carried_over_full := by
  intro h
  have := h "a" "Kind" (.str "panel") {} rfl
  simp [emitTy, rget] at this

/-- … and neither are the members of an intersection (nor the references inside it) -/
theorem C12_intersection_emitted_empty (bs : List Ty) (m : Meta) : emitTy (.inter bs m) = [] := by
  simp [emitTy]

def cycleRoot : Schema :=
  mkSchema "a" [("Root", .struct [{ name := "list", ty := .ref "b" "Node" {}, required := false }] [] none {})]

def cycleSchemas : Schemas :=
  [cycleRoot,
   mkSchema "b" [("Node", .struct [{ name := "next", ty := .ref "b" "Node" {}, required := false }] [] none {})]]

def allRefs : List Obj → List (String × String)
  | [] => []
  | o :: t => emittedRefs o.ty ++ allRefs t

/-- what a round queues depends only on the references of the objects it formats -/
theorem runObjs_snd (S : Schemas) (pkg : String) (objs : List Obj) (d : Def) (q : Pending) :
    (runObjs S pkg objs (d, q)).2 = (allRefs objs).foldl (pushForeign S pkg) q := by
  induction objs generalizing d q with
  | nil => rfl
  | cons o rest ih =>
    simp only [runObjs, List.foldl_cons, stepObj, allRefs, List.foldl_append]
    exact ih _ _

/-- BEFORE fix 56f489a the loop wrote a queued object again every time it met it: a recursive object
    of another package kept it running for every amount of fuel (the Go loop never ended).  Kept as a
    checked statement about `closurePreFix`; the check replays the same schema set on the real
    emitter under a watchdog, so that a relapse is a violation. -/
theorem C12_prefix_loop_never_terminated : ∀ fuel, emitDefsPreFix fuel cycleSchemas cycleRoot = none := by
  have h0 : allRefs ((firstRound cycleSchemas cycleRoot).2.map (·.2)) = [("b", "Node")] := by decide +kernel
  have hstep : allRefs ((pushForeign cycleSchemas "a" [] ("b", "Node")).map (·.2)) = [("b", "Node")] := by
    decide +kernel
  have key : ∀ fuel d q, allRefs (q.map (·.2)) = [("b", "Node")] → closurePreFix cycleSchemas "a" fuel d q = none := by
    intro fuel
    induction fuel with
    | zero => intro d q _; rfl
    | succ n ih =>
      intro d q hq
      have hne : q.isEmpty = false := by
        cases q with
        | nil => simp [allRefs] at hq
        | cons _ _ => rfl
      simp only [closurePreFix, hne, Bool.false_eq_true, if_false]
      apply ih
      rw [runObjs_snd, hq]
      exact hstep
  intro fuel
  exact key fuel _ _ h0

/-! ### the emitter terminates (after fix 56f489a) -/

/-- `GenerateSchema` terminates for EVERY schema set: each round that writes a definition records a
    queue key (`SelfRef.String()` of an object of the loaded schemas) not recorded before, so
    `emitFuel S` = (number of objects) + 2 rounds always suffice. -/
theorem C12_emission_terminates (S : Schemas) (s : Schema) (fuel : Nat) (hf : emitFuel S ≤ fuel) :
    (emitDefs fuel S s).isSome = true ∧ (emitJS fuel S s).isSome = true ∧ (emitOA fuel S s).isSome = true := by
  have h := emitDefs_terminates S s fuel hf
  refine ⟨h, ?_, ?_⟩
  · unfold emitJS; cases hd : emitDefs fuel S s <;> simp_all
  · unfold emitOA; cases hd : emitDefs fuel S s <;> simp_all

/-- … so the closed-references theorem needs no termination hypothesis -/
theorem C12_refs_resolve_total (S : Schemas) (s : Schema) (hc : emitClosed S s = true) :
    ∃ doc D, emitJS (emitFuel S) S s = some doc ∧ emitDefs (emitFuel S) S s = some D ∧ doc = jsDoc s D ∧
      ∀ x ∈ JS.refs doc, x ∈ keys D := by
  obtain ⟨_, h2, _⟩ := C12_emission_terminates S s (emitFuel S) (Nat.le_refl _)
  cases hd : emitJS (emitFuel S) S s with
  | none => simp [hd] at h2
  | some doc =>
    obtain ⟨D, h3, h4, h5⟩ := C12_refs_resolve S s (emitFuel S) doc hc hd
    exact ⟨doc, D, rfl, h3, h4, h5⟩

/-- the recursive foreign object of the former witness: now emitted once, and its `$ref`s resolve -/
example : (match emitDefs (emitFuel cycleSchemas) cycleSchemas cycleRoot with
           | some D => keys D == ["Root", "Node"]
           | none => false) = true := by decide +kernel

/-! ---- BEGIN block of the c01-front builder (front-end model: Cog/Front/JsonSchema*.lean; tie: stream `c01-front`, verb `jsfc12`) ----

  SOURCE JSON Schema → front-end → Go chain → emitted JSON Schema.  For a source schema of the fragment `FragJS` whose
  front-end IR `S` lies in `PlainS`, with `Sg` the output of the Go chain and `D = emitDefs Sg` on the fragment `jsFrag`:
  every document that is strictly valid against the SOURCE schema (`jsValidX`: Cog/Front/JsonSchemaValid.lean) and respects
  the IR (`sat`: excludes exactly what the known findings C12/nullable/not-represented-null-rejected and
  C12/any/emitted-as-type-object describe — `null` at a required nullable member, non-object values in an `any`) decodes
  into the generated Go type, re-encodes to an equivalent document, and that document validates against
  `#/definitions/<root>` of the EMITTED schema.  Composition of C01_jsonschema_parser_sound_partial (parser soundness),
  `widen_chainS` (pass widening) and C12_values_validate_same_ir_partial.  Without `sat` the statement is false
  (`…_counterexample`, an instance of C12/nullable/…).  The converse (emitted-valid ⇒ source-valid) is MEASURED by the tie
  on the real emitter and an independent validator, not proved. -/
namespace FE
open Cog.IR Cog.Sem Cog.Sem.Src Cog.Passes Cog.Gen.Chains
open Cog.Front.JsonSchema (Defs JAttrs FragJS frontEnd refTo jsValidX parser_sound)

theorem C12_jsonschema_source_validates_emitted_partial (fmt : String → String → Bool) (pkg : String) (defs : Defs)
    (root : String) (fuel : Nat) (S Sg : Schemas) (s : Schema) (efuel : Nat) (D : Def)
    (hF : FragJS defs (refTo root) = true) (hS : frontEnd pkg defs fuel (refTo root) = .ok S)
    (hP : PlainS S = true) (hrun : runChain goChain S = .ok Sg)
    (hself : Schemas.locate Sg pkg = some s) (hpkg : s.pkg = pkg) (hf : jsFrag Sg s = true)
    (he : emitDefs efuel Sg s = some D) (hn : localHas s root = true)
    (n F : Nat) (hFu : n + 3 ≤ F) (j : Json) (hwf : wfDeep j = true)
    (hv : jsValidX fmt defs n (refTo root) j = true)
    (hsat : sat (n + 3) Sg (.ref pkg root {}) j = true) :
    ∃ j', goRoundTrip (n + 3) Sg pkg root j = .ok j' ∧ Json.eqv j' j = true ∧ jsValidObj D (F + 1) root j' = true := by
  subst hpkg
  have hsrc := parser_sound fmt s.pkg defs root fuel S hF hS n j hwf hv
  have hden := (widen_chainS goChain (by decide) S Sg hP hrun).2 (n + 2) s.pkg root j hsrc
  obtain ⟨j', h1, h2⟩ := C12_values_validate_same_ir_partial Sg s hself hf efuel D he (n + 3) F hFu root hn j hden hsat
  obtain ⟨v, hv, g⟩ := roundtrip_core Sg (n + 3) _ j hden
  have : j' = GoVal.goEncode v := by
    simp [goRoundTrip, hv, DRes.map, DRes.bind] at h1
    exact h1.symm
  exact ⟨j', h1, by subst this; simp [Json.eqv, g.enc_sub, g.sub_enc], h2⟩

/-! non-vacuity: `R = {n?: integer | null, name: string minLength 1 (required), tags?: [string]}` -/

def scS (a : JAttrs) : Cog.Front.JsonSchema.JS := .mk a [] [] [] [] .none .none .none
def exDefsFE : Defs := [("R", .mk { types := ["object"], hasProps := true, required := ["name"] } [] [] []
  [("n", scS { types := ["integer", "null"] }), ("name", scS { types := ["string"], minLength := 1 }),
   ("tags", .mk { types := ["array"] } [] [] [] [] .none (.one (scS { types := ["string"] })) .none)] (.bool false) .none .none)]
def exDocFE : Json := .obj [("name", .str "x"), ("tags", .arr [.str "t"])]

example :
    FragJS exDefsFE (refTo "R") = true ∧ wfDeep exDocFE = true ∧
    jsValidX (fun _ _ => true) exDefsFE 4 (refTo "R") exDocFE = true ∧
    (match frontEnd "p" exDefsFE 8 (refTo "R") with
     | .ok S =>
       PlainS S &&
       (match runChain goChain S with
        | .ok Sg =>
          (match Schemas.locate Sg "p" with
           | some s => s.pkg == "p" && jsFrag Sg s && (emitDefs 8 Sg s).isSome && localHas s "R" &&
                       sat 7 Sg (.ref "p" "R" {}) exDocFE
           | none => false)
        | _ => false)
     | _ => false) = true := by
  refine ⟨by decide +kernel, by decide +kernel, by decide +kernel, by decide +kernel⟩

/-! ### the statement without `sat` (and without the fragments) fails on the current tree -/

def C12_jsonschema_source_validates_emitted_full : Prop :=
  ∀ (fmt : String → String → Bool) (pkg : String) (defs : Defs) (root : String) (fuel : Nat) (S Sg : Schemas) (s : Schema)
    (efuel : Nat) (D : Def) (n : Nat) (j : Json),
    frontEnd pkg defs fuel (refTo root) = .ok S → runChain goChain S = .ok Sg → Schemas.locate Sg pkg = some s →
    emitDefs efuel Sg s = some D → wfDeep j = true → jsValidX fmt defs n (refTo root) j = true →
    ∃ j', goRoundTrip (n + 3) Sg pkg root j = .ok j' ∧ jsValidObj D (n + 3 + 1) root j' = true

/-- `R = {x: string | null (required)}` and the document `{"x": null}` -/
def cxDefsFE : Defs := [("R", .mk { types := ["object"], hasProps := true, required := ["x"] } [] [] []
  [("x", scS { types := ["string", "null"] })] (.bool false) .none .none)]
def cxDocFE : Json := .obj [("x", .null)]

def okJson : DRes Json → Option Json
  | .ok j => some j
  | _ => none

/-- everything the full statement assumes holds, and the re-encoded document is rejected -/
def cxRejected : Bool :=
  match frontEnd "p" cxDefsFE 8 (refTo "R") with
  | .ok S =>
    (match runChain goChain S with
     | .ok Sg =>
       (match Schemas.locate Sg "p" with
        | some s =>
          (match emitDefs 8 Sg s, okJson (goRoundTrip 7 Sg "p" "R" cxDocFE) with
           | some D, some j' => !(jsValidObj D 8 "R" j')
           | _, _ => false)
        | none => false)
     | _ => false)
  | _ => false

theorem C12_jsonschema_source_validates_emitted_counterexample : ¬ C12_jsonschema_source_validates_emitted_full := by
  intro h
  have hw : cxRejected = true := by decide +kernel
  have hv : jsValidX (fun _ _ => true) cxDefsFE 4 (refTo "R") cxDocFE = true := by decide +kernel
  unfold cxRejected at hw
  cases hS : frontEnd "p" cxDefsFE 8 (refTo "R") with
  | ok S =>
    rw [hS] at hw
    cases hr : runChain goChain S with
    | ok Sg =>
      simp only [hr] at hw
      cases hl : Schemas.locate Sg "p" with
      | some s =>
        simp only [hl] at hw
        cases he : emitDefs 8 Sg s with
        | some D =>
          obtain ⟨j', h1, h2⟩ := h _ "p" cxDefsFE "R" 8 S Sg s 8 D 4 cxDocFE hS hr hl he (by decide +kernel) hv
          simp only [he, h1, okJson, h2] at hw
          exact absurd hw (by decide)
        | none => simp [he] at hw
      | none => simp [hl] at hw
    | err _ => simp [hr] at hw
    | panic _ => simp [hr] at hw
  | err _ => simp [hS] at hw
  | panic _ => simp [hS] at hw
end FE

/-! ### the same for OpenAPI sources (front-end model: Cog/Front/OpenApi*.lean; tie: stream `c01-front-oa`, verb `oafc12`) -/

namespace OA
open Cog.IR Cog.Sem Cog.Sem.Src Cog.Passes Cog.Gen.Chains
open Cog.Front.OpenApi (Components OSR OS FragOA rootFrag frontEnd refTo oaValidX parser_sound)

/-- SOURCE OpenAPI components → front-end → Go chain → emitted JSON Schema: a document strictly valid against the source
    component `root` (`oaValidX`: kin-openapi's `VisitJSON`, Cog/Front/OpenApiValid.lean) that respects the IR (`sat`)
    re-encodes to an equivalent document that validates against `#/definitions/<root>` of the emitted schema. -/
theorem C12_openapi_source_validates_emitted_partial (fmt : String → String → Bool) (pkg : String) (cs : Components)
    (root : String) (fuel : Nat) (S Sg : Schemas) (s : Schema) (efuel : Nat) (D : Def)
    (hF : FragOA cs = true) (hR : rootFrag cs root = true) (hS : frontEnd pkg fuel cs = .ok S)
    (hP : PlainS S = true) (hrun : runChain goChain S = .ok Sg)
    (hself : Schemas.locate Sg pkg = some s) (hpkg : s.pkg = pkg) (hf : jsFrag Sg s = true)
    (he : emitDefs efuel Sg s = some D) (hn : localHas s root = true)
    (n F : Nat) (hFu : n + 3 ≤ F) (j : Json) (hwf : wfDeep j = true)
    (hv : oaValidX fmt cs n (refTo root) j = true)
    (hsat : sat (n + 3) Sg (.ref pkg root {}) j = true) :
    ∃ j', goRoundTrip (n + 3) Sg pkg root j = .ok j' ∧ Json.eqv j' j = true ∧ jsValidObj D (F + 1) root j' = true := by
  subst hpkg
  have hsrc := parser_sound fmt s.pkg cs root fuel S hF hR hS n j hwf hv
  have hden := (widen_chainS goChain (by decide) S Sg hP hrun).2 (n + 2) s.pkg root j hsrc
  obtain ⟨j', h1, h2⟩ := C12_values_validate_same_ir_partial Sg s hself hf efuel D he (n + 3) F hFu root hn j hden hsat
  obtain ⟨v, hv, g⟩ := roundtrip_core Sg (n + 3) _ j hden
  have : j' = GoVal.goEncode v := by
    simp [goRoundTrip, hv, DRes.map, DRes.bind] at h1
    exact h1.symm
  exact ⟨j', h1, by subst this; simp [Json.eqv, g.enc_sub, g.sub_enc], h2⟩

/-! non-vacuity: `R = {code: string minLength 2 (required), tags?: [string]}` -/

def scO (a : Cog.Front.OpenApi.OAttrs) : OSR := .mk "" true "" (.mk a [] [] [] [] .none .none)
def exCompsFE : Components := [("R", .mk "" true "" (.mk { types := some ["object"], required := ["code"], addlHas := some false } [] [] []
  [("code", scO { types := some ["string"], minLength := 2 }),
   ("tags", .mk "" true "" (.mk { types := some ["array"] } [] [] [] [] .none (.some (scO { types := some ["string"] }))))] .none .none))]
def exDocOA : Json := .obj [("code", .str "ab"), ("tags", .arr [.str "t"])]

example :
    FragOA exCompsFE = true ∧ rootFrag exCompsFE "R" = true ∧ wfDeep exDocOA = true ∧
    oaValidX (fun _ _ => true) exCompsFE 4 (refTo "R") exDocOA = true ∧
    (match frontEnd "p" 8 exCompsFE with
     | .ok S =>
       PlainS S &&
       (match runChain goChain S with
        | .ok Sg =>
          (match Schemas.locate Sg "p" with
           | some s => s.pkg == "p" && jsFrag Sg s && (emitDefs 8 Sg s).isSome && localHas s "R" &&
                       sat 7 Sg (.ref "p" "R" {}) exDocOA
           | none => false)
        | _ => false)
     | _ => false) = true := by
  refine ⟨by decide +kernel, by decide +kernel, by decide +kernel, by decide +kernel, by decide +kernel⟩

end OA

-- ---- END block of the c01-front builder ----

end Cog.Sem.JSOut
