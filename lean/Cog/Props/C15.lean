/-
  C15 — each user-configurable schema transformation changes exactly what it targets, in the
  documented way; everything else (objects, fields, comments, defaults, order) is untouched; a
  transformation whose target does not exist leaves the schemas unchanged; sequences.

  Property theorems only.  Models: Cog/Xform/<Transformation>.lean (literal transcriptions of
  internal/ast/compiler/*.go, tied to the code by the `xform-*` correspondence streams).
  Specifications (`spec`, `targets`) and proofs: Cog/Xform/Proofs/*.lean.

  Reading guide
  * `WF S`            keys are object names and pairwise distinct (what `orderedmap` + `AddObject` give).
  * `T.spec p S`      the documented result, written with `List.map` / `List.filter` over the objects
                      (and `xfAllTy`: "at every position of every type"), no visitor, no rebuild.
  * `FrameOK tObj tSch S S'`  same schemas in the same order; schema-level fields of schemas outside
                      `tSch` unchanged; the objects outside `tObj` still there, unchanged (key, name,
                      comments, type incl. fields / defaults / comments, self reference), in the same
                      relative order.
  * `NoTarget t S`    no object of `S` is a target.
  Where the code deviates from the documentation the full statement is `C15_<t>_full : Prop`, with
  `…_counterexample… : ¬ C15_<t>_full` (concrete witness, replayed on the real code by
  checks/c15.py through `xform witness`) and `…_partial` under decidable hypotheses.
-/
import Cog.Xform.Proofs.Omit
import Cog.Xform.Proofs.ObjLocal2
import Cog.Xform.Proofs.RenameObject
import Cog.Xform.Proofs.TypeRewrite
import Cog.Xform.Proofs.SchemaLevel
import Cog.Xform.Proofs.DuplicateObject
import Cog.Xform.Proofs.Prefix
namespace Cog.Xform
open Cog.IR

/-! ## omit -/
theorem C15_omit_correct (p : Omit.Params) (S S' : Schemas) (h : Omit.run p S = .ok S') :
    S' = Omit.spec p S := Omit.correct p S S' h
theorem C15_omit_frame (p : Omit.Params) (S S' : Schemas) (h : Omit.run p S = .ok S') :
    FrameOK (Omit.targets p) (fun _ => false) S S' := Omit.frame p S S' h
theorem C15_omit_absent (p : Omit.Params) (S : Schemas) (h : NoTarget (Omit.targets p) S) :
    Omit.run p S = .ok S := Omit.absent p S h

/-! ## omit_fields -/
theorem C15_omit_fields_correct (p : OmitFields.Params) (S S' : Schemas) (hw : WF S)
    (h : OmitFields.run p S = .ok S') : S' = OmitFields.spec p S := OmitFields.correct p S S' hw h
theorem C15_omit_fields_frame (p : OmitFields.Params) (S S' : Schemas) (hw : WF S)
    (h : OmitFields.run p S = .ok S') : FrameOK (OmitFields.targets p) (fun _ => false) S S' :=
  OmitFields.frame p S S' hw h
theorem C15_omit_fields_absent (p : OmitFields.Params) (S S' : Schemas) (hw : WF S)
    (hn : NoTarget (OmitFields.targets p) S) (h : OmitFields.run p S = .ok S') : S' = S :=
  OmitFields.absent p S S' hw hn h

/-! ## rename_object -/
def C15_rename_object_full : Prop := RenameObject.full
theorem C15_rename_object_counterexample_case : ¬ C15_rename_object_full := RenameObject.counterexample_case
theorem C15_rename_object_counterexample_offpath : ¬ C15_rename_object_full := RenameObject.counterexample_offpath
theorem C15_rename_object_counterexample_collision : ¬ C15_rename_object_full := RenameObject.counterexample_collision
/-- hypotheses: an object is accepted and every accepted object is named exactly as `from` says;
    nothing outside the Visitor's positions refers to `from`; the new names do not collide -/
theorem C15_rename_object_correct_partial (p : RenameObject.Params) (S S' : Schemas)
    (he : RenameObject.exactCase p S = true) (ho : RenameObject.offPathClean p S = true)
    (hc : RenameObject.noCollision p S = true) (h : RenameObject.run p S = .ok S') :
    S' = RenameObject.spec p S := RenameObject.correct_partial p S S' he ho hc h
theorem C15_rename_object_frame_partial (p : RenameObject.Params) (S S' : Schemas) (hw : WF S)
    (hc : RenameObject.noCollision p S = true) (h : RenameObject.run p S = .ok S') :
    FrameOK (RenameObject.targets p) (RenameObject.targetsSchema p) S S' :=
  RenameObject.frame_partial p S S' hw hc h
theorem C15_rename_object_absent (p : RenameObject.Params) (S S' : Schemas) (hw : WF S)
    (hn : NoTarget (RenameObject.targets p) S) (hs : ∀ s ∈ S, RenameObject.targetsSchema p s = false)
    (h : RenameObject.run p S = .ok S') : S' = S := RenameObject.absent p S S' hw hn hs h
/-- non-vacuity: the hypotheses hold on a schema where the rename does something -/
example : RenameObject.exactCase { from_ := ⟨"p", "Foo"⟩, to := "Zed" } (RenameObject.wS (.ref "p" "Foo" freshMeta)) = true
    ∧ RenameObject.offPathClean { from_ := ⟨"p", "Foo"⟩, to := "Zed" } (RenameObject.wS (.ref "p" "Foo" freshMeta)) = true
    ∧ RenameObject.noCollision { from_ := ⟨"p", "Foo"⟩, to := "Zed" } (RenameObject.wS (.ref "p" "Foo" freshMeta)) = true := by
  decide

/-! ## replace_reference -/
def C15_replace_reference_full : Prop := ReplaceReference.full
theorem C15_replace_reference_counterexample_meta : ¬ C15_replace_reference_full := ReplaceReference.counterexample_meta
theorem C15_replace_reference_counterexample_offpath : ¬ C15_replace_reference_full := ReplaceReference.counterexample_offpath
/-- hypothesis `hyp`: every replaced reference is plain (not nullable, no default, no hints) and
    no reference to `From` sits where the Visitor does not go -/
theorem C15_replace_reference_correct_partial (p : ReplaceReference.Params) (S S' : Schemas) (hw : WF S)
    (hh : ReplaceReference.hyp p S = true) (h : ReplaceReference.run p S = .ok S') :
    S' = ReplaceReference.spec p S := ReplaceReference.correct_partial p S S' hw hh h
theorem C15_replace_reference_frame (p : ReplaceReference.Params) (S S' : Schemas) (hw : WF S)
    (h : ReplaceReference.run p S = .ok S') :
    FrameOK (ReplaceReference.targets p) (ReplaceReference.targetsSchema p) S S' := ReplaceReference.frame p S S' hw h
theorem C15_replace_reference_absent (p : ReplaceReference.Params) (S S' : Schemas) (hw : WF S)
    (hn : NoTarget (ReplaceReference.targets p) S) (hs : ∀ s ∈ S, ReplaceReference.targetsSchema p s = false)
    (h : ReplaceReference.run p S = .ok S') : S' = S := ReplaceReference.absent p S S' hw hn hs h
example : ReplaceReference.hyp ReplaceReference.wP (ReplaceReference.wS (.array (.ref "p" "Foo" freshMeta) freshMeta)) = true := by
  decide

/-! ## duplicate_object -/
def C15_duplicate_object_full : Prop := DuplicateObject.full
theorem C15_duplicate_object_counterexample_case : ¬ C15_duplicate_object_full := DuplicateObject.counterexample_case
theorem C15_duplicate_object_counterexample_overwrite : ¬ C15_duplicate_object_full := DuplicateObject.counterexample_overwrite
/-- hypotheses: package names are unique; what matches the source name up to case matches it
    exactly; the new name is free -/
theorem C15_duplicate_object_correct_partial (p : DuplicateObject.Params) (S S' : Schemas)
    (hu : DuplicateObject.uniquePkgs S = true) (he : DuplicateObject.exactSource p S = true)
    (hf : DuplicateObject.freshDst p S = true) (h : DuplicateObject.run p S = .ok S') :
    S' = DuplicateObject.spec p S := DuplicateObject.correct_partial p S S' hu he hf h
theorem C15_duplicate_object_frame (p : DuplicateObject.Params) (S S' : Schemas) (hw : WF S)
    (h : DuplicateObject.run p S = .ok S') :
    FrameOK (fun s o => DuplicateObject.targets p s o) (fun _ => false) S S' := DuplicateObject.frame p S S' hw h
/-- the documented "source not found ⇒ nothing" and "no schema of the destination package ⇒ nothing" -/
theorem C15_duplicate_object_absent_source (p : DuplicateObject.Params) (S : Schemas)
    (hn : Schemas.locateObject S p.object.pkg p.object.obj = none) : DuplicateObject.apply p S = S :=
  DuplicateObject.absent_src p S hn
theorem C15_duplicate_object_absent_destination (p : DuplicateObject.Params) (S : Schemas)
    (hn : ∀ s ∈ S, s.pkg ≠ p.as_.pkg) : DuplicateObject.apply p S = S := DuplicateObject.absent_dst p S hn
example : DuplicateObject.uniquePkgs DuplicateObject.wS = true
    ∧ DuplicateObject.exactSource { object := ⟨"p", "A"⟩, as_ := ⟨"p", "C"⟩, omitFields := [] } DuplicateObject.wS = true
    ∧ DuplicateObject.freshDst { object := ⟨"p", "A"⟩, as_ := ⟨"p", "C"⟩, omitFields := [] } DuplicateObject.wS = true := by
  decide

/-! ## add_object -/
def C15_add_object_full : Prop := AddObject.full
theorem C15_add_object_counterexample : ¬ C15_add_object_full := AddObject.counterexample
/-- hypothesis: the name is not taken in the schemas of that package -/
theorem C15_add_object_correct_partial (p : AddObject.Params) (S S' : Schemas)
    (hf : AddObject.fresh p S = true) (h : AddObject.run p S = .ok S') : S' = AddObject.spec p S :=
  AddObject.correct_partial p S S' hf h
theorem C15_add_object_frame (p : AddObject.Params) (S S' : Schemas) (hw : WF S)
    (h : AddObject.run p S = .ok S') : FrameOK (AddObject.targets p) (fun _ => false) S S' :=
  AddObject.frame p S S' hw h
theorem C15_add_object_absent (p : AddObject.Params) (S : Schemas) (hn : ∀ s ∈ S, s.pkg ≠ p.object.pkg) :
    AddObject.run p S = .ok S := AddObject.absent p S hn
example : AddObject.fresh { AddObject.wP with object := ⟨"p", "New"⟩ } AddObject.wS = true := by decide

/-! ## add_fields -/
theorem C15_add_fields_correct (p : AddFields.Params) (S S' : Schemas) (hw : WF S)
    (h : AddFields.run p S = .ok S') : S' = AddFields.spec p S := AddFields.correct p S S' hw h
theorem C15_add_fields_frame (p : AddFields.Params) (S S' : Schemas) (hw : WF S)
    (h : AddFields.run p S = .ok S') : FrameOK (AddFields.targets p) (fun _ => false) S S' :=
  AddFields.frame p S S' hw h
theorem C15_add_fields_absent (p : AddFields.Params) (S S' : Schemas) (hw : WF S)
    (hn : NoTarget (AddFields.targets p) S) (h : AddFields.run p S = .ok S') : S' = S :=
  AddFields.absent p S S' hw hn h
/-- "existing fields will not be overwritten": they stay, in order, in front of the added ones -/
theorem C15_add_fields_keeps_existing (news fs : List Field) : fs <+: news.foldl AddFields.addField fs :=
  AddFields.foldl_addField_prefix news fs
/-- every configured field name is present afterwards -/
theorem C15_add_fields_adds (news fs : List Field) (n : Field) (hn : n ∈ news) :
    (news.foldl AddFields.addField fs).any (·.name == n.name) = true := AddFields.foldl_addField_has news fs n hn

/-! ## fields_set_required / fields_set_not_required -/
theorem C15_fields_set_required_correct (p : FieldsSetRequired.Params) (S S' : Schemas) (hw : WF S)
    (h : FieldsSetRequired.run p S = .ok S') : S' = FieldsSetRequired.spec true p S :=
  FieldsSetRequired.correctWith true p S S' hw h
theorem C15_fields_set_required_frame (p : FieldsSetRequired.Params) (S S' : Schemas) (hw : WF S)
    (h : FieldsSetRequired.run p S = .ok S') : FrameOK (FieldsSetRequired.targets p) (fun _ => false) S S' :=
  FieldsSetRequired.frameWith true p S S' hw h
theorem C15_fields_set_required_absent (p : FieldsSetRequired.Params) (S S' : Schemas) (hw : WF S)
    (hn : NoTarget (FieldsSetRequired.targets p) S) (h : FieldsSetRequired.run p S = .ok S') : S' = S :=
  FieldsSetRequired.absentWith true p S S' hw hn h
theorem C15_fields_set_not_required_correct (p : FieldsSetNotRequired.Params) (S S' : Schemas) (hw : WF S)
    (h : FieldsSetNotRequired.run p S = .ok S') : S' = FieldsSetRequired.spec false p S :=
  FieldsSetRequired.correctWith false p S S' hw h
theorem C15_fields_set_not_required_frame (p : FieldsSetNotRequired.Params) (S S' : Schemas) (hw : WF S)
    (h : FieldsSetNotRequired.run p S = .ok S') : FrameOK (FieldsSetRequired.targets p) (fun _ => false) S S' :=
  FieldsSetRequired.frameWith false p S S' hw h
theorem C15_fields_set_not_required_absent (p : FieldsSetNotRequired.Params) (S S' : Schemas) (hw : WF S)
    (hn : NoTarget (FieldsSetRequired.targets p) S) (h : FieldsSetNotRequired.run p S = .ok S') : S' = S :=
  FieldsSetRequired.absentWith false p S S' hw hn h

/-! ## retype_object -/
theorem C15_retype_object_correct (p : RetypeObject.Params) (S S' : Schemas) (hw : WF S)
    (h : RetypeObject.run p S = .ok S') : S' = RetypeObject.spec p S := RetypeObject.correct p S S' hw h
theorem C15_retype_object_frame (p : RetypeObject.Params) (S S' : Schemas) (hw : WF S)
    (h : RetypeObject.run p S = .ok S') : FrameOK (RetypeObject.targets p) (fun _ => false) S S' :=
  RetypeObject.frame p S S' hw h
theorem C15_retype_object_absent (p : RetypeObject.Params) (S S' : Schemas) (hw : WF S)
    (hn : NoTarget (RetypeObject.targets p) S) (h : RetypeObject.run p S = .ok S') : S' = S :=
  RetypeObject.absent p S S' hw hn h

/-! ## retype_field -/
def C15_retype_field_full : Prop := RetypeField.full
theorem C15_retype_field_counterexample : ¬ C15_retype_field_full := RetypeField.counterexample
/-- hypothesis: no object has two fields accepted by the reference -/
theorem C15_retype_field_correct_partial (p : RetypeField.Params) (S S' : Schemas) (hw : WF S)
    (hs : RetypeField.singleMatch p S = true) (h : RetypeField.run p S = .ok S') : S' = RetypeField.spec p S :=
  RetypeField.correct_partial p S S' hw hs h
theorem C15_retype_field_frame (p : RetypeField.Params) (S S' : Schemas) (hw : WF S)
    (h : RetypeField.run p S = .ok S') : FrameOK (RetypeField.targets p) (fun _ => false) S S' :=
  RetypeField.frame p S S' hw h
theorem C15_retype_field_absent (p : RetypeField.Params) (S S' : Schemas) (hw : WF S)
    (hn : NoTarget (RetypeField.targets p) S) (h : RetypeField.run p S = .ok S') : S' = S :=
  RetypeField.absent p S S' hw hn h
example : RetypeField.singleMatch { RetypeField.wParams with field := ⟨"p", "A", "Value"⟩ }
    [{ pkg := "p", objects := [("A", { RetypeField.wObj with ty := .struct [{ name := "Value", ty := RetypeField.wBool, required := true }] [] none freshMeta })] }] = true := by
  decide

/-! ## PrefixObjectsNames (helpers.go) -/
def C15_prefix_full : Prop := PrefixObjectNames.full
theorem C15_prefix_counterexample_enum : ¬ C15_prefix_full := PrefixObjectNames.counterexample_enum
theorem C15_prefix_counterexample_entrypoint : ¬ C15_prefix_full := PrefixObjectNames.counterexample_entrypoint
theorem C15_prefix_counterexample_offpath : ¬ C15_prefix_full := PrefixObjectNames.counterexample_offpath
/-- hypothesis `hyp`: no entry point name; enum member names the code's hook leaves alone; nothing
    that refers to an object by name where the Visitor does not go -/
theorem C15_prefix_correct_partial (p : PrefixObjectNames.Params) (S S' : Schemas) (hw : WF S)
    (hh : PrefixObjectNames.hyp p S = true) (h : PrefixObjectNames.run p S = .ok S') :
    S' = PrefixObjectNames.spec p S := PrefixObjectNames.correct_partial p S S' hw hh h
theorem C15_prefix_frame (p : PrefixObjectNames.Params) (S S' : Schemas) (h : PrefixObjectNames.run p S = .ok S') :
    FrameOK (fun _ _ => true) (fun _ => true) S S' := PrefixObjectNames.frame p S S' h
theorem C15_prefix_absent (p : PrefixObjectNames.Params) (S : Schemas) (h : p.pfx = "") :
    PrefixObjectNames.run p S = .ok S := PrefixObjectNames.absent p S h
example : PrefixObjectNames.hyp PrefixObjectNames.wP (PrefixObjectNames.wS "" (.array (.ref "p" "A" freshMeta) freshMeta)) = true := by
  decide

/-! ## AppendCommentToObjects (helpers.go) -/
theorem C15_append_comment_correct (p : AppendCommentObjects.Params) (S S' : Schemas) (hw : WF S)
    (h : AppendCommentObjects.run p S = .ok S') : S' = AppendCommentObjects.spec p S :=
  AppendCommentObjects.correct p S S' hw h
theorem C15_append_comment_frame (p : AppendCommentObjects.Params) (S S' : Schemas) (hw : WF S)
    (h : AppendCommentObjects.run p S = .ok S') : FrameOK (AppendCommentObjects.targets p) (fun _ => false) S S' :=
  AppendCommentObjects.frame p S S' hw h
theorem C15_append_comment_absent (p : AppendCommentObjects.Params) (S S' : Schemas) (hw : WF S)
    (hn : NoTarget (AppendCommentObjects.targets p) S) (h : AppendCommentObjects.run p S = .ok S') : S' = S :=
  AppendCommentObjects.absent p S S' hw hn h

/-! ## schema_set_identifier / schema_set_entry_point -/
theorem C15_schema_set_identifier_correct (p : SchemaSetIdentifier.Params) (S S' : Schemas)
    (h : SchemaSetIdentifier.run p S = .ok S') : S' = SchemaSetIdentifier.spec p S := SchemaSetIdentifier.correct p S S' h
theorem C15_schema_set_identifier_frame (p : SchemaSetIdentifier.Params) (S S' : Schemas)
    (h : SchemaSetIdentifier.run p S = .ok S') :
    FrameOK (fun _ _ => false) (SchemaSetIdentifier.targetsSchema p) S S' := SchemaSetIdentifier.frame p S S' h
theorem C15_schema_set_identifier_absent (p : SchemaSetIdentifier.Params) (S : Schemas)
    (hn : ∀ s ∈ S, s.pkg ≠ p.pkg) : SchemaSetIdentifier.run p S = .ok S := SchemaSetIdentifier.absent p S hn
theorem C15_schema_set_entry_point_correct (p : SchemaSetEntryPoint.Params) (S S' : Schemas)
    (h : SchemaSetEntryPoint.run p S = .ok S') : S' = SchemaSetEntryPoint.spec p S := SchemaSetEntryPoint.correct p S S' h
theorem C15_schema_set_entry_point_frame (p : SchemaSetEntryPoint.Params) (S S' : Schemas)
    (h : SchemaSetEntryPoint.run p S = .ok S') :
    FrameOK (fun _ _ => false) (SchemaSetEntryPoint.targetsSchema p) S S' := SchemaSetEntryPoint.frame p S S' h
theorem C15_schema_set_entry_point_absent (p : SchemaSetEntryPoint.Params) (S : Schemas)
    (hn : ∀ s ∈ S, s.pkg ≠ p.pkg) : SchemaSetEntryPoint.run p S = .ok S := SchemaSetEntryPoint.absent p S hn

/-! ## trim_enum_values -/
def C15_trim_enum_values_full : Prop := TrimEnumValues.full
theorem C15_trim_enum_values_counterexample_offpath : ¬ C15_trim_enum_values_full := TrimEnumValues.counterexample_offpath
/-- hypothesis: no enum in need of trimming where the Visitor does not go (map index types, …) -/
theorem C15_trim_enum_values_correct_partial (S S' : Schemas) (hw : WF S) (hh : TrimEnumValues.hyp S = true)
    (h : TrimEnumValues.run () S = .ok S') : S' = TrimEnumValues.spec S := TrimEnumValues.correct_partial S S' hw hh h
theorem C15_trim_enum_values_frame (S S' : Schemas) (hw : WF S) (h : TrimEnumValues.run () S = .ok S') :
    FrameOK TrimEnumValues.targets TrimEnumValues.targetsSchema S S' := TrimEnumValues.frame S S' hw h
theorem C15_trim_enum_values_absent (S S' : Schemas) (hw : WF S) (hn : NoTarget TrimEnumValues.targets S)
    (hs : ∀ s ∈ S, TrimEnumValues.targetsSchema s = false) (h : TrimEnumValues.run () S = .ok S') : S' = S :=
  TrimEnumValues.absent S S' hw hn hs h
example : TrimEnumValues.hyp [{ pkg := "p", objects := [("A", { TrimEnumValues.wO with ty := TrimEnumValues.wEnum })] }] = true := by
  decide

/-! ## constant_to_enum -/
def C15_constant_to_enum_full : Prop := ConstantToEnum.full
theorem C15_constant_to_enum_counterexample : ¬ C15_constant_to_enum_full := ConstantToEnum.counterexample
/-- hypothesis: the targeted constants carry no Nullable flag, default or hints -/
theorem C15_constant_to_enum_correct_partial (p : ConstantToEnum.Params) (S S' : Schemas) (hw : WF S)
    (hs : ConstantToEnum.plainTargets p S = true) (h : ConstantToEnum.run p S = .ok S') :
    S' = ConstantToEnum.spec p S := ConstantToEnum.correct_partial p S S' hw hs h
/-- a `string` scalar whose constant is not a string is not a target (fix 637545e in /repo; the
    pre-fix code, `ConstantToEnum.runPreFix`, panicked on the same input) -/
theorem C15_constant_to_enum_odd_constant :
    ConstantToEnum.outKind (ConstantToEnum.runPreFix ConstantToEnum.wP ConstantToEnum.wOddSchemas) = "panic" ∧
    ConstantToEnum.targets ConstantToEnum.wP default ConstantToEnum.wOdd = false ∧
    ConstantToEnum.outKind (ConstantToEnum.run ConstantToEnum.wP ConstantToEnum.wOddSchemas) = "ok" :=
  ⟨ConstantToEnum.preFix_panics, ConstantToEnum.odd_constant_untouched⟩
theorem C15_constant_to_enum_frame (p : ConstantToEnum.Params) (S S' : Schemas) (hw : WF S)
    (h : ConstantToEnum.run p S = .ok S') : FrameOK (ConstantToEnum.targets p) (fun _ => false) S S' :=
  ConstantToEnum.frame p S S' hw h
theorem C15_constant_to_enum_absent (p : ConstantToEnum.Params) (S S' : Schemas) (hw : WF S)
    (hn : NoTarget (ConstantToEnum.targets p) S) (h : ConstantToEnum.run p S = .ok S') : S' = S :=
  ConstantToEnum.absent p S S' hw hn h
example : ConstantToEnum.plainTargets ConstantToEnum.wP
    [{ pkg := "p", objects := [("K", { ConstantToEnum.wK with ty := .scalar "string" (.str "v") [] freshMeta })] }] = true := by
  decide

/-! ## fields_set_default -/
theorem C15_fields_set_default_correct (p : FieldsSetDefault.Params) (S S' : Schemas) (hw : WF S)
    (h : FieldsSetDefault.run p S = .ok S') : S' = FieldsSetDefault.spec p S := FieldsSetDefault.correct p S S' hw h
theorem C15_fields_set_default_frame (p : FieldsSetDefault.Params) (S S' : Schemas) (hw : WF S)
    (h : FieldsSetDefault.run p S = .ok S') : FrameOK (FieldsSetDefault.targets p) (fun _ => false) S S' :=
  FieldsSetDefault.frame p S S' hw h
theorem C15_fields_set_default_absent (p : FieldsSetDefault.Params) (S S' : Schemas) (hw : WF S)
    (hn : NoTarget (FieldsSetDefault.targets p) S) (h : FieldsSetDefault.run p S = .ok S') : S' = S :=
  FieldsSetDefault.absent p S S' hw hn h
/-- `defaults` is a Go map (distinct keys, no order): the outcome does not depend on the order in
    which the map iteration delivers the entries (the pass sorts them; fixed in /repo by 55a988e,
    before that two keys differing in letter case made the result depend on it) -/
theorem C15_fields_set_default_order_independent (p p' : FieldsSetDefault.Params) (S : Schemas)
    (hp : p'.defaults.Perm p.defaults) (hk : (p.defaults.map (·.1)).Nodup) :
    FieldsSetDefault.run p' S = FieldsSetDefault.run p S := FieldsSetDefault.order_independent p p' S hp hk
example : (FieldsSetDefault.wP.defaults.map (·.1)).Nodup := by decide

/-! ## hint_object -/
theorem C15_hint_object_correct (p : HintObject.Params) (S S' : Schemas) (hw : WF S)
    (h : HintObject.run p S = .ok S') : S' = HintObject.spec p S := HintObject.correct p S S' hw h
theorem C15_hint_object_frame (p : HintObject.Params) (S S' : Schemas) (hw : WF S)
    (h : HintObject.run p S = .ok S') : FrameOK (HintObject.targets p) (fun _ => false) S S' :=
  HintObject.frame p S S' hw h
theorem C15_hint_object_absent (p : HintObject.Params) (S S' : Schemas) (hw : WF S)
    (hn : NoTarget (HintObject.targets p) S) (h : HintObject.run p S = .ok S') : S' = S :=
  HintObject.absent p S S' hw hn h
/-- the transformation is also documented to WORK: it does, on every schema without nil kind
    pointers (a nil `Hints` map included, since fix d683cb9 in /repo) -/
theorem C15_hint_object_total (p : HintObject.Params) (S : Schemas) (hep : HintObject.EPWalkable S) :
    ∃ S', HintObject.run p S = .ok S' := HintObject.total p S hep
/-- the former defect, as a statement about the pre-fix code (`HintObject.runPreFix`) -/
def C15_hint_object_total_full_preFix : Prop := HintObject.total_full_preFix
theorem C15_hint_object_preFix_counterexample : ¬ C15_hint_object_total_full_preFix := HintObject.counterexample_preFix

/-! ## sequences of transformations -/

/-- targets of one step, against the schemas it is applied to -/
def Xf.tObj : Xf → Schema → Obj → Bool
  | .renameObject p => RenameObject.targets p
  | .omit p => Omit.targets p
  | .omitFields p => OmitFields.targets p
  | .addFields p => AddFields.targets p
  | .addObject p => AddObject.targets p
  | .duplicateObject p => fun s o => DuplicateObject.targets p s o
  | .retypeObject p => RetypeObject.targets p
  | .retypeField p => RetypeField.targets p
  | .fieldsSetRequired p => FieldsSetRequired.targets p
  | .fieldsSetNotRequired p => FieldsSetRequired.targets p
  | .fieldsSetDefault p => FieldsSetDefault.targets p
  | .replaceReference p => ReplaceReference.targets p
  | .constantToEnum p => ConstantToEnum.targets p
  | .trimEnumValues => TrimEnumValues.targets
  | .hintObject p => HintObject.targets p
  | .schemaSetIdentifier _ => fun _ _ => false
  | .schemaSetEntryPoint _ => fun _ _ => false
  | .prefixObjectNames _ => fun _ _ => true
  | .appendCommentObjects p => AppendCommentObjects.targets p
  | .unspec => fun _ _ => true

def Xf.tSch : Xf → Schema → Bool
  | .renameObject p => RenameObject.targetsSchema p
  | .replaceReference p => ReplaceReference.targetsSchema p
  | .trimEnumValues => TrimEnumValues.targetsSchema
  | .schemaSetIdentifier p => SchemaSetIdentifier.targetsSchema p
  | .schemaSetEntryPoint p => SchemaSetEntryPoint.targetsSchema p
  | .prefixObjectNames _ => fun _ => true
  | .unspec => fun _ => true
  | _ => fun _ => false

/-- side condition of one step: rename_object must not collide; `unspec` is not a C15
    transformation (modelled for C05, no frame theorem) -/
def Xf.stepOK : Xf → Schemas → Bool
  | .renameObject p, S => RenameObject.noCollision p S
  | .unspec, _ => false
  | _, _ => true

/-- one step: frame and well-formedness of the result -/
theorem C15_step (t : Xf) (S S' : Schemas) (hw : WF S) (hk : t.stepOK S = true) (h : t.run S = .ok S') :
    FrameOK t.tObj t.tSch S S' ∧ WF S' := by
  cases t with
  | renameObject p => exact ⟨RenameObject.frame_partial p S S' hw hk h, RenameObject.wf_partial p S S' hk h⟩
  | «omit» p => exact ⟨Omit.frame p S S' h, Omit.wf p S S' hw h⟩
  | omitFields p =>
    refine ⟨OmitFields.frame p S S' hw h, ?_⟩
    rw [OmitFields.correct p S S' hw h]
    exact mapObjs_wf _ (fun o => by unfold OmitFields.specObj; split <;> rfl) S hw
  | addFields p => exact ⟨AddFields.frame p S S' hw h, AddFields.wf p S S' hw h⟩
  | addObject p => exact ⟨AddObject.frame p S S' hw h, AddObject.wf p S S' hw h⟩
  | duplicateObject p => exact ⟨DuplicateObject.frame p S S' hw h, DuplicateObject.wf p S S' hw h⟩
  | retypeObject p => exact ⟨RetypeObject.frame p S S' hw h, RetypeObject.wf p S S' hw h⟩
  | retypeField p => exact ⟨RetypeField.frame p S S' hw h, RetypeField.wf p S S' hw h⟩
  | fieldsSetRequired p =>
    exact ⟨FieldsSetRequired.frameWith true p S S' hw h, FieldsSetRequired.wfWith true p S S' hw h⟩
  | fieldsSetNotRequired p =>
    exact ⟨FieldsSetRequired.frameWith false p S S' hw h, FieldsSetRequired.wfWith false p S S' hw h⟩
  | fieldsSetDefault p => exact ⟨FieldsSetDefault.frame p S S' hw h, FieldsSetDefault.wf p S S' hw h⟩
  | replaceReference p => exact ⟨ReplaceReference.frame p S S' hw h, ReplaceReference.wf p S S' hw h⟩
  | constantToEnum p => exact ⟨ConstantToEnum.frame p S S' hw h, ConstantToEnum.wf p S S' hw h⟩
  | trimEnumValues => exact ⟨TrimEnumValues.frame S S' hw h, TrimEnumValues.wf S S' hw h⟩
  | hintObject p => exact ⟨HintObject.frame p S S' hw h, HintObject.wf p S S' hw h⟩
  | schemaSetIdentifier p => exact ⟨SchemaSetIdentifier.frame p S S' h, SchemaSetIdentifier.wf p S S' hw h⟩
  | schemaSetEntryPoint p => exact ⟨SchemaSetEntryPoint.frame p S S' h, SchemaSetEntryPoint.wf p S S' hw h⟩
  | prefixObjectNames p => exact ⟨PrefixObjectNames.frame p S S' h, PrefixObjectNames.wf p S S' hw h⟩
  | appendCommentObjects p => exact ⟨AppendCommentObjects.frame p S S' hw h, AppendCommentObjects.wf p S S' hw h⟩
  | unspec => simp [Xf.stepOK] at hk

/-- the frame of a whole sequence: every step is framed against the schemas IT was applied to
    (targets are recomputed against the intermediate schemas, as the code does) -/
inductive SeqFrame : List Xf → Schemas → Schemas → Prop
  | nil (S : Schemas) : SeqFrame [] S S
  | cons {t : Xf} {ts : List Xf} {S S1 S' : Schemas} :
      t.run S = .ok S1 → FrameOK t.tObj t.tSch S S1 → SeqFrame ts S1 S' → SeqFrame (t :: ts) S S'

/-- side conditions of a sequence, each evaluated on the intermediate schemas -/
def seqOK : List Xf → Schemas → Bool
  | [], _ => true
  | t :: ts, S => t.stepOK S && (match t.run S with | .ok S1 => seqOK ts S1 | _ => true)

theorem C15_seq (ts : List Xf) : ∀ (S S' : Schemas), WF S → seqOK ts S = true → applyAll ts S = .ok S' →
    SeqFrame ts S S' ∧ WF S' := by
  induction ts with
  | nil =>
    intro S S' hw _ h
    simp only [applyAll, Outcome.ok.injEq] at h
    subst h
    exact ⟨SeqFrame.nil S, hw⟩
  | cons t ts ih =>
    intro S S' hw hk h
    simp only [seqOK, Bool.and_eq_true] at hk
    cases hr : t.run S with
    | ok S1 =>
      simp only [applyAll, hr] at h
      simp only [hr] at hk
      obtain ⟨hf, hw1⟩ := C15_step t S S1 hw hk.1 hr
      obtain ⟨hs, hw'⟩ := ih S1 S' hw1 hk.2 h
      exact ⟨SeqFrame.cons hr hf hs, hw'⟩
    | err e => simp [applyAll, hr] at h
    | panic s => simp [applyAll, hr] at h

/-- an object (with its key) is never a target along the sequence: at every step, not a target
    against the schema it then belongs to -/
def Untouched : List Xf → Schemas → Nat → String × Obj → Prop
  | [], _, _, _ => True
  | t :: ts, S, i, kv =>
    (∀ s, S[i]? = some s → t.tObj s kv.2 = false) ∧ (∀ S1, t.run S = .ok S1 → Untouched ts S1 i kv)

/-- … then it is still there, unchanged, in the same schema, after the whole sequence -/
theorem C15_seq_untouched (ts : List Xf) (S S' : Schemas) (hf : SeqFrame ts S S') (i : Nat) (s : Schema)
    (kv : String × Obj) (hs : S[i]? = some s) (hm : kv ∈ s.objects) (hu : Untouched ts S i kv) :
    ∃ s', S'[i]? = some s' ∧ kv ∈ s'.objects := by
  induction hf generalizing s with
  | nil S => exact ⟨s, hs, hm⟩
  | @cons t ts S S1 S' hr hfr _ ih =>
    obtain ⟨h1, h2⟩ := hu
    have hlen := hfr.len
    have hi : i < S1.length := by
      rw [hlen]; exact (List.getElem?_eq_some_iff.mp hs).1
    obtain ⟨s1, hs1⟩ : ∃ s1, S1[i]? = some s1 := ⟨S1[i], List.getElem?_eq_getElem hi⟩
    have hsub := hfr.objs i s s1 hs hs1
    have hin : kv ∈ s.objects.filter fun x => !t.tObj s x.2 := by
      apply List.mem_filter.mpr
      exact ⟨hm, by simp [h1 s hs]⟩
    exact ih s1 hs1 (hsub.subset hin) (h2 S1 hr)

/-- `Passes.Process` copies the schemas first; the copy is well-formed when the input is -/
theorem deepCopy_wf (S : Schemas) (hw : WF S) : WF (deepCopySchemas S) := by
  intro s' hs'
  simp only [deepCopySchemas, List.mem_map] at hs'
  obtain ⟨s, hs, rfl⟩ := hs'
  have h := hw s hs
  refine ⟨?_, ?_⟩
  · intro kv hkv
    simp only [deepCopySchema, List.mem_map] at hkv
    obtain ⟨kv0, hkv0, rfl⟩ := hkv
    exact h.1 kv0 hkv0
  · simpa [deepCopySchema, List.map_map, Function.comp_def] using h.2

theorem C15_process (ts : List Xf) (S S' : Schemas) (hw : WF S) (hk : seqOK ts (deepCopySchemas S) = true)
    (h : process ts S = .ok S') : SeqFrame ts (deepCopySchemas S) S' ∧ WF S' :=
  C15_seq ts (deepCopySchemas S) S' (deepCopy_wf S hw) hk h

end Cog.Xform
