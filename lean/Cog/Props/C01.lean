/-
  C01 — documents the source schema accepts load into generated Go types and round-trip.

  What is proved here (for ALL schemas, types, documents and fuel values, by induction):
  the codec part (d) of DESIGN.md's decomposition — on the post-chain IR, every document of the
  document language `den` (= `J⟦S,t⟧` restricted to the fragment listed in Cog/Sem/Den.lean)
  is decoded without error by the model of the generated Go types (`goDecode` = encoding/json on
  the generated type) and re-encodes (`goEncode` = json.Marshal) to a JSON-equal document up to
  omission of null members (`Json.eqv`).

  What is NOT proved and stays under the correspondence check only (stated in the evidence):
  (b) parser soundness `valid D root d → den (parse_f D) root d` and (c) that the Go chain's passes
  only widen `den`; the strict decoder (see C08).  The tie between `goDecode/goEncode` and the real
  generated code is the golab correspondence stream.

  The full statement (without the fragment restrictions) is FALSE on the current tree; the
  counterexamples below are evaluated on the model and replayed on real generated code by the check.
-/
import Cog.Sem.RoundTrip
import Cog.Sem.DenMono
namespace Cog.Sem
open Cog.IR GoVal

/-- Round trip of the generated Go codec on the proved fragment. -/
theorem C01_codec_roundtrip_partial (ss : Schemas) (n : Nat) (t : Ty) (j : Json)
    (h : den n ss t j = true) :
    ∃ v, goDecode n ss t j = .ok v ∧ Json.eqv (goEncode v) j = true := by
  obtain ⟨v, hv, g⟩ := roundtrip_core ss n t j h
  exact ⟨v, hv, by simp [Json.eqv, g.enc_sub, g.sub_enc]⟩

/-- Fuel-free reading: a document in the document language at SOME fuel round-trips at EVERY
    larger fuel (the fuel only bounds how deep references are unfolded). -/
theorem C01_codec_roundtrip_any_fuel_partial (ss : Schemas) (n : Nat) (t : Ty) (j : Json)
    (h : den n ss t j = true) (m : Nat) (hm : n ≤ m) :
    ∃ v, goDecode m ss t j = .ok v ∧ Json.eqv (goEncode v) j = true :=
  C01_codec_roundtrip_partial ss m t j (den_mono_le ss n m hm t j h)

/-- The same for a named object (what the lab driver's `dec` does). -/
theorem C01_object_roundtrip_partial (ss : Schemas) (n : Nat) (pkg name : String) (j : Json)
    (h : den n ss (.ref pkg name {}) j = true) :
    ∃ j', goRoundTrip n ss pkg name j = .ok j' ∧ Json.eqv j' j = true := by
  obtain ⟨v, hv, he⟩ := C01_codec_roundtrip_partial ss n _ j h
  exact ⟨goEncode v, by simp [goRoundTrip, hv, DRes.map, DRes.bind], he⟩

/-- decoding never panics or loops in the model: it is a total function (Lean's termination
    checker), and on the fragment it never answers `fuel`/`unsup`. -/
theorem C01_decode_defined_partial (ss : Schemas) (n : Nat) (t : Ty) (j : Json)
    (h : den n ss t j = true) : goDecode n ss t j ≠ .fuel ∧ ∀ w, goDecode n ss t j ≠ .unsup w := by
  obtain ⟨v, hv, _⟩ := roundtrip_core ss n t j h
  rw [hv]; exact ⟨by simp, by simp⟩

/-! ### non-vacuity: a concrete schema and document in the fragment -/

def m0 : Meta := {}
def mN : Meta := { nullable := true }
def tStr : Ty := .scalar "string" .nil [] m0

def rootTy : Ty :=
  .struct [
    { name := "name", ty := tStr, required := true },
    { name := "count", ty := .scalar "int64" .nil [] mN, required := false },
    { name := "tags", ty := .array tStr mN, required := false },
    { name := "child", ty := .ref "p" "Root" mN, required := false }] [] none m0

def exSchemas : Schemas :=
  [{ pkg := "p", objects := [("Root", { name := "Root", selfPkg := "p", selfName := "Root", ty := rootTy })] }]

def exDoc : Json :=
  .obj [("tags", .arr [.str "a"]), ("name", .str "x"), ("count", .null),
        ("child", .obj [("name", .str "y")])]

example : den 8 exSchemas (.ref "p" "Root" {}) exDoc = true := by decide +kernel

/-! ### the full statement fails on the current tree (model-level witnesses; the check replays
    the same documents on real generated code) -/

/-- what the full statement demands of one document: it decodes and re-encodes to an equivalent document -/
def roundTripsOK (ss : Schemas) (pkg name : String) (d : Json) : Bool :=
  match goRoundTrip 8 ss pkg name d with
  | .ok j' => Json.eqv j' d
  | _ => false

/-- optional array given as `[]`: dropped by `omitempty`, the re-encoded document lacks the member -/
theorem C01_counterexample_empty_optional_array :
    roundTripsOK exSchemas "p" "Root" (.obj [("name", .str "x"), ("tags", .arr [])]) = false := by
  decide +kernel

def kindTy (v : String) : Ty :=
  .struct [{ name := "kind", ty := .scalar "string" (.str v) [] m0, required := true }] [] none m0

def unionTy : Ty :=
  .struct [
    { name := "A", ty := .ref "p" "A" mN, required := false },
    { name := "B", ty := .ref "p" "B" mN, required := false }]
    [.ref "p" "A" m0, .ref "p" "B" m0]
    (some ("disjunction_of_refs", { discriminator := "kind", mapping := [("a", "A"), ("b", "B")] })) m0

def exUnion : Schemas :=
  [{ pkg := "p", objects := [
      ("A", { name := "A", selfPkg := "p", selfName := "A", ty := kindTy "a" }),
      ("B", { name := "B", selfPkg := "p", selfName := "B", ty := kindTy "b" }),
      ("AOrB", { name := "AOrB", selfPkg := "p", selfName := "AOrB", ty := unionTy })] }]

/-- a tagged-union document whose discriminator is unknown decodes WITHOUT error to an empty
    union and re-encodes as `null` -/
theorem C01_counterexample_unknown_discriminator :
    roundTripsOK exUnion "p" "AOrB" (.obj [("kind", .str "triangle")]) = false ∧
    (match goRoundTrip 8 exUnion "p" "AOrB" (.obj [("kind", .str "triangle")]) with
     | .ok j' => j'.isNull | _ => false) = true := by
  constructor <;> decide +kernel

/-- the union example does round-trip for a mapped discriminator (non-vacuity of the union case) -/
example : den 8 exUnion (.ref "p" "AOrB" {}) (.obj [("kind", .str "b")]) = true := by decide +kernel

end Cog.Sem
