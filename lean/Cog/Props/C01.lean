/-
  C01 — documents the source schema accepts load into generated Go types and round-trip.

  What is proved here (for ALL schemas, types, documents and fuel values, by induction):
  the codec part (d) of DESIGN.md's decomposition — on the post-chain IR, every document of the
  document language `den` (= `J⟦S,t⟧` restricted to the fragment listed in Cog/Sem/Den.lean)
  is decoded without error by the model of the generated Go types (`goDecode` = encoding/json on
  the generated type) and re-encodes (`goEncode` = json.Marshal) to a JSON-equal document up to
  omission of null members (`Json.eqv`).

  Part (c), pass widening, is proved on the PLAIN fragment of the pre-chain IR (`Plain`,
  Cog/Sem/SrcDen.lean: no disjunction, intersection, anonymous struct / enum in type position,
  constant reference): through the REAL regenerated Go chain (`Cog.Gen.Chains.goChain`, run by
  `Cog.Passes.runChain` over the per-pass models), every document of the source-side language
  `srcDen` of the pre-chain IR (a non-required field may be absent whatever its type) belongs to
  `den` of the post-chain IR, for the same type and fuel (`C01_pass_widening_plain_partial`), hence
  decodes and re-encodes JSON-equal (`C01_source_roundtrip_plain_partial`).  Extensions (`PlainX`):
  two-branch `T | null` disjunctions in field / element / map-value position, which
  DisjunctionWithNullToOptional turns into the nullable `T`, and anonymous enums, which
  AnonymousEnumToExplicitType turns into references to new enum objects, under the decidable
  hypothesis that the generated names are fresh (`C01_pass_widening_ext_partial`, one more unit of
  fuel); anonymous structs in type position, which AnonymousStructsToNamed turns into references
  to new struct objects, again under freshness of the generated names
  (`C01_pass_widening_struct_partial`, fragment `PlainS`).  The full statement is refuted (`C01_pass_widening_counterexample`: a generated name that
  overwrites a user definition).  The tie of `Plain`, `PlainX`, `srcDen` and of the pass models to
  the code is the `c01-src` stream (harness/c01_src.go).

  What is NOT proved and stays under the correspondence check only (stated in the evidence):
  (b) parser soundness `valid D root d → srcDen (parse_f D) root d`; (c) outside the plain fragment;
  the strict decoder (see C08).  The tie between `goDecode/goEncode` and the real generated code is
  the golab correspondence stream.

  The full statement (without the fragment restrictions) is FALSE on the current tree; the
  counterexamples below are evaluated on the model and replayed on real generated code by the check.
-/
import Cog.Sem.RoundTrip
import Cog.Sem.DenMono
import Cog.Sem.WidenChain
import Cog.Sem.WidenChainN
import Cog.Sem.WidenWitness
import Cog.Sem.WidenStruct
import Cog.Gen.Chains
import Cog.Front.JsonSchemaSoundMain
import Cog.Front.OpenApiSoundMain
import Cog.Front.CueSound
namespace Cog.Sem
open Cog.IR GoVal

/-- Round trip of the generated Go codec on the proved fragment. -/
theorem C01_codec_roundtrip_partial (ss : Schemas) (n : Nat) (t : Ty) (j : Json)
    (h : den n ss t j = true) :
    ∃ v, goDecode n ss t j = .ok v ∧ Json.eqv (goEncode v) j = true := by
  obtain ⟨v, hv, g⟩ := roundtrip_core ss n t j h
  exact ⟨v, hv, by simp [Json.eqv, g.enc_sub, g.sub_enc]⟩

/-- Fuel-free reading: a document in the document language at SOME fuel round-trips at EVERY
    larger fuel (the fuel only bounds how deep references are unfolded). -/
theorem C01_codec_roundtrip_any_fuel_partial (ss : Schemas) (n : Nat) (t : Ty) (j : Json)
    (h : den n ss t j = true) (m : Nat) (hm : n ≤ m) :
    ∃ v, goDecode m ss t j = .ok v ∧ Json.eqv (goEncode v) j = true :=
  C01_codec_roundtrip_partial ss m t j (den_mono_le ss n m hm t j h)

/-- The same for a named object (what the lab driver's `dec` does). -/
theorem C01_object_roundtrip_partial (ss : Schemas) (n : Nat) (pkg name : String) (j : Json)
    (h : den n ss (.ref pkg name {}) j = true) :
    ∃ j', goRoundTrip n ss pkg name j = .ok j' ∧ Json.eqv j' j = true := by
  obtain ⟨v, hv, he⟩ := C01_codec_roundtrip_partial ss n _ j h
  exact ⟨goEncode v, by simp [goRoundTrip, hv, DRes.map, DRes.bind], he⟩

/-- decoding never panics or loops in the model: it is a total function (Lean's termination
    checker), and on the fragment it never answers `fuel`/`unsup`. -/
theorem C01_decode_defined_partial (ss : Schemas) (n : Nat) (t : Ty) (j : Json)
    (h : den n ss t j = true) : goDecode n ss t j ≠ .fuel ∧ ∀ w, goDecode n ss t j ≠ .unsup w := by
  obtain ⟨v, hv, _⟩ := roundtrip_core ss n t j h
  rw [hv]; exact ⟨by simp, by simp⟩

/-! ### non-vacuity: a concrete schema and document in the fragment -/

def m0 : Meta := {}
def mN : Meta := { nullable := true }
def tStr : Ty := .scalar "string" .nil [] m0

def rootTy : Ty :=
  .struct [
    { name := "name", ty := tStr, required := true },
    { name := "count", ty := .scalar "int64" .nil [] mN, required := false },
    { name := "tags", ty := .array tStr mN, required := false },
    { name := "child", ty := .ref "p" "Root" mN, required := false }] [] none m0

def exSchemas : Schemas :=
  [{ pkg := "p", objects := [("Root", { name := "Root", selfPkg := "p", selfName := "Root", ty := rootTy })] }]

def exDoc : Json :=
  .obj [("tags", .arr [.str "a"]), ("name", .str "x"), ("count", .null),
        ("child", .obj [("name", .str "y")])]

example : den 8 exSchemas (.ref "p" "Root" {}) exDoc = true := by decide +kernel

/-! ### the full statement fails on the current tree (model-level witnesses; the check replays
    the same documents on real generated code) -/

/-- what the full statement demands of one document: it decodes and re-encodes to an equivalent document -/
def roundTripsOK (ss : Schemas) (pkg name : String) (d : Json) : Bool :=
  match goRoundTrip 8 ss pkg name d with
  | .ok j' => Json.eqv j' d
  | _ => false

/-- optional array given as `[]`: dropped by `omitempty`, the re-encoded document lacks the member -/
theorem C01_counterexample_empty_optional_array :
    roundTripsOK exSchemas "p" "Root" (.obj [("name", .str "x"), ("tags", .arr [])]) = false := by
  decide +kernel

def kindTy (v : String) : Ty :=
  .struct [{ name := "kind", ty := .scalar "string" (.str v) [] m0, required := true }] [] none m0

def unionTy : Ty :=
  .struct [
    { name := "A", ty := .ref "p" "A" mN, required := false },
    { name := "B", ty := .ref "p" "B" mN, required := false }]
    [.ref "p" "A" m0, .ref "p" "B" m0]
    (some ("disjunction_of_refs", { discriminator := "kind", mapping := [("a", "A"), ("b", "B")] })) m0

def exUnion : Schemas :=
  [{ pkg := "p", objects := [
      ("A", { name := "A", selfPkg := "p", selfName := "A", ty := kindTy "a" }),
      ("B", { name := "B", selfPkg := "p", selfName := "B", ty := kindTy "b" }),
      ("AOrB", { name := "AOrB", selfPkg := "p", selfName := "AOrB", ty := unionTy })] }]

/-- a tagged-union document whose discriminator is unknown decodes WITHOUT error to an empty
    union and re-encodes as `null` -/
theorem C01_counterexample_unknown_discriminator :
    roundTripsOK exUnion "p" "AOrB" (.obj [("kind", .str "triangle")]) = false ∧
    (match goRoundTrip 8 exUnion "p" "AOrB" (.obj [("kind", .str "triangle")]) with
     | .ok j' => j'.isNull | _ => false) = true := by
  constructor <;> decide +kernel

/-- the union example does round-trip for a mapped discriminator (non-vacuity of the union case) -/
example : den 8 exUnion (.ref "p" "AOrB" {}) (.obj [("kind", .str "b")]) = true := by decide +kernel

/-! ## (c) pass widening through the regenerated Go chain -/

open Cog.Passes Cog.Gen.Chains Cog.Sem.Src

/-- the FULL statement of (c): for every pre-chain IR the front-ends can produce, every document of
    the source-side language of a named object belongs to `den` of the same object after the Go
    chain (at some fuel).  Proved below on the plain fragment only. -/
def C01_pass_widening_full : Prop :=
  ∀ (S S' : Schemas) (pkg name : String) (n : Nat) (j : Json), runChain goChain S = .ok S' →
    srcDen n S (.ref pkg name {}) j = true → ∃ n', den n' S' (.ref pkg name {}) j = true

/-- Pass widening on the plain fragment, through the real regenerated Go chain: a document of the
    source-side language `srcDen` of the pre-chain IR `S` belongs to `den` of the post-chain IR `S'`,
    for the same (plain) type — in particular for every reference to a named object — at the same
    fuel.  `S'` is plain again. -/
theorem C01_pass_widening_plain_partial (S S' : Schemas) (hP : Plain S = true)
    (hrun : runChain goChain S = .ok S') (n : Nat) (t : Ty) (ht : plainTy t = true) (j : Json)
    (h : srcDen n S t j = true) : den n S' t j = true :=
  (widen_chain goChain (by decide) S S' hP hrun).2 n t j ht h

theorem C01_chain_keeps_plain (S S' : Schemas) (hP : Plain S = true)
    (hrun : runChain goChain S = .ok S') : Plain S' = true :=
  (widen_chain goChain (by decide) S S' hP hrun).1

/-- (c) + (d): a source-valid document (in `srcDen` of the plain pre-chain IR) of a named object is
    decoded without error by the generated Go type of the post-chain IR and re-encodes JSON-equal up
    to omission of null members. -/
theorem C01_source_roundtrip_plain_partial (S S' : Schemas) (hP : Plain S = true)
    (hrun : runChain goChain S = .ok S') (n : Nat) (pkg name : String) (j : Json)
    (h : srcDen n S (.ref pkg name {}) j = true) :
    ∃ j', goRoundTrip n S' pkg name j = .ok j' ∧ Json.eqv j' j = true :=
  C01_object_roundtrip_partial S' n pkg name j
    (C01_pass_widening_plain_partial S S' hP hrun n _ rfl j h)

/-- the same for any plain type in field position -/
theorem C01_source_roundtrip_type_plain_partial (S S' : Schemas) (hP : Plain S = true)
    (hrun : runChain goChain S = .ok S') (n : Nat) (t : Ty) (ht : plainTy t = true) (j : Json)
    (h : srcDen n S t j = true) :
    ∃ v, goDecode n S' t j = .ok v ∧ Json.eqv (goEncode v) j = true :=
  C01_codec_roundtrip_partial S' n t j (C01_pass_widening_plain_partial S S' hP hrun n t ht j h)

/-! ### non-vacuity: a plain pre-chain IR with an optional scalar, an optional reference, an
    optional array, a named enum; a document omitting all optional fields -/

def srcRootTy : Ty :=
  .struct [
    { name := "name", ty := tStr, required := true },
    { name := "count", ty := .scalar "int64" .nil [] m0, required := false },
    { name := "tags", ty := .array tStr m0, required := false },
    { name := "child", ty := .ref "p" "Root" m0, required := false },
    { name := "mode", ty := .ref "p" "Mode" m0, required := false }] [] none m0

def srcModeTy : Ty :=
  .enum [{ name := "asc", value := .str "asc", kind := "string" },
         { name := "desc", value := .str "desc", kind := "string" }] m0

def exSrc : Schemas :=
  [{ pkg := "p", objects := [
      ("Root", { name := "Root", selfPkg := "p", selfName := "Root", ty := srcRootTy }),
      ("Mode", { name := "Mode", selfPkg := "p", selfName := "Mode", ty := srcModeTy })] }]

def exSrcDoc : Json := .obj [("name", .str "x"), ("child", .obj [("name", .str "y"), ("mode", .str "desc")])]

/-- the hypotheses of the two theorems hold for the example; the pre-chain IR itself is NOT in `den`
    (its optional fields are not pointers): the widening is what the passes contribute -/
example : Plain exSrc = true ∧
    (match runChain goChain exSrc with | .ok _ => true | _ => false) = true ∧
    srcDen 8 exSrc (.ref "p" "Root" {}) exSrcDoc = true ∧
    den 8 exSrc (.ref "p" "Root" {}) exSrcDoc = false ∧
    (match runChain goChain exSrc with
     | .ok S' => den 8 S' (.ref "p" "Root" {}) exSrcDoc && roundTripsOK S' "p" "Root" exSrcDoc
     | _ => false) = true := by
  refine ⟨by decide +kernel, by decide +kernel, by decide +kernel, by decide +kernel, by decide +kernel⟩

/-! ### extensions: `T | null` pairs (JSON Schema `type: [T, "null"]`, CUE `null | T`) and
    anonymous enums (fragment `PlainX`) -/

/-- Pass widening on the extended fragment, through the real regenerated Go chain.  `PlainX S`
    (decidable): plain types, two-branch `T | null` pairs of a plain `T`, anonymous non-empty enums in
    field / element / map-value position whose generated object names (`<Object><Field>`,
    `<Object>Enum`) are pairwise different and different from the existing object names.
    For a type `t` without anonymous enum — a plain type, a `T | null` pair, in particular every
    reference to a named object — the image is `nullOpt t` (the pair replaced by the nullable `T`;
    `t` itself when it has no pair); one more unit of fuel. -/
theorem C01_pass_widening_ext_partial (S S' : Schemas) (hX : PlainX S = true)
    (hrun : runChain goChain S = .ok S') (n : Nat) (t : Ty) (ht : nrTy t = true)
    (hpt : plainTy (nullOpt t) = true) (j : Json)
    (h : srcDen n S t j = true) : den (n + 1) S' (nullOpt t) j = true :=
  (widen_chainX goChain (by decide) S S' hX hrun).2 n t j ht hpt h

/-- (c) + (d) for the named objects of a pre-chain IR of the extended fragment -/
theorem C01_source_roundtrip_ext_partial (S S' : Schemas) (hX : PlainX S = true)
    (hrun : runChain goChain S = .ok S') (n : Nat) (pkg name : String) (j : Json)
    (h : srcDen n S (.ref pkg name {}) j = true) :
    ∃ j', goRoundTrip (n + 1) S' pkg name j = .ok j' ∧ Json.eqv j' j = true :=
  C01_object_roundtrip_partial S' (n + 1) pkg name j
    (C01_pass_widening_ext_partial S S' hX hrun n _ rfl rfl j h)

def tNull : Ty := .scalar "null" .nil [] m0

def anonEnum : Ty :=
  .enum [{ name := "asc", value := .str "asc", kind := "string" },
         { name := "desc", value := .str "desc", kind := "string" }] m0

def srcRootTyN : Ty :=
  .struct [
    { name := "name", ty := .disj [tStr, tNull] {} m0, required := true },
    { name := "count", ty := .disj [tNull, .scalar "int64" .nil [] m0] {} m0, required := false },
    { name := "tags", ty := .array (.disj [tStr, tNull] {} m0) m0, required := false },
    { name := "child", ty := .disj [.ref "p" "Root" m0, tNull] {} m0, required := false },
    { name := "order", ty := anonEnum, required := false },
    { name := "orders", ty := .array anonEnum m0, required := true }] [] none m0

def exSrcN : Schemas :=
  [{ pkg := "p", objects := [("Root", { name := "Root", selfPkg := "p", selfName := "Root", ty := srcRootTyN })] }]

def exSrcDocN : Json :=
  .obj [("name", .null), ("tags", .arr [.str "a", .null]), ("orders", .arr [.str "asc"]),
        ("child", .obj [("name", .str "y"), ("count", .null), ("order", .str "desc"), ("orders", .arr [])])]

/-- non-vacuity: the example is in `PlainX` but not in `Plain`; the hypotheses hold and so does the
    conclusion evaluated on the model chain; a value outside the anonymous enum is rejected at the source -/
example : PlainX exSrcN = true ∧ Plain exSrcN = false ∧
    srcDen 8 exSrcN (.ref "p" "Root" {}) exSrcDocN = true ∧
    srcDen 8 exSrcN (.ref "p" "Root" {}) (.obj [("name", .null), ("orders", .arr [.str "up"])]) = false ∧
    (match runChain goChain exSrcN with
     | .ok S' => den 9 S' (.ref "p" "Root" {}) exSrcDocN && roundTripsOK S' "p" "Root" exSrcDocN
     | _ => false) = true := by
  refine ⟨by decide +kernel, by decide +kernel, by decide +kernel, by decide +kernel, by decide +kernel⟩

/-! ### third extension: anonymous structs in type position (fragment `PlainS`) -/

/-- Pass widening for the named objects of a pre-chain IR in `PlainS`, through the real regenerated Go
    chain.  `PlainS S` (decidable) = `structFresh S` (well-formed object maps, objects declared in their
    schema's package, the names AnonymousStructsToNamed generates — `<Pkg><Object><Field>…` — pairwise
    different and different from the existing object names) ∧ `PlainX (asnS S)` (the output of that
    pass, a computable function of `S`, lies in the fragment of `C01_pass_widening_ext_partial`).
    Anonymous structs may sit in fields, array elements, map values, below `T | null`, and nest. -/
theorem C01_pass_widening_struct_partial (S S' : Schemas) (hS : PlainS S = true)
    (hrun : runChain goChain S = .ok S') (n : Nat) (pkg name : String) (j : Json)
    (h : srcDen n S (.ref pkg name {}) j = true) : den (n + 1) S' (.ref pkg name {}) j = true :=
  (widen_chainS goChain (by decide) S S' hS hrun).2 n pkg name j h

/-- (c) + (d) for the named objects of a pre-chain IR with anonymous structs -/
theorem C01_source_roundtrip_struct_partial (S S' : Schemas) (hS : PlainS S = true)
    (hrun : runChain goChain S = .ok S') (n : Nat) (pkg name : String) (j : Json)
    (h : srcDen n S (.ref pkg name {}) j = true) :
    ∃ j', goRoundTrip (n + 1) S' pkg name j = .ok j' ∧ Json.eqv j' j = true :=
  C01_object_roundtrip_partial S' (n + 1) pkg name j
    (C01_pass_widening_struct_partial S S' hS hrun n pkg name j h)

def innerStruct : Ty :=
  .struct [{ name := "x", ty := tStr, required := true },
           { name := "deep", ty := .struct [{ name := "k", ty := anonEnum, required := false }] [] none m0, required := false }] [] none m0

def srcRootTyS : Ty :=
  .struct [
    { name := "name", ty := tStr, required := true },
    { name := "opts", ty := innerStruct, required := false },
    { name := "items", ty := .array (.struct [{ name := "v", ty := .scalar "int64" .nil [] m0, required := true }] [] none m0) m0, required := false },
    { name := "maybe", ty := .disj [.struct [{ name := "w", ty := tStr, required := false }] [] none m0, tNull] {} m0, required := true }] [] none m0

def exSrcS : Schemas :=
  [{ pkg := "p", objects := [("Root", { name := "Root", selfPkg := "p", selfName := "Root", ty := srcRootTyS })] }]

def exSrcDocS : Json :=
  .obj [("name", .str "n"), ("maybe", .null),
        ("opts", .obj [("x", .str "a"), ("deep", .obj [("k", .str "asc")])]),
        ("items", .arr [.obj [("v", .num 4)], .obj [("v", .num 8)]])]

/-- non-vacuity: in `PlainS`, not in `PlainX` (anonymous structs); hypotheses and conclusion hold -/
example : PlainS exSrcS = true ∧ PlainX exSrcS = false ∧
    srcDen 8 exSrcS (.ref "p" "Root" {}) exSrcDocS = true ∧
    (match runChain goChain exSrcS with
     | .ok S' => den 9 S' (.ref "p" "Root" {}) exSrcDocS && roundTripsOK S' "p" "Root" exSrcDocS
     | _ => false) = true := by
  refine ⟨by decide +kernel, by decide +kernel, by decide +kernel, by decide +kernel⟩

/-- the witness of the counterexample below is exactly outside `PlainS`: its generated name is not fresh -/
example : structFresh [{ pkg := "p", objects := [
      ("A", { name := "A", selfPkg := "p", selfName := "A", ty :=
        .struct [{ name := "b", ty := .struct [{ name := "x", ty := tStr, required := true }] [] none m0, required := true }] [] none m0 }),
      ("PAB", { name := "PAB", selfPkg := "p", selfName := "PAB", ty := .struct [] [] none m0 })] }] = false := by
  decide +kernel

/-! ### the full statement of (c) is false on the current tree -/

def wA : Ty :=
  .struct [{ name := "b", ty := .struct [{ name := "x", ty := tStr, required := true }] [] none m0, required := true },
           { name := "c", ty := .ref "p" "PAB" m0, required := false }] [] none m0
def wPAB : Ty := .struct [{ name := "y", ty := .scalar "int64" .nil [] m0, required := true }] [] none m0

/-- `A = { b: { x: string }, c?: PAB }` next to a user-defined `PAB = { y: int64 }` in package `p`:
    AnonymousStructsToNamed names the struct of `A.b` `PAB` and overwrites the definition (replayed on
    the real front-end and passes: harness/c01_src.go, `c01PinnedCollide`) -/
def wCollide : Schemas :=
  [{ pkg := "p", objects := [
      ("A", { name := "A", selfPkg := "p", selfName := "A", ty := wA }),
      ("PAB", { name := "PAB", selfPkg := "p", selfName := "PAB", ty := wPAB })] }]

def wDoc : Json := .obj [("y", .num 4)]

/-- `{"y": 1}` is a document of `PAB` at the source, and of no fuel's `den` after the Go chain -/
theorem C01_pass_widening_counterexample : ¬ C01_pass_widening_full := by
  intro hfull
  have hshape : (match runChain goChain wCollide with
      | .ok S' => lacksMember S' "p" "PAB" "y" | _ => false) = true := by decide +kernel
  cases hr : runChain goChain wCollide with
  | ok S' =>
    rw [hr] at hshape
    obtain ⟨n', h⟩ := hfull wCollide S' "p" "PAB" 4 wDoc hr (by decide +kernel)
    rw [wDoc, lacksMember_den S' "p" "PAB" "y" hshape] at h
    cases h
  | err e => rw [hr] at hshape; cases hshape
  | panic e => rw [hr] at hshape; cases hshape

/-- a member outside the enum is rejected at the source (and accepted by `den`, which only reads the kind) -/
example : srcDen 8 exSrc (.ref "p" "Root" {}) (.obj [("name", .str "x"), ("mode", .str "up")]) = false := by
  decide +kernel

/-! ## (b) parser soundness of the JSON Schema front-end
    ---- BEGIN block of the c01-front builder (model: Cog/Front/JsonSchema*.lean; tie: stream `c01-front`) ----

  `frontEnd pkg defs fuel root` is the literal model of internal/jsonschema/generator.go from the compiled
  library value (`JS`) to the full IR; `jsValid` / `jsValidX` the validation semantics of that value (plain /
  outside the three recorded exclusions S1 integers beyond int64, S2 empty optional collections, S3 integers
  ≥ 2^53 under `any`); `FragJS` the decidable fragment (Cog/Front/JsonSchemaFrag.lean).  `fmt` is the oracle for
  asserted `format`s: the theorems hold for every oracle. -/

open Cog.Front.JsonSchema in
/-- the FULL statement of (b) for JSON Schema inputs: every document valid against the root definition is in
    `srcDen` of the IR the front-end builds.  False on the current tree (counterexample below); proved on `FragJS`
    for the strict reading of validity. -/
def C01_jsonschema_parser_sound_full : Prop :=
  ∀ (fmt : String → String → Bool) (pkg : String) (defs : Defs) (root : String) (fuel : Nat) (S : Schemas) (n : Nat) (j : Json),
    frontEnd pkg defs fuel (refTo root) = .ok S → wfDeep j = true → jsValid fmt defs n (refTo root) j = true →
    ∃ n', srcDen n' S (.ref pkg root {}) j = true

open Cog.Front.JsonSchema in
/-- PARSER SOUNDNESS on the fragment: for a compiled schema of `FragJS`, every document (without duplicate
    member names) that is valid against the root definition, outside the recorded exclusions, belongs to the
    source-side document language of the IR the front-end builds from the schema. -/
theorem C01_jsonschema_parser_sound_partial (fmt : String → String → Bool) (pkg : String) (defs : Defs) (root : String)
    (fuel : Nat) (S : Schemas) (hF : FragJS defs (refTo root) = true) (hS : frontEnd pkg defs fuel (refTo root) = .ok S)
    (n : Nat) (j : Json) (hwf : wfDeep j = true) (hv : jsValidX fmt defs n (refTo root) j = true) :
    ∃ n', srcDen n' S (.ref pkg root {}) j = true :=
  ⟨n + 2, parser_sound fmt pkg defs root fuel S hF hS n j hwf hv⟩

open Cog.Front.JsonSchema in
/-- the same with the fuel spelled out (what the driver evaluates on the REAL front-end output) -/
theorem C01_jsonschema_parser_sound_fuel_partial (fmt : String → String → Bool) (pkg : String) (defs : Defs) (root : String)
    (fuel : Nat) (S : Schemas) (hF : FragJS defs (refTo root) = true) (hS : frontEnd pkg defs fuel (refTo root) = .ok S)
    (n : Nat) (j : Json) (hwf : wfDeep j = true) (hv : jsValidX fmt defs n (refTo root) j = true) :
    srcDen (n + 2) S (.ref pkg root {}) j = true :=
  parser_sound fmt pkg defs root fuel S hF hS n j hwf hv

open Cog.Front.JsonSchema in
/-- (b) + (c) + (d), the whole property for JSON Schema inputs on the fragment: a schema-valid document decodes
    without error into the Go types generated from the schema (front-end, then the regenerated Go chain) and
    re-encodes to a document that is JSON-equal up to omission of null members. -/
theorem C01_jsonschema_end_to_end_partial (fmt : String → String → Bool) (pkg : String) (defs : Defs) (root : String)
    (fuel : Nat) (S S' : Schemas) (hF : FragJS defs (refTo root) = true) (hS : frontEnd pkg defs fuel (refTo root) = .ok S)
    (hP : PlainS S = true) (hrun : runChain goChain S = .ok S')
    (n : Nat) (j : Json) (hwf : wfDeep j = true) (hv : jsValidX fmt defs n (refTo root) j = true) :
    ∃ j', goRoundTrip (n + 2 + 1) S' pkg root j = .ok j' ∧ Json.eqv j' j = true :=
  C01_source_roundtrip_struct_partial S S' hP hrun (n + 2) pkg root j
    (parser_sound fmt pkg defs root fuel S hF hS n j hwf hv)

namespace FrontEx
open Cog.Front.JsonSchema

def strS : JS := .mk { types := ["string"] } [] [] [] [] .none .none .none
def nullS : JS := .mk { types := ["null"] } [] [] [] [] .none .none .none

/-- `R = {name: string (required), mode?: $ref M, next?: $ref R | null, tags?: [string], opts?: {k?: "a"|"b"},
    n?: integer | null}`, `M = enum asc|desc` (properties key-sorted as the encoder emits them) -/
def exDefs : Defs := [
  ("R", .mk { types := ["object"], hasProps := true, required := ["name"] } [] [] []
      [("mode", refTo "M"), ("n", .mk { types := ["integer", "null"] } [] [] [] [] .none .none .none),
       ("name", strS),
       ("next", .mk { hasAnyOf := true } [] [refTo "R", nullS] [] [] .none .none .none),
       ("opts", .mk { types := ["object"], hasProps := true } [] [] []
           [("k", .mk { types := ["string"], enum := some [.str "a", .str "b"] } [] [] [] [] .none .none .none)] (.bool false) .none .none),
       ("tags", .mk { types := ["array"] } [] [] [] [] .none (.one strS) .none)]
      (.bool false) .none .none),
  ("M", .mk { types := ["string"], enum := some [.str "asc", .str "desc"] } [] [] [] [] .none .none .none)]

def exDoc : Json :=
  .obj [("name", .str "x"), ("n", .null), ("opts", .obj [("k", .str "b")]), ("tags", .arr [.str "t"]),
        ("next", .obj [("name", .str "y"), ("mode", .str "desc"), ("next", .null), ("n", .num 12)])]

def always : String → String → Bool := fun _ _ => true

/-- non-vacuity: the hypotheses of the parser-soundness and end-to-end theorems hold for the example (fragment,
    front-end succeeds, `PlainS` and the Go chain on the front-end's output, strict validity), and so do the
    conclusions evaluated on the models; a document with an undeclared member is not valid -/
example : FragJS exDefs (refTo "R") = true ∧ wfDeep exDoc = true ∧
    jsValidX always exDefs 8 (refTo "R") exDoc = true ∧
    jsValid always exDefs 8 (refTo "R") (.obj [("name", .str "x"), ("zz", .num 4)]) = false ∧
    (match frontEnd "p" exDefs 8 (refTo "R") with
     | .ok S =>
       PlainS S && srcDen 10 S (.ref "p" "R" {}) exDoc &&
       (match runChain goChain S with
        | .ok S' => den 11 S' (.ref "p" "R" {}) exDoc && roundTripsOK S' "p" "R" exDoc
        | _ => false)
     | _ => false) = true := by
  refine ⟨by decide +kernel, by decide +kernel, by decide +kernel, by decide +kernel, by decide +kernel⟩

/-! ### the full statement of (b) is false on the current tree: JSON Schema `integer` is unbounded, the IR scalar is int64 -/

def cxDefs : Defs := [("R", .mk { types := ["integer"] } [] [] [] [] .none .none .none)]
/-- the document `9223372036854775808` (2^63) -/
def cxDoc : Json := .num (4 * 9223372036854775808)

def int64Alias (S : Schemas) : Bool :=
  match Schemas.locateObject S "p" "R" with
  | some o => (match o.ty with | .scalar "int64" _ _ _ => true | _ => false)
  | none => false

theorem int64Alias_srcDen (S : Schemas) (h : int64Alias S = true) (n' : Nat) :
    srcDen n' S (.ref "p" "R" {}) cxDoc = false := by
  cases n' with
  | zero => rfl
  | succ k =>
    unfold int64Alias at h
    simp only [srcDen, xden]
    cases ho : Schemas.locateObject S "p" "R" with
    | none => rfl
    | some o =>
      simp only [ho] at h ⊢
      cases hty : o.ty with
      | scalar kind v cs om =>
        simp only [hty] at h ⊢
        have hk : kind = "int64" := by
          split at h
          · rename_i heq; injection heq with e1
          · cases h
        subst hk
        have hd : denScalar "int64" cxDoc = false := by decide +kernel
        have hn : cxDoc.isNull = false := rfl
        rw [hd, hn]
        simp
      | ref _ _ _ | cref _ _ _ _ | array _ _ | map _ _ _ | struct _ _ _ _ | enum _ _ | disj _ _ _ | inter _ _ | slot _ _ | bad _ _ =>
        simp [hty] at h

end FrontEx

open Cog.Front.JsonSchema FrontEx in
/-- `{"$ref": "#/definitions/R", "definitions": {"R": {"type": "integer"}}}` and the document 2^63: valid against the
    schema, in `srcDen` of the front-end's IR at no fuel (replayed on the real front-end: pinned case `pinint64` of
    stream c01-front).  The schema IS in `FragJS`: what fails is hypothesis S1 of the strict reading. -/
theorem C01_jsonschema_parser_sound_counterexample : ¬ C01_jsonschema_parser_sound_full := by
  intro hfull
  have hshape : (match frontEnd "p" cxDefs 4 (refTo "R") with
      | .ok S => int64Alias S | _ => false) = true := by decide +kernel
  cases hr : frontEnd "p" cxDefs 4 (refTo "R") with
  | ok S =>
    rw [hr] at hshape
    obtain ⟨n', h⟩ := hfull always "p" cxDefs "R" 4 S 2 cxDoc hr (by decide +kernel) (by decide +kernel)
    rw [int64Alias_srcDen S hshape n'] at h
    cases h
  | err e => rw [hr] at hshape; cases hshape
  | panic e => rw [hr] at hshape; cases hshape

open Cog.Front.JsonSchema FrontEx in
/-- the witness is inside the fragment and valid, but not strictly valid (S1) -/
example : FragJS cxDefs (refTo "R") = true ∧ jsValid always cxDefs 2 (refTo "R") cxDoc = true ∧
    jsValidX always cxDefs 2 (refTo "R") cxDoc = false := by
  refine ⟨by decide +kernel, by decide +kernel, by decide +kernel⟩


/-! ### the same for OpenAPI inputs (model: Cog/Front/OpenApi*.lean; tie: stream `c01-front-oa`)

  `OpenApi.frontEnd pkg fuel cs` is the literal model of internal/openapi/generator.go from the kin-openapi value
  (`components.schemas` as `OSR`) to the full IR; `oaValid` / `oaValidX` the semantics of kin-openapi's `VisitJSON`
  (plain / strict: S1–S3 as above); `FragOA` / `rootFrag` the decidable fragment (Cog/Front/OpenApiFrag.lean). -/

namespace OA
open Cog.Front.OpenApi

/-- the FULL statement of (b) for OpenAPI inputs; false on the current tree (counterexample below) -/
def C01_openapi_parser_sound_full : Prop :=
  ∀ (fmt : String → String → Bool) (pkg : String) (cs : Components) (root : String) (fuel : Nat) (S : Schemas) (n : Nat) (j : Json),
    frontEnd pkg fuel cs = .ok S → wfDeep j = true → oaValid fmt cs n (refTo root) j = true →
    ∃ n', srcDen n' S (.ref pkg root {}) j = true

/-- PARSER SOUNDNESS for OpenAPI on the fragment -/
theorem C01_openapi_parser_sound_partial (fmt : String → String → Bool) (pkg : String) (cs : Components) (root : String)
    (fuel : Nat) (S : Schemas) (hF : FragOA cs = true) (hR : rootFrag cs root = true) (hS : frontEnd pkg fuel cs = .ok S)
    (n : Nat) (j : Json) (hwf : wfDeep j = true) (hv : oaValidX fmt cs n (refTo root) j = true) :
    ∃ n', srcDen n' S (.ref pkg root {}) j = true :=
  ⟨n + 2, parser_sound fmt pkg cs root fuel S hF hR hS n j hwf hv⟩

theorem C01_openapi_parser_sound_fuel_partial (fmt : String → String → Bool) (pkg : String) (cs : Components) (root : String)
    (fuel : Nat) (S : Schemas) (hF : FragOA cs = true) (hR : rootFrag cs root = true) (hS : frontEnd pkg fuel cs = .ok S)
    (n : Nat) (j : Json) (hwf : wfDeep j = true) (hv : oaValidX fmt cs n (refTo root) j = true) :
    srcDen (n + 2) S (.ref pkg root {}) j = true :=
  parser_sound fmt pkg cs root fuel S hF hR hS n j hwf hv

/-- (b) + (c) + (d) for OpenAPI inputs on the fragment -/
theorem C01_openapi_end_to_end_partial (fmt : String → String → Bool) (pkg : String) (cs : Components) (root : String)
    (fuel : Nat) (S S' : Schemas) (hF : FragOA cs = true) (hR : rootFrag cs root = true) (hS : frontEnd pkg fuel cs = .ok S)
    (hP : PlainS S = true) (hrun : runChain goChain S = .ok S')
    (n : Nat) (j : Json) (hwf : wfDeep j = true) (hv : oaValidX fmt cs n (refTo root) j = true) :
    ∃ j', goRoundTrip (n + 2 + 1) S' pkg root j = .ok j' ∧ Json.eqv j' j = true :=
  C01_source_roundtrip_struct_partial S S' hP hrun (n + 2) pkg root j
    (parser_sound fmt pkg cs root fuel S hF hR hS n j hwf hv)

def strR : OSR := .mk "" true "" (.mk { types := some ["string"] } [] [] [] [] .none .none)

/-- `R = {name: string (required), count?: integer(int32) nullable, mode?: $ref M, next?: $ref R, tags?: [string]}`,
    `M = enum asc|desc` -/
def exComps : Components := [
  ("M", .mk "" true "" (.mk { types := some ["string"], enum := some [.str "asc", .str "desc"] } [] [] [] [] .none .none)),
  ("R", .mk "" true "" (.mk { types := some ["object"], required := ["name"], addlHas := some false } [] [] []
      [("count", .mk "" true "" (.mk { types := some ["integer"], format := "int32", nullable := true } [] [] [] [] .none .none)),
       ("mode", Cog.Front.OpenApi.refTo "M"), ("name", strR), ("next", Cog.Front.OpenApi.refTo "R"),
       ("tags", .mk "" true "" (.mk { types := some ["array"] } [] [] [] [] .none (.some strR)))]
      .none .none))]

def exDocOA : Json :=
  .obj [("name", .str "x"), ("count", .null), ("tags", .arr [.str "t"]),
        ("next", .obj [("name", .str "y"), ("mode", .str "desc"), ("count", .num 12)])]

def alwaysOA : String → String → Bool := fun _ _ => true

/-- non-vacuity: hypotheses and conclusions of the OpenAPI theorems on an example, evaluated by the kernel -/
example : FragOA exComps = true ∧ rootFrag exComps "R" = true ∧ wfDeep exDocOA = true ∧
    oaValidX alwaysOA exComps 8 (Cog.Front.OpenApi.refTo "R") exDocOA = true ∧
    oaValid alwaysOA exComps 8 (Cog.Front.OpenApi.refTo "R") (.obj [("name", .str "x"), ("zz", .num 4)]) = false ∧
    (match frontEnd "p" 8 exComps with
     | .ok S =>
       PlainS S && srcDen 10 S (.ref "p" "R" {}) exDocOA &&
       (match runChain goChain S with
        | .ok S' => den 11 S' (.ref "p" "R" {}) exDocOA && roundTripsOK S' "p" "R" exDocOA
        | _ => false)
     | _ => false) = true := by
  refine ⟨by decide +kernel, by decide +kernel, by decide +kernel, by decide +kernel, by decide +kernel, by decide +kernel⟩

/-! the full statement is false: the front-end drops `nullable` on booleans (and enums, arrays, objects) -/

def cxComps : Components :=
  [("R", .mk "" true "" (.mk { types := some ["boolean"], nullable := true } [] [] [] [] .none .none))]

def boolAlias (S : Schemas) : Bool :=
  match Schemas.locateObject S "p" "R" with
  | some o => (match o.ty with | .scalar "bool" _ _ _ => true | _ => false)
  | none => false

theorem boolAlias_srcDen (S : Schemas) (h : boolAlias S = true) (n' : Nat) :
    srcDen n' S (.ref "p" "R" {}) .null = false := by
  cases n' with
  | zero => rfl
  | succ k =>
    unfold boolAlias at h
    simp only [srcDen, xden]
    cases ho : Schemas.locateObject S "p" "R" with
    | none => rfl
    | some o =>
      simp only [ho] at h ⊢
      cases hty : o.ty with
      | scalar kind v cs om =>
        simp only [hty] at h ⊢
        have hk : kind = "bool" := by
          split at h
          · rename_i heq; injection heq with e1
          · cases h
        subst hk
        have hd : denScalar "bool" .null = false := by decide +kernel
        have hn : (Json.null).isNull = true := rfl
        rw [hd, hn]
        simp
      | ref _ _ _ | cref _ _ _ _ | array _ _ | map _ _ _ | struct _ _ _ _ | enum _ _ | disj _ _ _ | inter _ _ | slot _ _ | bad _ _ =>
        simp [hty] at h

/-- `R: {type: boolean, nullable: true}` and the document `null`: accepted by kin-openapi, in `srcDen` of the front-end's
    IR at no fuel — the generator reads `nullable` only on strings and numbers (replayed: pinned case `oapinnullbool` of
    stream c01-front-oa).  The schema is outside `FragOA`. -/
theorem C01_openapi_parser_sound_counterexample : ¬ C01_openapi_parser_sound_full := by
  intro hfull
  have hshape : (match frontEnd "p" 4 cxComps with
      | .ok S => boolAlias S | _ => false) = true := by decide +kernel
  cases hr : frontEnd "p" 4 cxComps with
  | ok S =>
    rw [hr] at hshape
    obtain ⟨n', h⟩ := hfull alwaysOA "p" cxComps "R" 4 S 2 .null hr (by decide +kernel) (by decide +kernel)
    rw [boolAlias_srcDen S hshape n'] at h
    cases h
  | err e => rw [hr] at hshape; cases hshape
  | panic e => rw [hr] at hshape; cases hshape

example : FragOA cxComps = false := by decide +kernel

end OA

/-! ### the same for CUE inputs (model: Cog/Front/Cue*.lean; tie: stream `c01-front-cue`)

  `Cue.cueFront pkg fuel top` is the literal model of internal/simplecue/{generator,utils}.go from the VIEW `CV` of the
  library's `cue.Value` (the answers of the cue API calls the generator makes; `top` = the top-level fields) to the full
  IR; `cueValidDef x fl fmt pkg top n root d`: the document `d` unifies with the definition `#root` (`x = true`: the
  strict reading S1–S3, see Cog/Front/CueValid.lean); `FragCue` the decidable fragment: the model's IR has, definition by
  definition, the shape that the views of the fragment's classes call for (`agree`; the invariant of the stateful walk is
  checked per schema by this predicate instead of being proved once and for all).  The text → cue.Value step (CUE's own
  parser and evaluator) is trusted. -/

namespace CUE
open Cog.Front.Cue

/-- the FULL statement of (b) for CUE inputs; false on the current tree (counterexample below) -/
def C01_cue_parser_sound_full : Prop :=
  ∀ (fl : Bool) (fmt : String → Bool) (pkg : String) (top : Top) (root : String) (fuel : Nat) (S : Schemas) (n : Nat) (j : Json),
    cueFront pkg fuel top = .ok S → wfDeep j = true → cueValidDef false fl fmt pkg top n root j = true →
    ∃ n', srcDen n' S (.ref pkg root {}) j = true

/-- PARSER SOUNDNESS for CUE on the fragment -/
theorem C01_cue_parser_sound_partial (fl : Bool) (fmt : String → Bool) (pkg : String) (top : Top) (root : String)
    (fuel : Nat) (S : Schemas) (hF : FragCue pkg fuel top = true) (hS : cueFront pkg fuel top = .ok S)
    (n : Nat) (j : Json) (hv : cueValidDef true fl fmt pkg top n root j = true) :
    ∃ n', srcDen n' S (.ref pkg root {}) j = true :=
  ⟨n + 1, parser_sound fl fmt pkg top root fuel S hF hS n j hv⟩

theorem C01_cue_parser_sound_fuel_partial (fl : Bool) (fmt : String → Bool) (pkg : String) (top : Top) (root : String)
    (fuel : Nat) (S : Schemas) (hF : FragCue pkg fuel top = true) (hS : cueFront pkg fuel top = .ok S)
    (n : Nat) (j : Json) (hv : cueValidDef true fl fmt pkg top n root j = true) :
    srcDen (n + 1) S (.ref pkg root {}) j = true :=
  parser_sound fl fmt pkg top root fuel S hF hS n j hv

/-- the same for ANY IR that agrees with the views (instantiated by the tie with the REAL front-end's IR) -/
theorem C01_cue_parser_sound_agree_partial (fl : Bool) (fmt : String → Bool) (pkg : String) (top : Top) (root : String)
    (S : Schemas) (hA : agree pkg top S = true) (n : Nat) (j : Json) (hv : cueValidDef true fl fmt pkg top n root j = true) :
    srcDen (n + 1) S (.ref pkg root {}) j = true :=
  def_sound pkg top S hA fl fmt n root j hv

/-- (b) + (c) + (d) for CUE inputs on the fragment -/
theorem C01_cue_end_to_end_partial (fl : Bool) (fmt : String → Bool) (pkg : String) (top : Top) (root : String)
    (fuel : Nat) (S S' : Schemas) (hF : FragCue pkg fuel top = true) (hS : cueFront pkg fuel top = .ok S)
    (hP : PlainS S = true) (hrun : runChain goChain S = .ok S')
    (n : Nat) (j : Json) (hv : cueValidDef true fl fmt pkg top n root j = true) :
    ∃ j', goRoundTrip (n + 1 + 1) S' pkg root j = .ok j' ∧ Json.eqv j' j = true :=
  C01_source_roundtrip_struct_partial S S' hP hrun (n + 1) pkg root j
    (parser_sound fl fmt pkg top root fuel S hF hS n j hv)

def strV : CV :=
  .mk { ikind := "string", orsplit := [false],
        andsplit := [{ op := "no", callName := "", arg := .null, refPath := "", concrete := false, scalar := .bottomNone }] } [] [] [] []
def refV (name : String) : CV := .mk { ikind := "struct", op := "sel", nargs := 2, refPath := "#" ++ name, refName := name, refPkg := "p" } [] [] [] []
def listV (e : CV) : CV := .mk { ikind := "list", kind := "list", allowsAny := true, dfltEqSelf := true } [] [e] [] []
def constS (s : String) : CV :=
  .mk { ikind := "string", kind := "string", concrete := true, scalar := .v (.str s), orsplit := [true], enumOK := true,
        andsplit := [{ op := "no", callName := "", arg := .null, refPath := "", concrete := true, scalar := .v (.str s) }] } [] [] [] []
def int32V : CV := .mk { ikind := "int", enumOK := true, orsplit := [false], syn := "int32", csyn := "int32" } [] [] [] []
def nullV : CV := .mk { ikind := "null", kind := "null", concrete := true, orsplit := [true] } [] [] [] []
def nullable (b : CV) : CV := .mk { ikind := "other", op := "or", nargs := 2, orsplit := [true, false] } [(false, nullV), (false, b)] [] [] []

/-- `#M: "asc" | "desc"`, `#R: {name: string, count?: null | int32, mode?: #M, next?: #R, tags?: [...string]}` -/
def exTop : Top := [
  ("#M", "M", .mk { ikind := "string", op := "or", nargs := 2, enumOK := true, orsplit := [true, true] }
      [(false, constS "asc"), (false, constS "desc")] [] [] []),
  ("#R", "R", .mk { ikind := "struct", kind := "struct", concrete := true, evalOp := "no", evalHasFields := true, orsplit := [true] } [] [] []
      [("name", false, false, strV), ("count", false, true, nullable int32V), ("mode", false, true, refV "M"),
       ("next", false, true, refV "R"), ("tags", false, true, listV strV)])]

def exDocCue : Json :=
  .obj [("name", .str "x"), ("count", .null), ("tags", .arr [.str "t"]),
        ("next", .obj [("name", .str "y"), ("mode", .str "desc"), ("count", .num 12)])]

def alwaysCue : String → Bool := fun _ => true

/-- non-vacuity: hypotheses and conclusions of the CUE theorems on an example, evaluated by the kernel -/
example : FragCue "p" 8 exTop = true ∧ cueValidDef true true alwaysCue "p" exTop 8 "R" exDocCue = true ∧
    cueValidDef false false alwaysCue "p" exTop 8 "R" (.obj [("name", .str "x"), ("zz", .num 4)]) = false ∧
    (match cueFront "p" 8 exTop with
     | .ok S =>
       PlainS S && srcDen 9 S (.ref "p" "R" {}) exDocCue &&
       (match runChain goChain S with
        | .ok S' => den 10 S' (.ref "p" "R" {}) exDocCue && roundTripsOK S' "p" "R" exDocCue
        | _ => false)
     | _ => false) = true := by
  refine ⟨by decide +kernel, by decide +kernel, by decide +kernel, by decide +kernel⟩

/-! the full statement is false: CUE's `int` is unbounded, the front-end says int64 -/

def cxTop : Top :=
  [("#R", "R", .mk { ikind := "int", enumOK := true, orsplit := [false], syn := "int", csyn := "int" } [] [] [] [])]

def cxDocCue : Json := .num 36893488147419103232   -- 4 · 2^63

def intAlias (S : Schemas) : Bool :=
  match Schemas.locateObject S "p" "R" with
  | some o => (match o.ty with | .scalar "int64" _ _ _ => true | _ => false)
  | none => false

theorem intAlias_srcDen (S : Schemas) (h : intAlias S = true) (n' : Nat) :
    srcDen n' S (.ref "p" "R" {}) cxDocCue = false := by
  cases n' with
  | zero => rfl
  | succ k =>
    unfold intAlias at h
    simp only [srcDen, xden]
    cases ho : Schemas.locateObject S "p" "R" with
    | none => rfl
    | some o =>
      simp only [ho] at h ⊢
      cases hty : o.ty with
      | scalar kind v cs om =>
        simp only [hty] at h ⊢
        have hk : kind = "int64" := by
          split at h
          · rename_i heq; injection heq with e1
          · cases h
        subst hk
        have hd : denScalar "int64" cxDocCue = false := by decide +kernel
        have hn : cxDocCue.isNull = false := rfl
        rw [hd, hn]
        simp
      | ref _ _ _ | cref _ _ _ _ | array _ _ | map _ _ _ | struct _ _ _ _ | enum _ _ | disj _ _ _ | inter _ _ | slot _ _ | bad _ _ =>
        simp [hty] at h

/-- `#R: int` and the document 2^63: it unifies with CUE's `int`, and is in `srcDen` of the front-end's IR at no fuel —
    the generator maps `int` to int64 (replayed: pinned case `cuepinint` of stream c01-front-cue).  The schema is INSIDE
    `FragCue`; the document is valid but not strictly valid (S1). -/
theorem C01_cue_parser_sound_counterexample : ¬ C01_cue_parser_sound_full := by
  intro hfull
  have hshape : (match cueFront "p" 4 cxTop with
      | .ok S => intAlias S | _ => false) = true := by decide +kernel
  cases hr : cueFront "p" 4 cxTop with
  | ok S =>
    rw [hr] at hshape
    obtain ⟨n', h⟩ := hfull false alwaysCue "p" cxTop "R" 4 S 2 cxDocCue hr (by decide +kernel) (by decide +kernel)
    rw [intAlias_srcDen S hshape n'] at h
    cases h
  | err e => rw [hr] at hshape; cases hshape
  | panic e => rw [hr] at hshape; cases hshape

example : FragCue "p" 4 cxTop = true ∧ cueValidDef false false alwaysCue "p" cxTop 2 "R" cxDocCue = true ∧
    cueValidDef true false alwaysCue "p" cxTop 2 "R" cxDocCue = false := by
  refine ⟨by decide +kernel, by decide +kernel, by decide +kernel⟩

/-! a second refutation: CUE fills in an absent regular member that is concrete without data, the IR says `required` -/

def cx2Top : Top :=
  [("#R", "R", .mk { ikind := "struct", kind := "struct", concrete := true, evalOp := "no", evalHasFields := true, orsplit := [true] } [] [] []
      [("kind", false, false, constS "fixed")])]

def reqAlias (S : Schemas) : Bool :=
  match Schemas.locateObject S "p" "R" with
  | some o => (match o.ty with | .struct [f] _ none _ => f.required && f.name == "kind" | _ => false)
  | none => false

theorem reqAlias_srcDen (S : Schemas) (h : reqAlias S = true) (n' : Nat) :
    srcDen n' S (.ref "p" "R" {}) (.obj []) = false := by
  cases n' with
  | zero => rfl
  | succ k =>
    unfold reqAlias at h
    cases ho : Schemas.locateObject S "p" "R" with
    | none => simp [ho] at h
    | some o =>
      simp only [ho] at h
      cases hty : o.ty with
      | struct fs g gi sm =>
        simp only [hty] at h
        cases fs with
        | nil => simp at h
        | cons f rest =>
          cases rest with
          | cons _ _ => simp at h
          | nil =>
            cases gi with
            | some _ => simp at h
            | none =>
              simp only [Bool.and_eq_true, beq_iff_eq] at h
              unfold srcDen
              rw [xs_ref_struct S k "p" "R" {} (.obj []) o [f] g sm ho hty]
              simp [xStructBody, xFieldsWith, Json.lookup, h.1, Json.isNull]
      | scalar _ _ _ _ | ref _ _ _ | cref _ _ _ _ | array _ _ | map _ _ _ | enum _ _ | disj _ _ _ | inter _ _ | slot _ _ | bad _ _ =>
        simp [hty] at h

/-- `#R: {kind: "fixed"}` and the document `{}`: CUE's Unify + Validate(Concrete) accepts it (the constant is filled in), the
    front-end marks the member `required`: `{}` is in `srcDen` at no fuel (replayed: pinned case `cuepinconst` of stream
    c01-front-cue).  The schema is INSIDE `FragCue`; the document is valid but not strictly valid. -/
theorem C01_cue_parser_sound_counterexample_required_constant : ¬ C01_cue_parser_sound_full := by
  intro hfull
  have hshape : (match cueFront "p" 4 cx2Top with
      | .ok S => reqAlias S | _ => false) = true := by decide +kernel
  cases hr : cueFront "p" 4 cx2Top with
  | ok S =>
    rw [hr] at hshape
    obtain ⟨n', h⟩ := hfull false alwaysCue "p" cx2Top "R" 4 S 4 (.obj []) hr (by decide +kernel) (by decide +kernel)
    rw [reqAlias_srcDen S hshape n'] at h
    cases h
  | err e => rw [hr] at hshape; cases hshape
  | panic e => rw [hr] at hshape; cases hshape

example : FragCue "p" 4 cx2Top = true ∧ cueValidDef false false alwaysCue "p" cx2Top 4 "R" (.obj []) = true ∧
    cueValidDef true false alwaysCue "p" cx2Top 4 "R" (.obj []) = false := by
  refine ⟨by decide +kernel, by decide +kernel, by decide +kernel⟩

end CUE

-- ---- END block of the c01-front builder ----

end Cog.Sem
