/-
  C20 — pipeline / schema-transformation / builder-transformation YAML files are decoded
  strictly, and the published JSON Schemas accept exactly the keys the loaders accept.

  Property theorems only.  Model: Cog/Config/Model.lean; table checks: Cog/Config/Facts.lean;
  meta-theorem (finite table check ⇒ all documents): Cog/Config/Bisim.lean; insertion at a path:
  Cog/Config/Path.lean.  `Cog.Gen.ConfigFacts` is regenerated from /repo on every run by
  /verif/extract/xconfig (reflection over the real config structs + yaml.v3 probes,
  schemas/*.json, go/ast of the decoder sites and of the As…() functions).

  What is claimed is KEY acceptance (the property's wording): `strictDecode` is "yaml.v3 reports
  no `field … not found`", `pubAccepts` is "no `additionalProperties` failure".  Value typing
  (`type: string` vs Go string, null handling) is outside the statement.

  `decide +kernel` below evaluates a Bool checker on the complete regenerated tables inside the
  kernel (no extra axiom); the lift to all documents is `bisim_sound`.
-/
import Cog.Config.Bisim
import Cog.Config.Path
import Cog.Gen.ConfigFacts
namespace Cog.Config
open Cog.Gen.ConfigFacts

/-- the three configuration languages of cog -/
def files : List FileFacts := [pipeline, compiler, veneers]

/-! ### 1. an unknown key is rejected at any nesting depth -/

/-- **Loader, any environment, any document, any depth.**  Take any document `y` and any path
    along which the strict decoder really descends (`recordAt = some d`: the node at `path` is a
    mapping that is being decoded into struct `d`).  Insert, anywhere in that mapping, an entry
    whose key `k` the struct does not declare.  Decoding fails. -/
theorem C20_unknown_key_rejected (env : LEnv) (t : LTy) (y : Yaml) (path : Path) (d : LDef)
    (k : Key) (v : Yaml) (pos : Nat)
    (hnode : recordAt env t y path = some d) (hk : d.child k = none) :
    strictDecode env t (insertKey y path pos k v) = false :=
  insert_unknown_rejected env k v pos path t y d hnode hk

/-- non-vacuity: a rule list two levels down, unknown key 9 injected into its first entry -/
example :
    let env : LEnv := [⟨[(0, .list (.ref 1))], none⟩, ⟨[(1, .scalar), (2, .ref 0)], none⟩]
    let y : Yaml := .map [(0, .seq [.map [(1, .scalar "a")], .map []])]
    strictDecode env (.ref 0) y = true ∧
    (recordAt env (.ref 0) y [.key 0, .idx 0]).map (·.fields) = some [(1, .scalar), (2, .ref 0)] ∧
    strictDecode env (.ref 0) (insertKey y [.key 0, .idx 0] 1 9 .null) = false := by
  decide

/-- No struct reachable from the three roots has an `,inline` map, i.e. every mapping that is
    decoded into a struct is closed: "does not declare `k`" is just "`k` is not among its
    keys". (Regenerated table, checked by the kernel.) -/
theorem C20_all_structs_closed :
    ∀ F ∈ files, ∀ d ∈ F.lenv, d.inlineMap = none := by
  have h : (files.all fun F => F.lenv.all fun d => d.inlineMap.isNone) = true := by decide +kernel
  intro F hF d hd
  have := (List.all_eq_true.mp ((List.all_eq_true.mp h) F hF)) d hd
  simpa using this

/-- **The real loaders.** For each of the three files: a key that the struct at that node does
    not declare, injected at any depth, makes the whole load fail. -/
theorem C20_unknown_key_rejected_by_loader (F : FileFacts) (hF : F ∈ files) (y : Yaml)
    (path : Path) (d : LDef) (k : Key) (v : Yaml) (pos : Nat)
    (hnode : recordAt F.lenv (.ref F.lroot) y path = some d)
    (hk : assoc k d.fields = none) :
    loadOK F (insertKey y path pos k v) = false := by
  have hd : d ∈ F.lenv := by
    -- the struct reached along a path is an entry of the environment
    have : ∀ (p : Path) (t : LTy) (y : Yaml) (d : LDef),
        recordAt F.lenv t y p = some d → d ∈ F.lenv := by
      intro p
      induction p with
      | nil =>
        intro t y d h
        cases t <;> cases y <;> simp [recordAt] at h
        exact List.mem_of_getElem? h
      | cons s p ih =>
        intro t y d h
        cases s <;> cases t <;> cases y <;> simp only [recordAt] at h <;>
          try (exact absurd h (by simp))
        · rename_i k' n kvs
          cases h1 : F.lenv[n]? <;> cases h2 : assoc k' kvs <;> simp [h1, h2] at h
          rename_i d' w
          cases h3 : d'.child k' <;> simp [h3] at h
          exact ih _ _ _ h
        · rename_i k' e kvs
          cases h2 : assoc k' kvs <;> simp [h2] at h
          exact ih _ _ _ h
        · rename_i i e xs
          cases h2 : xs[i]? <;> simp [h2] at h
          exact ih _ _ _ h
    exact this path _ y d hnode
  have hc : d.child k = none := by
    simp [LDef.child, hk, C20_all_structs_closed F hF d hd]
  simp [loadOK, C20_unknown_key_rejected F.lenv _ y path d k v pos hnode hc]

/-! ### 2. a rule entry with no recognised action is rejected -/

/-- what "recognised" means: some entry key is a member of the union and its value is not null
    (a null leaves the Go pointer nil) -/
theorem recognised_iff (members : List Key) (e : Yaml) :
    recognised members e = true ↔
      ∃ kvs k v, e = .map kvs ∧ (k, v) ∈ kvs ∧ k ∈ members ∧ v.isNull = false := by
  cases e with
  | map kvs =>
    simp only [recognised, List.any_eq_true, Bool.and_eq_true, Bool.not_eq_true',
      List.contains_iff_mem]
    constructor
    · rintro ⟨⟨k, v⟩, hm, hk, hv⟩; exact ⟨kvs, k, v, rfl, hm, hk, hv⟩
    · rintro ⟨kvs', k, v, he, hm, hk, hv⟩
      cases he; exact ⟨(k, v), hm, hk, hv⟩
  | null => simp [recognised]
  | scalar s => simp [recognised]
  | seq xs => simp [recognised]

/-- **Empty rule, any position, any file** (proved form).  If one non-null entry of a rule list
    (`passes`, `builders`, `options`) has no recognised member, the file is rejected, whatever
    else it contains.  The hypothesis `e.isNull = false` is needed: see
    `C20_empty_rule_full_counterexample`. -/
theorem C20_empty_rule_rejected (F : FileFacts) (key : Key) (u : Nat) (kvs : List (Key × Yaml))
    (es : List Yaml) (e : Yaml)
    (hlist : (key, u) ∈ F.ruleLists) (hval : assoc key kvs = some (.seq es)) (he : e ∈ es)
    (hnn : e.isNull = false)
    (hempty : recognised (F.members u) e = false) :
    loadOK F (.map kvs) = false := by
  simp only [loadOK, Bool.and_eq_false_iff]
  right
  rw [List.all_eq_false]
  refine ⟨(key, u), hlist, ?_⟩
  simp only [hval, rulesOK, Bool.not_eq_true]
  rw [List.all_eq_false]
  exact ⟨e, he, by simp [hempty, hnn]⟩

/-- The statement at full strength: EVERY item of a rule list without a recognised action makes
    the load fail. -/
def C20_empty_rule_full : Prop :=
  ∀ F ∈ files, ∀ (key : Key) (u : Nat) (kvs : List (Key × Yaml)) (es : List Yaml) (e : Yaml),
    (key, u) ∈ F.ruleLists → assoc key kvs = some (.seq es) → e ∈ es →
    recognised (F.members u) e = false → loadOK F (.map kvs) = false

/-- It is false on the current tree: `passes: [ ~ ]` (equivalently a bare `-` line) loads.
    yaml.v3 drops a null item of a `[]CompilerPass` / `[]BuilderRule` / `[]OptionRule` before
    cog sees it.  Replayed on the real loaders by the harness stream `c20-rules`
    (`null-entry` cases). -/
theorem C20_empty_rule_full_counterexample : ¬ C20_empty_rule_full := by
  intro h
  have hc : compiler ∈ files := by simp [files]
  have hne : compiler.ruleLists ≠ [] := by decide +kernel
  obtain ⟨⟨key, u⟩, hmem⟩ := List.exists_mem_of_ne_nil _ hne
  have := h compiler hc key u [(key, .seq [.null])] [.null] .null hmem
    (by simp [assoc]) (by simp) (by simp [recognised])
  have hok : (compiler.ruleLists.all fun p =>
      loadOK compiler (.map [(p.1, .seq [.null])])) = true := by decide +kernel
  have := (List.all_eq_true.mp hok) (key, u) hmem
  simp_all

/-- the canonical empty entries: `{}`, `~`, an entry whose only members are null -/
theorem C20_empty_entries (members : List Key) :
    recognised members (.map []) = false ∧ recognised members .null = false ∧
    ∀ kvs : List (Key × Yaml), (∀ kv ∈ kvs, kv.2.isNull = true) →
      recognised members (.map kvs) = false := by
  refine ⟨by simp [recognised], by simp [recognised], ?_⟩
  intro kvs h
  simp only [recognised, List.any_eq_false, Bool.and_eq_true, Bool.not_eq_true',
    List.contains_iff_mem, not_and, Bool.not_eq_false]
  intro kv hkv _
  exact h kv hkv

/-- non-vacuity on the real tables: `passes: [ {} ]` is rejected by the compiler-passes loader
    and decodes without key error (the rejection is the empty-rule error) -/
example :
    compiler.ruleLists ≠ [] ∧
    (compiler.ruleLists.all fun (key, _) =>
      strictDecode compiler.lenv (.ref compiler.lroot) (.map [(key, .seq [.map []])]) &&
      !loadOK compiler (.map [(key, .seq [.map []])])) = true := by
  decide +kernel

/-- Regenerated from the `As…()` functions (go/ast) and the structs (reflection): for
    `CompilerPass`, `BuilderRule` and `OptionRule`, the members that are recognised are exactly
    the keys the struct declares (no declared action is silently unrecognised), the struct is
    closed, and `passes` / `builders` / `options` are root keys holding lists of those structs. -/
theorem C20_rule_members_complete :
    (∀ F ∈ files, unionsComplete F = true ∧ ruleListsOK F = true) ∧
    compiler.ruleLists.length = 1 ∧ veneers.ruleLists.length = 2 := by
  have h : (files.all fun F => unionsComplete F && ruleListsOK F) = true := by decide +kernel
  refine ⟨?_, by decide +kernel, by decide +kernel⟩
  intro F hF
  have := (List.all_eq_true.mp h) F hF
  simpa using this

/-- a loaded file: every (non-null) entry of every rule list names at least one declared action -/
theorem C20_loaded_rules_have_action (F : FileFacts) (key : Key) (u : Nat)
    (kvs : List (Key × Yaml)) (es : List Yaml)
    (hlist : (key, u) ∈ F.ruleLists) (hval : assoc key kvs = some (.seq es))
    (hok : loadOK F (.map kvs) = true) :
    ∀ e ∈ es, e.isNull = false → ∃ ekvs k v, e = .map ekvs ∧ (k, v) ∈ ekvs ∧ k ∈ F.members u ∧ v.isNull = false := by
  intro e he hnn
  rw [← recognised_iff]
  cases h : recognised (F.members u) e with
  | true => rfl
  | false =>
    have := C20_empty_rule_rejected F key u kvs es e hlist hval he hnn h
    simp [this] at hok

/-! ### 3. published schemas accept exactly the keys the loaders accept -/

/-- the finite check on the regenerated tables (kernel-evaluated) -/
theorem C20_tables_bisimilar : ∀ F ∈ files, bisimCheck F = true := by
  have h : (files.all bisimCheck) = true := by decide +kernel
  exact fun F hF => (List.all_eq_true.mp h) F hF

/-- **Full statement, all documents.**  For each of the three configuration languages and for
    EVERY document, the loader reports an unknown key iff the published schema reports an
    additional property. -/
theorem C20_keys_agree (F : FileFacts) (hF : F ∈ files) (y : Yaml) :
    strictDecode F.lenv (.ref F.lroot) y = pubAccepts F.penv (.ref F.proot) y :=
  bisim_sound F (C20_tables_bisimilar F hF) y

/-- consequence: the injected unknown key is also flagged by the published schema (what an
    editor shows), at any depth -/
theorem C20_unknown_key_rejected_by_schema (F : FileFacts) (hF : F ∈ files) (y : Yaml)
    (path : Path) (d : LDef) (k : Key) (v : Yaml) (pos : Nat)
    (hnode : recordAt F.lenv (.ref F.lroot) y path = some d)
    (hk : d.child k = none) :
    pubAccepts F.penv (.ref F.proot) (insertKey y path pos k v) = false := by
  rw [← C20_keys_agree F hF]
  exact C20_unknown_key_rejected F.lenv _ y path d k v pos hnode hk

/-- non-vacuity of the agreement: both sides accept the empty mapping and both reject a
    mapping with a key outside the tables, for all three files -/
example : ∀ F ∈ files,
    pubAccepts F.penv (.ref F.proot) (.map []) = true ∧
    strictDecode F.lenv (.ref F.lroot) (.map [(keyNames.length, .null)]) = false := by
  decide +kernel

/-! ### 4. the decoders are constructed strict -/

/-- Every yaml.v3 decoding site of cog's non-test code calls `KnownFields(true)` on the decoder,
    unconditionally, before `Decode`; and each of the three loaders has such a site. -/
theorem C20_decoders_strict :
    sitesStrict decoderSites = true ∧
    sitesCover decoderSites ["pipeline", "compiler", "veneers"] = true := by
  decide +kernel

/-! ### the property as one statement -/

/-- full strength (with `C20_empty_rule_full`); false on the current tree because of the null
    list item only -/
def C20_full : Prop :=
  (∀ F ∈ files, ∀ (y : Yaml) (path : Path) (d : LDef) (k : Key) (v : Yaml) (pos : Nat),
      recordAt F.lenv (.ref F.lroot) y path = some d → assoc k d.fields = none →
      loadOK F (insertKey y path pos k v) = false) ∧
  C20_empty_rule_full ∧
  (∀ F ∈ files, ∀ y, strictDecode F.lenv (.ref F.lroot) y = pubAccepts F.penv (.ref F.proot) y) ∧
  sitesStrict decoderSites = true

theorem C20_full_counterexample : ¬ C20_full :=
  fun h => C20_empty_rule_full_counterexample h.2.1

/-- what is proved: the full statement with the rule-entry clause restricted to non-null
    entries (decidable hypothesis `e.isNull = false`) -/
def C20_partial : Prop :=
  (∀ F ∈ files, ∀ (y : Yaml) (path : Path) (d : LDef) (k : Key) (v : Yaml) (pos : Nat),
      recordAt F.lenv (.ref F.lroot) y path = some d → assoc k d.fields = none →
      loadOK F (insertKey y path pos k v) = false) ∧
  (∀ F ∈ files, ∀ key u kvs es e, (key, u) ∈ F.ruleLists → assoc key kvs = some (.seq es) →
      e ∈ es → e.isNull = false → recognised (F.members u) e = false →
      loadOK F (.map kvs) = false) ∧
  (∀ F ∈ files, ∀ y, strictDecode F.lenv (.ref F.lroot) y = pubAccepts F.penv (.ref F.proot) y) ∧
  sitesStrict decoderSites = true

theorem C20_partial_holds : C20_partial :=
  ⟨fun F hF y path d k v pos h1 h2 => C20_unknown_key_rejected_by_loader F hF y path d k v pos h1 h2,
   fun F _ key u kvs es e h1 h2 h3 h4 h5 => C20_empty_rule_rejected F key u kvs es e h1 h2 h3 h4 h5,
   fun F hF y => C20_keys_agree F hF y,
   C20_decoders_strict.1⟩

end Cog.Config
