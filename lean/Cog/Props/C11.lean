/-
  C11 — generated Python types round-trip documents and agree with Go on the wire format.

  The model (Cog/Sem/PyCodec.lean) is a literal transcription of what
  internal/jennies/python/rawtypes.go emits (`from_json`, `to_json`, `__init__` with its default
  expressions) and of the JSON encoder of templates/runtime/encoder.tmpl, over the post-PYTHON-chain
  IR.  It is tied to the real generated code on every run by the lab stream `c11-rows`
  (real pipeline → real `python3` → `roundtrip` of every document, next to the model's answer).

  PROVED here, for ALL schemas, types, documents and fuel values (induction on fuel, Cog/Sem/PyRoundTrip.lean):
    * `C11_roundtrip_partial`: every document of `pyDen` is decoded without exception by the model of
      `from_json`, and `json.dumps(…, cls=JSONEncoder)` of the result is JSON-equal to the document up
      to omission of null members (`Json.eqv`);
    * `C11_go_py_agree_partial`: on documents that are in C01's `den` for the Go IR and in `pyDen` for
      the Python IR, what Python emits is JSON-equal (same relation) to what Go emits.  The two IRs
      are not related in the statement; that both come from ONE source schema is what the lab
      establishes for every case (it registers `<case>-go` and `<case>-py` from the same run).
  NOT proved (correspondence only): that the front-ends and the Python pass chain map a source-valid
  document into `pyDen` — the check reports how many lab documents fall into `pyDen` and that none of
  them fails the oracle.

  The full statement `C11_full` is FALSE on the current tree; the witnesses below are evaluated on
  the model by the kernel and replayed on real generated code by the check's pinned corpus.
-/
import Cog.Sem.PyRoundTrip
import Cog.Props.C01
import Cog.Sem.WidenPy   -- (pass-widening block at the end of this file)
namespace Cog.Sem
open Cog.IR

/-- Round trip of the generated Python codec on the proved fragment. -/
theorem C11_roundtrip_partial (ss : Schemas) (n : Nat) (t : Ty) (j : Json)
    (h : pyDen n ss t j = true) :
    ∃ v, pyFromJson n ss t j = .ok v ∧ Json.eqv (pyToJson v) j = true := by
  obtain ⟨v, hv, g⟩ := py_roundtrip_core ss n t j h
  exact ⟨v, hv, by simp [Json.eqv, g.enc_sub, g.sub_enc]⟩

/-- The same for a named object (what the lab driver's `roundtrip` does). -/
theorem C11_object_roundtrip_partial (ss : Schemas) (n : Nat) (pkg name : String) (j : Json)
    (hw : wfJson j = true) (h : pyDen n ss (.ref pkg name {}) j = true) :
    ∃ j', pyRoundTrip n ss pkg name j = .ok j' ∧ Json.eqv j' j = true := by
  obtain ⟨v, hv, he⟩ := C11_roundtrip_partial ss n _ j h
  exact ⟨pyToJson v, by simp [pyRoundTrip, hw, hv, DRes.map, DRes.bind], he⟩

/-- Decoding never raises, loops or leaves the model on the fragment. -/
theorem C11_decode_defined_partial (ss : Schemas) (n : Nat) (t : Ty) (j : Json)
    (h : pyDen n ss t j = true) :
    pyFromJson n ss t j ≠ .err ∧ pyFromJson n ss t j ≠ .fuel ∧
      ∀ w, pyFromJson n ss t j ≠ .unsup w := by
  obtain ⟨v, hv, _⟩ := py_roundtrip_core ss n t j h
  rw [hv]; exact ⟨by simp, by simp, by simp⟩

/-- Wire agreement: the JSON Python produces for a document is JSON-equal (up to null members) to
    the JSON Go produces for it, on documents of both proved fragments. -/
theorem C11_go_py_agree_partial (ssGo ssPy : Schemas) (n m : Nat) (tGo tPy : Ty) (j : Json)
    (hg : den n ssGo tGo j = true) (hp : pyDen m ssPy tPy j = true) :
    ∃ gv pv, goDecode n ssGo tGo j = .ok gv ∧ pyFromJson m ssPy tPy j = .ok pv ∧
      Json.eqv (pyToJson pv) (GoVal.goEncode gv) = true := by
  obtain ⟨gv, hgv, hge⟩ := C01_codec_roundtrip_partial ssGo n tGo j hg
  obtain ⟨pv, hpv, hpe⟩ := C11_roundtrip_partial ssPy m tPy j hp
  exact ⟨gv, pv, hgv, hpv, eqv_trans_mid hpe hge⟩

/-! ### the full statement -/

/-- Python part: every document the IR type accepts is decoded (at some fuel) and re-encoded to a
    JSON-equal document. -/
def C11_full_roundtrip : Prop :=
  ∀ (ss : Schemas) (n : Nat) (t : Ty) (j : Json), accepts n ss t j = true →
    ∃ m v, pyFromJson m ss t j = .ok v ∧ Json.eqv (pyToJson v) j = true

/-- Wire part, stated for schemas whose Go and Python post-chain IRs coincide (no unions, no inline
    enums — the witnesses' sources are of that kind, and the lab confirms the two IRs are equal for them):
    whatever both sides produce for an accepted document is JSON-equal. -/
def C11_full_agree : Prop :=
  ∀ (ss : Schemas) (n : Nat) (t : Ty) (j : Json), accepts n ss t j = true →
    ∀ m m' gv pv, goDecode m ss t j = .ok gv → pyFromJson m' ss t j = .ok pv →
      Json.eqv (pyToJson pv) (GoVal.goEncode gv) = true

def C11_full : Prop := C11_full_roundtrip ∧ C11_full_agree

/-! ### example schemas (post-Python-chain shape: non-required fields are nullable) -/

namespace C11ex
def m0 : Meta := {}
def mN : Meta := { nullable := true }
def tStr : Ty := .scalar "string" .nil [] m0
def tStrN : Ty := .scalar "string" .nil [] mN
def tIntN : Ty := .scalar "int64" .nil [] mN
def obj (n : String) (t : Ty) : String × Obj := (n, { name := n, selfPkg := "p", selfName := n, ty := t })

def nodeTy : Ty :=
  .struct [
    { name := "v", ty := tIntN, required := false },
    { name := "next", ty := .ref "p" "Node" mN, required := false }] [] none m0

def kindTy (tag : String) (extra : Field) : Ty :=
  .struct [{ name := "kind", ty := .scalar "string" (.str tag) [] m0, required := true }, extra] [] none m0

def shapeTy : Ty :=
  .disj [.ref "p" "A" m0, .ref "p" "B" m0] { discriminator := "kind", mapping := [("a", "A"), ("b", "B")] } mN

def colorTy : Ty :=
  .enum [{ name := "red", value := .str "red", kind := "string" },
         { name := "green", value := .str "green", kind := "string" }] m0

def rootTy : Ty :=
  .struct [
    { name := "name", ty := tStr, required := true },
    { name := "child", ty := .ref "p" "Node" mN, required := false },
    { name := "items", ty := .array (.ref "p" "Node" m0) mN, required := false },
    { name := "byKey", ty := .map tStr (.ref "p" "Node" m0) mN, required := false },
    { name := "tags", ty := .array tStr mN, required := false },
    { name := "shape", ty := shapeTy, required := false },
    { name := "color", ty := .ref "p" "Color" mN, required := false },
    { name := "grid", ty := .map tStr (.map tStr (.ref "p" "Node" m0) m0) mN, required := false }] [] none m0

/-- unions, enums, nested optional structs, maps and arrays of objects -/
def ss : Schemas :=
  [{ pkg := "p", objects := [
      obj "Root" rootTy, obj "Node" nodeTy,
      obj "A" (kindTy "a" { name := "r", ty := tIntN, required := false }),
      obj "B" (kindTy "b" { name := "w", ty := tStrN, required := false }),
      obj "Color" colorTy] }]

def root : Ty := .ref "p" "Root" {}

/-- a schema whose Go and Python post-chain IRs coincide -/
def simpleTy : Ty :=
  .struct [
    { name := "name", ty := tStr, required := true },
    { name := "child", ty := .ref "p" "Node" mN, required := false },
    { name := "tags", ty := .array tStr mN, required := false }] [] none m0
def ssSimple : Schemas := [{ pkg := "p", objects := [obj "Root" simpleTy, obj "Node" nodeTy] }]

/-- optional member with a default / optional constant / required member with a default -/
def ssDefault : Schemas := [{ pkg := "p", objects := [obj "Root" (.struct [
    { name := "name", ty := tStr, required := true },
    { name := "note", ty := .scalar "int64" .nil [] { nullable := true, dflt := .int "i64" 7 }, required := false }] [] none m0)] }]
def ssConst : Schemas := [{ pkg := "p", objects := [obj "Root" (.struct [
    { name := "name", ty := tStr, required := true },
    { name := "x", ty := .scalar "int64" (.int "i64" 72) [] mN, required := false }] [] none m0)] }]
def ssReqDefault : Schemas := [{ pkg := "p", objects := [obj "Root" (.struct [
    { name := "name", ty := tStr, required := true },
    { name := "a", ty := .scalar "int64" .nil [] { dflt := .int "i64" 5 }, required := true }] [] none m0)] }]

def n (k : Int) : Json := .num (k * 4)
def docFull : Json :=
  .obj [("tags", .arr [.str "t"]), ("name", .str "x"),
        ("child", .obj [("v", n 1), ("next", .obj [])]),
        ("items", .arr [.obj [("v", n 2)], .obj []]),
        ("byKey", .obj [("k", .obj [("v", n 3)])]),
        ("shape", .obj [("kind", .str "b"), ("w", .str "q")]),
        ("color", .str "green")]

def pyOut (ss : Schemas) (d : Json) : DRes Json := pyRoundTrip 8 ss "p" "Root" d
def goOut (ss : Schemas) (d : Json) : DRes Json := goRoundTrip 8 ss "p" "Root" d
def isOkEqv (r : DRes Json) (d : Json) : Bool := match r with | .ok j' => Json.eqv j' d | _ => false
def isErr (r : DRes Json) : Bool := match r with | .err => true | _ => false
def isOkJson (r : DRes Json) (d : Json) : Bool := match r with | .ok j' => j' == d | _ => false
end C11ex

open C11ex

/-! ### non-vacuity -/

example : pyDen 8 C11ex.ss root docFull = true := by decide +kernel
example : accepts 8 C11ex.ss root docFull = true := by decide +kernel
example : isOkEqv (pyOut C11ex.ss docFull) docFull = true := by decide +kernel
/-- a document in both fragments (Go `den`, Python `pyDen`) of a schema both chains leave alike -/
example : den 8 ssSimple root (.obj [("name", .str "x"), ("child", .obj [("v", n 1)]), ("tags", .arr [.str "t"])]) = true ∧
    pyDen 8 ssSimple root (.obj [("name", .str "x"), ("child", .obj [("v", n 1)]), ("tags", .arr [.str "t"])]) = true := by
  constructor <;> decide +kernel
/-- explicit null for optional scalars and collections of scalars IS in the fragment -/
example : pyDen 8 C11ex.ss root (.obj [("name", .str "x"), ("tags", .null), ("color", .null)]) = true := by
  decide +kernel

/-! ### members pinned to an enum member (constant references, CUE `unit: #Unit & "M"`) -/

/-- the lookup `__init__` relies on is exact: for a string enum that has a member with the pinned
    value, `MemberForValue` returns a member with exactly that value (case, spaces and prefixes
    included) — so the constructor's constant is the pinned value -/
theorem C11_pinned_member_exact (vals : List EnumVal) (v0 : EnumVal) (rest : List EnumVal) (s : String)
    (ev : EnumVal) (hv : vals = v0 :: rest) (hk : v0.kind = "string")
    (hmem : ∃ m ∈ vals, m.value = .str s) (h : memberForValue vals (.str s) = .ok ev) :
    ev.value = .str s := by
  subst hv
  simp only [memberForValue, isNilVal, Bool.false_eq_true, if_false, hk, beq_self_eq_true, if_true] at h
  cases hf : (v0 :: rest).find? (fun e => valDeepEq e.value (.str s)) with
  | some e =>
    rw [hf] at h
    simp only [Option.getD_some, DRes.ok.injEq] at h
    subst h
    have := List.find?_some hf
    cases hval : e.value <;> simp_all [valDeepEq]
  | none =>
    exfalso
    obtain ⟨m, hm, hmv⟩ := hmem
    have := List.find?_eq_none.1 hf m hm
    simp [hmv, valDeepEq] at this

namespace C11ex
/-- time units: minute "m" and month "M" differ only by case; `EveryMonths.unit` is pinned to the later one -/
def unitTy : Ty :=
  .enum [{ name := "Second", value := .str "s", kind := "string" },
         { name := "Minute", value := .str "m", kind := "string" },
         { name := "Month", value := .str "M", kind := "string" }] m0
def everyTy (v : String) : Ty :=
  .struct [{ name := "unit", ty := .cref "p" "Unit" (.str v) m0, required := true },
           { name := "count", ty := .scalar "int64" .nil [] m0, required := true }] [] none m0
def ssUnit : Schemas :=
  [{ pkg := "p", objects := [obj "Unit" unitTy, obj "Root" (everyTy "M"), obj "EveryMinutes" (everyTy "m")] }]
end C11ex

/-- a document pinned to the LATER of two case-variant members is in the proved fragment and keeps its value -/
example : pyDen 8 ssUnit root (.obj [("unit", .str "M"), ("count", n 3)]) = true ∧
    isOkJson (pyOut ssUnit (.obj [("unit", .str "M"), ("count", n 3)])) (.obj [("unit", .str "M"), ("count", n 3)]) = true ∧
    pyDen 8 ssUnit root (.obj [("unit", .str "m"), ("count", n 3)]) = false := by
  refine ⟨?_, ?_, ?_⟩ <;> decide +kernel

/-! ### the full statement fails on the current tree -/

def docNullChild : Json := .obj [("name", .str "x"), ("child", .null)]

/-- explicit `null` for an optional struct: `Node.from_json(None)` raises TypeError -/
theorem C11_counterexample_explicit_null_struct :
    accepts 8 C11ex.ss root docNullChild = true ∧ isErr (pyOut C11ex.ss docNullChild) = true := by
  constructor <;> decide +kernel

/-- … for an optional array of structs (`[Node.from_json(item) for item in None]`) -/
theorem C11_counterexample_explicit_null_array_of_structs :
    accepts 8 C11ex.ss root (.obj [("name", .str "x"), ("items", .null)]) = true ∧
    isErr (pyOut C11ex.ss (.obj [("name", .str "x"), ("items", .null)])) = true := by
  constructor <;> decide +kernel

/-- … for an optional map of structs (`None.keys()`) -/
theorem C11_counterexample_explicit_null_map_of_structs :
    accepts 8 C11ex.ss root (.obj [("name", .str "x"), ("byKey", .null)]) = true ∧
    isErr (pyOut C11ex.ss (.obj [("name", .str "x"), ("byKey", .null)])) = true := by
  constructor <;> decide +kernel

/-- … for an optional discriminated union (`None["kind"]`) -/
theorem C11_counterexample_explicit_null_union :
    accepts 8 C11ex.ss root (.obj [("name", .str "x"), ("shape", .null)]) = true ∧
    isErr (pyOut C11ex.ss (.obj [("name", .str "x"), ("shape", .null)])) = true := by
  constructor <;> decide +kernel

/-- maps nested in maps of objects decode entry-wise (since /repo 60e31f6; before that commit every
    dict comprehension used the loop variable `key`, the inner body read `data["grid"][inner][inner]`,
    and these two documents gave a KeyError resp. copied `grid.a.a` into `grid.b.a` — the check's pin
    `nested-dict-of-structs` replays both on the real generated code, a relapse is a VIOLATION) -/
theorem C11_nested_map_in_fragment :
    pyDen 8 C11ex.ss root (.obj [("name", .str "x"), ("grid", .obj [("k1", .obj [("k2", .obj [])])])]) = true ∧
    pyDen 8 C11ex.ss root (.obj [("name", .str "x"), ("grid", .obj [
        ("a", .obj [("a", .obj [("v", n 1)])]), ("b", .obj [("a", .obj [("v", n 2)])])])]) = true ∧
    isOkJson (pyOut C11ex.ss (.obj [("name", .str "x"), ("grid", .obj [
        ("a", .obj [("a", .obj [("v", n 1)])]), ("b", .obj [("a", .obj [("v", n 2)])])])]))
      (.obj [("name", .str "x"), ("grid", .obj [
        ("a", .obj [("a", .obj [("v", n 1)])]), ("b", .obj [("a", .obj [("v", n 2)])])])]) = true := by
  refine ⟨?_, ?_, ?_⟩ <;> decide +kernel

/-- an optional member with a default that the document leaves out is emitted with the default -/
theorem C11_counterexample_optional_default_emitted :
    accepts 8 ssDefault root (.obj [("name", .str "x")]) = true ∧
    isOkJson (pyOut ssDefault (.obj [("name", .str "x")])) (.obj [("name", .str "x"), ("note", n 7)]) = true ∧
    isOkEqv (pyOut ssDefault (.obj [("name", .str "x")])) (.obj [("name", .str "x")]) = false := by
  refine ⟨?_, ?_, ?_⟩ <;> decide +kernel

/-- an optional constant that the document leaves out is emitted -/
theorem C11_counterexample_optional_constant_emitted :
    accepts 8 ssConst root (.obj [("name", .str "x")]) = true ∧
    isOkJson (pyOut ssConst (.obj [("name", .str "x")])) (.obj [("name", .str "x"), ("x", n 72)]) = true := by
  constructor <;> decide +kernel

/-- an optional list given as `[]`: Python keeps it, Go's `omitempty` drops it — the two SDKs
    disagree on the wire (the Python round trip itself is fine) -/
theorem C11_counterexample_empty_optional_list_differs_from_go :
    accepts 8 ssSimple root (.obj [("name", .str "x"), ("tags", .arr [])]) = true ∧
    isOkJson (pyOut ssSimple (.obj [("name", .str "x"), ("tags", .arr [])])) (.obj [("name", .str "x"), ("tags", .arr [])]) = true ∧
    isOkJson (goOut ssSimple (.obj [("name", .str "x"), ("tags", .arr [])])) (.obj [("name", .str "x")]) = true := by
  refine ⟨?_, ?_, ?_⟩ <;> decide +kernel

/-- a required member with a default that the document leaves out (CUE's own validator accepts such
    a document: unification supplies the default): Python emits the default, Go the zero value -/
theorem C11_counterexample_required_absent_default :
    isOkJson (pyOut ssReqDefault (.obj [("name", .str "x")])) (.obj [("name", .str "x"), ("a", n 5)]) = true ∧
    isOkJson (goOut ssReqDefault (.obj [("name", .str "x")])) (.obj [("name", .str "x"), ("a", n 0)]) = true := by
  constructor <;> decide +kernel

/-- `X.from_json(None)` raises as soon as the class has a field that is read from the document -/
theorem from_json_null_raises (ss : Schemas) (m : Nat) (pkg name : String) (mt : Meta) (o : Obj) (fields : List Field) (g : List Ty) (gi : Option (String × DisjInfo)) (sm : Meta)
    (ho : Schemas.locateObject ss pkg name = some o) (hty : o.ty = .struct fields g gi sm)
    (hf : fields.all isConstField = false) :
    pyFromJson (m + 1) ss (.ref pkg name mt) .null = .err := by
  simp [pyFromJson, ho, hty, classFromJsonWith, hf]

/-- an exception in the decoder of the first field is an exception of `from_json` -/
theorem from_json_first_field_raises (ss : Schemas) (m : Nat) (pkg name : String) (mt : Meta)
    (o : Obj) (f : Field) (rest : List Field) (g : List Ty)
    (gi : Option (String × DisjInfo)) (sm : Meta) (members : List (String × Json)) (x : Json)
    (ho : Schemas.locateObject ss pkg name = some o) (hty : o.ty = .struct (f :: rest) g gi sm)
    (hc : isConstField f = false) (hl : Json.lookup f.name members = some x)
    (hx : pyFromJson m ss f.ty x = .err) :
    pyFromJson (m + 1) ss (.ref pkg name mt) (.obj members) = .err := by
  simp [pyFromJson, ho, hty, classFromJsonWith, mapRes, pyFieldWith, hc, hl, hx, DRes.bind, DRes.map]

namespace C11ex
/-- the smallest schema with an optional struct member -/
def childField : Field := { name := "child", ty := .ref "p" "Node" mN, required := false }
def vField : Field := { name := "v", ty := tIntN, required := false }
def oRoot : Obj := { name := "Root", selfPkg := "p", selfName := "Root", ty := .struct [childField] [] none m0 }
def oNode : Obj := { name := "Node", selfPkg := "p", selfName := "Node", ty := .struct [vField] [] none m0 }
def ssNull : Schemas := [{ pkg := "p", objects := [("Root", oRoot), ("Node", oNode)] }]
def docNull : Json := .obj [("child", .null)]
end C11ex

theorem explicit_null_never_ok (m : Nat) (v : PyVal) :
    pyFromJson m ssNull root docNull ≠ .ok v := by
  have hroot : Schemas.locateObject ssNull "p" "Root" = some oRoot := by
    simp [ssNull, Schemas.locateObject, Schemas.locate, Schema.locateObject, Cog.OMap.rget]
  have hnode : Schemas.locateObject ssNull "p" "Node" = some oNode := by
    simp [ssNull, Schemas.locateObject, Schemas.locate, Schema.locateObject, Cog.OMap.rget]
  match m with
  | 0 => simp [pyFromJson]
  | 1 =>
    simp [root, pyFromJson, hroot, oRoot, classFromJsonWith, docNull, mapRes, pyFieldWith, childField,
      isConstField, isCref, crefVal, constOf, Json.lookup, DRes.bind, DRes.map]
  | m + 2 =>
    have hchild : pyFromJson (m + 1) ssNull childField.ty .null = .err :=
      from_json_null_raises ssNull m "p" "Node" mN oNode [vField] [] none m0 hnode rfl
        (by simp [vField, isConstField, isCref, crefVal, constOf, tIntN, isNilVal])
    have := from_json_first_field_raises ssNull (m + 1) "p" "Root" {} oRoot childField [] [] none m0
      [("child", .null)] .null hroot rfl
      (by simp [childField, isConstField, isCref, crefVal, constOf]) (by simp [childField, Json.lookup]) hchild
    simp only [root, docNull]
    rw [this]; simp

theorem C11_full_roundtrip_counterexample : ¬ C11_full_roundtrip := by
  intro h
  have hacc : accepts 8 ssNull root docNull = true := by decide +kernel
  obtain ⟨m, v, hv, _⟩ := h ssNull 8 root docNull hacc
  exact explicit_null_never_ok m v hv

theorem C11_full_agree_counterexample : ¬ C11_full_agree := by
  intro h
  have hacc := C11_counterexample_empty_optional_list_differs_from_go.1
  have hne : (match goDecode 8 ssSimple root (.obj [("name", .str "x"), ("tags", .arr [])]),
                    pyFromJson 8 ssSimple root (.obj [("name", .str "x"), ("tags", .arr [])]) with
              | .ok gv, .ok pv => !(Json.eqv (pyToJson pv) (GoVal.goEncode gv))
              | _, _ => false) = true := by decide +kernel
  cases hg : goDecode 8 ssSimple root (.obj [("name", .str "x"), ("tags", .arr [])]) with
  | ok gv =>
    cases hp : pyFromJson 8 ssSimple root (.obj [("name", .str "x"), ("tags", .arr [])]) with
    | ok pv =>
      have := h ssSimple 8 root _ hacc 8 8 gv pv hg hp
      simp [hg, hp, this] at hne
    | err | unsup _ | fuel => simp [hg, hp] at hne
  | err | unsup _ | fuel => simp [hg] at hne

theorem C11_full_counterexample : ¬ C11_full := fun h => C11_full_roundtrip_counterexample h.1

/-! ## BEGIN pass widening through the regenerated Python chain (append-only block, owner: c01-widening builder)

Part (c) for Python: for a PRE-chain IR `S` (front-end output) in the decidable fragment `PlainPy`
(Cog/Sem/SrcPy.lean: plain types, two-branch `T | null` pairs, anonymous enums — which stay inline in
the Python chain —, and the source-side mirror `pyOK` of `pyDen`'s exclusions), resp. `PlainPyS` (also
anonymous structs with fresh generated names), every document of the source-side language `srcDen`
belongs to `pyDen` of the output of `Cog.Gen.Chains.pythonChain` run by `Cog.Passes.runChain` over the
pass models; composed with the round-trip theorem above, and with C01's Go result into a source-level
wire agreement.  Tie: stream `c11-src` (harness/c01_src.go), verb `srcpy` (lean/Cog/Drv/SrcDenDrv.lean). -/

namespace C11w
open Cog.Passes Cog.Gen.Chains Cog.Sem.Src

/-- the FULL statement: for every pre-chain IR, every document of the source-side language of a named
    object is in `pyDen` of the same object after the Python chain (at some fuel) -/
def C11_pass_widening_full : Prop :=
  ∀ (S S' : Schemas) (pkg name : String) (n : Nat) (j : Json), runChain pythonChain S = .ok S' →
    srcDen n S (.ref pkg name {}) j = true → ∃ n', pyDen n' S' (.ref pkg name {}) j = true

/-- pass widening through the real regenerated Python chain on `PlainPy`; the image of a type is
    `nullOpt t` (a `T | null` pair replaced by the nullable `T`; `t` itself otherwise) -/
theorem C11_pass_widening_partial (S S' : Schemas) (hP : PlainPy S = true)
    (hrun : runChain pythonChain S = .ok S') (n : Nat) (t : Ty) (ht : nrTy t = true) (hpt : pyTy t = true)
    (j : Json) (h : srcDen n S t j = true) : pyDen (n + 1) S' (nullOpt t) j = true :=
  (widen_py pythonChain (by decide) S S' hP hrun).2 n t j ht hpt h

/-- the output of the Python chain on the fragment is the computable `pyS S` -/
theorem C11_python_chain_exact (S S' : Schemas) (hP : PlainPy S = true)
    (hrun : runChain pythonChain S = .ok S') : S' = pyS S :=
  (widen_py pythonChain (by decide) S S' hP hrun).1

/-- … for the named objects of a pre-chain IR with anonymous structs -/
theorem C11_pass_widening_struct_partial (S S' : Schemas) (hS : PlainPyS S = true)
    (hrun : runChain pythonChain S = .ok S') (n : Nat) (pkg name : String) (j : Json)
    (h : srcDen n S (.ref pkg name {}) j = true) : pyDen (n + 1) S' (.ref pkg name {}) j = true :=
  (widen_pyS pythonChain (by decide) S S' hS hrun).2 n pkg name j h

/-- (c) + round trip: a source-valid document of a named object is decoded without exception by the
    generated Python class and `to_json` / `JSONEncoder` of the result is JSON-equal to it up to
    omission of null members -/
theorem C11_source_roundtrip_partial (S S' : Schemas) (hS : PlainPyS S = true)
    (hrun : runChain pythonChain S = .ok S') (n : Nat) (pkg name : String) (j : Json)
    (h : srcDen n S (.ref pkg name {}) j = true) :
    ∃ v, pyFromJson (n + 1) S' (.ref pkg name {}) j = .ok v ∧ Json.eqv (pyToJson v) j = true :=
  C11_roundtrip_partial S' (n + 1) _ j (C11_pass_widening_struct_partial S S' hS hrun n pkg name j h)

/-- the same as the lab driver's `roundtrip` (which first rejects duplicate keys) -/
theorem C11_source_object_roundtrip_partial (S S' : Schemas) (hS : PlainPyS S = true)
    (hrun : runChain pythonChain S = .ok S') (n : Nat) (pkg name : String) (j : Json) (hw : wfJson j = true)
    (h : srcDen n S (.ref pkg name {}) j = true) :
    ∃ j', pyRoundTrip (n + 1) S' pkg name j = .ok j' ∧ Json.eqv j' j = true :=
  C11_object_roundtrip_partial S' (n + 1) pkg name j hw
    (C11_pass_widening_struct_partial S S' hS hrun n pkg name j h)

/-- source-level wire agreement on the common fragment: ONE pre-chain IR, both regenerated chains; a
    document of the source-side language of a named object is decoded by both generated codecs and what
    Python emits is JSON-equal (up to null members) to what Go emits -/
theorem C11_source_agree_partial (S Sg Sp : Schemas) (hG : PlainS S = true) (hPy : PlainPyS S = true)
    (hgo : runChain goChain S = .ok Sg) (hpy : runChain pythonChain S = .ok Sp)
    (n : Nat) (pkg name : String) (j : Json) (h : srcDen n S (.ref pkg name {}) j = true) :
    ∃ gv pv, goDecode (n + 1) Sg (.ref pkg name {}) j = .ok gv ∧
      pyFromJson (n + 1) Sp (.ref pkg name {}) j = .ok pv ∧
      Json.eqv (pyToJson pv) (GoVal.goEncode gv) = true :=
  C11_go_py_agree_partial Sg Sp (n + 1) (n + 1) _ _ j
    (C01_pass_widening_struct_partial S Sg hG hgo n pkg name j h)
    (C11_pass_widening_struct_partial S Sp hPy hpy n pkg name j h)

/-! ### non-vacuity -/

def mW : Meta := {}
def iW : DisjInfo := {}
def tS : Ty := .scalar "string" .nil [] mW
def tNullS : Ty := .scalar "null" .nil [] mW
def anonE : Ty :=
  .enum [{ name := "1", value := .str "1", kind := "string" }, { name := "b", value := .str "b", kind := "string" }] mW
def colorE : Ty :=
  .enum [{ name := "1", value := .int "i64" 1, kind := "int64" }, { name := "2", value := .int "i64" 2, kind := "int64" }] mW

def rootW : Ty :=
  .struct [
    { name := "name", ty := .disj [tS, tNullS] iW mW, required := true },
    { name := "kind", ty := .scalar "string" (.str "v1") [] mW, required := true },
    { name := "count", ty := .scalar "int64" .nil [] mW, required := false },
    { name := "tags", ty := .array (.disj [tS, tNullS] iW mW) mW, required := false },
    { name := "child", ty := .ref "p" "Root" mW, required := false },
    { name := "order", ty := anonE, required := false },
    { name := "color", ty := .ref "p" "Color" mW, required := false },
    { name := "opts", ty := .struct [{ name := "x", ty := tS, required := true }] [] none mW, required := false },
    { name := "items", ty := .array (.struct [{ name := "v", ty := .scalar "int64" .nil [] mW, required := true }] [] none mW) mW, required := true }] [] none mW

def exW : Schemas :=
  [{ pkg := "p", objects := [
      ("Root", { name := "Root", selfPkg := "p", selfName := "Root", ty := rootW }),
      ("Color", { name := "Color", selfPkg := "p", selfName := "Color", ty := colorE })] }]

def docW : Json :=
  .obj [("name", .null), ("kind", .str "v1"), ("tags", .arr [.str "a", .null]), ("order", .str "b"),
        ("color", .num 8), ("opts", .obj [("x", .str "y")]), ("items", .arr [.obj [("v", .num 4)]]),
        ("child", .obj [("name", .str "n"), ("kind", .str "v1"), ("items", .arr [])])]

/-- the example lies in both fragments (Go: `PlainS`, Python: `PlainPyS`), the document is in `srcDen`,
    both chains run, and the conclusions hold when evaluated on the models' outputs -/
example : PlainPyS exW = true ∧ PlainS exW = true ∧ PlainPy exW = false ∧
    srcDen 8 exW (.ref "p" "Root" {}) docW = true ∧
    (match runChain pythonChain exW with
     | .ok Sp => pyDen 9 Sp (.ref "p" "Root" {}) docW &&
         (match pyRoundTrip 9 Sp "p" "Root" docW with | .ok j' => Json.eqv j' docW | _ => false)
     | _ => false) = true ∧
    (match runChain goChain exW, runChain pythonChain exW with
     | .ok Sg, .ok Sp =>
       (match goRoundTrip 9 Sg "p" "Root" docW, pyRoundTrip 9 Sp "p" "Root" docW with
        | .ok a, .ok b => Json.eqv b a
        | _, _ => false)
     | _, _ => false) = true := by
  refine ⟨by decide +kernel, by decide +kernel, by decide +kernel, by decide +kernel, by decide +kernel,
    by decide +kernel⟩

/-! ### the full statement is false on the current tree -/

def nullableRefTy : Ty :=
  .struct [{ name := "child", ty := .ref "p" "Root" { nullable := true }, required := false }] [] none mW

/-- outside the fragment, as `pyDen` demands: a nullable reference (explicit `null` raises in `from_json`) -/
example : PlainPy [{ pkg := "p", objects := [("Root", { name := "Root", selfPkg := "p", selfName := "Root", ty := nullableRefTy })] }] = false := by
  decide +kernel

def refOrNullTy : Ty :=
  .struct [{ name := "child", ty := .disj [.ref "p" "Root" mW, tNullS] iW mW, required := false }] [] none mW

def wNullRef : Schemas :=
  [{ pkg := "p", objects := [("Root", { name := "Root", selfPkg := "p", selfName := "Root", ty := refOrNullTy })] }]

/-- `Root = { child?: Root | null }` (JSON Schema `anyOf: [$ref, {type: null}]`): `{"child": null}` is a document of `Root` at the source
    (the member is nullable) and of no fuel's `pyDen` after the Python chain — `Root.from_json(None)`
    raises (the source-level face of `C11_counterexample_explicit_null_struct`; replayed on the real
    front-end and passes by the row `pinnullref` of the `c11-src` stream) -/
theorem C11_pass_widening_counterexample : ¬ C11_pass_widening_full := by
  intro hfull
  have hshape : (match runChain pythonChain wNullRef with
      | .ok S' => selfRefShape S' "p" "Root" "child" | _ => false) = true := by decide +kernel
  cases hr : runChain pythonChain wNullRef with
  | ok S' =>
    rw [hr] at hshape
    obtain ⟨n', h⟩ := hfull wNullRef S' "p" "Root" 4 (.obj [("child", .null)]) hr (by decide +kernel)
    rw [selfRefShape_pyDen S' "p" "Root" "child" hshape] at h
    cases h
  | err e => rw [hr] at hshape; cases hshape
  | panic e => rw [hr] at hshape; cases hshape

end C11w
/-! ## END pass widening through the regenerated Python chain -/

end Cog.Sem
