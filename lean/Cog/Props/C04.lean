/-
  Property C04 — no input and no configuration makes cog panic or hang.

  Models (all with EXPLICIT `Outcome.panic` at every unchecked Go operation, fuel for every
  recursion through references):
    Cog/Passes/*            the 15 compiler passes of the language chains      (C06 builder)
    Cog/Xform/*             the 20 user-facing YAML transformations            (C15 builder)
    Cog/Builder/*           `FromAST`, veneer rules and option actions         (C16/C17 builder)
    Cog/Total/OpenApiParse  the OpenAPI front-end from kin-openapi's value down (this property)
    Cog/Total/JsonSchemaParse  the JSON Schema front-end from santhosh-tekuri's value down
    Cog/Total/Resolve       `Schema.Resolve` / `Schemas.ResolveToType` as one fuelled scheme

  The property at full strength is FALSE on the current tree.  Each `C04_*_full` below is the
  unconditional statement, each `C04_*_counterexample` refutes it with a concrete witness evaluated
  by the kernel (the same witness is replayed on the real code by checks/c04.py, where it is a
  recorded finding), and each `C04_*_partial` / `C04_*_total` proves it under explicit DECIDABLE
  hypotheses — `wfIR` (what all front-ends guarantee) plus the named side conditions whose
  negations are exactly the findings.

  Not under a theorem (crash stream only, see DESIGN.md "honest scope"): bytes → library value, the
  CUE front-end, the jennies and templates, veneer builder rules and the `StructFieldsAs…` /
  `AddAssignment` actions, nil checks, converters.
-/
import Cog.Total.PassTotal
import Cog.Total.XformTotal
import Cog.Total.BuilderTotal
import Cog.Total.JsonSchemaParse
import Cog.Total.Accounted
import Cog.Gen.Chains
import Cog.NF.Witness
import Cog.Builder.Witness
namespace Cog.C04
open Cog.IR Cog.Passes Cog.Total Cog.Xform
open Cog.NF.Witness (schemas obj union str i64 fld)

/-- the outcome is a panic at exactly this site of the model -/
def panicsAt {α : Type} (o : Outcome α) (site : String) : Bool :=
  match o with
  | .panic s => s == site
  | _ => false

/-! ## 1. recursion through references terminates iff there is no alias cycle -/

/-- On a schema without alias cycle, `Schema.Resolve` never exhausts the fuel the pass models give it
    (`Schemas.fuel` of any slice containing the schema ≥ number of objects + 2), for every type. -/
theorem C04_resolve_terminates (cur : Schemas) (s : Schema) (hs : s ∈ cur)
    (hac : Schema.aliasAcyclicB s = true) (t : Ty) :
    isPanic (Cog.Passes.Schema.resolve s (Schemas.fuel cur) t) = false :=
  schemaResolve_noPanic cur s hs hac t

/-- the same across schemas, for `Schemas.ResolveToType` -/
theorem C04_resolveToType_terminates (S : Schemas) (hac : Schemas.aliasAcyclicB S = true) (t : Ty) :
    Schemas.resolveToType S (Schemas.fuel S) t ≠ none :=
  resolveToType_some S hac t

/-- fuel is not observable: once a resolution has an answer, more fuel gives the same answer -/
theorem C04_resolve_fuel_irrelevant (s : Schema) (f k : Nat) (t : Ty)
    (h : (schemaSys s).resolve f t ≠ .exhausted) :
    (schemaSys s).resolve (f + k) t = (schemaSys s).resolve f t :=
  RefSys.resolve_mono _ f k t h

/-- `Schema.Resolve` on a reference overflows the stack (exhausts EVERY fuel) iff the chain of alias
    objects starting at the referred name runs into a cycle. -/
theorem resolve_diverges_iff_alias_cycle (s : Schema) (pkg name : String) (m : Meta) :
    (∀ fuel, Cog.Passes.Schema.resolve s fuel (.ref pkg name m) = .panic "stack-overflow") ↔
      (schemaSys s).ReachesCycle name := by
  rw [← RefSys.resolve_diverges_iff (schemaSys s) (schemaKeys s) (schemaSys_dom s) (.ref pkg name m) name rfl]
  constructor
  · intro h f
    have := h f
    rw [schemaResolve_eq] at this
    cases hr : (schemaSys s).resolve f (.ref pkg name m) with
    | exhausted => rfl
    | dangling _ => simp [hr] at this
    | found _ => simp [hr] at this
  · intro h f
    rw [schemaResolve_eq, h f]

/-- … and across schemas for `Schemas.ResolveToType` -/
theorem resolveToType_diverges_iff_alias_cycle (S : Schemas) (pkg name : String) (m : Meta) :
    (∀ fuel, Schemas.resolveToType S fuel (.ref pkg name m) = none) ↔ (schemasSys S).ReachesCycle (pkg, name) := by
  rw [← RefSys.resolve_diverges_iff (schemasSys S) (schemasKeys S) (schemasSys_dom S) (.ref pkg name m) (pkg, name) rfl]
  constructor
  · intro h f
    have := h f
    rw [resolveToType_eq] at this
    cases hr : (schemasSys S).resolve f (.ref pkg name m) with
    | exhausted => rfl
    | dangling _ => simp [hr] at this
    | found _ => simp [hr] at this
  · intro h f
    rw [resolveToType_eq, h f]

/-- alias-acyclicity is decidable: the check is exact -/
theorem aliasAcyclic_iff (s : Schema) :
    Schema.aliasAcyclicB s = true ↔ ∀ name, ¬ (schemaSys s).ReachesCycle name :=
  RefSys.acyclicB_iff (schemaSys s) (schemaKeys s) (schemaSys_dom s)

/-! ### which configuration creates an alias cycle -/

/-- `p.A = { f: string }` — well-formed, no alias at all -/
def plain : Schemas := schemas [obj "A" (.struct [fld "f" str true] [] none {})]

/-- `retype_object: { object: p.A, as: { kind: ref, ref: { referred_pkg: p, referred_type: A } } }` -/
def retypeSelf : Xf := .retypeObject { object := ⟨"p", "A"⟩, as_ := .ref "p" "A" {}, comments := none }
/-- `add_object: { object: p.B, as: ref p.B }` -/
def addSelf : Xf := .addObject { object := ⟨"p", "B"⟩, as_ := .ref "p" "B" {}, comments := [] }

/-- a well-formed, alias-free IR; a well-formed `as:` type; the transformation succeeds; the result is
    still `wfIR` — and has an alias cycle on which `ResolveToType` diverges -/
theorem retype_object_creates_alias_cycle :
    wfIR plain = true ∧ GlobalAliasAcyclic plain = true ∧
    (∃ S', retypeSelf.run plain = .ok S' ∧ wfIR S' = true ∧ GlobalAliasAcyclic S' = false ∧
      Schemas.resolveToType S' (Schemas.fuel S') (.ref "p" "A" {}) = none) := by
  refine ⟨by decide +kernel, by decide +kernel, _, rfl, by decide +kernel, by decide +kernel, by decide +kernel⟩

theorem add_object_creates_alias_cycle :
    (∃ S', addSelf.run plain = .ok S' ∧ wfIR S' = true ∧ GlobalAliasAcyclic S' = false) := by
  refine ⟨_, rfl, by decide +kernel, by decide +kernel⟩

/-! ## 2. compiler passes and language chains -/

def C04_pass_total_full : Prop :=
  ∀ (p : PassId) (S : Schemas), wfIR S = true → isPanic (p.run S) = false

/-- every pass, under its condition -/
theorem C04_pass_total_partial (p : PassId) (S : Schemas) (hc : passCond p S = true) :
    isPanic (p.run S) = false := pass_total p S hc

/-- the passes without any partial operation are total outright (since fix 30da046 of /repo
    `DisjunctionWithNullToOptional` is one of them) -/
theorem C04_pass_total_unconditional (S : Schemas) :
    isPanic (PassId.run .anonymousStructsToNamed S) = false ∧
    isPanic (PassId.run .notRequiredFieldAsNullableType S) = false ∧
    isPanic (PassId.run .anonymousEnumToExplicitType S) = false ∧
    isPanic (PassId.run .disjunctionOfAnonymousStructsToExplicit S) = false ∧
    isPanic (PassId.run .renameNumericEnumValues S) = false ∧
    isPanic (PassId.run .disjunctionWithNullToOptional S) = false :=
  ⟨pass_total _ S rfl, pass_total _ S rfl, pass_total _ S rfl, pass_total _ S rfl, pass_total _ S rfl, pass_total _ S rfl⟩

theorem enumMembersOk_of_wf (S : Schemas) (h : wfIR S = true) : EnumMembersOk S = true := by
  have hn : enumMembersOkNode = enumMembersScalarNode := by
    funext t; cases t <;> rfl
  simp only [wfIR, Bool.and_eq_true] at h
  simpa [EnumMembersOk, hn] using h.2

/-- since fix aceba4d of /repo the two enum naming passes are total on every well-formed IR (the only
    dereference left is `member.Type.Scalar`, a conjunct of `wfIR`) -/
theorem C04_pass_total_wf (S : Schemas) (h : wfIR S = true) :
    isPanic (PassId.run .prefixEnumValues S) = false ∧ isPanic (PassId.run .sanitizeEnumMemberNames S) = false :=
  ⟨pass_total _ S (enumMembersOk_of_wf S h), pass_total _ S (enumMembersOk_of_wf S h)⟩

/-! witnesses: each is `wfIR` -/

/-- `enum: ["a", 1]` (JSON Schema types the members by the first value) -/
def wMixedEnum : Schemas := schemas [obj "E" (.enum
  [{ name := "a", value := .str "a", kind := "string" }, { name := "1", value := .int "i64" 1, kind := "string" }] {})]
/-- `enum: [1, ""]`: an int64 member named `""` -/
def wEmptyName : Schemas := schemas [obj "E" (.enum
  [{ name := "1", value := .int "i64" 1, kind := "int64" }, { name := "", value := .str "", kind := "int64" }] {})]
/-- `null | null` -/
def wNullNull : Schemas := schemas [obj "U" (union [Cog.NF.Witness.null, Cog.NF.Witness.null])]
/-- `A = ref A`, `U = A | string` -/
def wAliasCycle : Schemas := schemas [obj "A" (.ref "p" "A" {}), obj "U" (union [.ref "p" "A" {}, str])]
/-- `oneOf: []` -/
def wEmptyUnion : Schemas := schemas [obj "U" (union [])]
/-- OpenAPI `oneOf: [A, B]` + `discriminator: kind` where `A`, `B` are scalars -/
def wDiscriminatorOnScalars : Schemas := schemas [obj "A" str, obj "B" i64,
  obj "U" (.disj [.ref "p" "A" {}, .ref "p" "B" {}] { discriminator := "kind" } {})]
/-- discriminator field holding a non-string constant -/
def wDiscriminatorNonString : Schemas := schemas [
  obj "A" (.struct [fld "kind" (.scalar "int64" (.int "i64" 1) [] {}) true] [] none {}),
  obj "U" (.disj [.ref "p" "A" {}] { discriminator := "kind" } {})]
/-- `X = X | "a"`: a recursive union -/
def wRecursiveUnion : Schemas := schemas [obj "X" (union [.ref "p" "X" {}, .scalar "string" (.str "a") [] {}])]
/-- `hint_object: {hints: {implements_variant: 1}}` on an alias of a struct -/
def wVariantHint : Schemas := schemas [obj "S" (.struct [] [] none {}),
  obj "Al" (.ref "p" "S" { hints := [("implements_variant", .int "i64" 1)] })]

/-- still false: an alias cycle (`A = ref A`) overflows the stack in `Schema.Resolve` -/
theorem C04_pass_total_counterexample : ¬ C04_pass_total_full := by
  intro h
  have := h .flattenDisjunctions wAliasCycle (by decide +kernel)
  exact absurd this (by decide +kernel)

/-- one kernel-checked witness per panic site LEFT in the pass models -/
theorem C04_pass_witnesses :
    (wfIR wAliasCycle = true ∧ panicsAt (FlattenDisjunctions.run wAliasCycle) "stack-overflow" = true) ∧
    (wfIR wRecursiveUnion = true ∧ panicsAt (DisjunctionOfConstantsToEnum.run wRecursiveUnion) "stack-overflow" = true) ∧
    (wfIR wVariantHint = true ∧
      panicsAt (RemoveIntersections.run wVariantHint) "RemoveIntersections: Hints[implements_variant].(string)" = true) := by
  refine ⟨⟨?_, ?_⟩, ⟨?_, ?_⟩, ⟨?_, ?_⟩⟩ <;> decide +kernel

/-- the sites removed by the /repo fixes aceba4d, 30da046, 375123d, 146d1ec: the PRE-FIX models panic on
    these well-formed inputs (the former counterexamples of `C04_pass_total_full`) … -/
theorem C04_pass_prefix_witnesses :
    (wfIR wMixedEnum = true ∧ wfIR wEmptyName = true ∧ wfIR wNullNull = true ∧ wfIR wEmptyUnion = true ∧
      wfIR wDiscriminatorOnScalars = true ∧ wfIR wDiscriminatorNonString = true) ∧
    panicsAt (PrefixEnumValues.memberNamePreFix { name := "1", value := .int "i64" 1, kind := "string" })
      "PrefixEnumValues: member.Value.(string)" = true ∧
    panicsAt (PrefixEnumValues.memberNamePreFix { name := "", value := .str "", kind := "int64" })
      "PrefixEnumValues: member.Name[0]" = true ∧
    panicsAt (SanitizeEnumMemberNames.sanitizeMemberPreFix { name := "", value := .str "", kind := "int64" })
      "SanitizeEnumMemberNames: member.Name[0]" = true ∧
    panicsAt (DisjunctionWithNullToOptional.runPreFix wNullNull) "DisjunctionWithNullToOptional: NonNullTypes()[0]" = true ∧
    panicsAt (DisjunctionInferMapping.runPreFix wEmptyUnion) "DisjunctionInferMapping: def.Branches[0]" = true ∧
    panicsAt (DisjunctionInferMapping.runPreFix wDiscriminatorOnScalars) "DisjunctionInferMapping: referredType.AsStruct()" = true ∧
    panicsAt (DisjunctionInferMapping.runPreFix wDiscriminatorNonString) "DisjunctionInferMapping: Value.(string)" = true := by
  refine ⟨⟨?_, ?_, ?_, ?_, ?_, ?_⟩, ?_, ?_, ?_, ?_, ?_, ?_, ?_⟩ <;> decide +kernel

/-- … and the current models do not (instances of the strengthened totality theorems) -/
theorem C04_pass_fixed :
    isPanic (PrefixEnumValues.run wMixedEnum) = false ∧ isPanic (PrefixEnumValues.run wEmptyName) = false ∧
    isPanic (SanitizeEnumMemberNames.run wMixedEnum) = false ∧ isPanic (SanitizeEnumMemberNames.run wEmptyName) = false ∧
    isPanic (DisjunctionWithNullToOptional.run wNullNull) = false ∧
    isPanic (DisjunctionInferMapping.run wEmptyUnion) = false ∧
    isPanic (DisjunctionInferMapping.run wDiscriminatorOnScalars) = false ∧
    isPanic (DisjunctionInferMapping.run wDiscriminatorNonString) = false :=
  ⟨(C04_pass_total_wf wMixedEnum (by decide +kernel)).1, (C04_pass_total_wf wEmptyName (by decide +kernel)).1,
   (C04_pass_total_wf wMixedEnum (by decide +kernel)).2, (C04_pass_total_wf wEmptyName (by decide +kernel)).2,
   disjunctionWithNullToOptional_total wNullNull,
   disjunctionInferMapping_total _ wEmptyUnion (by decide +kernel),
   disjunctionInferMapping_total _ wDiscriminatorOnScalars (by decide +kernel),
   disjunctionInferMapping_total _ wDiscriminatorNonString (by decide +kernel)⟩

/-- the pre-fix passes were total under the conditions that have now been dropped -/
theorem C04_pass_prefix_partial (S : Schemas) :
    (NoNullOnlyUnion S = true → isPanic (DisjunctionWithNullToOptional.runPreFix S) = false) ∧
    (LocalAliasAcyclic S = true → InferMappingSafe S = true → isPanic (DisjunctionInferMapping.runPreFix S) = false) ∧
    (∀ v, memberOkPreFix v = true → isPanic (PrefixEnumValues.memberNamePreFix v) = false ∧
      isPanic (SanitizeEnumMemberNames.sanitizeMemberPreFix v) = false) :=
  ⟨disjunctionWithNullToOptionalPreFix_total S, disjunctionInferMappingPreFix_total S,
   fun v h => ⟨prefix_memberNamePreFix_noPanic v h, sanitizeMemberPreFix_noPanic v h⟩⟩

/-- the hypotheses of the partial theorem are satisfiable and not vacuous -/
example : wfIR plain = true ∧ ∀ p : PassId, passCond p plain = true := by
  refine ⟨by decide +kernel, fun p => ?_⟩
  cases p with
  | inlineObjectsWithTypes kinds => show GlobalAliasAcyclic plain = true; decide +kernel
  | _ => decide +kernel

/-! ### chains (the lists are regenerated from internal/jennies/*/jennies.go into Cog.Gen.Chains) -/

def C04_chain_total_full : Prop :=
  ∀ (lang : String) (ps : List PassId) (S : Schemas), Cog.Gen.Chains.chainOf lang = some ps →
    wfIR S = true → isPanic (runChain ps S) = false

/-- a chain does not panic when every pass's condition holds on the IR that pass receives -/
theorem C04_chain_total_partial (lang : String) (ps : List PassId) (S : Schemas)
    (_ : Cog.Gen.Chains.chainOf lang = some ps) (hc : chainCond ps S = true) :
    isPanic (runChain ps S) = false := chain_total ps S hc

/-- and when it does panic, the blame lies with one pass whose condition fails on its own input -/
theorem C04_chain_panic_blames (ps : List PassId) (S : Schemas) (h : isPanic (runChain ps S) = true) :
    ∃ (pre : List PassId) (p : PassId) (post : List PassId) (S1 : Schemas),
      ps = pre ++ p :: post ∧ runChain pre S = .ok S1 ∧ isPanic (p.run S1) = true ∧ passCond p S1 = false :=
  chain_panic_blames ps S h

theorem C04_chain_total_counterexample : ¬ C04_chain_total_full := by
  intro h
  have := h "go" Cog.Gen.Chains.goChain wAliasCycle rfl (by decide +kernel)
  exact absurd this (by decide +kernel)

/-- non-vacuity: the five regenerated chains satisfy `chainCond` on a plain struct schema -/
example : chainCond Cog.Gen.Chains.goChain plain = true ∧ chainCond Cog.Gen.Chains.javaChain plain = true ∧
    chainCond Cog.Gen.Chains.phpChain plain = true ∧ chainCond Cog.Gen.Chains.pythonChain plain = true ∧
    chainCond Cog.Gen.Chains.typescriptChain plain = true := by
  refine ⟨?_, ?_, ?_, ?_, ?_⟩ <;> decide +kernel

/-! ## 3. YAML-configured transformations -/

/-- single transformation, well-formed IR: FALSE (a malformed `as:` type, e.g. `{kind: array}` without
    its payload: `TypeName(as)` dereferences the nil kind pointer) -/
def C04_xform_total_full : Prop :=
  ∀ (x : Xf) (S : Schemas), wfIR S = true → isPanic (x.run S) = false

theorem C04_xform_total_partial (x : Xf) (S : Schemas) (hc : xfCond x S = true) :
    isPanic (x.run S) = false := xform_total x S hc

/-- `retype_object: {object: p.A, as: {kind: array}}` -/
def retypeBadArray : Xf := .retypeObject { object := ⟨"p", "A"⟩, as_ := .bad "array" {}, comments := none }

theorem C04_xform_total_counterexample : ¬ C04_xform_total_full := by
  intro h
  have := h retypeBadArray plain (by decide +kernel)
  exact absurd this (by decide +kernel)

/-- JSON Schema `{ "type": "string", "const": 1 }`: a string scalar whose value is not a string -/
def wStringConstInt : Schemas := schemas [obj "K" (.scalar "string" (.int "i64" 1) [] {})]
def constantToEnumK : Xf := .constantToEnum { objects := [⟨"p", "K"⟩] }

/-- since fix 637545e of /repo `constant_to_enum` needs nothing beyond `NoBad` (part of `wfIR`) -/
theorem C04_constant_to_enum_total (p : ConstantToEnum.Params) (S : Schemas) (h : wfIR S = true) :
    isPanic ((Xf.constantToEnum p).run S) = false := by
  apply xform_total
  show NoBad S = true
  exact noBad_of_wf S h

/-- a whole configuration file on a well-formed IR: FALSE, by a malformed `as:` (`C04_config_malformed_as`) -/
def C04_config_total_full : Prop :=
  ∀ (xs : List Xf) (S : Schemas), wfIR S = true → isPanic (applyAll xs S) = false

/-- OPEN (neither proved nor refuted here): with `as:` / field / object types free of nil kind pointers a
    configuration made of the YAML-reachable transformations no longer has a known panic since fix 637545e.
    The proved statement is `C04_config_total_partial` (the condition is re-checked on every intermediate IR). -/
def C04_config_total_wellformed_as : Prop :=
  ∀ (xs : List Xf) (S : Schemas), wfIR S = true →
    (∀ x ∈ xs, (∀ p, x = .retypeObject p → Cog.NF.noBadTy p.as_ = true) ∧ (∀ p, x = .retypeField p → Cog.NF.noBadTy p.as_ = true) ∧
      (∀ p, x ≠ .prefixObjectNames p)) →
    xformsCond xs S = true

theorem C04_config_total_partial (xs : List Xf) (S : Schemas) (hc : xformsCond xs S = true) :
    isPanic (applyAll xs S) = false := xforms_total xs S hc

/-- `[{retype_object: {object: p.A, as: {kind: scalar, scalar: {scalar_kind: string, value: 1}}}},
      {constant_to_enum: {objects: [p.A]}}]` -/
def retypeThenConstantToEnum : List Xf :=
  [.retypeObject { object := ⟨"p", "A"⟩, as_ := .scalar "string" (.int "i" 1) [] {}, comments := none },
   .constantToEnum { objects := [⟨"p", "A"⟩] }]

theorem C04_config_total_counterexample : ¬ C04_config_total_full := by
  intro h
  have := h [.retypeObject { object := ⟨"p", "A"⟩, as_ := .bad "struct" {}, comments := none },
             .fieldsSetRequired { fields := [] }] plain (by decide +kernel)
  exact absurd this (by decide +kernel)

/-- the former counterexample (`retype_object` installs a string scalar holding a number, then
    `constant_to_enum`): the pre-fix model panics, the current one does not, and the pre-fix one was total
    when string scalars hold strings -/
theorem C04_constant_to_enum_prefix_panicked :
    isPanic (ConstantToEnum.runPreFix { objects := [⟨"p", "K"⟩] } wStringConstInt) = true ∧
    isPanic (constantToEnumK.run wStringConstInt) = false ∧
    isPanic (applyAll retypeThenConstantToEnum plain) = false ∧
    (∀ p S, (NoBad S && ScalarConstantsTyped S) = true → isPanic (ConstantToEnum.runPreFix p S) = false) :=
  ⟨by decide +kernel, C04_constant_to_enum_total _ _ (by decide +kernel), by decide +kernel,
   fun p S h => constantToEnumPreFix_total p S h⟩

/-- `hint_object` on a type decoded from YAML (nil `Hints` map) panicked before fix d683cb9 of /repo;
    the pre-fix behaviour is kept in the model as `HintObject.runPreFix` -/
theorem C04_hint_object_prefix_panicked :
    (match HintObject.runPreFix { object := ⟨"p", "A"⟩, hints := [("kind", .str "x")] }
        (schemas [obj "A" (.scalar "string" .nil [] ({} : Meta).nilHints)]) with
      | .panic _ => true | _ => false) = true := by decide +kernel

/-- a malformed `as:` (`{kind: struct}` without the `struct` payload) poisons every later walk -/
theorem C04_config_malformed_as :
    isPanic (applyAll [.retypeObject { object := ⟨"p", "A"⟩, as_ := .bad "struct" {}, comments := none },
                       .fieldsSetRequired { fields := [] }] plain) = true := by decide +kernel

example : xformsCond [retypeSelf, .unspec] plain = true := by decide +kernel

/-! ## 4. builders -/

def C04_fromAST_total_full : Prop :=
  ∀ S : Schemas, wfIR S = true → ∃ bs, Cog.Builder.fromAST S = .ok bs

/-- FromAST neither panics nor diverges on `Safe` schema sets (C16's theorem, restated) -/
theorem C04_fromAST_total_partial (S : Schemas) (h : Cog.Builder.Safe S = true) :
    ∃ bs, Cog.Builder.fromAST S = .ok bs := Cog.Builder.fromAST_ok_of_safe S h

/-- refuted by an alias cycle: the model's `err "diverge"` is a Go stack overflow in `ResolveToType`
    (a DANGLING alias was a second counterexample until fix eed3e31 of /repo, see
    `C04_fromAST_dangling_panicked_before_fix`) -/
theorem C04_fromAST_total_counterexample : ¬ C04_fromAST_total_full := by
  intro h
  obtain ⟨bs, hbs⟩ := h aliasSelfWitness (by decide +kernel)
  have : (match Cog.Builder.fromAST aliasSelfWitness with | .ok _ => false | _ => true) = true := by decide +kernel
  simp [hbs] at this

theorem C04_fromAST_dangling_panicked_before_fix :
    isPanic (Cog.Builder.fromASTPreFix Cog.Builder.danglingWitness) = true ∧
    isPanic (Cog.Builder.fromAST Cog.Builder.danglingWitness) = false := by
  constructor <;> decide +kernel

/-- and an alias cycle makes it diverge (Go: stack overflow in `ResolveToType`) -/
theorem C04_fromAST_diverges_on_alias_cycle :
    wfIR aliasSelfWitness = true ∧
      (match Cog.Builder.fromAST aliasSelfWitness with | .err e => e == "diverge" | _ => false) = true := by
  constructor <;> decide +kernel

def C04_option_actions_total_full : Prop :=
  ∀ (t f : String) (o : Cog.Builder.Opt), isPanic (Cog.Builder.unfoldBooleanAction t f o) = false

/-- the option actions that index `Assignments` / `Args` / `Default.ArgsValues` -/
theorem C04_option_actions_total_partial (o : Cog.Builder.Opt) (h : optShapeOk o = true) :
    (∀ t f, isPanic (Cog.Builder.unfoldBooleanAction t f o) = false) ∧
    isPanic (Cog.Builder.arrayToAppendAction o) = false ∧
    isPanic (Cog.Builder.mapToIndexAction o) = false ∧
    (∀ names, isPanic (Cog.Builder.renameArgumentsAction names o) = false) ∧
    (∀ idx ss, disjunctionTargetOk idx o = true → isPanic (Cog.Builder.disjunctionAsOptionsAction idx ss o) = false) :=
  ⟨fun t f => unfoldBoolean_total t f o h, arrayToAppend_total o h, mapToIndex_total o h,
   fun names => renameArguments_total names o, fun idx ss hi => disjunctionAsOptions_total idx ss o hi⟩

/-- `disjunction_as_options` with an `argument_index` outside the option's arguments: a panic before fix
    423e7f3 of /repo (`option.Args[argumentIndex]`), the option unchanged since — for EVERY option -/
theorem C04_disjunction_as_options_index_fixed :
    (∀ (idx : Int) ss (o : Cog.Builder.Opt), (idx < 0 ∨ o.args.length ≤ idx.toNat) →
      isPanic (Cog.Builder.disjunctionAsOptionsAction idx ss o) = false) ∧
    isPanic (Cog.Builder.disjunctionAsOptionsActionPreFix 3 []
      { name := "a", args := [{ name := "v", ty := .scalar "string" .nil [] {} }] }) = true ∧
    (∀ idx ss o, disjunctionIndexOk idx o = true → isPanic (Cog.Builder.disjunctionAsOptionsActionPreFix idx ss o) = false) :=
  ⟨fun idx ss o h => disjunctionAsOptions_out_of_range idx ss o h, by decide +kernel,
   fun idx ss o h => disjunctionAsOptionsPreFix_total idx ss o h⟩

/-- `add_option: { option: { name: flag } }` then `unfold_boolean` on it -/
theorem C04_option_actions_total_counterexample : ¬ C04_option_actions_total_full := by
  intro h
  have := h "on" "off" { name := "flag" }
  exact absurd this (by decide +kernel)

/-! ## 5. front-ends, from the library's in-memory value down

The models have two versions: `generateASTPreFix` (before the /repo fixes 70c59a6, 4e6f2a6, ca4fdd6, fd9167a for
OpenAPI and f0d68ac for JSON Schema) and `generateAST` (current).  The former defects stay checked
statements about the pre-fix version; the current version is total on every value the libraries can
produce. -/

open Cog.Total.OpenApi in
def C04_parse_total_openapi_full : Prop :=
  ∀ (pkg : String) (cs : Option (List (String × ORef))), isPanic (OpenApi.generateAST pkg cs) = false

open Cog.Total.OpenApi in
/-- the current OpenAPI generator does not panic on values without nil `*SchemaRef` entries in lists /
    maps (`okComponents true`) — which is what kin-openapi's loader guarantees (it rejects `null` there:
    replayed as corpus/openapi-null-list-element) -/
theorem C04_parse_total_openapi_partial (pkg : String) (cs : Option (List (String × ORef)))
    (h : ∀ l, cs = some l → okComponents true l = true) : isPanic (OpenApi.generateAST pkg cs) = false :=
  generateASTv_noPanic true pkg cs h

open Cog.Total.OpenApi in
/-- the pre-fix generator, under the stronger pre-fix condition -/
theorem C04_parse_total_openapi_prefix_partial (pkg : String) (cs : Option (List (String × ORef)))
    (h : ∀ l, cs = some l → okComponents false l = true) : isPanic (OpenApi.generateASTPreFix pkg cs) = false :=
  generateASTv_noPanic false pkg cs h

namespace OApiW
open Cog.Total.OpenApi
def schema (a : OAttrs) : OSchema := .mk a [] [] [] [] .nilPtr .nilPtr
/-- `E: { enum: [a, b] }` -/
def enumWithoutType : List (String × ORef) := [("E", .resolved "" (schema { enum := some [.str "a", .str "b"] }))]
/-- `A: { type: array }` (validation off) -/
def arrayWithoutItems : List (String × ORef) := [("A", .resolved "" (schema { types := some ["array"] }))]
/-- `A: {$ref: B}`, `B: {$ref: A}`: the loader leaves `Value` nil -/
def unresolvedComponent : List (String × ORef) := [("A", .unresolved "#/components/schemas/B")]
/-- a nil `*SchemaRef` inside `allOf` (not producible by the loader) -/
def nilListElement : List (String × ORef) := [("A", .resolved "" (.mk { hasAllOf := true } [.nilPtr] [] [] [] .nilPtr .nilPtr))]
end OApiW

open Cog.Total.OpenApi in
/-- over ALL in-memory values the statement is still false: a nil list element is dereferenced -/
theorem C04_parse_total_openapi_counterexample : ¬ C04_parse_total_openapi_full := by
  intro h
  have := h "pkg" (some OApiW.nilListElement)
  exact absurd this (by decide +kernel)

open Cog.Total.OpenApi in
/-- the three former defects: the pre-fix generator panics at the recorded sites … -/
theorem C04_parse_openapi_prefix_witnesses :
    panicsAt (OpenApi.generateASTPreFix "pkg" (some OApiW.enumWithoutType)) "walkEnum: Type.Slice()[0]" = true ∧
    panicsAt (OpenApi.generateASTPreFix "pkg" (some OApiW.arrayWithoutItems)) "walkSchemaRef: nil SchemaRef" = true ∧
    panicsAt (OpenApi.generateASTPreFix "pkg" (some OApiW.unresolvedComponent)) "schemaComments: nil Schema" = true := by
  refine ⟨?_, ?_, ?_⟩ <;> decide +kernel

open Cog.Total.OpenApi in
/-- … the current one returns an error (enum, array) or goes on (the unresolved alias is kept as a reference) -/
theorem C04_parse_openapi_fixed :
    isPanic (OpenApi.generateAST "pkg" (some OApiW.enumWithoutType)) = false ∧
    isPanic (OpenApi.generateAST "pkg" (some OApiW.arrayWithoutItems)) = false ∧
    isPanic (OpenApi.generateAST "pkg" (some OApiW.unresolvedComponent)) = false := by
  refine ⟨?_, ?_, ?_⟩ <;> decide +kernel

namespace OApiW
open Cog.Total.OpenApi
/-- `E: { type: string, enum: [] }` -/
def emptyEnum : List (String × ORef) := [("E", .resolved "" (schema { enum := some [], types := some ["string"] }))]
/-- `U: { oneOf: [] }` -/
def emptyOneOf : List (String × ORef) := [("U", .resolved "" (schema { hasOneOf := true }))]
end OApiW

open Cog.Total.OpenApi in
/-- since fix fd9167a of /repo the OpenAPI generator never returns an empty enum or an empty union
    (the shapes on which EnumType.MemberForValue, the enum formatters and DisjunctionInferMapping used to
    panic), for every in-memory value -/
theorem C04_parse_openapi_no_empty_enum_or_union (pkg : String) (cs : Option (List (String × ORef))) (s : Schema)
    (h : OpenApi.generateAST pkg cs = .ok s) : allSchemas OpenApi.nonEmptyNode [s] = true :=
  generateAST_nonEmpty pkg cs s h

open Cog.Total.OpenApi in
/-- before it `enum: []` and `oneOf: []` went through (pre-fix model: an `ok` result holding the empty
    enum / union); now they are `err` returns -/
theorem C04_parse_openapi_empty_prefix_witnesses :
    (match OpenApi.generateASTPreFix "pkg" (some OApiW.emptyEnum) with
      | .ok s => !allSchemas OpenApi.nonEmptyNode [s] | _ => false) = true ∧
    (match OpenApi.generateASTPreFix "pkg" (some OApiW.emptyOneOf) with
      | .ok s => !allSchemas OpenApi.nonEmptyNode [s] | _ => false) = true ∧
    (match OpenApi.generateAST "pkg" (some OApiW.emptyEnum) with | .err _ => true | _ => false) = true ∧
    (match OpenApi.generateAST "pkg" (some OApiW.emptyOneOf) with | .err _ => true | _ => false) = true := by
  refine ⟨?_, ?_, ?_, ?_⟩ <;> decide +kernel

open Cog.Total.JsonSchema in
def C04_parse_total_jsonschema_full : Prop :=
  ∀ (pkg : String) (defs : List (String × JSchema)) (fuel : Nat) (root : JSchema),
    isPanic (JsonSchema.generateAST pkg defs fuel root) = false

open Cog.Total.JsonSchema in
/-- the current JSON Schema generator does not panic on values whose `AdditionalProperties` is
    nil | bool | *Schema and whose `Constant` is nil or non-empty (`okJ true`): the library's invariants -/
theorem C04_parse_total_jsonschema_partial (pkg : String) (defs : List (String × JSchema)) (fuel : Nat)
    (root : JSchema) (hd : okDefs true defs = true) (hr : okJ true root = true) :
    isPanic (JsonSchema.generateAST pkg defs fuel root) = false :=
  generateASTv_noPanic true pkg defs fuel root hd hr

namespace JW
open Cog.Total.JsonSchema
def leaf (t : String) : JSchema := .mk { types := [t] } [] [] [] [] .none .none .none
/-- draft-07 `{ "type": "array", "items": [ {"type":"string"}, {"type":"integer"} ] }` -/
def tupleItems : JSchema := .mk { types := ["array"] } [] [] [] [] .none (.tuple [leaf "string", leaf "integer"]) .none
/-- an `AdditionalProperties` that is neither nil, bool nor *Schema (not producible by the library) -/
def otherAddl : JSchema := .mk { types := ["object"] } [] [] [] [] .other .none .none
end JW

open Cog.Total.JsonSchema in
theorem C04_parse_total_jsonschema_counterexample : ¬ C04_parse_total_jsonschema_full := by
  intro h
  have := h "pkg" [] 10 JW.otherAddl
  exact absurd this (by decide +kernel)

open Cog.Total.JsonSchema in
/-- the former defect: tuple-form `items` made the pre-fix generator panic; it is an error now -/
theorem C04_parse_jsonschema_prefix_witness :
    panicsAt (JsonSchema.generateASTPreFix "pkg" [] 10 JW.tupleItems) "walkList: Items.(*Schema)" = true ∧
    isPanic (JsonSchema.generateAST "pkg" [] 10 JW.tupleItems) = false := by
  constructor <;> decide +kernel

/-- what the front-ends return is `wfIR` (so `wfIR` is exactly their guarantee, and the passes'
    theorems above apply to "IRs reachable from schemas") -/
theorem C04_parse_wf_openapi (pkg : String) (cs : Option (List (String × OpenApi.ORef))) (s : Schema)
    (h : OpenApi.generateAST pkg cs = .ok s) : wfIR [s] = true := OpenApi.generateASTv_wf true pkg cs s h

theorem C04_parse_wf_jsonschema (pkg : String) (defs : List (String × JsonSchema.JSchema)) (fuel : Nat)
    (root : JsonSchema.JSchema) (s : Schema) (h : JsonSchema.generateAST pkg defs fuel root = .ok s) :
    wfIR [s] = true := JsonSchema.generateASTv_wf true pkg defs fuel root s h

/-- non-vacuity: a value on which the OpenAPI generator succeeds -/
example : ∃ s, OpenApi.generateAST "pkg" (some [("S", .resolved "" (OApiW.schema { types := some ["string"] }))]) = .ok s :=
  ⟨_, rfl⟩

/-! ## 6. the regenerated table of partial operations -/

/-- every unchecked assertion / index / dereference / map write / recursion that the extractor finds in
    the input-facing packages of /repo is a reviewed entry (model site, guard, or recorded finding) -/
theorem C04_partial_ops_accounted :
    Cog.Gen.PartialOps.ok = true ∧
    ∀ op ∈ Cog.Gen.PartialOps.ops, ∃ e ∈ Reviewed.entries, entryRow e = opRow op :=
  partial_ops_accounted

end Cog.C04
