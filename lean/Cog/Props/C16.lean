/-
  C16 — builders are derived completely and type-correctly from the schemas.

  Property theorems only.  Model: Cog/Builder/FromAST.lean (literal transcription of
  `BuilderGenerator.FromAST`, internal/ast/builder.go, with its panics).  Specification vocabulary:
  Cog/Builder/Spec.lean.  Helper lemmas: Cog/Builder/FromASTLemmas.lean, Cog/Builder/Safe.lean.

  Where the code deviates from the property, the model follows the code:
    * `FromAST` is not total: an alias cycle makes `Schemas.ResolveToType` recurse forever (a Go stack
      overflow), a nil kind pointer or a constraint without argument panics; totality is
      `C16_total_partial` under the decidable hypothesis `Safe`, with `C16_total_counterexample`.
      (Until /repo eed3e31 a *dangling* alias chain panicked too — `IsAnyOf(KindStruct, KindRef)` then
      `AsStruct()`; now it yields no builder: `C16_dangling_no_builder`, and the former behaviour stays a
      checked statement about `fromASTPreFix`: `C16_dangling_panicked_before_fix`.)
    * a field that references a constant object but is optional or nullable gets an option although
      the schema fixes its value, so coverage against the property's reading (`specClass`) is
      `C16_cover_partial` under `noOptionalConstRef`, with `C16_cover_counterexample`; coverage
      against what the code does (`codeClass`) is unconditional (`C16_cover`).
-/
import Cog.Builder.FromASTLemmas
import Cog.Builder.Safe
import Cog.Builder.Witness
import Cog.Builder.SrcEquiv
namespace Cog.Builder
open Cog.IR

/-! ### which objects get a builder -/

/-- The builders are, in order, one per object that resolves to a struct — directly or through a
    chain of references — and no other: same `For`, the declaring schema's package, the object's
    name. (Pointwise relation between two lists of equal length: exactly once each, in order.) -/
theorem C16_which (ss : Schemas) (bs : Builders) (h : fromAST ss = .ok bs) :
    All2 (fun (b : Builder) (so : Schema × Obj) => b.for_ = so.2 ∧ b.pkg = so.1.pkg ∧ b.name = so.2.name)
      bs ((allObjects ss).filter fun so => resolvesToStruct ss so.2.ty) := by
  exact All2.imp (fun b so hh => ⟨hh.1, hh.2.1, hh.2.2.1⟩) (schemasBuilders_spec ss ss bs h)

/-- membership form: `b ∈ fromAST S ↔ ∃ object o of S with b.for = o ∧ o resolves to a struct` -/
theorem C16_which_mem (ss : Schemas) (bs : Builders) (h : fromAST ss = .ok bs) :
    (∀ b ∈ bs, ∃ so ∈ allObjects ss, b.for_ = so.2 ∧ b.pkg = so.1.pkg ∧ resolvesToStruct ss so.2.ty = true) ∧
    (∀ so ∈ allObjects ss, resolvesToStruct ss so.2.ty = true → ∃ b ∈ bs, b.for_ = so.2 ∧ b.pkg = so.1.pkg) := by
  have hw := C16_which ss bs h
  constructor
  · intro b hb
    obtain ⟨so, hso, hr⟩ := All2.exists_right hw b hb
    have := List.mem_filter.1 hso
    exact ⟨so, this.1, hr.1, hr.2.1, by simpa using this.2⟩
  · intro so hso hres
    have hmem : so ∈ (allObjects ss).filter fun so => resolvesToStruct ss so.2.ty :=
      List.mem_filter.2 ⟨hso, by simpa using hres⟩
    obtain ⟨b, hb, hr⟩ := All2.exists_left hw so hmem
    exact ⟨b, hb, hr.1, hr.2.1⟩

/-- exactly as many builders as struct-resolving objects -/
theorem C16_which_count (ss : Schemas) (bs : Builders) (h : fromAST ss = .ok bs) :
    bs.length = ((allObjects ss).filter fun so => resolvesToStruct ss so.2.ty).length :=
  All2.length_eq (C16_which ss bs h)

/-! ### coverage -/

theorem builderFor_of_mem (ss : Schemas) (bs : Builders) (h : fromAST ss = .ok bs) :
    ∀ b ∈ bs, ∃ so ∈ allObjects ss, BuilderFor ss so.1 so.2 b := by
  intro b hb
  obtain ⟨so, hso, hr⟩ := All2.exists_right (schemasBuilders_spec ss ss bs h) b hb
  exact ⟨so, (List.mem_filter.1 hso).1, hr⟩

/-- In every derived builder, every field of the resolved struct is covered exactly once and
    nothing else is there (`Covered`, against the code's own classification of the field). -/
theorem C16_cover (ss : Schemas) (bs : Builders) (h : fromAST ss = .ok bs) :
    ∀ b ∈ bs, ∃ fs, structFieldsOf ss b.for_.ty = some fs ∧ Covered (codeClass ss) fs b := by
  intro b hb
  obtain ⟨so, _, hfor, _, _, fs, hfs, hcov⟩ := builderFor_of_mem ss bs h b hb
  exact ⟨fs, by rw [hfor]; exact hfs, hcov⟩

/-- no option and no constructor constant that corresponds to no field -/
theorem C16_no_extra (ss : Schemas) (bs : Builders) (h : fromAST ss = .ok bs) :
    ∀ b ∈ bs, ∃ fs, structFieldsOf ss b.for_.ty = some fs ∧
      (∀ o ∈ b.options, ∃ f ∈ fs, (codeClass ss f).isOption = true ∧ IsOptionFor f o) ∧
      (∀ a ∈ b.constructor.assignments, ∃ f ∈ fs, ∃ v, (codeClass ss f).const? = some v ∧ IsConstantFor (f, v) a) ∧
      b.constructor.args = [] ∧ b.properties = [] ∧ b.factories = [] := by
  intro b hb
  obtain ⟨fs, hfs, hopt, hconst, h1, h2, h3⟩ := C16_cover ss bs h b hb
  refine ⟨fs, hfs, ?_, ?_, h1, h2, h3⟩
  · intro o ho
    obtain ⟨f, hf, hr⟩ := All2.exists_left hopt o ho
    have := List.mem_filter.1 hf
    exact ⟨f, this.1, by simpa using this.2, hr⟩
  · intro a ha
    obtain ⟨fv, hfv, hr⟩ := All2.exists_left hconst a ha
    obtain ⟨hm, hv⟩ := mem_constFields hfv
    exact ⟨fv.1, hm, fv.2, hv, hr⟩

/-- every field is covered: an option-class field by an option for it, a constant-class field by a
    constructor constant for it (own-constructor fields need nothing) -/
theorem C16_cover_each (ss : Schemas) (bs : Builders) (h : fromAST ss = .ok bs) :
    ∀ b ∈ bs, ∃ fs, structFieldsOf ss b.for_.ty = some fs ∧ ∀ f ∈ fs,
      ((codeClass ss f).isOption = true → ∃ o ∈ b.options, IsOptionFor f o) ∧
      (∀ v, (codeClass ss f).const? = some v → ∃ a ∈ b.constructor.assignments, IsConstantFor (f, v) a) := by
  intro b hb
  obtain ⟨fs, hfs, hopt, hconst, _⟩ := C16_cover ss bs h b hb
  refine ⟨fs, hfs, fun f hf => ⟨?_, ?_⟩⟩
  · intro hc
    exact All2.exists_right hopt f (List.mem_filter.2 ⟨hf, by simpa using hc⟩)
  · intro v hv
    exact All2.exists_right hconst (f, v) (constFields_mem hf hv)

/-- "exactly once", as a count: with pairwise distinct field names, the number of options named
    like the field plus the number of constructor constants targeting it is 1 for option- and
    constant-class fields and 0 for own-constructor fields. -/
theorem C16_exactly_once (ss : Schemas) (bs : Builders) (h : fromAST ss = .ok bs) :
    ∀ b ∈ bs, ∃ fs, structFieldsOf ss b.for_.ty = some fs ∧
      ((fs.map (·.name)).Nodup → ∀ f ∈ fs,
        (b.options.map (·.name)).count f.name + (b.constructor.assignments.map targetName).count f.name
          = (match codeClass ss f with | .ownCtor => 0 | _ => 1)) := by
  intro b hb
  obtain ⟨fs, hfs, hopt, hconst, _⟩ := C16_cover ss bs h b hb
  refine ⟨fs, hfs, fun hnd f hf => ?_⟩
  rw [optionNames_eq hopt, constNames_eq hconst]
  exact count_classes (codeClass ss) fs hnd f hf

/-! ### the property at full strength, and what is provable of it -/

/-- totality: derivation succeeds on every schema set -/
def C16_total_full : Prop := ∀ ss : Schemas, ∃ bs, fromAST ss = .ok bs

/-- coverage against the property's reading of "the schema fixes the field's value" -/
def C16_cover_full : Prop :=
  ∀ (ss : Schemas) (bs : Builders), fromAST ss = .ok bs →
    ∀ b ∈ bs, ∃ fs, structFieldsOf ss b.for_.ty = some fs ∧ Covered (specClass ss) fs b

theorem C16_total_counterexample : ¬ C16_total_full := by
  intro hfull
  obtain ⟨bs, hbs⟩ := hfull cycleWitness
  have : (match fromAST cycleWitness with | .err _ => true | _ => false) = true := by decide
  rw [hbs] at this
  exact absurd this (by simp)

/-- an object whose reference chain ends in an unresolvable reference gets no builder (and nothing
    else happens) — the behaviour since /repo eed3e31 -/
theorem C16_dangling_no_builder :
    (match fromAST danglingWitness with | .ok [] => true | _ => false) = true := by decide

/-- … where the derivation used to panic -/
theorem C16_dangling_panicked_before_fix :
    (match fromASTPreFix danglingWitness with | .panic _ => true | _ => false) = true := by decide

theorem C16_cover_counterexample : ¬ C16_cover_full := by
  intro hfull
  cases hf : fromAST optionalConstRefWitness with
  | err e => have : (match fromAST optionalConstRefWitness with | .ok _ => true | _ => false) = true := by decide
             rw [hf] at this; exact absurd this (by simp)
  | panic s => have : (match fromAST optionalConstRefWitness with | .ok _ => true | _ => false) = true := by decide
               rw [hf] at this; exact absurd this (by simp)
  | ok bs =>
    have hlen : (match fromAST optionalConstRefWitness with | .ok [b] => b.options.length | _ => 99) = 1 := by decide
    rw [hf] at hlen
    match bs, hlen with
    | [b], hlen =>
      obtain ⟨fs, hfs, hopt, _⟩ := hfull optionalConstRefWitness [b] hf b (by simp)
      have hfor : (match fromAST optionalConstRefWitness with
          | .ok [b] => (match structFieldsOf optionalConstRefWitness b.for_.ty with
            | some fs => (optionFields (specClass optionalConstRefWitness) fs).length
            | none => 99)
          | _ => 99) = 0 := by decide
      rw [hf] at hfor
      simp only [hfs] at hfor
      have := All2.length_eq hopt
      simp only at hlen
      omega

/-- the two readings agree where no optional or nullable field references a constant -/
theorem C16_cover_partial (ss : Schemas) (bs : Builders) (h : fromAST ss = .ok bs) :
    ∀ b ∈ bs, ∃ fs, structFieldsOf ss b.for_.ty = some fs ∧
      (noOptionalConstRef ss fs = true → Covered (specClass ss) fs b) := by
  intro b hb
  obtain ⟨fs, hfs, hcov⟩ := C16_cover ss bs h b hb
  refine ⟨fs, hfs, fun hno => ?_⟩
  have hagree : ∀ f ∈ fs, codeClass ss f = specClass ss f := by
    intro f hf
    have := (List.all_eq_true.1 hno) f hf
    exact codeClass_eq_specClass ss f (by simpa using this)
  unfold Covered at hcov ⊢
  rw [← optionFields_congr hagree, ← constFields_congr hagree]
  exact hcov

example : ∃ ss fs, noOptionalConstRef ss fs = true ∧ fs ≠ [] :=
  ⟨[], [{ name := "a", ty := .scalar "string" .nil [] {}, required := true }], by decide, by simp⟩

/-- derivation succeeds on every `Safe` schema set (decidable: no nil kind pointers where the code
    dereferences them, every alias chain ends in a non-reference, constraints carry an argument) -/
theorem C16_total_partial (ss : Schemas) (hs : Safe ss = true) : ∃ bs, fromAST ss = .ok bs :=
  fromAST_ok_of_safe ss hs

example : Safe optionalConstRefWitness = true := by decide
example : Safe danglingWitness = true := by decide
example : Safe cycleWitness = false := by decide

/-! ### the source tie: the translated bodies of builder.go compute the model

  `Cog.Gen.FromASTSrc` is regenerated from /repo/internal/ast/builder.go by /verif/extract/xfromast on
  every run; `Cog.Builder.Src` is the semantics of its mini-language (trusted base stated there). -/

open Cog.Builder.Src Cog.Gen.FromASTSrc in
/-- `fieldIsRefToConcrete` and `structFieldToOption`: the translated bodies compute the model's
    functions, for every schema set, fuel and field (panics / divergence included). -/
theorem C16_src_helpers (fuel : Nat) (ss : Schemas) (f : Field) :
    call fuel fieldIsRefToConcreteBody fieldIsRefToConcreteParams [.schemas ss, .fld f] =
      liftB (fieldIsRefToConcrete ss fuel f) ∧
    call fuel structFieldToOptionBody structFieldToOptionParams [.fld f] = optOut (structFieldToOption f) :=
  ⟨src_fieldIsRefToConcrete fuel ss f, src_structFieldToOption fuel f⟩

open Cog.Builder.Src Cog.Gen.FromASTSrc in
/-- `structObjectToBuilder`: the translated body (field loop with its three tests, `continue`s and
    appends) computes the model's `structObjectToBuilder` for every schema set, schema and object. -/
theorem C16_src_structObjectToBuilder (fuel : Nat) (ss : Schemas) (s : Schema) (o : Obj) :
    call fuel structObjectToBuilderBody structObjectToBuilderParams [.schemas ss, .schema s, .obj o] =
      builderOut (structObjectToBuilder ss fuel s o) :=
  src_structObjectToBuilder fuel ss s o

open Cog.Builder.Src Cog.Gen.FromASTSrc in
/-- `FromAST`: the translated body (range over the schemas, `Iterate` callback with its early
    `return`) computes the model's `fromAST` for every schema set. -/
theorem C16_src_fromAST (ss : Schemas) :
    call (fuelFor ss) fromASTBody fromASTParams [.schemas ss] = buildersOut (fromAST ss) :=
  src_fromAST ss

open Cog.Builder.Src Cog.Gen.FromASTSrc in
/-- Summary: the C16 theorems about `fromAST` are theorems about the current source text of
    builder.go — whenever the translated `FromAST` returns builders `bs`, they are in order exactly one
    per struct-resolving object, and in each of them every field is covered exactly once, nothing extra
    (here instantiated with `C16_which` and `C16_cover`). -/
theorem C16_source_refines_model (ss : Schemas) (bs : Builders)
    (h : call (fuelFor ss) fromASTBody fromASTParams [.schemas ss] = .ok (.builders bs)) :
    fromAST ss = .ok bs ∧
    All2 (fun (b : Builder) (so : Schema × Obj) => b.for_ = so.2 ∧ b.pkg = so.1.pkg ∧ b.name = so.2.name)
      bs ((allObjects ss).filter fun so => resolvesToStruct ss so.2.ty) ∧
    ∀ b ∈ bs, ∃ fs, structFieldsOf ss b.for_.ty = some fs ∧ Covered (codeClass ss) fs b := by
  have h2 := C16_src_fromAST ss
  rw [h] at h2
  have hm : fromAST ss = .ok bs := by
    cases hf : fromAST ss <;> simp [hf, Src.buildersOut] at h2
    subst h2; rfl
  exact ⟨hm, C16_which ss bs hm, C16_cover ss bs hm⟩

namespace SrcWitness
open Cog.Builder.Src Cog.Gen.FromASTSrc

/-- non-vacuity: on the `optionalConstRefWitness` schemas (a constant object and a struct with one
    optional reference to it) the translated `FromAST` returns one builder with one option … -/
def run (ss : Schemas) : Nat × Nat × Nat :=
  match call (fuelFor ss) fromASTBody fromASTParams [.schemas ss] with
  | .ok (.builders bs) => (bs.length, (bs.map (·.options.length)).sum, (bs.map (·.constructor.assignments.length)).sum)
  | _ => (0, 0, 0)

def concreteField : Field := { name := "c", ty := .scalar "string" (.str "x") [] {}, required := true }
def plainField : Field := { name := "a", ty := .scalar "string" .nil [] { dflt := .str "d" }, required := true }
def twoFields : Schemas :=
  [{ pkg := "p", objects := [("S", { name := "S", ty := .struct [concreteField, plainField] [] none {},
                                      selfPkg := "p", selfName := "S" })] }]
end SrcWitness

open Cog.Builder.Src Cog.Gen.FromASTSrc SrcWitness in
/-- non-vacuity of `C16_source_refines_model` (the hypothesis is satisfiable: the translated program
    returns builders) and of the `C16_src_*` equations (both sides are `.ok`, not stuck): one builder,
    one option, one constructor constant; an alias cycle diverges in the translated program too. -/
example : run optionalConstRefWitness = (1, 1, 0) ∧ run twoFields = (1, 1, 1) ∧
    (match call (fuelFor cycleWitness) fromASTBody fromASTParams [.schemas cycleWitness] with
      | .err e => e == "diverge" | _ => false) = true ∧
    (∃ o, call 1 structFieldToOptionBody structFieldToOptionParams [.fld plainField] = .ok (.opt o) ∧
      o.dflt = some [.str "d"]) := by
  refine ⟨by decide +kernel, by decide +kernel, by decide +kernel, ?_⟩
  · rw [(C16_src_helpers 1 [] plainField).2]; exact ⟨_, rfl, rfl⟩

end Cog.Builder
