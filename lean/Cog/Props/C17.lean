/-
  C17 — builder transformations keep builders well-typed and do only what they document.

  Property theorems only.  Model: Cog/Builder/Veneers.lean (literal transcription of the veneer rules,
  option actions, selectors, YAML glue and rewriter, with pointer identities for the `*Argument`s and
  `Args` arrays that Go shares).  `WT`: Cog/Builder/WT.lean.  Lemmas: Cog/Builder/VeneerLemmas.lean,
  Cog/Builder/WTLemmas.lean.

  Where the code deviates from the property the model follows the code, the full statement stays
  visible (`…_full`), the proved theorem is `…_partial` under explicit decidable hypotheses, and the
  counterexample is a kernel-checked evaluation of a concrete witness (Cog/Builder/Witness.lean) that the
  check also replays on the real code:
    * (`Option.DeepCopy` dropped `Default` until /repo 71b1811: duplicate is now identical —
      `C17_option_duplicate_identical`, `C17_builder_duplicate_identical`; the former behaviour stays a
      checked statement about `deepCopyPreFix`.)
    * `applyOptionRules` dismisses option-less builders ⇒ the frame fails even with no rule at all;
    * `RenameArguments` forgets constraint / index arguments ⇒ well-typedness is not preserved;
    * `ArrayToAppend`/`MapToIndex`/`RenameArguments` store through shared pointers ⇒ an option rule
      changes constructors and options it did not select (after `promote…`, `merge_into`, `compose`);
    * `UnfoldBoolean` drops the index argument a path still uses.
-/
import Cog.Builder.VeneerLemmas
import Cog.Builder.WTLemmas
import Cog.Builder.FrameLemmas
import Cog.Builder.DerivedWT
import Cog.Builder.WTLocal
import Cog.Builder.Witness
namespace Cog.Builder
open Cog.IR

/-! ## builder rules: contracts and frame -/

/-- `omit` removes: on success the result is exactly the builders the selector rejected, in order. -/
theorem C17_builder_omit_removes (pkg : String) (ss : Schemas) (sel : BSel) (bs bs' : Builders)
    (h : applyBRule pkg ss bs (.omit sel) = .ok bs') :
    bs' = bs.filter (fun b => match sel.matches pkg ss b with | .ok false => true | _ => false) := by
  obtain ⟨h1, _⟩ := filterO_spec _ bs bs' h
  rw [h1]
  apply List.filter_congr
  intro b _
  cases hm : sel.matches pkg ss b with
  | ok v => cases v <;> simp [notO]
  | err e => simp [notO]
  | panic s => simp [notO]

/-- `rename` only renames; frame: same builders in the same order, the selected ones differ in
    `name` only, the others not at all. -/
theorem C17_builder_rename_only_renames (pkg : String) (ss : Schemas) (sel : BSel) (as_ : String) (bs bs' : Builders)
    (h : applyBRule pkg ss bs (.rename sel as_) = .ok bs') :
    All2 (fun b b' => (sel.matches pkg ss b = .ok true ∧ b' = { b with name := as_ }) ∨
                      (sel.matches pkg ss b = .ok false ∧ b' = b)) bs bs' := by
  refine All2.imp ?_ (mapSelected_spec _ _ bs bs' h)
  intro b b' hr
  rcases hr with ⟨h1, h2⟩ | h2
  · exact .inl ⟨h1, by simpa using h2.symm⟩
  · exact .inr h2

/-- frame of the in-place builder rules (`rename`, `properties`, `initialize`,
    `promote_options_to_constructor`, `add_option`, `add_factory`): same number of builders, same order,
    every builder the selector rejected is unchanged. -/
theorem C17_builder_frame_inplace (pkg : String) (ss : Schemas) (bs bs' : Builders) (r : BRule)
    (hr : r.inPlaceSel.isSome = true) (h : applyBRule pkg ss bs r = .ok bs') :
    ∃ sel, r.inPlaceSel = some sel ∧ All2 (fun b b' => sel.matches pkg ss b = .ok false → b' = b) bs bs' := by
  cases r with
  | rename sel as_ => exact ⟨sel, rfl, All2.imp (fun _ _ => StepRel.frame) (mapSelected_spec _ _ bs bs' h)⟩
  | properties sel set => exact ⟨sel, rfl, All2.imp (fun _ _ => StepRel.frame) (mapSelected_spec _ _ bs bs' h)⟩
  | «initialize» sel set => exact ⟨sel, rfl, All2.imp (fun _ _ => StepRel.frame) (mapSelected_spec _ _ bs bs' h)⟩
  | promote sel names => exact ⟨sel, rfl, All2.imp (fun _ _ => StepRel.frame) (mapSelected_spec _ _ bs bs' h)⟩
  | addOption sel vo => exact ⟨sel, rfl, All2.imp (fun _ _ => StepRel.frame) (mapSelected_spec _ _ bs bs' h)⟩
  | addFactory sel f => exact ⟨sel, rfl, All2.imp (fun _ _ => StepRel.frame) (mapSelected_spec _ _ bs bs' h)⟩
  | «omit» => simp [BRule.inPlaceSel] at hr
  | mergeInto => simp [BRule.inPlaceSel] at hr
  | compose => simp [BRule.inPlaceSel] at hr
  | duplicate => simp [BRule.inPlaceSel] at hr
  | empty => simp [BRule.inPlaceSel] at hr

/-- `duplicate` (builder): every existing builder is kept as it is, in order; the copies follow, one
    per selected builder, in order, each the `DeepCopy` of its original under the new name
    (minus the excluded options). -/
theorem C17_builder_duplicate_shape (pkg : String) (ss : Schemas) (sel : BSel) (as_ : String) (ex : List String)
    (bs bs' : Builders) (h : applyBRule pkg ss bs (.duplicate sel as_ ex) = .ok bs') :
    ∃ selected, selected = bs.filter (fun b => match sel.matches pkg ss b with | .ok true => true | _ => false) ∧
      bs' = bs ++ selected.map fun b =>
        let d := { b.deepCopy with name := as_ }
        if ex.isEmpty then d else { d with options := d.options.filter fun o => !Str.inListFold o.name ex } := by
  simp only [applyBRule] at h
  cases hf : filterO (sel.matches pkg ss) bs with
  | err e => simp [hf] at h
  | panic s => simp [hf] at h
  | ok selected =>
    simp only [hf] at h
    injection h with h
    exact ⟨selected, (filterO_spec _ bs selected hf).1, h.symm⟩

/-- **`duplicate` yields an identical copy under the new name** (defaults and factories included;
    pointer identities aside): holds since /repo ea8a40d (factories, `For`) and 71b1811 (option defaults) -/
theorem C17_builder_duplicate_identical (pkg : String) (ss : Schemas) (sel : BSel) (as_ : String)
    (bs bs' : Builders) (h : applyBRule pkg ss bs (.duplicate sel as_ []) = .ok bs') :
    ∀ b ∈ bs, sel.matches pkg ss b = .ok true →
      ∃ c ∈ bs', c.content = { b.content with name := as_ } := by
  intro b hb hsel
  obtain ⟨selected, hs, hbs'⟩ := C17_builder_duplicate_shape pkg ss sel as_ [] bs bs' h
  have hmem : b ∈ selected := by
    rw [hs]; exact List.mem_filter.2 ⟨hb, by simp [hsel]⟩
  refine ⟨{ b.deepCopy with name := as_ }, ?_, ?_⟩
  · rw [hbs']
    apply List.mem_append_right
    exact List.mem_map.2 ⟨b, hmem, by simp⟩
  · have := Builder.deepCopy_content b
    simp only [Builder.content, Builder.deepCopy] at this ⊢
    simpa using this

/-- before /repo 71b1811 the copy's options had lost their defaults: on the witness `wDupBuilder`
    (`p.S` has option `a` with default `true`) the pre-fix copy differs from the original in exactly that -/
theorem C17_builder_duplicate_dropped_defaults_before_fix :
    ((getOk (fromAST wDupBuilder.ss)).all fun b =>
      (b.deepCopyPreFix.options.map fun o => o.dflt.isSome) != (b.options.map fun o => o.dflt.isSome) &&
      (b.deepCopy.options.map fun o => o.dflt.isSome) == (b.options.map fun o => o.dflt.isSome)) = true ∧
    (getOk (fromAST wDupBuilder.ss)).length = 1 := by decide

/-- frame of `merge_into`: same number of builders, same order; a builder the destination selector
    rejects is unchanged (in particular the *source* builder stays — it is merged, not moved) -/
theorem C17_builder_merge_into_frame (pkg : String) (ss : Schemas) (dest src under : String) (ex : List String)
    (ren : List (String × String)) (bs bs' : Builders)
    (h : applyBRule pkg ss bs (.mergeInto dest src under ex ren) = .ok bs') :
    All2 (fun b b' => (BSel.byName dest).matches pkg ss b = .ok false → b' = b) bs bs' := by
  obtain ⟨r', h1, h2⟩ := mapToSelectedLoop_frame _ _ bs [] bs' h
  simp at h1; subst h1; exact h2

/-- frame of `compose`: either nothing changes at all (no source builder), or the result is the
    builders the selector rejected, unchanged and in order, followed by the composed ones -/
theorem C17_builder_compose_frame (pkg : String) (ss : Schemas) (sel : BSel) (cfg : ComposeCfg) (bs bs' : Builders)
    (h : applyBRule pkg ss bs (.compose sel cfg) = .ok bs') :
    bs' = bs ∨ ∃ composed,
      bs' = bs.filter (fun b => match sel.matches pkg ss b with | .ok false => true | _ => false) ++ composed := by
  simp only [applyBRule, composeBuilders] at h
  cases hc : Str.cutDot cfg.sourceBuilderName with
  | none => simp [hc] at h
  | some sp =>
    obtain ⟨p, n⟩ := sp
    simp only [hc] at h
    cases hl : locateByObject bs p n with
    | none => simp [hl] at h; exact .inl h.symm
    | some source =>
      simp only [hl] at h
      cases hp : composePartition pkg sel ss bs with
      | err e => simp [hp] at h
      | panic s => simp [hp] at h
      | ok kg =>
        obtain ⟨keep, tagged⟩ := kg
        simp only [hp] at h
        split at h
        · rename_i composed _
          simp at h
          refine .inr ⟨composed, ?_⟩
          rw [← h, composePartition_keep pkg sel ss bs keep tagged hp]
          rfl
        · simp at h
        · simp at h

/-! ## option actions: contracts -/

/-- `omit` removes the option (and stores nothing) -/
theorem C17_option_omit_removes (ss : Schemas) (b : Builder) (o : Opt) (sel : OSel) :
    applyAction ss b o (.omit sel) = .ok { opts := [], writes := [] } := rfl

/-- `rename` only renames -/
theorem C17_option_rename_only_renames (ss : Schemas) (b : Builder) (o : Opt) (sel : OSel) (as_ : String) :
    applyAction ss b o (.rename sel as_) = .ok { opts := [{ o with name := as_ }], writes := [] } := rfl

/-- `add_comments` only appends comments -/
theorem C17_option_add_comments_only_comments (ss : Schemas) (b : Builder) (o : Opt) (sel : OSel) (cs : List String) :
    applyAction ss b o (.addComments sel cs) = .ok { opts := [{ o with comments := o.comments ++ cs }], writes := [] } := rfl

/-- `duplicate` keeps the option and adds its `DeepCopy` under the new name -/
theorem C17_option_duplicate_shape (ss : Schemas) (b : Builder) (o : Opt) (sel : OSel) (as_ : String) :
    applyAction ss b o (.duplicate sel as_) = .ok { opts := [o, { o.deepCopy with name := as_ }], writes := [] } := rfl

/-- **`duplicate` yields an identical copy under the new name** (default included; pointer
    identities aside): holds since /repo 71b1811 -/
theorem C17_option_duplicate_identical (ss : Schemas) (b : Builder) (o : Opt) (sel : OSel) (as_ : String)
    (out : ActOut) (h : applyAction ss b o (.duplicate sel as_) = .ok out) :
    ∃ c, out.opts = [o, c] ∧ c.content = { o.content with name := as_ } := by
  rw [C17_option_duplicate_shape] at h
  injection h with h
  subst h
  refine ⟨_, rfl, ?_⟩
  have := Opt.deepCopy_content o
  simp only [Opt.content, Opt.mapCells, Opt.deepCopy] at this ⊢
  simpa using this

/-- before /repo 71b1811 the copy had no default, whatever the original's -/
theorem C17_option_duplicate_dropped_default_before_fix (o : Opt) :
    (Opt.deepCopyPreFix o).content = { o.content with dflt := none } ∧
    ((Opt.deepCopyPreFix { name := "a", dflt := some [.bool true] }).dflt.isSome = false) :=
  ⟨Opt.deepCopyPreFix_content o, rfl⟩

/-- `array_to_append`: one option comes back, under the same name, and its assignments still target
    exactly the paths the original's assignments targeted -/
theorem C17_array_to_append_same_target (o : Opt) (out : ActOut) (h : arrayToAppendAction o = .ok out) :
    ∃ o', out.opts = [o'] ∧ o'.name = o.name ∧ o'.assignments.map (·.path) = o.assignments.map (·.path) := by
  unfold arrayToAppendAction at h
  split at h
  · rename_i a hargs
    split at h
    · simp [unchanged] at h; subst h; exact ⟨o, rfl, rfl, rfl⟩
    · split at h
      · split at h
        · simp at h
        · rename_i a0 rest hasg
          simp at h; subst h
          exact ⟨_, rfl, rfl, by simp [hasg]⟩
      · simp at h
  · simp [unchanged] at h; subst h; exact ⟨o, rfl, rfl, rfl⟩

/-- `map_to_index`: one option comes back, under the same name; either unchanged, or its first
    assignment targets the original first target *indexed by the new key argument* and the others
    are where they were -/
theorem C17_map_to_index_same_target (o : Opt) (out : ActOut) (h : mapToIndexAction o = .ok out) :
    ∃ o', out.opts = [o'] ∧ o'.name = o.name ∧
      (o'.assignments.map (·.path) = o.assignments.map (·.path) ∨
       ∃ a0 rest item, o.assignments = a0 :: rest ∧ item.index.isSome = true ∧
         o'.assignments.map (·.path) = (a0.path ++ [item]) :: rest.map (·.path)) := by
  unfold mapToIndexAction at h
  split at h
  · split at h
    · simp [unchanged] at h; subst h; exact ⟨o, rfl, rfl, .inl rfl⟩
    · split at h
      · split at h
        · simp at h
        · rename_i a0 rest hasg
          simp at h; subst h
          refine ⟨_, rfl, rfl, .inr ⟨a0, rest, _, hasg, ?_, by simp; rfl⟩⟩
          rfl
      · simp at h
  · simp [unchanged] at h; subst h; exact ⟨o, rfl, rfl, .inl rfl⟩

/-- `unfold_boolean`: either the option comes back unchanged, or two argument-less options come back
    that each assign a constant (`true`, `false`) to exactly the original first target -/
theorem C17_unfold_boolean_same_target (t f : String) (o : Opt) (out : ActOut) (h : unfoldBooleanAction t f o = .ok out) :
    out.opts = [o] ∨
    ∃ a0 rest ot of_, o.assignments = a0 :: rest ∧ out.opts = [ot, of_] ∧
      ot.name = t ∧ of_.name = f ∧ ot.args = [] ∧ of_.args = [] ∧
      ot.assignments = [constantAssignment a0.path (.bool true)] ∧
      of_.assignments = [constantAssignment a0.path (.bool false)] := by
  unfold unfoldBooleanAction at h
  split at h
  · simp at h
  · rename_i a0 rest hasg
    split at h
    · simp at h
    · split at h
      · simp [unchanged] at h; subst h; exact .inl rfl
      · split at h
        · split at h
          · simp [unchanged] at h; subst h; exact .inl rfl
          · split at h
            · simp at h; subst h
              exact .inr ⟨a0, rest, _, _, hasg, rfl, rfl, rfl, rfl, rfl, rfl, rfl⟩
            · simp at h
            · split at h
              · simp at h; subst h
                exact .inr ⟨a0, rest, _, _, hasg, rfl, rfl, rfl, rfl, rfl, rfl, rfl⟩
              · simp at h; subst h
                exact .inr ⟨a0, rest, _, _, hasg, rfl, rfl, rfl, rfl, rfl, rfl, rfl⟩
        · simp at h


/-- `struct_fields_as_options`: either the option comes back unchanged, or every option produced has
    exactly one assignment, and it targets a field *below the original first target* -/
theorem C17_struct_fields_as_options_same_targets (fields : Option (List String)) (ss : Schemas) (o : Opt)
    (out : ActOut) (h : structFieldsAsOptionsAction fields ss o = .ok out) :
    out.opts = [o] ∨
    ∃ a0 rest, o.assignments = a0 :: rest ∧
      ∀ o' ∈ out.opts, ∃ a f, o'.name = f.name ∧ o'.assignments = [a] ∧ a.path = a0.path ++ pathFromStructField f := by
  unfold structFieldsAsOptionsAction at h
  split at h
  · simp [unchanged] at h; subst h; exact .inl rfl
  · split at h
    · split at h
      · simp [unchanged] at h; subst h; exact .inl rfl
      · split at h
        · split at h
          · simp at h
          · rename_i a0 rest hasg
            split at h
            · rename_i os hos
              simp at h; subst h
              refine .inr ⟨a0, rest, hasg, fun o' ho' => ?_⟩
              obtain ⟨a, f, _, h1, h2, h3⟩ := sfOptsLoop_spec fields a0.path _ os hos o' ho'
              exact ⟨a, f, h1, h2, h3⟩
            · simp at h
            · simp at h
        · simp at h
        · simp at h
    · simp at h
    · simp at h

/-- `struct_fields_as_arguments`: either the option comes back unchanged, or one option comes back
    under the same name, and each of its assignments either targets the original first target or a
    field below it, or is one of the original's other assignments -/
theorem C17_struct_fields_as_arguments_same_targets (fields : Option (List String)) (ss : Schemas) (o : Opt)
    (out : ActOut) (h : structFieldsAsArgumentsAction fields ss o = .ok out) :
    out.opts = [o] ∨
    ∃ a0 rest o', o.assignments = a0 :: rest ∧ out.opts = [o'] ∧ o'.name = o.name ∧
      ∀ a ∈ o'.assignments, Path.hasPrefix a0.path a.path ∨ a ∈ rest := by
  unfold structFieldsAsArgumentsAction at h
  cases hargs : o.args with
  | nil => simp [hargs, unchanged] at h; subst h; exact .inl rfl
  | cons arg0 oldArgsRest =>
    simp only [hargs] at h
    cases hfa : firstArgStruct ss arg0.ty with
    | err e => simp [hfa] at h
    | panic s => simp [hfa] at h
    | ok t =>
      simp only [hfa] at h
      by_cases hk : (!kindIs t "struct") = true
      · simp [hk, unchanged] at h; subst h; exact .inl rfl
      · simp only [hk] at h
        cases hasg : o.assignments with
        | nil => simp [hasg] at h
        | cons a0 rest =>
          simp only [hasg] at h
          cases hfs : asStructFields t with
          | err e => simp [hfs] at h
          | panic s => simp [hfs] at h
          | ok fs =>
            simp only [hfs] at h
            obtain ⟨o', h1, h2, h3⟩ := sfArgsBuild_targets fields o oldArgsRest a0 rest fs out h
            exact .inr ⟨a0, rest, o', rfl, h1, h2, h3⟩

/-- `disjunction_as_options`: every option produced assigns exactly the targets the original assigned
    (or the option comes back unchanged) -/
theorem C17_disjunction_as_options_same_target (idx : Int) (ss : Schemas) (o : Opt) (out : ActOut)
    (h : disjunctionAsOptionsAction idx ss o = .ok out) :
    ∀ o' ∈ out.opts, o'.assignments.map (·.path) = o.assignments.map (·.path) := by
  unfold disjunctionAsOptionsAction at h
  by_cases he : o.args.isEmpty = true
  · simp [he, unchanged] at h; subst h; simp
  · simp only [he] at h
    by_cases hneg : idx < 0
    · simp [hneg, unchanged] at h; subst h; simp
    · simp only [hneg] at h
      cases ht : o.args[idx.toNat]? with
      | none => simp [ht, unchanged] at h; subst h; simp
      | some target =>
        simp only [ht] at h
        exact disjunctionOnTarget_paths ss o idx.toNat target out (by simpa using h)

/-- `disjunction_as_options` with an `argument_index` outside the option's arguments leaves the option
    alone (since /repo 423e7f3); before, `option.Args[argumentIndex]` panicked — kept as a checked
    statement about `disjunctionAsOptionsActionPreFix` -/
theorem C17_disjunction_index_out_of_range_unchanged (idx : Int) (ss : Schemas) (o : Opt)
    (h : idx < 0 ∨ o.args.length ≤ idx.toNat) :
    disjunctionAsOptionsAction idx ss o = .ok { opts := [o], writes := [] } := by
  unfold disjunctionAsOptionsAction
  by_cases he : o.args.isEmpty = true
  · simp [he, unchanged]
  · by_cases hneg : idx < 0
    · simp [he, hneg, unchanged]
    · rcases h with h | h
      · exact absurd h hneg
      · have : o.args[idx.toNat]? = none := List.getElem?_eq_none_iff.2 h
        simp [he, hneg, this, unchanged]

theorem C17_disjunction_index_out_of_range_panicked_before_fix :
    (match disjunctionAsOptionsActionPreFix 2 [] { name := "a", args := [{ name := "x", ty := .scalar "string" .nil [] {} }] } with
      | .panic _ => true | _ => false) = true ∧
    (match disjunctionAsOptionsActionPreFix (-1) [] { name := "a", args := [{ name := "x", ty := .scalar "string" .nil [] {} }] } with
      | .panic _ => true | _ => false) = true := by decide

/-! ## the derived builders are well-typed -/

/-- the structs that get a builder have pairwise distinct field names (decidable) -/
def distinctFieldNames (ss : Schemas) : Bool :=
  (allObjects ss).all fun so =>
    match structFieldsOf ss so.2.ty with
    | some fs => decide (fs.map (·.name)).Nodup
    | none => true

/-- **Base case.** Every builder set derived by `FromAST` is well-typed (field names being distinct,
    a path item names *the* field of that name). -/
theorem C17_derived_WT (ss : Schemas) (bs : Builders) (h : fromAST ss = .ok bs)
    (hd : distinctFieldNames ss = true) : WTs ss bs = true := by
  simp only [WTs, List.all_eq_true]
  intro b hb
  obtain ⟨so, hsel, hfor, _, _, fs, hfs, hcov⟩ := All2.exists_right (schemasBuilders_spec ss ss bs h) b hb
  have hso : so ∈ allObjects ss := (List.mem_filter.1 hsel).1
  have hnd : (fs.map (·.name)).Nodup := by
    have := List.all_eq_true.1 hd so hso
    simp only [hfs] at this
    exact of_decide_eq_true this
  exact covered_WT ss b fs (by rw [hfor]; exact hfs) hnd hcov

example : distinctFieldNames wDupBuilder.ss = true := by decide

/-! ## well-typedness is preserved -/

/-- every simple builder rule (`omit`, `rename`, `properties`, `add_factory`, `duplicate`) preserves
    the well-typedness of the builder set, for every selector and parameterisation -/
theorem C17_builder_rule_preserves (pkg : String) (ss : Schemas) (bs bs' : Builders) (r : BRule)
    (hs : r.simple = true) (h : applyBRule pkg ss bs r = .ok bs') (hw : WTs ss bs = true) : WTs ss bs' = true :=
  simple_brule_preserves pkg ss bs bs' r hs h hw

/-- every simple option rule (`omit`, `rename`, `add_comments`, `duplicate`), applied the way the
    rewriter applies it — to every option of every builder, behind its selector — preserves it -/
theorem C17_option_rule_preserves (ss : Schemas) (sel : OSelC) (r : ORule) (hs : r.simple = true)
    (st st' : St) (h : applyORule ss sel r st = .ok st') (hw : WTs ss st.builders = true) :
    WTs ss st'.builders = true :=
  applyORule_preserves ss sel r (fun b o out ho ha => simple_action_spec ss b b.for_.ty o r out hs ho ha) st st' h hw

/-- The options `FromAST` derives for fields without constraints are `FreshOpt`s (non-vacuity of
    the three theorems below; `IsOptionFor` is what C16_cover establishes for every derived option). -/
theorem C17_derived_option_fresh (f : Field) (o : Opt) (h : IsOptionFor f o) (hc : scalarConstraints f.ty = []) :
    ∃ a asg c last, FreshOpt o a asg c last := by
  obtain ⟨_, _, ⟨a, ha, _, hat⟩, _, asg, hasg, ⟨i, hp, _, hit, hidx, hhint, _⟩, ⟨c, hv, _, _⟩, _, hcons, _⟩ := h
  refine ⟨a, asg, c, i, ha, hasg, hv, by simp [noIndex, hp, hidx], ?_, by simp [hp], by simpa using hhint, by rw [hit, hat]⟩
  unfold ConstraintsOf at hcons
  rw [hc] at hcons
  cases hcs : asg.constraints with
  | nil => rfl
  | cons x xs => rw [hcs] at hcons; simp [All2] at hcons

/-- `array_to_append`, `map_to_index`, `unfold_boolean` applied to a fresh well-typed option — the
    normal use — return well-typed options. (The failures recorded above all need an earlier rule
    that shared the argument pointer, added an index item, or turned the target into an append.) -/
theorem C17_array_to_append_preserves_fresh (ss : Schemas) (root : Ty) (o : Opt) (a : Argument) (asg : Assignment)
    (c : ArgCell) (last : PathItem) (hf : FreshOpt o a asg c last) (hw : optWT ss root o = true) (out : ActOut)
    (h : arrayToAppendAction o = .ok out) : out.opts.all (optWT ss root) = true :=
  arrayToAppend_fresh_WT ss root o a asg c last hf hw out h

theorem C17_map_to_index_preserves_fresh (ss : Schemas) (root : Ty) (o : Opt) (a : Argument) (asg : Assignment)
    (c : ArgCell) (last : PathItem) (hf : FreshOpt o a asg c last) (hw : optWT ss root o = true) (out : ActOut)
    (h : mapToIndexAction o = .ok out) : out.opts.all (optWT ss root) = true :=
  mapToIndex_fresh_WT ss root o a asg c last hf hw out h

theorem C17_unfold_boolean_preserves_fresh (ss : Schemas) (root : Ty) (t f : String) (o : Opt) (a : Argument)
    (asg : Assignment) (c : ArgCell) (last : PathItem) (hf : FreshOpt o a asg c last) (hw : optWT ss root o = true)
    (out : ActOut) (h : unfoldBooleanAction t f o = .ok out) : out.opts.all (optWT ss root) = true :=
  unfoldBoolean_fresh_WT ss root t f o a asg c last hf hw out h

/-- all files' rules are of the kinds for which preservation is proved -/
def simpleFiles (files : List VFile) : Bool :=
  files.all fun f => f.builders.all BRule.simple && f.options.all ORule.simple

/-- **Sequences.** Load any rule files whose rules are simple, apply `Rewriter.ApplyTo` (rules common to
    all languages, then the language's own; builder rules before option rules; dismissal of
    option-less builders after each option pass): a well-typed builder set stays well-typed.
    Induction over the rule lists in the rewriter's order. -/
theorem C17_seq (files : List VFile) (language : String) (ss : Schemas) (bs bs' : Builders) (n : Nat)
    (hsimple : simpleFiles files = true) (h : rewrite files language ss bs n = .ok bs')
    (hw : WTs ss bs = true) : WTs ss bs' = true := by
  simp only [rewrite] at h
  cases hl : loadFiles files with
  | err e => simp [hl] at h
  | panic s => simp [hl] at h
  | ok l =>
    simp only [hl] at h
    obtain ⟨hbm, hom⟩ := loadFiles_mem files l hl
    have hfiles := List.all_eq_true.1 hsimple
    have hbs : ∀ lang, ∀ r ∈ l.bFor lang, r.2.simple = true := by
      intro lang r hr
      simp only [Loaded.bFor, List.mem_map, List.mem_filter] at hr
      obtain ⟨x, ⟨hx, _⟩, rfl⟩ := hr
      obtain ⟨f, hf, hxf⟩ := hbm x hx
      have := hfiles f hf
      simp only [Bool.and_eq_true, List.all_eq_true] at this
      exact this.1 _ hxf
    have hos : ∀ lang, ∀ r ∈ l.oFor lang, r.2.simple = true := by
      intro lang r hr
      simp only [Loaded.oFor, List.mem_map, List.mem_filter] at hr
      obtain ⟨x, ⟨hx, _⟩, rfl⟩ := hr
      obtain ⟨f, hf, hxf⟩ := hom x hx
      have := hfiles f hf
      simp only [Bool.and_eq_true, List.all_eq_true] at this
      exact this.2 _ hxf
    have hlang : ∀ lang st st', applyLanguage ss l lang st = .ok st' → WTs ss st.builders = true → WTs ss st'.builders = true := by
      intro lang st st' hh hww
      simp only [applyLanguage] at hh
      cases hb : applyBRules ss (l.bFor lang) st with
      | err e => simp [hb] at hh
      | panic s => simp [hb] at hh
      | ok st1 =>
        simp only [hb] at hh
        exact applyORules_preserves ss _ st1 st' (hos lang) hh (applyBRules_preserves ss _ st st1 (hbs lang) hb hww)
    cases ha : applyTo ss l language (St.renumber bs n) with
    | err e => simp [ha] at h
    | panic s => simp [ha] at h
    | ok st' =>
      simp [ha] at h; subst h
      simp only [applyTo] at ha
      cases h1 : applyLanguage ss l "all" (St.renumber bs n) with
      | err e => simp [h1] at ha
      | panic s => simp [h1] at ha
      | ok st1 =>
        simp only [h1] at ha
        exact hlang language st1 st' ha (hlang "all" _ st1 h1 (by rw [WTs_renumber]; exact hw))

example : simpleFiles wDupBuilder.files = true := by decide

/-- **End to end**, as `codegen` runs it: derive the builders, then rewrite them with rule files whose
    rules are simple — the result is well-typed. -/
theorem C17_end_to_end (files : List VFile) (language : String) (ss : Schemas) (bs bs' : Builders) (n : Nat)
    (hf : fromAST ss = .ok bs) (hd : distinctFieldNames ss = true) (hsimple : simpleFiles files = true)
    (h : rewrite files language ss bs n = .ok bs') : WTs ss bs' = true :=
  C17_seq files language ss bs bs' n hsimple h (C17_derived_WT ss bs hf hd)

/-- the property at full strength: *any* rule files -/
def C17_seq_full : Prop :=
  ∀ (files : List VFile) (language : String) (ss : Schemas) (bs bs' : Builders) (n : Nat),
    rewrite files language ss bs n = .ok bs' → WTs ss bs = true → WTs ss bs' = true

/-- `rename_arguments` on an option whose assignment carries a constraint: the constraint keeps the
    old argument name (witness `wRenameArgs`, replayed on the real code by the check) -/
theorem C17_seq_counterexample : ¬ C17_seq_full := by
  intro hfull
  let w := wRenameArgs
  let bs₀ := getOk (fromAST w.ss)
  let bs' := getOk (rewrite w.files w.lang w.ss bs₀ 1)
  have h1 : rewrite w.files w.lang w.ss bs₀ 1 = .ok bs' := eq_ok_getOk _ (by decide)
  have h2 : WTs w.ss bs₀ = true := by decide
  have h3 : WTs w.ss bs' = false := by decide
  have := hfull w.files w.lang w.ss bs₀ bs' 1 h1 h2
  rw [h3] at this
  exact absurd this (by simp)

/-- more witnesses of the same failure, each a different mechanism (all replayed on the real code):
    a store through the `*Argument` a promoted constructor assignment shares; an index argument that
    `unfold_boolean` no longer declares -/
theorem C17_seq_counterexample_shared_pointer :
    (WTs wPromoteAppend.ss (getOk (fromAST wPromoteAppend.ss)) = true) ∧
    isOk wPromoteAppend.run = true ∧ WTs wPromoteAppend.ss (getOk wPromoteAppend.run) = false := by decide

theorem C17_seq_counterexample_unfold_after_index :
    (WTs wMapIndexUnfold.ss (getOk (fromAST wMapIndexUnfold.ss)) = true) ∧
    isOk wMapIndexUnfold.run = true ∧ WTs wMapIndexUnfold.ss (getOk wMapIndexUnfold.run) = false := by decide

/-- `struct_fields_as_options` after `array_to_append`: the new options assign `items.x`, a path
    through an array (the sibling action `struct_fields_as_arguments` wraps that case in an envelope) -/
theorem C17_seq_counterexample_sf_opts_after_append :
    (WTs wSfOptsAfterAppend.ss (getOk (fromAST wSfOptsAfterAppend.ss)) = true) ∧
    isOk wSfOptsAfterAppend.run = true ∧ WTs wSfOptsAfterAppend.ss (getOk wSfOptsAfterAppend.run) = false := by decide

/-- `array_to_append` rewrites the argument of `Assignments[0]` only: a second assignment that uses
    the option's argument (declared through `add_assignment`) keeps the old name and type -/
theorem C17_seq_counterexample_only_first_assignment :
    (WTs wAddAssignmentAppend.ss (getOk (fromAST wAddAssignmentAppend.ss)) = true) ∧
    isOk wAddAssignmentAppend.run = true ∧ WTs wAddAssignmentAppend.ss (getOk wAddAssignmentAppend.run) = false := by decide

/-- `promote_options_to_constructor` declares `opt.Args[0]` only: after `map_to_index` the promoted
    assignment uses the option's second argument, which the constructor does not declare -/
theorem C17_seq_counterexample_promote_first_argument_only :
    (WTs wMapIndexPromote.ss (getOk (fromAST wMapIndexPromote.ss)) = true) ∧
    isOk wMapIndexPromote.run = true ∧ WTs wMapIndexPromote.ss (getOk wMapIndexPromote.run) = false := by decide

/-- `map_to_index` after `array_to_append` on a list of maps: the index item is appended to a path
    that ends in the array, with the inner map's value type -/
theorem C17_seq_counterexample_map_to_index_after_append :
    (WTs wAppendThenMapToIndex.ss (getOk (fromAST wAppendThenMapToIndex.ss)) = true) ∧
    isOk wAppendThenMapToIndex.run = true ∧ WTs wAppendThenMapToIndex.ss (getOk wAppendThenMapToIndex.run) = false := by decide

/-- `struct_fields_as_arguments` takes `Assignments[0].Path` as the prefix for the first argument's
    fields, whichever assignment that is: after a first application that produced a constant
    assignment first, a second one builds paths through that constant's scalar target -/
theorem C17_seq_counterexample_sf_args_prefix_of_first_assignment :
    (WTs wSfArgsTwice.ss (getOk (fromAST wSfArgsTwice.ss)) = true) ∧
    isOk wSfArgsTwice.run = true ∧ WTs wSfArgsTwice.ss (getOk wSfArgsTwice.run) = false := by decide +kernel

/-- Since /repo b52532c an assignment declared by a rule (`add_assignment`, `add_option`) gets its own
    `*Argument` on every application; before, every application received the rule's own pointer
    (`asIRPreFix`), so a later in-place rename on one option renamed it in all of them. -/
theorem C17_rule_argument_private_since_fix (ss : Schemas) (p : Path) (c : ArgCell) (k : Val) (he : Bool)
    (env : List (VEnvFieldOf VValue)) :
    (VValue.mk (some c) k he env).asIR ss p = .ok (.arg { c with id := 0 }) ∧
    (VValue.mk (some c) k he env).asIRPreFix ss p = .ok (.arg c) := by
  constructor
  · simp [VValue.asIR, VValue.asIRPreFix, AValue.mapCells, zeroCell]
  · simp [VValue.asIRPreFix]

/-- `struct_fields_as_options` after `map_to_index`: the new options are built around a path that
    indexes with the argument `key`, which none of them declares (sibling of
    `C17_seq_counterexample_unfold_after_index`) -/
theorem C17_seq_counterexample_sf_opts_after_index :
    (WTs wMapIndexSfOpts.ss (getOk (fromAST wMapIndexSfOpts.ss)) = true) ∧
    isOk wMapIndexSfOpts.run = true ∧ WTs wMapIndexSfOpts.ss (getOk wMapIndexSfOpts.run) = false := by decide +kernel

/-! ## frame at the level of the whole rewriter -/

/-- the property at full strength for the smallest case — no rule at all: nothing changes -/
def C17_frame_norules_full : Prop :=
  ∀ (language : String) (ss : Schemas) (bs bs' : Builders) (n : Nat),
    rewrite [] language ss bs n = .ok bs' → bs'.map Builder.content = bs.map Builder.content

/-- what holds: with no rules the result is the builders that have at least one option, in order,
    with unchanged content; hence nothing changes when every builder has an option -/
theorem C17_frame_norules_partial (language : String) (ss : Schemas) (bs bs' : Builders) (n : Nat)
    (h : rewrite [] language ss bs n = .ok bs') :
    bs'.map Builder.content = (bs.filter fun b => !b.options.isEmpty).map Builder.content ∧
    ((∀ b ∈ bs, b.options ≠ []) → bs'.map Builder.content = bs.map Builder.content) := by
  have hres : bs' = ((St.renumber bs n).builders.filter fun b => !b.options.isEmpty) := by
    simp [rewrite, loadFiles, applyTo, applyLanguage, Loaded.bFor, Loaded.oFor, applyBRules, applyORules] at h
    exact h.symm
  have hcont := numberBuilders_content bs n
  have hfil : ∀ (l l' : Builders), l'.map Builder.content = l.map Builder.content →
      (l'.filter fun b => !b.options.isEmpty).map Builder.content = (l.filter fun b => !b.options.isEmpty).map Builder.content := by
    intro l
    induction l with
    | nil => intro l' hh; cases l' <;> simp_all
    | cons a l ih =>
      intro l' hh
      cases l' with
      | nil => simp at hh
      | cons a' l' =>
        simp only [List.map_cons, List.cons.injEq] at hh
        have he : a'.options.isEmpty = a.options.isEmpty := by
          have := congrArg (fun x : Builder => x.options.isEmpty) hh.1
          simpa [Builder.content] using this
        simp only [List.filter, he]
        cases a.options.isEmpty <;> simp [hh.1, ih l' hh.2]
  have h1 : bs'.map Builder.content = (bs.filter fun b => !b.options.isEmpty).map Builder.content := by
    rw [hres]
    exact hfil bs _ hcont
  refine ⟨h1, fun hne => ?_⟩
  rw [h1]
  congr 1
  apply List.filter_eq_self.2
  intro b hb
  have := hne b hb
  cases hbo : b.options with
  | nil => exact absurd hbo this
  | cons o os => simp

/-- an empty struct's builder has no option: it is dismissed although no rule exists (witness `wDismissed`) -/
theorem C17_frame_norules_counterexample : ¬ C17_frame_norules_full := by
  intro hfull
  let w := wDismissed
  let bs₀ := getOk (fromAST w.ss)
  let bs' := getOk (rewrite [] w.lang w.ss bs₀ 1)
  have h1 : rewrite [] w.lang w.ss bs₀ 1 = .ok bs' := eq_ok_getOk _ (by decide)
  have hlen : bs'.length ≠ bs₀.length := by decide
  have := congrArg List.length (hfull w.lang w.ss bs₀ bs' 1 h1)
  simp at this
  exact hlen this

/-- an option rule changes a builder it did not select: after `merge_into`, `rename_arguments` on the
    merged option also renames the argument of the *source* builder's option, through the shared
    `Args` array and `*Argument` (witness `wMergeRename`; `D.x` names options of builder `D` only) -/
theorem C17_frame_counterexample_shared_pointer :
    isOk wMergeRename.run = true ∧
    ((getOk wMergeRename.run).filter fun b => b.name == "I").map (fun b => b.options.map fun o => o.args.map (·.name))
      = [[["y"]]] ∧
    ((getOk (fromAST wMergeRename.ss)).filter fun b => b.name == "I").map (fun b => b.options.map fun o => o.args.map (·.name))
      = [[["x"]]] := by decide


/-! ## frame of the option rules -/

/-- **Frame, option rules that store nothing** (all but `rename_arguments`, `array_to_append`,
    `map_to_index`): the builders are the same, in the same order; nothing but the options of a
    builder changes; the options the selector rejected are all still there, unchanged, in their
    relative order; and every other option is what the action returned for it (`Expands`). -/
theorem C17_option_frame (ss : Schemas) (sel : OSelC) (rule : ORule) (hs : rule.storesNothing = true)
    (st st' : St) (h : applyORule ss sel rule st = .ok st') :
    All2 (fun b b' =>
        b'.for_ = b.for_ ∧ b'.pkg = b.pkg ∧ b'.name = b.name ∧ b'.properties = b.properties ∧
        b'.constructor = b.constructor ∧ b'.factories = b.factories ∧
        (b.options.filter fun o => !sel.matches b o).Sublist b'.options ∧
        Expands ss sel rule b b.options b'.options)
      st.builders st'.builders := by
  refine All2.imp ?_ (applyORule_frame ss sel rule hs st st' h)
  rintro b b' ⟨r, rfl, hexp⟩
  exact ⟨rfl, rfl, rfl, rfl, rfl, rfl, hexp.unselected_sublist, hexp⟩

/-- the same for *every* option rule, on what `cog inspect` shows (pointer identities aside) -/
def C17_option_frame_full : Prop :=
  ∀ (ss : Schemas) (sel : OSelC) (rule : ORule) (st st' : St), applyORule ss sel rule st = .ok st' →
    All2 (fun b b' => ((b.options.filter fun o => !sel.matches b o).map Opt.content).Sublist (b'.options.map Opt.content))
      st.builders st'.builders

/-- Bool version of `All2` for evaluating witnesses -/
def all2b {α β : Type} (q : α → β → Bool) : List α → List β → Bool
  | [], [] => true
  | a :: as, b :: bs => q a b && all2b q as bs
  | _, _ => false

theorem all2b_of_All2 {α β : Type} {P : α → β → Prop} {q : α → β → Bool} (hq : ∀ a b, P a b → q a b = true) :
    ∀ {l : List α} {l' : List β}, All2 P l l' → all2b q l l' = true
  | [], [], _ => rfl
  | a :: as, b :: bs, h => by simp [all2b, hq a b h.1, all2b_of_All2 hq h.2]
  | [], _ :: _, h => by simp [All2] at h
  | _ :: _, [], h => by simp [All2] at h

/-- after `merge_into`, `rename_arguments` selected for builder `D`'s option `x` also renames the
    argument of builder `I`'s option `x` (witness `wMergeRename`, replayed on the real code) -/
theorem C17_option_frame_counterexample : ¬ C17_option_frame_full := by
  intro hfull
  let w := wMergeRename
  let st0 := St.renumber (getOk (fromAST w.ss)) 1
  let st1 := getOk (applyBRules w.ss [("p", BRule.mergeInto "D" "I" "inner" [] [])] st0)
  let sel : OSelC := .byName "p" "D" ["x"]
  let rule : ORule := .renameArguments (.byName "D.x") ["y"]
  let st2 := getOk (applyORule w.ss sel rule st1)
  have h2 : applyORule w.ss sel rule st1 = .ok st2 := eq_ok_getOk _ (by decide)
  have hall := hfull w.ss sel rule st1 st2 h2
  let proj : Opt → List String := fun o => o.args.map (·.name)
  have hb := all2b_of_All2 (q := fun b b' =>
      decide (((b.options.filter fun o => !sel.matches b o).map proj).Sublist (b'.options.map proj))) (by
        intro b b' hs
        have := hs.map (fun o : Opt => o.args.map (·.name))
        simp only [List.map_map] at this
        have hc : ∀ o : Opt, ((fun o : Opt => o.args.map (·.name)) ∘ Opt.content) o = proj o := by
          intro o; simp [Opt.content, Opt.mapCells, proj]
        rw [List.map_congr_left (fun o _ => hc o), List.map_congr_left (fun o _ => hc o)] at this
        exact decide_eq_true this) hall
  have hno : all2b (fun b b' =>
      decide (((b.options.filter fun o => !sel.matches b o).map proj).Sublist (b'.options.map proj)))
      st1.builders st2.builders = false := by decide
  rw [hno] at hb
  exact absurd hb (by simp)

end Cog.Builder
