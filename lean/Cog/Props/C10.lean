/-
  C10 — default constructors yield the schema's defaults and constants (Go and Python).

  MODEL (lean/Cog/Sem/{GoDefaults,PyDefaults}.lean): literal transcriptions of the two jennies'
  constructor printers on the post-chain IR, each followed by the target language's own reading of
  the printed text (Go: typing of the literal against the field's declared type + value; Python:
  evaluation of `X()`), and of `json.Marshal` / `to_json`+`JSONEncoder`.  The IR carries the dynamic
  Go type of every default (`Val`), which is what decides whether the printed literal is well-typed.
  The parser layer (front-ends) is NOT modelled: the IR is produced by the real front-ends and pass
  chains in the lab; the pass chains are also modelled (Cog/Passes, regenerated `Cog.Gen.Chains`),
  which is what the counterexamples below run through.

  PROVED, for all schemas, objects, fields, fuel (induction over the field list, the literal and the
  default value):
    * `C10_go_partial`    a field of the post-Go-chain IR whose default `goFits` holds its declared
                          default / constant in `json.Marshal(New<X>())`;
    * `C10_py_partial`    the same for `pyFits` and `json.dumps(X())`;
    * `C10_agree_partial` under both, Go and Python hold the same member value.
  `goFits` / `pyFits` (lean/Cog/Sem/DefaultsFits.lean) are decidable, syntactic conditions on the
  field type × the dynamic type of the default, per value type: bool, integer (int64, or float64
  holding an integer in range: OpenAPI), float (int64 / float64), string, constants, list of strings
  (Go) / of scalars (Python), enum member through a reference (found by Go `==`: same dynamic
  type), struct with partial overrides of scalar members, inline enum / union (Python).

  The FULL statement `C10_full` (every declared default or constant of the front-end IR is held by
  both constructors and they agree) is FALSE on the current tree: `C10_counterexample_*` below, each
  evaluated by the kernel on a one- or two-object witness that the check also replays on real
  generated code (pinned terms of harness/c10_stream.go).
-/
import Cog.Sem.DefaultsPyHolds
import Cog.Sem.DefaultsPasses
import Cog.Gen.Chains
namespace Cog.Sem.Defaults
open Cog.Sem Cog.IR Cog.Passes Cog.Gen.Chains
open PyVal (pyEncode)

/-! ## the proved part -/

/-- Go: a fitting field holds its declared default / constant in the constructor's JSON -/
theorem C10_go_partial (fuel : Nat) (ss : Schemas) (pkg name : String) (o : Obj) (fs : List Field)
    (g : List Ty) (m : Meta) (jg : Json) (f : Field) (j : Json)
    (hrun : goDefaults fuel ss pkg name = .ok jg)
    (hloc : Schemas.locateObject ss pkg name = some o) (hty : o.ty = .struct fs g none m)
    (hsp : o.selfPkg = pkg) (hsn : o.selfName = name) (hn : namesNodup fs = true)
    (hf : f ∈ fs) (hfit : goFits ss f = true) (hj : declaredOf f = some j) :
    holds jg f.name j = true := by
  obtain ⟨v, hv, rfl⟩ := CRes.map_eq_ok.mp hrun
  exact go_field_holds hv hloc hty hsp hsn hn hf hfit hj

/-- Python: a fitting field holds its declared default / constant in the JSON of `X()` -/
theorem C10_py_partial (fuel : Nat) (ss : Schemas) (pkg name : String) (o : Obj) (fs : List Field)
    (g : List Ty) (gi : Option (String × DisjInfo)) (m : Meta) (jp : Json) (f : Field) (j : Json)
    (hrun : pyDefaults fuel ss pkg name = .ok jp)
    (hloc : Schemas.locateObject ss pkg name = some o) (hty : o.ty = .struct fs g gi m)
    (hn : namesNodup fs = true) (hf : f ∈ fs) (hfit : pyFits ss f = true) (hj : declaredOf f = some j) :
    holds jp f.name j = true := by
  obtain ⟨v, hv, rfl⟩ := PRes.map_eq_ok.mp hrun
  exact py_field_holds hv hloc hty hn hf hfit hj

/-- the member of an encoded object -/
def memberOf (enc : Json) (name : String) : Option Json :=
  match enc with
  | .obj ms => Json.lookup name ms
  | _ => none

mutual
theorem sub_flat_eq : ∀ (j x : Json), flat j = true → Json.sub j x = true → x = j
  | .null, x, _, h => by cases x <;> simp [Json.sub] at h ⊢
  | .bool a, x, _, h => by cases x <;> simp [Json.sub] at h ⊢; exact h.symm
  | .num a, x, _, h => by cases x <;> simp [Json.sub] at h ⊢; exact h.symm
  | .str a, x, _, h => by cases x <;> simp [Json.sub] at h ⊢; exact h.symm
  | .arr xs, x, hf, h => by
    cases x <;> simp [Json.sub] at h ⊢
    rename_i ys
    simp [flat] at hf
    exact subList_flat_eq xs ys hf h
  | .obj _, _, hf, _ => by simp [flat] at hf
theorem subList_flat_eq : ∀ (xs ys : List Json), flatList xs = true → Json.subList xs ys = true → ys = xs
  | [], ys, _, h => by cases ys <;> simp [Json.subList] at h ⊢
  | x :: xs, ys, hf, h => by
    cases ys with
    | nil => simp [Json.subList] at h
    | cons y ys =>
      simp [Json.subList] at h
      simp [flatList] at hf
      rw [sub_flat_eq x y hf.1 h.1, subList_flat_eq xs ys hf.2 h.2]
end

theorem holds_flat_member {enc : Json} {name : String} {j : Json} (hf : flat j = true)
    (h : holds enc name j = true) : memberOf enc name = some j := by
  unfold holds at h
  cases enc <;> simp at h
  rename_i ms
  cases hl : Json.lookup name ms with
  | none => simp [hl] at h
  | some v =>
    simp [hl] at h
    simp [memberOf, hl, sub_flat_eq j v hf h]

/-- Go and Python agree on a member both IRs declare with the same value, when it fits on both
    sides: both hold it, and for scalars and lists the two encoded members are identical -/
theorem C10_agree_partial (fuelg fuelp : Nat) (sg sp : Schemas) (pkg name : String)
    (og op : Obj) (fsg fsp : List Field) (gg gp : List Ty) (gip : Option (String × DisjInfo)) (mg mp : Meta)
    (jg jp : Json) (fg fp : Field) (j : Json)
    (hgo : goDefaults fuelg sg pkg name = .ok jg) (hpy : pyDefaults fuelp sp pkg name = .ok jp)
    (hlocg : Schemas.locateObject sg pkg name = some og) (htyg : og.ty = .struct fsg gg none mg)
    (hspg : og.selfPkg = pkg) (hsng : og.selfName = name) (hng : namesNodup fsg = true)
    (hlocp : Schemas.locateObject sp pkg name = some op) (htyp : op.ty = .struct fsp gp gip mp)
    (hnp : namesNodup fsp = true)
    (hfg : fg ∈ fsg) (hfp : fp ∈ fsp) (hname : fp.name = fg.name)
    (hfitg : goFits sg fg = true) (hfitp : pyFits sp fp = true)
    (hjg : declaredOf fg = some j) (hjp : declaredOf fp = some j) :
    holds jg fg.name j = true ∧ holds jp fg.name j = true ∧
      (flat j = true → memberOf jg fg.name = memberOf jp fg.name) := by
  have h1 := C10_go_partial fuelg sg pkg name og fsg gg mg jg fg j hgo hlocg htyg hspg hsng hng hfg hfitg hjg
  have h2 := C10_py_partial fuelp sp pkg name op fsp gp gip mp jp fp j hpy hlocp htyp hnp hfp hfitp hjp
  rw [hname] at h2
  exact ⟨h1, h2, fun hf => by rw [holds_flat_member hf h1, holds_flat_member hf h2]⟩

/-- Python, instance independence: the default of a fitting member is never a mutable object sitting
    in the `__init__` signature (evaluated once, shared by every instance): collection / reference /
    enum / union members get `= None` and the printed expression is evaluated by each call -/
theorem C10_py_independent_partial (fuel : Nat) (ss : Schemas) (f : Field) (pf : PyField)
    (h : pyField fuel ss f = .ok pf) (hfit : pyFits ss f = true) : pySharedDefault pf = false :=
  py_fits_not_shared h hfit

/-- the configured pass `disjunction_with_constant_to_default`: `"auto" | string` and
    `string | "auto"` both leave a scalar that declares the constant as its default -/
theorem C10_constant_disjunction_declares (name : String) (req : Bool) (kind : String) (c : Val)
    (cs cs' : List Constraint) (mo mc : Meta) (info : DisjInfo) (m : Meta) (hc : c.isNilV = false) :
    declaredOf { name := name, ty := cddHook (.disj [.scalar kind c cs' mc, .scalar kind .nil cs mo] info m), required := req }
      = valJson c ∧
    declaredOf { name := name, ty := cddHook (.disj [.scalar kind .nil cs mo, .scalar kind c cs' mc] info m), required := req }
      = valJson c :=
  cdd_declares_constant name req kind c cs cs' mo mc info m hc

/-! ## non-vacuity: a schema with a default of every value type that satisfies the hypotheses -/

def m0 : Meta := {}
def mN : Meta := { nullable := true }
def sc (kind : String) (m : Meta) : Ty := .scalar kind .nil [] m
def obj' (pkg name : String) (t : Ty) : String × Obj := (name, { name := name, ty := t, selfPkg := pkg, selfName := name })

/-- post-Go-chain IR of
      Root: { b?: bool | *true, i: int32 | *-3, f?: float64 | *2.5, s?: string | *"hey", c: "fixed",
              l?: [...string] | *["a","b"], e?: #E & (*"b" | _), st?: #S | *{p: "x", q: 5} } -/
def exGoFields : List Field := [
  { name := "b", ty := sc "bool" { mN with dflt := .bool true }, required := false },
  { name := "i", ty := sc "int32" { m0 with dflt := .int "i64" (-3) }, required := true },
  { name := "f", ty := sc "float64" { mN with dflt := .float "f64" "2.5" }, required := false },
  { name := "s", ty := sc "string" { mN with dflt := .str "hey" }, required := false },
  { name := "c", ty := .scalar "string" (.str "fixed") [] m0, required := true },
  { name := "l", ty := .array (sc "string" m0) { mN with dflt := .list [.str "a", .str "b"] }, required := false },
  { name := "e", ty := .ref "p" "E" { mN with dflt := .str "b" }, required := false },
  { name := "st", ty := .ref "p" "S" { mN with dflt := .map [("p", .str "x"), ("q", .int "i64" 5)] }, required := false }]

def exEnum : Ty := .enum [{ name := "EA", value := .str "a", kind := "string" }, { name := "EB", value := .str "b", kind := "string" }] m0
def exS : Ty := .struct [
  { name := "p", ty := sc "string" { mN with dflt := .str "dflt" }, required := false },
  { name := "q", ty := sc "int64" mN, required := false },
  { name := "r", ty := sc "bool" m0, required := true }] [] none m0

def exGo : Schemas := [{ pkg := "p", objects := [obj' "p" "Root" (.struct exGoFields [] none m0), obj' "p" "E" exEnum, obj' "p" "S" exS] }]

example : exGoFields.all (goFits exGo) = true := by decide +kernel
example : exGoFields.all (pyFits exGo) = true := by decide +kernel
example : namesNodup exGoFields = true := by decide +kernel
example : (exGoFields.map fun f => (declaredOf f).isSome) = [true, true, true, true, true, true, true, true] := by decide +kernel
example : (match goDefaults 8 exGo "p" "Root" with
    | .ok jg => exGoFields.all fun f => (match declaredOf f with | some j => holds jg f.name j | none => false)
    | _ => false) = true := by decide +kernel
example : (match pyDefaults 8 exGo "p" "Root" with
    | .ok jp => exGoFields.all fun f => (match declaredOf f with | some j => holds jp f.name j | none => false)
    | _ => false) = true := by decide +kernel

/-- the list member of the example: `= None` in the signature, the list is built by each call -/
example : (match pyField 4 exGo { name := "l", ty := .array (sc "string" m0) { mN with dflt := .list [.str "a", .str "b"] }, required := false } with
    | .ok (.optional (some (.list _))) => true | _ => false) = true := by decide +kernel
example : cddHook (.disj [.scalar "string" (.str "auto") [] m0, sc "string" m0] {} m0)
    = .scalar "string" .nil [] { m0 with dflt := .str "auto" } := by
  simp [cddHook, sc, Val.isNilV, m0]

/-- an OpenAPI integer default arrives as float64: `42.0` prints `42`, a well-typed int literal -/
example : goFits [] { name := "n", ty := sc "int64" { mN with dflt := .float "f64" "42" }, required := false } = true := by
  decide +kernel

/-! ## the JSON-number regression (fixed in /repo by 8b0989b): why it must stay fixed -/

def jnumField : Field := { name := "n", ty := sc "int64" { mN with dflt := .jnum "42" }, required := false }
def jnumSchemas : Schemas := [{ pkg := "p", objects := [obj' "p" "Root" (.struct [jnumField] [] none m0)] }]

/-- a numeric default left as `json.Number`: Go prints `"42"` for an `*int64` (does not compile),
    Python holds the STRING "42" although the schema declares the number 42 -/
theorem C10_jsonNumber_default_breaks :
    goFits jnumSchemas jnumField = false ∧ pyFits jnumSchemas jnumField = false ∧
    (declaredOf jnumField == some (.num 168)) = true ∧
    (match goDefaults 8 jnumSchemas "p" "Root" with | .cerr _ => true | _ => false) = true ∧
    (match pyDefaults 8 jnumSchemas "p" "Root" with
     | .ok jp => memberOf jp "n" == some (.str "42") | _ => false) = true := by
  refine ⟨?_, ?_, ?_, ?_, ?_⟩ <;> decide +kernel

/-! ## the full statement and its counterexamples -/

/-- fuel that suffices for schemas without reference cycles through required members -/
def topFuel (ss : Schemas) : Nat := 2 * Schemas.objectCount ss + 8

/-- values the front-ends produce today for defaults / constants: no `json.Number` at top level
    (8b0989b), none of the values outside `Val`'s modelled dynamic types -/
def feElem : Val → Bool
  | .other .. => false
  | _ => true

mutual
def feVal : Val → Bool
  | .jnum _ => false
  | .other .. => false
  | .list xs => feValList xs
  | .map kvs => feValMembers kvs
  | _ => true
def feValList : List Val → Bool
  | [] => true
  | x :: xs => feElem x && feValList xs
def feValMembers : List (String × Val) → Bool
  | [] => true
  | (_, v) :: t => feVal v && feValMembers t
end

def fieldDefaultsOk (f : Field) : Bool := feVal f.ty.getMeta.dflt && feVal (scalarValue f.ty)

def demandsGo (sg : Schemas) (pkg name field : String) (j : Json) : Bool :=
  match goDefaults (topFuel sg) sg pkg name with
  | .ok jg => holds jg field j
  | _ => false

def demandsPy (sp : Schemas) (pkg name field : String) (j : Json) : Bool :=
  match pyDefaults (topFuel sp) sp pkg name with
  | .ok jp => holds jp field j
  | _ => false

def agrees (sg sp : Schemas) (pkg name field : String) : Bool :=
  match goDefaults (topFuel sg) sg pkg name, pyDefaults (topFuel sp) sp pkg name with
  | .ok jg, .ok jp => memberOf jg field == memberOf jp field
  | _, _ => false

/-- FULL statement: for every front-end IR `S`, every struct object and every member declaring a
    default or a constant (of a dynamic type a front-end produces), both constructors — generated
    from the IR after the language's own pass chain — hold exactly that value, and they agree. -/
def C10_full : Prop :=
  ∀ (S Sg Sp : Schemas) (pkg name : String) (o : Obj) (fs : List Field) (g : List Ty)
    (gi : Option (String × DisjInfo)) (m : Meta) (f : Field) (j : Json),
    runChain goChain S = .ok Sg → runChain pythonChain S = .ok Sp →
    Schemas.locateObject S pkg name = some o → o.ty = .struct fs g gi m → f ∈ fs →
    fieldDefaultsOk f = true → declaredOf f = some j →
    demandsGo Sg pkg name f.name j = true ∧ demandsPy Sp pkg name f.name j = true ∧
      agrees Sg Sp pkg name f.name = true

/-- how a witness refutes the full statement: both chains succeed, the named member declares `j`,
    and one of the three demands fails -/
def refutes (W : Schemas) (pkg name field : String) : Bool :=
  match runChain goChain W, runChain pythonChain W, Schemas.locateObject W pkg name with
  | .ok Sg, .ok Sp, some o =>
    (match fieldByName field (structFields o.ty) with
     | some f =>
       o.ty.isStruct && fieldDefaultsOk f &&
       (match declaredOf f with
        | some j => !(demandsGo Sg pkg name f.name j && demandsPy Sp pkg name f.name j && agrees Sg Sp pkg name f.name)
        | none => false)
     | none => false)
  | _, _, _ => false

theorem refutes_sound {W : Schemas} {pkg name field : String} (h : refutes W pkg name field = true) : ¬ C10_full := by
  intro hall
  unfold refutes at h
  cases hg : runChain goChain W with
  | ok Sg =>
    cases hp : runChain pythonChain W with
    | ok Sp =>
      cases hl : Schemas.locateObject W pkg name with
      | some o =>
        simp only [hg, hp, hl] at h
        cases hf : fieldByName field (structFields o.ty) with
        | some f =>
          simp only [hf, Bool.and_eq_true] at h
          obtain ⟨⟨hst, hok⟩, hd⟩ := h
          cases hj : declaredOf f with
          | some j =>
            simp only [hj] at hd
            cases hty : o.ty with
            | struct fs g gi m =>
              have hmem : f ∈ fs := by
                have := (fieldByName_name hf).2
                simpa [hty, structFields] using this
              obtain ⟨a, b, c⟩ := hall W Sg Sp pkg name o fs g gi m f j hg hp hl hty hmem hok hj
              simp [a, b, c] at hd
            | _ => simp [hty, Ty.isStruct] at hst
          | none => simp [hj] at hd
        | none => simp [hf] at h
      | none => simp [hg, hp, hl] at h
    | err e => simp [hg, hp] at h
    | panic e => simp [hg, hp] at h
  | err e => simp [hg] at h
  | panic e => simp [hg] at h

/-! ### witnesses (front-end IR; the check replays the same schemas on real generated code) -/

def root (fs : List Field) : String × Obj := obj' "p" "Root" (.struct fs [] none m0)
def pkgOf (objs : List (String × Obj)) : Schemas := [{ pkg := "p", objects := objs }]
def opt (name : String) (t : Ty) : Field := { name := name, ty := t, required := false }
def req (name : String) (t : Ty) : Field := { name := name, ty := t, required := true }
def dm (d : Val) : Meta := { dflt := d }

/-- `li?: [...int64] | *[1, 2]`: Go prints `[]string{1, 2}` for a `[]int64` field -/
def wListOfInts : Schemas := pkgOf [root [opt "li" (.array (sc "int64" m0) (dm (.list [.int "i64" 1, .int "i64" 2])))]]
/-- JSON Schema `default: [1, 2]`: the elements stay `json.Number`; Go `[]string{"1", "2"}`, Python `["1", "2"]` -/
def wListOfJsonNumbers : Schemas := pkgOf [root [opt "li" (.array (sc "int64" m0) (dm (.list [.jnum "1", .jnum "2"])))]]
/-- `le?: [...string]` with JSON Schema / OpenAPI `default: []`: Go's `omitempty` drops the member -/
def wEmptyList : Schemas := pkgOf [root [opt "le" (.array (sc "string" m0) (dm (.list [])))]]
/-- OpenAPI `format: int64, default: -9223372036854775808` arrives as float64 and prints in exponent form -/
def wHugeFloatInInt : Schemas := pkgOf [root [opt "min" (sc "int64" (dm (.float "f64" "-9.223372036854776e+18")))]]
/-- `u?: string | int64 | *"4"`: DisjunctionToType (Go chain) replaces the union by a reference without the default -/
def wUnion : Schemas := pkgOf [root [opt "u" (.disj [sc "string" m0, sc "int64" m0] {} (dm (.str "4")))]]
/-- `ie?: "x" | *"y"` inline: AnonymousEnumToExplicitType (Go chain) drops the default -/
def wInlineEnum : Schemas :=
  pkgOf [root [opt "ie" (.enum [{ name := "x", value := .str "x", kind := "string" }, { name := "y", value := .str "y", kind := "string" }] (dm (.str "y")))]]
/-- `n?: #T | *{inner: {p: "deep"}}`: the nested override is printed as a `map[string]interface {}` literal -/
def wNestedOverride : Schemas := pkgOf [
  root [opt "n" (.ref "p" "T" (dm (.map [("inner", .map [("p", .str "deep")])])))],
  obj' "p" "T" (.struct [req "inner" (.ref "p" "S" m0)] [] none m0),
  obj' "p" "S" (.struct [opt "p" (sc "string" m0)] [] none m0)]
/-- `se?: #S | *{e: "y"}` with `e?: "x" | "y"`: Go prints the type `unknown` for the enum-typed member -/
def wStructEnumMember : Schemas := pkgOf [
  root [opt "se" (.ref "p" "S" (dm (.map [("e", .str "y")])))],
  obj' "p" "S" (.struct [opt "e" (.enum [{ name := "x", value := .str "x", kind := "string" }, { name := "y", value := .str "y", kind := "string" }] m0)] [] none m0)]
/-- `se?: #S | *{e: "b"}` with `e: #E`: Python's `defaultValueForType` ignores the override and takes the first member -/
def wStructEnumRefMember : Schemas := pkgOf [
  root [opt "se" (.ref "p" "S" (dm (.map [("e", .str "b")])))],
  obj' "p" "S" (.struct [req "e" (.ref "p" "E" m0)] [] none m0),
  obj' "p" "E" (.enum [{ name := "a", value := .str "a", kind := "string" }, { name := "b", value := .str "b", kind := "string" }] m0)]

/-- `tz?: "utc" | string | *""`: DisjunctionToType (Go chain) collapses the union into a plain,
    NON-nullable scalar; the optional member's zero-valued default is then dropped by `omitempty` -/
def wSameKindUnionZero : Schemas :=
  pkgOf [root [opt "tz" (.disj [.scalar "string" (.str "utc") [] m0, sc "string" m0] {} (dm (.str "")))]]
/-- the same union with a non-zero default is held by both languages -/
def wSameKindUnion : Schemas :=
  pkgOf [root [opt "tz" (.disj [.scalar "string" (.str "utc") [] m0, sc "string" m0] {} (dm (.str "browser")))]]

theorem C10_counterexample_samekind_union_zero_default : ¬ C10_full :=
  refutes_sound (W := wSameKindUnionZero) (pkg := "p") (name := "Root") (field := "tz") (by decide +kernel)
theorem C10_counterexample_list_of_ints : ¬ C10_full :=
  refutes_sound (W := wListOfInts) (pkg := "p") (name := "Root") (field := "li") (by decide +kernel)
theorem C10_counterexample_list_of_json_numbers : ¬ C10_full :=
  refutes_sound (W := wListOfJsonNumbers) (pkg := "p") (name := "Root") (field := "li") (by decide +kernel)
theorem C10_counterexample_empty_list : ¬ C10_full :=
  refutes_sound (W := wEmptyList) (pkg := "p") (name := "Root") (field := "le") (by decide +kernel)
theorem C10_counterexample_openapi_min_int64 : ¬ C10_full :=
  refutes_sound (W := wHugeFloatInInt) (pkg := "p") (name := "Root") (field := "min") (by decide +kernel)
theorem C10_counterexample_union_default_dropped_in_go : ¬ C10_full :=
  refutes_sound (W := wUnion) (pkg := "p") (name := "Root") (field := "u") (by decide +kernel)
theorem C10_counterexample_inline_enum_default_dropped_in_go : ¬ C10_full :=
  refutes_sound (W := wInlineEnum) (pkg := "p") (name := "Root") (field := "ie") (by decide +kernel)
theorem C10_counterexample_nested_override : ¬ C10_full :=
  refutes_sound (W := wNestedOverride) (pkg := "p") (name := "Root") (field := "n") (by decide +kernel)
theorem C10_counterexample_struct_default_enum_member : ¬ C10_full :=
  refutes_sound (W := wStructEnumMember) (pkg := "p") (name := "Root") (field := "se") (by decide +kernel)
theorem C10_counterexample_python_enum_ref_override_ignored : ¬ C10_full :=
  refutes_sound (W := wStructEnumRefMember) (pkg := "p") (name := "Root") (field := "se") (by decide +kernel)

/-- which demand fails on each witness (what the lab shows for the pinned terms) -/
def verdicts (W : Schemas) (field : String) : Option (Bool × Bool × Bool) :=
  match runChain goChain W, runChain pythonChain W, Schemas.locateObject W "p" "Root" with
  | .ok Sg, .ok Sp, some o =>
    (match fieldByName field (structFields o.ty) with
     | some f => (declaredOf f).map fun j =>
        (demandsGo Sg "p" "Root" field j, demandsPy Sp "p" "Root" field j, agrees Sg Sp "p" "Root" field)
     | none => none)
  | _, _, _ => none

theorem C10_witness_verdicts :
    verdicts wListOfInts "li" = some (false, true, false) ∧          -- Go does not compile
    verdicts wListOfJsonNumbers "li" = some (false, false, false) ∧   -- … and Python holds strings
    verdicts wEmptyList "le" = some (false, true, false) ∧            -- Go omits the member
    verdicts wHugeFloatInInt "min" = some (false, true, false) ∧      -- Go does not compile
    verdicts wUnion "u" = some (false, true, false) ∧                 -- Go drops the default
    verdicts wInlineEnum "ie" = some (false, true, false) ∧
    verdicts wNestedOverride "n" = some (false, true, false) ∧
    verdicts wStructEnumMember "se" = some (false, true, false) ∧
    verdicts wStructEnumRefMember "se" = some (true, false, false) ∧      -- Python alters it
    verdicts wSameKindUnionZero "tz" = some (false, true, false) ∧        -- Go omits "" (omitempty)
    verdicts wSameKindUnion "tz" = some (true, true, true) := by          -- a non-zero default is held
  refine ⟨?_, ?_, ?_, ?_, ?_, ?_, ?_, ?_, ?_, ?_, ?_⟩ <;> decide +kernel

end Cog.Sem.Defaults
