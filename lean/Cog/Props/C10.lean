/-
  C10 — default constructors yield the schema's defaults and constants (Go and Python).

  MODEL (lean/Cog/Sem/{GoDefaults,PyDefaults}.lean): literal transcriptions of the two jennies'
  constructor printers on the post-chain IR, each followed by the target language's own reading of
  the printed text (Go: typing of the literal against the field's declared type + value; Python:
  evaluation of `X()`), and of `json.Marshal` / `to_json`+`JSONEncoder`.  The IR carries the dynamic
  Go type of every default (`Val`), which is what decides whether the printed literal is well-typed.
  The parser layer (front-ends) is NOT modelled: the IR is produced by the real front-ends and pass
  chains in the lab; the pass chains are also modelled (Cog/Passes, regenerated `Cog.Gen.Chains`),
  which is what the counterexamples below run through.

  PROVED, for all schemas, objects, fields, fuel (induction over the field list, the literal and the
  default value):
    * `C10_go_partial`    a field of the post-Go-chain IR whose default `goFits` holds its declared
                          default / constant in `json.Marshal(New<X>())`;
    * `C10_py_partial`    the same for `pyFits` and `json.dumps(X())`;
    * `C10_agree_partial` under both, Go and Python hold the same member value.
  `goFits` / `pyFits` (lean/Cog/Sem/DefaultsFits.lean) are decidable, syntactic conditions on the
  field type × the dynamic type of the default, per value type: bool, integer (int64, or float64
  holding an integer in range: OpenAPI), float (int64 / float64), string, constants, list of strings
  (Go) / of scalars (Python), enum member through a reference (found by Go `==`: same dynamic
  type), struct with partial overrides of scalar members, inline enum / union (Python).

  The FULL statement `C10_full` (every declared default or constant of the front-end IR is held by
  both constructors and they agree) is FALSE on the current tree: `C10_counterexample_*` below, each
  evaluated by the kernel on a one- or two-object witness that the check also replays on real
  generated code (pinned terms of harness/c10_stream.go).
-/
import Cog.Sem.DefaultsPyHolds
import Cog.Sem.DefaultsPasses
import Cog.Gen.Chains
import Cog.Front.KeepsDefaults
import Cog.Front.OpenApiKeeps
namespace Cog.Sem.Defaults
open Cog.Sem Cog.IR Cog.Passes Cog.Gen.Chains
open PyVal (pyEncode)

/-! ## the proved part -/

/-- Go: a fitting field holds its declared default / constant in the constructor's JSON -/
theorem C10_go_partial (fuel : Nat) (ss : Schemas) (pkg name : String) (o : Obj) (fs : List Field)
    (g : List Ty) (m : Meta) (jg : Json) (f : Field) (j : Json)
    (hrun : goDefaults fuel ss pkg name = .ok jg)
    (hloc : Schemas.locateObject ss pkg name = some o) (hty : o.ty = .struct fs g none m)
    (hsp : o.selfPkg = pkg) (hsn : o.selfName = name) (hn : namesNodup fs = true)
    (hf : f ∈ fs) (hfit : goFits ss f = true) (hj : declaredOf f = some j) :
    holds jg f.name j = true := by
  obtain ⟨v, hv, rfl⟩ := CRes.map_eq_ok.mp hrun
  exact go_field_holds hv hloc hty hsp hsn hn hf hfit hj

/-- Python: a fitting field holds its declared default / constant in the JSON of `X()` -/
theorem C10_py_partial (fuel : Nat) (ss : Schemas) (pkg name : String) (o : Obj) (fs : List Field)
    (g : List Ty) (gi : Option (String × DisjInfo)) (m : Meta) (jp : Json) (f : Field) (j : Json)
    (hrun : pyDefaults fuel ss pkg name = .ok jp)
    (hloc : Schemas.locateObject ss pkg name = some o) (hty : o.ty = .struct fs g gi m)
    (hn : namesNodup fs = true) (hf : f ∈ fs) (hfit : pyFits ss f = true) (hj : declaredOf f = some j) :
    holds jp f.name j = true := by
  obtain ⟨v, hv, rfl⟩ := PRes.map_eq_ok.mp hrun
  exact py_field_holds hv hloc hty hn hf hfit hj

/-- the member of an encoded object -/
def memberOf (enc : Json) (name : String) : Option Json :=
  match enc with
  | .obj ms => Json.lookup name ms
  | _ => none

mutual
theorem sub_flat_eq : ∀ (j x : Json), flat j = true → Json.sub j x = true → x = j
  | .null, x, _, h => by cases x <;> simp [Json.sub] at h ⊢
  | .bool a, x, _, h => by cases x <;> simp [Json.sub] at h ⊢; exact h.symm
  | .num a, x, _, h => by cases x <;> simp [Json.sub] at h ⊢; exact h.symm
  | .str a, x, _, h => by cases x <;> simp [Json.sub] at h ⊢; exact h.symm
  | .arr xs, x, hf, h => by
    cases x <;> simp [Json.sub] at h ⊢
    rename_i ys
    simp [flat] at hf
    exact subList_flat_eq xs ys hf h
  | .obj _, _, hf, _ => by simp [flat] at hf
theorem subList_flat_eq : ∀ (xs ys : List Json), flatList xs = true → Json.subList xs ys = true → ys = xs
  | [], ys, _, h => by cases ys <;> simp [Json.subList] at h ⊢
  | x :: xs, ys, hf, h => by
    cases ys with
    | nil => simp [Json.subList] at h
    | cons y ys =>
      simp [Json.subList] at h
      simp [flatList] at hf
      rw [sub_flat_eq x y hf.1 h.1, subList_flat_eq xs ys hf.2 h.2]
end

theorem holds_flat_member {enc : Json} {name : String} {j : Json} (hf : flat j = true)
    (h : holds enc name j = true) : memberOf enc name = some j := by
  unfold holds at h
  cases enc <;> simp at h
  rename_i ms
  cases hl : Json.lookup name ms with
  | none => simp [hl] at h
  | some v =>
    simp [hl] at h
    simp [memberOf, hl, sub_flat_eq j v hf h]

/-- Go and Python agree on a member both IRs declare with the same value, when it fits on both
    sides: both hold it, and for scalars and lists the two encoded members are identical -/
theorem C10_agree_partial (fuelg fuelp : Nat) (sg sp : Schemas) (pkg name : String)
    (og op : Obj) (fsg fsp : List Field) (gg gp : List Ty) (gip : Option (String × DisjInfo)) (mg mp : Meta)
    (jg jp : Json) (fg fp : Field) (j : Json)
    (hgo : goDefaults fuelg sg pkg name = .ok jg) (hpy : pyDefaults fuelp sp pkg name = .ok jp)
    (hlocg : Schemas.locateObject sg pkg name = some og) (htyg : og.ty = .struct fsg gg none mg)
    (hspg : og.selfPkg = pkg) (hsng : og.selfName = name) (hng : namesNodup fsg = true)
    (hlocp : Schemas.locateObject sp pkg name = some op) (htyp : op.ty = .struct fsp gp gip mp)
    (hnp : namesNodup fsp = true)
    (hfg : fg ∈ fsg) (hfp : fp ∈ fsp) (hname : fp.name = fg.name)
    (hfitg : goFits sg fg = true) (hfitp : pyFits sp fp = true)
    (hjg : declaredOf fg = some j) (hjp : declaredOf fp = some j) :
    holds jg fg.name j = true ∧ holds jp fg.name j = true ∧
      (flat j = true → memberOf jg fg.name = memberOf jp fg.name) := by
  have h1 := C10_go_partial fuelg sg pkg name og fsg gg mg jg fg j hgo hlocg htyg hspg hsng hng hfg hfitg hjg
  have h2 := C10_py_partial fuelp sp pkg name op fsp gp gip mp jp fp j hpy hlocp htyp hnp hfp hfitp hjp
  rw [hname] at h2
  exact ⟨h1, h2, fun hf => by rw [holds_flat_member hf h1, holds_flat_member hf h2]⟩

/-- Python, instance independence: the default of a fitting member is never a mutable object sitting
    in the `__init__` signature (evaluated once, shared by every instance): collection / reference /
    enum / union members get `= None` and the printed expression is evaluated by each call -/
theorem C10_py_independent_partial (fuel : Nat) (ss : Schemas) (f : Field) (pf : PyField)
    (h : pyField fuel ss f = .ok pf) (hfit : pyFits ss f = true) : pySharedDefault pf = false :=
  py_fits_not_shared h hfit

/-- the configured pass `disjunction_with_constant_to_default`: `"auto" | string` and
    `string | "auto"` both leave a scalar that declares the constant as its default -/
theorem C10_constant_disjunction_declares (name : String) (req : Bool) (kind : String) (c : Val)
    (cs cs' : List Constraint) (mo mc : Meta) (info : DisjInfo) (m : Meta) (hc : c.isNilV = false) :
    declaredOf { name := name, ty := cddHook (.disj [.scalar kind c cs' mc, .scalar kind .nil cs mo] info m), required := req }
      = valJson c ∧
    declaredOf { name := name, ty := cddHook (.disj [.scalar kind .nil cs mo, .scalar kind c cs' mc] info m), required := req }
      = valJson c :=
  cdd_declares_constant name req kind c cs cs' mo mc info m hc

/-! ## non-vacuity: a schema with a default of every value type that satisfies the hypotheses -/

def m0 : Meta := {}
def mN : Meta := { nullable := true }
def sc (kind : String) (m : Meta) : Ty := .scalar kind .nil [] m
def obj' (pkg name : String) (t : Ty) : String × Obj := (name, { name := name, ty := t, selfPkg := pkg, selfName := name })

/-- post-Go-chain IR of
      Root: { b?: bool | *true, i: int32 | *-3, f?: float64 | *2.5, s?: string | *"hey", c: "fixed",
              l?: [...string] | *["a","b"], e?: #E & (*"b" | _), st?: #S | *{p: "x", q: 5} } -/
def exGoFields : List Field := [
  { name := "b", ty := sc "bool" { mN with dflt := .bool true }, required := false },
  { name := "i", ty := sc "int32" { m0 with dflt := .int "i64" (-3) }, required := true },
  { name := "f", ty := sc "float64" { mN with dflt := .float "f64" "2.5" }, required := false },
  { name := "s", ty := sc "string" { mN with dflt := .str "hey" }, required := false },
  { name := "c", ty := .scalar "string" (.str "fixed") [] m0, required := true },
  { name := "l", ty := .array (sc "string" m0) { mN with dflt := .list [.str "a", .str "b"] }, required := false },
  { name := "e", ty := .ref "p" "E" { mN with dflt := .str "b" }, required := false },
  { name := "st", ty := .ref "p" "S" { mN with dflt := .map [("p", .str "x"), ("q", .int "i64" 5)] }, required := false }]

def exEnum : Ty := .enum [{ name := "EA", value := .str "a", kind := "string" }, { name := "EB", value := .str "b", kind := "string" }] m0
def exS : Ty := .struct [
  { name := "p", ty := sc "string" { mN with dflt := .str "dflt" }, required := false },
  { name := "q", ty := sc "int64" mN, required := false },
  { name := "r", ty := sc "bool" m0, required := true }] [] none m0

def exGo : Schemas := [{ pkg := "p", objects := [obj' "p" "Root" (.struct exGoFields [] none m0), obj' "p" "E" exEnum, obj' "p" "S" exS] }]

example : exGoFields.all (goFits exGo) = true := by decide +kernel
example : exGoFields.all (pyFits exGo) = true := by decide +kernel
example : namesNodup exGoFields = true := by decide +kernel
example : (exGoFields.map fun f => (declaredOf f).isSome) = [true, true, true, true, true, true, true, true] := by decide +kernel
example : (match goDefaults 8 exGo "p" "Root" with
    | .ok jg => exGoFields.all fun f => (match declaredOf f with | some j => holds jg f.name j | none => false)
    | _ => false) = true := by decide +kernel
example : (match pyDefaults 8 exGo "p" "Root" with
    | .ok jp => exGoFields.all fun f => (match declaredOf f with | some j => holds jp f.name j | none => false)
    | _ => false) = true := by decide +kernel

/-- the list member of the example: `= None` in the signature, the list is built by each call -/
example : (match pyField 4 exGo { name := "l", ty := .array (sc "string" m0) { mN with dflt := .list [.str "a", .str "b"] }, required := false } with
    | .ok (.optional (some (.list _))) => true | _ => false) = true := by decide +kernel
example : cddHook (.disj [.scalar "string" (.str "auto") [] m0, sc "string" m0] {} m0)
    = .scalar "string" .nil [] { m0 with dflt := .str "auto" } := by
  simp [cddHook, sc, Val.isNilV, m0]

/-- an OpenAPI integer default arrives as float64: `42.0` prints `42`, a well-typed int literal -/
example : goFits [] { name := "n", ty := sc "int64" { mN with dflt := .float "f64" "42" }, required := false } = true := by
  decide +kernel

/-! ## the JSON-number regression (fixed in /repo by 8b0989b): why it must stay fixed -/

def jnumField : Field := { name := "n", ty := sc "int64" { mN with dflt := .jnum "42" }, required := false }
def jnumSchemas : Schemas := [{ pkg := "p", objects := [obj' "p" "Root" (.struct [jnumField] [] none m0)] }]

/-- a numeric default left as `json.Number`: Go prints `"42"` for an `*int64` (does not compile),
    Python holds the STRING "42" although the schema declares the number 42 -/
theorem C10_jsonNumber_default_breaks :
    goFits jnumSchemas jnumField = false ∧ pyFits jnumSchemas jnumField = false ∧
    (declaredOf jnumField == some (.num 168)) = true ∧
    (match goDefaults 8 jnumSchemas "p" "Root" with | .cerr _ => true | _ => false) = true ∧
    (match pyDefaults 8 jnumSchemas "p" "Root" with
     | .ok jp => memberOf jp "n" == some (.str "42") | _ => false) = true := by
  refine ⟨?_, ?_, ?_, ?_, ?_⟩ <;> decide +kernel

/-! ## the full statement and its counterexamples -/

/-- fuel that suffices for schemas without reference cycles through required members -/
def topFuel (ss : Schemas) : Nat := 2 * Schemas.objectCount ss + 8

/-- values the front-ends produce today for defaults / constants: no `json.Number` at top level
    (8b0989b), none of the values outside `Val`'s modelled dynamic types -/
def feElem : Val → Bool
  | .other .. => false
  | _ => true

mutual
def feVal : Val → Bool
  | .jnum _ => false
  | .other .. => false
  | .list xs => feValList xs
  | .map kvs => feValMembers kvs
  | _ => true
def feValList : List Val → Bool
  | [] => true
  | x :: xs => feElem x && feValList xs
def feValMembers : List (String × Val) → Bool
  | [] => true
  | (_, v) :: t => feVal v && feValMembers t
end

def fieldDefaultsOk (f : Field) : Bool := feVal f.ty.getMeta.dflt && feVal (scalarValue f.ty)

def demandsGo (sg : Schemas) (pkg name field : String) (j : Json) : Bool :=
  match goDefaults (topFuel sg) sg pkg name with
  | .ok jg => holds jg field j
  | _ => false

def demandsPy (sp : Schemas) (pkg name field : String) (j : Json) : Bool :=
  match pyDefaults (topFuel sp) sp pkg name with
  | .ok jp => holds jp field j
  | _ => false

def agrees (sg sp : Schemas) (pkg name field : String) : Bool :=
  match goDefaults (topFuel sg) sg pkg name, pyDefaults (topFuel sp) sp pkg name with
  | .ok jg, .ok jp => memberOf jg field == memberOf jp field
  | _, _ => false

/-- FULL statement: for every front-end IR `S`, every struct object and every member declaring a
    default or a constant (of a dynamic type a front-end produces), both constructors — generated
    from the IR after the language's own pass chain — hold exactly that value, and they agree. -/
def C10_full : Prop :=
  ∀ (S Sg Sp : Schemas) (pkg name : String) (o : Obj) (fs : List Field) (g : List Ty)
    (gi : Option (String × DisjInfo)) (m : Meta) (f : Field) (j : Json),
    runChain goChain S = .ok Sg → runChain pythonChain S = .ok Sp →
    Schemas.locateObject S pkg name = some o → o.ty = .struct fs g gi m → f ∈ fs →
    fieldDefaultsOk f = true → declaredOf f = some j →
    demandsGo Sg pkg name f.name j = true ∧ demandsPy Sp pkg name f.name j = true ∧
      agrees Sg Sp pkg name f.name = true

/-- how a witness refutes the full statement: both chains succeed, the named member declares `j`,
    and one of the three demands fails -/
def refutes (W : Schemas) (pkg name field : String) : Bool :=
  match runChain goChain W, runChain pythonChain W, Schemas.locateObject W pkg name with
  | .ok Sg, .ok Sp, some o =>
    (match fieldByName field (structFields o.ty) with
     | some f =>
       o.ty.isStruct && fieldDefaultsOk f &&
       (match declaredOf f with
        | some j => !(demandsGo Sg pkg name f.name j && demandsPy Sp pkg name f.name j && agrees Sg Sp pkg name f.name)
        | none => false)
     | none => false)
  | _, _, _ => false

theorem refutes_sound {W : Schemas} {pkg name field : String} (h : refutes W pkg name field = true) : ¬ C10_full := by
  intro hall
  unfold refutes at h
  cases hg : runChain goChain W with
  | ok Sg =>
    cases hp : runChain pythonChain W with
    | ok Sp =>
      cases hl : Schemas.locateObject W pkg name with
      | some o =>
        simp only [hg, hp, hl] at h
        cases hf : fieldByName field (structFields o.ty) with
        | some f =>
          simp only [hf, Bool.and_eq_true] at h
          obtain ⟨⟨hst, hok⟩, hd⟩ := h
          cases hj : declaredOf f with
          | some j =>
            simp only [hj] at hd
            cases hty : o.ty with
            | struct fs g gi m =>
              have hmem : f ∈ fs := by
                have := (fieldByName_name hf).2
                simpa [hty, structFields] using this
              obtain ⟨a, b, c⟩ := hall W Sg Sp pkg name o fs g gi m f j hg hp hl hty hmem hok hj
              simp [a, b, c] at hd
            | _ => simp [hty, Ty.isStruct] at hst
          | none => simp [hj] at hd
        | none => simp [hf] at h
      | none => simp [hg, hp, hl] at h
    | err e => simp [hg, hp] at h
    | panic e => simp [hg, hp] at h
  | err e => simp [hg] at h
  | panic e => simp [hg] at h

/-! ### witnesses (front-end IR; the check replays the same schemas on real generated code) -/

def root (fs : List Field) : String × Obj := obj' "p" "Root" (.struct fs [] none m0)
def pkgOf (objs : List (String × Obj)) : Schemas := [{ pkg := "p", objects := objs }]
def opt (name : String) (t : Ty) : Field := { name := name, ty := t, required := false }
def req (name : String) (t : Ty) : Field := { name := name, ty := t, required := true }
def dm (d : Val) : Meta := { dflt := d }

/-- `li?: [...int64] | *[1, 2]`: Go prints `[]string{1, 2}` for a `[]int64` field -/
def wListOfInts : Schemas := pkgOf [root [opt "li" (.array (sc "int64" m0) (dm (.list [.int "i64" 1, .int "i64" 2])))]]
/-- JSON Schema `default: [1, 2]`: the elements stay `json.Number`; Go `[]string{"1", "2"}`, Python `["1", "2"]` -/
def wListOfJsonNumbers : Schemas := pkgOf [root [opt "li" (.array (sc "int64" m0) (dm (.list [.jnum "1", .jnum "2"])))]]
/-- `le?: [...string]` with JSON Schema / OpenAPI `default: []`: Go's `omitempty` drops the member -/
def wEmptyList : Schemas := pkgOf [root [opt "le" (.array (sc "string" m0) (dm (.list [])))]]
/-- OpenAPI `format: int64, default: -9223372036854775808` arrives as float64 and prints in exponent form -/
def wHugeFloatInInt : Schemas := pkgOf [root [opt "min" (sc "int64" (dm (.float "f64" "-9.223372036854776e+18")))]]
/-- `u?: string | int64 | *"4"`: DisjunctionToType (Go chain) replaces the union by a reference without the default -/
def wUnion : Schemas := pkgOf [root [opt "u" (.disj [sc "string" m0, sc "int64" m0] {} (dm (.str "4")))]]
/-- `ie?: "x" | *"y"` inline: AnonymousEnumToExplicitType (Go chain) drops the default -/
def wInlineEnum : Schemas :=
  pkgOf [root [opt "ie" (.enum [{ name := "x", value := .str "x", kind := "string" }, { name := "y", value := .str "y", kind := "string" }] (dm (.str "y")))]]
/-- `n?: #T | *{inner: {p: "deep"}}`: the nested override is printed as a `map[string]interface {}` literal -/
def wNestedOverride : Schemas := pkgOf [
  root [opt "n" (.ref "p" "T" (dm (.map [("inner", .map [("p", .str "deep")])])))],
  obj' "p" "T" (.struct [req "inner" (.ref "p" "S" m0)] [] none m0),
  obj' "p" "S" (.struct [opt "p" (sc "string" m0)] [] none m0)]
/-- `se?: #S | *{e: "y"}` with `e?: "x" | "y"`: Go prints the type `unknown` for the enum-typed member -/
def wStructEnumMember : Schemas := pkgOf [
  root [opt "se" (.ref "p" "S" (dm (.map [("e", .str "y")])))],
  obj' "p" "S" (.struct [opt "e" (.enum [{ name := "x", value := .str "x", kind := "string" }, { name := "y", value := .str "y", kind := "string" }] m0)] [] none m0)]
/-- `se?: #S | *{e: "b"}` with `e: #E`: Python's `defaultValueForType` ignores the override and takes the first member -/
def wStructEnumRefMember : Schemas := pkgOf [
  root [opt "se" (.ref "p" "S" (dm (.map [("e", .str "b")])))],
  obj' "p" "S" (.struct [req "e" (.ref "p" "E" m0)] [] none m0),
  obj' "p" "E" (.enum [{ name := "a", value := .str "a", kind := "string" }, { name := "b", value := .str "b", kind := "string" }] m0)]

/-- `tz?: "utc" | string | *""`: DisjunctionToType (Go chain) collapses the union into a plain,
    NON-nullable scalar; the optional member's zero-valued default is then dropped by `omitempty` -/
def wSameKindUnionZero : Schemas :=
  pkgOf [root [opt "tz" (.disj [.scalar "string" (.str "utc") [] m0, sc "string" m0] {} (dm (.str "")))]]
/-- the same union with a non-zero default is held by both languages -/
def wSameKindUnion : Schemas :=
  pkgOf [root [opt "tz" (.disj [.scalar "string" (.str "utc") [] m0, sc "string" m0] {} (dm (.str "browser")))]]

theorem C10_counterexample_samekind_union_zero_default : ¬ C10_full :=
  refutes_sound (W := wSameKindUnionZero) (pkg := "p") (name := "Root") (field := "tz") (by decide +kernel)
theorem C10_counterexample_list_of_ints : ¬ C10_full :=
  refutes_sound (W := wListOfInts) (pkg := "p") (name := "Root") (field := "li") (by decide +kernel)
theorem C10_counterexample_list_of_json_numbers : ¬ C10_full :=
  refutes_sound (W := wListOfJsonNumbers) (pkg := "p") (name := "Root") (field := "li") (by decide +kernel)
theorem C10_counterexample_empty_list : ¬ C10_full :=
  refutes_sound (W := wEmptyList) (pkg := "p") (name := "Root") (field := "le") (by decide +kernel)
theorem C10_counterexample_openapi_min_int64 : ¬ C10_full :=
  refutes_sound (W := wHugeFloatInInt) (pkg := "p") (name := "Root") (field := "min") (by decide +kernel)
theorem C10_counterexample_union_default_dropped_in_go : ¬ C10_full :=
  refutes_sound (W := wUnion) (pkg := "p") (name := "Root") (field := "u") (by decide +kernel)
theorem C10_counterexample_inline_enum_default_dropped_in_go : ¬ C10_full :=
  refutes_sound (W := wInlineEnum) (pkg := "p") (name := "Root") (field := "ie") (by decide +kernel)
theorem C10_counterexample_nested_override : ¬ C10_full :=
  refutes_sound (W := wNestedOverride) (pkg := "p") (name := "Root") (field := "n") (by decide +kernel)
theorem C10_counterexample_struct_default_enum_member : ¬ C10_full :=
  refutes_sound (W := wStructEnumMember) (pkg := "p") (name := "Root") (field := "se") (by decide +kernel)
theorem C10_counterexample_python_enum_ref_override_ignored : ¬ C10_full :=
  refutes_sound (W := wStructEnumRefMember) (pkg := "p") (name := "Root") (field := "se") (by decide +kernel)

/-- which demand fails on each witness (what the lab shows for the pinned terms) -/
def verdicts (W : Schemas) (field : String) : Option (Bool × Bool × Bool) :=
  match runChain goChain W, runChain pythonChain W, Schemas.locateObject W "p" "Root" with
  | .ok Sg, .ok Sp, some o =>
    (match fieldByName field (structFields o.ty) with
     | some f => (declaredOf f).map fun j =>
        (demandsGo Sg "p" "Root" field j, demandsPy Sp "p" "Root" field j, agrees Sg Sp "p" "Root" field)
     | none => none)
  | _, _, _ => none

theorem C10_witness_verdicts :
    verdicts wListOfInts "li" = some (false, true, false) ∧          -- Go does not compile
    verdicts wListOfJsonNumbers "li" = some (false, false, false) ∧   -- … and Python holds strings
    verdicts wEmptyList "le" = some (false, true, false) ∧            -- Go omits the member
    verdicts wHugeFloatInInt "min" = some (false, true, false) ∧      -- Go does not compile
    verdicts wUnion "u" = some (false, true, false) ∧                 -- Go drops the default
    verdicts wInlineEnum "ie" = some (false, true, false) ∧
    verdicts wNestedOverride "n" = some (false, true, false) ∧
    verdicts wStructEnumMember "se" = some (false, true, false) ∧
    verdicts wStructEnumRefMember "se" = some (true, false, false) ∧      -- Python alters it
    verdicts wSameKindUnionZero "tz" = some (false, true, false) ∧        -- Go omits "" (omitempty)
    verdicts wSameKindUnion "tz" = some (true, true, true) := by          -- a non-zero default is held
  refine ⟨?_, ?_, ?_, ?_, ?_, ?_, ?_, ?_, ?_, ?_, ?_⟩ <;> decide +kernel

/-! ## defaults and constants survive the FRONT-END and the chains (JSON Schema inputs)
    ---- BEGIN block of the c01-front builder (front-end model: Cog/Front/JsonSchema*.lean; tie: stream `c01-front`) ----

  `frontEnd` is the literal model of internal/jsonschema/generator.go (Cog/Front/JsonSchema.lean).  For a property `p` of an
  object definition `s` (`isObjectNode`, properties key-sorted as in a Go map dump) that is a typed scalar (`scalarNode`:
  `type` boolean / string / number / integer, no `$ref`, combinator or `enum`):
    * the front-end's struct for `s` has a field of type `scalarOf` (Cog/Front/JsonSchemaKeeps.lean: `keeps_property`):
      `Default` = the source's `default` with the dynamic Go type of utils.go (`srcDefault`: int64 / float64 after the
      8b0989b unwrapping for numbers, the raw value otherwise), `Value` = the source's constant (`srcConst`: `const`, or
      the text of a constant `^literal$` pattern);
    * on `Plain` (`PlainN`) front-end output the regenerated Go (Python) chain keeps that field up to the nullable flag
      NotRequiredFieldAsNullableType adds (`chain_struct`, `widen_py`);
    * C10's theorems then give the constructor's JSON.
  `srcField s p t` is that post-chain field as a function of the SOURCE keywords; `goFits` / `pyFits` / `declaredOf` on it
  are decidable conditions on the source (default of the property's JSON type, int64 range, quarter-exact floats …). -/

namespace FE
open Cog.Front.JsonSchema Cog.Front.Keeps Cog.Sem.Src

/-- the post-chain field of a typed scalar property, from the source keywords alone -/
def srcField (s : JS) (p : String × JS) (t : String) : Field :=
  scalarImg p.1 (scalarOf p.2.attrs t) (s.attrs.required.contains p.1)

/-- Go: a typed scalar property whose default / constant fits is held by `json.Marshal(New<Root>())` -/
theorem C10_jsonschema_default_go_end_to_end_partial
    (pkg : String) (defs : Defs) (fuel : Nat) (root name : String) (S Sg : Schemas) (s : JS) (p : String × JS) (t : String)
    (fuel' : Nat) (jg j : Json)
    (hS : frontEnd pkg defs fuel (refTo root) = .ok S) (hdecl : (Schemas.locateObject S pkg name).isSome = true)
    (hroot : lookupDef defs name = some s) (hobj : isObjectNode s = true) (hsorted : sortedKeys (propsOf s) = true)
    (hp : p ∈ propsOf s) (hsc : scalarNode p.2 = some t)
    (hP : Plain S = true) (hrun : runChain goChain S = .ok Sg) (hgo : goDefaults fuel' Sg pkg name = .ok jg)
    (hfit : goFits [] (srcField s p t) = true) (hj : declaredOf (srcField s p t) = some j) :
    holds jg p.1 j = true := by
  obtain ⟨o, fs, f, ho, hty, hsp, hsn, hf, hname, hreq, hfty, hbuilt⟩ := keeps_property pkg defs fuel root name S hS hdecl hroot hobj hp hsc
  rw [sortFields_id hsorted hbuilt] at hty
  obtain ⟨hloc, hty'⟩ := chain_struct goChain (by decide) S Sg hP hrun pkg name o ho fs [] none Cog.Front.JsonSchema.m0 hty
  have hscal : f.ty.isScalar = true := by rw [hfty, scalarOf_eq]; rfl
  obtain ⟨hn1, hr1, ht1⟩ := imgField_parts f
  have hsrc : (imgField f).ty = (srcField s p t).ty := by rw [ht1, srcField, hname, hreq, hfty]
  have hreq' : (imgField f).required = (srcField s p t).required := by
    rw [hr1, hreq]
    exact ((imgField_parts { name := p.1, ty := scalarOf p.2.attrs t, required := s.attrs.required.contains p.1 }).2.1).symm
  have hnd : namesNodup (NotRequiredFieldAsNullableType.vFields fs) = true := by
    apply defaults_namesNodup
    rw [vFields_names, Cog.Front.JsonSchema.fieldsBuilt_names hbuilt]
    exact Cog.Front.JsonSchema.sortedKeys_namesNodup hsorted
  have := C10_go_partial fuel' Sg pkg name _ _ [] Cog.Front.JsonSchema.m0 jg (imgField f) j hgo hloc hty'
    (by simpa [setTy] using hsp) (by simpa [setTy] using hsn) hnd (vFields_mem_scalar hf hscal)
    (by rw [goFits_scalar_congr Sg [] _ _ hsrc hreq' (imgField_scalar hscal)]; exact hfit)
    (by rw [declaredOf_congr _ _ hsrc]; exact hj)
  rw [hn1, hname] at this
  exact this

/-- Python: the same for `json.dumps(Root())` -/
theorem C10_jsonschema_default_py_end_to_end_partial
    (pkg : String) (defs : Defs) (fuel : Nat) (root name : String) (S Sp : Schemas) (s : JS) (p : String × JS) (t : String)
    (fuel' : Nat) (jp j : Json)
    (hS : frontEnd pkg defs fuel (refTo root) = .ok S) (hdecl : (Schemas.locateObject S pkg name).isSome = true)
    (hroot : lookupDef defs name = some s) (hobj : isObjectNode s = true) (hsorted : sortedKeys (propsOf s) = true)
    (hp : p ∈ propsOf s) (hsc : scalarNode p.2 = some t)
    (hP : PlainN S = true) (hrun : runChain pythonChain S = .ok Sp) (hpy : pyDefaults fuel' Sp pkg name = .ok jp)
    (hfit : pyFits [] (srcField s p t) = true) (hj : declaredOf (srcField s p t) = some j) :
    holds jp p.1 j = true := by
  obtain ⟨o, fs, f, ho, hty, hsp, hsn, hf, hname, hreq, hfty, hbuilt⟩ := keeps_property pkg defs fuel root name S hS hdecl hroot hobj hp hsc
  rw [sortFields_id hsorted hbuilt] at hty
  have hSp := pyChain_exact pythonChain (by decide) S Sp hP hrun
  have hnr : (fs.all fun f => nrTy f.ty) = true := by
    have := PlainN_located hP ho
    rw [hty] at this
    simpa [nrObjTy] using this
  have hloc : Schemas.locateObject Sp pkg name = some (pyObj o) := by rw [hSp, locateObject_pyS, ho]; rfl
  have hty' := pyObj_struct o fs [] none Cog.Front.JsonSchema.m0 hty hnr
  have hscal : f.ty.isScalar = true := by rw [hfty, scalarOf_eq]; rfl
  obtain ⟨hn1, hr1, ht1⟩ := imgField_parts f
  have himg : ({ (NotRequiredFieldAsNullableType.fixField f f.ty) with ty := imgTy f } : Field) = imgField f := by
    rw [imgTy_scalar f hscal]; rfl
  have hmem : imgField f ∈ fs.map (fun f => ({ (NotRequiredFieldAsNullableType.fixField f f.ty) with ty := imgTy f } : Field)) := by
    rw [← himg]; exact List.mem_map.mpr ⟨f, hf, rfl⟩
  have hsrc : (imgField f).ty = (srcField s p t).ty := by rw [ht1, srcField, hname, hreq, hfty]
  have hnd : namesNodup (fs.map (fun f => ({ (NotRequiredFieldAsNullableType.fixField f f.ty) with ty := imgTy f } : Field))) = true := by
    apply defaults_namesNodup
    have : (fs.map (fun f => ({ (NotRequiredFieldAsNullableType.fixField f f.ty) with ty := imgTy f } : Field))).map (·.name) = fs.map (·.name) := by
      rw [List.map_map]
      apply List.map_congr_left
      intro g _
      exact fixField_name' g
    rw [this, Cog.Front.JsonSchema.fieldsBuilt_names hbuilt]
    exact Cog.Front.JsonSchema.sortedKeys_namesNodup hsorted
  have := C10_py_partial fuel' Sp pkg name _ _ [] none Cog.Front.JsonSchema.m0 jp (imgField f) j hpy hloc hty' hnd hmem
    (by rw [pyFits_scalar_congr Sp [] _ _ hsrc (imgField_scalar hscal)]; exact hfit)
    (by rw [declaredOf_congr _ _ hsrc]; exact hj)
  rw [hn1, hname] at this
  exact this

/-- schema property with a fitting default / constant ⇒ BOTH constructors hold it at that member, and for scalars the two
    encoded members are identical: defaults and constants survive front-end, chains and jennies -/
theorem C10_jsonschema_default_end_to_end_partial
    (pkg : String) (defs : Defs) (fuel : Nat) (root name : String) (S Sg Sp : Schemas) (s : JS) (p : String × JS) (t : String)
    (fg fp : Nat) (jg jp j : Json)
    (hS : frontEnd pkg defs fuel (refTo root) = .ok S) (hdecl : (Schemas.locateObject S pkg name).isSome = true)
    (hroot : lookupDef defs name = some s) (hobj : isObjectNode s = true) (hsorted : sortedKeys (propsOf s) = true)
    (hp : p ∈ propsOf s) (hsc : scalarNode p.2 = some t)
    (hPg : Plain S = true) (hPp : PlainN S = true)
    (hrg : runChain goChain S = .ok Sg) (hrp : runChain pythonChain S = .ok Sp)
    (hgo : goDefaults fg Sg pkg name = .ok jg) (hpy : pyDefaults fp Sp pkg name = .ok jp)
    (hfg : goFits [] (srcField s p t) = true) (hfp : pyFits [] (srcField s p t) = true)
    (hj : declaredOf (srcField s p t) = some j) :
    holds jg p.1 j = true ∧ holds jp p.1 j = true ∧ (flat j = true → memberOf jg p.1 = memberOf jp p.1) := by
  have h1 := C10_jsonschema_default_go_end_to_end_partial pkg defs fuel root name S Sg s p t fg jg j hS hdecl hroot hobj hsorted hp hsc hPg hrg hgo hfg hj
  have h2 := C10_jsonschema_default_py_end_to_end_partial pkg defs fuel root name S Sp s p t fp jp j hS hdecl hroot hobj hsorted hp hsc hPp hrp hpy hfp hj
  exact ⟨h1, h2, fun hf => by rw [holds_flat_member hf h1, holds_flat_member hf h2]⟩

/-- what the declared value IS, read off the source: the JSON of the source's constant (`const` / constant pattern), else of
    its `default` (with the generator's dynamic type), else nothing -/
theorem srcField_declares (s : JS) (p : String × JS) (t : String) :
    declaredOf (srcField s p t) =
      if (srcConst p.2.attrs t).isNilV then
        (if (srcDefault p.2.attrs t).isNilV then none else valJson (srcDefault p.2.attrs t))
      else valJson (srcConst p.2.attrs t) := by
  unfold srcField
  rw [scalarOf_eq]
  obtain ⟨b, hb⟩ := scalarImg_scalar p.1 (srcKind t) (srcConst p.2.attrs t) (srcConstraints p.2.attrs t)
    { dflt := srcDefault p.2.attrs t, hints := if t = "string" then stringHints p.2.attrs else [] } (s.attrs.required.contains p.1)
  rw [declaredOf_scalar _ hb]

/-! ### non-vacuity -/

def sc' (a : JAttrs) : JS := .mk a [] [] [] [] .none .none .none

/-- `R = {b?: boolean = true, c: string const "fixed", i: integer = -3, n?: number = 2.5, pm?: string ^math$, s?: string = "hey"}` -/
def exProps : List (String × JS) := [
  ("b", sc' { types := ["boolean"], dflt := .bool true }),
  ("c", sc' { types := ["string"], const := some (.str "fixed") }),
  ("i", sc' { types := ["integer"], dflt := .num "-3" "-3", minimum := some { num := -5, den := 1, f64 := "-5" } }),
  ("n", sc' { types := ["number"], dflt := .num "2.5" "2.5" }),
  ("pm", sc' { types := ["string"], pattern := some "^math$" }),
  ("s", sc' { types := ["string"], dflt := .str "hey", maxLength := 5 })]

def exRoot : JS := .mk { types := ["object"], hasProps := true, required := ["c", "i"] } [] [] [] exProps (.bool false) .none .none
def exDefsFE : Defs := [("R", exRoot)]

def expected : List (String × String × Json) :=
  [("b", "boolean", .bool true), ("c", "string", .str "fixed"), ("i", "integer", .num (-12)), ("n", "number", .num 10),
   ("pm", "string", .str "math"), ("s", "string", .str "hey")]

/-- the hypotheses of the three theorems hold for every property of the example, and so do the conclusions evaluated on
    the models (front-end, both chains, both constructor printers) -/
example :
    isObjectNode exRoot = true ∧ sortedKeys (propsOf exRoot) = true ∧
    (exProps.map fun p => scalarNode p.2) = [some "boolean", some "string", some "integer", some "number", some "string", some "string"] ∧
    (expected.all fun e => match exProps.find? (fun p => p.1 == e.1) with
      | some p => goFits [] (srcField exRoot p e.2.1) && pyFits [] (srcField exRoot p e.2.1) &&
                  (match declaredOf (srcField exRoot p e.2.1) with | some j => j == e.2.2 | none => false)
      | none => false) = true ∧
    (match frontEnd "p" exDefsFE 8 (refTo "R") with
     | .ok S =>
       Plain S && PlainN S &&
       (match runChain goChain S, runChain pythonChain S with
        | .ok Sg, .ok Sp =>
          (match goDefaults 8 Sg "p" "R", pyDefaults 8 Sp "p" "R" with
           | .ok jg, .ok jp => expected.all fun e => holds jg e.1 e.2.2 && holds jp e.1 e.2.2
           | _, _ => false)
        | _, _ => false)
     | _ => false) = true := by
  refine ⟨by decide +kernel, by decide +kernel, by decide +kernel, by decide +kernel, by decide +kernel⟩

/-! ### the full statement and its refutation -/

/-- the JSON a scalar `default` keyword stands for -/
def jvDeclared (v : JV) : Option Json :=
  match v with
  | .null => none
  | .arr _ | .obj _ => none
  | v => valJson (unwrapJSONNumber v)

/-- FULL statement: every scalar `default` written beside ANY property schema of an object definition is held by the Go
    constructor generated from the schema.  False on the current tree: the front-end reads `default` only in
    `walkString` / `walkBool` / `walkNumber` / `walkList`. -/
def C10_jsonschema_default_full : Prop :=
  ∀ (pkg : String) (defs : Defs) (fuel : Nat) (root : String) (S Sg : Schemas) (s : JS) (p : String × JS) (fg : Nat) (jg j : Json),
    frontEnd pkg defs fuel (refTo root) = .ok S → lookupDef defs root = some s → isObjectNode s = true → p ∈ propsOf s →
    runChain goChain S = .ok Sg → goDefaults fg Sg pkg root = .ok jg → jvDeclared p.2.attrs.dflt = some j →
    holds jg p.1 j = true

def cxEnumProp : String × JS :=
  ("e", sc' { types := ["string"], enum := some [.str "a", .str "b"], dflt := .str "b" })
def cxRootFE : JS := .mk { types := ["object"], hasProps := true } [] [] [] [cxEnumProp] (.bool false) .none .none
def cxDefsFE : Defs := [("R", cxRootFE)]

/-- `R = {e?: string enum [a, b] default "b"}`: `default` beside an inline `enum` is not read by the front-end (known finding
    C10/jsonschema/inline-enum-default-dropped; replayed on the real front-end: pinned case `pinenums` of stream c01-front,
    member `es`) -/
theorem C10_jsonschema_default_counterexample : ¬ C10_jsonschema_default_full := by
  intro h
  have hw : (match frontEnd "p" cxDefsFE 8 (refTo "R") with
      | .ok S =>
        (match runChain goChain S with
         | .ok Sg => (match goDefaults 12 Sg "p" "R" with | .ok jg => !holds jg "e" (.str "b") | _ => false)
         | _ => false)
      | _ => false) = true := by decide +kernel
  cases hS : frontEnd "p" cxDefsFE 8 (refTo "R") with
  | ok S =>
    rw [hS] at hw
    cases hr : runChain goChain S with
    | ok Sg =>
      simp only [hr] at hw
      cases hg : goDefaults 12 Sg "p" "R" with
      | ok jg =>
        simp only [hg] at hw
        have := h "p" cxDefsFE 8 "R" S Sg cxRootFE cxEnumProp 12 jg (.str "b") hS rfl (by decide +kernel) (by simp [propsOf, cxRootFE])
          hr hg rfl
        have this' : holds jg "e" (.str "b") = true := this
        rw [this'] at hw
        cases hw
      | cerr _ => simp [hg] at hw
      | unsup _ => simp [hg] at hw
      | fuel => simp [hg] at hw
    | err _ => simp [hr] at hw
    | panic _ => simp [hr] at hw
  | err _ => simp [hS] at hw
  | panic _ => simp [hS] at hw

end FE
/-! ### the same for OpenAPI inputs (front-end model: Cog/Front/OpenApi*.lean; tie: stream `c01-front-oa`)
    `default` reaches the IR as the raw Go value of the loader (float64 for JSON numbers: an integer default is a float64
    holding an integer, which `goFits` admits); constants come from `^literal$` patterns. -/

namespace OA
open Cog.Front.OpenApi Cog.Front.Keeps Cog.Sem.Src

/-- the post-chain field of a typed scalar property, from the source keywords alone -/
def srcField (r : OSR) (p : String × OSR) (t : String) : Field :=
  scalarImg p.1 (scalarOf (attrsOf p.2) t) ((attrsOf r).required.contains p.1)

theorem C10_openapi_default_go_end_to_end_partial
    (pkg : String) (fuel : Nat) (cs : Components) (S Sg : Schemas) (name : String) (r : OSR) (p : String × OSR) (t : String)
    (fuel' : Nat) (jg j : Json)
    (hk : keysNodupC cs = true) (hS : frontEnd pkg fuel cs = .ok S)
    (hl : lookupComp cs name = some r) (hobj : isObjectNode r = true) (hsorted : sortedKeys (propsOf r) = true)
    (hp : p ∈ propsOf r) (hsc : scalarNode p.2 = some t)
    (hP : Plain S = true) (hrun : runChain goChain S = .ok Sg) (hgo : goDefaults fuel' Sg pkg name = .ok jg)
    (hfit : goFits [] (srcField r p t) = true) (hj : declaredOf (srcField r p t) = some j) :
    holds jg p.1 j = true := by
  obtain ⟨o, fs, f, ho, hty, hsp, hsn, hf, hname, hreq, hfty, hbuilt⟩ := keeps_property pkg fuel cs S hk hS hl hobj hp hsc
  rw [Cog.Front.OpenApi.sortFields_id hsorted hbuilt] at hty
  obtain ⟨hloc, hty'⟩ := Cog.Front.JsonSchema.chain_struct goChain (by decide) S Sg hP hrun pkg name o ho fs [] none Cog.Front.JsonSchema.m0 hty
  have hscal : f.ty.isScalar = true := by rw [hfty]; exact scalarOf_isScalar _ t
  obtain ⟨hn1, hr1, ht1⟩ := imgField_parts f
  have hsrc : (Cog.Front.JsonSchema.imgField f).ty = (srcField r p t).ty := by rw [ht1, srcField, hname, hreq, hfty]
  have hreq' : (Cog.Front.JsonSchema.imgField f).required = (srcField r p t).required := by
    rw [hr1, hreq]
    exact ((imgField_parts { name := p.1, ty := scalarOf (attrsOf p.2) t, required := (attrsOf r).required.contains p.1 }).2.1).symm
  have hnd : namesNodup (NotRequiredFieldAsNullableType.vFields fs) = true := by
    apply defaults_namesNodup
    rw [Cog.Front.JsonSchema.vFields_names, Cog.Front.OpenApi.fieldsBuilt_names hbuilt]
    exact Cog.Front.OpenApi.sortedKeys_namesNodup hsorted
  have := C10_go_partial fuel' Sg pkg name _ _ [] Cog.Front.JsonSchema.m0 jg (Cog.Front.JsonSchema.imgField f) j hgo hloc hty'
    (by simpa [setTy] using hsp) (by simpa [setTy] using hsn) hnd (Cog.Front.JsonSchema.vFields_mem_scalar hf hscal)
    (by rw [goFits_scalar_congr Sg [] _ _ hsrc hreq' (imgField_scalar hscal)]; exact hfit)
    (by rw [declaredOf_congr _ _ hsrc]; exact hj)
  rw [hn1, hname] at this
  exact this

theorem C10_openapi_default_py_end_to_end_partial
    (pkg : String) (fuel : Nat) (cs : Components) (S Sp : Schemas) (name : String) (r : OSR) (p : String × OSR) (t : String)
    (fuel' : Nat) (jp j : Json)
    (hk : keysNodupC cs = true) (hS : frontEnd pkg fuel cs = .ok S)
    (hl : lookupComp cs name = some r) (hobj : isObjectNode r = true) (hsorted : sortedKeys (propsOf r) = true)
    (hp : p ∈ propsOf r) (hsc : scalarNode p.2 = some t)
    (hP : PlainN S = true) (hrun : runChain pythonChain S = .ok Sp) (hpy : pyDefaults fuel' Sp pkg name = .ok jp)
    (hfit : pyFits [] (srcField r p t) = true) (hj : declaredOf (srcField r p t) = some j) :
    holds jp p.1 j = true := by
  obtain ⟨o, fs, f, ho, hty, hsp, hsn, hf, hname, hreq, hfty, hbuilt⟩ := keeps_property pkg fuel cs S hk hS hl hobj hp hsc
  rw [Cog.Front.OpenApi.sortFields_id hsorted hbuilt] at hty
  have hSp := Cog.Front.JsonSchema.pyChain_exact pythonChain (by decide) S Sp hP hrun
  have hnr : (fs.all fun f => nrTy f.ty) = true := by
    have := PlainN_located hP ho
    rw [hty] at this
    simpa [nrObjTy] using this
  have hloc : Schemas.locateObject Sp pkg name = some (pyObj o) := by rw [hSp, locateObject_pyS, ho]; rfl
  have hty' := pyObj_struct o fs [] none Cog.Front.JsonSchema.m0 hty hnr
  have hscal : f.ty.isScalar = true := by rw [hfty]; exact scalarOf_isScalar _ t
  obtain ⟨hn1, hr1, ht1⟩ := imgField_parts f
  have himg : ({ (NotRequiredFieldAsNullableType.fixField f f.ty) with ty := imgTy f } : Field) = Cog.Front.JsonSchema.imgField f := by
    rw [imgTy_scalar f hscal]; rfl
  have hmem : Cog.Front.JsonSchema.imgField f ∈ fs.map (fun f => ({ (NotRequiredFieldAsNullableType.fixField f f.ty) with ty := imgTy f } : Field)) := by
    rw [← himg]; exact List.mem_map.mpr ⟨f, hf, rfl⟩
  have hsrc : (Cog.Front.JsonSchema.imgField f).ty = (srcField r p t).ty := by rw [ht1, srcField, hname, hreq, hfty]
  have hnd : namesNodup (fs.map (fun f => ({ (NotRequiredFieldAsNullableType.fixField f f.ty) with ty := imgTy f } : Field))) = true := by
    apply defaults_namesNodup
    have : (fs.map (fun f => ({ (NotRequiredFieldAsNullableType.fixField f f.ty) with ty := imgTy f } : Field))).map (·.name) = fs.map (·.name) := by
      rw [List.map_map]
      apply List.map_congr_left
      intro g _
      exact fixField_name' g
    rw [this, Cog.Front.OpenApi.fieldsBuilt_names hbuilt]
    exact Cog.Front.OpenApi.sortedKeys_namesNodup hsorted
  have := C10_py_partial fuel' Sp pkg name _ _ [] none Cog.Front.JsonSchema.m0 jp (Cog.Front.JsonSchema.imgField f) j hpy hloc hty' hnd hmem
    (by rw [pyFits_scalar_congr Sp [] _ _ hsrc (imgField_scalar hscal)]; exact hfit)
    (by rw [declaredOf_congr _ _ hsrc]; exact hj)
  rw [hn1, hname] at this
  exact this

/-- OpenAPI property with a fitting default / pattern constant ⇒ both constructors hold it, and agree on scalars -/
theorem C10_openapi_default_end_to_end_partial
    (pkg : String) (fuel : Nat) (cs : Components) (S Sg Sp : Schemas) (name : String) (r : OSR) (p : String × OSR) (t : String)
    (fg fp : Nat) (jg jp j : Json)
    (hk : keysNodupC cs = true) (hS : frontEnd pkg fuel cs = .ok S)
    (hl : lookupComp cs name = some r) (hobj : isObjectNode r = true) (hsorted : sortedKeys (propsOf r) = true)
    (hp : p ∈ propsOf r) (hsc : scalarNode p.2 = some t)
    (hPg : Plain S = true) (hPp : PlainN S = true)
    (hrg : runChain goChain S = .ok Sg) (hrp : runChain pythonChain S = .ok Sp)
    (hgo : goDefaults fg Sg pkg name = .ok jg) (hpy : pyDefaults fp Sp pkg name = .ok jp)
    (hfg : goFits [] (srcField r p t) = true) (hfp : pyFits [] (srcField r p t) = true)
    (hj : declaredOf (srcField r p t) = some j) :
    holds jg p.1 j = true ∧ holds jp p.1 j = true ∧ (flat j = true → memberOf jg p.1 = memberOf jp p.1) := by
  have h1 := C10_openapi_default_go_end_to_end_partial pkg fuel cs S Sg name r p t fg jg j hk hS hl hobj hsorted hp hsc hPg hrg hgo hfg hj
  have h2 := C10_openapi_default_py_end_to_end_partial pkg fuel cs S Sp name r p t fp jp j hk hS hl hobj hsorted hp hsc hPp hrp hpy hfp hj
  exact ⟨h1, h2, fun hf => by rw [holds_flat_member hf h1, holds_flat_member hf h2]⟩

def scO (a : OAttrs) : OSR := .mk "" true "" (.mk a [] [] [] [] .none .none)

/-- `R = {b?: boolean = true, i: integer(int64) = 3 (float64 3 in the loader's value), pm?: string ^math$, s?: string = "hey"}` -/
def exPropsO : List (String × OSR) := [
  ("b", scO { types := some ["boolean"], dflt := .bool true }),
  ("i", scO { types := some ["integer"], format := "int64", dflt := .float "f64" "3" }),
  ("pm", scO { types := some ["string"], pattern := "^math$" }),
  ("s", scO { types := some ["string"], dflt := .str "hey", maxLength := some 5 })]
def exRootO : OSR := .mk "" true "" (.mk { types := some ["object"], required := ["i"], addlHas := some false } [] [] [] exPropsO .none .none)
def exCompsO : Components := [("R", exRootO)]
def expectedO : List (String × String × Json) :=
  [("b", "boolean", .bool true), ("i", "integer", .num 12), ("pm", "string", .str "math"), ("s", "string", .str "hey")]

example :
    keysNodupC exCompsO = true ∧ isObjectNode exRootO = true ∧ sortedKeys (propsOf exRootO) = true ∧
    (exPropsO.map fun p => scalarNode p.2) = [some "boolean", some "integer", some "string", some "string"] ∧
    (expectedO.all fun e => match exPropsO.find? (fun p => p.1 == e.1) with
      | some p => goFits [] (srcField exRootO p e.2.1) && pyFits [] (srcField exRootO p e.2.1) &&
                  (match declaredOf (srcField exRootO p e.2.1) with | some j => j == e.2.2 | none => false)
      | none => false) = true ∧
    (match frontEnd "p" 8 exCompsO with
     | .ok S =>
       Plain S && PlainN S &&
       (match runChain goChain S, runChain pythonChain S with
        | .ok Sg, .ok Sp =>
          (match goDefaults 8 Sg "p" "R", pyDefaults 8 Sp "p" "R" with
           | .ok jg, .ok jp => expectedO.all fun e => holds jg e.1 e.2.2 && holds jp e.1 e.2.2
           | _, _ => false)
        | _, _ => false)
     | _ => false) = true := by
  refine ⟨by decide +kernel, by decide +kernel, by decide +kernel, by decide +kernel, by decide +kernel, by decide +kernel⟩

end OA

-- ---- END block of the c01-front builder ----

end Cog.Sem.Defaults
