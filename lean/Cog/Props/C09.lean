/-
  C09 — a builder option sets exactly its target; invalid input is reported, valid never.

  Property theorems only; the model of the generated builders is lean/Cog/Sem/GoBuilder.lean
  (Go) and lean/Cog/Sem/PyBuilder.lean (Python), helper lemmas are in GoBuilderLemmas.lean /
  GoBuilderValidate.lean / PyBuilderLemmas.lean.  The theorems quantify over ALL contexts
  (schemas, builder sets, default objects), all builders / options (any assignment list the
  builder IR can hold: nil checks, direct / append / index methods, envelopes, constants,
  constructor arguments), all resolved argument values (plain values, built objects, failed nested
  builders) and all call sequences.

  Reading guide:  `applyOption c o args st` is one option call on the builder state `st`;
  `topGet n v` is member `n` of the object `v`; `touchesAny n as` says that one of the
  assignments `as` (its target path or one of its nil checks) starts at member `n`;
  `get steps v` reads the component of `v` the Go l-value `builder.internal.<path>` denotes.
-/
import Cog.Sem.GoBuilderLemmas
import Cog.Sem.GoBuilderValidate
import Cog.Sem.PyBuilderLemmas
import Cog.Props.C08
namespace Cog.Sem.GB
open Cog.IR Cog.Builder

/-! ## the option sets exactly its targets -/

/-- every argument is a value: no nested builder failed -/
def ArgsBuilt (args : List RArg) : Prop := ∀ r ∈ args, ∃ v, r = RArg.val v

/-- what the option stores at the target of assignment `a`, given what the target held (`old`) -/
def Stores (c : Ctx) (env : Env) (a : Assignment) (final : GoVal) : Prop :=
  ∃ x steps old r, evalValue c env (lastTy a.path) a.value = .val x ∧ lvalue env a.path = .ok steps ∧
    assignOp a.method x old = .ok r ∧ get steps final = .ok r

/-- **C09, sets exactly (Go).**  For every option call that returns:
    (1) every member of the object at which no assignment of the option starts is unchanged — the
        built object differs from the object before the call at most at the option's targets
        (this holds whatever the arguments are, also when a nested builder failed);
    (2) when no nested builder failed, every assignment whose target member is not started at
        again by a later assignment of the same option holds the assigned value: the evaluated
        argument / constant / envelope for `direct` and `index`, the previous slice plus that
        value for `append`. -/
theorem C09_sets_exactly_partial (c : Ctx) (o : Opt) (args : List RArg) (st st' : BState)
    (h : applyOption c o args st = .ok st') :
    (∀ n, touchesAny n o.assignments = false → topGet n st'.internal = topGet n st.internal) ∧
    (ArgsBuilt args → IsObject st.internal →
      ∀ pre a post m, o.assignments = pre ++ a :: post → pathHead a.path = some m →
        touchesAny m post = false → Stores c (bindArgs o.args args) a st'.internal) := by
  refine ⟨fun n hn => (applyOption_frame hn h).1, ?_⟩
  intro hb ho pre a post m hsplit hm hpost
  have hv := allVal_bindArgs o.args args hb
  unfold applyOption at h
  split at h
  · simp at h
  · rw [hsplit] at h
    obtain ⟨st1, h1, h2⟩ := (applyAssignments_append hv).mp h
    obtain ⟨st2, h3, h4⟩ := (applyAssignments_cons_val hv).mp h2
    obtain ⟨v1, x, steps, old, r, _, hx, hs, _, hop, hget, _⟩ := applyAssignment_sets h3
    obtain ⟨rest, rfl⟩ := lvalue_starts hs hm
    have ho1 := applyAssignments_isObject h1 ho
    have ho2 : IsObject st2.internal :=
      applyAssignment_isObject (c := c) (env := bindArgs o.args args) (st := st1) (a := a)
        (by simp [h3, AStep.state?]) ho1
    have hf := applyAssignments_frame hpost h4
    exact ⟨x, _, old, r, hx, hs, hop, by rw [get_after_frame ho2 hf]; exact hget⟩

/-- `direct` and `index` assignments store the value itself -/
theorem assignOp_direct {method : String} (hm : method ≠ "append") (x old r : GoVal)
    (h : assignOp method x old = .ok r) : r = x := by
  unfold assignOp at h
  simp [hm] at h
  exact h.symm

/-- `append` assignments store the previous elements followed by the value -/
theorem assignOp_append (x old r : GoVal) (h : assignOp "append" x old = .ok r) :
    (old = .nil ∧ r = .slice [x]) ∨ (∃ vs, old = .slice vs ∧ r = .slice (vs ++ [x])) := by
  unfold assignOp at h
  simp only [if_true] at h
  cases old <;> simp at h
  · exact .inl ⟨rfl, h.symm⟩
  · exact .inr ⟨_, rfl, h.symm⟩

/-- a plain (or built) argument assigned directly arrives unchanged, behind a pointer exactly
    when the target member is a nullable non-collection -/
theorem C09_direct_argument_value (c : Ctx) (env : Env) (cell : ArgCell) (v : GoVal) (t : Ty)
    (hf : env.find cell.arg.name = some (.val v)) :
    evalValue c env t (.arg cell) = .val (maybePtr t v) := by
  simp [evalValue, leafValue, hf]

/-! ## constructor constants are always present -/

/-- **C09, constants.**  A constant assigned by the constructor is present in the builder after
    ANY sequence of option calls (whatever their arguments) none of whose assignments starts at
    the constant's member, provided no later constructor assignment does.  (The builder derivation
    never emits an option for a constant member — C16 — so for derived builders the hypotheses on
    `calls` hold for every call sequence.) -/
theorem C09_constants_present (c : Ctx) (b : Builder) (ctorArgs : List RArg) (st0 st : BState)
    (calls : List (Opt × List RArg)) (pre post : List Assignment) (a : Assignment) (m : String)
    (hnew : newBuilder c b ctorArgs = .ok st0) (hrun : applyCalls c calls st0 = .ok st)
    (hargs : ArgsBuilt ctorArgs)
    (hobj : ∀ d, c.newObject b.for_.selfPkg b.for_.selfName = some d → IsObject d)
    (hsplit : b.constructor.assignments = pre ++ a :: post) (hm : pathHead a.path = some m)
    (hpost : touchesAny m post = false)
    (hcalls : ∀ cl ∈ calls, touchesAny m cl.1.assignments = false) :
    Stores c (bindArgs b.constructor.args ctorArgs) a st.internal := by
  unfold newBuilder at hnew
  split at hnew
  · simp at hnew
  · rename_i d hd
    split at hnew
    · simp at hnew
    · have hv := allVal_bindArgs b.constructor.args ctorArgs hargs
      rw [hsplit] at hnew
      obtain ⟨st1, h1, h2⟩ := (applyAssignments_append hv).mp hnew
      obtain ⟨st2, h3, h4⟩ := (applyAssignments_cons_val hv).mp h2
      obtain ⟨v1, x, steps, old, r, _, hx, hs, _, hop, hget, _⟩ := applyAssignment_sets h3
      obtain ⟨rest, rfl⟩ := lvalue_starts hs hm
      have ho0 : IsObject ({ internal := d } : BState).internal := hobj d hd
      have ho1 := applyAssignments_isObject h1 ho0
      have ho2 : IsObject st2.internal :=
        applyAssignment_isObject (c := c) (env := bindArgs b.constructor.args ctorArgs) (st := st1) (a := a)
          (by simp [h3, AStep.state?]) ho1
      have hf1 := applyAssignments_frame hpost h4
      have ho3 := applyAssignments_isObject h4 ho2
      have hf2 := applyCalls_frame hcalls hrun
      refine ⟨x, _, old, r, hx, hs, hop, ?_⟩
      rw [get_after_frame ho3 hf2, get_after_frame ho2 hf1]
      exact hget

/-! ## call sequences: last write wins, append accumulates -/

/-- **C09, sequences (last write wins).**  In any call sequence `before ++ [o(args)] ++ after`
    where no option of `after` starts at member `m`, the target of an assignment of `o` that starts
    at `m` (and is not started at again later in `o`) holds what that call stored — whatever
    `before` did, including earlier calls of `o` itself. -/
theorem C09_sequences (c : Ctx) (before after : List (Opt × List RArg)) (o : Opt) (args : List RArg)
    (st0 st : BState) (pre post : List Assignment) (a : Assignment) (m : String)
    (hrun : applyCalls c (before ++ (o, args) :: after) st0 = .ok st)
    (ho : IsObject st0.internal) (hb : ArgsBuilt args)
    (hsplit : o.assignments = pre ++ a :: post) (hm : pathHead a.path = some m)
    (hpost : touchesAny m post = false)
    (hafter : ∀ cl ∈ after, touchesAny m cl.1.assignments = false) :
    Stores c (bindArgs o.args args) a st.internal := by
  -- split the run
  have split : ∀ (xs ys : List (Opt × List RArg)) (s s' : BState), applyCalls c (xs ++ ys) s = .ok s' →
      ∃ s1, applyCalls c xs s = .ok s1 ∧ applyCalls c ys s1 = .ok s' := by
    intro xs
    induction xs with
    | nil => intro ys s s' h; exact ⟨s, by simp [applyCalls], by simpa using h⟩
    | cons x xs ih =>
      intro ys s s' h
      obtain ⟨o', a'⟩ := x
      simp only [List.cons_append] at h
      unfold applyCalls at h
      obtain ⟨s1, h1, h2⟩ := BRes.bind_eq_ok.mp h
      obtain ⟨s2, h3, h4⟩ := ih ys s1 s' h2
      exact ⟨s2, by unfold applyCalls; simp [h1, BRes.bind, h3], h4⟩
  obtain ⟨s1, h1, h2⟩ := split before _ st0 st hrun
  unfold applyCalls at h2
  obtain ⟨s2, h3, h4⟩ := BRes.bind_eq_ok.mp h2
  have ho1 := applyCalls_isObject h1 ho
  obtain ⟨x, steps, old, r, hx, hs, hop, hget⟩ :=
    (C09_sets_exactly_partial c o args s1 s2 h3).2 hb ho1 pre a post m hsplit hm hpost
  obtain ⟨rest, rfl⟩ := lvalue_starts hs hm
  have ho2 := applyOption_isObject h3 ho1
  have hf := applyCalls_frame hafter h4
  exact ⟨x, _, old, r, hx, hs, hop, by rw [get_after_frame ho2 hf]; exact hget⟩

/-- the elements of a slice-typed member (nil = no element) -/
def elemsOf : Option GoVal → Option (List GoVal)
  | some .nil => some []
  | some (.slice vs) => some vs
  | _ => none

/-- an option that appends its only argument to the member `m` (what `array_to_append` makes of an
    array option): one assignment, path `[m]`, no index, method `append`, value = the argument -/
def IsAppendOption (o : Opt) (m : String) : Prop :=
  ∃ it cell p, o.args = [p] ∧ cell.arg.name = p.name ∧ it.identifier = m ∧ m ≠ "" ∧ it.index = none ∧ it.root = false ∧
    asPointer it.ty = false ∧ isAnyTy' it.ty = false ∧
    o.assignments = [{ path := [it], value := .arg cell, method := "append", nilChecks := [] }]

theorem get_fld_top {m : String} {v x : GoVal} (ho : IsObject v) :
    get [.fld m] v = .ok x ↔ topGet m v = some x := by
  rcases ho with ⟨fs, rfl⟩ | ⟨bs, rfl⟩
  · simp only [get, getStep, topGet]
    cases getFld m fs <;> simp [BRes.bind, get]
  · simp only [get, getStep, topGet]
    cases getBr m bs <;> simp [BRes.bind, get]

/-- one call of an append option appends its argument -/
theorem appendOption_step (c : Ctx) (o : Opt) (m : String) (happ : IsAppendOption o m) (v : GoVal)
    (st st' : BState) (ho : IsObject st.internal) (h : applyOption c o [.val v] st = .ok st')
    (init : List GoVal) (hinit : elemsOf (topGet m st.internal) = some init) :
    elemsOf (topGet m st'.internal) = some (init ++ [v]) := by
  obtain ⟨it, cell, p, hargs, hname, hid, hne, hix, hroot, hptr, hany, hasg⟩ := happ
  have ho' := applyOption_isObject h ho
  have hb : ∀ r ∈ [RArg.val v], ∃ w, r = RArg.val w := by intro r hr; simp at hr; exact ⟨v, hr⟩
  unfold applyOption at h
  split at h
  · simp at h
  · rw [hasg] at h
    obtain ⟨st2, h3, h4⟩ := (applyAssignments_cons_val (allVal_bindArgs o.args _ hb)).mp h
    simp [applyAssignments] at h4
    subst h4
    obtain ⟨v1, x, steps, old, r, hn, hx, hs, hg, hop, hget, _⟩ := applyAssignment_sets h3
    simp [nilChecks] at hn
    subst hn
    have hx' : x = v := by
      have hl : lastTy [it] = it.ty := by simp [lastTy]
      have : evalValue c (bindArgs o.args [RArg.val v]) (lastTy [it]) (.arg cell) = .val (maybePtr (lastTy [it]) v) := by
        simp [evalValue, leafValue, bindArgs, hargs, Env.find, hname]
      simp only at hx
      rw [this] at hx
      simp [hl, maybePtr, hptr] at hx
      exact hx.symm
    have hsteps : steps = [.fld m] := by
      simp [lvalue, stepsOf, hroot, hany, hix, hid, hne, BRes.bind, BRes.map] at hs
      exact hs.symm
    subst hx' hsteps
    have t0 := (get_fld_top ho).mp hg
    have t1 := (get_fld_top ho').mp hget
    rw [t0] at hinit
    rw [t1]
    simp only at hop
    rcases assignOp_append x old r hop with ⟨rfl, rfl⟩ | ⟨vs, rfl, rfl⟩
    · simp [elemsOf] at hinit ⊢; subst hinit; rfl
    · simp [elemsOf] at hinit ⊢; subst hinit; rfl

/-- a call sequence seen from an append option: calls of that option (with the value appended)
    and other calls -/
inductive SeqItem where
  | app (v : GoVal)
  | other (o : Opt) (args : List RArg)

def SeqItem.call (o : Opt) : SeqItem → Opt × List RArg
  | .app v => (o, [.val v])
  | .other o' args => (o', args)

def appended : List SeqItem → List GoVal
  | [] => []
  | .app v :: rest => v :: appended rest
  | .other .. :: rest => appended rest

/-- **C09, sequences (append accumulates).**  Calling an append option with the values
    `v₁ … vₙ`, interleaved in any way with any calls (any arguments, failing nested builders
    included) of options that do not start at the member, leaves the member holding its initial
    elements followed by `v₁ … vₙ` in call order. -/
theorem C09_append_accumulates (c : Ctx) (o : Opt) (m : String) (happ : IsAppendOption o m) :
    ∀ (items : List SeqItem) (st0 st : BState) (init : List GoVal),
      IsObject st0.internal → elemsOf (topGet m st0.internal) = some init →
      (∀ o' args, SeqItem.other o' args ∈ items → touchesAny m o'.assignments = false) →
      applyCalls c (items.map (SeqItem.call o)) st0 = .ok st →
      elemsOf (topGet m st.internal) = some (init ++ appended items) := by
  intro items
  induction items with
  | nil => intro st0 st init _ hinit _ h; simp [applyCalls] at h; subst h; simpa [appended] using hinit
  | cons it rest ih =>
    intro st0 st init ho hinit hcl h
    simp only [List.map_cons] at h
    have hrest : ∀ o' args, SeqItem.other o' args ∈ rest → touchesAny m o'.assignments = false :=
      fun o' args h' => hcl o' args (by simp [h'])
    cases it with
    | app v =>
      simp only [SeqItem.call] at h
      unfold applyCalls at h
      obtain ⟨s1, h1, h2⟩ := BRes.bind_eq_ok.mp h
      have ho1 := applyOption_isObject h1 ho
      have hstep := appendOption_step c o m happ v st0 s1 ho h1 init hinit
      have := ih s1 st (init ++ [v]) ho1 hstep hrest h2
      rw [this]
      simp [appended]
    | other o' args =>
      simp only [SeqItem.call] at h
      unfold applyCalls at h
      obtain ⟨s1, h1, h2⟩ := BRes.bind_eq_ok.mp h
      have ho1 := applyOption_isObject h1 ho
      have hf := applyOption_frame (hcl o' args (by simp)) h1
      have hinit1 : elemsOf (topGet m s1.internal) = some init := by rw [hf.1]; exact hinit
      have := ih s1 st init ho1 hinit1 hrest h2
      rw [this]
      simp [appended]


/-! ## reporting: `Build()` returns `Validate()` of the built object -/

/-- `Build()` does not depend on `builder.errors` (the template never reads the field) -/
theorem C09_build_ignores_errors (c : Ctx) (b : Builder) (st : BState) (errs : List String) :
    build c b { st with errors := errs } = build c b st := rfl

theorem build_error_of_validate {c : Ctx} {b : Builder} {st : BState} {e : Viol} {es : List Viol}
    (h : goValidate 64 c.ss b.for_.selfPkg b.for_.selfName st.internal = .ok (e :: es)) :
    build c b st = .ok (.error (e :: es)) := by simp [build, h]

theorem build_ok_of_validate {c : Ctx} {b : Builder} {st : BState}
    (h : goValidate 64 c.ss b.for_.selfPkg b.for_.selfName st.internal = .ok []) :
    build c b st = .ok (.ok st.internal) := by simp [build, h]

/-- an option that assigns one value directly to the member `m` — the shape of every option the
    builder derivation emits (`structFieldToOption`), whatever the value (argument, built nested
    object, constant, envelope) -/
def IsDirectOption (o : Opt) (a : Assignment) (it : PathItem) (m : String) : Prop :=
  o.assignments = [a] ∧ a.path = [it] ∧ a.method = "direct" ∧ a.nilChecks = [] ∧
  it.identifier = m ∧ m ≠ "" ∧ it.index = none ∧ it.root = false

/-- one call of a direct option stores the evaluated value at the member, nothing else -/
theorem directOption_step (c : Ctx) (o : Opt) (a : Assignment) (it : PathItem) (m : String)
    (hd : IsDirectOption o a it m) (args : List RArg) (hb : ArgsBuilt args) (st st' : BState)
    (vals : Fields) (hint : st.internal = .struct vals) (h : applyOption c o args st = .ok st') :
    ∃ x vals', evalValue c (bindArgs o.args args) it.ty a.value = .val x ∧
      st'.internal = .struct vals' ∧ updFld m (fun _ => .ok x) vals = .ok vals' ∧ st'.errors = st.errors := by
  obtain ⟨hasg, hpath, hmeth, hnc, hid, hne, hix, hroot⟩ := hd
  unfold applyOption at h
  split at h
  · simp at h
  · rw [hasg] at h
    obtain ⟨st2, h3, h4⟩ := (applyAssignments_cons_val (allVal_bindArgs o.args _ hb)).mp h
    simp [applyAssignments] at h4
    subst h4
    have hl : lastTy a.path = it.ty := by simp [hpath, lastTy]
    unfold applyAssignment at h3
    rw [hnc] at h3
    simp only [nilChecks] at h3
    rw [hl] at h3
    cases hev : evalValue c (bindArgs o.args args) it.ty a.value with
    | val x =>
      rw [hev] at h3
      simp only at h3
      have hs : lvalue (bindArgs o.args args) a.path = .ok [.fld m] := by
        simp [hpath, lvalue, stepsOf, hroot, hix, hid, hne, BRes.bind, BRes.map]
      rw [hs] at h3
      simp only [BRes.bind, hint, upd, hmeth] at h3
      have hg : ∀ old, assignOp "direct" x old = BRes.ok x := by intro old; simp [assignOp]
      simp only [hg] at h3
      cases hu : updFld m (fun _ => BRes.ok x) vals with
      | ok vals' =>
        rw [hu] at h3
        simp [BRes.map, BRes.bind] at h3
        subst h3
        exact ⟨x, vals', rfl, rfl, hu, rfl⟩
      | panic w => rw [hu] at h3; simp [BRes.map, BRes.bind] at h3
      | unsup w => rw [hu] at h3; simp [BRes.map, BRes.bind] at h3
      | fuel => rw [hu] at h3; simp [BRes.map, BRes.bind] at h3
    | stop => rw [hev] at h3; simp at h3
    | panic w => rw [hev] at h3; simp at h3
    | unsup w => rw [hev] at h3; simp at h3

/-- **C09, valid never fails (Go).**  Schemas without constraints behind aliases (C08's decidable
    hypothesis); a direct option of a builder for a struct object; the stored value violates no
    constraint of the member's type.  Then every error `Build()` returns after the call was
    already returned before it: the call adds no failure, and a builder that built keeps building. -/
theorem C09_valid_never_fails_partial (c : Ctx) (b : Builder) (o : Opt) (a : Assignment) (it : PathItem)
    (m : String) (hs : noConstrainedAlias c.ss = true) (hd : IsDirectOption o a it m)
    (args : List RArg) (hb : ArgsBuilt args) (st st' : BState) (vals : Fields) (hint : st.internal = .struct vals)
    (ob : Obj) (fs : List Field) (g : List Ty) (gi : Option (String × DisjInfo)) (mt : Meta)
    (hl : Schemas.locateObject c.ss b.for_.selfPkg b.for_.selfName = some ob) (hty : ob.ty = .struct fs g gi mt)
    (h : applyOption c o args st = .ok st')
    (hvalid : ∀ x, evalValue c (bindArgs o.args args) it.ty a.value = .val x →
      ∀ fd ∈ fs, fd.name = m → violations 63 c.ss fd.ty x = .ok [])
    (lc lc' ls : List Viol)
    (hv : goValidate 64 c.ss b.for_.selfPkg b.for_.selfName st.internal = .ok lc)
    (hv' : goValidate 64 c.ss b.for_.selfPkg b.for_.selfName st'.internal = .ok lc')
    (hsp : violations 64 c.ss (.ref b.for_.selfPkg b.for_.selfName {}) st.internal = .ok ls) :
    (∀ e ∈ lc', e ∈ lc) ∧ (build c b st = .ok (.ok st.internal) → build c b st' = .ok (.ok st'.internal)) := by
  obtain ⟨x, vals', hx, hint', hupd, _⟩ := directOption_step c o a it m hd args hb st st' vals hint h
  have e1 := C08_validate_eq_partial c.ss hs 64 _ _ _ lc ls hv hsp
  rw [hint, violations_struct_obj c.ss 63 _ _ ob fs g gi mt vals hl hty] at hsp
  obtain ⟨l', h5, h6⟩ := specFields_setVal_valid (m := m) (x := x) hsp (hvalid x hx)
  have hsp' : violations 64 c.ss (.ref b.for_.selfPkg b.for_.selfName {}) st'.internal = .ok l' := by
    rw [hint', violations_struct_obj c.ss 63 _ _ ob fs g gi mt vals' hl hty, proj_updFld hupd]
    exact h5
  have e2 := C08_validate_eq_partial c.ss hs 64 _ _ _ lc' l' hv' hsp'
  subst e1 e2
  refine ⟨h6, fun hb0 => ?_⟩
  cases lc with
  | nil =>
    cases lc' with
    | nil => exact build_ok_of_validate hv'
    | cons e es => exact absurd (h6 e (by simp)) (by simp)
  | cons e es => rw [build_error_of_validate hv] at hb0; simp at hb0

/-- **C09, invalid reported (Go).**  Same setting; the stored value violates a constraint `e` of
    the member's type.  Then `Build()` fails and its error list names the member's path. -/
theorem C09_invalid_reported_partial (c : Ctx) (b : Builder) (o : Opt) (a : Assignment) (it : PathItem)
    (m : String) (hs : noConstrainedAlias c.ss = true) (hd : IsDirectOption o a it m)
    (args : List RArg) (hb : ArgsBuilt args) (st st' : BState) (vals : Fields) (hint : st.internal = .struct vals)
    (ob : Obj) (fs : List Field) (g : List Ty) (gi : Option (String × DisjInfo)) (mt : Meta)
    (hl : Schemas.locateObject c.ss b.for_.selfPkg b.for_.selfName = some ob) (hty : ob.ty = .struct fs g gi mt)
    (h : applyOption c o args st = .ok st') (e : Viol) (es : List Viol)
    (hinvalid : ∀ x, evalValue c (bindArgs o.args args) it.ty a.value = .val x →
      ∀ fd ∈ fs, fd.name = m → violations 63 c.ss fd.ty x = .ok (e :: es))
    (lc' ls' : List Viol)
    (hv' : goValidate 64 c.ss b.for_.selfPkg b.for_.selfName st'.internal = .ok lc')
    (hsp' : violations 64 c.ss (.ref b.for_.selfPkg b.for_.selfName {}) st'.internal = .ok ls') :
    Viol.pre (.fld m) e ∈ lc' ∧ ∃ vs, build c b st' = .ok (.error vs) := by
  obtain ⟨x, vals', hx, hint', hupd, _⟩ := directOption_step c o a it m hd args hb st st' vals hint h
  have e2 := C08_validate_eq_partial c.ss hs 64 _ _ _ lc' ls' hv' hsp'
  subst e2
  rw [hint', violations_struct_obj c.ss 63 _ _ ob fs g gi mt vals' hl hty] at hsp'
  obtain ⟨old, y, _, hy, hget⟩ := getFld_updFld_same hupd
  simp at hy; subst hy
  have hmem := specFields_member (m := m) (x := x) hsp' (by rw [getBr_proj]; exact hget)
    (hinvalid x hx) e (by simp)
  refine ⟨hmem, ?_⟩
  cases lc' with
  | nil => simp at hmem
  | cons e' es' => exact ⟨_, build_error_of_validate hv'⟩


/-! ## the full statement, and why it is false on the current tree -/

/-- the reporting half of the property at full strength (Go): an option call never panics; if it
    returns, a failing nested builder is reported by `Build()`, and so is a stored value that
    violates a constraint of its target member's type (violations as C08 specifies them, looking
    through aliases) -/
def C09_full : Prop :=
  ∀ (c : Ctx) (b : Builder) (o : Opt), o ∈ b.options → ∀ (args : List RArg) (st : BState),
    (∀ w, applyOption c o args st ≠ .panic w) ∧
    ∀ st', applyOption c o args st = .ok st' →
      ((∃ r ∈ args, ∃ be, r = RArg.failed be) → ∃ vs, build c b st' = .ok (.error vs)) ∧
      (∀ a ∈ o.assignments, ∀ x, evalValue c (bindArgs o.args args) (lastTy a.path) a.value = .val x →
        (∃ e es, violations 63 c.ss (lastTy a.path) x = .ok (e :: es)) →
        ∃ vs, build c b st' = .ok (.error vs))

private def obj (name : String) (t : Ty) : String × Obj :=
  (name, { name := name, ty := t, selfPkg := "p", selfName := name })

private def fld (name : String) (t : Ty) (req : Bool := true) : Field := { name := name, ty := t, required := req }

private def fieldOption (name : String) (t : Ty) : Opt :=
  { name := name, args := [{ name := name, ty := t }],
    assignments := [{ path := [{ identifier := name, ty := t }], value := .arg ⟨0, { name := name, ty := t }⟩ }] }

/-- `Outer { inner?: Inner }`, `Inner { name: string (minLength 1) }` -/
def wNestedSS : Schemas := [{ pkg := "p", objects := [
  obj "Inner" (.struct [fld "name" (.scalar "string" .nil [⟨"minLength", [.int "i64" 1]⟩] {})] [] none {}),
  obj "Outer" (.struct [fld "inner" (.ref "p" "Inner" { nullable := true }) false] [] none {})] }]

def wNestedOpt : Opt := fieldOption "inner" (.ref "p" "Inner" { nullable := true })

def wNestedB : Builder :=
  { for_ := { name := "Outer", ty := .struct [fld "inner" (.ref "p" "Inner" { nullable := true }) false] [] none {},
              selfPkg := "p", selfName := "Outer" },
    pkg := "p", name := "Outer", options := [wNestedOpt] }

def wNestedCtx : Ctx :=
  { ss := wNestedSS, bs := [wNestedB],
    dflt := [(("p", "Outer"), .struct [("inner", true, .nil)]), (("p", "Inner"), .struct [("name", false, .str "")])] }

def wNestedSt0 : BState := { internal := .struct [("inner", true, .nil)] }

/-- the nested builder failed, the option recorded it in `builder.errors` … -/
theorem wNested_call : applyOption wNestedCtx wNestedOpt [.failed true] wNestedSt0 =
    .ok { internal := .struct [("inner", true, .nil)], errors := ["inner"] } := by rfl

/-- … and `Build()` succeeds all the same -/
theorem wNested_build : build wNestedCtx wNestedB { internal := .struct [("inner", true, .nil)], errors := ["inner"] } =
    .ok (.ok (.struct [("inner", true, .nil)])) := by rfl

/-- **counterexample 1**: `Build()` never reads `builder.errors`; a failing nested builder is
    silently dropped (replayed on the real generated code by the pinned corpus of the check) -/
theorem C09_counterexample_nested_failure_dropped : ¬ C09_full := by
  intro h
  have h1 := (h wNestedCtx wNestedB wNestedOpt (by simp [wNestedB]) [.failed true] wNestedSt0).2 _ wNested_call
  obtain ⟨vs, hvs⟩ := h1.1 ⟨_, by simp, true, rfl⟩
  rw [wNested_build] at hvs
  simp at hvs

/-- **counterexample 2**: the error of a failing nested builder is stored with the unchecked
    type assertion `err.(cog.BuildErrors)`; a `cog.Builder[T]` that is not generated code may return
    any error, and the option call panics -/
theorem C09_counterexample_foreign_error_panics : ¬ C09_full := by
  intro h
  have h1 := (h wNestedCtx wNestedB wNestedOpt (by simp [wNestedB]) [.failed false] wNestedSt0).1
  exact h1 "interface conversion: error is not cog.BuildErrors" (by rfl)

/-- `Root { port: Port }`, `Port = integer 1..10` (a named scalar) -/
def wAliasSS : Schemas := [{ pkg := "p", objects := [
  obj "Port" (.scalar "int64" .nil [⟨">=", [.int "i64" 1]⟩, ⟨"<=", [.int "i64" 10]⟩] {}),
  obj "Root" (.struct [fld "port" (.ref "p" "Port" {})] [] none {})] }]

def wAliasOpt : Opt := fieldOption "port" (.ref "p" "Port" {})

def wAliasB : Builder :=
  { for_ := { name := "Root", ty := .struct [fld "port" (.ref "p" "Port" {})] [] none {}, selfPkg := "p", selfName := "Root" },
    pkg := "p", name := "Root", options := [wAliasOpt] }

def wAliasCtx : Ctx := { ss := wAliasSS, bs := [wAliasB], dflt := [(("p", "Root"), .struct [("port", false, .int 0)])] }

theorem wAlias_call : applyOption wAliasCtx wAliasOpt [.val (.int 99)] { internal := .struct [("port", false, .int 0)] } =
    .ok { internal := .struct [("port", false, .int 99)] } := by rfl

theorem wAlias_build : build wAliasCtx wAliasB { internal := .struct [("port", false, .int 99)] } =
    .ok (.ok (.struct [("port", false, .int 99)])) := by rfl

theorem wAlias_violates : ∃ e es, violations 63 wAliasSS (.ref "p" "Port" {}) (.int 99) = .ok (e :: es) :=
  ⟨_, _, rfl⟩

/-- **counterexample 3**: Go builders never emit `Assignment.Constraints`; they rely on
    `Validate()`, which does not look behind a reference to a named scalar (C08's finding): 99 for
    `Port = 1..10` is stored and `Build()` succeeds -/
theorem C09_counterexample_aliased_scalar : ¬ C09_full := by
  intro h
  have h1 := (h wAliasCtx wAliasB wAliasOpt (by simp [wAliasB]) [.val (.int 99)]
    { internal := .struct [("port", false, .int 0)] }).2 _ wAlias_call
  obtain ⟨vs, hvs⟩ := h1.2
    { path := [{ identifier := "port", ty := .ref "p" "Port" {} }],
      value := .arg ⟨0, { name := "port", ty := .ref "p" "Port" {} }⟩ }
    (by simp [wAliasOpt, fieldOption]) (.int 99) (by rfl) wAlias_violates
  rw [wAlias_build] at hvs
  simp at hvs

/-! ## non-vacuity: instances of the partial theorems with all hypotheses discharged -/

/-- `Root { name: string (minLength 2), n: int64 }` -/
def wPlainSS : Schemas := [{ pkg := "p", objects := [
  obj "Root" (.struct [fld "name" (.scalar "string" .nil [⟨"minLength", [.int "i64" 2]⟩] {}),
                       fld "n" (.scalar "int64" .nil [] {})] [] none {})] }]

def wPlainOpt : Opt := fieldOption "name" (.scalar "string" .nil [⟨"minLength", [.int "i64" 2]⟩] {})

def wPlainB : Builder :=
  { for_ := { name := "Root", ty := .struct [fld "name" (.scalar "string" .nil [⟨"minLength", [.int "i64" 2]⟩] {}),
                                            fld "n" (.scalar "int64" .nil [] {})] [] none {}, selfPkg := "p", selfName := "Root" },
    pkg := "p", name := "Root", options := [wPlainOpt] }

def wPlainCtx : Ctx :=
  { ss := wPlainSS, bs := [wPlainB], dflt := [(("p", "Root"), .struct [("name", false, .str ""), ("n", false, .int 7)])] }

def wPlainSt0 : BState := { internal := .struct [("name", false, .str ""), ("n", false, .int 7)] }

example : applyOption wPlainCtx wPlainOpt [.val (.str "ab")] wPlainSt0 =
    .ok { internal := .struct [("name", false, .str "ab"), ("n", false, .int 7)] } := by rfl

/-- frame + value on a concrete call: `n` is untouched, `name` holds the argument -/
example : topGet "n" (GoVal.struct [("name", false, .str "ab"), ("n", false, .int 7)]) = topGet "n" wPlainSt0.internal :=
  (C09_sets_exactly_partial wPlainCtx wPlainOpt [.val (.str "ab")] wPlainSt0 _ (by rfl)).1 "n" (by rfl)

/-- the invalid argument "a" (minLength 2) is reported, with the member's path -/
example : ∃ vs, build wPlainCtx wPlainB { internal := .struct [("name", false, .str "a"), ("n", false, .int 7)] } = .ok (.error vs) :=
  (C09_invalid_reported_partial wPlainCtx wPlainB wPlainOpt _ _ "name" (by rfl)
    ⟨rfl, rfl, rfl, rfl, rfl, by decide, rfl, rfl⟩ [.val (.str "a")] (by intro r hr; simp at hr; exact ⟨_, hr⟩)
    wPlainSt0 _ _ rfl _ _ _ _ _ rfl rfl (by rfl)
    { path := [], op := ">=", cons := "minLength", bound := 8 } []
    (by
      intro x hx fd hfd hname
      have : x = .str "a" := by
        have h0 : evalValue wPlainCtx (bindArgs wPlainOpt.args [.val (.str "a")])
            (PathItem.ty { identifier := "name", ty := .scalar "string" .nil [⟨"minLength", [.int "i64" 2]⟩] {} })
            (AValue.arg ⟨0, { name := "name", ty := .scalar "string" .nil [⟨"minLength", [.int "i64" 2]⟩] {} }⟩)
            = .val (.str "a") := by rfl
        rw [h0] at hx; simp at hx; exact hx.symm
      subst this
      simp at hfd
      rcases hfd with rfl | rfl
      · rfl
      · simp [fld] at hname)
    _ _ (by rfl) (by rfl)).2

end Cog.Sem.GB

/-! # Python

  The Python templates check the constraints the builder IR attaches to an assignment at the
  option call (`raise ValueError`); `build()` returns `self._internal` without validating; a
  nested builder cannot fail at `build()`: what fails is the evaluation of the argument
  expression, before the outer option is entered. -/
namespace Cog.Sem.PB
open Cog.IR Cog.Builder

/-- **C09 (Python), `build()` never fails and validates nothing** -/
theorem C09_py_build_total (st : PState) : build st = st.internal := rfl

/-- **C09 (Python), a failing nested builder is reported by the option call**: when the
    evaluation of an argument raised, the call raises that exception and no assignment runs
    (arguments are evaluated left to right: the first one that raised) -/
theorem C09_py_failing_nested_reported (c : Ctx) (o : Opt) (st : PState) :
    ∀ (params : List Argument) (before : List PyVal) (exc : String) (after : List RArg),
      o.args = params → params.length = before.length + 1 + after.length →
      applyOption c o (before.map RArg.val ++ RArg.raised exc :: after) st = .raise exc := by
  intro params before exc after hargs hlen
  unfold applyOption
  rw [hargs]
  have : ∀ (ps : List Argument) (bs : List PyVal), ps.length = bs.length + 1 + after.length →
      bindArgs ps (bs.map RArg.val ++ RArg.raised exc :: after) = .raise exc := by
    intro ps bs
    induction bs generalizing ps with
    | nil =>
      intro h
      cases ps with
      | nil => simp at h; omega
      | cons p ps => simp [bindArgs]
    | cons b bs ih =>
      intro h
      cases ps with
      | nil => simp at h; omega
      | cons p ps =>
        simp only [List.map_cons, List.cons_append, bindArgs]
        rw [ih ps (by simp at h ⊢; omega)]
        rfl
  rw [this params before hlen]
  rfl

/-- **C09 (Python), invalid reported**: if the first assignment of the option carries evaluable
    constraints one of which the bound argument violates, the option call raises `ValueError`
    (before anything is assigned) -/
theorem C09_py_invalid_reported_partial (c : Ctx) (o : Opt) (args : List RArg) (st : PState) (env : Env)
    (a : Assignment) (rest : List Assignment) (hbind : bindArgs o.args args = .ok env)
    (hasg : o.assignments = a :: rest) (hev : ∀ k ∈ a.constraints, Evaluable env k)
    (hviol : ∃ k ∈ a.constraints, Violated env k) :
    applyOption c o args st = .raise "ValueError" := by
  unfold applyOption
  rw [hbind, hasg]
  simp only [PRes.bind, applyAssignments, applyAssignment, checkConstraints_violated env a.constraints hev hviol]

/-- an option that assigns one value directly to the attribute `m` (Python) -/
def IsDirectOption (o : Opt) (a : Assignment) (it : PathItem) (m : String) : Prop :=
  o.assignments = [a] ∧ a.path = [it] ∧ a.method = "direct" ∧ a.nilChecks = [] ∧
  it.identifier = m ∧ m ≠ "" ∧ it.index = none ∧ it.root = false

/-- **C09 (Python), valid never fails + sets exactly**: a direct option whose constraints the
    bound argument satisfies, called on an object that has the attribute, returns; the attribute
    holds the evaluated value and every other attribute is unchanged -/
theorem C09_py_valid_never_fails_partial (c : Ctx) (o : Opt) (a : Assignment) (it : PathItem) (m : String)
    (hd : IsDirectOption o a it m) (args : List RArg) (env : Env) (hbind : bindArgs o.args args = .ok env)
    (hsat : ∀ k ∈ a.constraints, Evaluable env k ∧ ¬ Violated env k)
    (x : PyVal) (hval : evalValue c env a.value = .ok x)
    (attrs : Attrs) (old : PyVal) (hattr : getAttr m attrs = some old) :
    ∃ attrs', applyOption c o args { internal := .obj attrs } = .ok { internal := .obj attrs' } ∧
      getAttr m attrs' = some x ∧ ∀ n, n ≠ m → getAttr n attrs' = getAttr n attrs := by
  obtain ⟨hasg, hpath, hmeth, hnc, hid, hne, hix, hroot⟩ := hd
  obtain ⟨attrs', hupd⟩ := updAttr_present (x := x) hattr
  obtain ⟨h1, h2⟩ := getAttr_updAttr_same hupd
  refine ⟨attrs', ?_, h1, h2⟩
  unfold applyOption
  rw [hbind, hasg]
  have hs : lvalue env a.path = .ok [.attr m] := by
    simp [hpath, lvalue, stepsOf, hroot, hix, hid, hne, PRes.bind, PRes.map]
  have hg : ∀ old', assignOp "direct" x old' = PRes.ok x := by intro o'; simp [assignOp]
  simp only [PRes.bind, applyAssignments, applyAssignment, checkConstraints_satisfied env a.constraints hsat,
    hnc, nilChecks, hval, hs, upd, hmeth, hg, hupd, PRes.map]

end Cog.Sem.PB

