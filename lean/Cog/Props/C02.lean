/-
  Property C02 — a successful run only emits well-formed code; unsupported constructs are errors.

  WHAT IS UNDER A THEOREM HERE.  Only the part of the Go output that cog prints FROM GO CODE
  (internal/jennies/golang/{types,rawtypes,tools}.go): type declarations, struct fields and tags, enum
  const blocks, `New…` constructors with their default literals.  `emitDecls cfg S` (Cog/Sem/GoDecl.lean)
  is a literal transcription of those printers into an abstract syntax, `wellTyped` (Cog/Sem/GoDeclCheck.lean)
  a type checker for that fragment.  Model and code are tied on every run by the stream `c02-lab`:
  the model's rendering must equal, character for character after removing white space, the
  declarations cog really wrote, and the checker's verdict must equal the Go compiler's verdict on
  exactly those declarations compiled on their own.

  WHAT IS NOT UNDER ANY THEOREM.  Everything rendered by text/template: all Go methods (MarshalJSON,
  UnmarshalJSON, UnmarshalJSONStrict, Equals, Validate), the import block, builders, converters, the
  runtime, and ALL of Python, Java, PHP, TypeScript, JSON Schema, OpenAPI.  Whether that text compiles
  is a fact about external compilers on strings; it is decided by exploration in the labs (go build
  under flag combinations, python import, javac against stubs, byte scan for placeholders) and reported
  as such in the evidence (level: partial).

  The FULL statement for the modelled fragment (`C02_full`) is FALSE on the current tree: each
  `C02_counterexample_*` refutes it on a small IR evaluated by the kernel; the same inputs are replayed
  on the real pipeline + Go compiler by the stream `c02-known` (lab ids KB02, KB03, KB04, KB08, KB13, KB17).
  `C02_go_decls_partial` is what holds: under decidable hypotheses on the IR the emitted declarations
  are accepted, for every configuration.
-/
import Cog.Sem.GoDeclLemmas8
import Cog.Sem.GoDeclPlaceholder
import Cog.Sem.PyDeclLemmas4
namespace Cog.C02
open Cog.IR Cog.Sem.GoDecl

/-! ## the full statement (declaration fragment) -/

/-- whenever the declaration printers finish, what they printed type-checks: for ALL IRs (accepted
    schemas after the Go pass chain and directly constructed IRs alike) and ALL configurations -/
def C02_full : Prop := ∀ (cfg : Cfg) (S : Schemas) (env : Env), emitDecls cfg S = .ok env → wellTyped env = true

/-- the stronger reading of the second sentence of the property: a construct Go cannot express surfaces
    as an error of the run -/
def C02_errors_full : Prop := ∀ (cfg : Cfg) (S : Schemas), placeholderShape S = true → ∃ msg, emitDecls cfg S = .err msg

/-! ## the proved part -/

/-- PARTIAL (declarations).  For every configuration of the Go output options: if the IR is in the part
    of Go's normal form the printers are total on (`GoPrintable`: known scalar kinds, references resolving
    to type-declaring objects, no alias cycle behind a field, defaults whose dynamic Go value is
    representable in the field's type, finitely nested struct defaults) and identifiers are valid and
    unique after formatObjectName / formatFieldName / CleanupNames (`wfNames`), then the printers finish
    and every declaration — types, struct fields, enum constants, constructor literals — is accepted by the
    checker: referenced names are declared, literals are assignable, identifiers are valid and unique,
    and no placeholder occurs.  By structural induction over objects, fields and types, and induction on
    the nesting depth of struct defaults. -/
theorem C02_go_decls_partial (cfg : Cfg) (S : Schemas) (hnf : GoPrintable S = true) (hnames : wfNames S = true) :
    ∃ env, emitDecls cfg S = .ok env ∧ wellTyped env = true :=
  ⟨emitEnv cfg S, emitDecls_ok_of_wellTyped cfg S (wellTyped_emitEnv cfg S hnf hnames), wellTyped_emitEnv cfg S hnf hnames⟩

/-- the same, spelled out over the finite product of the options (only `any_as_interface` reaches the
    declaration printers; the other five select template-rendered methods) -/
theorem C02_go_decls_partial_all_flags (S : Schemas) (hnf : GoPrintable S = true) (hnames : wfNames S = true)
    (b1 b2 b3 b4 b5 b6 : Bool) :
    wellTyped (emitEnv (Cfg.mk b1 b2 b3 b4 b5 b6) S) = true := by
  cases b1 <;> cases b2 <;> cases b3 <;> cases b4 <;> cases b5 <;> cases b6 <;>
    exact wellTyped_emitEnv _ S hnf hnames

/-- an accepted output contains none of cog's placeholders -/
theorem C02_welltyped_no_placeholder (cfg : Cfg) (S : Schemas) (hnf : GoPrintable S = true) (hnames : wfNames S = true) :
    placeholderShape S = false := by
  have hw := wellTyped_emitEnv cfg S hnf hnames
  cases hp : placeholderShape S with
  | false => rfl
  | true =>
    exfalso
    have hne := (placeholder_iff cfg S).mpr hp
    -- a placeholder makes some declaration fail the checker: contradiction with `hw`
    exact absurd hw (by
      have : ∀ env : Env, envPlaceholders env ≠ [] → wellTyped env ≠ true := by
        intro env hne hwt
        exact hne (noPlaceholder_of_wellTyped env hwt)
      exact this _ hne)

/-- PLACEHOLDERS.  The emitted declarations contain one of `unknown`, `unhandled type def kind: …`,
    `unsupported default value case: …` exactly when the IR has a construct of a listed shape
    (`placeholderShape`, Cog/Sem/GoDeclPlaceholder.lean: an object of kind constant_ref / disjunction /
    composable_slot / unknown; an enum, disjunction or unknown kind at a printed type position, or as the
    type hint of the pointer helper and of empty slice / map literals; a field needing an explicit default
    for which `defaultsForStruct` has no case) — for every IR, no hypotheses. -/
theorem C02_placeholder_iff (cfg : Cfg) (S : Schemas) :
    envPlaceholders (emitEnv cfg S) ≠ [] ↔ placeholderShape S = true :=
  placeholder_iff cfg S

/-- the declaration printers have no error path at all: an inexpressible construct can only become a
    placeholder (or a panic); `C02_errors_full` is therefore false as soon as one listed shape exists -/
theorem C02_decl_printers_never_err (cfg : Cfg) (S : Schemas) (msg : String) : emitDecls cfg S ≠ .err msg := by
  unfold emitDecls; split <;> simp

/-! ## counterexamples to the full statement (post-chain IR of the lab's known-bad inputs) -/

namespace W
def str : Ty := .scalar "string" .nil [] {}
def bool : Ty := .scalar "bool" .nil [] {}
def i64 : Ty := .scalar "int64" .nil [] {}
def obj (name : String) (t : Ty) : String × Obj := (name, { name := name, ty := t, selfPkg := "p", selfName := name })
def schemas (objs : List (String × Obj)) : Schemas := [{ pkg := "p", objects := objs }]
def fld (n : String) (t : Ty) (req : Bool) : Field := { name := n, ty := t, required := req }
def struct (fs : List Field) : Ty := .struct fs [] none {}

/-- KB02: `a?: [...int64] | *[1, 2]` → `A: []string{1, 2}` -/
def kb02 : Schemas := schemas [obj "Root" (struct [fld "a" (.array i64 { nullable := true, dflt := .list [.int "i64" 1, .int "i64" 2] }) false])]
/-- KB03: integer enum `1, -1`: both members are named `RootA1` -/
def kb03 : Schemas := schemas [obj "Root" (struct [fld "a" (.ref "p" "RootA" {}) true]),
  obj "RootA" (.enum [{ name := "RootA1", value := .float "f64" "1", kind := "int64" }, { name := "RootA1", value := .float "f64" "-1", kind := "int64" }] {})]
/-- KB04: `#E: "b"` is a constant; `[...#E]` prints `[]E` -/
def kb04 : Schemas := schemas [obj "Root" (struct [fld "a" (.ref "p" "E" { nullable := true }) false,
    fld "b" (.array (.ref "p" "E" {}) { nullable := true }) false]),
  obj "E" (.scalar "string" (.str "b") [] {})]
/-- KB08: struct default overriding an enum-typed member: the pointer helper's type hint is `unknown` -/
def kb08 : Schemas := schemas [obj "Root" (struct [fld "a" (.ref "p" "S" { nullable := true, dflt := .map [("e", .str "y")] }) false]),
  obj "S" (struct [fld "e" (.ref "p" "SE" { nullable := true }) false, fld "p" (.scalar "bool" .nil [] { nullable := true }) false]),
  obj "SE" (.enum [{ name := "SEX", value := .str "x", kind := "string" }, { name := "SEY", value := .str "y", kind := "string" }] {})]
/-- KB13: OpenAPI integer default -2^63 arrives as float64 and is printed in exponent form -/
def kb13 : Schemas := schemas [obj "Root" (struct [fld "a" (.scalar "int64" .nil [] { nullable := true, dflt := .float "f64" "-9.223372036854776e+18" }) false])]
/-- KB17: `foo_bar` and `fooBar` both become the Go field `FooBar` -/
def kb17 : Schemas := schemas [obj "Root" (struct [fld "foo_bar" bool true, fld "fooBar" bool true])]
/-- a shape the printers are total on: scalar, enum and nested struct defaults, required collections, an alias -/
def good : Schemas := schemas [
  obj "Root" (struct [fld "name" (.scalar "string" .nil [] { dflt := .str "x" }) true,
    fld "count" (.scalar "int64" .nil [] { nullable := true, dflt := .float "f64" "1e+06" }) false,
    fld "tags" (.array str { dflt := .list [.str "a", .str "b"] }) true,
    fld "labels" (.map str str {}) true,
    fld "mode" (.ref "p" "Mode" { nullable := true, dflt := .str "b" }) false,
    fld "opts" (.ref "p" "Opts" { dflt := .map [("depth", .int "i64" 3)] }) true,
    fld "more" (.ref "p" "OptsAlias" {}) true]),
  obj "Mode" (.enum [{ name := "ModeA", value := .str "a", kind := "string" }, { name := "ModeB", value := .str "b", kind := "string" }] {}),
  obj "Opts" (struct [fld "depth" (.scalar "int64" .nil [] { dflt := .int "i64" 1 }) true, fld "on" bool true]),
  obj "OptsAlias" (.ref "p" "Opts" {}),
  obj "Version" (.scalar "string" (.str "v1") [] {})]
end W

/-- how a witness refutes the full statement: the printers finish and the checker rejects the output -/
def refutes (S : Schemas) : Bool :=
  match emitDecls {} S with
  | .ok env => !wellTyped env
  | _ => false

theorem refutes_sound {S : Schemas} (h : refutes S = true) : ¬ C02_full := by
  intro hall
  unfold refutes at h
  cases he : emitDecls {} S with
  | ok env => rw [he] at h; simp [hall {} S env he] at h
  | err e => rw [he] at h; cases h
  | panic e => rw [he] at h; cases h

/-- KB02: a list default of numbers is printed as `[]string{1, 2}` -/
theorem C02_counterexample_list_default_of_ints : ¬ C02_full := refutes_sound (S := W.kb02) (by decide +kernel)
/-- KB03: enum members `1` and `-1` collide (`RootA1` twice) -/
theorem C02_counterexample_enum_member_collision : refutes W.kb03 = true := by decide +kernel
/-- KB04: a reference to a constant object in an array position (`[]E`, `E is not a type`) -/
theorem C02_counterexample_ref_to_constant : refutes W.kb04 = true := by decide +kernel
/-- KB08: struct default overriding an enum member prints the type `unknown` -/
theorem C02_counterexample_unknown_type_hint : refutes W.kb08 = true := by decide +kernel
/-- KB13: `-9.223372036854776e+18` is not representable in int64 -/
theorem C02_counterexample_exponent_literal : refutes W.kb13 = true := by decide +kernel
/-- KB17: `foo_bar` + `fooBar` → duplicate field `FooBar` -/
theorem C02_counterexample_field_collision : refutes W.kb17 = true := by decide +kernel

/-- KB08 is also a placeholder in a successful run: `C02_errors_full` is false -/
theorem C02_errors_counterexample : ¬ C02_errors_full := by
  intro hall
  obtain ⟨msg, hm⟩ := hall {} W.kb08 (by decide +kernel)
  exact C02_decl_printers_never_err {} W.kb08 msg hm

/-- the hypotheses say which witness is excluded by what -/
example : GoPrintable W.kb02 = false ∧ GoPrintable W.kb04 = false ∧ GoPrintable W.kb08 = false ∧ GoPrintable W.kb13 = false
    ∧ wfNames W.kb03 = false ∧ GoPrintable W.kb17 = false := by decide +kernel

/-- non-vacuity of `C02_go_decls_partial`: a schema with defaults of every supported shape satisfies the
    hypotheses (and, by the theorem, is accepted; evaluated here as well) -/
example : GoPrintable W.good = true ∧ wfNames W.good = true ∧ wellTyped (emitEnv {} W.good) = true ∧ placeholderShape W.good = false := by
  decide +kernel

end Cog.C02

/-! ## Python: the class-declaration fragment

  What internal/jennies/python/{rawtypes,types,tools,imports}.go print from Go code for `models/<pkg>.py`:
  the import block, `class X:` / `class X(enum.StrEnum):`, docstrings and comments, annotated members, enum
  members, module-level aliases (`X: typing.TypeAlias = …`) and constants, and `__init__` (signature with
  annotations and `= default`, the assignments).  `pyDeclRender` (Cog/Sem/PyDecl.lean) transcribes those
  printers into an abstract syntax, `renderModule` prints it, `pyDeclCheck` (Cog/Sem/PyDeclCheck.lean) is a
  decidable well-formedness checker that follows what CPython does when it compiles and imports such a module.
  Tie (stream `c02-pydecl`, every run): with the marshaller off the emitted file IS that fragment; the model's
  text must equal it byte for byte and the checker's verdict must equal CPython's (compile + fresh import).
  `xstrings.ToSnakeCase` is a parameter (`Cfg.snake`): the theorem holds for every such function.
  `to_json` / `from_json` and the custom template blocks are not in the fragment.
-/
namespace Cog.C02
open Cog.IR Cog.Sem.PyDecl

/-- PROVED, for every schema set, every schema in it and every snake-case function: in the normal form the
    Python printers handle (`PyPrintable`) and with identifiers valid and unique after cog's own escaping
    (`wfNamesPy`), the printers finish and the fragment checker accepts the module: identifiers in binding
    position, distinct parameters, every annotation / default / alias right-hand side evaluates at import
    time (builtins, `typing` / `enum` attributes, quoted forward references, names declared by existing
    sibling modules that the import block binds), enum members fit their `StrEnum` / `IntEnum`, literals are
    Python literals, no placeholder, a body after every `def`. -/
theorem C02_py_declarations_wellformed_partial (cfg : Cfg) (ss : Schemas) (s : Schema) :
    PyPrintable cfg ss s = true → wfNamesPy cfg s = true →
    ∃ m, pyDeclRender cfg ss s = .ok m ∧ pyDeclCheck ss m = true :=
  pyDecl_wellformed cfg ss s

/-- the type formatter alone, by structural induction over `Ty`: every printable type is formatted to an
    annotation that evaluates at import time -/
theorem C02_py_annotations_evaluate (ss : Schemas) (cur : String) (hc : cur ≠ "typing") (t : Ty) :
    tyOk ss cur t = true → evalOk ss (fmtTy ss cur t) = true :=
  evalOk_fmtTy ss cur hc t

/-- the import block computed by the model binds every alias the declarations use -/
theorem C02_py_imports_cover (ss : Schemas) (pkg : String) (ds : List PyDecl)
    (h : ∀ a ∈ declsAliases ds, aliasOk ss a = true) :
    importsCover { pkg := pkg, imports := importsOf (declsAliases ds) [], decls := ds } = true :=
  (imports_ok ss pkg ds h).2

/-- the full statement: whatever the printers print without failing is well formed -/
def C02_py_full : Prop :=
  ∀ (cfg : Cfg) (ss : Schemas) (s : Schema) (m : PyModule), pyDeclRender cfg ss s = .ok m → pyDeclCheck ss m = true

namespace PyW
def str : Ty := .scalar "string" .nil [] {}
def mkSchema (pkg : String) (os : List Obj) : Schema := { pkg := pkg, objects := os.map fun o => (o.name, o) }
def obj (pkg name : String) (t : Ty) : Obj := { name := name, ty := t, selfPkg := pkg, selfName := name }
def fld (n : String) (t : Ty) (req : Bool := true) : Field := { name := n, ty := t, required := req }

/-- identity as snake-case function: the witnesses below use names that ToSnakeCase leaves alone -/
def idCfg : Cfg := { snake := fun s => s }
/-- ASCII lower-casing: what ToSnakeCase does to a single capitalised word -/
def lowerCfg : Cfg := { snake := fun s => String.ofList (s.toList.map Char.toLower) }

/-- fields `a` and `_a`: formatIdentifier trims the underscore, `__init__` gets the parameter `a` twice -/
def collide : Schema := mkSchema "pinunderscore" [obj "pinunderscore" "T" (.struct [fld "a" str, fld "_a" str] [] none {})]
/-- field `Class`: not a keyword when escapeIdentifier looks, `class` after SnakeCase -/
def keyword : Schema := mkSchema "pinkeyword" [obj "pinkeyword" "T" (.struct [fld "Class" str] [] none {})]
/-- struct without fields: `def __init__(self, ):` without a body -/
def empty : Schema := mkSchema "pinempty" [obj "pinempty" "T" (.struct [] [] none {})]
/-- a healthy module: scalar, self reference (quoted, nullable), list, enum object, alias, constant, union, map -/
def healthy : Schema := mkSchema "pinhealthy" [
  obj "pinhealthy" "T" (.struct [fld "name" str, fld "next_val" (.ref "pinhealthy" "T" { nullable := true }) false,
    fld "tags" (.array str {}), fld "kind" (.ref "pinhealthy" "E" {}),
    fld "u" (.disj [str, .scalar "int64" .nil [] {}] {} {}), fld "m" (.map str (.ref "pinhealthy" "T" {}) {}),
    fld "c" (.scalar "string" (.str "x") [] {})] [] none {}),
  obj "pinhealthy" "E" (.enum [{ name := "A", value := .str "a", kind := "string" }, { name := "B", value := .str "b", kind := "string" }] {}),
  obj "pinhealthy" "Names" (.array str {}),
  obj "pinhealthy" "Version" (.scalar "int64" (.int "i64" 3) [] {})]

def rejected (cfg : Cfg) (s : Schema) : Bool :=
  match pyDeclRender cfg [s] s with
  | .ok m => !pyDeclCheck [s] m
  | _ => false

theorem rejected_sound {cfg : Cfg} {s : Schema} (h : rejected cfg s = true) : ¬ C02_py_full := by
  intro hall
  unfold rejected at h
  cases hr : pyDeclRender cfg [s] s with
  | ok m => rw [hr] at h; have := hall cfg [s] s m hr; simp [this] at h
  | err e => rw [hr] at h; cases h
  | panic p => rw [hr] at h; cases h
end PyW

/-- `a` / `_a`: duplicate argument (replayed on the real code: stream c02-pydecl, pinned `pinunderscore`) -/
theorem C02_py_full_counterexample : ¬ C02_py_full := PyW.rejected_sound (cfg := PyW.idCfg) (s := PyW.collide) (by decide +kernel)
/-- the collision does not depend on the snake-case function: formatIdentifier maps `_a` and `a` to the same text -/
theorem C02_py_trim_collision (cfg : Cfg) : fmtIdent cfg "_a" = fmtIdent cfg "a" := by
  have h1 : trimLeftDU "_a" = "a" := by decide +kernel
  have h2 : trimLeftDU "a" = "a" := by decide +kernel
  simp [fmtIdent, h1, h2]
/-- `Class` → `class`: keyword after snake-casing (pinned `pinkeyword`) -/
theorem C02_py_counterexample_keyword : PyW.rejected PyW.lowerCfg PyW.keyword = true := by decide +kernel
/-- struct without fields: `__init__` without a body (pinned `pinempty`) -/
theorem C02_py_counterexample_empty_struct : PyW.rejected PyW.idCfg PyW.empty = true := by decide +kernel

/-- which hypothesis excludes which witness -/
example : wfNamesPy PyW.idCfg PyW.collide = false ∧ wfNamesPy PyW.lowerCfg PyW.keyword = false
    ∧ PyPrintable PyW.idCfg [PyW.empty] PyW.empty = false := by decide +kernel

/-- non-vacuity of `C02_py_declarations_wellformed_partial`: a module with every supported shape satisfies the
    hypotheses (and is accepted; evaluated here as well) -/
example : PyPrintable PyW.idCfg [PyW.healthy] PyW.healthy = true ∧ wfNamesPy PyW.idCfg PyW.healthy = true
    ∧ PyW.rejected PyW.idCfg PyW.healthy = false := by decide +kernel

end Cog.C02
