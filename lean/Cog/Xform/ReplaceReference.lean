/-
  replace_reference — internal/ast/compiler/replace_reference.go.  `OnRef` hook at every
  visitor position (entry point type included): a reference accepted by `From.MatchesRef`
  (package exact, name EqualFold) is replaced by `ast.NewRef(To.Package, To.Object)` — a FRESH
  type: Nullable, Default and hints of the replaced reference are dropped.
-/
import Cog.Xform.Common
namespace Cog.Xform.ReplaceReference
open Cog.IR Cog.Xform

structure Params where
  from_ : ObjRef
  to : ObjRef
  deriving Repr, Inhabited

def hooks (p : Params) : Hooks :=
  { ref := fun pk n m => if p.from_.matchesRef pk n then .ref p.to.pkg p.to.obj freshMeta else .ref pk n m }

def onObj (p : Params) (o : Obj) : Obj := { o with ty := xfTy (hooks p) o.ty }

def apply (p : Params) (S : Schemas) : Schemas :=
  S.map (visitSchema (xfTy (hooks p)) (fun _ => onObj p))

def fail? (_ : Params) (S : Schemas) : Option Failure :=
  firstFail (visitSchemaFail (walkFail ["ref"]) (fun o => walkFail ["ref"] o.ty)) S

def run (p : Params) (S : Schemas) : Outcome Schemas := mkRun (fail? p S) (apply p S)

end Cog.Xform.ReplaceReference
