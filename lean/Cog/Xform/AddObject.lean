/-
  add_object — internal/ast/compiler/add_object.go.  `OnSchema` hook: every schema whose
  package is the configured one gets `RegisterNewObject(NewObject(pkg, name, As))`; the
  deferred `newSchema.AddObject` is `Objects.Set(name, …)`: an existing object of that name is
  OVERWRITTEN in place (position kept), otherwise the object is appended.
-/
import Cog.Xform.Common
namespace Cog.Xform.AddObject
open Cog.IR Cog.Xform
open Cog.OMap (rset)

structure Params where
  object : ObjRef
  as_ : Ty
  comments : List String
  deriving Inhabited

def newObject (p : Params) : Obj :=
  { name := p.object.obj, comments := p.comments, ty := p.as_, selfPkg := p.object.pkg, selfName := p.object.obj }

def processSchema (p : Params) (s : Schema) : Schema :=
  if s.pkg != p.object.pkg then s
  else { s with objects := rset p.object.obj (newObject p) s.objects }

def apply (p : Params) (S : Schemas) : Schemas := S.map (processSchema p)

def fail? (_ : Params) (_ : Schemas) : Option Failure := none

def run (p : Params) (S : Schemas) : Outcome Schemas := mkRun (fail? p S) (apply p S)

end Cog.Xform.AddObject
