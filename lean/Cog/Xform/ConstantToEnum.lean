/-
  constant_to_enum — internal/ast/compiler/constant_to_enum.go.  A matching object whose type
  is a scalar with a non-nil `Value` and `ScalarKind == string` becomes
  `ast.NewEnum([{Type: String(), Name: v, Value: v}])` (fresh type: Nullable/Default/hints of
  the scalar are dropped); a `string` scalar whose constant is not a string is left alone (fix
  637545e in /repo; before it `Value.(string)` was an unchecked assertion: `runPreFix`).
-/
import Cog.Xform.Common
namespace Cog.Xform.ConstantToEnum
open Cog.IR Cog.Xform

structure Params where
  objects : List ObjRef
  deriving Repr, Inhabited

def isNilVal : Val → Bool | .nil => true | _ => false

def onObj (p : Params) (o : Obj) : Obj :=
  if matchesAny p.objects o then
    match o.ty with
    | .scalar "string" (.str v) _ _ =>
      { o with ty := .enum [{ name := v, value := .str v, kind := "string" }] freshMeta }
    | _ => o
  else o

/-- since fix 637545e in /repo a `string` scalar whose constant is not a string is left alone;
    only a scalar without its kind struct (nil pointer) still panics -/
def objFail (p : Params) (o : Obj) : Option Failure :=
  if matchesAny p.objects o then
    match o.ty with
    | .bad "scalar" _ => some .panic
    | _ => none
  else none

/-- before fix 637545e: `object.Type.Scalar.Value.(string)` was an unchecked assertion -/
def objFailPreFix (p : Params) (o : Obj) : Option Failure :=
  if matchesAny p.objects o then
    match o.ty with
    | .bad "scalar" _ => some .panic
    | .scalar k v _ _ =>
      if isNilVal v || k != "string" then none
      else match v with
        | .str _ => none
        | _ => some .panic
    | _ => none
  else none

def apply (p : Params) (S : Schemas) : Schemas := S.map (visitSchema id (fun _ => onObj p))

def fail? (p : Params) (S : Schemas) : Option Failure :=
  firstFail (visitSchemaFail (walkFail []) (objFail p)) S

def run (p : Params) (S : Schemas) : Outcome Schemas := mkRun (fail? p S) (apply p S)

def failPreFix? (p : Params) (S : Schemas) : Option Failure :=
  firstFail (visitSchemaFail (walkFail []) (objFailPreFix p)) S

/-- `Process` as it was before fix 637545e -/
def runPreFix (p : Params) (S : Schemas) : Outcome Schemas := mkRun (failPreFix? p S) (apply p S)

end Cog.Xform.ConstantToEnum
