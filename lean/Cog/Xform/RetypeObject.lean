/-
  retype_object — internal/ast/compiler/retype_object.go.  Matching objects get `Type = As`
  (the very same value for every matching object) and, when `comments` was given in the YAML
  (non-nil slice, possibly empty), `Comments = pass.Comments`.
-/
import Cog.Xform.Common
namespace Cog.Xform.RetypeObject
open Cog.IR Cog.Xform

structure Params where
  object : ObjRef
  as_ : Ty
  comments : Option (List String)
  deriving Inhabited

def onObj (p : Params) (o : Obj) : Obj :=
  if p.object.matchesObj o then { o with ty := p.as_, comments := p.comments.getD o.comments } else o

def apply (p : Params) (S : Schemas) : Schemas := S.map (visitSchema id (fun _ => onObj p))

/-- the trail message calls `ast.TypeName` on the old and the new type -/
def objFail (p : Params) (o : Obj) : Option Failure :=
  if p.object.matchesObj o && !(typeNameOk o.ty && typeNameOk p.as_) then some .panic else none

def fail? (p : Params) (S : Schemas) : Option Failure :=
  firstFail (visitSchemaFail (walkFail []) (objFail p)) S

def run (p : Params) (S : Schemas) : Outcome Schemas := mkRun (fail? p S) (apply p S)

end Cog.Xform.RetypeObject
