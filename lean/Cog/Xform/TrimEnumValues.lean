/-
  trim_enum_values — internal/ast/compiler/trim_enum_values.go.  `OnEnum` hook at every visitor
  position: string member VALUES are `strings.TrimSpace`d (names are not).
-/
import Cog.Xform.Common
namespace Cog.Xform.TrimEnumValues
open Cog.IR Cog.Xform

def trimVal (v : EnumVal) : EnumVal :=
  match v.value with
  | .str s => { v with value := .str (trimSpace s) }
  | _ => v

def hooks : Hooks := { enum := fun vs m => .enum (vs.map trimVal) m }

def onObj (o : Obj) : Obj := { o with ty := xfTy hooks o.ty }

def apply (S : Schemas) : Schemas := S.map (visitSchema (xfTy hooks) (fun _ => onObj))

def fail? (S : Schemas) : Option Failure :=
  firstFail (visitSchemaFail (walkFail ["enum"]) (fun o => walkFail ["enum"] o.ty)) S

def run (_ : Unit) (S : Schemas) : Outcome Schemas := mkRun (fail? S) (apply S)

end Cog.Xform.TrimEnumValues
