/-
  duplicate_object — internal/ast/compiler/duplicate_object.go.  `OnSchema` hook, for every
  schema whose package is `As.Package`: the source is looked up with
  `pass.schemas.LocateObjectByRef` (first schema of that package, EXACT name — unlike every
  other pass) in the slice that `VisitSchemas` is updating in place (schemas before the current
  one are already the processed ones); not found ⇒ nothing.  The duplicate is a `DeepCopy`
  with the new name/self reference; when it is a struct and `OmitFields` is not empty its fields
  are filtered with `StringInListEqualFold`.  Registered through `Objects.Set` (overwrites an
  existing object of that name, else appended).  No schema of package `As.Package` ⇒ nothing.
-/
import Cog.Xform.Common
namespace Cog.Xform.DuplicateObject
open Cog.IR Cog.Xform
open Cog.OMap (rset)

structure Params where
  object : ObjRef
  as_ : ObjRef
  omitFields : List String
  deriving Repr, Inhabited

def duplicate (p : Params) (src : Obj) : Obj :=
  let d := deepCopyObj src
  let d := { d with name := p.as_.obj, selfPkg := p.as_.pkg, selfName := p.as_.obj }
  match d.ty with
  | .struct fs g gi m =>
    if p.omitFields.isEmpty then d
    else { d with ty := .struct (fs.filter fun f => !p.omitFields.any (eqFold · f.name)) g gi m }
  | _ => d

def processSchema (p : Params) (cur : Schemas) (s : Schema) : Schema :=
  if s.pkg != p.as_.pkg then s
  else match Schemas.locateObject cur p.object.pkg p.object.obj with
    | none => s
    | some src => { s with objects := rset p.as_.obj (duplicate p src) s.objects }

def schemaFail (p : Params) (cur : Schemas) (s : Schema) : Option Failure :=
  if s.pkg != p.as_.pkg then none
  else match Schemas.locateObject cur p.object.pkg p.object.obj with
    | none => none
    | some src => match src.ty with
      | .bad "struct" _ => if p.omitFields.isEmpty then none else some .panic
      | _ => none

/-- `VisitSchemas`: `schemas[i] = VisitSchema(schemas[i])`, the hook reading the same slice -/
def go (p : Params) : Schemas → Schemas → Schemas
  | done, [] => done
  | done, s :: rest => go p (done ++ [processSchema p (done ++ s :: rest) s]) rest

def goFail (p : Params) : Schemas → Schemas → Option Failure
  | _, [] => none
  | done, s :: rest =>
    match schemaFail p (done ++ s :: rest) s with
    | some f => some f
    | none => goFail p (done ++ [processSchema p (done ++ s :: rest) s]) rest

def apply (p : Params) (S : Schemas) : Schemas := go p [] S

def fail? (p : Params) (S : Schemas) : Option Failure := goFail p [] S

def run (p : Params) (S : Schemas) : Outcome Schemas := mkRun (fail? p S) (apply p S)

end Cog.Xform.DuplicateObject
