/-
  rename_object — internal/ast/compiler/rename_object.go (literal transcription).

  * objects are matched through `ObjectReference.Matches` (package exact, name EqualFold);
  * references are rewritten only when `ReferredPkg == From.Package && ReferredType == From.Object`
    (case-SENSITIVE), and only `ref` nodes at visitor positions (not constant references, not map
    index types, not discriminator mappings, not the `EntryPoint` string);
  * the schema is rebuilt with `AddObject(object.Name)`: a rename onto an existing name, or two
    case-variant objects renamed to the same name, overwrite each other.
-/
import Cog.Xform.Common
namespace Cog.Xform.RenameObject
open Cog.IR Cog.Xform

structure Params where
  from_ : ObjRef
  to : String
  deriving Repr, Inhabited

/-- `processRef` -/
def hooks (p : Params) : Hooks :=
  { ref := fun pk n m => if pk == p.from_.pkg && n == p.from_.obj then .ref pk p.to m else .ref pk n m }

/-- `processObject` -/
def onObj (p : Params) (o : Obj) : Obj :=
  if p.from_.matchesObj o then { o with name := p.to, selfName := p.to, ty := xfTy (hooks p) o.ty }
  else { o with ty := xfTy (hooks p) o.ty }

def apply (p : Params) (S : Schemas) : Schemas :=
  S.map (visitSchema (xfTy (hooks p)) (fun _ => onObj p))

def fail? (_ : Params) (S : Schemas) : Option Failure :=
  firstFail (visitSchemaFail (walkFail ["ref"]) (fun o => walkFail ["ref"] o.ty)) S

def run (p : Params) (S : Schemas) : Outcome Schemas := mkRun (fail? p S) (apply p S)

end Cog.Xform.RenameObject
