/-
  Generic lemmas for the C15 theorems: well-formed object maps, what `VisitSchema`'s rebuild
  does on them, the frame predicate, identity of hook-free walks.
-/
import Cog.Xform.All
import Cog.OMap.Lemmas
namespace Cog.Xform
open Cog.IR
open Cog.OMap (rget rset rdel)

/-! ### well-formed object maps

What `orderedmap.Map` guarantees when every object was stored with `AddObject`
(`Set(object.Name, object)`): keys are the object names and are pairwise distinct (C19). -/

def ObjsWF (l : List (String × Obj)) : Prop :=
  (∀ kv ∈ l, kv.1 = kv.2.name) ∧ (l.map (·.1)).Nodup

def WF (S : Schemas) : Prop := ∀ s ∈ S, ObjsWF s.objects

theorem ObjsWF.names_nodup {l : List (String × Obj)} (h : ObjsWF l) : (l.map (·.2.name)).Nodup := by
  have : l.map (·.2.name) = l.map (·.1) := by
    apply List.map_congr_left
    intro kv hkv; exact (h.1 kv hkv).symm
  rw [this]; exact h.2

/-- `rebuild` on fresh, pairwise distinct new names appends the rewritten objects in order -/
theorem rebuild_eq (f : Obj → Obj) : ∀ (l acc : List (String × Obj)),
    ((acc.map (·.1)) ++ (l.map fun kv => (f kv.2).name)).Nodup →
    rebuild f acc l = acc ++ l.map (fun kv => ((f kv.2).name, f kv.2))
  | [], acc, _ => by simp [rebuild]
  | (k, o) :: rest, acc, h => by
    have hnd := List.nodup_append.mp h
    have hk : (f o).name ∉ acc.map (·.1) := fun hm =>
      hnd.2.2 _ hm _ (by simp) rfl
    have hset : rset (f o).name (f o) acc = acc ++ [((f o).name, f o)] :=
      Cog.OMap.rset_notin_keys _ _ acc hk
    have h' : (((acc ++ [((f o).name, f o)]).map (·.1)) ++ (rest.map fun kv => (f kv.2).name)).Nodup := by
      simpa [List.append_assoc] using h
    simp only [rebuild, hset]
    rw [rebuild_eq f rest _ h']
    simp [List.append_assoc]

/-- name-preserving object rewriting on a well-formed map is a pointwise map (keys, order kept) -/
theorem rebuild_map (f : Obj → Obj) (hf : ∀ o, (f o).name = o.name) (l : List (String × Obj))
    (h : ObjsWF l) : rebuild f [] l = l.map (fun kv => (kv.1, f kv.2)) := by
  have hn : (l.map fun kv => (f kv.2).name) = l.map (·.1) := by
    apply List.map_congr_left
    intro kv hkv; rw [hf]; exact (h.1 kv hkv).symm
  rw [rebuild_eq f l [] (by simpa [hn] using h.2)]
  simp only [List.nil_append]
  apply List.map_congr_left
  intro kv hkv
  rw [hf, ← h.1 kv hkv]

/-! ### hook-free walk = identity -/

mutual
theorem xfTy_default : ∀ t : Ty, xfTy {} t = t
  | .scalar .. => by simp [xfTy]
  | .ref .. => by simp [xfTy]
  | .cref .. => by simp [xfTy]
  | .array e _ => by simp [xfTy, xfTy_default e]
  | .map _ v _ => by simp [xfTy, xfTy_default v]
  | .struct fs _ _ _ => by simp [xfTy, xfFields_default fs]
  | .enum .. => by simp [xfTy]
  | .disj bs _ _ => by simp [xfTy, xfList_default bs]
  | .inter bs _ => by simp [xfTy, xfList_default bs]
  | .slot .. => by simp [xfTy]
  | .bad .. => by simp [xfTy]
theorem xfList_default : ∀ ts : List Ty, xfList {} ts = ts
  | [] => by simp [xfList]
  | t :: ts => by simp [xfList, xfTy_default t, xfList_default ts]
theorem xfFields_default : ∀ fs : List Field, xfFields {} fs = fs
  | [] => by simp [xfFields]
  | f :: fs => by simp [xfFields, xfTy_default f.ty, xfFields_default fs]
end

/-! ### the frame predicate

`FrameOK tObj tSch S S'`: `S'` has the same schemas (same packages, same order); the schema-level
fields of a schema not targeted (`tSch`) are unchanged; per schema, the objects that are not
targeted (`tObj`) are still there, unchanged (key, name, comments, type, self reference) and in
the same relative order. -/

structure FrameOK (tObj : Schema → Obj → Bool) (tSch : Schema → Bool) (S S' : Schemas) : Prop where
  len : S'.length = S.length
  sch : ∀ (i : Nat) (s s' : Schema), S[i]? = some s → S'[i]? = some s' →
    s'.pkg = s.pkg ∧ (tSch s = false →
      s'.smeta = s.smeta ∧ s'.entryPoint = s.entryPoint ∧ s'.entryPointType = s.entryPointType)
  objs : ∀ (i : Nat) (s s' : Schema), S[i]? = some s → S'[i]? = some s' →
    List.Sublist (s.objects.filter fun kv => !tObj s kv.2) s'.objects

/-- per-schema rewriting: frame from a per-schema statement -/
theorem FrameOK.of_map (tObj : Schema → Obj → Bool) (tSch : Schema → Bool) (g : Schema → Schema)
    (hp : ∀ s, (g s).pkg = s.pkg)
    (hs : ∀ s, tSch s = false → (g s).smeta = s.smeta ∧ (g s).entryPoint = s.entryPoint ∧
      (g s).entryPointType = s.entryPointType)
    (ho : ∀ s, List.Sublist (s.objects.filter fun kv => !tObj s kv.2) (g s).objects)
    (S : Schemas) : FrameOK tObj tSch S (S.map g) := by
  refine ⟨by simp, ?_, ?_⟩
  · intro i s s' h1 h2
    rw [List.getElem?_map, h1] at h2
    cases h2
    exact ⟨hp s, hs s⟩
  · intro i s s' h1 h2
    rw [List.getElem?_map, h1] at h2
    cases h2
    exact ho s

/-- pointwise object rewriting that fixes every untargeted object -/
theorem sublist_filter_map (t : Obj → Bool) (g : Obj → Obj) (hg : ∀ o, t o = false → g o = o)
    (l : List (String × Obj)) :
    List.Sublist (l.filter fun kv => !t kv.2) (l.map fun kv => (kv.1, g kv.2)) := by
  induction l with
  | nil => simp
  | cons kv rest ih =>
    cases ht : t kv.2 with
    | true => simp only [List.filter_cons, ht, List.map_cons]; exact List.Sublist.cons _ ih
    | false =>
      simp only [List.filter_cons, ht, List.map_cons, hg kv.2 ht]
      exact List.Sublist.cons_cons _ ih


theorem rebuild_congr (f g : Obj → Obj) : ∀ (l acc : List (String × Obj)),
    (∀ kv ∈ l, f kv.2 = g kv.2) → rebuild f acc l = rebuild g acc l
  | [], _, _ => rfl
  | (k, o) :: rest, acc, h => by
    have ho : f o = g o := h (k, o) (by simp)
    simp only [rebuild, ho]
    exact rebuild_congr f g rest _ (fun kv hkv => h kv (by simp [hkv]))

theorem rebuild_congr' (f g : Obj → Obj) (l acc : List (String × Obj))
    (h : ∀ kv ∈ l, f kv.2 = g kv.2) : rebuild f acc l = rebuild g acc l := rebuild_congr f g l acc h

/-- object rewriting that may rename targeted objects, keys following the names -/
theorem sublist_filter_rename (t : Obj → Bool) (g : Obj → Obj) (hg : ∀ o, t o = false → g o = o)
    (l : List (String × Obj)) (hk : ∀ kv ∈ l, kv.1 = kv.2.name) :
    List.Sublist (l.filter fun kv => !t kv.2) (l.map fun kv => ((g kv.2).name, g kv.2)) := by
  induction l with
  | nil => simp
  | cons kv rest ih =>
    have ih' := ih (fun x hx => hk x (by simp [hx]))
    cases ht : t kv.2 with
    | true => simp only [List.filter_cons, ht, List.map_cons]; exact List.Sublist.cons _ ih'
    | false =>
      have hkv : ((g kv.2).name, g kv.2) = kv := by
        rw [hg kv.2 ht, ← hk kv (by simp)]
      simp only [List.filter_cons, ht, List.map_cons, hkv]
      exact List.Sublist.cons_cons _ ih'

/-- pointwise relation between two lists (core Lean has no `Forall₂`) -/
inductive Forall2 {α β : Type} (R : α → β → Prop) : List α → List β → Prop
  | nil : Forall2 R [] []
  | cons {a b as bs} : R a b → Forall2 R as bs → Forall2 R (a :: as) (b :: bs)

theorem Forall2.length_eq {α β : Type} {R : α → β → Prop} {l₁ : List α} {l₂ : List β}
    (h : Forall2 R l₁ l₂) : l₁.length = l₂.length := by
  induction h with
  | nil => rfl
  | cons _ _ ih => simp [ih]

/-! ### object-local, name-preserving rewriting -/

/-- every object of every schema rewritten in place: keys, order, schema-level fields kept -/
def mapObjs (g : Obj → Obj) (S : Schemas) : Schemas :=
  S.map fun s => { s with objects := s.objects.map fun kv => (kv.1, g kv.2) }

/-- no object of any schema is a target -/
def NoTarget (t : Schema → Obj → Bool) (S : Schemas) : Prop :=
  ∀ s ∈ S, ∀ kv ∈ s.objects, t s kv.2 = false

theorem map_id_of_forall {α : Type} (g : α → α) (l : List α) (h : ∀ a ∈ l, g a = a) : l.map g = l := by
  induction l with
  | nil => rfl
  | cons a as ih =>
    simp only [List.map_cons]
    rw [h a (by simp), ih (fun b hb => h b (by simp [hb]))]

/-- a Visitor with only a name-preserving `OnObject` hook, on well-formed schemas -/
theorem visit_eq_mapObjs (f : Obj → Obj) (hf : ∀ o, (f o).name = o.name) (S : Schemas) (hw : WF S) :
    S.map (visitSchema id (fun _ => f)) = mapObjs f S := by
  simp only [mapObjs]
  apply List.map_congr_left
  intro s hs
  simp only [visitSchema, id]
  rw [rebuild_map f hf s.objects (hw s hs)]

theorem mapObjs_frame (t : Schema → Obj → Bool) (g : Obj → Obj)
    (hg : ∀ s o, t s o = false → g o = o) (S : Schemas) :
    FrameOK t (fun _ => false) S (mapObjs g S) :=
  FrameOK.of_map t (fun _ => false)
    (fun s => { s with objects := s.objects.map fun kv => (kv.1, g kv.2) })
    (fun _ => rfl) (fun _ _ => ⟨rfl, rfl, rfl⟩)
    (fun s => sublist_filter_map (t s) g (hg s) s.objects) S

theorem mapObjs_absent (t : Schema → Obj → Bool) (g : Obj → Obj)
    (hg : ∀ s o, t s o = false → g o = o) (S : Schemas) (hn : NoTarget t S) : mapObjs g S = S := by
  apply map_id_of_forall
  intro s hs
  have : (s.objects.map fun kv => (kv.1, g kv.2)) = s.objects := by
    apply map_id_of_forall
    intro kv hkv
    rw [hg s kv.2 (hn s hs kv hkv)]
  rw [this]

theorem mapObjs_wf (g : Obj → Obj) (hname : ∀ o, (g o).name = o.name) (S : Schemas) (hw : WF S) :
    WF (mapObjs g S) := by
  intro s' hs'
  simp only [mapObjs, List.mem_map] at hs'
  obtain ⟨s, hs, rfl⟩ := hs'
  have h := hw s hs
  refine ⟨?_, ?_⟩
  · intro kv hkv
    simp only [List.mem_map] at hkv
    obtain ⟨kv0, hkv0, rfl⟩ := hkv
    simp only [hname]
    exact h.1 kv0 hkv0
  · simpa [List.map_map, Function.comp_def] using h.2

/-- keys of every schema are unchanged by `mapObjs` -/
theorem mapObjs_keys (g : Obj → Obj) (s : Schema) :
    (s.objects.map fun kv => (kv.1, g kv.2)).map (·.1) = s.objects.map (·.1) := by
  simp [List.map_map, Function.comp_def]

end Cog.Xform
