/-
  omit and omit_fields: specification, correctness, frame, absent-target identity, WF preservation.
-/
import Cog.Xform.Lemmas
namespace Cog.Xform
open Cog.IR

namespace Omit

/-- targets: the objects accepted by one of the references (package exact, name EqualFold) -/
def targets (p : Params) (_ : Schema) (o : Obj) : Bool := matchesAny p.objects o

/-- documented behaviour, object-wise: every schema keeps exactly its non-target objects, in
    their order; everything else is as it was -/
def spec (p : Params) (S : Schemas) : Schemas :=
  S.map fun s => { s with objects := s.objects.filter fun kv => !targets p s kv.2 }

theorem correct (p : Params) (S S' : Schemas) (h : run p S = .ok S') : S' = spec p S := by
  rw [(mkRun_ok.mp h).2]; rfl

theorem frame (p : Params) (S S' : Schemas) (h : run p S = .ok S') :
    FrameOK (targets p) (fun _ => false) S S' := by
  rw [correct p S S' h]
  exact FrameOK.of_map (targets p) (fun _ => false)
    (fun s => { s with objects := s.objects.filter fun kv => !targets p s kv.2 })
    (fun _ => rfl) (fun _ _ => ⟨rfl, rfl, rfl⟩) (fun _ => List.Sublist.refl _) S

theorem absent (p : Params) (S : Schemas) (h : NoTarget (targets p) S) : run p S = .ok S := by
  have : apply p S = S := by
    apply map_id_of_forall
    intro s hs
    have : (s.objects.filter fun kv => !matchesAny p.objects kv.2) = s.objects := by
      apply List.filter_eq_self.mpr
      intro kv hkv
      have := h s hs kv hkv
      simp [targets] at this
      simp [this]
    simp [processSchema, this]
  simp [run, fail?, mkRun, this]

theorem wf (p : Params) (S S' : Schemas) (hw : WF S) (h : run p S = .ok S') : WF S' := by
  rw [correct p S S' h]
  intro s' hs'
  simp only [spec, List.mem_map] at hs'
  obtain ⟨s, hs, rfl⟩ := hs'
  have := hw s hs
  refine ⟨fun kv hkv => this.1 kv (List.mem_filter.mp hkv).1, ?_⟩
  exact List.Nodup.sublist (List.Sublist.map _ List.filter_sublist) this.2

end Omit

namespace OmitFields

/-- targets: struct objects with at least one field accepted by one of the references -/
def targets (p : Params) (_ : Schema) (o : Obj) : Bool :=
  match o.ty with
  | .struct fs _ _ _ => fs.any fun f => fieldMatchesAny p.fields o f
  | _ => false

/-- documented behaviour on one object: the selected fields are removed, the remaining fields
    (names, types, comments, required flags, order) and everything else stay -/
def specObj (p : Params) (o : Obj) : Obj :=
  match o.ty with
  | .struct fs g gi m => { o with ty := .struct (fs.filter fun f => !fieldMatchesAny p.fields o f) g gi m }
  | _ => o

def spec (p : Params) (S : Schemas) : Schemas :=
  S.map fun s => { s with objects := s.objects.map fun kv => (kv.1, specObj p kv.2) }

theorem onObj_name (p : Params) (o : Obj) : (onObj p o).name = o.name := by
  unfold onObj; split <;> rfl

theorem correct (p : Params) (S S' : Schemas) (hw : WF S) (h : run p S = .ok S') : S' = spec p S := by
  rw [(mkRun_ok.mp h).2]
  simp only [apply, spec]
  apply List.map_congr_left
  intro s hs
  simp only [visitSchema, id]
  rw [rebuild_map (onObj p) (onObj_name p) s.objects (hw s hs)]
  rfl

theorem specObj_untargeted (p : Params) (s : Schema) (o : Obj) (h : targets p s o = false) :
    specObj p o = o := by
  unfold specObj
  unfold targets at h
  split
  · rename_i fs g gi m heq
    rw [heq] at h
    simp only at h
    have : (fs.filter fun f => !fieldMatchesAny p.fields o f) = fs := by
      apply List.filter_eq_self.mpr
      intro f hf
      have := List.any_eq_false.mp h f hf
      simp [this]
    rw [this, ← heq]
  · rfl

theorem frame (p : Params) (S S' : Schemas) (hw : WF S) (h : run p S = .ok S') :
    FrameOK (targets p) (fun _ => false) S S' := by
  rw [correct p S S' hw h]
  exact FrameOK.of_map (targets p) (fun _ => false)
    (fun s => { s with objects := s.objects.map fun kv => (kv.1, specObj p kv.2) })
    (fun _ => rfl) (fun _ _ => ⟨rfl, rfl, rfl⟩)
    (fun s => sublist_filter_map (targets p s) (specObj p) (specObj_untargeted p s) s.objects) S

theorem absent (p : Params) (S S' : Schemas) (hw : WF S) (hn : NoTarget (targets p) S)
    (h : run p S = .ok S') : S' = S := by
  rw [correct p S S' hw h]
  apply map_id_of_forall
  intro s hs
  have : (s.objects.map fun kv => (kv.1, specObj p kv.2)) = s.objects := by
    apply map_id_of_forall
    intro kv hkv
    rw [specObj_untargeted p s kv.2 (hn s hs kv hkv)]
  rw [this]

end OmitFields
end Cog.Xform
