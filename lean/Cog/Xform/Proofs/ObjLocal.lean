/-
  Object-local transformations (a Visitor with only an `OnObject` hook that keeps the object
  name): add_fields, retype_object, retype_field, fields_set_required, fields_set_not_required,
  fields_set_default, constant_to_enum, hint_object, append_comment.
  For each: targets, object-wise specification, correctness, frame, absent-target identity, WF.
-/
import Cog.Xform.Lemmas
namespace Cog.Xform
open Cog.IR

/-- common shape of the four theorems for a pass `apply = map (visitSchema id onObj)` -/
theorem objLocal_correct {fail : Option Failure} (f : Obj → Obj) (hf : ∀ o, (f o).name = o.name)
    (S S' : Schemas) (hw : WF S)
    (h : mkRun fail (S.map (visitSchema id (fun _ => f))) = .ok S') : S' = mapObjs f S := by
  rw [(mkRun_ok.mp h).2, visit_eq_mapObjs f hf S hw]

/-! ## add_fields -/
namespace AddFields

def targets (p : Params) (_ : Schema) (o : Obj) : Bool := p.to.matchesObj o

/-- documented behaviour on one object: a targeted struct gets, after its existing fields, every
    configured field whose name it does not have yet (in configuration order) -/
def specObj (p : Params) (o : Obj) : Obj :=
  if targets p default o then
    match o.ty with
    | .struct fs g gi m => { o with ty := .struct (p.fields.foldl addField fs) g gi m }
    | _ => o
  else o

def spec (p : Params) (S : Schemas) : Schemas := mapObjs (specObj p) S

theorem specObj_eq (p : Params) : specObj p = onObj p := by
  funext o; rfl

theorem onObj_name (p : Params) (o : Obj) : (onObj p o).name = o.name := by
  unfold onObj; split
  · split <;> rfl
  · rfl

theorem correct (p : Params) (S S' : Schemas) (hw : WF S) (h : run p S = .ok S') : S' = spec p S := by
  rw [spec, specObj_eq]; exact objLocal_correct (onObj p) (onObj_name p) S S' hw h

theorem untargeted (p : Params) (s : Schema) (o : Obj) (h : targets p s o = false) : specObj p o = o := by
  simp only [specObj, targets] at *; simp [h]

theorem frame (p : Params) (S S' : Schemas) (hw : WF S) (h : run p S = .ok S') :
    FrameOK (targets p) (fun _ => false) S S' := by
  rw [correct p S S' hw h]; exact mapObjs_frame _ _ (untargeted p) S

theorem absent (p : Params) (S S' : Schemas) (hw : WF S) (hn : NoTarget (targets p) S)
    (h : run p S = .ok S') : S' = S := by
  rw [correct p S S' hw h]; exact mapObjs_absent _ _ (untargeted p) S hn

theorem wf (p : Params) (S S' : Schemas) (hw : WF S) (h : run p S = .ok S') : WF S' := by
  rw [correct p S S' hw h, spec, specObj_eq]; exact mapObjs_wf _ (onObj_name p) S hw

/-- existing fields are never overwritten, removed or reordered: they are a prefix of the result -/
theorem addField_prefix (fs : List Field) (f : Field) : fs <+: addField fs f := by
  unfold addField; split
  · exact List.prefix_refl _
  · exact List.prefix_append _ _

theorem foldl_addField_prefix (news fs : List Field) : fs <+: news.foldl addField fs := by
  induction news generalizing fs with
  | nil => exact List.prefix_refl _
  | cons n ns ih => exact List.IsPrefix.trans (addField_prefix fs n) (ih (addField fs n))

theorem addField_has (fs : List Field) (f : Field) : (addField fs f).any (·.name == f.name) = true := by
  unfold addField; split
  · assumption
  · simp

theorem any_mono_prefix {a b : List Field} (h : a <+: b) (q : Field → Bool) (ha : a.any q = true) :
    b.any q = true := by
  obtain ⟨t, rfl⟩ := h
  simp [List.any_append, ha]

/-- every configured field name is present afterwards -/
theorem foldl_addField_has (news fs : List Field) (n : Field) (hn : n ∈ news) :
    (news.foldl addField fs).any (·.name == n.name) = true := by
  induction news generalizing fs with
  | nil => cases hn
  | cons x xs ih =>
    simp only [List.foldl_cons]
    rcases List.mem_cons.mp hn with rfl | hmem
    · exact any_mono_prefix (foldl_addField_prefix xs _) _ (addField_has fs n)
    · exact ih (addField fs x) hmem

/-- `run` reports an error exactly for a targeted object that is not a struct (nil kind
    pointers aside) -/
theorem err_of_nonstruct (p : Params) (o : Obj) (hm : targets p default o = true)
    (hk : o.ty.kind ≠ "struct") : objFail p o = some .err := by
  simp only [targets] at hm
  unfold objFail
  simp only [hm, if_true]
  split
  · rename_i heq; rw [heq] at hk; simp [Ty.kind] at hk
  · rename_i heq; rw [heq] at hk; simp [Ty.kind] at hk
  · rfl

end AddFields

/-! ## retype_object -/
namespace RetypeObject

def targets (p : Params) (_ : Schema) (o : Obj) : Bool := p.object.matchesObj o

/-- documented behaviour on one object: a targeted object gets the configured type and, when
    comments are configured, those comments; name and self reference stay -/
def specObj (p : Params) (o : Obj) : Obj :=
  if targets p default o then { o with ty := p.as_, comments := p.comments.getD o.comments } else o

def spec (p : Params) (S : Schemas) : Schemas := mapObjs (specObj p) S

theorem specObj_eq (p : Params) : specObj p = onObj p := by
  funext o; rfl

theorem onObj_name (p : Params) (o : Obj) : (onObj p o).name = o.name := by
  unfold onObj; split <;> rfl

theorem correct (p : Params) (S S' : Schemas) (hw : WF S) (h : run p S = .ok S') : S' = spec p S := by
  rw [spec, specObj_eq]; exact objLocal_correct (onObj p) (onObj_name p) S S' hw h

theorem untargeted (p : Params) (s : Schema) (o : Obj) (h : targets p s o = false) : specObj p o = o := by
  simp only [specObj, targets] at *; simp [h]

theorem frame (p : Params) (S S' : Schemas) (hw : WF S) (h : run p S = .ok S') :
    FrameOK (targets p) (fun _ => false) S S' := by
  rw [correct p S S' hw h]; exact mapObjs_frame _ _ (untargeted p) S

theorem absent (p : Params) (S S' : Schemas) (hw : WF S) (hn : NoTarget (targets p) S)
    (h : run p S = .ok S') : S' = S := by
  rw [correct p S S' hw h]; exact mapObjs_absent _ _ (untargeted p) S hn

theorem wf (p : Params) (S S' : Schemas) (hw : WF S) (h : run p S = .ok S') : WF S' := by
  rw [correct p S S' hw h, spec, specObj_eq]; exact mapObjs_wf _ (onObj_name p) S hw

end RetypeObject

/-! ## fields_set_required / fields_set_not_required -/
namespace FieldsSetRequired

def targets (p : Params) (_ : Schema) (o : Obj) : Bool :=
  match o.ty with
  | .struct fs _ _ _ => fs.any fun f => fieldMatchesAny p.fields o f
  | _ => false

/-- documented behaviour on one object: every selected field becomes required and not nullable
    (resp. not required and nullable); name, type shape, default, comments and order stay -/
def specObj (required : Bool) (p : Params) (o : Obj) : Obj :=
  match o.ty with
  | .struct fs g gi m =>
    { o with ty := .struct (fs.map fun f =>
        if fieldMatchesAny p.fields o f then
          { f with required := required, ty := f.ty.setMeta { f.ty.getMeta with nullable := !required } }
        else f) g gi m }
  | _ => o

def spec (required : Bool) (p : Params) (S : Schemas) : Schemas := mapObjs (specObj required p) S

theorem specObj_eq (required : Bool) (p : Params) : specObj required p = onObj required p := by
  funext o; rfl

theorem onObj_name (required : Bool) (p : Params) (o : Obj) : (onObj required p o).name = o.name := by
  unfold onObj; split <;> rfl

theorem correctWith (required : Bool) (p : Params) (S S' : Schemas) (hw : WF S)
    (h : mkRun (fail? p S) (applyWith required p S) = .ok S') : S' = spec required p S := by
  rw [spec, specObj_eq]; exact objLocal_correct (onObj required p) (onObj_name required p) S S' hw h

theorem untargeted (required : Bool) (p : Params) (s : Schema) (o : Obj) (h : targets p s o = false) :
    specObj required p o = o := by
  unfold specObj
  unfold targets at h
  split
  · rename_i fs g gi m heq
    rw [heq] at h
    simp only at h
    have : (fs.map fun f => if fieldMatchesAny p.fields o f then
        ({ f with required := required, ty := f.ty.setMeta { f.ty.getMeta with nullable := !required } } : Field)
        else f) = fs := by
      apply map_id_of_forall
      intro f hf
      have := List.any_eq_false.mp h f hf
      simp [this]
    rw [this, ← heq]
  · rfl

theorem frameWith (required : Bool) (p : Params) (S S' : Schemas) (hw : WF S)
    (h : mkRun (fail? p S) (applyWith required p S) = .ok S') :
    FrameOK (targets p) (fun _ => false) S S' := by
  rw [correctWith required p S S' hw h]; exact mapObjs_frame _ _ (untargeted required p) S

theorem absentWith (required : Bool) (p : Params) (S S' : Schemas) (hw : WF S)
    (hn : NoTarget (targets p) S) (h : mkRun (fail? p S) (applyWith required p S) = .ok S') : S' = S := by
  rw [correctWith required p S S' hw h]; exact mapObjs_absent _ _ (untargeted required p) S hn

theorem wfWith (required : Bool) (p : Params) (S S' : Schemas) (hw : WF S)
    (h : mkRun (fail? p S) (applyWith required p S) = .ok S') : WF S' := by
  rw [correctWith required p S S' hw h, spec, specObj_eq]
  exact mapObjs_wf _ (onObj_name required p) S hw

end FieldsSetRequired

/-! ## append_comment -/
namespace AppendCommentObjects

/-- every object is a target -/
def targets (_ : Params) (_ : Schema) (_ : Obj) : Bool := true

def specObj (p : Params) (o : Obj) : Obj := { o with comments := o.comments ++ [p.comment] }

def spec (p : Params) (S : Schemas) : Schemas := mapObjs (specObj p) S

theorem onObj_name (p : Params) (o : Obj) : (onObj p o).name = o.name := rfl

theorem correct (p : Params) (S S' : Schemas) (hw : WF S) (h : run p S = .ok S') : S' = spec p S :=
  objLocal_correct (onObj p) (onObj_name p) S S' hw h

theorem frame (p : Params) (S S' : Schemas) (hw : WF S) (h : run p S = .ok S') :
    FrameOK (targets p) (fun _ => false) S S' := by
  rw [correct p S S' hw h]
  exact mapObjs_frame _ _ (fun _ _ h => by simp [targets] at h) S

theorem absent (p : Params) (S S' : Schemas) (hw : WF S) (hn : NoTarget (targets p) S)
    (h : run p S = .ok S') : S' = S := by
  rw [correct p S S' hw h]
  exact mapObjs_absent (targets p) _ (fun _ _ h => by simp [targets] at h) S hn

theorem wf (p : Params) (S S' : Schemas) (hw : WF S) (h : run p S = .ok S') : WF S' := by
  rw [correct p S S' hw h]; exact mapObjs_wf _ (onObj_name p) S hw

end AppendCommentObjects
end Cog.Xform
