/-
  add_object, schema_set_identifier, schema_set_entry_point: transformations that address a
  schema by its package.  Specification, frame, absent target (no such package), WF; add_object:
  full statement ("adds a new object": appended), partial theorem, counterexample (overwrite).
-/
import Cog.Xform.Lemmas
namespace Cog.Xform
open Cog.IR
open Cog.OMap (rget rset)

theorem rset_sublist_filter {V : Type} (k : String) (v : V) (l : List (String × V)) :
    List.Sublist (l.filter fun kv => !(kv.1 == k)) (rset k v l) := by
  induction l with
  | nil => simp [rset]
  | cons e t ih =>
    obtain ⟨a, b⟩ := e
    by_cases h : a = k
    · subst h
      simp only [rset, if_true, List.filter_cons, beq_self_eq_true, Bool.not_true, Bool.false_eq_true, if_false]
      exact List.Sublist.cons _ List.filter_sublist
    · have hb : (a == k) = false := by simpa using h
      simp only [rset, h, if_false, List.filter_cons, hb, Bool.not_false, if_true]
      exact List.Sublist.cons_cons _ ih

theorem rset_keys_mem {V : Type} (k : String) (v : V) (l : List (String × V)) :
    ∀ kv ∈ rset k v l, kv ∈ l ∨ kv = (k, v) := by
  induction l with
  | nil => intro kv h; simp [rset] at h; exact Or.inr h
  | cons e t ih =>
    obtain ⟨a, b⟩ := e
    intro kv h
    by_cases hk : a = k
    · simp only [rset, hk, if_true, List.mem_cons] at h
      rcases h with h | h
      · exact Or.inr h
      · exact Or.inl (by simp [h])
    · simp only [rset, hk, if_false, List.mem_cons] at h
      rcases h with h | h
      · exact Or.inl (by simp [h])
      · rcases ih kv h with h' | h'
        · exact Or.inl (by simp [h'])
        · exact Or.inr h'

theorem rset_keys_nodup {V : Type} (k : String) (v : V) (l : List (String × V))
    (h : (l.map (·.1)).Nodup) : ((rset k v l).map (·.1)).Nodup := by
  induction l with
  | nil => simp [rset]
  | cons e t ih =>
    obtain ⟨a, b⟩ := e
    simp only [List.map_cons, List.nodup_cons] at h
    by_cases hk : a = k
    · subst hk; simpa [rset] using h
    · simp only [rset, hk, if_false, List.map_cons, List.nodup_cons]
      refine ⟨?_, ih h.2⟩
      intro hm
      simp only [List.mem_map] at hm
      obtain ⟨kv, hkv, hfst⟩ := hm
      rcases rset_keys_mem k v t kv hkv with h' | h'
      · exact h.1 (List.mem_map.mpr ⟨kv, h', hfst⟩)
      · rw [h'] at hfst; exact hk hfst.symm

theorem rset_wf (k : String) (o : Obj) (l : List (String × Obj)) (hn : o.name = k) (h : ObjsWF l) :
    ObjsWF (rset k o l) := by
  refine ⟨?_, rset_keys_nodup k o l h.2⟩
  intro kv hkv
  rcases rset_keys_mem k o l kv hkv with h' | h'
  · exact h.1 kv h'
  · rw [h']; exact hn.symm

/-! ## add_object -/
namespace AddObject

/-- target: an existing object of the configured name in a schema of the configured package
    (the code overwrites it; the documentation speaks of adding a NEW object) -/
def targets (p : Params) (s : Schema) (o : Obj) : Bool := s.pkg == p.object.pkg && o.name == p.object.obj

/-- documented behaviour: every schema of the package gets the new object appended -/
def spec (p : Params) (S : Schemas) : Schemas :=
  S.map fun s => if s.pkg != p.object.pkg then s else { s with objects := s.objects ++ [(p.object.obj, newObject p)] }

def full : Prop := ∀ (p : Params) (S S' : Schemas), WF S → run p S = .ok S' → S' = spec p S

/-- decidable hypothesis: the name is not taken -/
def fresh (p : Params) (S : Schemas) : Bool :=
  S.all fun s => s.pkg != p.object.pkg || !(s.objects.map (·.1)).contains p.object.obj

theorem correct_partial (p : Params) (S S' : Schemas) (hf : fresh p S = true) (h : run p S = .ok S') :
    S' = spec p S := by
  rw [(mkRun_ok.mp h).2]
  simp only [apply, spec]
  apply List.map_congr_left
  intro s hs
  have h1 := List.all_eq_true.mp hf s hs
  simp only [processSchema]
  split
  · rfl
  · rename_i hp
    simp only [hp, Bool.false_or, Bool.not_eq_true', List.contains_eq_mem, decide_eq_false_iff_not] at h1
    rw [Cog.OMap.rset_notin_keys _ _ s.objects h1]

theorem frame (p : Params) (S S' : Schemas) (hw : WF S) (h : run p S = .ok S') :
    FrameOK (targets p) (fun _ => false) S S' := by
  rw [(mkRun_ok.mp h).2]
  refine ⟨by simp [apply], ?_, ?_⟩
  · intro i s s' h1 h2
    simp only [apply, List.getElem?_map, h1, Option.map_some, Option.some.injEq] at h2
    subst h2
    simp only [processSchema]
    split <;> exact ⟨rfl, fun _ => ⟨rfl, rfl, rfl⟩⟩
  · intro i s s' h1 h2
    simp only [apply, List.getElem?_map, h1, Option.map_some, Option.some.injEq] at h2
    subst h2
    have hs : s ∈ S := List.mem_of_getElem? h1
    simp only [processSchema]
    split
    · exact List.filter_sublist
    · rename_i hp
      have hpk : (s.pkg == p.object.pkg) = true := by simpa using hp
      have : (s.objects.filter fun kv => !targets p s kv.2) = s.objects.filter fun kv => !(kv.1 == p.object.obj) := by
        apply List.filter_congr
        intro kv hkv
        simp [targets, hpk, (hw s hs).1 kv hkv]
      rw [this]
      exact rset_sublist_filter _ _ _

/-- no schema of that package: nothing changes -/
theorem absent (p : Params) (S : Schemas) (hn : ∀ s ∈ S, s.pkg ≠ p.object.pkg) : run p S = .ok S := by
  have : apply p S = S := by
    apply map_id_of_forall
    intro s hs
    simp [processSchema, hn s hs]
  simp [run, fail?, mkRun, this]

theorem wf (p : Params) (S S' : Schemas) (hw : WF S) (h : run p S = .ok S') : WF S' := by
  rw [(mkRun_ok.mp h).2]
  intro s' hs'
  simp only [apply, List.mem_map] at hs'
  obtain ⟨s, hs, rfl⟩ := hs'
  simp only [processSchema]
  split
  · exact hw s hs
  · exact rset_wf _ _ _ rfl (hw s hs)

/-! counterexample: an object of that name exists and is replaced -/
def wOld : Obj := { name := "A", selfPkg := "p", selfName := "A", ty := .scalar "bool" .nil [] freshMeta }
def wS : Schemas := [{ pkg := "p", objects := [("A", wOld)] }]
def wP : Params := { object := ⟨"p", "A"⟩, as_ := .scalar "string" .nil [] freshMeta, comments := [] }

theorem wWF : WF wS := by
  intro s hs
  simp only [wS, List.mem_singleton] at hs
  subst hs
  exact ⟨by simp [wOld], by simp⟩

def probe (S : Schemas) : List Nat := S.map fun s => s.objects.length

theorem counterexample : ¬ full := by
  intro hfull
  have h := hfull wP wS _ wWF rfl
  have := congrArg probe h
  revert this
  decide

end AddObject

/-! ## schema_set_identifier -/
namespace SchemaSetIdentifier

def targetsSchema (p : Params) (s : Schema) : Bool := s.pkg == p.pkg

/-- documented behaviour: the identifier of every schema of that package is overwritten -/
def spec (p : Params) (S : Schemas) : Schemas :=
  S.map fun s => if s.pkg != p.pkg then s else { s with smeta := { s.smeta with identifier := p.identifier } }

theorem correct (p : Params) (S S' : Schemas) (h : run p S = .ok S') : S' = spec p S := by
  rw [(mkRun_ok.mp h).2]; rfl

theorem frame (p : Params) (S S' : Schemas) (h : run p S = .ok S') :
    FrameOK (fun _ _ => false) (targetsSchema p) S S' := by
  rw [(mkRun_ok.mp h).2]
  refine FrameOK.of_map _ _ (processSchema p) ?_ ?_ ?_ S
  · intro s; simp only [processSchema]; split <;> rfl
  · intro s hs
    have : (s.pkg != p.pkg) = true := by simpa [targetsSchema] using hs
    simp [processSchema, this]
  · intro s
    have : (processSchema p s).objects = s.objects := by simp only [processSchema]; split <;> rfl
    rw [this]; exact List.filter_sublist

theorem absent (p : Params) (S : Schemas) (hn : ∀ s ∈ S, s.pkg ≠ p.pkg) : run p S = .ok S := by
  have : apply p S = S := by
    apply map_id_of_forall
    intro s hs
    simp [processSchema, hn s hs]
  simp [run, fail?, mkRun, this]

theorem wf (p : Params) (S S' : Schemas) (hw : WF S) (h : run p S = .ok S') : WF S' := by
  rw [(mkRun_ok.mp h).2]
  intro s' hs'
  simp only [apply, List.mem_map] at hs'
  obtain ⟨s, hs, rfl⟩ := hs'
  have : (processSchema p s).objects = s.objects := by simp only [processSchema]; split <;> rfl
  rw [this]; exact hw s hs

end SchemaSetIdentifier

/-! ## schema_set_entry_point -/
namespace SchemaSetEntryPoint

def targetsSchema (p : Params) (s : Schema) : Bool := s.pkg == p.pkg

/-- documented behaviour: entry point name and entry point type (a plain reference to that
    object in the schema's package) of every schema of that package are overwritten -/
def spec (p : Params) (S : Schemas) : Schemas :=
  S.map fun s => if s.pkg != p.pkg then s
    else { s with entryPoint := p.entryPoint, entryPointType := .ref s.pkg p.entryPoint freshMeta }

theorem correct (p : Params) (S S' : Schemas) (h : run p S = .ok S') : S' = spec p S := by
  rw [(mkRun_ok.mp h).2]; rfl

theorem frame (p : Params) (S S' : Schemas) (h : run p S = .ok S') :
    FrameOK (fun _ _ => false) (targetsSchema p) S S' := by
  rw [(mkRun_ok.mp h).2]
  refine FrameOK.of_map _ _ (processSchema p) ?_ ?_ ?_ S
  · intro s; simp only [processSchema]; split <;> rfl
  · intro s hs
    have : (s.pkg != p.pkg) = true := by simpa [targetsSchema] using hs
    simp [processSchema, this]
  · intro s
    have : (processSchema p s).objects = s.objects := by simp only [processSchema]; split <;> rfl
    rw [this]; exact List.filter_sublist

theorem absent (p : Params) (S : Schemas) (hn : ∀ s ∈ S, s.pkg ≠ p.pkg) : run p S = .ok S := by
  have : apply p S = S := by
    apply map_id_of_forall
    intro s hs
    simp [processSchema, hn s hs]
  simp [run, fail?, mkRun, this]

theorem wf (p : Params) (S S' : Schemas) (hw : WF S) (h : run p S = .ok S') : WF S' := by
  rw [(mkRun_ok.mp h).2]
  intro s' hs'
  simp only [apply, List.mem_map] at hs'
  obtain ⟨s, hs, rfl⟩ := hs'
  have : (processSchema p s).objects = s.objects := by simp only [processSchema]; split <;> rfl
  rw [this]; exact hw s hs

end SchemaSetEntryPoint
end Cog.Xform
