/-
  fields_set_default sorts its references before applying them: the sorted sequence of a set of
  distinct keys does not depend on the order in which Go's map iteration delivered them.
-/
import Cog.Xform.Lemmas
namespace Cog.Xform.FieldsSetDefault
open Cog.IR Cog.Xform

theorem str_tri (a b : String) (h : a ≠ b) : a < b ∨ b < a := by
  by_cases h1 : a < b
  · exact Or.inl h1
  · by_cases h2 : b < a
    · exact Or.inr h2
    · exact absurd (String.le_antisymm (String.not_lt.mp h2) (String.not_lt.mp h1)) h

/-- `refLess` as a proposition: lexicographic on (package, object, field) -/
def Less (a b : FieldRef) : Prop :=
  a.pkg < b.pkg ∨ (a.pkg = b.pkg ∧ (a.obj < b.obj ∨ (a.obj = b.obj ∧ a.field < b.field)))

theorem refLess_iff (a b : FieldRef) : refLess a b = true ↔ Less a b := by
  unfold refLess Less
  by_cases h1 : a.pkg = b.pkg
  · by_cases h2 : a.obj = b.obj
    · simp [h1, h2, String.lt_irrefl]
    · simp [h1, h2, String.lt_irrefl]
  · simp [h1]

theorem less_irrefl (a : FieldRef) : ¬ Less a a := by
  intro h
  rcases h with h | ⟨_, h | ⟨_, h⟩⟩ <;> exact String.lt_irrefl _ h

theorem less_trans {a b c : FieldRef} (h1 : Less a b) (h2 : Less b c) : Less a c := by
  rcases h1 with h1 | ⟨e1, h1⟩
  · rcases h2 with h2 | ⟨e2, _⟩
    · exact Or.inl (String.lt_trans h1 h2)
    · exact Or.inl (e2 ▸ h1)
  · rcases h2 with h2 | ⟨e2, h2⟩
    · exact Or.inl (e1 ▸ h2)
    · refine Or.inr ⟨e1.trans e2, ?_⟩
      rcases h1 with h1 | ⟨f1, h1⟩
      · rcases h2 with h2 | ⟨f2, _⟩
        · exact Or.inl (String.lt_trans h1 h2)
        · exact Or.inl (f2 ▸ h1)
      · rcases h2 with h2 | ⟨f2, h2⟩
        · exact Or.inl (f1 ▸ h2)
        · exact Or.inr ⟨f1.trans f2, String.lt_trans h1 h2⟩

theorem less_asymm {a b : FieldRef} (h1 : Less a b) (h2 : Less b a) : False :=
  less_irrefl a (less_trans h1 h2)

theorem less_tri (a b : FieldRef) (h : a ≠ b) : Less a b ∨ Less b a := by
  by_cases h1 : a.pkg = b.pkg
  · by_cases h2 : a.obj = b.obj
    · have h3 : a.field ≠ b.field := by
        intro h3; apply h
        cases a; cases b; simp_all
      rcases str_tri _ _ h3 with h4 | h4
      · exact Or.inl (Or.inr ⟨h1, Or.inr ⟨h2, h4⟩⟩)
      · exact Or.inr (Or.inr ⟨h1.symm, Or.inr ⟨h2.symm, h4⟩⟩)
    · rcases str_tri _ _ h2 with h4 | h4
      · exact Or.inl (Or.inr ⟨h1, Or.inl h4⟩)
      · exact Or.inr (Or.inr ⟨h1.symm, Or.inl h4⟩)
  · rcases str_tri _ _ h1 with h4 | h4
    · exact Or.inl (Or.inl h4)
    · exact Or.inr (Or.inl h4)

abbrev Entry := FieldRef × Val

def Sorted (l : List Entry) : Prop := l.Pairwise fun x y => Less x.1 y.1

theorem mem_insertBy (e x : Entry) (l : List Entry) : x ∈ insertBy e l ↔ x = e ∨ x ∈ l := by
  induction l with
  | nil => simp [insertBy]
  | cons y ys ih =>
    simp only [insertBy]
    split
    · simp
    · simp only [List.mem_cons, ih]
      constructor
      · rintro (h | h | h)
        · exact Or.inr (Or.inl h)
        · exact Or.inl h
        · exact Or.inr (Or.inr h)
      · rintro (h | h | h)
        · exact Or.inr (Or.inl h)
        · exact Or.inl h
        · exact Or.inr (Or.inr h)

theorem mem_sortDefaults (x : Entry) (l : List Entry) : x ∈ sortDefaults l ↔ x ∈ l := by
  induction l with
  | nil => simp [sortDefaults]
  | cons e es ih =>
    have : sortDefaults (e :: es) = insertBy e (sortDefaults es) := rfl
    rw [this, mem_insertBy, ih]; simp

theorem sorted_insertBy (e : Entry) (l : List Entry) (hs : Sorted l) (hne : ∀ x ∈ l, x.1 ≠ e.1) :
    Sorted (insertBy e l) := by
  induction l with
  | nil => simp [insertBy, Sorted]
  | cons y ys ih =>
    simp only [Sorted, List.pairwise_cons] at hs
    simp only [insertBy]
    split
    · rename_i hlt
      have hlt' := (refLess_iff _ _).mp hlt
      simp only [Sorted, List.pairwise_cons]
      refine ⟨?_, hs⟩
      intro z hz
      rcases List.mem_cons.mp hz with rfl | hz'
      · exact hlt'
      · exact less_trans hlt' (hs.1 z hz')
    · rename_i hnlt
      have hye : Less y.1 e.1 := by
        rcases less_tri y.1 e.1 (hne y (by simp)) with h | h
        · exact h
        · exact absurd ((refLess_iff _ _).mpr h) hnlt
      simp only [Sorted, List.pairwise_cons]
      refine ⟨?_, ih hs.2 (fun x hx => hne x (by simp [hx]))⟩
      intro z hz
      rcases (mem_insertBy e z ys).mp hz with rfl | hz'
      · exact hye
      · exact hs.1 z hz'

theorem sorted_sortDefaults (l : List Entry) (hk : (l.map (·.1)).Nodup) : Sorted (sortDefaults l) := by
  induction l with
  | nil => simp [sortDefaults, Sorted]
  | cons e es ih =>
    simp only [List.map_cons, List.nodup_cons] at hk
    have : sortDefaults (e :: es) = insertBy e (sortDefaults es) := rfl
    rw [this]
    apply sorted_insertBy e _ (ih hk.2)
    intro x hx hxe
    exact hk.1 (List.mem_map.mpr ⟨x, (mem_sortDefaults x es).mp hx, hxe⟩)

/-- two strictly sorted lists with the same members are the same list -/
theorem sorted_unique : ∀ (l₁ l₂ : List Entry), Sorted l₁ → Sorted l₂ → (∀ x, x ∈ l₁ ↔ x ∈ l₂) → l₁ = l₂
  | [], [], _, _, _ => rfl
  | [], y :: ys, _, _, h => absurd ((h y).mpr (by simp)) (by simp)
  | x :: xs, [], _, _, h => absurd ((h x).mp (by simp)) (by simp)
  | x :: xs, y :: ys, h1, h2, h => by
    simp only [Sorted, List.pairwise_cons] at h1 h2
    have hxy : x = y := by
      have hx : x ∈ y :: ys := (h x).mp (by simp)
      have hy : y ∈ x :: xs := (h y).mpr (by simp)
      rcases List.mem_cons.mp hx with e | hx'
      · exact e
      · rcases List.mem_cons.mp hy with e | hy'
        · exact e.symm
        · exact absurd (less_trans (h1.1 y hy') (h2.1 x hx')) (less_irrefl _)
    subst hxy
    congr 1
    apply sorted_unique xs ys h1.2 h2.2
    intro z
    constructor
    · intro hz
      rcases List.mem_cons.mp ((h z).mp (by simp [hz])) with e | hz'
      · subst e; exact absurd (h1.1 z hz) (less_irrefl _)
      · exact hz'
    · intro hz
      rcases List.mem_cons.mp ((h z).mpr (by simp [hz])) with e | hz'
      · subst e; exact absurd (h2.1 z hz) (less_irrefl _)
      · exact hz'

/-- the sorted sequence depends only on the SET of entries -/
theorem sortDefaults_perm (l l' : List Entry) (hp : l'.Perm l) (hk : (l.map (·.1)).Nodup) :
    sortDefaults l' = sortDefaults l := by
  have hk' : (l'.map (·.1)).Nodup := (hp.map _).nodup_iff.mpr hk
  apply sorted_unique _ _ (sorted_sortDefaults l' hk') (sorted_sortDefaults l hk)
  intro x
  rw [mem_sortDefaults, mem_sortDefaults]
  exact hp.mem_iff

end Cog.Xform.FieldsSetDefault
