/-
  duplicate_object: the pass reads the slice it is rewriting (`pass.schemas`), so the model is a
  fold over the schemas with the evolving list; structure of the result, frame, absent target,
  WF; with unique package names the fold is a plain map; specification ("a copy of the source
  object is added under the new name"), partial theorem, two counterexamples (the source is
  looked up by EXACT name unlike everywhere else; an existing object of the new name is replaced).
-/
import Cog.Xform.Proofs.SchemaLevel
namespace Cog.Xform
open Cog.IR
open Cog.OMap (rget rset)

theorem FrameOK.of_forall2 (tObj : Schema → Obj → Bool) (tSch : Schema → Bool) (Rel : Schema → Schema → Prop)
    (hrel : ∀ s s', Rel s s' → s'.pkg = s.pkg ∧
      (tSch s = false → s'.smeta = s.smeta ∧ s'.entryPoint = s.entryPoint ∧ s'.entryPointType = s.entryPointType) ∧
      List.Sublist (s.objects.filter fun kv => !tObj s kv.2) s'.objects)
    {S S' : Schemas} (h : Forall2 Rel S S') : FrameOK tObj tSch S S' := by
  have idx : ∀ (i : Nat) (s s' : Schema), S[i]? = some s → S'[i]? = some s' → Rel s s' := by
    induction h with
    | nil => intro i s s' h1; simp at h1
    | cons hr _ ih =>
      intro i s s' h1 h2
      cases i with
      | zero => simp at h1 h2; subst h1; subst h2; exact hr
      | succ j => simp at h1 h2; exact ih j s s' h1 h2
  exact ⟨h.length_eq.symm, fun i s s' h1 h2 => ⟨(hrel s s' (idx i s s' h1 h2)).1, (hrel s s' (idx i s s' h1 h2)).2.1⟩,
    fun i s s' h1 h2 => (hrel s s' (idx i s s' h1 h2)).2.2⟩

namespace DuplicateObject

/-- target: an existing object of the new name in a schema of the destination package -/
def targets (p : Params) (s : Schema) (o : Obj) : Bool := s.pkg == p.as_.pkg && o.name == p.as_.obj

/-- every schema is either untouched or got ONE object stored under the new name -/
def Rel (p : Params) (s s' : Schema) : Prop :=
  s' = s ∨ (s.pkg = p.as_.pkg ∧ ∃ X : Obj, X.name = p.as_.obj ∧ s' = { s with objects := rset p.as_.obj X s.objects })

theorem duplicate_name (p : Params) (src : Obj) : (duplicate p src).name = p.as_.obj := by
  unfold duplicate
  simp only
  split
  · split <;> rfl
  · rfl

theorem processSchema_rel (p : Params) (cur : Schemas) (s : Schema) : Rel p s (processSchema p cur s) := by
  unfold processSchema
  split
  · exact Or.inl rfl
  · rename_i hp
    split
    · exact Or.inl rfl
    · rename_i src _
      exact Or.inr ⟨by simpa using hp, duplicate p src, duplicate_name p src, rfl⟩

theorem go_rel (p : Params) : ∀ (todo done : Schemas), ∃ l, go p done todo = done ++ l ∧ Forall2 (Rel p) todo l
  | [], done => ⟨[], by simp [go], Forall2.nil⟩
  | s :: rest, done => by
    obtain ⟨l, h1, h2⟩ := go_rel p rest (done ++ [processSchema p (done ++ s :: rest) s])
    refine ⟨processSchema p (done ++ s :: rest) s :: l, ?_, Forall2.cons (processSchema_rel p _ s) h2⟩
    simp only [go, h1, List.append_assoc, List.singleton_append]

theorem result_rel (p : Params) (S S' : Schemas) (h : run p S = .ok S') : Forall2 (Rel p) S S' := by
  rw [(mkRun_ok.mp h).2]
  obtain ⟨l, h1, h2⟩ := go_rel p S []
  simp only [apply, h1, List.nil_append]; exact h2

theorem frame (p : Params) (S S' : Schemas) (hw : WF S) (h : run p S = .ok S') :
    FrameOK (fun s o => targets p s o) (fun _ => false) S S' := by
  have hall := result_rel p S S' h
  -- WF is needed to identify the overwritten key with the object name
  have hmem : Forall2 (fun s s' => Rel p s s' ∧ s ∈ S) S S' := by
    have : ∀ (A B : Schemas), Forall2 (Rel p) A B → (∀ a ∈ A, a ∈ S) →
        Forall2 (fun s s' => Rel p s s' ∧ s ∈ S) A B := by
      intro A B hAB
      induction hAB with
      | nil => intro _; exact Forall2.nil
      | cons hr _ ih =>
        intro hm
        exact Forall2.cons ⟨hr, hm _ (by simp)⟩ (ih (fun a ha => hm a (by simp [ha])))
    exact this S S' hall (fun a ha => ha)
  refine FrameOK.of_forall2 _ _ _ ?_ hmem
  intro s s' ⟨hr, hs⟩
  rcases hr with rfl | ⟨hp, X, _, rfl⟩
  · exact ⟨rfl, fun _ => ⟨rfl, rfl, rfl⟩, List.filter_sublist⟩
  · refine ⟨rfl, fun _ => ⟨rfl, rfl, rfl⟩, ?_⟩
    have hpk : (s.pkg == p.as_.pkg) = true := by simp [hp]
    have : (s.objects.filter fun kv => !targets p s kv.2) = s.objects.filter fun kv => !(kv.1 == p.as_.obj) := by
      apply List.filter_congr
      intro kv hkv
      simp [targets, hpk, (hw s hs).1 kv hkv]
    rw [this]
    exact rset_sublist_filter _ _ _

theorem wf (p : Params) (S S' : Schemas) (hw : WF S) (h : run p S = .ok S') : WF S' := by
  have hall := result_rel p S S' h
  have : ∀ (A B : Schemas), Forall2 (Rel p) A B → WF A → WF B := by
    intro A B hAB
    induction hAB with
    | nil => intro h; exact h
    | cons hr _ ih =>
      intro hA s' hs'
      rcases List.mem_cons.mp hs' with rfl | hm
      · rcases hr with rfl | ⟨_, X, hX, rfl⟩
        · exact hA _ (by simp)
        · exact rset_wf _ _ _ hX (hA _ (by simp))
      · exact ih (fun a ha => hA a (by simp [ha])) s' hm
  exact this S S' hall hw

/-! ### absent targets -/

theorem go_no_dst (p : Params) : ∀ (todo done : Schemas), (∀ s ∈ todo, s.pkg ≠ p.as_.pkg) →
    go p done todo = done ++ todo
  | [], done, _ => by simp [go]
  | s :: rest, done, h => by
    have hs : processSchema p (done ++ s :: rest) s = s := by
      simp [processSchema, h s (by simp)]
    simp only [go, hs]
    rw [go_no_dst p rest (done ++ [s]) (fun x hx => h x (by simp [hx]))]
    simp

/-- no schema of the destination package: nothing changes -/
theorem absent_dst (p : Params) (S : Schemas) (hn : ∀ s ∈ S, s.pkg ≠ p.as_.pkg) : apply p S = S := by
  simp [apply, go_no_dst p S [] hn]

theorem go_no_src (p : Params) : ∀ (todo done : Schemas),
    Schemas.locateObject (done ++ todo) p.object.pkg p.object.obj = none → go p done todo = done ++ todo
  | [], done, _ => by simp [go]
  | s :: rest, done, h => by
    have hs : processSchema p (done ++ s :: rest) s = s := by
      simp only [processSchema, h]; split <;> rfl
    simp only [go, hs]
    rw [go_no_src p rest (done ++ [s]) (by simpa using h)]
    simp

/-- the source object does not exist (documented): nothing changes -/
theorem absent_src (p : Params) (S : Schemas)
    (hn : Schemas.locateObject S p.object.pkg p.object.obj = none) : apply p S = S := by
  simp [apply, go_no_src p S [] (by simpa using hn)]

/-! ### unique package names: the fold is a map -/

def uniquePkgs (S : Schemas) : Bool := decide (S.map (·.pkg)).Nodup

theorem go_unique (p : Params) (cur : Schemas) : ∀ (todo done : Schemas), cur = done ++ todo →
    (todo.map (·.pkg)).Nodup → go p done todo = done ++ todo.map (processSchema p cur)
  | [], done, _, _ => by simp [go]
  | s :: rest, done, hc, hnd => by
    simp only [List.map_cons, List.nodup_cons] at hnd
    by_cases hp : s.pkg = p.as_.pkg
    · have hrest : ∀ x ∈ rest, x.pkg ≠ p.as_.pkg := by
        intro x hx hxp
        exact hnd.1 (List.mem_map.mpr ⟨x, hx, by rw [hxp, hp]⟩)
      have hmap : rest.map (processSchema p cur) = rest := by
        apply map_id_of_forall
        intro x hx
        simp [processSchema, hrest x hx]
      simp only [go, ← hc, List.map_cons, hmap]
      rw [go_no_dst p rest _ hrest]
      simp
    · have hs : processSchema p cur s = s := by simp [processSchema, hp]
      have hs' : processSchema p (done ++ s :: rest) s = s := by simp [processSchema, hp]
      simp only [go, hs', List.map_cons, hs]
      rw [go_unique p cur rest (done ++ [s]) (by simp [hc]) hnd.2]
      simp

theorem apply_unique (p : Params) (S : Schemas) (hu : uniquePkgs S = true) :
    apply p S = S.map (processSchema p S) := by
  simp only [uniquePkgs, decide_eq_true_eq] at hu
  simp [apply, go_unique p S S [] rfl hu]

/-! ### specification and the partial theorem -/

/-- the documented source: the object of that (EqualFold) name in the first schema of the
    source package -/
def specSource (p : Params) (S : Schemas) : Option Obj :=
  match Schemas.locate S p.object.pkg with
  | none => none
  | some s0 => (s0.objects.find? fun kv => eqFold kv.1 p.object.obj).map (·.2)

/-- documented behaviour: every schema of the destination package gets, appended, a copy of the
    source object under the new name (fields listed in `omit_fields` left out) -/
def spec (p : Params) (S : Schemas) : Schemas :=
  S.map fun s =>
    if s.pkg != p.as_.pkg then s
    else match specSource p S with
      | none => s
      | some src => { s with objects := s.objects ++ [(p.as_.obj, duplicate p src)] }

def full : Prop := ∀ (p : Params) (S S' : Schemas), WF S → uniquePkgs S = true → run p S = .ok S' → S' = spec p S

/-- decidable hypothesis: whatever matches the source name up to letter case matches it exactly -/
def exactSource (p : Params) (S : Schemas) : Bool :=
  match Schemas.locate S p.object.pkg with
  | none => true
  | some s0 => s0.objects.all fun kv => !eqFold kv.1 p.object.obj || kv.1 == p.object.obj

/-- decidable hypothesis: the new name is not taken -/
def freshDst (p : Params) (S : Schemas) : Bool :=
  S.all fun s => s.pkg != p.as_.pkg || !(s.objects.map (·.1)).contains p.as_.obj

theorem rget_eq_find (k : String) (l : List (String × Obj))
    (h : l.all (fun kv => !eqFold kv.1 k || kv.1 == k) = true) :
    rget k l = (l.find? fun kv => eqFold kv.1 k).map (·.2) := by
  induction l with
  | nil => rfl
  | cons e t ih =>
    obtain ⟨a, b⟩ := e
    simp only [List.all_cons, Bool.and_eq_true] at h
    by_cases hk : a = k
    · subst hk; simp [rget, eqFold_refl]
    · have : eqFold a k = false := by
        have := h.1
        simp only [Bool.or_eq_true, Bool.not_eq_true', beq_iff_eq] at this
        rcases this with h' | h'
        · exact h'
        · exact absurd h' hk
      simp only [rget, hk, if_false, List.find?_cons, this]
      exact ih h.2

theorem source_eq (p : Params) (S : Schemas) (he : exactSource p S = true) :
    Schemas.locateObject S p.object.pkg p.object.obj = specSource p S := by
  unfold Schemas.locateObject specSource
  unfold exactSource at he
  cases hl : Schemas.locate S p.object.pkg with
  | none => rfl
  | some s0 =>
    simp only [hl] at he ⊢
    exact rget_eq_find _ _ he

theorem correct_partial (p : Params) (S S' : Schemas) (hu : uniquePkgs S = true)
    (he : exactSource p S = true) (hf : freshDst p S = true) (h : run p S = .ok S') : S' = spec p S := by
  rw [(mkRun_ok.mp h).2, apply_unique p S hu]
  simp only [spec]
  apply List.map_congr_left
  intro s hs
  have h1 := List.all_eq_true.mp hf s hs
  simp only [processSchema, source_eq p S he]
  by_cases hp : (s.pkg != p.as_.pkg) = true
  · simp only [hp, if_true]
  · simp only [hp, Bool.false_or, Bool.not_eq_true', List.contains_eq_mem, decide_eq_false_iff_not] at h1
    simp only [hp, Bool.false_eq_true, if_false]
    cases hsrc : specSource p S with
    | none => rfl
    | some src => simp only [Cog.OMap.rset_notin_keys _ _ s.objects h1]

/-! ### counterexamples -/
def wA : Obj := { name := "A", selfPkg := "p", selfName := "A", ty := .scalar "bool" .nil [] freshMeta }
def wB : Obj := { name := "B", selfPkg := "p", selfName := "B", ty := .scalar "string" .nil [] freshMeta }
def wS : Schemas := [{ pkg := "p", objects := [("A", wA), ("B", wB)] }]

theorem wWF : WF wS := by
  intro s hs
  simp only [wS, List.mem_singleton] at hs
  subst hs
  exact ⟨by simp [wA, wB], by simp⟩

def probe (S : Schemas) : List (List String) := S.map fun s => s.objects.map (·.1)

/-- the source is given in another letter case: every other transformation would find it,
    this one silently does nothing -/
theorem counterexample_case : ¬ full := by
  intro hfull
  have h := hfull { object := ⟨"p", "a"⟩, as_ := ⟨"p", "C"⟩, omitFields := [] } wS _ wWF rfl rfl
  have := congrArg probe h
  revert this
  decide

/-- an object of the new name exists: it is replaced by the copy -/
theorem counterexample_overwrite : ¬ full := by
  intro hfull
  have h := hfull { object := ⟨"p", "A"⟩, as_ := ⟨"p", "B"⟩, omitFields := [] } wS _ wWF rfl rfl
  have := congrArg probe h
  revert this
  decide

end DuplicateObject
end Cog.Xform
