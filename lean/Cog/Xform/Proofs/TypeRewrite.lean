/-
  replace_reference and trim_enum_values: transformations that rewrite types everywhere and keep
  every name.  Specification at EVERY position, what the code does (Visitor positions; a fresh
  reference for replace_reference), frame / absent / WF, partial theorems, counterexamples.
-/
import Cog.Xform.Walk
import Cog.Xform.Proofs.ObjLocal2
namespace Cog.Xform
open Cog.IR

namespace ReplaceReference

/-- documented: the reference names `To` instead of `From`; it stays the same reference otherwise
    (nullable flag, default, hints) -/
def specHooks (p : Params) : Hooks :=
  { ref := fun pk n m => if p.from_.matchesRef pk n then .ref p.to.pkg p.to.obj m else .ref pk n m }

def spec (p : Params) (S : Schemas) : Schemas := mapTypes (xfAllTy (specHooks p)) S

def full : Prop := ∀ (p : Params) (S S' : Schemas), WF S → run p S = .ok S' → S' = spec p S

/-- what the code does -/
theorem model (p : Params) (S S' : Schemas) (hw : WF S) (h : run p S = .ok S') :
    S' = mapTypes (xfTy (hooks p)) S := by
  rw [(mkRun_ok.mp h).2]; exact visit_eq_mapTypes (xfTy (hooks p)) S hw

def isMatchingRef (p : Params) : Ty → Bool
  | .ref pk n _ => p.from_.matchesRef pk n
  | _ => false

def targets (p : Params) (_ : Schema) (o : Obj) : Bool := (visNodes o.ty).any (isMatchingRef p)
def targetsSchema (p : Params) (s : Schema) : Bool := (visNodes s.entryPointType).any (isMatchingRef p)

theorem ty_untouched (p : Params) (t : Ty) (h : (visNodes t).any (isMatchingRef p) = false) :
    xfTy (hooks p) t = t := by
  apply xf_id
  intro n hn
  have hm := List.any_eq_false.mp h n hn
  cases n with
  | ref pk nm m =>
    simp only [isMatchingRef, Bool.not_eq_true] at hm
    simp only [NodeFixed, hooks, hm, Bool.false_eq_true, if_false]
  | _ => simp [NodeFixed, hooks]

theorem frame (p : Params) (S S' : Schemas) (hw : WF S) (h : run p S = .ok S') :
    FrameOK (targets p) (targetsSchema p) S S' := by
  rw [model p S S' hw h]
  exact mapTypes_frame _ _ _ (fun _ o ho => ty_untouched p o.ty ho) (fun s hs => ty_untouched p _ hs) S

theorem absent (p : Params) (S S' : Schemas) (hw : WF S) (hn : NoTarget (targets p) S)
    (hs : ∀ s ∈ S, targetsSchema p s = false) (h : run p S = .ok S') : S' = S := by
  rw [model p S S' hw h]
  exact mapTypes_absent _ _ _ (fun _ o ho => ty_untouched p o.ty ho) (fun s hs => ty_untouched p _ hs) S hn hs

theorem wf (p : Params) (S S' : Schemas) (hw : WF S) (h : run p S = .ok S') : WF S' := by
  rw [model p S S' hw h]; exact mapTypes_wf _ S hw

/-! decidable hypotheses of the partial theorem -/

/-- every replaced reference is a plain one (not nullable, no default, no hints) -/
def plainNode (p : Params) : Ty → Bool
  | .ref pk n m => !p.from_.matchesRef pk n || ConstantToEnum.isFresh m
  | _ => true

/-- nothing the Visitor skips contains a reference to `From` -/
def cleanSkipped (p : Params) (n : Ty) : Bool :=
  (skippedBelow n).all fun r => (allNodes r).all fun x => !isMatchingRef p x

def tyOk (p : Params) (t : Ty) : Bool := (visNodes t).all fun n => plainNode p n && cleanSkipped p n

def hyp (p : Params) (S : Schemas) : Bool :=
  S.all fun s => tyOk p s.entryPointType && s.objects.all fun kv => tyOk p kv.2.ty

theorem ty_agree (p : Params) (t : Ty) (h : tyOk p t = true) :
    xfTy (hooks p) t = xfAllTy (specHooks p) t := by
  have hall := List.all_eq_true.mp h
  apply xf_eq_xfAll
  · intro n hn
    have := hall n hn
    simp only [Bool.and_eq_true] at this
    cases n with
    | ref pk nm m =>
      have hp := this.1
      simp only [plainNode, Bool.or_eq_true, Bool.not_eq_true'] at hp
      simp only [NodeAgree, hooks, specHooks]
      rcases hp with hp | hp
      · simp [hp]
      · rw [ConstantToEnum.eq_fresh m hp]
    | _ => simp [NodeAgree, hooks, specHooks]
  · intro n hn r hr
    have := hall n hn
    simp only [Bool.and_eq_true] at this
    have hc := List.all_eq_true.mp (List.all_eq_true.mp this.2 r hr)
    apply xfAll_id
    intro x hx
    have hx' := hc x hx
    cases x with
    | ref pk nm m =>
      simp only [isMatchingRef, Bool.not_eq_true'] at hx'
      simp only [NodeFixed, specHooks, hx', Bool.false_eq_true, if_false]
    | _ => simp [NodeFixed, specHooks]

theorem correct_partial (p : Params) (S S' : Schemas) (hw : WF S) (hh : hyp p S = true)
    (h : run p S = .ok S') : S' = spec p S := by
  rw [model p S S' hw h]
  simp only [mapTypes, spec]
  apply List.map_congr_left
  intro s hs
  have h1 := List.all_eq_true.mp hh s hs
  simp only [Bool.and_eq_true] at h1
  have : (s.objects.map fun kv => (kv.1, ({ kv.2 with ty := xfTy (hooks p) kv.2.ty } : Obj))) =
      s.objects.map fun kv => (kv.1, ({ kv.2 with ty := xfAllTy (specHooks p) kv.2.ty } : Obj)) := by
    apply List.map_congr_left
    intro kv hkv
    rw [ty_agree p kv.2.ty (List.all_eq_true.mp h1.2 kv hkv)]
  rw [this, ty_agree p s.entryPointType h1.1]

/-! counterexamples -/
def wO (t : Ty) : Obj := { name := "A", selfPkg := "p", selfName := "A", ty := t }
def wS (t : Ty) : Schemas := [{ pkg := "p", objects := [("A", wO t)] }]
def wP : Params := { from_ := ⟨"p", "Foo"⟩, to := ⟨"q", "Bar"⟩ }

theorem wWF (t : Ty) : WF (wS t) := by
  intro s hs
  simp only [wS, List.mem_singleton] at hs
  subst hs
  exact ⟨by simp [wO], by simp⟩

/-- (nullable flag of the object type, name referred to by a map index) -/
def probe (S : Schemas) : List (List (Bool × String)) :=
  S.map fun s => s.objects.map fun kv =>
    (kv.2.ty.getMeta.nullable, match kv.2.ty with | .map (.ref _ n _) _ _ => n | _ => "")

/-- a nullable reference is replaced by a non-nullable one -/
theorem counterexample_meta : ¬ full := by
  intro hfull
  have h := hfull wP (wS (.ref "p" "Foo" { nullable := true })) _ (wWF _) rfl
  have := congrArg probe h
  revert this
  decide

/-- a reference in a map index type is not replaced -/
theorem counterexample_offpath : ¬ full := by
  intro hfull
  have h := hfull wP (wS (.map (.ref "p" "Foo" freshMeta) (.scalar "string" .nil [] freshMeta) freshMeta)) _ (wWF _) rfl
  have := congrArg probe h
  revert this
  decide

end ReplaceReference

namespace TrimEnumValues

/-- documented: every string member value of every enum, wherever the enum occurs, loses its
    leading and trailing white space; member names and everything else stay -/
def spec (S : Schemas) : Schemas := mapTypes (xfAllTy hooks) S

def full : Prop := ∀ (S S' : Schemas), WF S → run () S = .ok S' → S' = spec S

theorem model (S S' : Schemas) (hw : WF S) (h : run () S = .ok S') : S' = mapTypes (xfTy hooks) S := by
  rw [(mkRun_ok.mp h).2]; exact visit_eq_mapTypes (xfTy hooks) S hw

/-- an enum with a string value that is not trimmed yet -/
def needsTrim : Ty → Bool
  | .enum vs _ => vs.any fun v => match v.value with | .str s => trimSpace s != s | _ => false
  | _ => false

def targets (_ : Schema) (o : Obj) : Bool := (visNodes o.ty).any needsTrim
def targetsSchema (s : Schema) : Bool := (visNodes s.entryPointType).any needsTrim

theorem trimVal_id (v : EnumVal) (h : (match v.value with | .str s => trimSpace s != s | _ => false) = false) :
    trimVal v = v := by
  unfold trimVal
  split
  · rename_i s hs
    rw [hs] at h
    simp only [bne_eq_false_iff_eq] at h
    rw [h]
    cases v; simp_all
  · rfl

theorem node_fixed (n : Ty) (h : needsTrim n = false) : NodeFixed hooks n := by
  cases n with
  | enum vs m =>
    simp only [needsTrim] at h
    simp only [NodeFixed, hooks]
    have : vs.map trimVal = vs := by
      apply map_id_of_forall
      intro v hv
      exact trimVal_id v (List.any_eq_false.mp h v hv |> fun x => by simpa using x)
    rw [this]
  | _ => simp [NodeFixed, hooks]

theorem ty_untouched (t : Ty) (h : (visNodes t).any needsTrim = false) : xfTy hooks t = t := by
  apply xf_id
  intro n hn
  exact node_fixed n (by simpa using List.any_eq_false.mp h n hn)

theorem frame (S S' : Schemas) (hw : WF S) (h : run () S = .ok S') :
    FrameOK targets targetsSchema S S' := by
  rw [model S S' hw h]
  exact mapTypes_frame _ _ _ (fun _ o ho => ty_untouched o.ty ho) (fun s hs => ty_untouched _ hs) S

theorem absent (S S' : Schemas) (hw : WF S) (hn : NoTarget targets S)
    (hs : ∀ s ∈ S, targetsSchema s = false) (h : run () S = .ok S') : S' = S := by
  rw [model S S' hw h]
  exact mapTypes_absent _ _ _ (fun _ o ho => ty_untouched o.ty ho) (fun s hs => ty_untouched _ hs) S hn hs

theorem wf (S S' : Schemas) (hw : WF S) (h : run () S = .ok S') : WF S' := by
  rw [model S S' hw h]; exact mapTypes_wf _ S hw

/-- decidable hypothesis: no enum in need of trimming hides where the Visitor does not go -/
def tyOk (t : Ty) : Bool :=
  (visNodes t).all fun n => (skippedBelow n).all fun r => (allNodes r).all fun x => !needsTrim x

def hyp (S : Schemas) : Bool := S.all fun s => tyOk s.entryPointType && s.objects.all fun kv => tyOk kv.2.ty

theorem ty_agree (t : Ty) (h : tyOk t = true) : xfTy hooks t = xfAllTy hooks t := by
  apply xf_eq_xfAll
  · intro n _; cases n <;> simp [NodeAgree]
  · intro n hn r hr
    have := List.all_eq_true.mp (List.all_eq_true.mp (List.all_eq_true.mp h n hn) r hr)
    apply xfAll_id
    intro x hx
    exact node_fixed x (by simpa using this x hx)

theorem correct_partial (S S' : Schemas) (hw : WF S) (hh : hyp S = true) (h : run () S = .ok S') :
    S' = spec S := by
  rw [model S S' hw h]
  simp only [mapTypes, spec]
  apply List.map_congr_left
  intro s hs
  have h1 := List.all_eq_true.mp hh s hs
  simp only [Bool.and_eq_true] at h1
  have : (s.objects.map fun kv => (kv.1, ({ kv.2 with ty := xfTy hooks kv.2.ty } : Obj))) =
      s.objects.map fun kv => (kv.1, ({ kv.2 with ty := xfAllTy hooks kv.2.ty } : Obj)) := by
    apply List.map_congr_left
    intro kv hkv
    rw [ty_agree kv.2.ty (List.all_eq_true.mp h1.2 kv hkv)]
  rw [this, ty_agree s.entryPointType h1.1]

/-! counterexample: an enum used as a map index type keeps its padded value -/
def wEnum : Ty := .enum [{ name := "A", value := .str " a ", kind := "string" }] freshMeta
def wO : Obj := { name := "A", selfPkg := "p", selfName := "A", ty := .map wEnum (.scalar "string" .nil [] freshMeta) freshMeta }
def wS : Schemas := [{ pkg := "p", objects := [("A", wO)] }]

theorem wWF : WF wS := by
  intro s hs
  simp only [wS, List.mem_singleton] at hs
  subst hs
  exact ⟨by simp [wO], by simp⟩

def probe (S : Schemas) : List (List (List String)) :=
  S.map fun s => s.objects.map fun kv =>
    match kv.2.ty with
    | .map (.enum vs _) _ _ => vs.map fun v => match v.value with | .str s => s | _ => "?"
    | _ => []

theorem counterexample_offpath : ¬ full := by
  intro hfull
  have h := hfull wS _ wWF rfl
  have := congrArg probe h
  revert this
  decide

end TrimEnumValues
end Cog.Xform
