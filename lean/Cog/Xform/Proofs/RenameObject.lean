/-
  rename_object: specification ("the object gets the new name and every reference to it
  follows"), what the code does, frame / absent-target / WF theorems, the partial correctness
  theorem with its decidable hypotheses, and three counterexamples to the full statement:
  `from` differing in letter case, a reference outside the Visitor's positions, a name collision.
-/
import Cog.Xform.Walk
namespace Cog.Xform
open Cog.IR

/-- hooks that rewrite references (`ref` and `constant_ref`) with `f` -/
def refHooksAll (f : String × String → String × String) : Hooks :=
  { ref := fun p n m => .ref (f (p, n)).1 (f (p, n)).2 m
    cref := fun p n v m => .cref (f (p, n)).1 (f (p, n)).2 v m }

@[simp] theorem refHooksAll_ref (f : String × String → String × String) (p n : String) (m : Meta) :
    (refHooksAll f).ref p n m = .ref (f (p, n)).1 (f (p, n)).2 m := rfl
@[simp] theorem refHooksAll_cref (f : String × String → String × String) (p n : String) (v : Val) (m : Meta) :
    (refHooksAll f).cref p n v m = .cref (f (p, n)).1 (f (p, n)).2 v m := rfl
@[simp] theorem refHooksAll_enum (f : String × String → String × String) (vs : List EnumVal) (m : Meta) :
    (refHooksAll f).enum vs m = .enum vs m := rfl
@[simp] theorem refHooksAll_disj (f : String × String → String × String) (i : DisjInfo) :
    (refHooksAll f).disj i = i := rfl
@[simp] theorem refHooksAll_structGi (f : String × String → String × String) (gi : Option (String × DisjInfo)) :
    (refHooksAll f).structGi gi = gi := rfl

/- `xfAllTy (refHooksAll f)` is `Ty.mapRefs f` of Cog.IR.Basic -/
mutual
theorem xfAll_refHooks (f : String × String → String × String) : ∀ t : Ty,
    xfAllTy (refHooksAll f) t = Ty.mapRefs f t
  | .scalar .. => by simp [xfAllTy, Ty.mapRefs]
  | .ref .. => by simp [xfAllTy, Ty.mapRefs]
  | .cref .. => by simp [xfAllTy, Ty.mapRefs]
  | .array e _ => by simp [xfAllTy, Ty.mapRefs, xfAll_refHooks f e]
  | .map i v _ => by simp [xfAllTy, Ty.mapRefs, xfAll_refHooks f i, xfAll_refHooks f v]
  | .struct fs g _ _ => by
    simp [xfAllTy, Ty.mapRefs, xfAllFields_refHooks f fs, xfAllList_refHooks f g]
  | .enum .. => by simp [xfAllTy, Ty.mapRefs]
  | .disj bs _ _ => by simp [xfAllTy, Ty.mapRefs, xfAllList_refHooks f bs]
  | .inter bs _ => by simp [xfAllTy, Ty.mapRefs, xfAllList_refHooks f bs]
  | .slot .. => by simp [xfAllTy, Ty.mapRefs]
  | .bad .. => by simp [xfAllTy, Ty.mapRefs]
theorem xfAllList_refHooks (f : String × String → String × String) : ∀ ts : List Ty,
    xfAllList (refHooksAll f) ts = Ty.mapRefsList f ts
  | [] => by simp [xfAllList, Ty.mapRefsList]
  | t :: ts => by simp [xfAllList, Ty.mapRefsList, xfAll_refHooks f t, xfAllList_refHooks f ts]
theorem xfAllFields_refHooks (f : String × String → String × String) : ∀ fs : List Field,
    xfAllFields (refHooksAll f) fs = Ty.mapRefsFields f fs
  | [] => by simp [xfAllFields, Ty.mapRefsFields]
  | fd :: fs => by simp [xfAllFields, Ty.mapRefsFields, xfAll_refHooks f fd.ty, xfAllFields_refHooks f fs]
end

/- rewriting references that are all fixed by `f` changes nothing -/
mutual
theorem mapRefs_id (f : String × String → String × String) : ∀ t : Ty,
    (∀ r ∈ Ty.refs t, f r = r) → Ty.mapRefs f t = t
  | .scalar .. => fun _ => by simp [Ty.mapRefs]
  | .ref p n m => fun h => by simp [Ty.mapRefs, h (p, n) (by simp [Ty.refs])]
  | .cref p n v m => fun h => by simp [Ty.mapRefs, h (p, n) (by simp [Ty.refs])]
  | .array e _ => fun h => by
    simp [Ty.mapRefs, mapRefs_id f e (fun r hr => h r (by simpa [Ty.refs] using hr))]
  | .map i v _ => fun h => by
    simp [Ty.mapRefs, mapRefs_id f i (fun r hr => h r (by simp [Ty.refs, hr])),
      mapRefs_id f v (fun r hr => h r (by simp [Ty.refs, hr]))]
  | .struct fs g _ _ => fun h => by
    simp [Ty.mapRefs, mapRefsFields_id f fs (fun r hr => h r (by simp [Ty.refs, hr])),
      mapRefsList_id f g (fun r hr => h r (by simp [Ty.refs, hr]))]
  | .enum .. => fun _ => by simp [Ty.mapRefs]
  | .disj bs _ _ => fun h => by
    simp [Ty.mapRefs, mapRefsList_id f bs (fun r hr => h r (by simpa [Ty.refs] using hr))]
  | .inter bs _ => fun h => by
    simp [Ty.mapRefs, mapRefsList_id f bs (fun r hr => h r (by simpa [Ty.refs] using hr))]
  | .slot .. => fun _ => by simp [Ty.mapRefs]
  | .bad .. => fun _ => by simp [Ty.mapRefs]
theorem mapRefsList_id (f : String × String → String × String) : ∀ ts : List Ty,
    (∀ r ∈ Ty.refsList ts, f r = r) → Ty.mapRefsList f ts = ts
  | [] => fun _ => by simp [Ty.mapRefsList]
  | t :: ts => fun h => by
    simp [Ty.mapRefsList, mapRefs_id f t (fun r hr => h r (by simp [Ty.refsList, hr])),
      mapRefsList_id f ts (fun r hr => h r (by simp [Ty.refsList, hr]))]
theorem mapRefsFields_id (f : String × String → String × String) : ∀ fs : List Field,
    (∀ r ∈ Ty.refsFields fs, f r = r) → Ty.mapRefsFields f fs = fs
  | [] => fun _ => by simp [Ty.mapRefsFields]
  | fd :: fs => fun h => by
    simp [Ty.mapRefsFields, mapRefs_id f fd.ty (fun r hr => h r (by simp [Ty.refsFields, hr])),
      mapRefsFields_id f fs (fun r hr => h r (by simp [Ty.refsFields, hr]))]
end

/-- references the Visitor does not rewrite: constant references it reaches, and every reference
    inside the sub-terms it skips (map index types, disjunctions kept in struct hints) -/
def offPathRefs (t : Ty) : List (String × String) :=
  (visNodes t).flatMap fun n =>
    (match n with | .cref p nm _ _ => [(p, nm)] | _ => []) ++ (skippedBelow n).flatMap Ty.refs

/-- references at the positions the Visitor reaches (`ref` nodes only) -/
def visRefs (t : Ty) : List (String × String) :=
  (visNodes t).flatMap fun n => match n with | .ref p nm _ => [(p, nm)] | _ => []

namespace RenameObject

/-- the (package, name) pairs of the objects accepted by `from` -/
def renamed (p : Params) (S : Schemas) : List (String × String) :=
  S.flatMap fun s => (s.objects.filter fun kv => p.from_.matchesObj kv.2).map fun kv => (kv.2.selfPkg, kv.2.selfName)

/-- the documented reference rewriting: a reference to a renamed object gets the new name -/
def refMap (p : Params) (S : Schemas) (r : String × String) : String × String :=
  if (renamed p S).contains r then (r.1, p.to) else r

def specObj (p : Params) (S : Schemas) (o : Obj) : Obj :=
  if p.from_.matchesObj o then
    { o with name := p.to, selfName := p.to, ty := xfAllTy (refHooksAll (refMap p S)) o.ty }
  else { o with ty := xfAllTy (refHooksAll (refMap p S)) o.ty }

/-- documented behaviour: every accepted object carries the new name (key, `Name`, self
    reference) at its old position; every reference to such an object, at every position of every
    type (entry point types included), names it by the new name; nothing else changes -/
def spec (p : Params) (S : Schemas) : Schemas :=
  S.map fun s =>
    { s with entryPointType := xfAllTy (refHooksAll (refMap p S)) s.entryPointType
             objects := s.objects.map fun kv => ((specObj p S kv.2).name, specObj p S kv.2) }

def full : Prop := ∀ (p : Params) (S S' : Schemas), WF S → run p S = .ok S' → S' = spec p S

/-- what the code's hook is, as a reference rewriting -/
def exactMap (p : Params) (r : String × String) : String × String :=
  if r.1 == p.from_.pkg && r.2 == p.from_.obj then (r.1, p.to) else r

theorem hooks_ref (p : Params) (pk n : String) (m : Meta) :
    (hooks p).ref pk n m = .ref (exactMap p (pk, n)).1 (exactMap p (pk, n)).2 m := by
  simp only [hooks, exactMap]; split <;> rfl

/-! ### decidable hypotheses of the partial theorem -/

/-- every accepted object is named exactly as `from` says, and there is one -/
def exactCase (p : Params) (S : Schemas) : Bool :=
  !(renamed p S).isEmpty && (renamed p S).all fun r => r.2 == p.from_.obj

/-- nothing outside the Visitor's positions refers to `from` -/
def offPathClean (p : Params) (S : Schemas) : Bool :=
  S.all fun s =>
    (offPathRefs s.entryPointType).all (fun r => !(r.1 == p.from_.pkg && r.2 == p.from_.obj)) &&
    s.objects.all fun kv => (offPathRefs kv.2.ty).all fun r => !(r.1 == p.from_.pkg && r.2 == p.from_.obj)

/-- the new names do not collide (with each other or with the names that stay) -/
def noCollision (p : Params) (S : Schemas) : Bool :=
  S.all fun s => decide (s.objects.map fun kv => (onObj p kv.2).name).Nodup

theorem renamed_pkg (p : Params) (S : Schemas) (r : String × String) (h : r ∈ renamed p S) :
    r.1 = p.from_.pkg := by
  simp only [renamed, List.mem_flatMap, List.mem_map, List.mem_filter] at h
  obtain ⟨s, _, kv, ⟨_, hm⟩, rfl⟩ := h
  simp only [ObjRef.matchesObj, ObjRef.matchesRef, Bool.and_eq_true, beq_iff_eq] at hm
  exact hm.1

theorem refMap_eq_exact (p : Params) (S : Schemas) (he : exactCase p S = true) (r : String × String) :
    refMap p S r = exactMap p r := by
  simp only [exactCase, Bool.and_eq_true, Bool.not_eq_true', List.all_eq_true, beq_iff_eq] at he
  obtain ⟨hne, hall⟩ := he
  simp only [refMap, exactMap]
  by_cases hc : (renamed p S).contains r = true
  · have hm : r ∈ renamed p S := by simpa using hc
    have h1 := renamed_pkg p S r hm
    have h2 := hall r hm
    have h3 : (r.1 == p.from_.pkg && r.2 == p.from_.obj) = true := by simp [h1, h2]
    simp only [hc, h3, if_true]
  · have hnm : r ∉ renamed p S := by simpa using hc
    have : ¬ (r.1 = p.from_.pkg ∧ r.2 = p.from_.obj) := by
      intro ⟨h1, h2⟩
      cases hl : renamed p S with
      | nil => simp [hl] at hne
      | cons x xs =>
        have hx : x ∈ renamed p S := by simp [hl]
        have : x = r := by
          have a := renamed_pkg p S x hx
          have b := hall x hx
          exact Prod.ext (by rw [a, h1]) (by rw [b, h2])
        exact hnm (this ▸ hx)
    simp only [Bool.not_eq_true] at hc
    simp only [hc, Bool.false_eq_true, if_false]
    by_cases h1 : r.1 = p.from_.pkg <;> by_cases h2 : r.2 = p.from_.obj <;> simp_all

/-- on one type: the Visitor with the code's hook does the documented rewriting -/
theorem ty_agree (p : Params) (S : Schemas) (he : exactCase p S = true) (t : Ty)
    (hoff : (offPathRefs t).all (fun r => !(r.1 == p.from_.pkg && r.2 == p.from_.obj)) = true) :
    xfTy (hooks p) t = xfAllTy (refHooksAll (refMap p S)) t := by
  have hfix : ∀ r ∈ offPathRefs t, refMap p S r = r := by
    intro r hr
    have := List.all_eq_true.mp hoff r hr
    rw [refMap_eq_exact p S he]
    simp only [exactMap]
    simp only [Bool.not_eq_true'] at this
    simp [this]
  apply xf_eq_xfAll
  · intro n hn
    cases n with
    | ref pk nm m =>
      simp only [NodeAgree, hooks_ref, refHooksAll, refMap_eq_exact p S he]
    | cref pk nm v m =>
      have : refMap p S (pk, nm) = (pk, nm) := hfix (pk, nm) (by
        simp only [offPathRefs, List.mem_flatMap]
        exact ⟨_, hn, by simp⟩)
      simp [NodeAgree, hooks, refHooksAll, this]
    | _ => simp [NodeAgree, hooks, refHooksAll]
  · intro n hn r hr
    rw [xfAll_refHooks]
    apply mapRefs_id
    intro x hx
    exact hfix x (by
      simp only [offPathRefs, List.mem_flatMap]
      exact ⟨n, hn, by simp only [List.mem_append, List.mem_flatMap]; exact Or.inr ⟨r, hr, hx⟩⟩)

theorem onObj_eq_spec (p : Params) (S : Schemas) (he : exactCase p S = true) (o : Obj)
    (hoff : (offPathRefs o.ty).all (fun r => !(r.1 == p.from_.pkg && r.2 == p.from_.obj)) = true) :
    onObj p o = specObj p S o := by
  simp only [onObj, specObj, ty_agree p S he o.ty hoff]

theorem correct_partial (p : Params) (S S' : Schemas) (he : exactCase p S = true)
    (ho : offPathClean p S = true) (hc : noCollision p S = true) (h : run p S = .ok S') :
    S' = spec p S := by
  rw [(mkRun_ok.mp h).2]
  simp only [apply, spec]
  apply List.map_congr_left
  intro s hs
  have hos := List.all_eq_true.mp ho s hs
  simp only [Bool.and_eq_true] at hos
  have hcs := List.all_eq_true.mp hc s hs
  simp only [decide_eq_true_eq] at hcs
  simp only [visitSchema]
  rw [ty_agree p S he s.entryPointType hos.1, rebuild_eq (onObj p) s.objects [] (by simpa using hcs)]
  have : (s.objects.map fun kv => ((onObj p kv.2).name, onObj p kv.2)) =
      s.objects.map fun kv => ((specObj p S kv.2).name, specObj p S kv.2) := by
    apply List.map_congr_left
    intro kv hkv
    rw [onObj_eq_spec p S he kv.2 (List.all_eq_true.mp hos.2 kv hkv)]
  simp [this]

/-! ### frame, absent target, WF (for the code as it is) -/

/-- targets: accepted objects and objects holding a reference (at a position the Visitor
    reaches) to exactly `from` -/
def targets (p : Params) (_ : Schema) (o : Obj) : Bool :=
  p.from_.matchesObj o || (visRefs o.ty).any fun r => r.1 == p.from_.pkg && r.2 == p.from_.obj

def targetsSchema (p : Params) (s : Schema) : Bool :=
  (visRefs s.entryPointType).any fun r => r.1 == p.from_.pkg && r.2 == p.from_.obj

theorem ty_untouched (p : Params) (t : Ty)
    (h : (visRefs t).any (fun r => r.1 == p.from_.pkg && r.2 == p.from_.obj) = false) :
    xfTy (hooks p) t = t := by
  apply xf_id
  intro n hn
  cases n with
  | ref pk nm m =>
    have : (pk == p.from_.pkg && nm == p.from_.obj) = false :=
      List.any_eq_false.mp h (pk, nm) (by
        simp only [visRefs, List.mem_flatMap]; exact ⟨_, hn, by simp⟩) |> fun x => by simpa using x
    simp only [NodeFixed, hooks, this, Bool.false_eq_true, if_false]
  | _ => simp [NodeFixed, hooks]

theorem untargeted (p : Params) (s : Schema) (o : Obj) (h : targets p s o = false) : onObj p o = o := by
  simp only [targets, Bool.or_eq_false_iff] at h
  simp only [onObj, h.1, Bool.false_eq_true, if_false, ty_untouched p o.ty h.2]

theorem frame_partial (p : Params) (S S' : Schemas) (hw : WF S) (hc : noCollision p S = true)
    (h : run p S = .ok S') : FrameOK (targets p) (targetsSchema p) S S' := by
  rw [(mkRun_ok.mp h).2]
  refine ⟨by simp [apply], ?_, ?_⟩
  · intro i s s' h1 h2
    simp only [apply, List.getElem?_map, h1, Option.map_some, Option.some.injEq] at h2
    subst h2
    exact ⟨rfl, fun hs => ⟨rfl, rfl, ty_untouched p s.entryPointType hs⟩⟩
  · intro i s s' h1 h2
    simp only [apply, List.getElem?_map, h1, Option.map_some, Option.some.injEq] at h2
    subst h2
    have hs : s ∈ S := List.mem_of_getElem? h1
    have hcs := List.all_eq_true.mp hc s hs
    simp only [decide_eq_true_eq] at hcs
    simp only [visitSchema]
    rw [rebuild_eq (onObj p) s.objects [] (by simpa using hcs)]
    simp only [List.nil_append]
    exact sublist_filter_rename (targets p s) (onObj p) (untargeted p s) s.objects (hw s hs).1

theorem wf_partial (p : Params) (S S' : Schemas) (hc : noCollision p S = true) (h : run p S = .ok S') :
    WF S' := by
  rw [(mkRun_ok.mp h).2]
  intro s' hs'
  simp only [apply, List.mem_map] at hs'
  obtain ⟨s, hs, rfl⟩ := hs'
  have hcs := List.all_eq_true.mp hc s hs
  simp only [decide_eq_true_eq] at hcs
  simp only [visitSchema]
  rw [rebuild_eq (onObj p) s.objects [] (by simpa using hcs)]
  refine ⟨?_, ?_⟩
  · intro kv hkv
    simp only [List.nil_append, List.mem_map] at hkv
    obtain ⟨kv0, _, rfl⟩ := hkv
    rfl
  · simpa [List.map_map, Function.comp_def] using hcs

/-- no accepted object and no reference to `from` anywhere: nothing changes -/
theorem absent (p : Params) (S S' : Schemas) (hw : WF S) (hn : NoTarget (targets p) S)
    (hs : ∀ s ∈ S, targetsSchema p s = false) (h : run p S = .ok S') : S' = S := by
  rw [(mkRun_ok.mp h).2]
  apply map_id_of_forall
  intro s hsm
  have hobj : ∀ kv ∈ s.objects, onObj p kv.2 = kv.2 := fun kv hkv => untargeted p s kv.2 (hn s hsm kv hkv)
  have hreb : rebuild (onObj p) [] s.objects = rebuild id [] s.objects :=
    rebuild_congr' (onObj p) id s.objects [] (fun kv hkv => by simp [hobj kv hkv])
  simp only [visitSchema, hreb, ty_untouched p s.entryPointType (hs s hsm)]
  rw [rebuild_map id (fun _ => rfl) s.objects (hw s hsm)]
  simp

/-! ### counterexamples to the full statement -/

def wStr : Ty := .scalar "string" .nil [] freshMeta
def wFoo : Obj := { name := "Foo", selfPkg := "p", selfName := "Foo", ty := wStr }
def wBar (t : Ty) : Obj :=
  { name := "Bar", selfPkg := "p", selfName := "Bar", ty := .struct [{ name := "a", ty := t, required := true }] [] none freshMeta }
def wS (t : Ty) : Schemas := [{ pkg := "p", objects := [("Foo", wFoo), ("Bar", wBar t)] }]

theorem wWF (t : Ty) : WF (wS t) := by
  intro s hs
  simp only [wS, List.mem_singleton] at hs
  subst hs
  exact ⟨by simp [wFoo, wBar], by simp⟩

/-- names referred to by the first field of every struct object, and the object keys -/
def probe (S : Schemas) : List (List (String × String)) :=
  S.map fun s => s.objects.map fun kv =>
    (kv.1, match kv.2.ty with
      | .struct ({ ty := .ref _ n _, .. } :: _) _ _ _ => n
      | .struct ({ ty := .cref _ n _ _, .. } :: _) _ _ _ => n
      | _ => "")

/-- `from` differs from the object's name in letter case: the object is renamed, the reference
    to it is left behind -/
theorem counterexample_case : ¬ full := by
  intro hfull
  have h := hfull { from_ := ⟨"p", "foo"⟩, to := "Zed" } (wS (.ref "p" "Foo" freshMeta)) _ (wWF _) rfl
  have := congrArg probe h
  revert this
  decide

/-- a constant reference (or a reference in a map index) to the renamed object is not rewritten -/
theorem counterexample_offpath : ¬ full := by
  intro hfull
  have h := hfull { from_ := ⟨"p", "Foo"⟩, to := "Zed" } (wS (.cref "p" "Foo" (.str "x") freshMeta)) _ (wWF _) rfl
  have := congrArg probe h
  revert this
  decide

/-- the new name is already taken: one of the two objects is silently lost -/
theorem counterexample_collision : ¬ full := by
  intro hfull
  have h := hfull { from_ := ⟨"p", "Foo"⟩, to := "Bar" } (wS wStr) _ (wWF _) rfl
  have := congrArg probe h
  revert this
  decide

end RenameObject
end Cog.Xform
