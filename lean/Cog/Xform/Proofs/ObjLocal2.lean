/-
  Object-local transformations whose implementation deviates from the documented behaviour on
  some inputs: retype_field (stops at the first matching field), fields_set_default (a Go map is
  iterated: last matching entry wins), constant_to_enum (drops Nullable/Default/hints),
  hint_object (writes into a nil map).  Full statements, partial theorems, counterexamples.
-/
import Cog.Xform.Proofs.ObjLocal
import Cog.Xform.Proofs.SortDefaults
namespace Cog.Xform
open Cog.IR

/-! ## retype_field -/
namespace RetypeField

def targets (p : Params) (_ : Schema) (o : Obj) : Bool :=
  match o.ty with
  | .struct fs _ _ _ => fs.any fun f => p.field.matchesOF o f
  | _ => false

def retypeAll (p : Params) (o : Obj) (fs : List Field) : List Field :=
  fs.map fun f => if p.field.matchesOF o f then { f with ty := p.as_, comments := p.comments.getD f.comments } else f

/-- documented behaviour on one object: EVERY field accepted by the reference gets the
    configured type (and comments); other fields, their order and the rest of the object stay -/
def specObj (p : Params) (o : Obj) : Obj :=
  match o.ty with
  | .struct fs g gi m => { o with ty := .struct (retypeAll p o fs) g gi m }
  | _ => o

def spec (p : Params) (S : Schemas) : Schemas := mapObjs (specObj p) S

/-- the full statement -/
def full : Prop := ∀ (p : Params) (S S' : Schemas), WF S → run p S = .ok S' → S' = spec p S

theorem onObj_name (p : Params) (o : Obj) : (onObj p o).name = o.name := by
  unfold onObj; split <;> rfl

/-- what the code does, always -/
theorem model (p : Params) (S S' : Schemas) (hw : WF S) (h : run p S = .ok S') :
    S' = mapObjs (onObj p) S := objLocal_correct (onObj p) (onObj_name p) S S' hw h

theorem retypeFirst_nomatch (p : Params) (o : Obj) (fs : List Field)
    (h : fs.any (fun f => p.field.matchesOF o f) = false) : retypeFirst p o fs = fs := by
  induction fs with
  | nil => rfl
  | cons f rest ih =>
    simp only [List.any_cons, Bool.or_eq_false_iff] at h
    simp [retypeFirst, h.1, ih h.2]

theorem retypeAll_nomatch (p : Params) (o : Obj) (fs : List Field)
    (h : fs.any (fun f => p.field.matchesOF o f) = false) : retypeAll p o fs = fs := by
  apply map_id_of_forall
  intro f hf
  have := List.any_eq_false.mp h f hf
  simp [this]

/-- with at most one matching field, "first" and "every" coincide -/
theorem retypeFirst_eq_all (p : Params) (o : Obj) (fs : List Field)
    (h : (fs.filter fun f => p.field.matchesOF o f).length ≤ 1) : retypeFirst p o fs = retypeAll p o fs := by
  induction fs with
  | nil => rfl
  | cons f rest ih =>
    cases hm : p.field.matchesOF o f with
    | true =>
      simp only [List.filter_cons, hm, if_true, List.length_cons] at h
      have hrest : (rest.filter fun f => p.field.matchesOF o f) = [] := by
        apply List.eq_nil_of_length_eq_zero; omega
      have hany : rest.any (fun f => p.field.matchesOF o f) = false := by
        apply List.any_eq_false.mpr
        intro x hx hmx
        have : x ∈ rest.filter fun f => p.field.matchesOF o f := List.mem_filter.mpr ⟨hx, hmx⟩
        rw [hrest] at this; cases this
      simp only [retypeFirst, hm, if_true, retypeAll, List.map_cons]
      have := retypeAll_nomatch p o rest hany
      simp only [retypeAll] at this
      rw [this]
    | false =>
      simp only [List.filter_cons, hm] at h
      simp only [retypeFirst, hm, retypeAll, List.map_cons]
      have := ih (by simpa using h)
      simp only [retypeAll] at this
      simp [this]

/-- decidable hypothesis of the partial theorem: no object has two fields accepted by the reference -/
def singleObj (p : Params) (o : Obj) : Bool :=
  match o.ty with
  | .struct fs _ _ _ => decide ((fs.filter fun f => p.field.matchesOF o f).length ≤ 1)
  | _ => true

def singleMatch (p : Params) (S : Schemas) : Bool :=
  S.all fun s => s.objects.all fun kv => singleObj p kv.2

theorem onObj_eq_spec (p : Params) (o : Obj) (h : singleObj p o = true) : onObj p o = specObj p o := by
  unfold onObj specObj
  unfold singleObj at h
  cases hty : o.ty <;> simp only [hty] at h ⊢
  rename_i fs g gi m
  simp only [decide_eq_true_eq] at h
  rw [retypeFirst_eq_all p o fs h]

theorem correct_partial (p : Params) (S S' : Schemas) (hw : WF S) (hs : singleMatch p S = true)
    (h : run p S = .ok S') : S' = spec p S := by
  rw [model p S S' hw h]
  simp only [mapObjs, spec]
  apply List.map_congr_left
  intro s hsm
  have h1 := List.all_eq_true.mp hs s hsm
  have : (s.objects.map fun kv => (kv.1, onObj p kv.2)) = s.objects.map fun kv => (kv.1, specObj p kv.2) := by
    apply List.map_congr_left
    intro kv hkv
    have h2 := List.all_eq_true.mp h1 kv hkv
    rw [onObj_eq_spec p kv.2 h2]
  rw [this]

theorem untargeted (p : Params) (s : Schema) (o : Obj) (h : targets p s o = false) : onObj p o = o := by
  unfold onObj
  unfold targets at h
  split
  · rename_i fs g gi m heq
    rw [heq] at h
    simp only at h
    rw [retypeFirst_nomatch p o fs h, ← heq]
  · rfl

theorem frame (p : Params) (S S' : Schemas) (hw : WF S) (h : run p S = .ok S') :
    FrameOK (targets p) (fun _ => false) S S' := by
  rw [model p S S' hw h]; exact mapObjs_frame _ _ (untargeted p) S

theorem absent (p : Params) (S S' : Schemas) (hw : WF S) (hn : NoTarget (targets p) S)
    (h : run p S = .ok S') : S' = S := by
  rw [model p S S' hw h]; exact mapObjs_absent _ _ (untargeted p) S hn

theorem wf (p : Params) (S S' : Schemas) (hw : WF S) (h : run p S = .ok S') : WF S' := by
  rw [model p S S' hw h]; exact mapObjs_wf _ (onObj_name p) S hw

/-! witness: object `A` with fields `value` and `Value`, reference `p.A.value` -/
def wParams : Params := { field := ⟨"p", "A", "value"⟩, as_ := .scalar "string" .nil [] freshMeta, comments := none }
def wBool : Ty := .scalar "bool" .nil [] freshMeta
def wFields : List Field :=
  [{ name := "value", ty := wBool, required := true }, { name := "Value", ty := wBool, required := true }]
def wObj : Obj := { name := "A", selfPkg := "p", selfName := "A", ty := .struct wFields [] none freshMeta }
def wSchemas : Schemas := [{ pkg := "p", objects := [("A", wObj)] }]

/-- scalar kinds of the fields of every object (what the witness is observed through) -/
def probe (S : Schemas) : List (List (List String)) :=
  S.map fun s => s.objects.map fun kv =>
    match kv.2.ty with
    | .struct fs _ _ _ => fs.map fun f => match f.ty with | .scalar k _ _ _ => k | _ => "?"
    | _ => []

theorem wWF : WF wSchemas := by
  intro s hs
  simp only [wSchemas, List.mem_singleton] at hs
  subst hs
  exact ⟨by simp [wObj], by simp⟩

theorem counterexample : ¬ full := by
  intro hfull
  have h := hfull wParams wSchemas (RetypeField.apply wParams wSchemas) wWF rfl
  have := congrArg probe h
  revert this
  decide

end RetypeField

/-! ## fields_set_default -/
namespace FieldsSetDefault

def entryMatches (o : Obj) (f : Field) (e : FieldRef × Val) : Bool := e.1.matchesOF o f

def targets (p : Params) (_ : Schema) (o : Obj) : Bool :=
  match o.ty with
  | .struct fs _ _ _ => fs.any fun f => p.defaults.any (entryMatches o f)
  | _ => false

/-- documented behaviour (doc comment of the pass): the references are examined in sorted order
    (package, object, field); every field takes the value of the last reference accepting it;
    nothing else of the field or the object changes -/
def specObj (p : Params) (o : Obj) : Obj := onObj (sorted p) o

def spec (p : Params) (S : Schemas) : Schemas := mapObjs (specObj p) S

theorem onObj_name (p : Params) (o : Obj) : (onObj p o).name = o.name := by
  unfold onObj; split <;> rfl

theorem correct (p : Params) (S S' : Schemas) (hw : WF S) (h : run p S = .ok S') : S' = spec p S :=
  objLocal_correct (onObj (sorted p)) (onObj_name (sorted p)) S S' hw h

theorem setDefault_name (v : Val) (f : Field) : (setDefault v f).name = f.name := rfl

/-- only the matching entries matter (matching looks at the field NAME, which never changes) -/
theorem foldl_filter (o : Obj) (f0 : Field) : ∀ (ds : List (FieldRef × Val)) (f : Field), f.name = f0.name →
    ds.foldl (fun f e => if e.1.matchesOF o f then setDefault e.2 f else f) f =
    (ds.filter (entryMatches o f0)).foldl (fun f e => setDefault e.2 f) f
  | [], _, _ => rfl
  | e :: rest, f, hn => by
    have hm : e.1.matchesOF o f = entryMatches o f0 e := by
      simp [entryMatches, FieldRef.matchesOF, hn]
    cases hc : entryMatches o f0 e with
    | true =>
      simp only [List.foldl_cons, hm, hc, if_true, List.filter_cons]
      exact foldl_filter o f0 rest _ (by rw [setDefault_name]; exact hn)
    | false =>
      simp only [List.foldl_cons, hm, hc, List.filter_cons]
      exact foldl_filter o f0 rest f hn

theorem onField_nomatch (p : Params) (o : Obj) (f : Field)
    (h : p.defaults.any (entryMatches o f) = false) : onField p o f = f := by
  unfold onField
  rw [foldl_filter o f p.defaults f rfl]
  have : p.defaults.filter (entryMatches o f) = [] := by
    apply List.filter_eq_nil_iff.mpr
    intro e he hm
    have := List.any_eq_false.mp h e he
    exact this hm
  rw [this]; rfl

theorem any_sorted (p : Params) (q : FieldRef × Val → Bool) : (sorted p).defaults.any q = p.defaults.any q := by
  apply Bool.eq_iff_iff.mpr
  simp only [List.any_eq_true, sorted, mem_sortDefaults]

theorem untargeted (p : Params) (s : Schema) (o : Obj) (h : targets p s o = false) : specObj p o = o := by
  unfold specObj onObj
  unfold targets at h
  cases hty : o.ty <;> simp only [hty] at h ⊢
  rename_i fs g gi m
  have : fs.map (onField (sorted p) o) = fs := by
    apply map_id_of_forall
    intro f hf
    apply onField_nomatch
    rw [any_sorted]
    simpa using List.any_eq_false.mp h f hf
  rw [this, ← hty]

theorem frame (p : Params) (S S' : Schemas) (hw : WF S) (h : run p S = .ok S') :
    FrameOK (targets p) (fun _ => false) S S' := by
  rw [correct p S S' hw h]; exact mapObjs_frame _ _ (untargeted p) S

theorem absent (p : Params) (S S' : Schemas) (hw : WF S) (hn : NoTarget (targets p) S)
    (h : run p S = .ok S') : S' = S := by
  rw [correct p S S' hw h]; exact mapObjs_absent _ _ (untargeted p) S hn

theorem wf (p : Params) (S S' : Schemas) (hw : WF S) (h : run p S = .ok S') : WF S' := by
  rw [correct p S S' hw h]; exact mapObjs_wf _ (onObj_name (sorted p)) S hw

/-- `defaults` is a YAML mapping / Go map: the outcome does not depend on the order in which the
    map iteration delivers its (distinct) keys -/
theorem order_independent (p p' : Params) (S : Schemas) (hp : p'.defaults.Perm p.defaults)
    (hk : (p.defaults.map (·.1)).Nodup) : run p' S = run p S := by
  have : sorted p' = sorted p := by simp only [sorted, sortDefaults_perm p.defaults p'.defaults hp hk]
  simp only [run, apply, this]
  rfl

/-- when no field is accepted by two references, the sorting does not matter either: the result
    is that of any order -/
def unambiguousObj (p : Params) (o : Obj) : Bool :=
  match o.ty with
  | .struct fs _ _ _ => fs.all fun f => decide ((p.defaults.filter (entryMatches o f)).length ≤ 1)
  | _ => true

def unambiguous (p : Params) (S : Schemas) : Bool :=
  S.all fun s => s.objects.all fun kv => unambiguousObj p kv.2

/-! witness of "the last reference in sorted order wins": keys `p.A.a` and `p.a.A` both accept
    field `a` of object `A` -/
def wA : Obj :=
  { name := "A", selfPkg := "p", selfName := "A", ty := .struct [{ name := "a", ty := .scalar "string" .nil [] freshMeta, required := true }] [] none freshMeta }
def wSchemas : Schemas := [{ pkg := "p", objects := [("A", wA)] }]
def wP : Params := { defaults := [(⟨"p", "a", "A"⟩, .str "y"), (⟨"p", "A", "a"⟩, .str "x")] }

def probeOut : Outcome Schemas → List (List (List String))
  | .ok S => S.map fun s => s.objects.map fun kv =>
    match kv.2.ty with
    | .struct fs _ _ _ => fs.map fun f => match f.ty.getMeta.dflt with | .str v => v | _ => "?"
    | _ => []
  | _ => []

example : probeOut (run wP wSchemas) = [[["y"]]] := by decide

end FieldsSetDefault

/-! ## constant_to_enum -/
namespace ConstantToEnum

def isStringConst : Ty → Bool
  | .scalar "string" (.str _) _ _ => true
  | _ => false

def targets (p : Params) (_ : Schema) (o : Obj) : Bool := matchesAny p.objects o && isStringConst o.ty

/-- documented behaviour on one object: a targeted string constant becomes an enum with the
    single member (name = value = the constant); nothing else of the object changes — in
    particular not the Nullable flag, the default and the hints of its type -/
def specObj (p : Params) (o : Obj) : Obj :=
  if matchesAny p.objects o then
    match o.ty with
    | .scalar "string" (.str v) _ m => { o with ty := .enum [{ name := v, value := .str v, kind := "string" }] m }
    | _ => o
  else o

def spec (p : Params) (S : Schemas) : Schemas := mapObjs (specObj p) S

def full : Prop := ∀ (p : Params) (S S' : Schemas), WF S → run p S = .ok S' → S' = spec p S

theorem onObj_name (p : Params) (o : Obj) : (onObj p o).name = o.name := by
  unfold onObj; split
  · split <;> rfl
  · rfl

theorem model (p : Params) (S S' : Schemas) (hw : WF S) (h : run p S = .ok S') :
    S' = mapObjs (onObj p) S := objLocal_correct (onObj p) (onObj_name p) S S' hw h

def isFresh (m : Meta) : Bool := !m.nullable && isNilVal m.dflt && m.hints.isEmpty

theorem eq_fresh (m : Meta) (h : isFresh m = true) : m = freshMeta := by
  obtain ⟨n, d, hs⟩ := m
  simp only [isFresh, Bool.and_eq_true, Bool.not_eq_true', List.isEmpty_iff] at h
  obtain ⟨⟨h1, h2⟩, h3⟩ := h
  cases d <;> simp [isNilVal] at h2
  simp [freshMeta, h1, h3]

/-- decidable hypothesis: the targeted constants carry no Nullable flag, default or hints -/
def plainObj (p : Params) (o : Obj) : Bool :=
  if matchesAny p.objects o then
    match o.ty with
    | .scalar "string" (.str _) _ m => isFresh m
    | _ => true
  else true

def plainTargets (p : Params) (S : Schemas) : Bool :=
  S.all fun s => s.objects.all fun kv => plainObj p kv.2

theorem onObj_eq_spec (p : Params) (o : Obj) (h : plainObj p o = true) : onObj p o = specObj p o := by
  unfold onObj specObj
  unfold plainObj at h
  split
  · rename_i hm
    simp only [hm, if_true] at h
    split
    · rename_i v cs m heq
      rw [heq] at h
      simp only at h
      simp only [heq, eq_fresh m h]
    · rename_i hne
      split
      · rename_i v cs m heq
        exact absurd heq (hne v cs m)
      · rfl
  · rfl

theorem correct_partial (p : Params) (S S' : Schemas) (hw : WF S) (hs : plainTargets p S = true)
    (h : run p S = .ok S') : S' = spec p S := by
  rw [model p S S' hw h]
  simp only [mapObjs, spec]
  apply List.map_congr_left
  intro s hsm
  have h1 := List.all_eq_true.mp hs s hsm
  have : (s.objects.map fun kv => (kv.1, onObj p kv.2)) = s.objects.map fun kv => (kv.1, specObj p kv.2) := by
    apply List.map_congr_left
    intro kv hkv
    rw [onObj_eq_spec p kv.2 (List.all_eq_true.mp h1 kv hkv)]
  rw [this]

theorem untargeted (p : Params) (s : Schema) (o : Obj) (h : targets p s o = false) : onObj p o = o := by
  unfold onObj
  unfold targets at h
  split
  · rename_i hm
    simp only [hm, Bool.true_and] at h
    split
    · rename_i v cs m heq
      rw [heq] at h; simp [isStringConst] at h
    · rfl
  · rfl

theorem frame (p : Params) (S S' : Schemas) (hw : WF S) (h : run p S = .ok S') :
    FrameOK (targets p) (fun _ => false) S S' := by
  rw [model p S S' hw h]; exact mapObjs_frame _ _ (untargeted p) S

theorem absent (p : Params) (S S' : Schemas) (hw : WF S) (hn : NoTarget (targets p) S)
    (h : run p S = .ok S') : S' = S := by
  rw [model p S S' hw h]; exact mapObjs_absent _ _ (untargeted p) S hn

theorem wf (p : Params) (S S' : Schemas) (hw : WF S) (h : run p S = .ok S') : WF S' := by
  rw [model p S S' hw h]; exact mapObjs_wf _ (onObj_name p) S hw

/-! witness: a nullable string constant -/
def wK : Obj := { name := "K", selfPkg := "p", selfName := "K", ty := .scalar "string" (.str "v") [] { nullable := true } }
def wSchemas : Schemas := [{ pkg := "p", objects := [("K", wK)] }]
def wP : Params := { objects := [⟨"p", "K"⟩] }

def probe (S : Schemas) : List (List Bool) :=
  S.map fun s => s.objects.map fun kv => kv.2.ty.getMeta.nullable

theorem wWF : WF wSchemas := by
  intro s hs
  simp only [wSchemas, List.mem_singleton] at hs
  subst hs
  exact ⟨by simp [wK], by simp⟩

theorem counterexample : ¬ full := by
  intro hfull
  have h := hfull wP wSchemas (ConstantToEnum.apply wP wSchemas) wWF rfl
  have := congrArg probe h
  revert this
  decide

/-! the former panic (fix 637545e): a `string` scalar holding the constant `1` -/
def wOdd : Obj := { name := "K", selfPkg := "p", selfName := "K", ty := .scalar "string" (.int "i" 1) [] freshMeta }
def wOddSchemas : Schemas := [{ pkg := "p", objects := [("K", wOdd)] }]

def outKind : Outcome Schemas → String
  | .ok _ => "ok" | .err _ => "err" | .panic _ => "panic"

/-- before the fix the pass panicked on it … -/
theorem preFix_panics : outKind (runPreFix wP wOddSchemas) = "panic" := by decide

/-- … now the object is left alone: not a target, the schemas come back unchanged -/
theorem odd_constant_untouched : targets wP default wOdd = false ∧ outKind (run wP wOddSchemas) = "ok" := by decide

end ConstantToEnum

/-! ## hint_object -/
namespace HintObject

def targets (p : Params) (_ : Schema) (o : Obj) : Bool := p.object.matchesObj o

/-- documented behaviour on one object: the configured hints are set on the type of a targeted
    object (existing hints of other names stay); nothing else changes -/
def specObj (p : Params) (o : Obj) : Obj :=
  if targets p default o then { o with ty := setTyHints p o.ty } else o

def spec (p : Params) (S : Schemas) : Schemas := mapObjs (specObj p) S

theorem specObj_eq (p : Params) : specObj p = onObj p := by funext o; rfl

theorem onObj_name (p : Params) (o : Obj) : (onObj p o).name = o.name := by
  unfold onObj; split <;> rfl

theorem correct (p : Params) (S S' : Schemas) (hw : WF S) (h : run p S = .ok S') : S' = spec p S := by
  rw [spec, specObj_eq]; exact objLocal_correct (onObj p) (onObj_name p) S S' hw h

theorem untargeted (p : Params) (s : Schema) (o : Obj) (h : targets p s o = false) : specObj p o = o := by
  simp only [specObj, targets] at *; simp [h]

theorem frame (p : Params) (S S' : Schemas) (hw : WF S) (h : run p S = .ok S') :
    FrameOK (targets p) (fun _ => false) S S' := by
  rw [correct p S S' hw h]; exact mapObjs_frame _ _ (untargeted p) S

theorem absent (p : Params) (S S' : Schemas) (hw : WF S) (hn : NoTarget (targets p) S)
    (h : run p S = .ok S') : S' = S := by
  rw [correct p S S' hw h]; exact mapObjs_absent _ _ (untargeted p) S hn

theorem wf (p : Params) (S S' : Schemas) (hw : WF S) (h : run p S = .ok S') : WF S' := by
  rw [correct p S S' hw h, spec, specObj_eq]; exact mapObjs_wf _ (onObj_name p) S hw

/-- entry point types that a hook-free walk survives (no nil kind pointers) -/
def EPWalkable (S : Schemas) : Prop := ∀ s ∈ S, walkFail [] s.entryPointType = none

/-- "it does what it documents" includes that it works: on schemas without nil kind pointers the
    transformation succeeds (since fix d683cb9 in /repo, also on a nil `Hints` map) -/
theorem total (p : Params) (S : Schemas) (hep : EPWalkable S) : ∃ S', run p S = .ok S' := by
  refine ⟨apply p S, ?_⟩
  have : fail? p S = none := by
    unfold fail?
    apply (firstFail_none _ S).mpr
    intro s hs
    unfold visitSchemaFail
    rw [hep s hs]
    simp only
    apply (firstFail_none _ s.objects).mpr
    intro kv _
    rfl
  simp [run, this, mkRun]

/-- the same statement for the code as it was before the fix -/
def total_full_preFix : Prop := ∀ (p : Params) (S : Schemas), EPWalkable S → ∃ S', runPreFix p S = .ok S'

/-! witness of the former defect: an object whose type came from a YAML `as:` (nil hints) -/
def wO : Obj := { name := "A", selfPkg := "p", selfName := "A", ty := .scalar "string" .nil [] (Meta.nilHints {}) }
def wSchemas : Schemas := [{ pkg := "p", objects := [("A", wO)] }]
def wP : Params := { object := ⟨"p", "A"⟩, hints := [("kind", .str "x")] }

def isOk : Outcome Schemas → Bool | .ok _ => true | _ => false

theorem counterexample_preFix : ¬ total_full_preFix := by
  intro hfull
  obtain ⟨S', h⟩ := hfull wP wSchemas (by intro s hs; simp only [wSchemas, List.mem_singleton] at hs; subst hs; rfl)
  have : isOk (runPreFix wP wSchemas) = true := by rw [h]; rfl
  revert this
  decide

/-- and after the fix the same input simply gets the hint -/
example : isOk (run wP wSchemas) = true := by decide

end HintObject
end Cog.Xform
