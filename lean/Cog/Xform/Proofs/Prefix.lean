/-
  PrefixObjectsNames: specification ("adds the given prefix to every object's name", references
  following), partial theorem, frame (every object is a target), absent (empty prefix), WF, and
  three counterexamples: enum MEMBER names are rewritten too, the `EntryPoint` string is not,
  references outside the Visitor's positions are not.
-/
import Cog.Xform.Walk
namespace Cog.Xform
open Cog.IR

theorem append_left_cancel (p a b : String) (h : p ++ a = p ++ b) : a = b := by
  have := congrArg String.toList h
  simp only [String.toList_append] at this
  exact String.toList_inj.mp (List.append_cancel_left this)

theorem nodup_map_prefix (p : String) (l : List String) (h : l.Nodup) : (l.map (p ++ ·)).Nodup := by
  induction l with
  | nil => simp
  | cons a t ih =>
    simp only [List.nodup_cons] at h
    simp only [List.map_cons, List.nodup_cons, List.mem_map]
    refine ⟨?_, ih h.2⟩
    rintro ⟨b, hb, hab⟩
    exact h.1 (append_left_cancel p b a hab ▸ hb)

namespace PrefixObjectNames

/-- documented: object names, and what refers to objects by name (references, constant
    references, discriminator mappings); enum members are not objects -/
def specHooks (p : Params) : Hooks :=
  { ref := fun pk n m => .ref pk (p.pfx ++ n) m
    cref := fun pk n v m => .cref pk (p.pfx ++ n) v m
    disj := prefixMapping p
    structGi := (hooks p).structGi }

def specObj (p : Params) (o : Obj) : Obj :=
  { o with name := p.pfx ++ o.name, selfName := p.pfx ++ o.name, ty := xfAllTy (specHooks p) o.ty }

def spec (p : Params) (S : Schemas) : Schemas :=
  if p.pfx == "" then S
  else S.map fun s =>
    { s with entryPoint := if s.entryPoint == "" then "" else p.pfx ++ s.entryPoint
             entryPointType := xfAllTy (specHooks p) s.entryPointType
             objects := s.objects.map fun kv => ((specObj p kv.2).name, specObj p kv.2) }

def full : Prop := ∀ (p : Params) (S S' : Schemas), WF S → run p S = .ok S' → S' = spec p S

/-! decidable hypotheses -/

/-- enum nodes the Visitor reaches whose member names the code's hook leaves alone -/
def enumInert (p : Params) : Ty → Bool
  | .enum vs _ => vs.all fun v => upperCamelCase p.pfx ++ upperCamelCase v.name == v.name
  | _ => true

/-- nodes on which the documented rewriting does nothing -/
def inert : Ty → Bool
  | .ref .. => false
  | .cref .. => false
  | .disj _ i _ => i.mapping.isEmpty
  | .struct _ _ (some (h, di)) _ => h != hintRefs || di.mapping.isEmpty
  | _ => true

def tyOk (p : Params) (t : Ty) : Bool :=
  (visNodes t).all fun n => enumInert p n && (skippedBelow n).all fun r => (allNodes r).all inert

def hyp (p : Params) (S : Schemas) : Bool :=
  S.all fun s => s.entryPoint == "" && tyOk p s.entryPointType && s.objects.all fun kv => tyOk p kv.2.ty

theorem prefixMapping_nil (p : Params) (di : DisjInfo) (h : di.mapping.isEmpty = true) : prefixMapping p di = di := by
  obtain ⟨d, m⟩ := di
  simp only [List.isEmpty_iff] at h
  simp [prefixMapping, h]

theorem inert_fixed (p : Params) (n : Ty) (h : inert n = true) : NodeFixed (specHooks p) n := by
  cases n with
  | ref => simp [inert] at h
  | cref => simp [inert] at h
  | disj bs i m => simp only [inert] at h; simp only [NodeFixed, specHooks]; exact prefixMapping_nil p i h
  | struct fs g gi m =>
    simp only [NodeFixed, specHooks, hooks]
    cases gi with
    | none => rfl
    | some x =>
      obtain ⟨hh, di⟩ := x
      simp only [inert, Bool.or_eq_true, bne_iff_ne, ne_eq] at h
      by_cases hk : hh = hintRefs
      · have : di.mapping.isEmpty = true := by
          rcases h with h | h
          · exact absurd hk h
          · exact h
        simp [hk, prefixMapping_nil p di this]
      · have : (hh == hintRefs) = false := by simpa using hk
        simp [this]
  | _ => simp [NodeFixed, specHooks]

theorem ty_agree (p : Params) (t : Ty) (h : tyOk p t = true) :
    xfTy (hooks p) t = xfAllTy (specHooks p) t := by
  have hall := List.all_eq_true.mp h
  apply xf_eq_xfAll
  · intro n hn
    have := hall n hn
    simp only [Bool.and_eq_true] at this
    cases n with
    | enum vs m =>
      have he := this.1
      simp only [enumInert, List.all_eq_true, beq_iff_eq] at he
      simp only [NodeAgree, hooks, specHooks]
      have : (vs.map fun v => ({ v with name := upperCamelCase p.pfx ++ upperCamelCase v.name } : EnumVal)) = vs := by
        apply map_id_of_forall
        intro v hv
        rw [he v hv]
      rw [this]
    | _ => simp [NodeAgree, hooks, specHooks]
  · intro n hn r hr
    have := hall n hn
    simp only [Bool.and_eq_true] at this
    have hc := List.all_eq_true.mp (List.all_eq_true.mp this.2 r hr)
    exact xfAll_id _ r (fun x hx => inert_fixed p x (hc x hx))

theorem new_names_nodup (p : Params) (l : List (String × Obj)) (h : ObjsWF l) :
    (l.map fun kv => (onObj p kv.2).name).Nodup := by
  have : (l.map fun kv => (onObj p kv.2).name) = (l.map (·.2.name)).map (p.pfx ++ ·) := by
    simp [List.map_map, Function.comp_def, onObj]
  rw [this]
  exact nodup_map_prefix _ _ h.names_nodup

theorem correct_partial (p : Params) (S S' : Schemas) (hw : WF S) (hh : hyp p S = true)
    (h : run p S = .ok S') : S' = spec p S := by
  rw [(mkRun_ok.mp h).2]
  simp only [apply, spec]
  split
  · rfl
  · apply List.map_congr_left
    intro s hs
    have h1 := List.all_eq_true.mp hh s hs
    simp only [Bool.and_eq_true, beq_iff_eq] at h1
    obtain ⟨⟨hep, hept⟩, hobjs⟩ := h1
    simp only [visitSchema]
    rw [rebuild_eq (onObj p) s.objects [] (by simpa using new_names_nodup p s.objects (hw s hs)),
      ty_agree p s.entryPointType hept]
    have : (s.objects.map fun kv => ((onObj p kv.2).name, onObj p kv.2)) =
        s.objects.map fun kv => ((specObj p kv.2).name, specObj p kv.2) := by
      apply List.map_congr_left
      intro kv hkv
      simp only [onObj, specObj, ty_agree p kv.2.ty (List.all_eq_true.mp hobjs kv hkv)]
    simp [this, hep]

theorem filter_none {α : Type} (l : List α) : l.filter (fun _ => false) = [] := by
  induction l with
  | nil => rfl
  | cons a t ih => simp [ih]

/-- every object and every schema is a target: the frame only says that the schemas, their
    packages and their order stay -/
theorem frame (p : Params) (S S' : Schemas) (h : run p S = .ok S') :
    FrameOK (fun _ _ => true) (fun _ => true) S S' := by
  rw [(mkRun_ok.mp h).2]
  simp only [apply]
  split
  · refine ⟨rfl, ?_, ?_⟩
    · intro i s s' h1 h2
      rw [h1] at h2; cases h2
      exact ⟨rfl, fun hf => by simp at hf⟩
    · intro i s s' h1 h2
      simp only [Bool.not_true, filter_none]
      exact List.nil_sublist _
  · refine FrameOK.of_map (fun _ _ => true) (fun _ => true)
      (visitSchema (xfTy (hooks p)) fun _ => onObj p) (fun _ => rfl) ?_ ?_ S
    · intro s hf; simp at hf
    · intro s
      simp only [Bool.not_true, filter_none]
      exact List.nil_sublist _

/-- an empty prefix is "no target" -/
theorem absent (p : Params) (S : Schemas) (h : p.pfx = "") : run p S = .ok S := by
  simp [run, fail?, apply, mkRun, h]

theorem wf (p : Params) (S S' : Schemas) (hw : WF S) (h : run p S = .ok S') : WF S' := by
  rw [(mkRun_ok.mp h).2]
  simp only [apply]
  split
  · exact hw
  · intro s' hs'
    simp only [List.mem_map] at hs'
    obtain ⟨s, hs, rfl⟩ := hs'
    simp only [visitSchema]
    rw [rebuild_eq (onObj p) s.objects [] (by simpa using new_names_nodup p s.objects (hw s hs))]
    refine ⟨?_, ?_⟩
    · intro kv hkv
      simp only [List.nil_append, List.mem_map] at hkv
      obtain ⟨kv0, _, rfl⟩ := hkv
      rfl
    · simpa [List.map_map, Function.comp_def] using new_names_nodup p s.objects (hw s hs)

/-! counterexamples -/
def wO (t : Ty) : Obj := { name := "A", selfPkg := "p", selfName := "A", ty := t }
def wS (ep : String) (t : Ty) : Schemas := [{ pkg := "p", entryPoint := ep, objects := [("A", wO t)] }]
def wP : Params := { pfx := "X" }

theorem wWF (ep : String) (t : Ty) : WF (wS ep t) := by
  intro s hs
  simp only [wS, List.mem_singleton] at hs
  subst hs
  exact ⟨by simp [wO], by simp⟩

def probe (S : Schemas) : List (String × List (List String)) :=
  S.map fun s => (s.entryPoint, s.objects.map fun kv =>
    match kv.2.ty with
    | .enum vs _ => vs.map (·.name)
    | .map (.ref _ n _) _ _ => [n]
    | _ => [])

/-- enum member names are rewritten although only object names are documented to change -/
theorem counterexample_enum : ¬ full := by
  intro hfull
  have h := hfull wP (wS "" (.enum [{ name := "a", value := .str "a", kind := "string" }] freshMeta)) _ (wWF _ _) rfl
  have := congrArg probe h
  revert this
  decide

/-- the entry point NAME keeps pointing at the old object name -/
theorem counterexample_entrypoint : ¬ full := by
  intro hfull
  have h := hfull wP (wS "A" (.scalar "string" .nil [] freshMeta)) _ (wWF _ _) rfl
  have := congrArg probe h
  revert this
  decide

/-- a reference in a map index type keeps the old name -/
theorem counterexample_offpath : ¬ full := by
  intro hfull
  have h := hfull wP (wS "" (.map (.ref "p" "A" freshMeta) (.scalar "string" .nil [] freshMeta) freshMeta)) _ (wWF _ _) rfl
  have := congrArg probe h
  revert this
  decide

end PrefixObjectNames
end Cog.Xform
