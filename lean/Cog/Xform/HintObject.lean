/-
  hint_object — internal/ast/compiler/hint_object.go.  For a matching object a nil `Hints` map
  (types that came from a YAML `as:` without `hints`) is first replaced by a fresh one (fix
  d683cb9 in /repo), then every configured hint is written with `object.Type.Hints[hint] = val`.
  Before that fix the write into the nil map was a Go panic: `runPreFix` keeps that behaviour as
  a checked statement.
  `Meta.hints` is the key-sorted entry list of the Go map (that is how VIR prints it), so a map
  write is an ordered insert/overwrite.
-/
import Cog.Xform.Common
namespace Cog.Xform.HintObject
open Cog.IR Cog.Xform

structure Params where
  object : ObjRef
  hints : List (String × Val)     -- entries of the Go map (distinct keys)
  deriving Inhabited

/-- `m[k] = v` on the key-sorted entry list -/
def hintSet (k : String) (v : Val) : List (String × Val) → List (String × Val)
  | [] => [(k, v)]
  | (k', v') :: t =>
    if k' == k then (k, v) :: t
    else if k < k' then (k, v) :: (k', v') :: t
    else (k', v') :: hintSet k v t

def setHints (p : Params) (m : Meta) : Meta :=
  { m with hints := p.hints.foldl (fun hs e => hintSet e.1 e.2 hs) m.nonNilHints.hints }

/-- a struct generated from a disjunction keeps that disjunction as the VALUE of one of its
    hints (`gen`/`genInfo` in the model); overwriting that hint drops the payload -/
def setTyHints (p : Params) (t : Ty) : Ty :=
  match t with
  | .struct fs g (some (h, di)) m =>
    if p.hints.any (·.1 == h) then .struct fs [] none (setHints p m)
    else .struct fs g (some (h, di)) (setHints p m)
  | t => t.setMeta (setHints p t.getMeta)

def onObj (p : Params) (o : Obj) : Obj :=
  if p.object.matchesObj o then { o with ty := setTyHints p o.ty } else o

def objFail (_ : Params) (_ : Obj) : Option Failure := none

/-- before fix d683cb9: writing a configured hint into a nil map panicked -/
def objFailPreFix (p : Params) (o : Obj) : Option Failure :=
  if p.object.matchesObj o && !p.hints.isEmpty && o.ty.getMeta.hintsNil then some .panic else none

def apply (p : Params) (S : Schemas) : Schemas := S.map (visitSchema id (fun _ => onObj p))

def fail? (p : Params) (S : Schemas) : Option Failure :=
  firstFail (visitSchemaFail (walkFail []) (objFail p)) S

def run (p : Params) (S : Schemas) : Outcome Schemas := mkRun (fail? p S) (apply p S)

def failPreFix? (p : Params) (S : Schemas) : Option Failure :=
  firstFail (visitSchemaFail (walkFail []) (objFailPreFix p)) S

/-- `Process` as it was before fix d683cb9 (same result when it does not panic, except that an
    untouched nil map stayed nil, which VIR does not show) -/
def runPreFix (p : Params) (S : Schemas) : Outcome Schemas := mkRun (failPreFix? p S) (apply p S)

end Cog.Xform.HintObject
