/-
  unspec — internal/ast/compiler/unspec.go (not part of C15's list; modelled for C05).
  Objects named (EqualFold) "metadata" are dropped; objects named (EqualFold) "spec" whose type
  is a struct are renamed to the schema identifier, or the package when there is none; the
  object map is rebuilt with `AddObject` (collisions overwrite).  References are NOT rewritten.
-/
import Cog.Xform.Common
namespace Cog.Xform.Unspec
open Cog.IR Cog.Xform

def newName (s : Schema) : String := if s.smeta.identifier != "" then s.smeta.identifier else s.pkg

def onObj (s : Schema) (o : Obj) : Obj :=
  if eqFold o.name "spec" && o.ty.kind == "struct" then { o with name := newName s, selfName := newName s }
  else o

def processSchema (s : Schema) : Schema :=
  { s with objects := rebuild (onObj s) [] (s.objects.filter fun kv => !eqFold kv.2.name "metadata") }

def apply (S : Schemas) : Schemas := S.map processSchema
def fail? (_ : Schemas) : Option Failure := none
def run (_ : Unit) (S : Schemas) : Outcome Schemas := mkRun (fail? S) (apply S)

end Cog.Xform.Unspec
