/-
  PrefixObjectsNames (helpers.go) — internal/ast/compiler/prefix_objects_names.go.
  Empty prefix ⇒ the schemas are returned untouched (no walk at all).  Otherwise:
  * every object: `Name = Prefix + Name`, `SelfRef.ReferredType = Name`;
  * every `ref` and `constant_ref` at a visitor position (whatever package it points to, entry
    point type included): `ReferredType = Prefix + ReferredType`;
  * every disjunction: mapping VALUES prefixed; every struct carrying the
    `disjunction_of_refs` hint: mapping values of the payload prefixed (unchecked type assertion
    on the hint value; the payload's branches are not visited);
  * every enum member NAME becomes `UpperCamelCase(Prefix) + UpperCamelCase(Name)`;
  * not touched: the `EntryPoint` string, map index types.
-/
import Cog.Xform.Common
namespace Cog.Xform.PrefixObjectNames
open Cog.IR Cog.Xform

structure Params where
  pfx : String
  deriving Repr, Inhabited

def hintRefs : String := "disjunction_of_refs"

def prefixMapping (p : Params) (di : DisjInfo) : DisjInfo :=
  { di with mapping := di.mapping.map fun kv => (kv.1, p.pfx ++ kv.2) }

def hooks (p : Params) : Hooks :=
  { ref := fun pk n m => .ref pk (p.pfx ++ n) m
    cref := fun pk n v m => .cref pk (p.pfx ++ n) v m
    enum := fun vs m => .enum (vs.map fun v => { v with name := upperCamelCase p.pfx ++ upperCamelCase v.name }) m
    disj := prefixMapping p
    structGi := fun gi => match gi with
      | some (h, di) => if h == hintRefs then some (h, prefixMapping p di) else some (h, di)
      | none => none }

def onObj (p : Params) (o : Obj) : Obj :=
  { o with name := p.pfx ++ o.name, selfName := p.pfx ++ o.name, ty := xfTy (hooks p) o.ty }

/-- the hint exists but its value is not a `DisjunctionType` (it would be `gen` otherwise) -/
def structOk (m : Meta) : Bool := !m.hints.any (·.1 == hintRefs)

def tyFail (t : Ty) : Option Failure :=
  if walkOk ["ref", "constant_ref", "enum"] structOk t then none else some .panic

def apply (p : Params) (S : Schemas) : Schemas :=
  if p.pfx == "" then S else S.map (visitSchema (xfTy (hooks p)) (fun _ => onObj p))

def fail? (p : Params) (S : Schemas) : Option Failure :=
  if p.pfx == "" then none else firstFail (visitSchemaFail tyFail (fun o => tyFail o.ty)) S

def run (p : Params) (S : Schemas) : Outcome Schemas := mkRun (fail? p S) (apply p S)

end Cog.Xform.PrefixObjectNames
