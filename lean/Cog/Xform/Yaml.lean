/-
  YAML → pass glue (internal/yaml/compilerpasses.go): what the configuration file says
  (`RawXf`, reference strings as written) to the pass structs (`Xf`).  A reference string that
  does not split into the expected number of `.`-separated parts is a load error, and a load
  error anywhere fails the whole file.
-/
import Cog.Xform.All
namespace Cog.Xform
open Cog.IR

inductive RawXf where
  | renameObject (from_ to : String)
  | omit (objects : List String)
  | omitFields (fields : List String)
  | addFields (to : String) (fields : List Field)
  | addObject (object : String) (as_ : Ty) (comments : List String)
  | duplicateObject (object as_ : String) (omitFields : List String)
  | retypeObject (object : String) (as_ : Ty) (comments : Option (List String))
  | retypeField (field : String) (as_ : Ty) (comments : Option (List String))
  | fieldsSetRequired (fields : List String)
  | fieldsSetNotRequired (fields : List String)
  | fieldsSetDefault (defaults : List (String × Val))
  | replaceReference (from_ to : String)
  | constantToEnum (objects : List String)
  | trimEnumValues
  | hintObject (object : String) (hints : List (String × Val))
  | schemaSetIdentifier (pkg identifier : String)
  | schemaSetEntryPoint (pkg entryPoint : String)
  | prefixObjectNames (pfx : String)        -- helpers.go, not YAML
  | appendCommentObjects (comment : String) -- helpers.go, not YAML
  | unspec
  deriving Inhabited

/-- `CompilerPass.AsCompilerPass` -/
def RawXf.load : RawXf → Option Xf
  | .renameObject f t => do some (.renameObject { from_ := (← ObjRef.parse f), to := t })
  | .omit os => do some (.omit { objects := (← os.mapM ObjRef.parse) })
  | .omitFields fs => do some (.omitFields { fields := (← fs.mapM FieldRef.parse) })
  | .addFields t fs => do some (.addFields { to := (← ObjRef.parse t), fields := fs })
  | .addObject o a c => do some (.addObject { object := (← ObjRef.parse o), as_ := a, comments := c })
  | .duplicateObject o a om => do
    some (.duplicateObject { object := (← ObjRef.parse o), as_ := (← ObjRef.parse a), omitFields := om })
  | .retypeObject o a c => do some (.retypeObject { object := (← ObjRef.parse o), as_ := a, comments := c })
  | .retypeField f a c => do some (.retypeField { field := (← FieldRef.parse f), as_ := a, comments := c })
  | .fieldsSetRequired fs => do some (.fieldsSetRequired { fields := (← fs.mapM FieldRef.parse) })
  | .fieldsSetNotRequired fs => do some (.fieldsSetNotRequired { fields := (← fs.mapM FieldRef.parse) })
  | .fieldsSetDefault ds => do
    some (.fieldsSetDefault { defaults := (← ds.mapM fun (k, v) => (FieldRef.parse k).map fun r => (r, v)) })
  | .replaceReference f t => do some (.replaceReference { from_ := (← ObjRef.parse f), to := (← ObjRef.parse t) })
  | .constantToEnum os => do some (.constantToEnum { objects := (← os.mapM ObjRef.parse) })
  | .trimEnumValues => some .trimEnumValues
  | .hintObject o hs => do some (.hintObject { object := (← ObjRef.parse o), hints := hs })
  | .schemaSetIdentifier p i => some (.schemaSetIdentifier { pkg := p, identifier := i })
  | .schemaSetEntryPoint p e => some (.schemaSetEntryPoint { pkg := p, entryPoint := e })
  | .prefixObjectNames x => some (.prefixObjectNames { pfx := x })
  | .appendCommentObjects c => some (.appendCommentObjects { comment := c })
  | .unspec => some .unspec

/-- load the file, then `Passes.Process` -/
def loadAndProcess (raw : List RawXf) (S : Schemas) : Outcome Schemas :=
  match raw.mapM RawXf.load with
  | none => .err "load"
  | some ts => process ts S

end Cog.Xform
