/-
  AppendCommentToObjects (helpers.go) — internal/ast/compiler/append_comment_objects.go.
-/
import Cog.Xform.Common
namespace Cog.Xform.AppendCommentObjects
open Cog.IR Cog.Xform

structure Params where
  comment : String
  deriving Repr, Inhabited

def onObj (p : Params) (o : Obj) : Obj := { o with comments := o.comments ++ [p.comment] }

def apply (p : Params) (S : Schemas) : Schemas := S.map (visitSchema id (fun _ => onObj p))

def fail? (_ : Params) (S : Schemas) : Option Failure :=
  firstFail (visitSchemaFail (walkFail []) (fun _ => none)) S

def run (p : Params) (S : Schemas) : Outcome Schemas := mkRun (fail? p S) (apply p S)

end Cog.Xform.AppendCommentObjects
