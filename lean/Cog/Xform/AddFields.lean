/-
  add_fields — internal/ast/compiler/add_fields.go.  Matching object (ObjectReference.Matches):
  not a struct ⇒ error; otherwise every configured field whose NAME (exact comparison,
  `FieldByName`) is not yet present is appended, in order.
-/
import Cog.Xform.Common
namespace Cog.Xform.AddFields
open Cog.IR Cog.Xform

structure Params where
  to : ObjRef
  fields : List Field
  deriving Inhabited

def addField (fs : List Field) (f : Field) : List Field :=
  if fs.any (·.name == f.name) then fs else fs ++ [f]

def onObj (p : Params) (o : Obj) : Obj :=
  if p.to.matchesObj o then
    match o.ty with
    | .struct fs g gi m => { o with ty := .struct (p.fields.foldl addField fs) g gi m }
    | _ => o
  else o

def objFail (p : Params) (o : Obj) : Option Failure :=
  if p.to.matchesObj o then
    match o.ty with
    | .struct .. => none
    | .bad "struct" _ => if p.fields.isEmpty then none else some .panic
    | _ => some .err
  else none

def apply (p : Params) (S : Schemas) : Schemas := S.map (visitSchema id (fun _ => onObj p))

def fail? (p : Params) (S : Schemas) : Option Failure :=
  firstFail (visitSchemaFail (walkFail []) (objFail p)) S

def run (p : Params) (S : Schemas) : Outcome Schemas := mkRun (fail? p S) (apply p S)

end Cog.Xform.AddFields
