/-
  The witnesses of the `C15_…_counterexample…` theorems, as data the driver can print
  (`xform witness <i>`), so that checks/c15.py replays exactly these inputs on the real code.
  Each entry: the theorem, the oracle quirk that must explain the failure on the real code, the
  configured steps, the schemas.
-/
import Cog.Props.C15
namespace Cog.Xform
open Cog.IR

structure Witness where
  theorem_ : String
  quirk : String
  steps : List Xf
  schemas : Schemas

def wRenCase : Xf := .renameObject { from_ := ⟨"p", "foo"⟩, to := "Zed" }
def wRenOff : Xf := .renameObject { from_ := ⟨"p", "Foo"⟩, to := "Zed" }
def wRenColl : Xf := .renameObject { from_ := ⟨"p", "Foo"⟩, to := "Bar" }
def wDupCase : Xf := .duplicateObject { object := ⟨"p", "a"⟩, as_ := ⟨"p", "C"⟩, omitFields := [] }
def wDupOver : Xf := .duplicateObject { object := ⟨"p", "A"⟩, as_ := ⟨"p", "B"⟩, omitFields := [] }
def wStrTy : Ty := .scalar "string" .nil [] freshMeta

def witnesses : List Witness := [
  ⟨"C15_rename_object_counterexample_case", "rename_object/from-differs-in-case",
    [wRenCase], RenameObject.wS (.ref "p" "Foo" freshMeta)⟩,
  ⟨"C15_rename_object_counterexample_offpath", "rename_object/refs-outside-visitor-positions",
    [wRenOff], RenameObject.wS (.cref "p" "Foo" (.str "x") freshMeta)⟩,
  ⟨"C15_rename_object_counterexample_collision", "rename_object/collision-overwrites",
    [wRenColl], RenameObject.wS RenameObject.wStr⟩,
  ⟨"C15_replace_reference_counterexample_meta", "replace_reference/drops-meta",
    [.replaceReference ReplaceReference.wP], ReplaceReference.wS (.ref "p" "Foo" { nullable := true })⟩,
  ⟨"C15_replace_reference_counterexample_offpath", "replace_reference/refs-outside-visitor-positions",
    [.replaceReference ReplaceReference.wP], ReplaceReference.wS (.map (.ref "p" "Foo" freshMeta) wStrTy freshMeta)⟩,
  ⟨"C15_duplicate_object_counterexample_case", "duplicate_object/source-exact-match", [wDupCase], DuplicateObject.wS⟩,
  ⟨"C15_duplicate_object_counterexample_overwrite", "duplicate_object/overwrites-existing", [wDupOver], DuplicateObject.wS⟩,
  ⟨"C15_add_object_counterexample", "add_object/overwrites-existing", [.addObject AddObject.wP], AddObject.wS⟩,
  ⟨"C15_retype_field_counterexample", "retype_field/first-match-only", [.retypeField RetypeField.wParams], RetypeField.wSchemas⟩,
  ⟨"C15_prefix_counterexample_enum", "prefix/enum-member-names-rewritten", [.prefixObjectNames PrefixObjectNames.wP],
    PrefixObjectNames.wS "" (.enum [{ name := "a", value := .str "a", kind := "string" }] freshMeta)⟩,
  ⟨"C15_prefix_counterexample_entrypoint", "prefix/entrypoint-string-stale", [.prefixObjectNames PrefixObjectNames.wP],
    PrefixObjectNames.wS "A" wStrTy⟩,
  ⟨"C15_prefix_counterexample_offpath", "prefix/refs-outside-visitor-positions", [.prefixObjectNames PrefixObjectNames.wP],
    PrefixObjectNames.wS "" (.map (.ref "p" "A" freshMeta) wStrTy freshMeta)⟩,
  ⟨"C15_trim_enum_values_counterexample_offpath", "trim_enum_values/enums-outside-visitor-positions",
    [.trimEnumValues], TrimEnumValues.wS⟩,
  ⟨"C15_constant_to_enum_counterexample", "constant_to_enum/drops-meta", [.constantToEnum ConstantToEnum.wP], ConstantToEnum.wSchemas⟩ ]

end Cog.Xform
