/-
  omit_fields — internal/ast/compiler/omit_fields.go.  Visitor with `OnObject` only: the entry
  point type is walked without hooks (identity, may dereference a nil kind pointer), objects
  that are not structs are returned as they are, struct fields are filtered with
  `FieldReference.Matches` (package exact, object name and field name EqualFold).
-/
import Cog.Xform.Common
namespace Cog.Xform.OmitFields
open Cog.IR Cog.Xform

structure Params where
  fields : List FieldRef
  deriving Repr, Inhabited

def onObj (p : Params) (o : Obj) : Obj :=
  match o.ty with
  | .struct fs g gi m => { o with ty := .struct (fs.filter fun f => !fieldMatchesAny p.fields o f) g gi m }
  | _ => o

def objFail (o : Obj) : Option Failure :=
  match o.ty with
  | .bad "struct" _ => some .panic
  | _ => none

def apply (p : Params) (S : Schemas) : Schemas := S.map (visitSchema id (fun _ => onObj p))

def fail? (_ : Params) (S : Schemas) : Option Failure :=
  firstFail (visitSchemaFail (walkFail []) objFail) S

def run (p : Params) (S : Schemas) : Outcome Schemas := mkRun (fail? p S) (apply p S)

end Cog.Xform.OmitFields
