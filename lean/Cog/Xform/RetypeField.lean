/-
  retype_field — internal/ast/compiler/retype_field.go.  In every struct object, the FIRST
  field accepted by `FieldReference.Matches` gets `Type = As` (and `Comments` when given);
  the loop `break`s, so a second case-variant field of the same object is left alone.
-/
import Cog.Xform.Common
namespace Cog.Xform.RetypeField
open Cog.IR Cog.Xform

structure Params where
  field : FieldRef
  as_ : Ty
  comments : Option (List String)
  deriving Inhabited

def retypeFirst (p : Params) (o : Obj) : List Field → List Field
  | [] => []
  | f :: fs =>
    if p.field.matchesOF o f then { f with ty := p.as_, comments := p.comments.getD f.comments } :: fs
    else f :: retypeFirst p o fs

def onObj (p : Params) (o : Obj) : Obj :=
  match o.ty with
  | .struct fs g gi m => { o with ty := .struct (retypeFirst p o fs) g gi m }
  | _ => o

/-- the trail message of the retyped field calls `ast.TypeName` on its old and its new type -/
def firstMatchFail (p : Params) (o : Obj) : List Field → Option Failure
  | [] => none
  | f :: fs =>
    if p.field.matchesOF o f then (if typeNameOk f.ty && typeNameOk p.as_ then none else some .panic)
    else firstMatchFail p o fs

def objFail (p : Params) (o : Obj) : Option Failure :=
  match o.ty with
  | .bad "struct" _ => some .panic
  | .struct fs _ _ _ => firstMatchFail p o fs
  | _ => none

def apply (p : Params) (S : Schemas) : Schemas := S.map (visitSchema id (fun _ => onObj p))

def fail? (p : Params) (S : Schemas) : Option Failure :=
  firstFail (visitSchemaFail (walkFail []) (objFail p)) S

def run (p : Params) (S : Schemas) : Outcome Schemas := mkRun (fail? p S) (apply p S)

end Cog.Xform.RetypeField
