/-
  The specifications and the decidable hypotheses of the C15 theorems as functions of a step,
  for the driver (`xform spec`, `xform pred`): checks/c15.py compares the Lean specification with
  the independently written Go oracle on every generated case, and checks that whenever the
  hypotheses of a `_partial` theorem hold the real code satisfies the oracle.
-/
import Cog.Props.C15
namespace Cog.Xform
open Cog.IR

/-- `T.spec p S` -/
def Xf.spec : Xf → Schemas → Schemas
  | .renameObject p => RenameObject.spec p
  | .omit p => Omit.spec p
  | .omitFields p => OmitFields.spec p
  | .addFields p => AddFields.spec p
  | .addObject p => AddObject.spec p
  | .duplicateObject p => DuplicateObject.spec p
  | .retypeObject p => RetypeObject.spec p
  | .retypeField p => RetypeField.spec p
  | .fieldsSetRequired p => FieldsSetRequired.spec true p
  | .fieldsSetNotRequired p => FieldsSetRequired.spec false p
  | .fieldsSetDefault p => FieldsSetDefault.spec p
  | .replaceReference p => ReplaceReference.spec p
  | .constantToEnum p => ConstantToEnum.spec p
  | .trimEnumValues => TrimEnumValues.spec
  | .hintObject p => HintObject.spec p
  | .schemaSetIdentifier p => SchemaSetIdentifier.spec p
  | .schemaSetEntryPoint p => SchemaSetEntryPoint.spec p
  | .prefixObjectNames p => PrefixObjectNames.spec p
  | .appendCommentObjects p => AppendCommentObjects.spec p
  | .unspec => Unspec.apply

/-- the hypotheses under which `run = ok S' → S' = spec` is a theorem (besides `WF`) -/
def Xf.hyp : Xf → Schemas → Bool
  | .renameObject p, S => RenameObject.exactCase p S && RenameObject.offPathClean p S && RenameObject.noCollision p S
  | .replaceReference p, S => ReplaceReference.hyp p S
  | .duplicateObject p, S => DuplicateObject.uniquePkgs S && DuplicateObject.exactSource p S && DuplicateObject.freshDst p S
  | .addObject p, S => AddObject.fresh p S
  | .retypeField p, S => RetypeField.singleMatch p S
  | .prefixObjectNames p, S => PrefixObjectNames.hyp p S
  | .trimEnumValues, S => TrimEnumValues.hyp S
  | .constantToEnum p, S => ConstantToEnum.plainTargets p S
  | .unspec, _ => false
  | _, _ => true

/-- decidable `WF` -/
def wfB (S : Schemas) : Bool :=
  S.all fun s => s.objects.all (fun kv => kv.1 == kv.2.name) && decide (s.objects.map (·.1)).Nodup

theorem wfB_iff (S : Schemas) : wfB S = true ↔ WF S := by
  simp only [wfB, WF, ObjsWF, List.all_eq_true, Bool.and_eq_true, beq_iff_eq, decide_eq_true_eq]

/-- "nothing is a target" for a step, decidable -/
def Xf.noTarget (t : Xf) (S : Schemas) : Bool :=
  S.all fun s => !t.tSch s && s.objects.all fun kv => !t.tObj s kv.2

end Cog.Xform
