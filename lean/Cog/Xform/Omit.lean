/-
  omit — internal/ast/compiler/omit.go.  No visitor: `schema.Objects.Filter`, nothing else is
  touched (in particular the entry point type is not walked).
-/
import Cog.Xform.Common
namespace Cog.Xform.Omit
open Cog.IR Cog.Xform

structure Params where
  objects : List ObjRef
  deriving Repr, Inhabited

def processSchema (p : Params) (s : Schema) : Schema :=
  { s with objects := s.objects.filter fun kv => !matchesAny p.objects kv.2 }

def apply (p : Params) (S : Schemas) : Schemas := S.map (processSchema p)

def fail? (_ : Params) (_ : Schemas) : Option Failure := none

def run (p : Params) (S : Schemas) : Outcome Schemas := mkRun (fail? p S) (apply p S)

end Cog.Xform.Omit
