/-
  fields_set_default — internal/ast/compiler/fields_set_default.go.
  `DefaultValues` is a Go map: `defaults` is its entry list in whatever order.  The pass first
  sorts the references (`sort.Slice` by package, then object, then field: a strict total order
  on the distinct map keys, so the sorted sequence is unique), then, for every field, every
  matching entry assigns `Type.Default` in that order: the last matching one wins (two keys
  that differ only in letter case can match the same field).
-/
import Cog.Xform.Common
namespace Cog.Xform.FieldsSetDefault
open Cog.IR Cog.Xform

structure Params where
  defaults : List (FieldRef × Val)
  deriving Inhabited

/-- the `less` function given to `sort.Slice` -/
def refLess (a b : FieldRef) : Bool :=
  if a.pkg != b.pkg then decide (a.pkg < b.pkg)
  else if a.obj != b.obj then decide (a.obj < b.obj)
  else decide (a.field < b.field)

def insertBy (e : FieldRef × Val) : List (FieldRef × Val) → List (FieldRef × Val)
  | [] => [e]
  | x :: xs => if refLess e.1 x.1 then e :: x :: xs else x :: insertBy e xs

/-- the sorted sequence of the entries -/
def sortDefaults (l : List (FieldRef × Val)) : List (FieldRef × Val) := l.foldr insertBy []

def sorted (p : Params) : Params := { defaults := sortDefaults p.defaults }

def setDefault (v : Val) (f : Field) : Field :=
  { f with ty := f.ty.setMeta { f.ty.getMeta with dflt := v } }

def onField (p : Params) (o : Obj) (f : Field) : Field :=
  p.defaults.foldl (fun f e => if e.1.matchesOF o f then setDefault e.2 f else f) f

def onObj (p : Params) (o : Obj) : Obj :=
  match o.ty with
  | .struct fs g gi m => { o with ty := .struct (fs.map (onField p o)) g gi m }
  | _ => o

def objFail (o : Obj) : Option Failure :=
  match o.ty with
  | .bad "struct" _ => some .panic
  | _ => none

/-- the entries applied in the order given -/
def applyOrder (p : Params) (S : Schemas) : Schemas := S.map (visitSchema id (fun _ => onObj p))

def apply (p : Params) (S : Schemas) : Schemas := applyOrder (sorted p) S

def fail? (_ : Params) (S : Schemas) : Option Failure :=
  firstFail (visitSchemaFail (walkFail []) objFail) S

def run (p : Params) (S : Schemas) : Outcome Schemas := mkRun (fail? p S) (apply p S)

end Cog.Xform.FieldsSetDefault
