/-
  fields_set_default — internal/ast/compiler/fields_set_default.go.
  `DefaultValues` is a Go map: `defaults` is its entry list IN ITERATION ORDER (any order is
  possible).  For every field, every matching entry assigns `Type.Default`; the last one in
  iteration order wins, so two entries whose keys differ only in letter case make the result
  depend on the order.
-/
import Cog.Xform.Common
namespace Cog.Xform.FieldsSetDefault
open Cog.IR Cog.Xform

structure Params where
  defaults : List (FieldRef × Val)
  deriving Inhabited

def setDefault (v : Val) (f : Field) : Field :=
  { f with ty := f.ty.setMeta { f.ty.getMeta with dflt := v } }

def onField (p : Params) (o : Obj) (f : Field) : Field :=
  p.defaults.foldl (fun f e => if e.1.matchesOF o f then setDefault e.2 f else f) f

def onObj (p : Params) (o : Obj) : Obj :=
  match o.ty with
  | .struct fs g gi m => { o with ty := .struct (fs.map (onField p o)) g gi m }
  | _ => o

def objFail (o : Obj) : Option Failure :=
  match o.ty with
  | .bad "struct" _ => some .panic
  | _ => none

def apply (p : Params) (S : Schemas) : Schemas := S.map (visitSchema id (fun _ => onObj p))

def fail? (_ : Params) (S : Schemas) : Option Failure :=
  firstFail (visitSchemaFail (walkFail []) objFail) S

def run (p : Params) (S : Schemas) : Outcome Schemas := mkRun (fail? p S) (apply p S)

end Cog.Xform.FieldsSetDefault
