/-
  schema_set_identifier / schema_set_entry_point —
  internal/ast/compiler/schema_set_identifier.go, schema_set_entrypoint.go.
  No visitor; every schema of the given package.
-/
import Cog.Xform.Common
namespace Cog.Xform.SchemaSetIdentifier
open Cog.IR Cog.Xform

structure Params where
  pkg : String
  identifier : String
  deriving Repr, Inhabited

def processSchema (p : Params) (s : Schema) : Schema :=
  if s.pkg != p.pkg then s else { s with smeta := { s.smeta with identifier := p.identifier } }

def apply (p : Params) (S : Schemas) : Schemas := S.map (processSchema p)
def fail? (_ : Params) (_ : Schemas) : Option Failure := none
def run (p : Params) (S : Schemas) : Outcome Schemas := mkRun (fail? p S) (apply p S)

end Cog.Xform.SchemaSetIdentifier

namespace Cog.Xform.SchemaSetEntryPoint
open Cog.IR Cog.Xform

structure Params where
  pkg : String
  entryPoint : String
  deriving Repr, Inhabited

/-- `EntryPointType = ast.NewRef(schema.Package, EntryPoint)` -/
def processSchema (p : Params) (s : Schema) : Schema :=
  if s.pkg != p.pkg then s
  else { s with entryPoint := p.entryPoint, entryPointType := .ref s.pkg p.entryPoint freshMeta }

def apply (p : Params) (S : Schemas) : Schemas := S.map (processSchema p)
def fail? (_ : Params) (_ : Schemas) : Option Failure := none
def run (p : Params) (S : Schemas) : Outcome Schemas := mkRun (fail? p S) (apply p S)

end Cog.Xform.SchemaSetEntryPoint
