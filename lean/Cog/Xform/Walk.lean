/-
  Specification-side traversal and its relation to the Visitor's.

  `xfAllTy h` applies the node-local hooks at EVERY position of a type (also map index types and
  the branches of the disjunction a struct keeps in its hints), which is what "every reference
  to X" / "every enum" means in the documentation.  `xfTy h` (Common.lean) is what cog's Visitor
  reaches.  `xf_eq_xfAll`: they agree when the hooks agree on the nodes the Visitor reaches and
  the positions it does not reach contain nothing the specification would change.
-/
import Cog.Xform.Lemmas
namespace Cog.Xform
open Cog.IR

mutual
def xfAllTy (h : Hooks) : Ty → Ty
  | .scalar k v c m => .scalar k v c m
  | .ref p n m => h.ref p n m
  | .cref p n v m => h.cref p n v m
  | .array e m => .array (xfAllTy h e) m
  | .map i v m => .map (xfAllTy h i) (xfAllTy h v) m
  | .struct fs g gi m => .struct (xfAllFields h fs) (xfAllList h g) (h.structGi gi) m
  | .enum vs m => h.enum vs m
  | .disj bs i m => .disj (xfAllList h bs) (h.disj i) m
  | .inter bs m => .inter (xfAllList h bs) m
  | .slot v m => .slot v m
  | .bad k m => .bad k m
def xfAllList (h : Hooks) : List Ty → List Ty
  | [] => []
  | t :: ts => xfAllTy h t :: xfAllList h ts
def xfAllFields (h : Hooks) : List Field → List Field
  | [] => []
  | f :: fs => { f with ty := xfAllTy h f.ty } :: xfAllFields h fs
end

/- the nodes the Visitor reaches (as types), and the roots of the sub-terms it skips -/
mutual
def visNodes : Ty → List Ty
  | .array e m => .array e m :: visNodes e
  | .map i v m => .map i v m :: visNodes v
  | .struct fs g gi m => .struct fs g gi m :: visNodesFields fs
  | .disj bs i m => .disj bs i m :: visNodesList bs
  | .inter bs m => .inter bs m :: visNodesList bs
  | t => [t]
def visNodesList : List Ty → List Ty
  | [] => []
  | t :: ts => visNodes t ++ visNodesList ts
def visNodesFields : List Field → List Ty
  | [] => []
  | f :: fs => visNodes f.ty ++ visNodesFields fs
end

/-- sub-terms directly below a reached node that the Visitor does not enter -/
def skippedBelow : Ty → List Ty
  | .map i _ _ => [i]
  | .struct _ g _ _ => g
  | _ => []

/-- the hooks agree on one node -/
def NodeAgree (h h' : Hooks) : Ty → Prop
  | .ref p n m => h.ref p n m = h'.ref p n m
  | .cref p n v m => h.cref p n v m = h'.cref p n v m
  | .enum vs m => h.enum vs m = h'.enum vs m
  | .disj _ i _ => h.disj i = h'.disj i
  | .struct _ _ gi _ => h.structGi gi = h'.structGi gi
  | _ => True

/-- the hooks leave one node as it is -/
def NodeFixed (h : Hooks) : Ty → Prop
  | .ref p n m => h.ref p n m = .ref p n m
  | .cref p n v m => h.cref p n v m = .cref p n v m
  | .enum vs m => h.enum vs m = .enum vs m
  | .disj _ i _ => h.disj i = i
  | .struct _ _ gi _ => h.structGi gi = gi
  | _ => True

mutual
theorem xf_eq_xfAll (h h' : Hooks) : ∀ t : Ty,
    (∀ n ∈ visNodes t, NodeAgree h h' n) →
    (∀ n ∈ visNodes t, ∀ r ∈ skippedBelow n, xfAllTy h' r = r) →
    xfTy h t = xfAllTy h' t
  | .scalar .. => fun _ _ => by simp [xfTy, xfAllTy]
  | .ref p n m => fun ha _ => by
    have := ha (.ref p n m) (by simp [visNodes]); simpa [xfTy, xfAllTy, NodeAgree] using this
  | .cref p n v m => fun ha _ => by
    have := ha (.cref p n v m) (by simp [visNodes]); simpa [xfTy, xfAllTy, NodeAgree] using this
  | .array e m => fun ha hs => by
    have := xf_eq_xfAll h h' e (fun n hn => ha n (by simp [visNodes, hn]))
      (fun n hn => hs n (by simp [visNodes, hn]))
    simp [xfTy, xfAllTy, this]
  | .map i v m => fun ha hs => by
    have hv := xf_eq_xfAll h h' v (fun n hn => ha n (by simp [visNodes, hn]))
      (fun n hn => hs n (by simp [visNodes, hn]))
    have hi : xfAllTy h' i = i := hs (.map i v m) (by simp [visNodes]) i (by simp [skippedBelow])
    simp [xfTy, xfAllTy, hv, hi]
  | .struct fs g gi m => fun ha hs => by
    have hf := xfFields_eq_xfAll h h' fs (fun n hn => ha n (by simp [visNodes, hn]))
      (fun n hn => hs n (by simp [visNodes, hn]))
    have hgi : h.structGi gi = h'.structGi gi := by
      have := ha (.struct fs g gi m) (by simp [visNodes]); simpa [NodeAgree] using this
    have hg : xfAllList h' g = g :=
      xfAllList_id h' g (fun r hr => hs (.struct fs g gi m) (by simp [visNodes]) r (by simpa [skippedBelow] using hr))
    simp [xfTy, xfAllTy, hf, hgi, hg]
  | .enum vs m => fun ha _ => by
    have := ha (.enum vs m) (by simp [visNodes]); simpa [xfTy, xfAllTy, NodeAgree] using this
  | .disj bs i m => fun ha hs => by
    have hb := xfList_eq_xfAll h h' bs (fun n hn => ha n (by simp [visNodes, hn]))
      (fun n hn => hs n (by simp [visNodes, hn]))
    have hi : h.disj i = h'.disj i := by
      have := ha (.disj bs i m) (by simp [visNodes]); simpa [NodeAgree] using this
    simp [xfTy, xfAllTy, hb, hi]
  | .inter bs m => fun ha hs => by
    have hb := xfList_eq_xfAll h h' bs (fun n hn => ha n (by simp [visNodes, hn]))
      (fun n hn => hs n (by simp [visNodes, hn]))
    simp [xfTy, xfAllTy, hb]
  | .slot .. => fun _ _ => by simp [xfTy, xfAllTy]
  | .bad .. => fun _ _ => by simp [xfTy, xfAllTy]
theorem xfList_eq_xfAll (h h' : Hooks) : ∀ ts : List Ty,
    (∀ n ∈ visNodesList ts, NodeAgree h h' n) →
    (∀ n ∈ visNodesList ts, ∀ r ∈ skippedBelow n, xfAllTy h' r = r) →
    xfList h ts = xfAllList h' ts
  | [] => fun _ _ => by simp [xfList, xfAllList]
  | t :: ts => fun ha hs => by
    have h1 := xf_eq_xfAll h h' t (fun n hn => ha n (by simp [visNodesList, hn]))
      (fun n hn => hs n (by simp [visNodesList, hn]))
    have h2 := xfList_eq_xfAll h h' ts (fun n hn => ha n (by simp [visNodesList, hn]))
      (fun n hn => hs n (by simp [visNodesList, hn]))
    simp [xfList, xfAllList, h1, h2]
theorem xfFields_eq_xfAll (h h' : Hooks) : ∀ fs : List Field,
    (∀ n ∈ visNodesFields fs, NodeAgree h h' n) →
    (∀ n ∈ visNodesFields fs, ∀ r ∈ skippedBelow n, xfAllTy h' r = r) →
    xfFields h fs = xfAllFields h' fs
  | [] => fun _ _ => by simp [xfFields, xfAllFields]
  | f :: fs => fun ha hs => by
    have h1 := xf_eq_xfAll h h' f.ty (fun n hn => ha n (by simp [visNodesFields, hn]))
      (fun n hn => hs n (by simp [visNodesFields, hn]))
    have h2 := xfFields_eq_xfAll h h' fs (fun n hn => ha n (by simp [visNodesFields, hn]))
      (fun n hn => hs n (by simp [visNodesFields, hn]))
    simp [xfFields, xfAllFields, h1, h2]
theorem xfAllList_id (h' : Hooks) : ∀ g : List Ty, (∀ r ∈ g, xfAllTy h' r = r) → xfAllList h' g = g
  | [] => fun _ => by simp [xfAllList]
  | t :: ts => fun hr => by
    have h1 := hr t (by simp)
    have h2 := xfAllList_id h' ts (fun r hm => hr r (by simp [hm]))
    simp [xfAllList, h1, h2]
end

/- the Visitor leaves a type alone when the hooks fix every node it reaches -/
mutual
theorem xf_id (h : Hooks) : ∀ t : Ty, (∀ n ∈ visNodes t, NodeFixed h n) → xfTy h t = t
  | .scalar .. => fun _ => by simp [xfTy]
  | .ref p n m => fun hf => by
    have := hf (.ref p n m) (by simp [visNodes]); simpa [xfTy, NodeFixed] using this
  | .cref p n v m => fun hf => by
    have := hf (.cref p n v m) (by simp [visNodes]); simpa [xfTy, NodeFixed] using this
  | .array e m => fun hf => by
    have := xf_id h e (fun n hn => hf n (by simp [visNodes, hn])); simp [xfTy, this]
  | .map i v m => fun hf => by
    have := xf_id h v (fun n hn => hf n (by simp [visNodes, hn])); simp [xfTy, this]
  | .struct fs g gi m => fun hf => by
    have h1 := xfFields_id h fs (fun n hn => hf n (by simp [visNodes, hn]))
    have h2 : h.structGi gi = gi := by
      have := hf (.struct fs g gi m) (by simp [visNodes]); simpa [NodeFixed] using this
    simp [xfTy, h1, h2]
  | .enum vs m => fun hf => by
    have := hf (.enum vs m) (by simp [visNodes]); simpa [xfTy, NodeFixed] using this
  | .disj bs i m => fun hf => by
    have h1 := xfList_id h bs (fun n hn => hf n (by simp [visNodes, hn]))
    have h2 : h.disj i = i := by
      have := hf (.disj bs i m) (by simp [visNodes]); simpa [NodeFixed] using this
    simp [xfTy, h1, h2]
  | .inter bs m => fun hf => by
    have h1 := xfList_id h bs (fun n hn => hf n (by simp [visNodes, hn])); simp [xfTy, h1]
  | .slot .. => fun _ => by simp [xfTy]
  | .bad .. => fun _ => by simp [xfTy]
theorem xfList_id (h : Hooks) : ∀ ts : List Ty, (∀ n ∈ visNodesList ts, NodeFixed h n) → xfList h ts = ts
  | [] => fun _ => by simp [xfList]
  | t :: ts => fun hf => by
    have h1 := xf_id h t (fun n hn => hf n (by simp [visNodesList, hn]))
    have h2 := xfList_id h ts (fun n hn => hf n (by simp [visNodesList, hn]))
    simp [xfList, h1, h2]
theorem xfFields_id (h : Hooks) : ∀ fs : List Field, (∀ n ∈ visNodesFields fs, NodeFixed h n) → xfFields h fs = fs
  | [] => fun _ => by simp [xfFields]
  | f :: fs => fun hf => by
    have h1 := xf_id h f.ty (fun n hn => hf n (by simp [visNodesFields, hn]))
    have h2 := xfFields_id h fs (fun n hn => hf n (by simp [visNodesFields, hn]))
    simp [xfFields, h1, h2]
end


/- every node of a type, at every position -/
mutual
def allNodes : Ty → List Ty
  | .array e m => .array e m :: allNodes e
  | .map i v m => .map i v m :: (allNodes i ++ allNodes v)
  | .struct fs g gi m => .struct fs g gi m :: (allNodesFields fs ++ allNodesList g)
  | .disj bs i m => .disj bs i m :: allNodesList bs
  | .inter bs m => .inter bs m :: allNodesList bs
  | t => [t]
def allNodesList : List Ty → List Ty
  | [] => []
  | t :: ts => allNodes t ++ allNodesList ts
def allNodesFields : List Field → List Ty
  | [] => []
  | f :: fs => allNodes f.ty ++ allNodesFields fs
end

mutual
theorem xfAll_id (h : Hooks) : ∀ t : Ty, (∀ n ∈ allNodes t, NodeFixed h n) → xfAllTy h t = t
  | .scalar .. => fun _ => by simp [xfAllTy]
  | .ref p n m => fun hf => by
    have := hf (.ref p n m) (by simp [allNodes]); simpa [xfAllTy, NodeFixed] using this
  | .cref p n v m => fun hf => by
    have := hf (.cref p n v m) (by simp [allNodes]); simpa [xfAllTy, NodeFixed] using this
  | .array e m => fun hf => by
    have := xfAll_id h e (fun n hn => hf n (by simp [allNodes, hn])); simp [xfAllTy, this]
  | .map i v m => fun hf => by
    have h1 := xfAll_id h i (fun n hn => hf n (by simp [allNodes, hn]))
    have h2 := xfAll_id h v (fun n hn => hf n (by simp [allNodes, hn]))
    simp [xfAllTy, h1, h2]
  | .struct fs g gi m => fun hf => by
    have h1 := xfAllFields_id h fs (fun n hn => hf n (by simp [allNodes, hn]))
    have h3 := xfAllList_id' h g (fun n hn => hf n (by simp [allNodes, hn]))
    have h2 : h.structGi gi = gi := by
      have := hf (.struct fs g gi m) (by simp [allNodes]); simpa [NodeFixed] using this
    simp [xfAllTy, h1, h2, h3]
  | .enum vs m => fun hf => by
    have := hf (.enum vs m) (by simp [allNodes]); simpa [xfAllTy, NodeFixed] using this
  | .disj bs i m => fun hf => by
    have h1 := xfAllList_id' h bs (fun n hn => hf n (by simp [allNodes, hn]))
    have h2 : h.disj i = i := by
      have := hf (.disj bs i m) (by simp [allNodes]); simpa [NodeFixed] using this
    simp [xfAllTy, h1, h2]
  | .inter bs m => fun hf => by
    have h1 := xfAllList_id' h bs (fun n hn => hf n (by simp [allNodes, hn])); simp [xfAllTy, h1]
  | .slot .. => fun _ => by simp [xfAllTy]
  | .bad .. => fun _ => by simp [xfAllTy]
theorem xfAllList_id' (h : Hooks) : ∀ ts : List Ty, (∀ n ∈ allNodesList ts, NodeFixed h n) → xfAllList h ts = ts
  | [] => fun _ => by simp [xfAllList]
  | t :: ts => fun hf => by
    have h1 := xfAll_id h t (fun n hn => hf n (by simp [allNodesList, hn]))
    have h2 := xfAllList_id' h ts (fun n hn => hf n (by simp [allNodesList, hn]))
    simp [xfAllList, h1, h2]
theorem xfAllFields_id (h : Hooks) : ∀ fs : List Field, (∀ n ∈ allNodesFields fs, NodeFixed h n) → xfAllFields h fs = fs
  | [] => fun _ => by simp [xfAllFields]
  | f :: fs => fun hf => by
    have h1 := xfAll_id h f.ty (fun n hn => hf n (by simp [allNodesFields, hn]))
    have h2 := xfAllFields_id h fs (fun n hn => hf n (by simp [allNodesFields, hn]))
    simp [xfAllFields, h1, h2]
end

/-- a Visitor whose object hook only rewrites the type, on well-formed schemas: keys, names,
    comments and order stay; types and entry point types are rewritten -/
def mapTypes (g : Ty → Ty) (S : Schemas) : Schemas :=
  S.map fun s => { s with entryPointType := g s.entryPointType
                          objects := s.objects.map fun kv => (kv.1, { kv.2 with ty := g kv.2.ty }) }

theorem visit_eq_mapTypes (g : Ty → Ty) (S : Schemas) (hw : WF S) :
    S.map (visitSchema g (fun _ o => { o with ty := g o.ty })) = mapTypes g S := by
  simp only [mapTypes]
  apply List.map_congr_left
  intro s hs
  simp only [visitSchema]
  rw [rebuild_map (fun o => { o with ty := g o.ty }) (fun _ => rfl) s.objects (hw s hs)]

theorem mapTypes_wf (g : Ty → Ty) (S : Schemas) (hw : WF S) : WF (mapTypes g S) := by
  intro s' hs'
  simp only [mapTypes, List.mem_map] at hs'
  obtain ⟨s, hs, rfl⟩ := hs'
  have h := hw s hs
  refine ⟨?_, ?_⟩
  · intro kv hkv
    simp only [List.mem_map] at hkv
    obtain ⟨kv0, hkv0, rfl⟩ := hkv
    exact h.1 kv0 hkv0
  · simpa [List.map_map, Function.comp_def] using h.2

/-- frame for type rewriting: objects / entry point types on which `g` is the identity -/
theorem mapTypes_frame (tObj : Schema → Obj → Bool) (tSch : Schema → Bool) (g : Ty → Ty)
    (ho : ∀ s o, tObj s o = false → g o.ty = o.ty) (hs : ∀ s, tSch s = false → g s.entryPointType = s.entryPointType)
    (S : Schemas) : FrameOK tObj tSch S (mapTypes g S) :=
  FrameOK.of_map tObj tSch
    (fun s => { s with entryPointType := g s.entryPointType
                       objects := s.objects.map fun kv => (kv.1, { kv.2 with ty := g kv.2.ty }) })
    (fun _ => rfl) (fun s h => ⟨rfl, rfl, hs s h⟩)
    (fun s => sublist_filter_map (tObj s) (fun o => { o with ty := g o.ty })
      (fun o h => by rw [ho s o h]) s.objects) S

theorem mapTypes_absent (tObj : Schema → Obj → Bool) (tSch : Schema → Bool) (g : Ty → Ty)
    (ho : ∀ s o, tObj s o = false → g o.ty = o.ty) (hs : ∀ s, tSch s = false → g s.entryPointType = s.entryPointType)
    (S : Schemas) (hn : NoTarget tObj S) (hns : ∀ s ∈ S, tSch s = false) : mapTypes g S = S := by
  apply map_id_of_forall
  intro s hsm
  have : (s.objects.map fun kv => (kv.1, ({ kv.2 with ty := g kv.2.ty } : Obj))) = s.objects := by
    apply map_id_of_forall
    intro kv hkv
    rw [ho s kv.2 (hn s hsm kv hkv)]
  rw [this, hs s (hns s hsm)]

end Cog.Xform
