/-
  fields_set_required / fields_set_not_required —
  internal/ast/compiler/fields_set_required.go, fields_set_not_required.go.
  Every field of every struct object accepted by one of the references gets
  `Required = v`, `Type.Nullable = !v`.
-/
import Cog.Xform.Common
namespace Cog.Xform.FieldsSetRequired
open Cog.IR Cog.Xform

structure Params where
  fields : List FieldRef
  deriving Repr, Inhabited

def setField (required : Bool) (f : Field) : Field :=
  { f with required := required, ty := f.ty.setMeta { f.ty.getMeta with nullable := !required } }

def onObj (required : Bool) (p : Params) (o : Obj) : Obj :=
  match o.ty with
  | .struct fs g gi m =>
    { o with ty := .struct (fs.map fun f => if fieldMatchesAny p.fields o f then setField required f else f) g gi m }
  | _ => o

def objFail (o : Obj) : Option Failure :=
  match o.ty with
  | .bad "struct" _ => some .panic
  | _ => none

def applyWith (required : Bool) (p : Params) (S : Schemas) : Schemas :=
  S.map (visitSchema id (fun _ => onObj required p))

def fail? (_ : Params) (S : Schemas) : Option Failure :=
  firstFail (visitSchemaFail (walkFail []) objFail) S

/-- fields_set_required -/
def apply (p : Params) (S : Schemas) : Schemas := applyWith true p S
def run (p : Params) (S : Schemas) : Outcome Schemas := mkRun (fail? p S) (apply p S)

end Cog.Xform.FieldsSetRequired

namespace Cog.Xform.FieldsSetNotRequired
open Cog.IR Cog.Xform

abbrev Params := FieldsSetRequired.Params
def apply (p : Params) (S : Schemas) : Schemas := FieldsSetRequired.applyWith false p S
def fail? (p : Params) (S : Schemas) : Option Failure := FieldsSetRequired.fail? p S
def run (p : Params) (S : Schemas) : Outcome Schemas := mkRun (fail? p S) (apply p S)

end Cog.Xform.FieldsSetNotRequired
