/-
  All user-facing schema transformations as one type, and sequences of them
  (`compiler.Passes.Process`: deep copy first, then every pass in order, stop at the first
  error).
-/
import Cog.Xform.RenameObject
import Cog.Xform.Omit
import Cog.Xform.OmitFields
import Cog.Xform.AddFields
import Cog.Xform.AddObject
import Cog.Xform.DuplicateObject
import Cog.Xform.RetypeObject
import Cog.Xform.RetypeField
import Cog.Xform.FieldsSetRequired
import Cog.Xform.FieldsSetDefault
import Cog.Xform.ReplaceReference
import Cog.Xform.ConstantToEnum
import Cog.Xform.TrimEnumValues
import Cog.Xform.HintObject
import Cog.Xform.SchemaSet
import Cog.Xform.PrefixObjectNames
import Cog.Xform.AppendCommentObjects
import Cog.Xform.Unspec
namespace Cog.Xform
open Cog.IR

inductive Xf where
  | renameObject (p : RenameObject.Params)
  | omit (p : Omit.Params)
  | omitFields (p : OmitFields.Params)
  | addFields (p : AddFields.Params)
  | addObject (p : AddObject.Params)
  | duplicateObject (p : DuplicateObject.Params)
  | retypeObject (p : RetypeObject.Params)
  | retypeField (p : RetypeField.Params)
  | fieldsSetRequired (p : FieldsSetRequired.Params)
  | fieldsSetNotRequired (p : FieldsSetNotRequired.Params)
  | fieldsSetDefault (p : FieldsSetDefault.Params)
  | replaceReference (p : ReplaceReference.Params)
  | constantToEnum (p : ConstantToEnum.Params)
  | trimEnumValues
  | hintObject (p : HintObject.Params)
  | schemaSetIdentifier (p : SchemaSetIdentifier.Params)
  | schemaSetEntryPoint (p : SchemaSetEntryPoint.Params)
  | prefixObjectNames (p : PrefixObjectNames.Params)
  | appendCommentObjects (p : AppendCommentObjects.Params)
  | unspec
  deriving Inhabited

def Xf.run : Xf → Schemas → Outcome Schemas
  | .renameObject p => RenameObject.run p
  | .omit p => Omit.run p
  | .omitFields p => OmitFields.run p
  | .addFields p => AddFields.run p
  | .addObject p => AddObject.run p
  | .duplicateObject p => DuplicateObject.run p
  | .retypeObject p => RetypeObject.run p
  | .retypeField p => RetypeField.run p
  | .fieldsSetRequired p => FieldsSetRequired.run p
  | .fieldsSetNotRequired p => FieldsSetNotRequired.run p
  | .fieldsSetDefault p => FieldsSetDefault.run p
  | .replaceReference p => ReplaceReference.run p
  | .constantToEnum p => ConstantToEnum.run p
  | .trimEnumValues => TrimEnumValues.run ()
  | .hintObject p => HintObject.run p
  | .schemaSetIdentifier p => SchemaSetIdentifier.run p
  | .schemaSetEntryPoint p => SchemaSetEntryPoint.run p
  | .prefixObjectNames p => PrefixObjectNames.run p
  | .appendCommentObjects p => AppendCommentObjects.run p
  | .unspec => Unspec.run ()

/-- the loop of `Passes.Process` -/
def applyAll : List Xf → Schemas → Outcome Schemas
  | [], S => .ok S
  | t :: ts, S =>
    match t.run S with
    | .ok S' => applyAll ts S'
    | .err e => .err e
    | .panic s => .panic s

/-- `Passes.Process` -/
def process (ts : List Xf) (S : Schemas) : Outcome Schemas := applyAll ts (deepCopySchemas S)

end Cog.Xform
