/-
  Shared parts of the models of cog's user-facing schema transformations (C15; reused by C05).
  Core Lean only.  Sources transcribed:
    internal/ast/compiler/types.go     ObjectReference / FieldReference (+ …FromString)
    internal/ast/compiler/visitor.go   which positions a Visitor walks, how a schema is rebuilt
    internal/ast/types.go              Type.DeepCopy (hints map is re-made), NewRef / NewEnum metas
    internal/tools/strings.go          UpperCamelCase (ASCII)

  Shape of every pass model `T`:
      T.fail? p S : Option Failure   -- first error / panic in Go's evaluation order, from the INPUT
      T.apply p S : Schemas          -- the pure rewriting
      T.run   p S : Outcome Schemas  := match fail? with some f => f | none => ok (apply p S)
  (A Go panic/err aborts the whole `Process`; what was rewritten before is not observable.)

  Go's `Hints` map can be nil (types decoded from YAML `as:`); writing to it panics
  (hint_object).  `Meta.hints` is a list, so a nil map is represented by the single reserved
  entry `nilHintsKey`; `Type.DeepCopy` (`make(JenniesHints)`) removes it; printing removes it.
-/
import Cog.IR.Basic
namespace Cog.Xform
open Cog.IR
open Cog.OMap (rget rset rdel)

/-! ### strings (ASCII models of strings.EqualFold / strings.TrimSpace / tools.UpperCamelCase) -/

/-- `strings.EqualFold` on ASCII input -/
def eqFold (a b : String) : Bool := a.toList.map Char.toLower == b.toList.map Char.toLower

theorem eqFold_refl (a : String) : eqFold a a = true := by simp [eqFold]

theorem eqFold_comm (a b : String) : eqFold a b = eqFold b a := by
  simp only [eqFold]; exact Bool.beq_comm

/-- white space of `strings.TrimSpace` within ASCII/Latin-1 -/
def isSpaceCh (c : Char) : Bool :=
  c == ' ' || c == '\t' || c == '\n' || c == '\r' || c.toNat == 11 || c.toNat == 12
    || c.toNat == 0x85 || c.toNat == 0xA0

def trimSpace (s : String) : String :=
  String.ofList ((s.toList.dropWhile isSpaceCh).reverse.dropWhile isSpaceCh).reverse

def isAlnum (c : Char) : Bool :=
  ('a' ≤ c && c ≤ 'z') || ('A' ≤ c && c ≤ 'Z') || ('0' ≤ c && c ≤ '9')

def isDigitCh (c : Char) : Bool := '0' ≤ c && c ≤ '9'

/-- `tools.UpperCamelCase` on ASCII: runs of characters outside `[a-zA-Z0-9 ]` become a space,
    `cases.Title(NoLower)` upper-cases the first LETTER of every word (words are separated by
    spaces; digits in front of that letter are skipped), spaces are removed, the first
    character is lower-cased and upper-cased again.  `pending` = no letter seen yet in the word. -/
def upperCamelAux : Bool → List Char → List Char
  | _, [] => []
  | pending, c :: cs =>
    if isDigitCh c then c :: upperCamelAux pending cs
    else if isAlnum c then (if pending then c.toUpper else c) :: upperCamelAux false cs
    else upperCamelAux true cs

def upperCamelCase (s : String) : String :=
  match upperCamelAux true s.toList with
  | [] => ""
  | c :: cs => String.ofList (c.toLower.toUpper :: cs)

/-! ### failures -/

inductive Failure where
  | err
  | panic
  deriving DecidableEq, Repr, Inhabited

def Failure.toOutcome {α : Type} : Failure → Outcome α
  | .err => .err "error"
  | .panic => .panic "panic"

/-- first failure of a list of checks, in order -/
def firstFail {α : Type} (f : α → Option Failure) : List α → Option Failure
  | [] => none
  | a :: as => match f a with
    | some x => some x
    | none => firstFail f as

theorem firstFail_none {α : Type} (f : α → Option Failure) (l : List α) :
    firstFail f l = none ↔ ∀ a ∈ l, f a = none := by
  induction l with
  | nil => simp [firstFail]
  | cons a as ih =>
    simp only [firstFail, List.mem_cons, forall_eq_or_imp]
    cases h : f a <;> simp [ih]

def mkRun (fail : Option Failure) (res : Schemas) : Outcome Schemas :=
  match fail with
  | some f => f.toOutcome
  | none => .ok res

theorem mkRun_ok {fail : Option Failure} {res S' : Schemas} :
    mkRun fail res = .ok S' ↔ fail = none ∧ S' = res := by
  cases fail with
  | none => simp [mkRun]; exact eq_comm
  | some f => cases f <;> simp [mkRun, Failure.toOutcome]

/-! ### references given in YAML (`[package].[object]`, `[package].[object].[field]`) -/

structure ObjRef where
  pkg : String
  obj : String
  deriving DecidableEq, Repr, Inhabited

structure FieldRef where
  pkg : String
  obj : String
  field : String
  deriving DecidableEq, Repr, Inhabited

/-- `ObjectReferenceFromString` -/
def ObjRef.parse (s : String) : Option ObjRef :=
  match s.splitOn "." with
  | [p, o] => some ⟨p, o⟩
  | _ => none

/-- `FieldReferenceFromString` -/
def FieldRef.parse (s : String) : Option FieldRef :=
  match s.splitOn "." with
  | [p, o, f] => some ⟨p, o, f⟩
  | _ => none

/-- `ObjectReference.MatchesRef` : package exact, name `EqualFold` -/
def ObjRef.matchesRef (r : ObjRef) (pkg name : String) : Bool := pkg == r.pkg && eqFold name r.obj

/-- `ObjectReference.Matches` : decided by the object's `SelfRef` -/
def ObjRef.matchesObj (r : ObjRef) (o : Obj) : Bool := r.matchesRef o.selfPkg o.selfName

/-- `ObjectReferences.Matches` -/
def matchesAny (rs : List ObjRef) (o : Obj) : Bool := rs.any (·.matchesObj o)

/-- `FieldReference.Matches` : `SelfRef.ReferredPkg`, `object.Name`, `field.Name` -/
def FieldRef.matchesOF (r : FieldRef) (o : Obj) (f : Field) : Bool :=
  o.selfPkg == r.pkg && eqFold o.name r.obj && eqFold f.name r.field

def fieldMatchesAny (rs : List FieldRef) (o : Obj) (f : Field) : Bool := rs.any (·.matchesOF o f)

/-! ### nil `Hints` maps -/

def nilHintsKey : String := "<nil-map>"

def _root_.Cog.IR.Meta.hintsNil (m : Meta) : Bool := m.hints.any (·.1 == nilHintsKey)
def _root_.Cog.IR.Meta.nonNilHints (m : Meta) : Meta := { m with hints := m.hints.filter (·.1 != nilHintsKey) }
def _root_.Cog.IR.Meta.nilHints (m : Meta) : Meta := { m with hints := [(nilHintsKey, .nil)] }

/-- the `Meta` of `ast.NewRef(..)`, `ast.NewEnum(..)`, … : not nullable, no default, empty non-nil hints -/
def freshMeta : Meta := {}

/- `Type.DeepCopy` (as far as the model can tell the copy from the original: every `Hints`
   map is re-made, hence non-nil, at every depth) -/
mutual
def deepCopyTy : Ty → Ty
  | .scalar k v c m => .scalar k v c m.nonNilHints
  | .ref p n m => .ref p n m.nonNilHints
  | .cref p n v m => .cref p n v m.nonNilHints
  | .array e m => .array (deepCopyTy e) m.nonNilHints
  | .map i v m => .map (deepCopyTy i) (deepCopyTy v) m.nonNilHints
  | .struct fs g gi m => .struct (deepCopyFields fs) g gi m.nonNilHints
  | .enum vs m => .enum vs m.nonNilHints
  | .disj bs i m => .disj (deepCopyList bs) i m.nonNilHints
  | .inter bs m => .inter (deepCopyList bs) m.nonNilHints
  | .slot v m => .slot v m.nonNilHints
  | .bad k m => .bad k m.nonNilHints
def deepCopyList : List Ty → List Ty
  | [] => []
  | t :: ts => deepCopyTy t :: deepCopyList ts
def deepCopyFields : List Field → List Field
  | [] => []
  | f :: fs => { f with ty := deepCopyTy f.ty } :: deepCopyFields fs
end

/-- `Object.DeepCopy` -/
def deepCopyObj (o : Obj) : Obj := { o with ty := deepCopyTy o.ty }

/-- `Schema.DeepCopy` (the entry point type is copied by value: its maps are shared, not re-made) -/
def deepCopySchema (s : Schema) : Schema :=
  { s with objects := s.objects.map fun (k, o) => (k, deepCopyObj o) }

/-- `Schemas.DeepCopy`, the first thing `Passes.Process` does -/
def deepCopySchemas (ss : Schemas) : Schemas := ss.map deepCopySchema

/-! ### the visitor

`Ty.xf h` is what a `Visitor` whose hooks are the node-local functions `h` does to a type.
Positions walked (visitor.go): array element, map VALUE (never the index), struct fields,
disjunction and intersection branches.  Not walked: map index, the branches of the
disjunction kept in a struct's hints (`gen`), enum member types.  -/

structure Hooks where
  ref : String → String → Meta → Ty := fun p n m => .ref p n m
  cref : String → String → Val → Meta → Ty := fun p n v m => .cref p n v m
  enum : List EnumVal → Meta → Ty := fun vs m => .enum vs m
  disj : DisjInfo → DisjInfo := id
  structGi : Option (String × DisjInfo) → Option (String × DisjInfo) := id

mutual
def xfTy (h : Hooks) : Ty → Ty
  | .scalar k v c m => .scalar k v c m
  | .ref p n m => h.ref p n m
  | .cref p n v m => h.cref p n v m
  | .array e m => .array (xfTy h e) m
  | .map i v m => .map i (xfTy h v) m
  | .struct fs g gi m => .struct (xfFields h fs) g (h.structGi gi) m
  | .enum vs m => h.enum vs m
  | .disj bs i m => .disj (xfList h bs) (h.disj i) m
  | .inter bs m => .inter (xfList h bs) m
  | .slot v m => .slot v m
  | .bad k m => .bad k m
def xfList (h : Hooks) : List Ty → List Ty
  | [] => []
  | t :: ts => xfTy h t :: xfList h ts
def xfFields (h : Hooks) : List Field → List Field
  | [] => []
  | f :: fs => { f with ty := xfTy h f.ty } :: xfFields h fs
end

/-- kinds whose nil kind-pointer is dereferenced by the visitor itself -/
def walkedKinds : List String := ["array", "map", "struct", "disjunction", "intersection"]

/- does a walk over the type survive?  `hooked` = the further kinds whose hook dereferences
   the kind pointer; `structOk` = extra check a struct hook performs (prefix: type assertion) -/
mutual
def walkOk (hooked : List String) (structOk : Meta → Bool) : Ty → Bool
  | .array e _ => walkOk hooked structOk e
  | .map _ v _ => walkOk hooked structOk v
  | .struct fs _ _ m => walkOkFields hooked structOk fs && structOk m
  | .disj bs _ _ => walkOkList hooked structOk bs
  | .inter bs _ => walkOkList hooked structOk bs
  | .bad k _ => !(walkedKinds.contains k || hooked.contains k)
  | _ => true
def walkOkList (hooked : List String) (structOk : Meta → Bool) : List Ty → Bool
  | [] => true
  | t :: ts => walkOk hooked structOk t && walkOkList hooked structOk ts
def walkOkFields (hooked : List String) (structOk : Meta → Bool) : List Field → Bool
  | [] => true
  | f :: fs => walkOk hooked structOk f.ty && walkOkFields hooked structOk fs
end

def walkFail (hooked : List String) (t : Ty) : Option Failure :=
  if walkOk hooked (fun _ => true) t then none else some .panic

/-- `ast.TypeName` (used for trail messages by retype_object / retype_field) dereferences the
    kind pointer of references, scalars and arrays, following arrays down -/
def typeNameOk : Ty → Bool
  | .array e _ => typeNameOk e
  | .bad k _ => !(k == "ref" || k == "scalar" || k == "array")
  | _ => true

/-- `VisitSchema` when `OnSchema` is nil: the entry point type is visited first, then every
    object in order; the new schema is rebuilt with `AddObject` = `Objects.Set(object.Name, …)`,
    so an object whose new name collides with an earlier one REPLACES it at the earlier
    position (see Cog.OMap: `rset`). -/
def rebuild (f : Obj → Obj) : List (String × Obj) → List (String × Obj) → List (String × Obj)
  | acc, [] => acc
  | acc, (_, o) :: rest => rebuild f (rset (f o).name (f o) acc) rest

def visitSchema (onEP : Ty → Ty) (onObj : Schema → Obj → Obj) (s : Schema) : Schema :=
  { s with entryPointType := onEP s.entryPointType, objects := rebuild (onObj s) [] s.objects }

/-- failure of `VisitSchema`: entry point type first, then objects in order.  An error while
    visiting the entry point type is reported as an error. -/
def visitSchemaFail (epFail : Ty → Option Failure) (objFail : Obj → Option Failure) (s : Schema) :
    Option Failure :=
  match epFail s.entryPointType with
  | some f => some f
  | none => firstFail (fun (p : String × Obj) => objFail p.2) s.objects

/-- keys are names: the invariant of every schema built through `AddObject` -/
def KeysAreNames (s : Schema) : Prop := ∀ p ∈ s.objects, p.1 = p.2.name

def keysAreNames (s : Schema) : Bool := s.objects.all fun p => p.1 == p.2.name

end Cog.Xform
