/-
  C06, Go: enum member names carry the name of the enum object as prefix.
  `post_PrefixEnumValues` establishes it for every enum object; the later passes of the Go chain keep
  it because they neither change an enum object nor create one (the objects they register are
  structs, and no `OnDisjunction` hook after DisjunctionOfConstantsToEnum returns an enum).
-/
import Cog.NF.Tables
namespace Cog.NF
open Cog.IR Cog.Passes
open Cog.OMap (rget rset)

def GoEnumOk (S : Schemas) : Prop := ∀ s ∈ S, ∀ ko ∈ s.objects, goEnumNamesObj ko.2 = true

theorem EnumNames_go_iff (S : Schemas) : EnumNames_go S = true ↔ GoEnumOk S := by
  simp [EnumNames_go, schemasAll_iff, GoEnumOk]

/-! ### PrefixEnumValues establishes it -/

theorem prefixed_append (objName n : String) : prefixed objName (ucc objName ++ n) = true := by
  simp [prefixed, String.toList_append]

theorem processValues_prefixed (parent : String) : ∀ (vs vs' : List EnumVal),
    PrefixEnumValues.processValues parent vs = .ok vs' → allMembers (prefixed parent) vs' = true
  | [], vs', h => by simp [PrefixEnumValues.processValues] at h; subst h; simp [allMembers]
  | v :: vs, vs', h => by
    simp only [PrefixEnumValues.processValues] at h
    cases hn : PrefixEnumValues.memberName v with
    | ok n =>
      rw [hn] at h; simp only at h
      cases hr : PrefixEnumValues.processValues parent vs with
      | ok rest =>
        rw [hr] at h; simp at h; subst h
        simp [allMembers, prefixed_append, processValues_prefixed parent vs rest hr]
      | err e => rw [hr] at h; cases h
      | panic e => rw [hr] at h; cases h
    | err e => rw [hn] at h; cases h
    | panic e => rw [hn] at h; cases h

theorem prefixEnum_processObject_ok (o o' : Obj) (h : PrefixEnumValues.processObject o = .ok o') :
    goEnumNamesObj o' = true := by
  simp only [PrefixEnumValues.processObject] at h
  split at h
  · rename_i vs m hty
    cases hv : PrefixEnumValues.processValues o.name vs with
    | ok vs' =>
      rw [hv] at h; simp at h; subst h
      simp [goEnumNamesObj, processValues_prefixed o.name vs vs' hv]
    | err e => rw [hv] at h; cases h
    | panic e => rw [hv] at h; cases h
  · rename_i hne
    simp at h; subst h
    cases hty : o.ty <;> simp_all [goEnumNamesObj]

theorem prefixEnum_processObjects_ok : ∀ (os os' : Objects), PrefixEnumValues.processObjects os = .ok os' →
    ∀ ko ∈ os', goEnumNamesObj ko.2 = true
  | [], os', h => by simp [PrefixEnumValues.processObjects] at h; subst h; simp
  | (k, o) :: rest, os', h => by
    simp only [PrefixEnumValues.processObjects] at h
    cases ho : PrefixEnumValues.processObject o with
    | ok o' =>
      rw [ho] at h; simp only at h
      cases hr : PrefixEnumValues.processObjects rest with
      | ok rest' =>
        rw [hr] at h; simp at h; subst h
        intro ko hko
        simp at hko
        rcases hko with hko | hko
        · subst hko; exact prefixEnum_processObject_ok o o' ho
        · exact prefixEnum_processObjects_ok rest rest' hr ko hko
      | err e => rw [hr] at h; cases h
      | panic e => rw [hr] at h; cases h
    | err e => rw [ho] at h; cases h
    | panic e => rw [ho] at h; cases h

/-- `post_PrefixEnumValues` (no hypothesis on the input) -/
theorem post_PrefixEnumValues (S S' : Schemas) (h : PrefixEnumValues.run S = .ok S') : GoEnumOk S' := by
  intro s' hs'
  obtain ⟨s, _, hf⟩ := mapM_mem h s' hs'
  simp only [PrefixEnumValues.processSchema] at hf
  cases ho : PrefixEnumValues.processObjects s.objects with
  | ok os =>
    rw [ho] at hf; simp at hf; subst hf
    exact prefixEnum_processObjects_ok s.objects os ho
  | err e => rw [ho] at hf; cases hf
  | panic e => rw [ho] at hf; cases hf

/-! ### object-level frames -/

theorem visitPure_objInv (P : Obj → Prop) (v : Schemas → Schema → Ty → Outcome Ty)
    (hv : ∀ cur s o t, P o → v cur s o.ty = .ok t → P { o with ty := t })
    (S S' : Schemas) (hS : ∀ s ∈ S, ∀ ko ∈ s.objects, P ko.2)
    (h : visitSchemas (fun cur s => visitSchemaPure (v cur s) s) S = .ok S') :
    ∀ s' ∈ S', ∀ ko ∈ s'.objects, P ko.2 := by
  intro s' hs' x hx
  obtain ⟨cur, s, hs, hf, _⟩ := visitSchemas_spec h s' hs'
  obtain ⟨_, _, hobjs⟩ := visitSchemaPure_spec hf
  obtain ⟨ko, hko, t, ht, hxe⟩ := hobjs x hx
  rw [hxe]
  exact hv cur s ko.2 t (hS s hs ko hko) ht

theorem visitObjectsSt_objInv (P : Obj → Prop) (R : NewObjs → Prop) (v : Ty → NewObjs → Outcome (Ty × NewObjs))
    (hv : ∀ o n t n', P o → R n → v o.ty n = .ok (t, n') → P { o with ty := t } ∧ R n') :
    ∀ (os acc : Objects) (n : NewObjs) (out : Objects) (n' : NewObjs),
      (∀ ko ∈ os, P ko.2) → (∀ ko ∈ acc, P ko.2) → R n →
      visitObjectsSt v os acc n = .ok (out, n') → (∀ ko ∈ out, P ko.2) ∧ R n'
  | [], acc, n, out, n', _, hacc, hn, h => by
    simp [visitObjectsSt] at h; obtain ⟨rfl, rfl⟩ := h; exact ⟨hacc, hn⟩
  | (k, o) :: rest, acc, n, out, n', hos, hacc, hn, h => by
    simp only [visitObjectsSt] at h
    cases hvo : v o.ty n with
    | ok rn =>
      obtain ⟨r, n1⟩ := rn
      rw [hvo] at h
      simp only at h
      have h1 := hv o n r n1 (hos (k, o) (by simp)) hn hvo
      refine visitObjectsSt_objInv P R v hv rest _ n1 out n' (fun ko hko => hos ko (List.mem_cons_of_mem _ hko)) ?_ h1.2 h
      intro ko hko
      rcases mem_rset hko with h2 | h2
      · subst h2; exact h1.1
      · exact hacc ko h2
    | err e => rw [hvo] at h; cases h
    | panic e => rw [hvo] at h; cases h

/-- stateful frame, object-level: `R` is an invariant of the registry that implies `P` for every
    registered object; the entry point visit only has to keep `R` -/
theorem visitSt_objInv (P : Obj → Prop) (R : NewObjs → Prop) (v : Schemas → Schema → Ty → NewObjs → Outcome (Ty × NewObjs))
    (hR0 : R []) (hRP : ∀ n, R n → ∀ ko ∈ n, P ko.2)
    (hv : ∀ cur s o n t n', P o → R n → v cur s o.ty n = .ok (t, n') → P { o with ty := t } ∧ R n')
    (hve : ∀ cur s t n r n', R n → v cur s t n = .ok (r, n') → R n')
    (S S' : Schemas) (hS : ∀ s ∈ S, ∀ ko ∈ s.objects, P ko.2)
    (h : visitSchemas (fun cur s => visitSchemaSt (v cur s) s) S = .ok S') :
    ∀ s' ∈ S', ∀ ko ∈ s'.objects, P ko.2 := by
  intro s' hs' x hx
  obtain ⟨cur, s, hs, hf, _⟩ := visitSchemas_spec h s' hs'
  simp only [visitSchemaSt] at hf
  cases he : v cur s s.entryPointType [] with
  | ok en =>
    obtain ⟨ept, n0⟩ := en
    rw [he] at hf
    simp only at hf
    have hn0 := hve cur s _ _ _ _ hR0 he
    cases ho : visitObjectsSt (v cur s) s.objects [] n0 with
    | ok on =>
      obtain ⟨objs, n1⟩ := on
      rw [ho] at hf
      simp at hf
      subst hf
      have h1 := visitObjectsSt_objInv P R (v cur s) (hv cur s) s.objects [] n0 objs n1 (hS s hs)
        (by intro ko hk; simp at hk) hn0 ho
      simp only [flushNew] at hx
      rcases addObjects_mem hx with h2 | h2
      · exact h1.1 x h2
      · simp only [List.mem_map] at h2
        obtain ⟨ko', hko', he'⟩ := h2
        rw [← he']; exact hRP n1 h1.2 ko' hko'
    | err e => rw [ho] at hf; cases hf
    | panic e => rw [ho] at hf; cases hf
  | err e => rw [he] at hf; cases hf
  | panic e => rw [he] at hf; cases hf

/-! ### hooks that never return an enum -/

def NoEnumHook (hook : DisjHook) : Prop := ∀ bs i m vs m', hook bs i m ≠ .ok (.enum vs m')

theorem dvTy_enum_inv (hook : DisjHook) (hk : NoEnumHook hook) (t : Ty) (vs : List EnumVal) (m : Meta)
    (h : dvTy hook t = .ok (.enum vs m)) : t = .enum vs m := by
  cases t with
  | enum vs0 m0 => simp [dvTy] at h; obtain ⟨rfl, rfl⟩ := h; rfl
  | disj bs i m0 => simp only [dvTy] at h; exact absurd h (hk bs i m0 vs m)
  | scalar k v c m0 => simp [dvTy] at h
  | ref p n m0 => simp [dvTy] at h
  | cref p n v m0 => simp [dvTy] at h
  | slot v m0 => simp [dvTy] at h
  | bad k m0 => simp [dvTy] at h
  | array e m0 =>
    simp only [dvTy] at h
    cases he : dvTy hook e <;> rw [he] at h <;> simp at h
  | map i v m0 =>
    simp only [dvTy] at h
    cases he : dvTy hook v <;> rw [he] at h <;> simp at h
  | struct fs g gi m0 =>
    simp only [dvTy] at h
    cases he : dvFields hook fs <;> rw [he] at h <;> simp at h
  | inter bs m0 =>
    simp only [dvTy] at h
    cases he : dvList hook bs <;> rw [he] at h <;> simp at h

theorem goEnumNamesObj_withTy (o : Obj) (t : Ty) (h : goEnumNamesObj o = true)
    (ht : ∀ vs m, t = .enum vs m → o.ty = .enum vs m) : goEnumNamesObj { o with ty := t } = true := by
  cases t with
  | enum vs m =>
    have := ht vs m rfl
    simp only [goEnumNamesObj] at h ⊢
    rw [this] at h
    exact h
  | _ => simp [goEnumNamesObj]

theorem keeps_goEnum_runDisjPass (hook : Schemas → Schema → DisjHook) (hk : ∀ cur s, NoEnumHook (hook cur s))
    (S S' : Schemas) (hS : GoEnumOk S) (h : runDisjPass hook S = .ok S') : GoEnumOk S' :=
  visitPure_objInv (fun o => goEnumNamesObj o = true) (fun cur s => dvTy (hook cur s))
    (fun cur s o t ho ht => goEnumNamesObj_withTy o t ho (fun vs m he => by
      subst he; exact dvTy_enum_inv _ (hk cur s) o.ty vs m ht)) S S' hS h

theorem noEnumHook_flatten (cur : Schemas) (s : Schema) : NoEnumHook (FlattenDisjunctions.hook cur s) := by
  intro bs i m vs m' h
  obtain ⟨bs', h', _⟩ := flatten_hook_cases cur s bs i m _ h
  cases h'

theorem noEnumHook_inferMapping (pick : List String → String) (cur : Schemas) (s : Schema) :
    NoEnumHook (DisjunctionInferMapping.hookWith pick cur s) := by
  intro bs i m vs m' h
  obtain ⟨i', h'⟩ := inferMapping_hook_cases pick cur s bs i m _ h
  cases h'

theorem noEnumHook_toAny (cur : Schemas) (s : Schema) : NoEnumHook (UndiscriminatedDisjunctionToAny.hook cur s) := by
  intro bs i m vs m' h
  rcases toAny_hook_cases cur s bs i m _ h with h' | h' <;> cases h'

theorem noEnumHook_nullToOptional_of (bs : List Ty) (i : DisjInfo) (m : Meta) (vs : List EnumVal) (m' : Meta)
    (h : DisjunctionWithNullToOptional.hook bs i m = .ok (.enum vs m')) : ∃ b ∈ bs, b.isEnum = true := by
  rcases nullToOptional_hook_cases bs i m _ h with h' | ⟨t, ht, h'⟩
  · cases h'
  · refine ⟨t, ht, ?_⟩
    cases t <;> simp_all [setNullable, Ty.setMeta, Ty.isEnum]

/-! ### the stateful passes: registered objects are structs -/

def RegStruct (n : NewObjs) : Prop := ∀ ko ∈ n, ko.2.ty.isStruct = true

theorem goEnumNamesObj_of_struct (o : Obj) (h : o.ty.isStruct = true) : goEnumNamesObj o = true := by
  cases ht : o.ty <;> simp_all [goEnumNamesObj, Ty.isStruct]

def NoEnumHookSt (hook : DisjHookSt) : Prop :=
  ∀ bs i m n r n', hook bs i m n = .ok (r, n') → r.isEnum = false ∧ (RegStruct n → RegStruct n')

mutual
theorem dvStTy_reg (hook : DisjHookSt) (hk : NoEnumHookSt hook) : ∀ (t : Ty) (n : NewObjs) (r : Ty) (n' : NewObjs),
    dvStTy hook t n = .ok (r, n') → RegStruct n → RegStruct n'
  | .scalar .., n, r, n', h, hn => by simp [dvStTy] at h; obtain ⟨_, rfl⟩ := h; exact hn
  | .ref .., n, r, n', h, hn => by simp [dvStTy] at h; obtain ⟨_, rfl⟩ := h; exact hn
  | .cref .., n, r, n', h, hn => by simp [dvStTy] at h; obtain ⟨_, rfl⟩ := h; exact hn
  | .enum .., n, r, n', h, hn => by simp [dvStTy] at h; obtain ⟨_, rfl⟩ := h; exact hn
  | .slot .., n, r, n', h, hn => by simp [dvStTy] at h; obtain ⟨_, rfl⟩ := h; exact hn
  | .bad .., n, r, n', h, hn => by simp [dvStTy] at h; obtain ⟨_, rfl⟩ := h; exact hn
  | .array e m, n, r, n', h, hn => by
    simp only [dvStTy] at h
    cases he : dvStTy hook e n with
    | ok en => obtain ⟨e', n1⟩ := en; rw [he] at h; simp at h; obtain ⟨_, rfl⟩ := h; exact dvStTy_reg hook hk e n e' n1 he hn
    | err x => rw [he] at h; cases h
    | panic x => rw [he] at h; cases h
  | .map i v m, n, r, n', h, hn => by
    simp only [dvStTy] at h
    cases he : dvStTy hook v n with
    | ok en => obtain ⟨e', n1⟩ := en; rw [he] at h; simp at h; obtain ⟨_, rfl⟩ := h; exact dvStTy_reg hook hk v n e' n1 he hn
    | err x => rw [he] at h; cases h
    | panic x => rw [he] at h; cases h
  | .struct fs g gi m, n, r, n', h, hn => by
    simp only [dvStTy] at h
    cases he : dvStFields hook fs n with
    | ok en => obtain ⟨e', n1⟩ := en; rw [he] at h; simp at h; obtain ⟨_, rfl⟩ := h; exact dvStFields_reg hook hk fs n e' n1 he hn
    | err x => rw [he] at h; cases h
    | panic x => rw [he] at h; cases h
  | .disj bs i m, n, r, n', h, hn => by
    simp only [dvStTy] at h
    exact (hk bs i m n r n' h).2 hn
  | .inter bs m, n, r, n', h, hn => by
    simp only [dvStTy] at h
    cases he : dvStList hook bs n with
    | ok en => obtain ⟨e', n1⟩ := en; rw [he] at h; simp at h; obtain ⟨_, rfl⟩ := h; exact dvStList_reg hook hk bs n e' n1 he hn
    | err x => rw [he] at h; cases h
    | panic x => rw [he] at h; cases h
theorem dvStList_reg (hook : DisjHookSt) (hk : NoEnumHookSt hook) : ∀ (ts : List Ty) (n : NewObjs) (rs : List Ty) (n' : NewObjs),
    dvStList hook ts n = .ok (rs, n') → RegStruct n → RegStruct n'
  | [], n, rs, n', h, hn => by simp [dvStList] at h; obtain ⟨_, rfl⟩ := h; exact hn
  | t :: ts, n, rs, n', h, hn => by
    simp only [dvStList] at h
    cases ht : dvStTy hook t n with
    | ok tn =>
      obtain ⟨t', n1⟩ := tn
      rw [ht] at h; simp only at h
      cases hts : dvStList hook ts n1 with
      | ok tsn =>
        obtain ⟨ts', n2⟩ := tsn
        rw [hts] at h; simp at h; obtain ⟨_, rfl⟩ := h
        exact dvStList_reg hook hk ts n1 ts' n2 hts (dvStTy_reg hook hk t n t' n1 ht hn)
      | err x => rw [hts] at h; cases h
      | panic x => rw [hts] at h; cases h
    | err x => rw [ht] at h; cases h
    | panic x => rw [ht] at h; cases h
theorem dvStFields_reg (hook : DisjHookSt) (hk : NoEnumHookSt hook) : ∀ (fs : List Field) (n : NewObjs) (rs : List Field) (n' : NewObjs),
    dvStFields hook fs n = .ok (rs, n') → RegStruct n → RegStruct n'
  | [], n, rs, n', h, hn => by simp [dvStFields] at h; obtain ⟨_, rfl⟩ := h; exact hn
  | f :: fs, n, rs, n', h, hn => by
    simp only [dvStFields] at h
    cases ht : dvStTy hook f.ty n with
    | ok tn =>
      obtain ⟨t', n1⟩ := tn
      rw [ht] at h; simp only at h
      cases hfs : dvStFields hook fs n1 with
      | ok fsn =>
        obtain ⟨fs', n2⟩ := fsn
        rw [hfs] at h; simp at h; obtain ⟨_, rfl⟩ := h
        exact dvStFields_reg hook hk fs n1 fs' n2 hfs (dvStTy_reg hook hk f.ty n t' n1 ht hn)
      | err x => rw [hfs] at h; cases h
      | panic x => rw [hfs] at h; cases h
    | err x => rw [ht] at h; cases h
    | panic x => rw [ht] at h; cases h
end

theorem dvStTy_enum_inv (hook : DisjHookSt) (hk : NoEnumHookSt hook) (t : Ty) (n : NewObjs) (vs : List EnumVal) (m : Meta)
    (n' : NewObjs) (h : dvStTy hook t n = .ok (.enum vs m, n')) : t = .enum vs m := by
  cases t with
  | enum vs0 m0 => simp [dvStTy] at h; obtain ⟨⟨rfl, rfl⟩, _⟩ := h; rfl
  | disj bs i m0 =>
    simp only [dvStTy] at h
    have := (hk bs i m0 n _ n' h).1
    simp [Ty.isEnum] at this
  | scalar k v c m0 => simp [dvStTy] at h
  | ref p nm m0 => simp [dvStTy] at h
  | cref p nm v m0 => simp [dvStTy] at h
  | slot v m0 => simp [dvStTy] at h
  | bad k m0 => simp [dvStTy] at h
  | array e m0 =>
    simp only [dvStTy] at h
    cases he : dvStTy hook e n <;> rw [he] at h <;> simp at h
  | map i v m0 =>
    simp only [dvStTy] at h
    cases he : dvStTy hook v n <;> rw [he] at h <;> simp at h
  | struct fs g gi m0 =>
    simp only [dvStTy] at h
    cases he : dvStFields hook fs n <;> rw [he] at h <;> simp at h
  | inter bs m0 =>
    simp only [dvStTy] at h
    cases he : dvStList hook bs n <;> rw [he] at h <;> simp at h

theorem RegStruct.register {n : NewObjs} {o : Obj} (h : RegStruct n) (ho : o.ty.isStruct = true) : RegStruct (registerNew o n) := by
  intro ko hko
  rcases mem_rset hko with h1 | h1
  · subst h1; exact ho
  · exact h ko h1

theorem noEnumHookSt_toType (cur : Schemas) (s : Schema) : NoEnumHookSt (DisjunctionToType.hook cur s) := by
  intro bs i m n r n' h
  obtain ⟨hr, hn⟩ := toType_hook_cases cur s bs i m n r n' h
  refine ⟨?_, ?_⟩
  · rcases hr with ⟨k, mm, rfl⟩ | ⟨p, nm, mm, rfl⟩ <;> simp [Ty.isEnum]
  · intro hreg
    rcases hn with rfl | ⟨nm, g, gi, mm, rfl⟩
    · exact hreg
    · exact hreg.register (by simp [newObject, Ty.isStruct])

theorem keeps_goEnum_DisjunctionToType (S S' : Schemas) (hS : GoEnumOk S)
    (h : DisjunctionToType.run S = .ok S') : GoEnumOk S' := by
  refine visitSt_objInv (fun o => goEnumNamesObj o = true) RegStruct
    (fun cur s => dvStTy (DisjunctionToType.hook cur s)) (by intro ko h; simp at h)
    (fun n hn ko hko => goEnumNamesObj_of_struct ko.2 (hn ko hko)) ?_ ?_ S S' hS h
  · intro cur s o n t n' ho hn ht
    refine ⟨goEnumNamesObj_withTy o t ho (fun vs m he => ?_), dvStTy_reg _ (noEnumHookSt_toType cur s) o.ty n t n' ht hn⟩
    subst he
    exact dvStTy_enum_inv _ (noEnumHookSt_toType cur s) o.ty n vs m n' ht
  · intro cur s t n r n' hn ht
    exact dvStTy_reg _ (noEnumHookSt_toType cur s) t n r n' ht hn

/-! DisjunctionOfAnonymousStructsToExplicit -/
section toExplicit
open Cog.Passes.DisjunctionOfAnonymousStructsToExplicit

mutual
theorem toExplicit_reg (pkg : String) : ∀ (t : Ty) (n : NewObjs), RegStruct n → RegStruct (vTy pkg t n).2
  | .scalar .., n, hn => by simp [vTy]; exact hn
  | .ref .., n, hn => by simp [vTy]; exact hn
  | .cref .., n, hn => by simp [vTy]; exact hn
  | .enum .., n, hn => by simp [vTy]; exact hn
  | .slot .., n, hn => by simp [vTy]; exact hn
  | .bad .., n, hn => by simp [vTy]; exact hn
  | .array e m, n, hn => by simp only [vTy]; exact toExplicit_reg pkg e n hn
  | .map i v m, n, hn => by simp only [vTy]; exact toExplicit_reg pkg v n hn
  | .struct fs g gi m, n, hn => by simp only [vTy]; exact toExplicit_regFields pkg fs n hn
  | .disj bs info m, n, hn => by
    simp only [vTy]
    split
    · exact hn
    · exact toExplicit_regBranches pkg bs 0 n hn
  | .inter bs m, n, hn => by simp only [vTy]; exact toExplicit_regList pkg bs n hn
theorem toExplicit_regList (pkg : String) : ∀ (ts : List Ty) (n : NewObjs), RegStruct n → RegStruct (vList pkg ts n).2
  | [], n, hn => by simp [vList]; exact hn
  | t :: ts, n, hn => by simp only [vList]; exact toExplicit_regList pkg ts _ (toExplicit_reg pkg t n hn)
theorem toExplicit_regFields (pkg : String) : ∀ (fs : List Field) (n : NewObjs), RegStruct n → RegStruct (vFields pkg fs n).2
  | [], n, hn => by simp [vFields]; exact hn
  | f :: fs, n, hn => by simp only [vFields]; exact toExplicit_regFields pkg fs _ (toExplicit_reg pkg f.ty n hn)
theorem toExplicit_regBranches (pkg : String) : ∀ (bs : List Ty) (i : Nat) (n : NewObjs), RegStruct n → RegStruct (hookBranches pkg bs i n).2
  | [], _, n, hn => by simp [hookBranches]; exact hn
  | b :: bs, i, n, hn => by
    cases b with
    | struct fs g gi m =>
      simp only [hookBranches]
      exact toExplicit_regBranches pkg bs (i + 1) _ ((toExplicit_regFields pkg fs n hn).register (by simp [newObject, Ty.isStruct]))
    | scalar k v c m => simp only [hookBranches]; exact toExplicit_regBranches pkg bs (i + 1) n hn
    | ref p nm m => simp only [hookBranches]; exact toExplicit_regBranches pkg bs (i + 1) n hn
    | cref p nm v m => simp only [hookBranches]; exact toExplicit_regBranches pkg bs (i + 1) n hn
    | array e m => simp only [hookBranches]; exact toExplicit_regBranches pkg bs (i + 1) n hn
    | map ix v m => simp only [hookBranches]; exact toExplicit_regBranches pkg bs (i + 1) n hn
    | enum vs m => simp only [hookBranches]; exact toExplicit_regBranches pkg bs (i + 1) n hn
    | disj bs2 i2 m => simp only [hookBranches]; exact toExplicit_regBranches pkg bs (i + 1) n hn
    | inter bs2 m => simp only [hookBranches]; exact toExplicit_regBranches pkg bs (i + 1) n hn
    | slot v m => simp only [hookBranches]; exact toExplicit_regBranches pkg bs (i + 1) n hn
    | bad k m => simp only [hookBranches]; exact toExplicit_regBranches pkg bs (i + 1) n hn
end

theorem toExplicit_enum_inv (pkg : String) (t : Ty) (n : NewObjs) (vs : List EnumVal) (m : Meta)
    (h : (vTy pkg t n).1 = .enum vs m) : t = .enum vs m := by
  cases t with
  | enum vs0 m0 => simpa [vTy] using h
  | disj bs i m0 =>
    simp only [vTy] at h
    split at h <;> simp at h
  | scalar k v c m0 => simp [vTy] at h
  | ref p nm m0 => simp [vTy] at h
  | cref p nm v m0 => simp [vTy] at h
  | slot v m0 => simp [vTy] at h
  | bad k m0 => simp [vTy] at h
  | array e m0 => simp [vTy] at h
  | map i v m0 => simp [vTy] at h
  | struct fs g gi m0 => simp [vTy] at h
  | inter bs m0 => simp [vTy] at h

theorem keeps_goEnum_DisjunctionOfAnonymousStructsToExplicit (S S' : Schemas) (hS : GoEnumOk S)
    (h : DisjunctionOfAnonymousStructsToExplicit.run S = .ok S') : GoEnumOk S' := by
  refine visitSt_objInv (fun o => goEnumNamesObj o = true) RegStruct
    (fun _ s t n => .ok (vTy s.pkg t n)) (by intro ko h; simp at h)
    (fun n hn ko hko => goEnumNamesObj_of_struct ko.2 (hn ko hko)) ?_ ?_ S S' hS h
  · intro cur s o n t n' ho hn ht
    simp at ht
    have h1 : t = (vTy s.pkg o.ty n).1 := by rw [ht]
    have h2 : n' = (vTy s.pkg o.ty n).2 := by rw [ht]
    refine ⟨goEnumNamesObj_withTy o t ho (fun vs m he => ?_), by rw [h2]; exact toExplicit_reg s.pkg o.ty n hn⟩
    rw [h1] at he
    exact toExplicit_enum_inv s.pkg o.ty n vs m he
  · intro cur s t n r n' hn ht
    simp at ht
    have h2 : n' = (vTy s.pkg t n).2 := by rw [ht]
    rw [h2]; exact toExplicit_reg s.pkg t n hn

end toExplicit

/-- passes of the Go chain after PrefixEnumValues, with a lemma that they keep the prefixes -/
def keepsGoEnum : PassId → Bool
  | .flattenDisjunctions => true
  | .disjunctionOfAnonymousStructsToExplicit => true
  | .disjunctionInferMapping => true
  | .undiscriminatedDisjunctionToAny => true
  | .disjunctionToType => true
  | _ => false

theorem keepsGoEnum_sound (p : PassId) (h : keepsGoEnum p = true) : Keeps GoEnumOk p := by
  intro S S' hS hr
  cases p <;> simp [keepsGoEnum] at h
  · exact keeps_goEnum_runDisjPass _ noEnumHook_flatten S S' hS hr
  · exact keeps_goEnum_DisjunctionOfAnonymousStructsToExplicit S S' hS hr
  · exact keeps_goEnum_runDisjPass _ (noEnumHook_inferMapping _) S S' hS hr
  · exact keeps_goEnum_runDisjPass _ noEnumHook_toAny S S' hS hr
  · exact keeps_goEnum_DisjunctionToType S S' hS hr

end Cog.NF
