/-
  C06: the generic preservation lemma for passes made of one `OnDisjunction` hook (Passes/Visitor.lean),
  by structural induction over the type tree, for every local test `q`:
  if the hook maps a `q`-good disjunction node to a `q`-good type that can stand in the same field
  (`HookOk`), the pass maps `q`-good schemas to `q`-good schemas (`runDisjPass_keeps`).
-/
import Cog.NF.Sat
namespace Cog.NF
open Cog.IR Cog.Passes

/-- `r` may replace `t` as the type of a field -/
def FieldCompat (q : Q) (t r : Ty) : Prop :=
  ∀ req, q.fieldOk req t.getMeta.nullable = true → q.fieldOk req r.getMeta.nullable = true

theorem FieldCompat.rfl' (q : Q) (t : Ty) : FieldCompat q t t := fun _ h => h

theorem FieldCompat.of_meta_eq (q : Q) {t r : Ty} (h : r.getMeta.nullable = t.getMeta.nullable) : FieldCompat q t r := by
  intro req hq; rw [h]; exact hq

structure HookOk (q : Q) (hook : DisjHook) : Prop where
  nested : ∀ bs i m r, sat q (.disj bs i m) = true → hook bs i m = .ok r →
    sat q r = true ∧ FieldCompat q (.disj bs i m) r
  top : ∀ bs i m r, sat q (.disj bs i m) = true → hook bs i m = .ok r → satTop q r = true

mutual
theorem dvTy_sat (q : Q) (hook : DisjHook) (hk : HookOk q hook) :
    ∀ (t r : Ty), sat q t = true → dvTy hook t = .ok r → sat q r = true ∧ FieldCompat q t r
  | .scalar .., r, h, hr => by simp [dvTy] at hr; subst hr; exact ⟨h, FieldCompat.rfl' _ _⟩
  | .ref .., r, h, hr => by simp [dvTy] at hr; subst hr; exact ⟨h, FieldCompat.rfl' _ _⟩
  | .cref .., r, h, hr => by simp [dvTy] at hr; subst hr; exact ⟨h, FieldCompat.rfl' _ _⟩
  | .enum .., r, h, hr => by simp [dvTy] at hr; subst hr; exact ⟨h, FieldCompat.rfl' _ _⟩
  | .slot .., r, h, hr => by simp [dvTy] at hr; subst hr; exact ⟨h, FieldCompat.rfl' _ _⟩
  | .bad .., r, h, hr => by simp [dvTy] at hr; subst hr; exact ⟨h, FieldCompat.rfl' _ _⟩
  | .array e m, r, h, hr => by
    simp only [dvTy] at hr
    cases he : dvTy hook e with
    | ok e' =>
      rw [he] at hr; simp at hr; subst hr
      simp only [sat] at h
      exact ⟨by simp [sat, (dvTy_sat q hook hk e e' h he).1], FieldCompat.of_meta_eq q rfl⟩
    | err x => rw [he] at hr; cases hr
    | panic x => rw [he] at hr; cases hr
  | .map i v m, r, h, hr => by
    simp only [dvTy] at hr
    cases hv : dvTy hook v with
    | ok v' =>
      rw [hv] at hr; simp at hr; subst hr
      simp only [sat, Bool.and_eq_true] at h
      exact ⟨by simp [sat, h.1.1, h.1.2, (dvTy_sat q hook hk v v' h.2 hv).1], FieldCompat.of_meta_eq q rfl⟩
    | err x => rw [hv] at hr; cases hr
    | panic x => rw [hv] at hr; cases hr
  | .struct fs g gi m, r, h, hr => by
    simp only [dvTy] at hr
    cases hf : dvFields hook fs with
    | ok fs' =>
      rw [hf] at hr; simp at hr; subst hr
      simp only [sat, Bool.and_eq_true] at h
      exact ⟨by simp [sat, h.1, dvFields_sat q hook hk fs fs' h.2 hf], FieldCompat.of_meta_eq q rfl⟩
    | err x => rw [hf] at hr; cases hr
    | panic x => rw [hf] at hr; cases hr
  | .disj bs i m, r, h, hr => by
    simp only [dvTy] at hr
    exact hk.nested bs i m r h hr
  | .inter bs m, r, h, hr => by
    simp only [dvTy] at hr
    cases hb : dvList hook bs with
    | ok bs' =>
      rw [hb] at hr; simp at hr; subst hr
      refine ⟨?_, FieldCompat.of_meta_eq q rfl⟩
      simp only [sat, Bool.or_eq_true] at h ⊢
      rcases h with h | h
      · exact Or.inl h
      · exact Or.inr (dvList_sat q hook hk bs bs' h hb)
    | err x => rw [hb] at hr; cases hr
    | panic x => rw [hb] at hr; cases hr
theorem dvList_sat (q : Q) (hook : DisjHook) (hk : HookOk q hook) :
    ∀ (ts rs : List Ty), satList q ts = true → dvList hook ts = .ok rs → satList q rs = true
  | [], rs, _, hr => by simp [dvList] at hr; subst hr; simp [satList]
  | t :: ts, rs, h, hr => by
    simp only [dvList] at hr
    simp only [satList, Bool.and_eq_true] at h
    cases ht : dvTy hook t with
    | ok t' =>
      rw [ht] at hr; simp only at hr
      cases hts : dvList hook ts with
      | ok ts' =>
        rw [hts] at hr; simp at hr; subst hr
        simp [satList, (dvTy_sat q hook hk t t' h.1 ht).1, dvList_sat q hook hk ts ts' h.2 hts]
      | err x => rw [hts] at hr; cases hr
      | panic x => rw [hts] at hr; cases hr
    | err x => rw [ht] at hr; cases hr
    | panic x => rw [ht] at hr; cases hr
theorem dvFields_sat (q : Q) (hook : DisjHook) (hk : HookOk q hook) :
    ∀ (fs rs : List Field), satFields q fs = true → dvFields hook fs = .ok rs → satFields q rs = true
  | [], rs, _, hr => by simp [dvFields] at hr; subst hr; simp [satFields]
  | f :: fs, rs, h, hr => by
    simp only [dvFields] at hr
    simp only [satFields, Bool.and_eq_true] at h
    cases ht : dvTy hook f.ty with
    | ok t' =>
      rw [ht] at hr; simp only at hr
      cases hfs : dvFields hook fs with
      | ok fs' =>
        rw [hfs] at hr; simp at hr; subst hr
        have := dvTy_sat q hook hk f.ty t' h.1.2 ht
        simp [satFields, this.1, this.2 f.required h.1.1, dvFields_sat q hook hk fs fs' h.2 hfs]
      | err x => rw [hfs] at hr; cases hr
      | panic x => rw [hfs] at hr; cases hr
    | err x => rw [ht] at hr; cases hr
    | panic x => rw [ht] at hr; cases hr
end

theorem dvTy_satTop (q : Q) (hook : DisjHook) (hk : HookOk q hook) (t r : Ty)
    (h : satTop q t = true) (hr : dvTy hook t = .ok r) : satTop q r = true := by
  cases t with
  | struct fs g gi m =>
    simp only [dvTy] at hr
    cases hf : dvFields hook fs with
    | ok fs' =>
      rw [hf] at hr; simp at hr; subst hr
      simp only [satTop] at h ⊢
      exact dvFields_sat q hook hk fs fs' h hf
    | err x => rw [hf] at hr; cases hr
    | panic x => rw [hf] at hr; cases hr
  | enum vs m => simp [dvTy] at hr; subst hr; exact h
  | disj bs i m => simp only [dvTy] at hr; exact hk.top bs i m r (by simpa [satTop] using h) hr
  | scalar k v c m => exact satTop_of_sat q r (dvTy_sat q hook hk _ r (by simpa [satTop] using h) hr).1
  | ref p n m => exact satTop_of_sat q r (dvTy_sat q hook hk _ r (by simpa [satTop] using h) hr).1
  | cref p n v m => exact satTop_of_sat q r (dvTy_sat q hook hk _ r (by simpa [satTop] using h) hr).1
  | array e m => exact satTop_of_sat q r (dvTy_sat q hook hk _ r (by simpa [satTop] using h) hr).1
  | map i v m => exact satTop_of_sat q r (dvTy_sat q hook hk _ r (by simpa [satTop] using h) hr).1
  | inter bs m => exact satTop_of_sat q r (dvTy_sat q hook hk _ r (by simpa [satTop] using h) hr).1
  | slot v m => exact satTop_of_sat q r (dvTy_sat q hook hk _ r (by simpa [satTop] using h) hr).1
  | bad k m => exact satTop_of_sat q r (dvTy_sat q hook hk _ r (by simpa [satTop] using h) hr).1

/-! ### schema level -/

/-- a schema whose objects pass `satTop q` and whose entry point type passes `sat q` -/
def SchemaTop (q : Q) (s : Schema) : Prop :=
  sat q s.entryPointType = true ∧ ∀ ko ∈ s.objects, satTop q ko.2.ty = true

theorem AllTop_iff (q : Q) (S : Schemas) : AllTop q S ↔ ∀ s ∈ S, SchemaTop q s := Iff.rfl

theorem visitSchemasFrom_inv {P : Schema → Prop} {f : Schemas → Schema → Outcome Schema}
    (hf : ∀ cur s s', s ∈ cur → (∀ x ∈ cur, P x) → f cur s = .ok s' → P s') :
    ∀ (rest done out : Schemas), (∀ x ∈ done, P x) → (∀ x ∈ rest, P x) →
      visitSchemasFrom f done rest = .ok out → ∀ x ∈ out, P x
  | [], done, out, hd, _, h => by simp [visitSchemasFrom] at h; subst h; exact hd
  | s :: rest, done, out, hd, hrst, h => by
    simp only [visitSchemasFrom] at h
    cases hfs : f (done ++ s :: rest) s with
    | ok s1 =>
      rw [hfs] at h
      have hcur : ∀ x ∈ done ++ s :: rest, P x := by
        intro x hx
        simp at hx
        rcases hx with hx | hx | hx
        · exact hd x hx
        · exact hrst x (by simp [hx])
        · exact hrst x (by simp [hx])
      have hs1 : P s1 := hf _ s s1 (by simp) hcur hfs
      refine visitSchemasFrom_inv hf rest (done ++ [s1]) out ?_ (fun x hx => hrst x (List.mem_cons_of_mem _ hx)) h
      intro x hx
      simp at hx
      rcases hx with hx | hx
      · exact hd x hx
      · subst hx; exact hs1
    | err e => rw [hfs] at h; cases h
    | panic e => rw [hfs] at h; cases h

theorem visitSchemaPure_keeps (q : Q) (hook : DisjHook) (hk : HookOk q hook) (s s' : Schema)
    (hs : SchemaTop q s) (h : visitSchemaPure (dvTy hook) s = .ok s') : SchemaTop q s' := by
  obtain ⟨he, _, hobjs⟩ := visitSchemaPure_spec h
  refine ⟨(dvTy_sat q hook hk _ _ hs.1 he).1, ?_⟩
  intro x hx
  obtain ⟨ko, hko, t, ht, hxe⟩ := hobjs x hx
  rw [hxe]
  exact dvTy_satTop q hook hk ko.2.ty t (hs.2 ko hko) ht

/-- the pass-level lemma: a hook that is `HookOk` whenever the schemas it can look at are `q`-good
    keeps `q` -/
theorem runDisjPass_keeps (q : Q) (hook : Schemas → Schema → DisjHook)
    (hk : ∀ cur s, s ∈ cur → (∀ x ∈ cur, SchemaTop q x) → HookOk q (hook cur s))
    (S S' : Schemas) (hS : AllTop q S) (h : runDisjPass hook S = .ok S') : AllTop q S' := by
  rw [AllTop_iff] at hS ⊢
  refine visitSchemasFrom_inv (P := SchemaTop q) ?_ S [] S' (by simp) hS h
  intro cur s s' hmem hcur hf
  exact visitSchemaPure_keeps q (hook cur s) (hk cur s hmem hcur) s s' (hcur s hmem) hf

end Cog.NF
