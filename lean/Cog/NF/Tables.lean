/-
  C06: the second table of preservation lemmas (tests that do not look at fields), the entry-point
  invariant, and the lemmas about it.
-/
import Cog.NF.StatefulPasses
namespace Cog.NF
open Cog.IR Cog.Passes

/-! ### entry point types stay leaves -/

def EptOkAll (S : Schemas) : Prop := ∀ s ∈ S, eptOk s.entryPointType = true

theorem wfIR_EptOkAll {S : Schemas} (h : wfIR S = true) : EptOkAll S := wfIR_ept h

theorem dvTy_eptOk (hook : DisjHook) (t r : Ty) (h : eptOk t = true) (hr : dvTy hook t = .ok r) : r = t := by
  cases t <;> simp_all [eptOk, dvTy]

theorem visitPure_eptOk (v : Schemas → Schema → Ty → Outcome Ty)
    (hv : ∀ cur s t r, eptOk t = true → v cur s t = .ok r → r = t) (S S' : Schemas) (hS : EptOkAll S)
    (h : visitSchemas (fun cur s => visitSchemaPure (v cur s) s) S = .ok S') : EptOkAll S' := by
  intro s' hs'
  obtain ⟨cur, s, hs, hf, _⟩ := visitSchemas_spec h s' hs'
  obtain ⟨he, _, _⟩ := visitSchemaPure_spec hf
  have := hv cur s _ _ (hS s hs) he
  rw [this]; exact hS s hs

theorem keeps_eptOk_runDisjPass (hook : Schemas → Schema → DisjHook) (S S' : Schemas) (hS : EptOkAll S)
    (h : runDisjPass hook S = .ok S') : EptOkAll S' :=
  visitPure_eptOk (fun cur s => dvTy (hook cur s)) (fun _ _ t r ht hr => dvTy_eptOk _ t r ht hr) S S' hS h

theorem keeps_eptOk_notRequired (S S' : Schemas) (hS : EptOkAll S)
    (h : NotRequiredFieldAsNullableType.run S = .ok S') : EptOkAll S' := by
  refine visitPure_eptOk (fun _ _ t => .ok (NotRequiredFieldAsNullableType.vTy t)) ?_ S S' hS h
  intro cur s t r ht hr
  simp at hr; subst hr
  cases t <;> simp_all [eptOk, NotRequiredFieldAsNullableType.vTy]

theorem keeps_eptOk_anonStructs (S S' : Schemas) (hS : EptOkAll S)
    (h : AnonymousStructsToNamed.run S = .ok S') : EptOkAll S' := by
  simp [AnonymousStructsToNamed.run] at h
  subst h
  intro s' hs'
  simp only [List.mem_map] at hs'
  obtain ⟨s, hs, rfl⟩ := hs'
  exact hS s hs

/-- passes known to keep the entry point types leaves (those that precede AnonymousEnumToExplicitType) -/
def keepsEpt : PassId → Bool
  | .anonymousStructsToNamed => true
  | .notRequiredFieldAsNullableType => true
  | .disjunctionWithNullToOptional => true
  | .disjunctionOfConstantsToEnum => true
  | _ => false

theorem keepsEpt_sound (p : PassId) (h : keepsEpt p = true) : Keeps EptOkAll p := by
  intro S S' hS hr
  cases p <;> simp [keepsEpt] at h
  · exact keeps_eptOk_anonStructs S S' hS hr
  · exact keeps_eptOk_notRequired S S' hS hr
  · exact keeps_eptOk_runDisjPass _ S S' hS hr
  · exact keeps_eptOk_runDisjPass _ S S' hS hr

/-! ### tests that do not look at fields -/

structure Q.Shape (q : Q) : Prop where
  fieldFree : q.FieldFree
  disjConst : q.DisjConst
  enumConst : q.EnumConst
  noStop : q.interStop = false

theorem Q.FieldFree.mono {q : Q} (h : q.FieldFree) : q.Mono := fun _ _ _ => h _ _
theorem Q.FieldFree.nullFree {q : Q} (h : q.FieldFree) : q.NullFree := fun _ _ _ => by rw [h, h]

/-- passes with a preservation lemma for every `Shape` test (DisjunctionOfConstantsToEnum is not among
    them: it creates anonymous enums) -/
def keepsShape : PassId → Bool
  | .notRequiredFieldAsNullableType => true
  | .disjunctionWithNullToOptional => true
  | .prefixEnumValues => true
  | .flattenDisjunctions => true
  | .disjunctionOfAnonymousStructsToExplicit => true
  | .disjunctionInferMapping => true
  | .undiscriminatedDisjunctionToAny => true
  | .disjunctionToType => true
  | .sanitizeEnumMemberNames => true
  | .renameNumericEnumValues => true
  | _ => false

theorem keepsShape_sound (q : Q) (hq : q.Shape) (p : PassId) (h : keepsShape p = true) : Keeps (AllTop q) p := by
  intro S S' hS hr
  cases p <;> simp [keepsShape] at h
  · exact keeps_NotRequiredFieldAsNullableType q hq.fieldFree.mono hq.disjConst S S' hS hr
  · exact keeps_DisjunctionWithNullToOptional q hq.fieldFree.mono S S' hS hr
  · exact keeps_PrefixEnumValues q hq.enumConst S S' hS hr
  · exact keeps_FlattenDisjunctions q hq.disjConst S S' hS hr
  · exact keeps_DisjunctionOfAnonymousStructsToExplicit q hq.disjConst hq.noStop S S' hS hr
  · exact keeps_DisjunctionInferMapping q S S' hS hr
  · exact keeps_UndiscriminatedDisjunctionToAny q hq.fieldFree.nullFree S S' hS hr
  · exact keeps_DisjunctionToType q hq.fieldFree hq.noStop S S' hS hr
  · exact keeps_SanitizeEnumMemberNames q hq.enumConst hq.disjConst S S' hS hr
  · exact keeps_RenameNumericEnumValues q hq.enumConst S S' hS hr

theorem qNoEnum_shape : qNoEnum.Shape := ⟨fun _ _ => rfl, fun _ _ => rfl, fun _ _ => rfl, rfl⟩
theorem qNoUnion_shape : qNoUnion.Shape := ⟨fun _ _ => rfl, fun _ _ => rfl, fun _ _ => rfl, rfl⟩
theorem qIdx_shape : qIdx.Shape := ⟨fun _ _ => rfl, fun _ _ => rfl, fun _ _ => rfl, rfl⟩

end Cog.NF
