/-
  C06: the `OnDisjunction` hooks of the stateless passes are `HookOk` for every local test `q`
  satisfying the stated side condition — which yields `keeps_<Pass>` for every such `q` at once.

    DisjunctionWithNullToOptional   Mono q        (raising Nullable never hurts)
    DisjunctionOfConstantsToEnum    EnumFree q    (q does not constrain enums: the pass creates anonymous ones)
    FlattenDisjunctions             DisjConst q   (q does not look at the branch list of a union: the pass
                                                   drops and merges branches)
    DisjunctionInferMapping         any q
    UndiscriminatedDisjunctionToAny NullFree q    (q does not look at Nullable: the `any` it creates is not nullable)
-/
import Cog.NF.DisjVisit
namespace Cog.NF
open Cog.IR Cog.Passes

def Q.Mono (q : Q) : Prop := ∀ req n, q.fieldOk req n = true → q.fieldOk req true = true
def Q.NullFree (q : Q) : Prop := ∀ req n n', q.fieldOk req n = q.fieldOk req n'
def Q.EnumFree (q : Q) : Prop := q.enumNested = true ∧ ∀ vs, q.enumOk vs = true
def Q.DisjConst (q : Q) : Prop := ∀ bs bs', q.disjOk bs = q.disjOk bs'

theorem Q.NullFree.mono {q : Q} (h : q.NullFree) : q.Mono := fun req n hq => by rw [h req true n]; exact hq

theorem mem_nonNullTypes : ∀ {bs : List Ty} {t : Ty}, t ∈ nonNullTypes bs → t ∈ bs
  | [], _, h => by simp [nonNullTypes] at h
  | b :: bs, t, h => by
    simp only [nonNullTypes] at h
    split at h
    · exact List.mem_cons_of_mem _ (mem_nonNullTypes h)
    · simp at h
      rcases h with h | h
      · simp [h]
      · exact List.mem_cons_of_mem _ (mem_nonNullTypes h)

/-! ### DisjunctionWithNullToOptional -/

theorem nullToOptional_hook_cases (bs : List Ty) (i : DisjInfo) (m : Meta) (r : Ty)
    (h : DisjunctionWithNullToOptional.hook bs i m = .ok r) :
    r = .disj bs i m ∨ ∃ t ∈ bs, r = setNullable true t := by
  simp only [DisjunctionWithNullToOptional.hook] at h
  split at h
  · simp at h; exact Or.inl h.symm
  · split at h
    · simp at h; exact Or.inl h.symm
    · rename_i t rest hnn
      simp at h
      exact Or.inr ⟨t, mem_nonNullTypes (by rw [hnn]; simp), h.symm⟩

theorem hookOk_nullToOptional (q : Q) (hm : q.Mono) : HookOk q DisjunctionWithNullToOptional.hook where
  nested := by
    intro bs i m r hs hr
    rcases nullToOptional_hook_cases bs i m r hr with h | ⟨t, ht, h⟩
    · subst h; exact ⟨hs, FieldCompat.rfl' _ _⟩
    · subst h
      simp only [sat, Bool.and_eq_true] at hs
      refine ⟨by rw [setNullable, sat_setMeta]; exact satList_mem q hs.2 ht, ?_⟩
      intro req hq
      simp only [setNullable, getMeta_setMeta]
      exact hm req _ hq
  top := by
    intro bs i m r hs hr
    rcases nullToOptional_hook_cases bs i m r hr with h | ⟨t, ht, h⟩
    · subst h; exact satTop_of_sat q _ hs
    · subst h
      simp only [sat, Bool.and_eq_true] at hs
      rw [setNullable, satTop_setMeta]
      exact satTop_of_sat q _ (satList_mem q hs.2 ht)

/-! ### DisjunctionOfConstantsToEnum -/

theorem constantsToEnum_hook_cases (cur : Schemas) (bs : List Ty) (i : DisjInfo) (m : Meta) (r : Ty)
    (h : DisjunctionOfConstantsToEnum.hook cur bs i m = .ok r) :
    r = .disj bs i m ∨ ∃ vs, r = .enum vs { nullable := m.nullable, dflt := m.dflt, hints := [] } := by
  simp only [DisjunctionOfConstantsToEnum.hook] at h
  split at h
  · simp at h; exact Or.inl h.symm
  · split at h
    · simp at h; exact Or.inr ⟨_, h.symm⟩
    · simp at h; exact Or.inl h.symm
    · cases h
    · cases h

theorem hookOk_constantsToEnum (q : Q) (he : q.EnumFree) (cur : Schemas) :
    HookOk q (DisjunctionOfConstantsToEnum.hook cur) where
  nested := by
    intro bs i m r hs hr
    rcases constantsToEnum_hook_cases cur bs i m r hr with h | ⟨vs, h⟩
    · subst h; exact ⟨hs, FieldCompat.rfl' _ _⟩
    · subst h
      exact ⟨by simp [sat, he.1, he.2], FieldCompat.of_meta_eq q rfl⟩
  top := by
    intro bs i m r hs hr
    rcases constantsToEnum_hook_cases cur bs i m r hr with h | ⟨vs, h⟩
    · subst h; exact satTop_of_sat q _ hs
    · subst h; simp [satTop, he.2]

/-! ### FlattenDisjunctions -/

/-- every branch kept by `flatten` is an original branch or a branch of the union that is the type
    of an object of the schema -/
def FromSchema (s : Schema) (bs : List Ty) (t : Ty) : Prop :=
  t ∈ bs ∨ ∃ ko ∈ s.objects, ∃ rbs i m, ko.2.ty = .disj rbs i m ∧ t ∈ rbs

theorem addBranch_mem {name : String} {t : Ty} {acc : List String × List Ty} {x : Ty}
    (h : x ∈ (FlattenDisjunctions.addBranch name t acc).2) : x ∈ acc.2 ∨ x = t := by
  simp only [FlattenDisjunctions.addBranch] at h
  split at h
  · exact Or.inl h
  · simp at h; rcases h with h | h
    · exact Or.inl h
    · exact Or.inr h

theorem addInner_mem : ∀ {rbs : List Ty} {acc : List String × List Ty} {x : Ty},
    x ∈ (FlattenDisjunctions.addInner rbs acc).2 → x ∈ acc.2 ∨ x ∈ rbs
  | [], acc, x, h => by simp [FlattenDisjunctions.addInner] at h; exact Or.inl h
  | rb :: rbs, acc, x, h => by
    simp only [FlattenDisjunctions.addInner] at h
    rcases addInner_mem h with h | h
    · rcases addBranch_mem h with h | h
      · exact Or.inl h
      · exact Or.inr (by simp [h])
    · exact Or.inr (List.mem_cons_of_mem _ h)

theorem flatten_mem (s : Schema) (fuel : Nat) : ∀ (bs : List Ty) (n : Nat) (acc : List String × List Ty) (out : List Ty),
    FlattenDisjunctions.flatten s fuel bs n acc = .ok out →
    ∀ x ∈ out, x ∈ acc.2 ∨ FromSchema s bs x
  | [], n, acc, out, h, x, hx => by
    simp [FlattenDisjunctions.flatten] at h; subst h; exact Or.inl hx
  | b :: bs, n, acc, out, h, x, hx => by
    have lift : ∀ {x}, FromSchema s bs x → FromSchema s (b :: bs) x := by
      intro x hx
      rcases hx with hx | hx
      · exact Or.inl (List.mem_cons_of_mem _ hx)
      · exact Or.inr hx
    simp only [FlattenDisjunctions.flatten] at h
    split at h
    · rcases flatten_mem s fuel bs _ _ out h x hx with h1 | h1
      · rcases addBranch_mem h1 with h2 | h2
        · exact Or.inl h2
        · exact Or.inr (Or.inl (by simp [h2]))
      · exact Or.inr (lift h1)
    · split at h
      · cases h
      · cases h
      · rcases flatten_mem s fuel bs _ _ out h x hx with h1 | h1
        · exact Or.inl h1
        · exact Or.inr (lift h1)
      · rename_i rbs ri rm hres
        rcases flatten_mem s fuel bs _ _ out h x hx with h1 | h1
        · rcases addInner_mem h1 with h2 | h2
          · exact Or.inl h2
          · rcases Schema.resolve_spec hres with h3 | ⟨ko, hko, h3⟩
            · -- the reference resolved to itself: impossible, it is a reference
              rename_i hb _
              subst h3
              simp [Ty.isRef] at hb
            · exact Or.inr (Or.inr ⟨ko, hko, rbs, ri, rm, h3.symm, h2⟩)
        · exact Or.inr (lift h1)
      · rcases flatten_mem s fuel bs _ _ out h x hx with h1 | h1
        · rcases addBranch_mem h1 with h2 | h2
          · exact Or.inl h2
          · exact Or.inr (Or.inl (by simp [h2]))
        · exact Or.inr (lift h1)

theorem flatten_hook_cases (cur : Schemas) (s : Schema) (bs : List Ty) (i : DisjInfo) (m : Meta) (r : Ty)
    (h : FlattenDisjunctions.hook cur s bs i m = .ok r) :
    ∃ bs', r = .disj bs' i m ∧ ∀ x ∈ bs', FromSchema s bs x := by
  simp only [FlattenDisjunctions.hook] at h
  split at h
  · rename_i bs' hf
    simp at h
    refine ⟨bs', h.symm, ?_⟩
    intro x hx
    rcases flatten_mem s _ bs 0 ([], []) bs' hf x hx with h1 | h1
    · simp at h1
    · exact h1
  · cases h
  · cases h

theorem sat_fromSchema (q : Q) (s : Schema) (hs : SchemaTop q s) (bs : List Ty) (hbs : satList q bs = true)
    (x : Ty) (hx : FromSchema s bs x) : sat q x = true := by
  rcases hx with hx | ⟨ko, hko, rbs, i, m, hty, hx⟩
  · exact satList_mem q hbs hx
  · have := hs.2 ko hko
    rw [hty] at this
    simp only [satTop, sat, Bool.and_eq_true] at this
    exact satList_mem q this.2 hx

theorem hookOk_flatten (q : Q) (hd : q.DisjConst) (cur : Schemas) (s : Schema) (hs : SchemaTop q s) :
    HookOk q (FlattenDisjunctions.hook cur s) where
  nested := by
    intro bs i m r hsat hr
    obtain ⟨bs', rfl, hall⟩ := flatten_hook_cases cur s bs i m r hr
    simp only [sat, Bool.and_eq_true] at hsat
    refine ⟨?_, FieldCompat.of_meta_eq q rfl⟩
    simp only [sat, Bool.and_eq_true]
    exact ⟨by rw [hd bs' bs]; exact hsat.1,
      satList_of_forall q (fun x hx => sat_fromSchema q s hs bs hsat.2 x (hall x hx))⟩
  top := by
    intro bs i m r hsat hr
    obtain ⟨bs', rfl, hall⟩ := flatten_hook_cases cur s bs i m r hr
    simp only [sat, Bool.and_eq_true] at hsat
    simp only [satTop, sat, Bool.and_eq_true]
    exact ⟨by rw [hd bs' bs]; exact hsat.1,
      satList_of_forall q (fun x hx => sat_fromSchema q s hs bs hsat.2 x (hall x hx))⟩

/-! ### DisjunctionInferMapping: only the discriminator / mapping of the node change -/

theorem inferMapping_hook_cases (pick : List String → String) (cur : Schemas) (s : Schema)
    (bs : List Ty) (i : DisjInfo) (m : Meta) (r : Ty)
    (h : DisjunctionInferMapping.hookWith pick cur s bs i m = .ok r) : ∃ i', r = .disj bs i' m := by
  simp only [DisjunctionInferMapping.hookWith] at h
  split at h
  · simp at h; exact ⟨_, h.symm⟩
  · split at h
    · simp at h; exact ⟨_, h.symm⟩
    · split at h
      · cases h
      · cases h
      · split at h
        · simp at h; exact ⟨_, h.symm⟩
        · split at h
          · simp at h; exact ⟨_, h.symm⟩
          · split at h
            · cases h
            · cases h
            · simp at h; exact ⟨_, h.symm⟩
            · simp at h; exact ⟨_, h.symm⟩

theorem hookOk_inferMapping (q : Q) (pick : List String → String) (cur : Schemas) (s : Schema) :
    HookOk q (DisjunctionInferMapping.hookWith pick cur s) where
  nested := by
    intro bs i m r hs hr
    obtain ⟨i', rfl⟩ := inferMapping_hook_cases pick cur s bs i m r hr
    exact ⟨by simpa [sat] using hs, FieldCompat.of_meta_eq q rfl⟩
  top := by
    intro bs i m r hs hr
    obtain ⟨i', rfl⟩ := inferMapping_hook_cases pick cur s bs i m r hr
    simpa [satTop, sat] using hs

/-! ### UndiscriminatedDisjunctionToAny -/

theorem toAny_hook_cases (cur : Schemas) (s : Schema) (bs : List Ty) (i : DisjInfo) (m : Meta) (r : Ty)
    (h : UndiscriminatedDisjunctionToAny.hook cur s bs i m = .ok r) :
    r = .disj bs i m ∨ r = .scalar "any" .nil [] {} := by
  simp only [UndiscriminatedDisjunctionToAny.hook] at h
  split at h
  · cases h
  · cases h
  · simp at h; exact Or.inl h.symm
  · split at h
    · simp at h; exact Or.inl h.symm
    · split at h
      · simp at h; exact Or.inr h.symm
      · simp at h; exact Or.inl h.symm

theorem hookOk_toAny (q : Q) (hn : q.NullFree) (cur : Schemas) (s : Schema) :
    HookOk q (UndiscriminatedDisjunctionToAny.hook cur s) where
  nested := by
    intro bs i m r hs hr
    rcases toAny_hook_cases cur s bs i m r hr with h | h
    · subst h; exact ⟨hs, FieldCompat.rfl' _ _⟩
    · subst h
      exact ⟨by simp [sat], fun req hq => by rw [hn req _ m.nullable]; exact hq⟩
  top := by
    intro bs i m r hs hr
    rcases toAny_hook_cases cur s bs i m r hr with h | h
    · subst h; exact satTop_of_sat q _ hs
    · subst h; simp [satTop, sat]

/-! ### pass level -/

theorem keeps_DisjunctionWithNullToOptional (q : Q) (hm : q.Mono) (S S' : Schemas) (hS : AllTop q S)
    (h : DisjunctionWithNullToOptional.run S = .ok S') : AllTop q S' :=
  runDisjPass_keeps q _ (fun _ _ _ _ => hookOk_nullToOptional q hm) S S' hS h

theorem keeps_DisjunctionOfConstantsToEnum (q : Q) (he : q.EnumFree) (S S' : Schemas) (hS : AllTop q S)
    (h : DisjunctionOfConstantsToEnum.run S = .ok S') : AllTop q S' :=
  runDisjPass_keeps q _ (fun cur _ _ _ => hookOk_constantsToEnum q he cur) S S' hS h

theorem keeps_FlattenDisjunctions (q : Q) (hd : q.DisjConst) (S S' : Schemas) (hS : AllTop q S)
    (h : FlattenDisjunctions.run S = .ok S') : AllTop q S' :=
  runDisjPass_keeps q _ (fun cur s hmem hcur => hookOk_flatten q hd cur s (hcur s hmem)) S S' hS h

theorem keeps_DisjunctionInferMapping (q : Q) (S S' : Schemas) (hS : AllTop q S)
    (h : DisjunctionInferMapping.run S = .ok S') : AllTop q S' :=
  runDisjPass_keeps q _ (fun cur s _ _ => hookOk_inferMapping q _ cur s) S S' hS h

theorem keeps_UndiscriminatedDisjunctionToAny (q : Q) (hn : q.NullFree) (S S' : Schemas) (hS : AllTop q S)
    (h : UndiscriminatedDisjunctionToAny.run S = .ok S') : AllTop q S' :=
  runDisjPass_keeps q _ (fun cur s _ _ => hookOk_toAny q hn cur s) S S' hS h

end Cog.NF
