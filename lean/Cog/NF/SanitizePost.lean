/-
  C06, PHP: `post_SanitizeEnumMemberNames`: on an input whose enums are all named objects (what
  AnonymousEnumToExplicitType, which precedes it in the PHP chain, establishes), every enum member
  name is non-empty and does not start with a sign afterwards.
-/
import Cog.NF.Posts
import Cog.NF.EnumNames
namespace Cog.NF
open Cog.IR Cog.Passes Cog.Passes.SanitizeEnumMemberNames

theorem sanitised_of_head {n : String} {c : Char} {r : List Char} (h : n.toList = c :: r) (h1 : (c != '-') = true)
    (h2 : (c != '+') = true) : sanitised n = true := by
  simp [sanitised, h, h1, h2]

theorem head0_toList {s : String} {c : Char} (h : head0 s = some c) : ∃ r, s.toList = c :: r := by
  simp only [head0] at h
  cases hl : s.toList with
  | nil => rw [hl] at h; simp at h
  | cons x xs => rw [hl] at h; simp at h; exact ⟨xs, by rw [h]⟩

/-- a member name is not the empty string -/
def nonEmptyName (n : String) : Bool := !n.toList.isEmpty

/-- decidable hypothesis of `post_SanitizeEnumMemberNames`: no enum member has an empty name
    (since /repo fix aceba4d the pass returns such a member unchanged instead of panicking) -/
def NonEmptyEnumNames := schemasAll (fun o => enumNamesTy nonEmptyName o.ty) (enumNamesTy nonEmptyName)

theorem head0_cons {s : String} {c : Char} {r : List Char} (h : s.toList = c :: r) : head0 s = some c := by
  simp [head0, h]

theorem negStep (n : String) (hn : n.toList ≠ []) :
    ∃ c r, (if head0 n == some '-' then ucc ("negative" ++ tail1 n) else n).toList = c :: r ∧ c ≠ '-' := by
  by_cases h : (head0 n == some '-') = true
  · rw [if_pos h]
    obtain ⟨r, hr⟩ := ucc_negative_toList (tail1 n)
    exact ⟨'N', r, hr, by decide⟩
  · rw [if_neg h]
    cases hl : n.toList with
    | nil => exact absurd hl hn
    | cons c r =>
      refine ⟨c, r, rfl, ?_⟩
      intro hc
      subst hc
      exact h (by simp [head0_cons hl])

theorem posStep (n : String) (c : Char) (r : List Char) (hl : n.toList = c :: r) (hc : c ≠ '-') :
    sanitised (if head0 n == some '+' then ucc ("positive" ++ tail1 n) else n) = true := by
  by_cases h : (head0 n == some '+') = true
  · rw [if_pos h]
    obtain ⟨r', hr'⟩ := ucc_positive_toList (tail1 n)
    exact sanitised_of_head hr' (by decide) (by decide)
  · rw [if_neg h]
    refine sanitised_of_head hl (by simpa using hc) ?_
    have : c ≠ '+' := by
      intro hp; subst hp
      exact h (by simp [head0_cons hl])
    simpa using this

/-- the weaker rule that holds for EVERY input since fix aceba4d: the name does not start with a sign -/
def signFree (n : String) : Bool :=
  match n.toList with
  | [] => true
  | c :: _ => c != '-' && c != '+'

theorem signFree_of_sanitised {n : String} (h : sanitised n = true) : signFree n = true := by
  unfold sanitised at h; unfold signFree
  cases hl : n.toList with
  | nil => rfl
  | cons c r => rw [hl] at h; exact h

theorem sanStep_signFree (n0 : String) :
    signFree (if head0 (if head0 n0 == some '-' then ucc ("negative" ++ tail1 n0) else n0) == some '+'
      then ucc ("positive" ++ tail1 (if head0 n0 == some '-' then ucc ("negative" ++ tail1 n0) else n0))
      else (if head0 n0 == some '-' then ucc ("negative" ++ tail1 n0) else n0)) = true := by
  cases hl : n0.toList with
  | nil =>
    have h0 : head0 n0 = none := by simp [head0, hl]
    simp [h0, signFree, hl]
  | cons c r =>
    obtain ⟨c1, r1, hl1, hc1⟩ := negStep n0 (by rw [hl]; simp)
    exact signFree_of_sanitised (posStep _ c1 r1 hl1 hc1)

theorem sanitizeMember_signFree (v v' : EnumVal) (h : sanitizeMember v = .ok v') : signFree v'.name = true := by
  simp only [sanitizeMember] at h
  split at h
  · cases h
  · cases h
    exact sanStep_signFree _

theorem sanitizeMembers_signFree : ∀ (vs vs' : List EnumVal), sanitizeMembers vs = .ok vs' →
    allMembers signFree vs' = true
  | [], vs', h => by simp [sanitizeMembers] at h; subst h; simp [allMembers]
  | v :: vs, vs', h => by
    simp only [sanitizeMembers] at h
    cases hv : sanitizeMember v with
    | ok v' =>
      rw [hv] at h; simp only at h
      cases hr : sanitizeMembers vs with
      | ok rest =>
        rw [hr] at h; simp at h; subst h
        simp [allMembers, sanitizeMember_signFree v v' hv, sanitizeMembers_signFree vs rest hr]
      | err e => rw [hr] at h; cases h
      | panic e => rw [hr] at h; cases h
    | err e => rw [hv] at h; cases h
    | panic e => rw [hv] at h; cases h

theorem sanitizeMember_sanitised (v v' : EnumVal) (hne : nonEmptyName v.name = true)
    (h : sanitizeMember v = .ok v') : sanitised v'.name = true := by
  simp only [sanitizeMember] at h
  split at h
  · cases h
  · cases h
    have hv : v.name.toList ≠ [] := by simpa [nonEmptyName] using hne
    -- the name after the `None` rule is not empty
    have hn0ne : ∀ (b : Bool), (if b = true then "None" else v.name).toList ≠ [] := by
      intro b
      cases b
      · simpa using hv
      · simp
    obtain ⟨c, r, hl, hc⟩ := negStep _ (hn0ne (v.kind == "string" && v.name == "" &&
      (match v.value with | .str s => s == "" | _ => false)))
    exact posStep _ c r hl hc

theorem sanitizeMembers_sanitised : ∀ (vs vs' : List EnumVal), allMembers nonEmptyName vs = true →
    sanitizeMembers vs = .ok vs' → allMembers sanitised vs' = true
  | [], vs', _, h => by simp [sanitizeMembers] at h; subst h; simp [allMembers]
  | v :: vs, vs', hne, h => by
    simp only [allMembers, Bool.and_eq_true] at hne
    simp only [sanitizeMembers] at h
    cases hv : sanitizeMember v with
    | ok v' =>
      rw [hv] at h; simp only at h
      cases hr : sanitizeMembers vs with
      | ok rest =>
        rw [hr] at h; simp at h; subst h
        simp [allMembers, sanitizeMember_sanitised v v' hne.1 hv, sanitizeMembers_sanitised vs rest hne.2 hr]
      | err e => rw [hr] at h; cases h
      | panic e => rw [hr] at h; cases h
    | err e => rw [hv] at h; cases h
    | panic e => rw [hv] at h; cases h

theorem qNoEnum_enumConst : qNoEnum.EnumConst := fun _ _ => rfl
theorem qNoEnum_disjConst : qNoEnum.DisjConst := fun _ _ => rfl

mutual
theorem sat_qNames (p : String → Bool) : ∀ t : Ty, sat (qNames p) t = enumNamesTy p t
  | .scalar .. | .ref .. | .cref .. | .slot .. | .bad .. => by simp [sat, enumNamesTy]
  | .enum .. => by simp [sat, enumNamesTy, qNames]
  | .array e _ => by simp [sat, enumNamesTy, sat_qNames p e]
  | .map i v _ => by simp [sat, enumNamesTy, sat_qNames p i, sat_qNames p v]; simp [qNames]
  | .struct fs _ _ _ => by simp [sat, enumNamesTy, satFields_qNames p fs]; simp [qNames]
  | .disj bs _ _ => by simp [sat, enumNamesTy, satList_qNames p bs]; simp [qNames]
  | .inter bs _ => by simp [sat, enumNamesTy, satList_qNames p bs]; simp [qNames]
theorem satList_qNames (p : String → Bool) : ∀ ts : List Ty, satList (qNames p) ts = enumNamesList p ts
  | [] => by simp [satList, enumNamesList]
  | t :: ts => by simp [satList, enumNamesList, sat_qNames p t, satList_qNames p ts]
theorem satFields_qNames (p : String → Bool) : ∀ fs : List Field, satFields (qNames p) fs = enumNamesFields p fs
  | [] => by simp [satFields, enumNamesFields]
  | f :: fs => by simp [satFields, enumNamesFields, sat_qNames p f.ty, satFields_qNames p fs]; simp [qNames]
end

theorem satTop_qNames (p : String → Bool) (t : Ty) : satTop (qNames p) t = enumNamesTy p t := by
  cases t <;> simp [satTop, sat_qNames, satFields_qNames, enumNamesTy] <;> simp [qNames]

/-- an object type whose only enum is itself satisfies a name rule as soon as its own members do -/
theorem enumNames_of_top (p : String → Bool) (r : Ty) (h : enumsNamedTop r = true)
    (hm : ∀ vs m, r = .enum vs m → allMembers p vs = true) : enumNamesTy p r = true := by
  cases r with
  | enum vs m => simpa [enumNamesTy] using hm vs m rfl
  | scalar k v c m => exact enumNames_of_noEnum p _ (by simpa [enumsNamedTop] using h)
  | ref pk n m => exact enumNames_of_noEnum p _ (by simpa [enumsNamedTop] using h)
  | cref pk n v m => exact enumNames_of_noEnum p _ (by simpa [enumsNamedTop] using h)
  | array e m => exact enumNames_of_noEnum p _ (by simpa [enumsNamedTop] using h)
  | map i v m => exact enumNames_of_noEnum p _ (by simpa [enumsNamedTop] using h)
  | struct fs g gi m => exact enumNames_of_noEnum p _ (by simpa [enumsNamedTop] using h)
  | disj bs i m => exact enumNames_of_noEnum p _ (by simpa [enumsNamedTop] using h)
  | inter bs m => exact enumNames_of_noEnum p _ (by simpa [enumsNamedTop] using h)
  | slot v m => exact enumNames_of_noEnum p _ (by simpa [enumsNamedTop] using h)
  | bad k m => exact enumNames_of_noEnum p _ (by simpa [enumsNamedTop] using h)

theorem sanitize_enum_inv (t : Ty) (vs' : List EnumVal) (m : Meta) (h : vTy t = .ok (.enum vs' m)) :
    ∃ vs, t = .enum vs m ∧ sanitizeMembers vs = .ok vs' := by
  cases t with
  | enum vs m0 =>
    simp only [vTy] at h
    cases hv : sanitizeMembers vs with
    | ok r => rw [hv] at h; simp at h; obtain ⟨rfl, rfl⟩ := h; exact ⟨vs, rfl, hv⟩
    | err x => rw [hv] at h; cases h
    | panic x => rw [hv] at h; cases h
  | scalar k v c m0 => simp [vTy] at h
  | ref p n m0 => simp [vTy] at h
  | cref p n v m0 => simp [vTy] at h
  | slot v m0 => simp [vTy] at h
  | bad k m0 => simp [vTy] at h
  | array e m0 => simp only [vTy] at h; cases he : vTy e <;> rw [he] at h <;> simp at h
  | map i v m0 => simp only [vTy] at h; cases he : vTy v <;> rw [he] at h <;> simp at h
  | struct fs g gi m0 => simp only [vTy] at h; cases he : vFields fs <;> rw [he] at h <;> simp at h
  | disj bs i m0 => simp only [vTy] at h; cases he : vList bs <;> rw [he] at h <;> simp at h
  | inter bs m0 => simp only [vTy] at h; cases he : vList bs <;> rw [he] at h <;> simp at h

/-- `post_SanitizeEnumMemberNames` -/
theorem post_SanitizeEnumMemberNames (S S' : Schemas) (hn : EnumsNamed S = true) (hne : NonEmptyEnumNames S = true)
    (h : SanitizeEnumMemberNames.run S = .ok S') : EnumNames_php S' = true := by
  rw [NonEmptyEnumNames, schemasAll_iff] at hne
  have hS := (EnumsNamed_iff S).1 hn
  have hkeep := keeps_SanitizeEnumMemberNames qNoEnum qNoEnum_enumConst qNoEnum_disjConst S S' hS h
  rw [EnumNames_php, schemasAll_iff]
  intro s' hs'
  refine ⟨?_, ?_⟩
  · have : sat qNoEnum s'.entryPointType = true := (hkeep s' hs').1
    rw [sat_qNoEnum] at this
    exact enumNames_of_noEnum sanitised _ this
  · intro x hx
    have hx0 : enumsNamedTop x.2.ty = true := by
      have : satTop qNoEnum x.2.ty = true := (hkeep s' hs').2 x hx
      rwa [satTop_qNoEnum] at this
    refine enumNames_of_top sanitised _ hx0 ?_
    intro vs' m hty
    -- where does x come from?
    obtain ⟨cur, s, hs, hf, _⟩ := visitSchemas_spec h s' hs'
    obtain ⟨_, _, hobjs⟩ := visitSchemaPure_spec hf
    obtain ⟨ko, hko, t, ht, hxe⟩ := hobjs x hx
    rw [hxe] at hty
    simp only at hty
    subst hty
    obtain ⟨vs, hvs, hv⟩ := sanitize_enum_inv ko.2.ty vs' m ht
    have hin : enumNamesTy nonEmptyName ko.2.ty = true := (hne s hs).2 ko hko
    rw [hvs] at hin
    exact sanitizeMembers_sanitised vs vs' (by simpa [enumNamesTy] using hin) hv

/-- `EnumNames` with the sign rule only -/
def EnumNames_signFree := schemasAll (fun o => enumNamesTy signFree o.ty) (enumNamesTy signFree)

/-- what SanitizeEnumMemberNames establishes for EVERY input whose enums are named objects -/
theorem post_SanitizeEnumMemberNames_signFree (S S' : Schemas) (hn : EnumsNamed S = true)
    (h : SanitizeEnumMemberNames.run S = .ok S') : EnumNames_signFree S' = true := by
  have hS := (EnumsNamed_iff S).1 hn
  have hkeep := keeps_SanitizeEnumMemberNames qNoEnum qNoEnum_enumConst qNoEnum_disjConst S S' hS h
  rw [EnumNames_signFree, schemasAll_iff]
  intro s' hs'
  refine ⟨?_, ?_⟩
  · have : sat qNoEnum s'.entryPointType = true := (hkeep s' hs').1
    rw [sat_qNoEnum] at this
    exact enumNames_of_noEnum signFree _ this
  · intro x hx
    have hx0 : enumsNamedTop x.2.ty = true := by
      have : satTop qNoEnum x.2.ty = true := (hkeep s' hs').2 x hx
      rwa [satTop_qNoEnum] at this
    refine enumNames_of_top signFree _ hx0 ?_
    intro vs' m hty
    obtain ⟨cur, s, _, hf, _⟩ := visitSchemas_spec h s' hs'
    obtain ⟨_, _, hobjs⟩ := visitSchemaPure_spec hf
    obtain ⟨ko, _, t, ht, hxe⟩ := hobjs x hx
    rw [hxe] at hty
    simp only at hty
    subst hty
    obtain ⟨vs, _, hv⟩ := sanitize_enum_inv ko.2.ty vs' m ht
    exact sanitizeMembers_signFree vs vs' hv

end Cog.NF
