/-
  C06, PHP: `post_SanitizeEnumMemberNames`: on an input whose enums are all named objects (what
  AnonymousEnumToExplicitType, which precedes it in the PHP chain, establishes), every enum member
  name is non-empty and does not start with a sign afterwards.
-/
import Cog.NF.Posts
import Cog.NF.EnumNames
namespace Cog.NF
open Cog.IR Cog.Passes Cog.Passes.SanitizeEnumMemberNames

theorem sanitised_of_head {n : String} {c : Char} {r : List Char} (h : n.toList = c :: r) (h1 : (c != '-') = true)
    (h2 : (c != '+') = true) : sanitised n = true := by
  simp [sanitised, h, h1, h2]

theorem head0_toList {s : String} {c : Char} (h : head0 s = some c) : ∃ r, s.toList = c :: r := by
  simp only [head0] at h
  cases hl : s.toList with
  | nil => rw [hl] at h; simp at h
  | cons x xs => rw [hl] at h; simp at h; exact ⟨xs, by rw [h]⟩

theorem sanitizeMember_sanitised (v v' : EnumVal) (h : sanitizeMember v = .ok v') : sanitised v'.name = true := by
  simp only [sanitizeMember] at h
  split at h
  · cases h
  · -- the name after the `None` rule
    generalize hn0 : (if (v.kind == "string" && v.name == "") = true then
        match v.value with
        | Val.str s => Outcome.ok (if (s == "") = true then "None" else v.name)
        | _ => Outcome.panic "SanitizeEnumMemberNames: member.Value.(string)"
      else Outcome.ok v.name) = n0o at h
    cases n0o with
    | panic p => simp at h
    | err e => simp at h
    | ok n0 =>
      simp only at h
      cases hc0 : head0 n0 with
      | none => rw [hc0] at h; simp at h
      | some c0 =>
        rw [hc0] at h
        simp only at h
        generalize hn1 : (if (c0 == '-') = true then ucc ("negative" ++ tail1 n0) else n0) = n1 at h
        cases hc1 : head0 n1 with
        | none => rw [hc1] at h; simp at h
        | some c1 =>
          rw [hc1] at h
          simp at h
          subst h
          simp only
          by_cases hp : c1 = '+'
          · rw [if_pos hp]
            obtain ⟨r, hr⟩ := ucc_positive_toList (tail1 n1)
            exact sanitised_of_head hr (by decide) (by decide)
          · rw [if_neg hp]
            obtain ⟨r1, hr1⟩ := head0_toList hc1
            refine sanitised_of_head hr1 ?_ (by simpa using hp)
            -- c1 is not '-': either n1 = n0 with c0 ≠ '-', or n1 starts with 'N'
            by_cases hm : (c0 == '-') = true
            · rw [if_pos hm] at hn1
              obtain ⟨r, hr⟩ := ucc_negative_toList (tail1 n0)
              rw [hn1] at hr
              rw [hr] at hr1
              simp at hr1
              rw [← hr1.1]; decide
            · rw [if_neg hm] at hn1
              subst hn1
              obtain ⟨r0, hr0⟩ := head0_toList hc0
              rw [hr0] at hr1
              simp at hr1
              rw [← hr1.1]
              simpa using hm

theorem sanitizeMembers_sanitised : ∀ (vs vs' : List EnumVal), sanitizeMembers vs = .ok vs' →
    allMembers sanitised vs' = true
  | [], vs', h => by simp [sanitizeMembers] at h; subst h; simp [allMembers]
  | v :: vs, vs', h => by
    simp only [sanitizeMembers] at h
    cases hv : sanitizeMember v with
    | ok v' =>
      rw [hv] at h; simp only at h
      cases hr : sanitizeMembers vs with
      | ok rest =>
        rw [hr] at h; simp at h; subst h
        simp [allMembers, sanitizeMember_sanitised v v' hv, sanitizeMembers_sanitised vs rest hr]
      | err e => rw [hr] at h; cases h
      | panic e => rw [hr] at h; cases h
    | err e => rw [hv] at h; cases h
    | panic e => rw [hv] at h; cases h

theorem qNoEnum_enumConst : qNoEnum.EnumConst := fun _ _ => rfl
theorem qNoEnum_disjConst : qNoEnum.DisjConst := fun _ _ => rfl

mutual
theorem sat_qNames (p : String → Bool) : ∀ t : Ty, sat (qNames p) t = enumNamesTy p t
  | .scalar .. | .ref .. | .cref .. | .slot .. | .bad .. => by simp [sat, enumNamesTy]
  | .enum .. => by simp [sat, enumNamesTy, qNames]
  | .array e _ => by simp [sat, enumNamesTy, sat_qNames p e]
  | .map i v _ => by simp [sat, enumNamesTy, sat_qNames p i, sat_qNames p v]; simp [qNames]
  | .struct fs _ _ _ => by simp [sat, enumNamesTy, satFields_qNames p fs]; simp [qNames]
  | .disj bs _ _ => by simp [sat, enumNamesTy, satList_qNames p bs]; simp [qNames]
  | .inter bs _ => by simp [sat, enumNamesTy, satList_qNames p bs]; simp [qNames]
theorem satList_qNames (p : String → Bool) : ∀ ts : List Ty, satList (qNames p) ts = enumNamesList p ts
  | [] => by simp [satList, enumNamesList]
  | t :: ts => by simp [satList, enumNamesList, sat_qNames p t, satList_qNames p ts]
theorem satFields_qNames (p : String → Bool) : ∀ fs : List Field, satFields (qNames p) fs = enumNamesFields p fs
  | [] => by simp [satFields, enumNamesFields]
  | f :: fs => by simp [satFields, enumNamesFields, sat_qNames p f.ty, satFields_qNames p fs]; simp [qNames]
end

theorem satTop_qNames (p : String → Bool) (t : Ty) : satTop (qNames p) t = enumNamesTy p t := by
  cases t <;> simp [satTop, sat_qNames, satFields_qNames, enumNamesTy] <;> simp [qNames]

/-- an object type whose only enum is itself satisfies a name rule as soon as its own members do -/
theorem enumNames_of_top (p : String → Bool) (r : Ty) (h : enumsNamedTop r = true)
    (hm : ∀ vs m, r = .enum vs m → allMembers p vs = true) : enumNamesTy p r = true := by
  cases r with
  | enum vs m => simpa [enumNamesTy] using hm vs m rfl
  | scalar k v c m => exact enumNames_of_noEnum p _ (by simpa [enumsNamedTop] using h)
  | ref pk n m => exact enumNames_of_noEnum p _ (by simpa [enumsNamedTop] using h)
  | cref pk n v m => exact enumNames_of_noEnum p _ (by simpa [enumsNamedTop] using h)
  | array e m => exact enumNames_of_noEnum p _ (by simpa [enumsNamedTop] using h)
  | map i v m => exact enumNames_of_noEnum p _ (by simpa [enumsNamedTop] using h)
  | struct fs g gi m => exact enumNames_of_noEnum p _ (by simpa [enumsNamedTop] using h)
  | disj bs i m => exact enumNames_of_noEnum p _ (by simpa [enumsNamedTop] using h)
  | inter bs m => exact enumNames_of_noEnum p _ (by simpa [enumsNamedTop] using h)
  | slot v m => exact enumNames_of_noEnum p _ (by simpa [enumsNamedTop] using h)
  | bad k m => exact enumNames_of_noEnum p _ (by simpa [enumsNamedTop] using h)

theorem sanitize_enum_inv (t : Ty) (vs' : List EnumVal) (m : Meta) (h : vTy t = .ok (.enum vs' m)) :
    ∃ vs, t = .enum vs m ∧ sanitizeMembers vs = .ok vs' := by
  cases t with
  | enum vs m0 =>
    simp only [vTy] at h
    cases hv : sanitizeMembers vs with
    | ok r => rw [hv] at h; simp at h; obtain ⟨rfl, rfl⟩ := h; exact ⟨vs, rfl, hv⟩
    | err x => rw [hv] at h; cases h
    | panic x => rw [hv] at h; cases h
  | scalar k v c m0 => simp [vTy] at h
  | ref p n m0 => simp [vTy] at h
  | cref p n v m0 => simp [vTy] at h
  | slot v m0 => simp [vTy] at h
  | bad k m0 => simp [vTy] at h
  | array e m0 => simp only [vTy] at h; cases he : vTy e <;> rw [he] at h <;> simp at h
  | map i v m0 => simp only [vTy] at h; cases he : vTy v <;> rw [he] at h <;> simp at h
  | struct fs g gi m0 => simp only [vTy] at h; cases he : vFields fs <;> rw [he] at h <;> simp at h
  | disj bs i m0 => simp only [vTy] at h; cases he : vList bs <;> rw [he] at h <;> simp at h
  | inter bs m0 => simp only [vTy] at h; cases he : vList bs <;> rw [he] at h <;> simp at h

/-- `post_SanitizeEnumMemberNames` -/
theorem post_SanitizeEnumMemberNames (S S' : Schemas) (hn : EnumsNamed S = true)
    (h : SanitizeEnumMemberNames.run S = .ok S') : EnumNames_php S' = true := by
  have hS := (EnumsNamed_iff S).1 hn
  have hkeep := keeps_SanitizeEnumMemberNames qNoEnum qNoEnum_enumConst qNoEnum_disjConst S S' hS h
  rw [EnumNames_php, schemasAll_iff]
  intro s' hs'
  refine ⟨?_, ?_⟩
  · have : sat qNoEnum s'.entryPointType = true := (hkeep s' hs').1
    rw [sat_qNoEnum] at this
    exact enumNames_of_noEnum sanitised _ this
  · intro x hx
    have hx0 : enumsNamedTop x.2.ty = true := by
      have : satTop qNoEnum x.2.ty = true := (hkeep s' hs').2 x hx
      rwa [satTop_qNoEnum] at this
    refine enumNames_of_top sanitised _ hx0 ?_
    intro vs' m hty
    -- where does x come from?
    obtain ⟨cur, s, _, hf, _⟩ := visitSchemas_spec h s' hs'
    obtain ⟨_, _, hobjs⟩ := visitSchemaPure_spec hf
    obtain ⟨ko, _, t, ht, hxe⟩ := hobjs x hx
    rw [hxe] at hty
    simp only at hty
    subst hty
    obtain ⟨vs, _, hv⟩ := sanitize_enum_inv ko.2.ty vs' m ht
    exact sanitizeMembers_sanitised vs vs' hv

end Cog.NF
