/-
  C06 proof infrastructure: one parametrised "every node satisfies a local test" predicate `sat q`,
  of which the normal-form predicates of Preds.lean are instances (equivalences proved below), so
  that a pass needs ONE preservation lemma, generic in the test `q`, instead of one per predicate.

  `q` tests, at a node below the top level:
    struct  : allowed at all (`structOk`) and every field passes `fieldOk required nullable`
    enum    : allowed at all (`enumNested`) and the members pass `enumOk`
    union   : the branch list passes `disjOk`
    map     : the index type passes `idxOk`
    allOf   : `interStop` = nothing is required below an intersection
  `satTop` judges the type of an object: a struct / enum is always allowed there.
-/
import Cog.NF.Frame
namespace Cog.NF
open Cog.IR Cog.Passes

structure Q where
  fieldOk : Bool → Bool → Bool := fun _ _ => true
  structOk : Bool := true
  enumNested : Bool := true
  enumOk : List EnumVal → Bool := fun _ => true
  disjOk : List Ty → Bool := fun _ => true
  idxOk : Ty → Bool := fun _ => true
  interStop : Bool := false

mutual
def sat (q : Q) : Ty → Bool
  | .array e _ => sat q e
  | .map i v _ => q.idxOk i && sat q i && sat q v
  | .struct fs _ _ _ => q.structOk && satFields q fs
  | .enum vs _ => q.enumNested && q.enumOk vs
  | .disj bs _ _ => q.disjOk bs && satList q bs
  | .inter bs _ => q.interStop || satList q bs
  | _ => true
def satList (q : Q) : List Ty → Bool
  | [] => true
  | t :: ts => sat q t && satList q ts
def satFields (q : Q) : List Field → Bool
  | [] => true
  | f :: fs => q.fieldOk f.required f.ty.getMeta.nullable && sat q f.ty && satFields q fs
end

def satTop (q : Q) : Ty → Bool
  | .struct fs _ _ _ => satFields q fs
  | .enum vs _ => q.enumOk vs
  | t => sat q t

theorem satTop_of_sat (q : Q) (t : Ty) (h : sat q t = true) : satTop q t = true := by
  cases t <;> simp_all [sat, satTop]

/-- `sat` does not look at a node's own options -/
theorem sat_setMeta (q : Q) (m : Meta) (t : Ty) : sat q (t.setMeta m) = sat q t := by
  cases t <;> simp [Ty.setMeta, sat]

theorem satTop_setMeta (q : Q) (m : Meta) (t : Ty) : satTop q (t.setMeta m) = satTop q t := by
  cases t <;> simp [Ty.setMeta, sat, satTop]

theorem getMeta_setMeta (m : Meta) (t : Ty) : (t.setMeta m).getMeta = m := by
  cases t <;> simp [Ty.setMeta, Ty.getMeta]

theorem satList_mem (q : Q) : ∀ {ts : List Ty} {t : Ty}, satList q ts = true → t ∈ ts → sat q t = true
  | [], _, _, h => by simp at h
  | x :: xs, t, hs, h => by
    simp [satList] at hs
    simp at h
    rcases h with h | h
    · subst h; exact hs.1
    · exact satList_mem q hs.2 h

theorem satList_of_forall (q : Q) : ∀ {ts : List Ty}, (∀ t ∈ ts, sat q t = true) → satList q ts = true
  | [], _ => by simp [satList]
  | x :: xs, h => by
    have h1 : satList q xs = true := satList_of_forall q (fun t ht => h t (List.mem_cons_of_mem _ ht))
    simp [satList, h x (by simp), h1]

theorem satList_append (q : Q) (xs ys : List Ty) : satList q (xs ++ ys) = (satList q xs && satList q ys) := by
  induction xs with
  | nil => simp [satList]
  | cons x xs ih => simp [satList, ih, Bool.and_assoc]

/-! ### the instances -/

def qNoUnion : Q := { disjOk := fun _ => false }
def qNoEnum : Q := { enumNested := false }
def qNoStruct : Q := { structOk := false, interStop := true }
def qNrn : Q := { fieldOk := fun req nul => req || nul }
def qNnp : Q := { disjOk := fun bs => !isNullPair bs }
def qNames (p : String → Bool) : Q := { enumOk := allMembers p }

/-- the index type of every map is a scalar or a reference -/
def leafIdx : Ty → Bool
  | .scalar .. => true
  | .ref .. => true
  | _ => false
def qIdx : Q := { idxOk := leafIdx }

mutual
theorem sat_qNoUnion : ∀ t : Ty, sat qNoUnion t = noUnionTy t
  | .scalar .. | .ref .. | .cref .. | .slot .. | .bad .. | .enum .. => by simp [sat, noUnionTy, qNoUnion]
  | .array e _ => by simp [sat, noUnionTy, sat_qNoUnion e]
  | .map i v _ => by simp [sat, noUnionTy, sat_qNoUnion i, sat_qNoUnion v]; simp [qNoUnion]
  | .struct fs _ _ _ => by simp [sat, noUnionTy, satFields_qNoUnion fs]; simp [qNoUnion]
  | .disj .. => by simp [sat, noUnionTy, qNoUnion]
  | .inter bs _ => by simp [sat, noUnionTy, satList_qNoUnion bs]; simp [qNoUnion]
theorem satList_qNoUnion : ∀ ts : List Ty, satList qNoUnion ts = noUnionList ts
  | [] => by simp [satList, noUnionList]
  | t :: ts => by simp [satList, noUnionList, sat_qNoUnion t, satList_qNoUnion ts]
theorem satFields_qNoUnion : ∀ fs : List Field, satFields qNoUnion fs = noUnionFields fs
  | [] => by simp [satFields, noUnionFields]
  | f :: fs => by simp [satFields, noUnionFields, sat_qNoUnion f.ty, satFields_qNoUnion fs]; simp [qNoUnion]
end

mutual
theorem sat_qNoEnum : ∀ t : Ty, sat qNoEnum t = noEnumTy t
  | .scalar .. | .ref .. | .cref .. | .slot .. | .bad .. => by simp [sat, noEnumTy]
  | .enum .. => by simp [sat, noEnumTy, qNoEnum]
  | .array e _ => by simp [sat, noEnumTy, sat_qNoEnum e]
  | .map i v _ => by simp [sat, noEnumTy, sat_qNoEnum i, sat_qNoEnum v]; simp [qNoEnum]
  | .struct fs _ _ _ => by simp [sat, noEnumTy, satFields_qNoEnum fs]; simp [qNoEnum]
  | .disj bs _ _ => by simp [sat, noEnumTy, satList_qNoEnum bs]; simp [qNoEnum]
  | .inter bs _ => by simp [sat, noEnumTy, satList_qNoEnum bs]; simp [qNoEnum]
theorem satList_qNoEnum : ∀ ts : List Ty, satList qNoEnum ts = noEnumList ts
  | [] => by simp [satList, noEnumList]
  | t :: ts => by simp [satList, noEnumList, sat_qNoEnum t, satList_qNoEnum ts]
theorem satFields_qNoEnum : ∀ fs : List Field, satFields qNoEnum fs = noEnumFields fs
  | [] => by simp [satFields, noEnumFields]
  | f :: fs => by simp [satFields, noEnumFields, sat_qNoEnum f.ty, satFields_qNoEnum fs]; simp [qNoEnum]
end

theorem satTop_qNoEnum (t : Ty) : satTop qNoEnum t = enumsNamedTop t := by
  cases t <;> simp [satTop, enumsNamedTop, sat_qNoEnum, satFields_qNoEnum, noEnumTy] <;> simp [qNoEnum]

mutual
theorem sat_qNoStruct : ∀ t : Ty, sat qNoStruct t = noStructTy t
  | .scalar .. | .ref .. | .cref .. | .slot .. | .bad .. | .enum .. => by simp [sat, noStructTy, qNoStruct]
  | .array e _ => by simp [sat, noStructTy, sat_qNoStruct e]
  | .map i v _ => by simp [sat, noStructTy, sat_qNoStruct i, sat_qNoStruct v]; simp [qNoStruct]
  | .struct .. => by simp [sat, noStructTy, qNoStruct]
  | .disj bs _ _ => by simp [sat, noStructTy, satList_qNoStruct bs]; simp [qNoStruct]
  | .inter .. => by simp [sat, noStructTy, qNoStruct]
theorem satList_qNoStruct : ∀ ts : List Ty, satList qNoStruct ts = noStructList ts
  | [] => by simp [satList, noStructList]
  | t :: ts => by simp [satList, noStructList, sat_qNoStruct t, satList_qNoStruct ts]
end

theorem satFields_qNoStruct : ∀ fs : List Field, satFields qNoStruct fs = noStructFields fs
  | [] => by simp [satFields, noStructFields]
  | f :: fs => by simp [satFields, noStructFields, sat_qNoStruct f.ty, satFields_qNoStruct fs]; simp [qNoStruct]

theorem satTop_qNoStruct (t : Ty) : satTop qNoStruct t = structsNamedTop t := by
  cases t <;> simp [satTop, structsNamedTop, sat_qNoStruct, satFields_qNoStruct, noStructTy] <;> simp [qNoStruct]

mutual
theorem sat_qNrn : ∀ t : Ty, sat qNrn t = nrnTy t
  | .scalar .. | .ref .. | .cref .. | .slot .. | .bad .. | .enum .. => by simp [sat, nrnTy, qNrn]
  | .array e _ => by simp [sat, nrnTy, sat_qNrn e]
  | .map i v _ => by simp [sat, nrnTy, sat_qNrn i, sat_qNrn v]; simp [qNrn]
  | .struct fs _ _ _ => by simp [sat, nrnTy, satFields_qNrn fs]; simp [qNrn]
  | .disj bs _ _ => by simp [sat, nrnTy, satList_qNrn bs]; simp [qNrn]
  | .inter bs _ => by simp [sat, nrnTy, satList_qNrn bs]; simp [qNrn]
theorem satList_qNrn : ∀ ts : List Ty, satList qNrn ts = nrnList ts
  | [] => by simp [satList, nrnList]
  | t :: ts => by simp [satList, nrnList, sat_qNrn t, satList_qNrn ts]
theorem satFields_qNrn : ∀ fs : List Field, satFields qNrn fs = nrnFields fs
  | [] => by simp [satFields, nrnFields]
  | f :: fs => by simp [satFields, nrnFields, sat_qNrn f.ty, satFields_qNrn fs]; simp [qNrn]
end

theorem satTop_qNrn (t : Ty) : satTop qNrn t = nrnTy t := by
  cases t <;> simp [satTop, sat_qNrn, satFields_qNrn, nrnTy] <;> simp [qNrn]

/-- `AllTop q S`: every object type passes `satTop q`, every entry point type passes `sat q` -/
def AllTop (q : Q) (S : Schemas) : Prop := AllObj (fun o => satTop q o.ty = true) (fun t => sat q t = true) S

theorem EnumsNamed_iff (S : Schemas) : EnumsNamed S = true ↔ AllTop qNoEnum S := by
  simp [EnumsNamed, schemasAll_eq_AllObj, AllTop, satTop_qNoEnum, sat_qNoEnum]
theorem StructsNamed_iff (S : Schemas) : StructsNamedOutsideAllOf S = true ↔ AllTop qNoStruct S := by
  simp [StructsNamedOutsideAllOf, schemasAll_eq_AllObj, AllTop, satTop_qNoStruct, sat_qNoStruct]
theorem NonRequiredNullable_iff (S : Schemas) : NonRequiredNullable S = true ↔ AllTop qNrn S := by
  simp [NonRequiredNullable, schemasAll_eq_AllObj, AllTop, satTop_qNrn, sat_qNrn]

/-- decidable form of `AllTop qIdx`, a hypothesis of some `_partial` theorems -/
def SimpleIndex := schemasAll (fun o => satTop qIdx o.ty) (sat qIdx)
theorem SimpleIndex_iff (S : Schemas) : SimpleIndex S = true ↔ AllTop qIdx S := by
  simp [SimpleIndex, schemasAll_eq_AllObj, AllTop]

end Cog.NF
