/-
  C06: concrete witnesses (small IRs) refuting the full statements.  Each is printed by the driver
  (`c06witness <name>`) and replayed on the REAL chain of /repo by checks/c06.py on every run.
-/
import Cog.Passes.Chain
import Cog.NF.Preds
namespace Cog.NF.Witness
open Cog.IR Cog.Passes

def str : Ty := .scalar "string" .nil [] {}
def i64 : Ty := .scalar "int64" .nil [] {}
def bool : Ty := .scalar "bool" .nil [] {}
def null : Ty := .scalar "null" .nil [] {}
def union (bs : List Ty) : Ty := .disj bs {} {}
def obj (name : String) (t : Ty) : String × Obj := (name, { name := name, ty := t, selfPkg := "p", selfName := name })
def schemas (objs : List (String × Obj)) : Schemas := [{ pkg := "p", objects := objs }]
def fld (n : String) (t : Ty) (req : Bool) : Field := { name := n, ty := t, required := req }

/-- `A = string | [](int64 | bool)` -/
def unionUnderUnionBranch : Schemas := schemas [obj "A" (union [str, .array (union [i64, bool]) {}])]
/-- `A = map[string | int64]string` -/
def unionInMapIndex : Schemas := schemas [obj "A" (.map (union [str, i64]) str {})]
/-- `A = [](string | null) | bool` -/
def nullPairUnderBranch : Schemas := schemas [obj "A" (union [.array (union [str, null]) {}, bool])]
/-- `U = { f: [](string | null) | bool }` (PHP inlines objects that are unions, so the union sits in a field) -/
def nullPairUnderBranchField : Schemas := schemas [obj "U" (.struct [fld "f" (union [.array (union [str, null]) {}, bool]) true] [] none {})]
/-- `A = map[string]string | map[string]bool | null` -/
def flattenNullPair : Schemas := schemas [obj "A" (union [.map str str {}, .map str bool {}, null])]
/-- `A = { f?: string | string }` -/
def scalarUnionNullable : Schemas := schemas [obj "A" (.struct [fld "f" (union [str, str]) false] [] none {})]
/-- `A = allOf[ []{} | string ]` -/
def structOutOfAllOf : Schemas := schemas [obj "A" (.inter [union [.array (.struct [] [] none {}) {}, str]] {})]
/-- `S = {a: string}; Al = S; U = {s: S}` -/
def javaAlias : Schemas := schemas [obj "S" (.struct [fld "a" str true] [] none {}), obj "Al" (.ref "p" "S" {}),
  obj "U" (.struct [fld "s" (.ref "p" "S" {}) true] [] none {})]
/-- `T = string; U = {t?: T}` -/
def phpInline : Schemas := schemas [obj "T" str, obj "U" (.struct [fld "t" (.ref "p" "T" {}) false] [] none {})]
/-- `A = {e: enum("1" = 1)}` -/
def anonEnumNumeric : Schemas := schemas [obj "A" (.struct [fld "e" (.enum [{ name := "1", value := .int "i64" 1, kind := "int64" }] {}) true] [] none {})]
/-- `E = enum("99999999999999999999" = 0)` -/
def enumOutOfRange : Schemas := schemas [obj "E" (.enum [{ name := "99999999999999999999", value := .int "i64" 0, kind := "int64" }] {})]

/-- name ↦ (language, failing conjunct, input) -/
def all : List (String × String × String × Schemas) := [
  ("go/union-under-union-branch", "go", "NoUnion", unionUnderUnionBranch),
  ("java/union-under-union-branch", "java", "NoUnion", unionUnderUnionBranch),
  ("go/union-in-map-index", "go", "NoUnion", unionInMapIndex),
  ("java/union-in-map-index", "java", "NoUnion", unionInMapIndex),
  ("go/same-kind-scalar-union-drops-nullable", "go", "NonRequiredNullable", scalarUnionNullable),
  ("go/struct-lifted-out-of-allOf", "go", "StructsNamedOutsideAllOf", structOutOfAllOf),
  ("java/remove-intersections-rebuilds-field", "java", "NonRequiredNullable", javaAlias),
  ("php/inline-drops-nullable", "php", "NonRequiredNullable", phpInline),
  ("php/null-pair-under-union-branch", "php", "NoNullPairUnion", nullPairUnderBranchField),
  ("python/null-pair-under-union-branch", "python", "NoNullPairUnion", nullPairUnderBranch),
  ("python/flatten-dedup-creates-null-pair", "python", "NoNullPairUnion", flattenNullPair),
  ("python/anonymous-enum-numeric-member", "python", "EnumNames", anonEnumNumeric),
  ("typescript/anonymous-enum-numeric-member", "typescript", "EnumNames", anonEnumNumeric),
  ("typescript/numeric-member-out-of-int-range", "typescript", "EnumNames", enumOutOfRange)]

end Cog.NF.Witness
