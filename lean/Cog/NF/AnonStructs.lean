/-
  C06: AnonymousStructsToNamed.
  * `post_AnonymousStructsToNamed`: whatever the input, every struct outside an intersection is the
    type of an object afterwards (the pass walks array elements, map index AND value, union branches
    and struct fields; the entry point type, which it does not touch, must be a leaf: `wfIR`).
  * `keeps_AnonymousStructsToNamed_idx`: map index types that are leaves stay leaves.
-/
import Cog.NF.PurePasses
namespace Cog.NF
open Cog.IR Cog.Passes Cog.Passes.AnonymousStructsToNamed

/-- the objects accumulated so far are `q`-good -/
def AccOk (q : Q) (acc : List Obj) : Prop := ∀ o ∈ acc, satTop q o.ty = true

theorem AccOk.append {q : Q} {acc : List Obj} {o : Obj} (h : AccOk q acc) (ho : satTop q o.ty = true) :
    AccOk q (acc ++ [o]) := by
  intro x hx
  simp at hx
  rcases hx with hx | hx
  · exact h x hx
  · subst hx; exact ho

mutual
theorem processType_noStruct (pkg : String) : ∀ (parent : String) (t : Ty) (acc : List Obj), AccOk qNoStruct acc →
    sat qNoStruct (processType pkg parent t acc).1 = true ∧ AccOk qNoStruct (processType pkg parent t acc).2
  | _, .scalar .., acc, h => by simp [processType, sat]; exact h
  | _, .ref .., acc, h => by simp [processType, sat]; exact h
  | _, .cref .., acc, h => by simp [processType, sat]; exact h
  | _, .enum .., acc, h => by simp [processType, sat, qNoStruct]; exact h
  | _, .inter .., acc, h => by simp [processType, sat, qNoStruct]; exact h
  | _, .slot .., acc, h => by simp [processType, sat]; exact h
  | _, .bad .., acc, h => by simp [processType, sat]; exact h
  | parent, .array e m, acc, h => by
    have := processType_noStruct pkg parent e acc h
    simp [processType, sat, this.1]; exact this.2
  | parent, .map i v m, acc, h => by
    have h1 := processType_noStruct pkg parent i acc h
    have h2 := processType_noStruct pkg parent v _ h1.2
    simp only [processType, sat, Bool.and_eq_true]
    exact ⟨⟨⟨rfl, h1.1⟩, h2.1⟩, h2.2⟩
  | parent, .disj bs info m, acc, h => by
    have := processList_noStruct pkg parent bs acc h
    simp only [processType, sat, Bool.and_eq_true]
    exact ⟨⟨rfl, this.1⟩, this.2⟩
  | parent, .struct fs g gi m, acc, h => by
    have := processFields_noStruct pkg parent fs acc h
    simp only [processType, sat, true_and]
    exact this.2.append (by simpa [newObject, satTop] using this.1)
theorem processList_noStruct (pkg : String) : ∀ (parent : String) (ts : List Ty) (acc : List Obj), AccOk qNoStruct acc →
    satList qNoStruct (processList pkg parent ts acc).1 = true ∧ AccOk qNoStruct (processList pkg parent ts acc).2
  | _, [], acc, h => by simp [processList, satList]; exact h
  | parent, t :: ts, acc, h => by
    have h1 := processType_noStruct pkg parent t acc h
    have h2 := processList_noStruct pkg parent ts _ h1.2
    simp only [processList, satList, Bool.and_eq_true]
    exact ⟨⟨h1.1, h2.1⟩, h2.2⟩
theorem processFields_noStruct (pkg : String) : ∀ (parent : String) (fs : List Field) (acc : List Obj), AccOk qNoStruct acc →
    satFields qNoStruct (processFields pkg parent fs acc).1 = true ∧ AccOk qNoStruct (processFields pkg parent fs acc).2
  | _, [], acc, h => by simp [processFields, satFields]; exact h
  | parent, f :: fs, acc, h => by
    have h1 := processType_noStruct pkg (parent ++ ucc f.name) f.ty acc h
    have h2 := processFields_noStruct pkg parent fs _ h1.2
    simp only [processFields, satFields, Bool.and_eq_true]
    exact ⟨⟨⟨rfl, h1.1⟩, h2.1⟩, h2.2⟩
end

theorem processObject_noStruct (o : Obj) (acc : List Obj) (h : AccOk qNoStruct acc) :
    satTop qNoStruct (processObject o acc).1.ty = true ∧ AccOk qNoStruct (processObject o acc).2 := by
  unfold processObject
  cases ht : o.ty with
  | array e m =>
    have := processType_noStruct o.selfPkg (ucc o.selfPkg ++ ucc o.name) (.array e m) acc h
    exact ⟨satTop_of_sat _ _ this.1, this.2⟩
  | map i v m =>
    have := processType_noStruct o.selfPkg (ucc o.selfPkg ++ ucc o.name) (.map i v m) acc h
    exact ⟨satTop_of_sat _ _ this.1, this.2⟩
  | disj bs i m =>
    have := processType_noStruct o.selfPkg (ucc o.selfPkg ++ ucc o.name) (.disj bs i m) acc h
    exact ⟨satTop_of_sat _ _ this.1, this.2⟩
  | struct fs g gi m =>
    have := processFields_noStruct o.selfPkg (ucc o.selfPkg ++ ucc o.name) fs acc h
    exact ⟨by simpa [satTop] using this.1, this.2⟩
  | scalar k v c m => simp [ht, satTop, sat]; exact h
  | ref p n m => simp [ht, satTop, sat]; exact h
  | cref p n v m => simp [ht, satTop, sat]; exact h
  | enum vs m => simp [ht, satTop, qNoStruct]; exact h
  | inter bs m => simp [ht, satTop, sat, qNoStruct]; exact h
  | slot v m => simp [ht, satTop, sat]; exact h
  | bad k m => simp [ht, satTop, sat]; exact h

theorem processObjects_noStruct : ∀ (os : Objects) (acc : List Obj), AccOk qNoStruct acc →
    (∀ ko ∈ (processObjects os acc).1, satTop qNoStruct ko.2.ty = true) ∧ AccOk qNoStruct (processObjects os acc).2
  | [], acc, h => by simp [processObjects]; exact h
  | (k, o) :: rest, acc, h => by
    have h1 := processObject_noStruct o acc h
    have h2 := processObjects_noStruct rest _ h1.2
    simp only [processObjects]
    refine ⟨?_, h2.2⟩
    intro ko hko
    simp at hko
    rcases hko with hko | hko
    · subst hko; exact h1.1
    · exact h2.1 ko hko

/-- `post_AnonymousStructsToNamed` -/
theorem post_AnonymousStructsToNamed (S S' : Schemas) (hw : wfIR S = true)
    (h : AnonymousStructsToNamed.run S = .ok S') : AllTop qNoStruct S' := by
  simp [AnonymousStructsToNamed.run] at h
  subst h
  intro s' hs'
  simp only [List.mem_map] at hs'
  obtain ⟨s, hs, rfl⟩ := hs'
  have hp := processObjects_noStruct s.objects [] (by intro o ho; simp at ho)
  refine ⟨sat_of_eptOk _ _ (wfIR_ept hw s hs), ?_⟩
  intro ko hko
  simp only [processSchema] at hko
  rcases addObjects_mem hko with h1 | h1
  · exact hp.1 ko h1
  · exact hp.2 ko.2 h1

/-! ### leaf map indexes stay leaves -/

theorem processType_leaf (pkg parent : String) (t : Ty) (acc : List Obj) (h : leafIdx t = true) :
    processType pkg parent t acc = (t, acc) := by
  cases t <;> simp_all [leafIdx, processType]

mutual
theorem processType_idx (pkg : String) : ∀ (parent : String) (t : Ty) (acc : List Obj), sat qIdx t = true → AccOk qIdx acc →
    sat qIdx (processType pkg parent t acc).1 = true ∧ AccOk qIdx (processType pkg parent t acc).2
  | _, .scalar .., acc, _, h => by simp [processType, sat]; exact h
  | _, .ref .., acc, _, h => by simp [processType, sat]; exact h
  | _, .cref .., acc, _, h => by simp [processType, sat]; exact h
  | _, .enum .., acc, _, h => by simp [processType, sat, qIdx]; exact h
  | _, .inter bs m, acc, hs, h => by simp only [processType]; exact ⟨hs, h⟩
  | _, .slot .., acc, _, h => by simp [processType, sat]; exact h
  | _, .bad .., acc, _, h => by simp [processType, sat]; exact h
  | parent, .array e m, acc, hs, h => by
    simp only [sat] at hs
    have := processType_idx pkg parent e acc hs h
    simp [processType, sat, this.1]; exact this.2
  | parent, .map i v m, acc, hs, h => by
    simp only [sat, Bool.and_eq_true] at hs
    have hi : leafIdx i = true := hs.1.1
    have h2 := processType_idx pkg parent v acc hs.2 h
    simp only [processType, processType_leaf pkg parent i acc hi, sat, Bool.and_eq_true]
    exact ⟨⟨⟨hi, hs.1.2⟩, h2.1⟩, h2.2⟩
  | parent, .disj bs info m, acc, hs, h => by
    simp only [sat, Bool.and_eq_true] at hs
    have := processList_idx pkg parent bs acc hs.2 h
    simp only [processType, sat, Bool.and_eq_true]
    exact ⟨⟨rfl, this.1⟩, this.2⟩
  | parent, .struct fs g gi m, acc, hs, h => by
    simp only [sat, Bool.and_eq_true] at hs
    have := processFields_idx pkg parent fs acc hs.2 h
    simp only [processType, sat, true_and]
    exact this.2.append (by simpa [newObject, satTop] using this.1)
theorem processList_idx (pkg : String) : ∀ (parent : String) (ts : List Ty) (acc : List Obj), satList qIdx ts = true → AccOk qIdx acc →
    satList qIdx (processList pkg parent ts acc).1 = true ∧ AccOk qIdx (processList pkg parent ts acc).2
  | _, [], acc, _, h => by simp [processList, satList]; exact h
  | parent, t :: ts, acc, hs, h => by
    simp only [satList, Bool.and_eq_true] at hs
    have h1 := processType_idx pkg parent t acc hs.1 h
    have h2 := processList_idx pkg parent ts _ hs.2 h1.2
    simp only [processList, satList, Bool.and_eq_true]
    exact ⟨⟨h1.1, h2.1⟩, h2.2⟩
theorem processFields_idx (pkg : String) : ∀ (parent : String) (fs : List Field) (acc : List Obj), satFields qIdx fs = true → AccOk qIdx acc →
    satFields qIdx (processFields pkg parent fs acc).1 = true ∧ AccOk qIdx (processFields pkg parent fs acc).2
  | _, [], acc, _, h => by simp [processFields, satFields]; exact h
  | parent, f :: fs, acc, hs, h => by
    simp only [satFields, Bool.and_eq_true] at hs
    have h1 := processType_idx pkg (parent ++ ucc f.name) f.ty acc hs.1.2 h
    have h2 := processFields_idx pkg parent fs _ hs.2 h1.2
    simp only [processFields, satFields, Bool.and_eq_true]
    exact ⟨⟨⟨rfl, h1.1⟩, h2.1⟩, h2.2⟩
end

theorem processObject_idx (o : Obj) (acc : List Obj) (ho : satTop qIdx o.ty = true) (h : AccOk qIdx acc) :
    satTop qIdx (processObject o acc).1.ty = true ∧ AccOk qIdx (processObject o acc).2 := by
  unfold processObject
  cases ht : o.ty with
  | array e m =>
    rw [ht] at ho
    have := processType_idx o.selfPkg (ucc o.selfPkg ++ ucc o.name) (.array e m) acc (by simpa [satTop] using ho) h
    exact ⟨satTop_of_sat _ _ this.1, this.2⟩
  | map i v m =>
    rw [ht] at ho
    have := processType_idx o.selfPkg (ucc o.selfPkg ++ ucc o.name) (.map i v m) acc (by simpa [satTop] using ho) h
    exact ⟨satTop_of_sat _ _ this.1, this.2⟩
  | disj bs i m =>
    rw [ht] at ho
    have := processType_idx o.selfPkg (ucc o.selfPkg ++ ucc o.name) (.disj bs i m) acc (by simpa [satTop] using ho) h
    exact ⟨satTop_of_sat _ _ this.1, this.2⟩
  | struct fs g gi m =>
    rw [ht] at ho
    have := processFields_idx o.selfPkg (ucc o.selfPkg ++ ucc o.name) fs acc (by simpa [satTop] using ho) h
    exact ⟨by simpa [satTop] using this.1, this.2⟩
  | scalar k v c m => simp only [ht]; exact ⟨by rw [ht] at ho; exact ho, h⟩
  | ref p n m => simp only [ht]; exact ⟨by rw [ht] at ho; exact ho, h⟩
  | cref p n v m => simp only [ht]; exact ⟨by rw [ht] at ho; exact ho, h⟩
  | enum vs m => simp only [ht]; exact ⟨by rw [ht] at ho; exact ho, h⟩
  | inter bs m => simp only [ht]; exact ⟨by rw [ht] at ho; exact ho, h⟩
  | slot v m => simp only [ht]; exact ⟨by rw [ht] at ho; exact ho, h⟩
  | bad k m => simp only [ht]; exact ⟨by rw [ht] at ho; exact ho, h⟩

theorem processObjects_idx : ∀ (os : Objects) (acc : List Obj), (∀ ko ∈ os, satTop qIdx ko.2.ty = true) → AccOk qIdx acc →
    (∀ ko ∈ (processObjects os acc).1, satTop qIdx ko.2.ty = true) ∧ AccOk qIdx (processObjects os acc).2
  | [], acc, _, h => by simp [processObjects]; exact h
  | (k, o) :: rest, acc, hos, h => by
    have h1 := processObject_idx o acc (hos (k, o) (by simp)) h
    have h2 := processObjects_idx rest _ (fun ko hko => hos ko (List.mem_cons_of_mem _ hko)) h1.2
    simp only [processObjects]
    refine ⟨?_, h2.2⟩
    intro ko hko
    simp at hko
    rcases hko with hko | hko
    · subst hko; exact h1.1
    · exact h2.1 ko hko

theorem keeps_AnonymousStructsToNamed_idx (S S' : Schemas) (hS : AllTop qIdx S)
    (h : AnonymousStructsToNamed.run S = .ok S') : AllTop qIdx S' := by
  simp [AnonymousStructsToNamed.run] at h
  subst h
  intro s' hs'
  simp only [List.mem_map] at hs'
  obtain ⟨s, hs, rfl⟩ := hs'
  have hp := processObjects_idx s.objects [] (hS s hs).2 (by intro o ho; simp at ho)
  refine ⟨(hS s hs).1, ?_⟩
  intro ko hko
  simp only [processSchema] at hko
  rcases addObjects_mem hko with h1 | h1
  · exact hp.1 ko h1
  · exact hp.2 ko.2 h1

end Cog.NF
