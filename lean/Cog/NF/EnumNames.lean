/-
  C06 lemmas on enum member names: what RenameNumericEnumValues, SanitizeEnumMemberNames and
  PrefixEnumValues establish.
-/
import Cog.NF.Basic
namespace Cog.NF
open Cog.IR Cog.Passes

/-! ### string facts -/

theorem uccChars_n (cs : List Char) :
    uccChars ('n' :: cs) = 'N' :: (titleWords (squash cs false) true).filter (· != ' ') := by
  have h1 : isAlnumSp 'n' = true := by decide
  have h2 : ('n' == ' ') = false := by decide
  have h3 : Char.isAlpha 'n' = true := by decide
  have h4 : (Char.toUpper 'n' != ' ') = true := by decide
  have h5 : (Char.toUpper 'n').toLower.toUpper = 'N' := by decide
  simp only [uccChars, squash, h1, titleWords, h2, h3, upperFirst, if_true, List.filter, h4, Bool.false_eq_true, if_false, h5]

theorem uccChars_p (cs : List Char) :
    uccChars ('p' :: cs) = 'P' :: (titleWords (squash cs false) true).filter (· != ' ') := by
  have h1 : isAlnumSp 'p' = true := by decide
  have h2 : ('p' == ' ') = false := by decide
  have h3 : Char.isAlpha 'p' = true := by decide
  have h4 : (Char.toUpper 'p' != ' ') = true := by decide
  have h5 : (Char.toUpper 'p').toLower.toUpper = 'P' := by decide
  simp only [uccChars, squash, h1, titleWords, h2, h3, upperFirst, if_true, List.filter, h4, Bool.false_eq_true, if_false, h5]

theorem notNumeric_of_head {n : String} {c : Char} {r : List Char} (h : n.toList = c :: r) (hc : c.isDigit = false) :
    notNumeric n = true := by
  simp [notNumeric, h, hc]

theorem ucc_negative_toList (s : String) : ∃ r, (ucc ("negative" ++ s)).toList = 'N' :: r :=
  ⟨_, by simp only [ucc, String.toList_append, String.toList_ofList]; exact uccChars_n _⟩

theorem ucc_positive_toList (s : String) : ∃ r, (ucc ("positive" ++ s)).toList = 'P' :: r :=
  ⟨_, by simp only [ucc, String.toList_append, String.toList_ofList]; exact uccChars_p _⟩

/-! ### RenameNumericEnumValues -/

theorem renameMember_notNumeric (v : EnumVal) (h : numericNamesInRange v.name = true) :
    notNumeric (RenameNumericEnumValues.renameMember v).name = true := by
  unfold RenameNumericEnumValues.renameMember
  by_cases ha : atoiOk v.name = true
  · simp only [ha, Bool.not_true, Bool.false_eq_true, ↓reduceIte]
    split
    · obtain ⟨r, hr⟩ := ucc_negative_toList (tail1 v.name)
      exact notNumeric_of_head hr (by decide)
    · exact notNumeric_of_head (c := 'N') (r := (ucc v.name).toList) (by simp [String.toList_append]) (by decide)
  · simp only [ha, Bool.not_false, ↓reduceIte]
    simp [numericNamesInRange, ha] at h
    exact h

theorem renameMembers_notNumeric : ∀ vs : List EnumVal, allMembers numericNamesInRange vs = true →
    allMembers notNumeric (RenameNumericEnumValues.renameMembers vs) = true
  | [], _ => by simp [RenameNumericEnumValues.renameMembers, allMembers]
  | v :: vs, h => by
    simp [allMembers] at h
    simp [RenameNumericEnumValues.renameMembers, allMembers, renameMember_notNumeric v h.1,
      renameMembers_notNumeric vs h.2]

/-- an enum OBJECT comes out with non-numeric names; any other object without anonymous enums has
    no enum node at all -/
theorem processObject_notNumeric (o : Obj) (hn : enumsNamedTop o.ty = true)
    (hr : enumNamesTy numericNamesInRange o.ty = true) :
    enumNamesTy notNumeric (RenameNumericEnumValues.processObject o).ty = true := by
  unfold RenameNumericEnumValues.processObject
  cases ht : o.ty with
  | enum vs m =>
    rw [ht] at hr
    simp [enumNamesTy] at hr
    simp [enumNamesTy, renameMembers_notNumeric vs hr]
  | scalar k v c m => simp [ht, enumNamesTy]
  | ref p n m => simp [ht, enumNamesTy]
  | cref p n v m => simp [ht, enumNamesTy]
  | slot v m => simp [ht, enumNamesTy]
  | bad k m => simp [ht, enumNamesTy]
  | array e m => rw [ht] at hn; simp only [ht]; exact enumNames_of_noEnum _ _ (by simpa [enumsNamedTop] using hn)
  | map i v m => rw [ht] at hn; simp only [ht]; exact enumNames_of_noEnum _ _ (by simpa [enumsNamedTop] using hn)
  | struct fs g gi m => rw [ht] at hn; simp only [ht]; exact enumNames_of_noEnum _ _ (by simpa [enumsNamedTop] using hn)
  | disj bs i m => rw [ht] at hn; simp only [ht]; exact enumNames_of_noEnum _ _ (by simpa [enumsNamedTop] using hn)
  | inter bs m => rw [ht] at hn; simp only [ht]; exact enumNames_of_noEnum _ _ (by simpa [enumsNamedTop] using hn)

/-- `post_RenameNumericEnumValues` -/
theorem post_RenameNumericEnumValues (S S' : Schemas) (hn : EnumsNamed S = true) (hr : NumericNamesInRange S = true)
    (h : RenameNumericEnumValues.run S = .ok S') : EnumNames_num S' = true := by
  simp [RenameNumericEnumValues.run] at h
  subst h
  rw [EnumNames_num, schemasAll_iff]
  rw [EnumsNamed, schemasAll_iff] at hn
  rw [NumericNamesInRange, schemasAll_iff] at hr
  intro s' hs'
  simp only [List.mem_map] at hs'
  obtain ⟨s, hs, rfl⟩ := hs'
  refine ⟨?_, ?_⟩
  · simp only [RenameNumericEnumValues.processSchema]
    exact enumNames_of_noEnum _ _ (hn s hs).1
  · intro ko hko
    simp only [RenameNumericEnumValues.processSchema, mapObjects, List.mem_map] at hko
    obtain ⟨ko0, hko0, rfl⟩ := hko
    exact processObject_notNumeric ko0.2 ((hn s hs).2 ko0 hko0) ((hr s hs).2 ko0 hko0)

end Cog.NF
