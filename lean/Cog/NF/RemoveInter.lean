/-
  C06, Java: RemoveIntersections keeps every test that does not look at fields (`Shape`): it only
  copies field lists between objects, replaces references by references / arrays built from the
  element type of an existing array object, and deletes objects.  (It does NOT keep
  NonRequiredNullable: the fields it rebuilds are non-required and non-nullable — see the
  counterexample `C06_java_counterexample_alias`.)
-/
import Cog.NF.SanitizePost
namespace Cog.NF
open Cog.IR Cog.Passes Cog.Passes.RemoveIntersections
open Cog.OMap (rget rset rdel)

def ObjsOk (q : Q) (objs : Objects) : Prop := ∀ ko ∈ objs, satTop q ko.2.ty = true
def StOk (q : Q) (st : St) : Prop :=
  (∀ ko ∈ st.toRemove, satTop q ko.2.ty = true) ∧ (∀ ko ∈ st.arrays, satTop q ko.2.ty = true)

theorem ObjsOk.rset {q : Q} {objs : Objects} {k : String} {o : Obj} (h : ObjsOk q objs) (ho : satTop q o.ty = true) :
    ObjsOk q (rset k o objs) := by
  intro ko hko
  rcases mem_rset hko with h1 | h1
  · subst h1; exact ho
  · exact h ko h1

theorem phaseAOne_ok (q : Q) (key : String) (objs : Objects) (share : List (String × String)) (st : St)
    (objs' : Objects) (share' : List (String × String)) (st' : St) (ho : ObjsOk q objs) (hs : StOk q st)
    (h : phaseAOne key objs share st = .ok (objs', share', st')) : ObjsOk q objs' ∧ StOk q st' := by
  simp only [phaseAOne] at h
  split at h
  · simp at h; obtain ⟨rfl, _, rfl⟩ := h; exact ⟨ho, hs⟩
  · rename_i o hget
    have hoo : satTop q o.ty = true := ho (key, o) (mem_of_rget hget)
    split at h
    · rename_i pkg rname om hty
      split at h
      · simp at h; obtain ⟨rfl, _, rfl⟩ := h; exact ⟨ho, hs⟩
      · rename_i located hloc
        have hl : satTop q located.ty = true := ho (rname, located) (mem_of_rget hloc)
        split at h
        · rename_i fs g gi lm hlty
          rw [hlty] at hl
          simp only [satTop] at hl
          split at h
          · cases h
          · cases h
          · simp at h; obtain ⟨rfl, _, rfl⟩ := h
            refine ⟨ho.rset (by simpa [satTop] using hl), ⟨?_, hs.2⟩⟩
            intro ko hko
            rcases mem_rset hko with h1 | h1
            · subst h1; exact hoo
            · exact hs.1 ko h1
        · simp at h; obtain ⟨rfl, _, rfl⟩ := h
          refine ⟨ho, ⟨?_, ?_⟩⟩
          · intro ko hko
            rcases mem_rset hko with h1 | h1
            · subst h1; exact hoo
            · exact hs.1 ko h1
          · intro ko hko
            rcases mem_rset hko with h1 | h1
            · subst h1; exact hl
            · exact hs.2 ko h1
        · simp at h; obtain ⟨rfl, _, rfl⟩ := h; exact ⟨ho, hs⟩
    · simp at h; obtain ⟨rfl, _, rfl⟩ := h; exact ⟨ho, hs⟩

theorem phaseA_ok (q : Q) : ∀ (keys : List String) (objs : Objects) (share : List (String × String)) (st : St)
    (objs' : Objects) (share' : List (String × String)) (st' : St), ObjsOk q objs → StOk q st →
    phaseA keys objs share st = .ok (objs', share', st') → ObjsOk q objs' ∧ StOk q st'
  | [], objs, share, st, objs', share', st', ho, hs, h => by
    simp [phaseA] at h; obtain ⟨rfl, _, rfl⟩ := h; exact ⟨ho, hs⟩
  | k :: ks, objs, share, st, objs', share', st', ho, hs, h => by
    simp only [phaseA] at h
    cases h1 : phaseAOne k objs share st with
    | ok r =>
      obtain ⟨o1, sh1, st1⟩ := r
      rw [h1] at h
      have := phaseAOne_ok q k objs share st o1 sh1 st1 ho hs h1
      exact phaseA_ok q ks o1 sh1 st1 objs' share' st' this.1 this.2 h
    | err e => rw [h1] at h; cases h
    | panic e => rw [h1] at h; cases h

theorem fixFields_ok (q : Q) (hf : q.FieldFree) (st : St) (hs : StOk q st) : ∀ fs : List Field,
    satFields q fs = true → satFields q (fixFields st fs) = true
  | [], _ => by simp [fixFields, satFields]
  | f :: fs, h => by
    simp only [satFields, Bool.and_eq_true] at h
    simp only [fixFields, satFields, Bool.and_eq_true]
    refine ⟨⟨hf _ _, ?_⟩, fixFields_ok q hf st hs fs h.2⟩
    split
    · rename_i pkg n m hty
      simp only [sat_setMeta]
      split
      · rename_i obj harr
        have ha : satTop q obj.ty = true := hs.2 (n, obj) (mem_of_rget harr)
        split
        · rename_i e em hoty
          rw [hoty] at ha
          simpa [satTop, sat] using ha
        · split
          · simp [sat]
          · exact h.1.2
      · split
        · simp [sat]
        · exact h.1.2
    · exact h.1.2

theorem writeShared_ok (q : Q) (share : List (String × String)) (r : String) (fs' : List Field)
    (hfs : satFields q fs' = true) : ∀ objs : Objects, ObjsOk q objs → ObjsOk q (writeShared share r fs' objs)
  | [], _ => by intro ko h; simp [writeShared] at h
  | (k, o) :: rest, ho => by
    intro ko hko
    simp only [writeShared] at hko
    simp at hko
    rcases hko with hko | hko
    · subst hko
      simp only
      have h0 : satTop q o.ty = true := ho (k, o) (by simp)
      split
      · split
        · simpa [satTop] using hfs
        · exact h0
      · exact h0
    · exact writeShared_ok q share r fs' hfs rest (fun x hx => ho x (List.mem_cons_of_mem _ hx)) ko hko

theorem phaseB_ok (q : Q) (hf : q.FieldFree) (share : List (String × String)) (st : St) (hs : StOk q st) :
    ∀ (keys : List String) (objs : Objects), ObjsOk q objs → ObjsOk q (phaseB share st keys objs)
  | [], objs, ho => by simpa [phaseB] using ho
  | k :: ks, objs, ho => by
    simp only [phaseB]
    split
    · rename_i o hget
      split
      · rename_i fs g gi m hty
        have h0 : satTop q o.ty = true := ho (k, o) (mem_of_rget hget)
        rw [hty] at h0
        simp only [satTop] at h0
        exact phaseB_ok q hf share st hs ks _ (writeShared_ok q share _ _ (fixFields_ok q hf st hs fs h0) objs ho)
      · exact phaseB_ok q hf share st hs ks objs ho
    · exact phaseB_ok q hf share st hs ks objs ho

theorem foldl_rdel_ok (q : Q) : ∀ (rm : List (String × Obj)) (objs : Objects), ObjsOk q objs →
    ObjsOk q (rm.foldl (fun acc (kv : String × Obj) => rdel kv.1 acc) objs)
  | [], objs, ho => by simpa using ho
  | kv :: rest, objs, ho => by
    simp only [List.foldl_cons]
    exact foldl_rdel_ok q rest _ (fun x hx => ho x (mem_rdel hx))

theorem processSchema_ok (q : Q) (hf : q.FieldFree) (s s' : Schema) (st st' : St) (hs : SchemaTop q s) (hst : StOk q st)
    (h : processSchema s st = .ok (s', st')) : SchemaTop q s' ∧ StOk q st' := by
  simp only [processSchema] at h
  cases hA : phaseA (s.objects.map (·.1)) s.objects [] st with
  | ok r =>
    obtain ⟨objs, share, st1⟩ := r
    rw [hA] at h
    simp at h
    obtain ⟨rfl, rfl⟩ := h
    have h1 := phaseA_ok q _ s.objects [] st objs share st1 hs.2 hst hA
    have h2 := phaseB_ok q hf share st1 h1.2 (s.objects.map (·.1)) objs h1.1
    exact ⟨⟨hs.1, foldl_rdel_ok q st1.toRemove _ h2⟩, h1.2⟩
  | err e => rw [hA] at h; cases h
  | panic e => rw [hA] at h; cases h

theorem stOk_empty (q : Q) : StOk q ({} : St) :=
  ⟨by intro ko h; simp at h, by intro ko h; simp at h⟩

theorem runFrom_ok (q : Q) (hf : q.FieldFree) : ∀ (S : Schemas) (st : St) (S' : Schemas),
    (∀ s ∈ S, SchemaTop q s) → runFrom S st = .ok S' → ∀ s' ∈ S', SchemaTop q s'
  | [], st, S', _, h => by simp [runFrom] at h; subst h; simp
  | s :: rest, st, S', hS, h => by
    simp only [runFrom] at h
    cases hp : processSchema s {} with
    | ok r =>
      obtain ⟨s1, st1⟩ := r
      rw [hp] at h
      simp only at h
      have h1 := processSchema_ok q hf s s1 {} st1 (hS s (by simp)) (stOk_empty q) hp
      cases hr : runFrom rest {} with
      | ok rest' =>
        rw [hr] at h; simp at h; subst h
        intro s' hs'
        simp at hs'
        rcases hs' with hs' | hs'
        · subst hs'; exact h1.1
        · exact runFrom_ok q hf rest {} rest' (fun x hx => hS x (List.mem_cons_of_mem _ hx)) hr s' hs'
      | err e => rw [hr] at h; cases h
      | panic e => rw [hr] at h; cases h
    | err e => rw [hp] at h; cases h
    | panic e => rw [hp] at h; cases h

/-- `keeps_RemoveIntersections`, for every test that does not look at fields -/
theorem keeps_RemoveIntersections (q : Q) (hf : q.FieldFree) (S S' : Schemas) (hS : AllTop q S)
    (h : RemoveIntersections.run S = .ok S') : AllTop q S' := by
  rw [AllTop_iff] at hS ⊢
  exact runFrom_ok q hf S {} S' hS h

/-- the Shape table extended with RemoveIntersections (Java chain) -/
def keepsShapeJ (p : PassId) : Bool := keepsShape p || p == .removeIntersections

theorem keepsShapeJ_sound (q : Q) (hq : q.Shape) (p : PassId) (h : keepsShapeJ p = true) : Keeps (AllTop q) p := by
  simp only [keepsShapeJ, Bool.or_eq_true] at h
  rcases h with h | h
  · exact keepsShape_sound q hq p h
  · have : p = .removeIntersections := by simpa using h
    subst this
    exact fun S S' hS hr => keeps_RemoveIntersections q hq.fieldFree S S' hS hr

end Cog.NF
