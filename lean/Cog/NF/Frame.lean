/-
  C06 proof infrastructure: where the objects of a pass output come from.

  * `AllObj P S` : every object type and every entry point type of `S` satisfies `P`/`Pe`
  * association-list facts (`rset`, `rdel`, `rget`)
  * the visitor frames of Passes/Common.lean: every output object is an input object with a
    visited type (or, for the stateful frame, an object of the registry)
  * `Schema.resolve` / `resolveToType` return either their argument or the type of an object
-/
import Cog.NF.Basic
namespace Cog.NF
open Cog.IR Cog.Passes
open Cog.OMap (rget rset rdel)

/-! ### association lists -/

theorem mem_rset {K V} [DecidableEq K] {k : K} {v : V} : ∀ {l : List (K × V)} {x : K × V},
    x ∈ rset k v l → x = (k, v) ∨ x ∈ l
  | [], x, h => by simp [rset] at h; exact Or.inl h
  | (k', v') :: t, x, h => by
    simp only [rset] at h
    split at h
    · simp at h
      rcases h with h | h
      · exact Or.inl h
      · exact Or.inr (List.mem_cons_of_mem _ h)
    · simp at h
      rcases h with h | h
      · exact Or.inr (by simp [h])
      · rcases mem_rset h with h | h
        · exact Or.inl h
        · exact Or.inr (List.mem_cons_of_mem _ h)

theorem mem_rdel {K V} [DecidableEq K] {k : K} : ∀ {l : List (K × V)} {x : K × V}, x ∈ rdel k l → x ∈ l
  | [], x, h => by simp [rdel] at h
  | (k', v') :: t, x, h => by
    simp only [rdel] at h
    split at h
    · exact List.mem_cons_of_mem _ (mem_rdel h)
    · simp at h
      rcases h with h | h
      · simp [h]
      · exact List.mem_cons_of_mem _ (mem_rdel h)

theorem mem_of_rget {K V} [DecidableEq K] {k : K} {v : V} : ∀ {l : List (K × V)}, rget k l = some v → (k, v) ∈ l
  | [], h => by simp [rget] at h
  | (k', v') :: t, h => by
    simp only [rget] at h
    split at h
    · rename_i hk; simp at h; simp [hk, h]
    · exact List.mem_cons_of_mem _ (mem_of_rget h)

/-! ### predicates on all objects -/

/-- every object satisfies `P`, every entry point type satisfies `E` -/
def AllObj (P : Obj → Prop) (E : Ty → Prop) (S : Schemas) : Prop :=
  ∀ s ∈ S, E s.entryPointType ∧ ∀ ko ∈ s.objects, P ko.2

theorem schemasAll_eq_AllObj (top : Obj → Bool) (inner : Ty → Bool) (S : Schemas) :
    schemasAll top inner S = true ↔ AllObj (fun o => top o = true) (fun t => inner t = true) S :=
  schemasAll_iff top inner S

theorem addObjects_mem {objs : List Obj} : ∀ {m : Objects} {x : String × Obj},
    x ∈ addObjects objs m → x ∈ m ∨ x.2 ∈ objs := by
  induction objs with
  | nil => intro m x h; simp [addObjects] at h; exact Or.inl h
  | cons o os ih =>
    intro m x h
    simp only [addObjects, List.foldl_cons] at h
    rcases ih (m := rset o.name o m) h with h | h
    · rcases mem_rset h with h | h
      · exact Or.inr (by simp [h])
      · exact Or.inl h
    · exact Or.inr (List.mem_cons_of_mem _ h)

/-! ### the frames -/

theorem visitObjectsPure_mem {v : Ty → Outcome Ty} : ∀ {os acc out : Objects},
    visitObjectsPure v os acc = .ok out → ∀ x ∈ out,
      x ∈ acc ∨ ∃ ko ∈ os, ∃ t, v ko.2.ty = .ok t ∧ x.2 = { ko.2 with ty := t }
  | [], acc, out, h, x, hx => by simp [visitObjectsPure] at h; subst h; exact Or.inl hx
  | (k, o) :: rest, acc, out, h, x, hx => by
    simp only [visitObjectsPure] at h
    cases hv : v o.ty with
    | ok t =>
      rw [hv] at h
      rcases visitObjectsPure_mem h x hx with h1 | ⟨ko, hko, t', ht', hx'⟩
      · rcases mem_rset h1 with h2 | h2
        · exact Or.inr ⟨(k, o), by simp, t, hv, by simp [h2]⟩
        · exact Or.inl h2
      · exact Or.inr ⟨ko, List.mem_cons_of_mem _ hko, t', ht', hx'⟩
    | err e => rw [hv] at h; cases h
    | panic e => rw [hv] at h; cases h

/-- what a stateless visitor pass does to a schema -/
theorem visitSchemaPure_spec {v : Ty → Outcome Ty} {s s' : Schema} (h : visitSchemaPure v s = .ok s') :
    v s.entryPointType = .ok s'.entryPointType ∧ s'.pkg = s.pkg ∧
    ∀ x ∈ s'.objects, ∃ ko ∈ s.objects, ∃ t, v ko.2.ty = .ok t ∧ x.2 = { ko.2 with ty := t } := by
  simp only [visitSchemaPure] at h
  cases he : v s.entryPointType with
  | ok ept =>
    rw [he] at h
    simp only at h
    cases ho : visitObjectsPure v s.objects [] with
    | ok objs =>
      rw [ho] at h
      simp at h
      subst h
      refine ⟨rfl, rfl, ?_⟩
      intro x hx
      rcases visitObjectsPure_mem ho x hx with h1 | h1
      · simp at h1
      · exact h1
    | err e => rw [ho] at h; cases h
    | panic e => rw [ho] at h; cases h
  | err e => rw [he] at h; cases h
  | panic e => rw [he] at h; cases h

theorem visitSchemasFrom_spec {f : Schemas → Schema → Outcome Schema} : ∀ {rest done out : Schemas},
    visitSchemasFrom f done rest = .ok out →
    ∀ s' ∈ out, s' ∈ done ∨ ∃ cur, ∃ s ∈ rest, f cur s = .ok s' ∧ (∀ x ∈ cur, x ∈ out ∨ x ∈ rest)
  | [], done, out, h, s', hs' => by simp [visitSchemasFrom] at h; subst h; exact Or.inl hs'
  | s :: rest, done, out, h, s', hs' => by
    simp only [visitSchemasFrom] at h
    cases hf : f (done ++ s :: rest) s with
    | ok s1 =>
      rw [hf] at h
      have hdone : ∀ x ∈ done ++ [s1], x ∈ out := by
        intro x hx
        -- everything already done stays in the output
        have : ∀ {rest done out : Schemas}, visitSchemasFrom f done rest = .ok out → ∀ x ∈ done, x ∈ out := by
          intro rest
          induction rest with
          | nil => intro done out h x hx; simp [visitSchemasFrom] at h; subst h; exact hx
          | cons r rs ih =>
            intro done out h x hx
            simp only [visitSchemasFrom] at h
            cases hf' : f (done ++ r :: rs) r with
            | ok r1 => rw [hf'] at h; exact ih h x (by simp [hx])
            | err e => rw [hf'] at h; cases h
            | panic e => rw [hf'] at h; cases h
        exact this h x hx
      rcases visitSchemasFrom_spec h s' hs' with h1 | ⟨cur, s0, hs0, hf0, hcur⟩
      · simp at h1
        rcases h1 with h1 | h1
        · exact Or.inl h1
        · subst h1
          refine Or.inr ⟨done ++ s :: rest, s, by simp, hf, ?_⟩
          intro x hx
          simp at hx
          rcases hx with hx | hx | hx
          · exact Or.inl (hdone x (by simp [hx]))
          · exact Or.inr (by simp [hx])
          · exact Or.inr (by simp [hx])
      · exact Or.inr ⟨cur, s0, List.mem_cons_of_mem _ hs0, hf0, fun x hx => by
          rcases hcur x hx with h2 | h2
          · exact Or.inl h2
          · exact Or.inr (List.mem_cons_of_mem _ h2)⟩
    | err e => rw [hf] at h; cases h
    | panic e => rw [hf] at h; cases h

/-- every schema of the output of `visitSchemas f` is `f cur s` for an input schema `s`, where `cur`
    consists of output schemas and input schemas only -/
theorem visitSchemas_spec {f : Schemas → Schema → Outcome Schema} {S out : Schemas}
    (h : visitSchemas f S = .ok out) :
    ∀ s' ∈ out, ∃ cur, ∃ s ∈ S, f cur s = .ok s' ∧ (∀ x ∈ cur, x ∈ out ∨ x ∈ S) := by
  intro s' hs'
  rcases visitSchemasFrom_spec h s' hs' with h1 | h1
  · simp at h1
  · exact h1

/-! ### resolution -/

theorem Schema.resolve_spec {s : Schema} : ∀ {fuel : Nat} {t r : Ty},
    Schema.resolve s fuel t = .ok (some r) → r = t ∨ ∃ ko ∈ s.objects, r = ko.2.ty
  | 0, t, r, h => by simp [Schema.resolve] at h
  | fuel + 1, t, r, h => by
    simp only [Schema.resolve] at h
    split at h
    · rename_i pkg name m
      split at h
      · rename_i o ho
        rcases Schema.resolve_spec h with h1 | h1
        · exact Or.inr ⟨(name, o), mem_of_rget ho, h1⟩
        · exact Or.inr h1
      · simp at h
    · simp at h; exact Or.inl h.symm

theorem locate_mem : ∀ {ss : Schemas} {pkg : String} {s : Schema}, Schemas.locate ss pkg = some s → s ∈ ss
  | [], _, _, h => by simp [Schemas.locate] at h
  | s0 :: rest, pkg, s, h => by
    simp only [Schemas.locate] at h
    split at h
    · simp at h; simp [h]
    · exact List.mem_cons_of_mem _ (locate_mem h)

theorem resolveToType_spec {ss : Schemas} : ∀ {fuel : Nat} {t r : Ty},
    Schemas.resolveToType ss fuel t = some r → r = t ∨ ∃ s ∈ ss, ∃ ko ∈ s.objects, r = ko.2.ty
  | 0, t, r, h => by simp [Schemas.resolveToType] at h
  | fuel + 1, t, r, h => by
    simp only [Schemas.resolveToType] at h
    split at h
    · rename_i pkg name m
      split at h
      · rename_i o ho
        simp only [Schemas.locateObject] at ho
        split at ho
        · rename_i s hs
          have hmem : (name, o) ∈ s.objects := mem_of_rget ho
          rcases resolveToType_spec h with h1 | h1
          · exact Or.inr ⟨s, locate_mem hs, (name, o), hmem, h1⟩
          · exact Or.inr h1
        · simp at ho
      · simp at h; exact Or.inl h.symm
    · simp at h; exact Or.inl h.symm

end Cog.NF
