/-
  C06: assembling chain-level theorems from per-pass lemmas along a REGENERATED pass list.

  `chainCheck p keepsPre keepsPost chain` is a decidable check on the concrete list: the first
  occurrence of `p` splits it into passes that all satisfy `keepsPre` and passes that all satisfy
  `keepsPost`.  `chain_via` lifts it: if the tables are sound (each flagged pass really keeps the
  invariant) then the chain establishes the post-condition.  The check is discharged by `decide` on
  `Cog.Gen.Chains.<lang>Chain`, so editing CompilerPasses() in /repo re-opens the obligation.
-/
import Cog.NF.AnonStructs
namespace Cog.NF
open Cog.IR Cog.Passes

def splitOn (p : PassId) : List PassId → Option (List PassId × List PassId)
  | [] => none
  | x :: xs => if x = p then some ([], xs) else (splitOn p xs).map fun ab => (x :: ab.1, ab.2)

theorem splitOn_eq {p : PassId} : ∀ {ps pre post : List PassId}, splitOn p ps = some (pre, post) → ps = pre ++ p :: post
  | [], _, _, h => by simp [splitOn] at h
  | x :: xs, pre, post, h => by
    simp only [splitOn] at h
    split at h
    · rename_i hx; simp at h; obtain ⟨rfl, rfl⟩ := h; simp [hx]
    · cases hs : splitOn p xs with
      | none => simp [hs] at h
      | some ab =>
        simp [hs] at h
        obtain ⟨rfl, rfl⟩ := h
        simp [splitOn_eq (ps := xs) (pre := ab.1) (post := ab.2) (by rw [hs])]

def chainCheck (p : PassId) (keepsPre keepsPost : PassId → Bool) (chain : List PassId) : Bool :=
  match splitOn p chain with
  | some (pre, post) => pre.all keepsPre && post.all keepsPost
  | none => false

theorem chain_via {H Q : Schemas → Prop} (p : PassId) (keepsPre keepsPost : PassId → Bool) (chain : List PassId)
    (hpre : ∀ x, keepsPre x = true → Keeps H x) (hp : Establishes H Q p) (hpost : ∀ x, keepsPost x = true → Keeps Q x)
    (hcheck : chainCheck p keepsPre keepsPost chain = true)
    (S S' : Schemas) (hH : H S) (h : runChain chain S = .ok S') : Q S' := by
  simp only [chainCheck] at hcheck
  cases hs : splitOn p chain with
  | none => simp [hs] at hcheck
  | some ab =>
    obtain ⟨pre, post⟩ := ab
    simp only [hs, Bool.and_eq_true, List.all_eq_true] at hcheck
    rw [splitOn_eq hs] at h
    exact runChain_establishes pre p post (fun q hq => hpre q (hcheck.1 q hq)) hp
      (fun q hq => hpost q (hcheck.2 q hq)) S S' hH h

/-! ### tables -/

/-- tests that constrain neither enums nor the branch lists of unions and for which raising
    Nullable is harmless: every stateless visitor pass below keeps them -/
structure Q.Plain (q : Q) : Prop where
  mono : q.Mono
  enumFree : q.EnumFree
  disjConst : q.DisjConst
  enumConst : q.EnumConst

/-- passes with a preservation lemma for every `Plain` test -/
def keepsPlain : PassId → Bool
  | .notRequiredFieldAsNullableType => true
  | .disjunctionWithNullToOptional => true
  | .disjunctionOfConstantsToEnum => true
  | .flattenDisjunctions => true
  | .disjunctionInferMapping => true
  | .renameNumericEnumValues => true
  | _ => false

theorem keepsPlain_sound (q : Q) (hq : q.Plain) (p : PassId) (h : keepsPlain p = true) : Keeps (AllTop q) p := by
  intro S S' hS hr
  cases p <;> simp [keepsPlain] at h
  · exact keeps_NotRequiredFieldAsNullableType q hq.mono hq.disjConst S S' hS hr
  · exact keeps_DisjunctionWithNullToOptional q hq.mono S S' hS hr
  · exact keeps_DisjunctionOfConstantsToEnum q hq.enumFree S S' hS hr
  · exact keeps_FlattenDisjunctions q hq.disjConst S S' hS hr
  · exact keeps_DisjunctionInferMapping q S S' hS hr
  · exact keeps_RenameNumericEnumValues q hq.enumConst S S' hS hr

theorem qNoStruct_plain : qNoStruct.Plain :=
  ⟨fun _ _ h => h, ⟨rfl, fun _ => rfl⟩, fun _ _ => rfl, fun _ _ => rfl⟩
theorem qNrn_plain : qNrn.Plain :=
  ⟨fun req n h => by simp [qNrn] at h ⊢, ⟨rfl, fun _ => rfl⟩, fun _ _ => rfl, fun _ _ => rfl⟩
theorem qIdx_plain : qIdx.Plain :=
  ⟨fun _ _ h => h, ⟨rfl, fun _ => rfl⟩, fun _ _ => rfl, fun _ _ => rfl⟩

end Cog.NF
